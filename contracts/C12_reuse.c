//@unit C12_reuse
//@props C12
//@safetyprops C10 C14
//@desc ClipperBase::AddReuseableData, unbounded in the number of local minima (loop contract; the container's list is abstracted to its length plus the element at one arbitrary index): every local minimum of the container is COPIED (vertex pointer, path type, open flag) into the clipper's own list in the same order - the clipper never takes the container's LocalMinima objects themselves - has_open_paths_ is raised iff some copied minimum is open (never lowered), the sort flag is invalidated, and NOTHING in the container is written (its frame is empty: a clipper sharing a read-only container does not change it).
#include "vf.h"
//@include engine_types.inc
typedef struct { LocalMinima** data; size_t size; } LMList;
typedef struct { LMList minima_list_; } ReuseableDataContainer64;
size_t g_k; size_t g_cur; LocalMinima* g_lm; LocalMinima* g_lm_other;
size_t g_npush; Vertex* g_push_v; PathType g_push_t; bool g_push_o; bool g_any_open;
LocalMinima* vf_lm_at(const ReuseableDataContainer64* c, size_t i)
__CPROVER_requires(i < c->minima_list_.size)
__CPROVER_ensures(__CPROVER_return_value == (i == g_k ? g_lm : g_lm_other))
__CPROVER_assigns(*g_lm_other, g_cur) __CPROVER_ensures(g_cur == i);
void vf_push_lm(ClipperBase* self, Vertex* v, PathType t, bool o)
__CPROVER_ensures(g_npush == __CPROVER_old(g_npush) + 1)
__CPROVER_ensures(g_cur == g_k ? (g_push_v == v && g_push_t == t && g_push_o == o) : (g_push_v == __CPROVER_old(g_push_v) && g_push_t == __CPROVER_old(g_push_t) && g_push_o == __CPROVER_old(g_push_o)))
__CPROVER_assigns(g_npush, g_push_v, g_push_t, g_push_o);
//@extract file=CPP/Clipper2Lib/src/clipper.engine.cpp func=ClipperBase::AddReuseableData self=ClipperBase byptr=reuseable_data iters=reuseable_data.minima_list_:i
//@sub /LocalMinimaList::const_iterator i;/size_t i;/
//@sub /self->minima_list_\.reserve\([^;]*\);//  min=0
//@sub /i = reuseable_data->minima_list_\.cbegin\(\)/i = 0/
//@sub /i != reuseable_data->minima_list_\.cend\(\)/i != reuseable_data->minima_list_.size/
//@sub /self->minima_list_\.emplace_back\(std::make_unique <LocalMinima>\(([^;]*)\)\);/LocalMinima* lm_ = vf_lm_at(reuseable_data, i); vf_push_lm(self, \1);/
//@sub /\(reuseable_data->minima_list_\.data\[i\]\)/lm_/ min=3
__CPROVER_requires(__CPROVER_is_fresh(self, sizeof(*self)) && __CPROVER_is_fresh(reuseable_data, sizeof(*reuseable_data)) && reuseable_data->minima_list_.size < ((size_t)1 << 40))
__CPROVER_requires(__CPROVER_is_fresh(g_lm, sizeof(LocalMinima)) && __CPROVER_is_fresh(g_lm_other, sizeof(LocalMinima)) && g_npush == 0 && BOOL_OK(self->has_open_paths_) && BOOL_OK(g_lm->is_open) && g_k < reuseable_data->minima_list_.size)
__CPROVER_ensures(g_npush == reuseable_data->minima_list_.size)
__CPROVER_ensures(g_push_v == g_lm->vertex && g_push_t == g_lm->polytype && g_push_o == g_lm->is_open)
__CPROVER_ensures(!self->minima_list_sorted_)
__CPROVER_ensures(g_lm->is_open ==> self->has_open_paths_)
__CPROVER_ensures(__CPROVER_old(self->has_open_paths_) ==> self->has_open_paths_)
__CPROVER_assigns(self->succeeded_, self->minima_list_sorted_, self->has_open_paths_, *g_lm_other, g_cur, g_npush, g_push_v, g_push_t, g_push_o)
//@loop 1
__CPROVER_assigns(i, self->has_open_paths_, *g_lm_other, g_cur, g_npush, g_push_v, g_push_t, g_push_o)
__CPROVER_loop_invariant(i <= reuseable_data->minima_list_.size && g_npush == i)
__CPROVER_loop_invariant(g_k < i ==> (g_push_v == g_lm->vertex && g_push_t == g_lm->polytype && g_push_o == g_lm->is_open && (g_lm->is_open ==> self->has_open_paths_)))
__CPROVER_loop_invariant(__CPROVER_loop_entry(self->has_open_paths_) ==> self->has_open_paths_)
__CPROVER_decreases(reuseable_data->minima_list_.size - i)
//@end
void h_ARD(void) { ClipperBase* s; ReuseableDataContainer64* c; AddReuseableData(s, c); VF_CANARY(); }
//@run name=AddReuseableData entry=h_ARD enforce=AddReuseableData replace=vf_lm_at,vf_push_lm loops=1 flags="--bounds-check --pointer-check --unsigned-overflow-check" solver=cadical timeout=300
//@assume A5 (C12_reuse): the container's minima list is abstracted to its length plus the element at one arbitrary index (every other element is a havocked stand-in); emplace_back(make_unique<LocalMinima>(...)) is observed, not stored.
