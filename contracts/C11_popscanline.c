//@unit C11_popscanline
//@props C11
//@desc ClipperBase::InsertScanline (loop-free): exactly the y asked for is scheduled, once. ClipperBase::PopScanline - BOUNDED (queue of 0..4 pending scanlines, any values, duplicates anywhere; std::priority_queue is modelled by its specification: top() is the largest element, pop() removes one copy of it, both only on a non-empty queue): an empty queue gives false and leaves y alone; otherwise y is the LARGEST pending scanline, EVERY copy of it is removed and nothing else is - so each later PopScanline returns a strictly smaller y: the sweep visits every scheduled scanline once, in strictly decreasing order, which is what bounds the main loop of ExecuteInternal by the number of distinct scheduled y values.
#include "vf.h"
//@include engine_types.inc
int64_t g_q[4]; size_t g_n, g_head;    /* pending scanlines, largest first: g_q[g_head .. g_n) */
static bool vf_pq_empty(void) { return g_head == g_n; }
static int64_t vf_pq_top(void) { __CPROVER_assert(g_head < g_n, "top() on a non-empty queue"); return g_q[g_head]; }
static void vf_pq_pop(void) { __CPROVER_assert(g_head < g_n, "pop() on a non-empty queue"); g_head++; }
int64_t g_pushed_y; int g_npushed;
static void vf_pq_push(int64_t y) { g_pushed_y = y; g_npushed++; }
//@extract file=CPP/Clipper2Lib/src/clipper.engine.cpp func=ClipperBase::InsertScanline self=ClipperBase
//@sub /self->scanline_list_\.push\(/vf_pq_push(/
//@end
//@extract file=CPP/Clipper2Lib/src/clipper.engine.cpp func=ClipperBase::PopScanline self=ClipperBase byptr=y
//@sub /self->scanline_list_\.empty\(\)/vf_pq_empty()/ min=1
//@sub /self->scanline_list_\.top\(\)/vf_pq_top()/ min=1
//@sub /self->scanline_list_\.pop\(\)/vf_pq_pop()/ min=1
//@end
int64_t nondet_i64(void); size_t nondet_size(void);
void h_PS(void)
{
  ClipperBase cb; g_n = nondet_size(); __CPROVER_assume(g_n <= 4); g_head = 0;
  for (size_t i = 0; i < 4; ++i) g_q[i] = nondet_i64();
  for (size_t i = 1; i < 4; ++i) if (i < g_n) __CPROVER_assume(g_q[i - 1] >= g_q[i]);     /* a priority queue: largest first */
  int64_t y0 = nondet_i64(), y = y0;
  bool r = PopScanline(&cb, &y);
  __CPROVER_assert(r == (g_n > 0), "false exactly on an empty queue");
  if (!r) __CPROVER_assert(y == y0 && g_head == 0, "and then nothing changes");
  else {
    __CPROVER_assert(y == g_q[0], "the largest pending scanline");
    __CPROVER_assert(g_head >= 1 && g_head <= g_n, "at least one entry consumed, never more than there are");
    for (size_t i = 0; i < 4; ++i) if (i < g_n) __CPROVER_assert((i < g_head) == (g_q[i] == y), "every copy of y is removed and nothing else: what is left is strictly below y");
  }
  VF_CANARY();
}
void h_IS(void)
{
  ClipperBase cb; int64_t y = nondet_i64(); g_npushed = 0;
  InsertScanline(&cb, y);
  __CPROVER_assert(g_npushed == 1 && g_pushed_y == y, "the scanline asked for is scheduled, once, unchanged");
  VF_CANARY();
}
//@run name=InsertScanline entry=h_IS flags="--bounds-check --pointer-check" timeout=120
//@run name=PopScanline entry=h_PS unwind=6 flags="--bounds-check --pointer-check" timeout=120 bounded="queue of 0..4 scanlines"
