//@unit C04_build
//@props C04 C05 C16
//@safetyprops C14
//@desc The four solution builders — Clipper64::BuildPaths64, Clipper64::BuildTree64, ClipperD::BuildPathsD, ClipperD::BuildTreeD — unbounded in the number of OutRecs (loop contracts), with the callees as logging stubs that MAY APPEND to outrec_list_ (CleanCollinear / CheckBounds split polygons): every OutRec in the FINAL list is visited exactly once (ghost: one arbitrary index), in the paths and in the tree variant alike: an open OutRec is built with isOpen = true and goes to the open solution, a closed one is cleaned (paths) / bounds-checked (tree: CheckBounds, then RecursiveCheckOwners iff it returned true, with the caller's polytree) and built with isOpen = false, always with reverse_solution_ (and invScale_ for the D variants); OutRecs without points are skipped.
#include "vf.h"
//@include engine_types.inc
typedef struct { size_t size, cap; } PathsObs;          /* solutions: only counted */
typedef PathsObs Paths64; typedef PathsObs PathsD; typedef struct { int dummy; } PathObs; typedef PathObs PathD;
typedef struct { int cleared; } PolyPath64; typedef PolyPath64 PolyPathD;
#ifdef DVAR
typedef struct { VF_Vec outrec_list_; bool reverse_solution_, has_open_paths_; double invScale_; } ClipperS;
#else
typedef ClipperBase ClipperS;
#endif
/* ghost: one arbitrary index of the final list, and what happened to it */
size_t g_i, g_cur; bool g_null;            /* g_cur: index the loop is at (set next to the real element fetch) */
int g_cc, g_bp, g_cb, g_rco, g_push_open, g_push_closed; bool g_bp_rev, g_bp_open; double g_bp_scale; OutPt* g_bp_op; void* g_rco_tree;
bool g_bp_ret, g_cb_ret; OutPt* g_pts_after;     /* what the stubs answer for g_i */
size_t g_cap;
#ifdef STATICOBJ   /* paths variants: the two OutRecs are static objects (keeps the frame of CleanCollinear, which replaces ->pts, cheap) */
OutRec vf_o, vf_other;
#define g_o (&vf_o)
#define g_other (&vf_other)
#define OBJS_FRESH 1
#else
OutRec* g_o; OutRec* g_other;
#define OBJS_FRESH (__CPROVER_is_fresh(g_o, sizeof(OutRec)) && __CPROVER_is_fresh(g_other, sizeof(OutRec)))
#endif
              /* the OutRec at index g_i; a stand-in for every other element (havocked at each fetch) */
/* element fetch: outrec_list_[i] is a valid OutRec (NewOutRec never stores null; BuildTree's `!outrec` test is defensive) */
OutRec* vf_at(ClipperS* self, size_t i)
__CPROVER_requires(i < self->outrec_list_.size)
__CPROVER_ensures(__CPROVER_return_value == (i == g_i ? g_o : g_other))
__CPROVER_assigns(*g_other);
#define GROW(s) ((s)->outrec_list_.size >= __CPROVER_old((s)->outrec_list_.size) && (s)->outrec_list_.size <= g_cap)
#ifdef STATICOBJ
void CleanCollinear(ClipperS* self, OutRec* outrec)
__CPROVER_requires(outrec == (g_cur == g_i ? g_o : g_other))
__CPROVER_ensures(GROW(self) && (g_cur == g_i ==> (g_cc == __CPROVER_old(g_cc) + 1 && vf_o.pts == g_pts_after)) && (g_cur != g_i ==> (g_cc == __CPROVER_old(g_cc) && vf_o.pts == __CPROVER_old(vf_o.pts))))
__CPROVER_assigns(self->outrec_list_.size, g_cc, vf_o.pts, vf_other.pts);
#endif
bool CheckBounds(ClipperS* self, OutRec* outrec)
__CPROVER_requires(outrec == (g_cur == g_i ? g_o : g_other)) BOOL_RET
__CPROVER_ensures(GROW(self) && (g_cur == g_i ==> (g_cb == __CPROVER_old(g_cb) + 1 && __CPROVER_return_value == g_cb_ret)) && (g_cur != g_i ==> g_cb == __CPROVER_old(g_cb)))
__CPROVER_assigns(self->outrec_list_.size, g_cb);
void RecursiveCheckOwners(ClipperS* self, OutRec* outrec, void* polytree)
__CPROVER_requires(outrec == (g_cur == g_i ? g_o : g_other))
__CPROVER_ensures(g_cur == g_i ==> (g_rco == __CPROVER_old(g_rco) + 1 && g_rco_tree == polytree))
__CPROVER_ensures(g_cur != g_i ==> (g_rco == __CPROVER_old(g_rco) && g_rco_tree == __CPROVER_old(g_rco_tree)))
__CPROVER_assigns(g_rco, g_rco_tree);
bool vf_BuildPath(OutPt* op, bool reverse, bool isOpen, void* path, double inv_scale)
BOOL_RET
__CPROVER_ensures(g_cur == g_i ==> (g_bp == __CPROVER_old(g_bp) + 1 && g_bp_op == op && g_bp_rev == reverse && g_bp_open == isOpen && g_bp_scale == inv_scale && __CPROVER_return_value == g_bp_ret))
__CPROVER_ensures(g_cur != g_i ==> (g_bp == __CPROVER_old(g_bp) && g_bp_op == __CPROVER_old(g_bp_op) && g_bp_rev == __CPROVER_old(g_bp_rev) && g_bp_open == __CPROVER_old(g_bp_open) && g_bp_scale == __CPROVER_old(g_bp_scale)))
__CPROVER_assigns(g_bp, g_bp_op, g_bp_rev, g_bp_open, g_bp_scale);
#define BuildPath64(op, rev, isOpen, path) vf_BuildPath(op, rev, isOpen, &(path), 0.0)
#define BuildPathD(op, rev, isOpen, path, sc) vf_BuildPath(op, rev, isOpen, &(path), sc)
void vf_push(PathsObs* v, bool open)
__CPROVER_requires(v->size < ((size_t)1 << 41))
__CPROVER_ensures(v->size == __CPROVER_old(v->size) + 1)
__CPROVER_ensures(g_cur == g_i ==> (open ? (g_push_open == __CPROVER_old(g_push_open) + 1 && g_push_closed == __CPROVER_old(g_push_closed)) : (g_push_closed == __CPROVER_old(g_push_closed) + 1 && g_push_open == __CPROVER_old(g_push_open))))
__CPROVER_ensures(g_cur != g_i ==> (g_push_open == __CPROVER_old(g_push_open) && g_push_closed == __CPROVER_old(g_push_closed)))
__CPROVER_assigns(v->size, g_push_open, g_push_closed);
#define STATE_OK(self) (__CPROVER_is_fresh(self, sizeof(*self)) && OBJS_FRESH && g_cap < ((size_t)1 << 30) && self->outrec_list_.size <= g_cap && \
   g_cc == 0 && g_bp == 0 && g_cb == 0 && g_rco == 0 && g_push_open == 0 && g_push_closed == 0 && g_i < g_cap && !g_null && BOOL_OK(g_bp_ret) && BOOL_OK(g_cb_ret) && BOOL_OK(self->reverse_solution_) && BOOL_OK(self->has_open_paths_) && BOOL_OK(g_o->is_open))
#define O_I(self) (*g_o)
#define VISITED(self) (g_i < self->outrec_list_.size)
/* per-element outcome, tree variants */
#define SKIP_I(self, pts0) (g_null || (pts0) == NULL)
#define NOTHING (g_bp == 0 && g_cb == 0 && g_rco == 0 && g_cc == 0 && g_push_open == 0 && g_push_closed == 0)
#define TREE_POST(self, tree, pts0, open0, SCALE) ( \
   (SKIP_I(self, pts0) ==> NOTHING) && \
   ((!SKIP_I(self, pts0) && (open0)) ==> (g_bp == 1 && g_bp_op == (pts0) && g_bp_open && g_bp_rev == self->reverse_solution_ && g_bp_scale == (SCALE) && g_cb == 0 && g_rco == 0 && g_cc == 0 && g_push_open == (g_bp_ret ? 1 : 0) && g_push_closed == 0)) && \
   ((!SKIP_I(self, pts0) && !(open0)) ==> (g_cb == 1 && g_bp == 0 && g_cc == 0 && g_rco == (g_cb_ret ? 1 : 0) && (g_cb_ret ==> g_rco_tree == (void*)(tree)) && g_push_open == 0 && g_push_closed == 0)))
#ifdef TREE64
//@extract file=CPP/Clipper2Lib/src/clipper.engine.cpp func=Clipper64::BuildTree64 self=ClipperS vec=outrec_list_ byptr=polytree,open_paths selfcalls=CheckBounds,RecursiveCheckOwners ifdef=TREE64
//@sub /polytree->Clear\(\);/polytree->cleared = 1;/
//@sub /open_paths->resize\(0\);/open_paths->size = 0;/
//@sub /open_paths->reserve\(([^;]*)\);/open_paths->cap = \1;/
//@sub /OutRec\* outrec = self->outrec_list_\.data\[i\];/g_cur = i; OutRec* outrec = vf_at(self, i);/
//@sub /open_paths->emplace_back\(move\(path\)\);/vf_push(open_paths, true);/
//@sub /&\(\*polytree\)/polytree/ min=0
__CPROVER_requires(STATE_OK(self) && __CPROVER_is_fresh(polytree, sizeof(*polytree)) && __CPROVER_is_fresh(open_paths, sizeof(*open_paths)))
__CPROVER_ensures(polytree->cleared == 1)
__CPROVER_ensures(!VISITED(self) ==> NOTHING)
__CPROVER_ensures(VISITED(self) ==> TREE_POST(self, polytree, O_I(self).pts, O_I(self).is_open, 0.0))
__CPROVER_assigns(*polytree, *open_paths, *g_other, self->outrec_list_.size, g_cur, g_bp, g_bp_op, g_bp_rev, g_bp_open, g_bp_scale, g_cb, g_rco, g_rco_tree, g_push_open, g_push_closed)
//@loop 1
__CPROVER_assigns(i, open_paths->size, *g_other, self->outrec_list_.size, g_cur, g_bp, g_bp_op, g_bp_rev, g_bp_open, g_bp_scale, g_cb, g_rco, g_rco_tree, g_push_open, g_push_closed)
__CPROVER_loop_invariant(i <= self->outrec_list_.size && self->outrec_list_.size <= g_cap && open_paths->size <= i)
__CPROVER_loop_invariant(g_i >= i ==> NOTHING)
__CPROVER_loop_invariant(g_i < i ==> TREE_POST(self, polytree, O_I(self).pts, O_I(self).is_open, 0.0))
__CPROVER_decreases(g_cap - i)
//@end
void h_BuildTree64(void) { ClipperS* s; PolyPath64* t; Paths64* o; BuildTree64(s, t, o); VF_CANARY(); }
#endif
#ifdef TREED
//@extract file=CPP/Clipper2Lib/src/clipper.engine.cpp func=ClipperD::BuildTreeD self=ClipperS vec=outrec_list_ byptr=polytree,open_paths selfcalls=CheckBounds,RecursiveCheckOwners ifdef=TREED
//@sub /polytree->Clear\(\);/polytree->cleared = 1;/
//@sub /open_paths->resize\(0\);/open_paths->size = 0;/
//@sub /open_paths->reserve\(([^;]*)\);/open_paths->cap = \1;/
//@sub /OutRec\* outrec = self->outrec_list_\.data\[i\];/g_cur = i; OutRec* outrec = vf_at(self, i);/
//@sub /open_paths->emplace_back\(move\(path\)\);/vf_push(open_paths, true);/
//@sub /&\(\*polytree\)/polytree/ min=0
__CPROVER_requires(STATE_OK(self) && __CPROVER_is_fresh(polytree, sizeof(*polytree)) && __CPROVER_is_fresh(open_paths, sizeof(*open_paths)))
__CPROVER_ensures(polytree->cleared == 1)
__CPROVER_ensures(!VISITED(self) ==> NOTHING)
__CPROVER_ensures(VISITED(self) ==> TREE_POST(self, polytree, O_I(self).pts, O_I(self).is_open, self->invScale_))
__CPROVER_assigns(*polytree, *open_paths, *g_other, self->outrec_list_.size, g_cur, g_bp, g_bp_op, g_bp_rev, g_bp_open, g_bp_scale, g_cb, g_rco, g_rco_tree, g_push_open, g_push_closed)
//@loop 1
__CPROVER_assigns(i, open_paths->size, *g_other, self->outrec_list_.size, g_cur, g_bp, g_bp_op, g_bp_rev, g_bp_open, g_bp_scale, g_cb, g_rco, g_rco_tree, g_push_open, g_push_closed)
__CPROVER_loop_invariant(i <= self->outrec_list_.size && self->outrec_list_.size <= g_cap && open_paths->size <= i)
__CPROVER_loop_invariant(g_i >= i ==> NOTHING)
__CPROVER_loop_invariant(g_i < i ==> TREE_POST(self, polytree, O_I(self).pts, O_I(self).is_open, self->invScale_))
__CPROVER_decreases(g_cap - i)
//@end
void h_BuildTreeD(void) { ClipperS* s; PolyPathD* t; PathsD* o; BuildTreeD(s, t, o); VF_CANARY(); }
#endif
#ifdef OPENSOL
#define SOLOPEN_REQ __CPROVER_is_fresh(solutionOpen, sizeof(*solutionOpen))
#define SOLOPEN_ASG(t) t,
#else
#define SOLOPEN_REQ (solutionOpen == NULL)
#define SOLOPEN_ASG(t)
#endif
/* per-element outcome, paths variants: pts0/open0 = the OutRec's points and flag when the loop reaches it */
#define PATHS_POST(self, wantopen, pts0, open0, SCALE) ( \
   (SKIP_I(self, pts0) ==> NOTHING) && \
   ((!SKIP_I(self, pts0) && (wantopen) && (open0)) ==> (g_bp == 1 && g_bp_op == (pts0) && g_bp_open && g_bp_rev == self->reverse_solution_ && g_bp_scale == (SCALE) && g_cc == 0 && g_cb == 0 && g_rco == 0 && g_push_open == (g_bp_ret ? 1 : 0) && g_push_closed == 0)) && \
   ((!SKIP_I(self, pts0) && !((wantopen) && (open0))) ==> (g_cc == 1 && g_bp == 1 && g_bp_op == g_pts_after && !g_bp_open && g_bp_rev == self->reverse_solution_ && g_bp_scale == (SCALE) && g_cb == 0 && g_rco == 0 && g_push_closed == (g_bp_ret ? 1 : 0) && g_push_open == 0)))
#ifdef PATHS64
//@extract file=CPP/Clipper2Lib/src/clipper.engine.cpp func=Clipper64::BuildPaths64 self=ClipperS vec=outrec_list_ byptr=solutionClosed selfcalls=CleanCollinear ifdef=PATHS64
//@sub /solutionClosed->resize\(0\);/solutionClosed->size = 0;/
//@sub /solutionOpen->resize\(0\);/solutionOpen->size = 0;/
//@sub /solution(Closed|Open)->reserve\(([^;]*)\);/solution\1->cap = \2;/ min=2
//@sub /OutRec\* outrec = self->outrec_list_\.data\[i\];/g_cur = i; OutRec* outrec = vf_at(self, i);/
//@sub /solutionOpen->emplace_back\(move\(path\)\);/vf_push(solutionOpen, true);/
//@sub /solutionClosed->emplace_back\(move\(path\)\);/vf_push(solutionClosed, false);/
__CPROVER_requires(STATE_OK(self) && __CPROVER_is_fresh(solutionClosed, sizeof(*solutionClosed)) && SOLOPEN_REQ)
__CPROVER_ensures(!VISITED(self) ==> NOTHING)
__CPROVER_ensures(VISITED(self) ==> PATHS_POST(self, solutionOpen != NULL, __CPROVER_old(g_o->pts), g_o->is_open, 0.0))
__CPROVER_assigns(SOLOPEN_ASG(*solutionOpen) *solutionClosed, vf_other, vf_o.pts, self->outrec_list_.size, g_cur, g_cc, g_bp, g_bp_op, g_bp_rev, g_bp_open, g_bp_scale, g_push_open, g_push_closed)
//@loop 1
__CPROVER_assigns(SOLOPEN_ASG(solutionOpen->size) i, solutionClosed->size, vf_other, vf_o.pts, self->outrec_list_.size, g_cur, g_cc, g_bp, g_bp_op, g_bp_rev, g_bp_open, g_bp_scale, g_push_open, g_push_closed)
__CPROVER_loop_invariant(i <= self->outrec_list_.size && self->outrec_list_.size <= g_cap && solutionClosed->size <= i && (solutionOpen != NULL ==> solutionOpen->size <= i))
__CPROVER_loop_invariant(g_i >= i ==> (NOTHING && g_o->pts == __CPROVER_loop_entry(g_o->pts)))
__CPROVER_loop_invariant(g_i < i ==> PATHS_POST(self, solutionOpen != NULL, __CPROVER_loop_entry(g_o->pts), g_o->is_open, 0.0))
__CPROVER_decreases(g_cap - i)
//@end
void h_BuildPaths64(void) { ClipperS* s; Paths64* c; Paths64* o; BuildPaths64(s, c, o); VF_CANARY(); }
#endif
#ifdef PATHSD
//@extract file=CPP/Clipper2Lib/src/clipper.engine.cpp func=ClipperD::BuildPathsD self=ClipperS vec=outrec_list_ byptr=solutionClosed selfcalls=CleanCollinear ifdef=PATHSD
//@sub /solutionClosed->resize\(0\);/solutionClosed->size = 0;/
//@sub /solutionOpen->resize\(0\);/solutionOpen->size = 0;/
//@sub /solution(Closed|Open)->reserve\(([^;]*)\);/solution\1->cap = \2;/ min=2
//@sub /OutRec\* outrec = self->outrec_list_\.data\[i\];/g_cur = i; OutRec* outrec = vf_at(self, i);/
//@sub /solutionOpen->emplace_back\(move\(path\)\);/vf_push(solutionOpen, true);/
//@sub /solutionClosed->emplace_back\(move\(path\)\);/vf_push(solutionClosed, false);/
__CPROVER_requires(STATE_OK(self) && __CPROVER_is_fresh(solutionClosed, sizeof(*solutionClosed)) && SOLOPEN_REQ)
__CPROVER_ensures(!VISITED(self) ==> NOTHING)
__CPROVER_ensures(VISITED(self) ==> PATHS_POST(self, solutionOpen != NULL, __CPROVER_old(g_o->pts), g_o->is_open, self->invScale_))
__CPROVER_assigns(SOLOPEN_ASG(*solutionOpen) *solutionClosed, vf_other, vf_o.pts, self->outrec_list_.size, g_cur, g_cc, g_bp, g_bp_op, g_bp_rev, g_bp_open, g_bp_scale, g_push_open, g_push_closed)
//@loop 1
__CPROVER_assigns(SOLOPEN_ASG(solutionOpen->size) i, solutionClosed->size, vf_other, vf_o.pts, self->outrec_list_.size, g_cur, g_cc, g_bp, g_bp_op, g_bp_rev, g_bp_open, g_bp_scale, g_push_open, g_push_closed)
__CPROVER_loop_invariant(i <= self->outrec_list_.size && self->outrec_list_.size <= g_cap && solutionClosed->size <= i && (solutionOpen != NULL ==> solutionOpen->size <= i))
__CPROVER_loop_invariant(g_i >= i ==> (NOTHING && g_o->pts == __CPROVER_loop_entry(g_o->pts)))
__CPROVER_loop_invariant(g_i < i ==> PATHS_POST(self, solutionOpen != NULL, __CPROVER_loop_entry(g_o->pts), g_o->is_open, self->invScale_))
__CPROVER_decreases(g_cap - i)
//@end
void h_BuildPathsD(void) { ClipperS* s; PathsD* c; PathsD* o; BuildPathsD(s, c, o); VF_CANARY(); }
#endif
//@run name=BuildTree64 entry=h_BuildTree64 enforce=BuildTree64 replace=vf_at,CheckBounds,RecursiveCheckOwners,vf_BuildPath,vf_push loops=1 defs=TREE64 flags="--bounds-check --pointer-check --unsigned-overflow-check" solver=cadical timeout=300
//@run name=BuildTreeD entry=h_BuildTreeD enforce=BuildTreeD replace=vf_at,CheckBounds,RecursiveCheckOwners,vf_BuildPath,vf_push loops=1 defs=TREED,DVAR flags="--bounds-check --pointer-check --unsigned-overflow-check" solver=cadical timeout=300
//@run name=BuildPaths64.open entry=h_BuildPaths64 enforce=BuildPaths64 replace=vf_at,CleanCollinear,vf_BuildPath,vf_push loops=1 defs=PATHS64,OPENSOL,STATICOBJ flags="--bounds-check --pointer-check --unsigned-overflow-check" solver=cadical timeout=300
//@run name=BuildPaths64.closedonly entry=h_BuildPaths64 enforce=BuildPaths64 replace=vf_at,CleanCollinear,vf_BuildPath,vf_push loops=1 defs=PATHS64,STATICOBJ flags="--bounds-check --pointer-check --unsigned-overflow-check" solver=cadical timeout=300
//@run name=BuildPathsD.open entry=h_BuildPathsD enforce=BuildPathsD replace=vf_at,CleanCollinear,vf_BuildPath,vf_push loops=1 defs=PATHSD,DVAR,OPENSOL,STATICOBJ flags="--bounds-check --pointer-check --unsigned-overflow-check" solver=cadical timeout=300
//@run name=BuildPathsD.closedonly entry=h_BuildPathsD enforce=BuildPathsD replace=vf_at,CleanCollinear,vf_BuildPath,vf_push loops=1 defs=PATHSD,DVAR,STATICOBJ flags="--bounds-check --pointer-check --unsigned-overflow-check" solver=cadical timeout=300
//@assume A5 (C04_build): CleanCollinear, CheckBounds, RecursiveCheckOwners, BuildPath64/BuildPathD are logging stubs (CleanCollinear/CheckBounds may grow outrec_list_, CleanCollinear may replace the OutRec's points); outrec_list_ is abstracted to its length plus the element at one arbitrary index (every other element is a havocked stand-in); solution vectors are only counted.
