//@unit C03_splitop
//@props C03 C04
//@safetyprops C10 C14
//@desc ClipperBase::DoSplitOp (loop-free; rings of 4, 5 and 6 nodes so that every aliasing of the vertices around the cut is covered; the intersection point, both areas and the containment verdict are arbitrary; the input ring has no equal neighbours): the surviving ring is entered at prevOp and spliced prevOp -> [one new vertex at the intersection point] -> nextNextOp with consistent links, and the splice CREATES NO EQUAL NEIGHBOURS (the new vertex is dropped when it coincides with prevOp or nextNextOp); the rest of the ring is untouched; the two cut-off vertices are either deleted (and only they) or form a consistent three-vertex ring owned by one new OutRec that inherits the tentative owner, and with a polytree exactly one of the two OutRecs records the other as a split, chosen by containment; a path whose area is below 2 is disposed as a whole.
#include "vf.h"
//@include engine_types.inc
#ifndef R
#define R 6
#endif
static inline bool Point64_eq(Point64 a, Point64 b) { return a.x == b.x && a.y == b.y; }
unsigned nondet_uint(void); bool nondet_bool(void); double nondet_double(void); int64_t nondet_i64(void);
Point64 g_ip; double g_area1, g_area2; bool g_p1in2;
OutPt g_new[2]; int g_nnew; OutRec g_newor; int g_nnewor; bool g_deleted[6]; OutPt g_ring[6]; bool g_disposed_all; int g_nsplits_outrec, g_nsplits_newor;
static void GetSegmentIntersectPt(Point64 a, Point64 b, Point64 c, Point64 d, Point64* ip) { *ip = g_ip; }
static double Area(OutPt* op) { return g_area1; }
static double AreaTriangle(Point64 a, Point64 b, Point64 c) { return g_area2; }
static void DisposeOutPts(OutRec* outrec) { g_disposed_all = true; outrec->pts = NULL; }
static OutPt* vf_new_outpt(Point64 pt, OutRec* outrec) { __CPROVER_assert(g_nnew < 2, "at most two new vertices"); OutPt* r = &g_new[g_nnew++]; r->pt = pt; r->outrec = outrec; r->next = r; r->prev = r; r->horz = NULL; return r; }
static OutRec* NewOutRec(ClipperBase* self) { __CPROVER_assert(g_nnewor == 0, "one new OutRec"); g_nnewor++; g_newor.pts = NULL; g_newor.splits = NULL; g_newor.owner = NULL; return &g_newor; }
static bool Path1InsidePath2(OutPt* a, OutPt* b) { return g_p1in2; }
#define VF_DELETE(op) do { for (int q_ = 0; q_ < 6; ++q_) if ((op) == &g_ring[q_]) { __CPROVER_assert(!g_deleted[q_], "no double delete"); g_deleted[q_] = true; } } while (0)
OutRecList g_lists[2]; int g_nlists;
static OutRecList* vf_new_list(void) { __CPROVER_assert(g_nlists < 2, "lists"); OutRecList* l = &g_lists[g_nlists++]; l->size = 0; return l; }
static void vf_list_push(OutRecList* l, OutRec* o, OutRec* outrec) { if (o == outrec) g_nsplits_newor++; else g_nsplits_outrec++; l->size++; }
#ifdef USINGZ
/* (C15) the callback of a repaired self-intersection: a recording stub that assigns z */
int g_zcb_n; int64_t g_zcb_z; Point64 g_zcb_a, g_zcb_b, g_zcb_c, g_zcb_d; VF_ZCallback64 g_zcb;
static void vf_zcb(const Point64* a, const Point64* b, const Point64* c, const Point64* d, Point64* ip) { g_zcb_n++; g_zcb_a = *a; g_zcb_b = *b; g_zcb_c = *c; g_zcb_d = *d; ip->z = g_zcb_z; }
#endif
//@extract file=CPP/Clipper2Lib/src/clipper.engine.cpp func=ClipperBase::DoSplitOp self=ClipperBase cpp=USINGZ selfcalls=NewOutRec ifdef=USINGZ
//@include C03_splitop_subs.inc
//@sub /self->zCallback_\)/g_zcb)/ min=0
//@sub /(?<![\w>])zCallback_\(([^;,]*), ([^;,]*),\s*([^;,]*), ([^;,]*), ip\);/vf_zcb(&\1, &\2, &\3, &\4, &ip);/ min=0
//@end
//@extract file=CPP/Clipper2Lib/src/clipper.engine.cpp func=ClipperBase::DoSplitOp self=ClipperBase cpp=NOTHING selfcalls=NewOutRec ifndef=USINGZ
//@include C03_splitop_subs.inc
//@end
void h_Split(void)
{
  /* a ring of R nodes (4, 5 or 6: with 4 nextNextOp's successor is prevOp itself); splitOp is node 1: prevOp = 0, splitOp->next = 2, nextNextOp = 3 */
  ClipperBase cb; OutRec orec; cb.using_polytree_ = nondet_bool();
  for (int i = 0; i < R; ++i) { g_ring[i].pt.x = nondet_i64(); g_ring[i].pt.y = nondet_i64(); g_ring[i].next = &g_ring[(i + 1) % R]; g_ring[i].prev = &g_ring[(i + R - 1) % R]; g_ring[i].outrec = &orec; g_deleted[i] = false; }
  orec.pts = &g_ring[nondet_uint() % R]; orec.splits = NULL; orec.owner = NULL;
  g_ip.x = nondet_i64(); g_ip.y = nondet_i64(); g_area1 = nondet_double(); g_area2 = nondet_double(); g_p1in2 = nondet_bool();
  __CPROVER_assume(!__CPROVER_isnand(g_area1) && !__CPROVER_isnand(g_area2));
  /* the input ring has no equal neighbours (CleanCollinear ran before) */
  for (int i = 0; i < R; ++i) __CPROVER_assume(!Point64_eq(g_ring[i].pt, g_ring[(i + 1) % R].pt));
#ifdef USINGZ
  g_zcb = nondet_bool() ? (VF_ZCallback64)1 : (VF_ZCallback64)0; g_zcb_n = 0; g_zcb_z = nondet_i64();
  for (int i = 0; i < R; ++i) g_ring[i].pt.z = nondet_i64();
  g_ip.z = nondet_i64();
  Point64 zp0 = g_ring[0].pt, zp1 = g_ring[1].pt, zp2 = g_ring[2].pt, zp3 = g_ring[3 % R].pt;
#endif
  g_nnew = 0; g_nnewor = 0; g_disposed_all = false; g_nlists = 0; g_nsplits_outrec = 0; g_nsplits_newor = 0;
  OutPt* prevOp = &g_ring[0]; OutPt* splitOp = &g_ring[1]; OutPt* nextOp = &g_ring[2]; OutPt* nnOp = &g_ring[3];
  DoSplitOp(&cb, &orec, splitOp);
#ifdef USINGZ
  /* (C15) with a callback installed the intersection vertex is passed to it exactly once, with the four end points of the two crossing segments, before anything is built from it */
  __CPROVER_assert(g_zcb_n == (g_zcb ? 1 : 0), "callback called once iff installed");
  if (g_zcb) __CPROVER_assert(Point64_eq(g_zcb_a, zp0) && Point64_eq(g_zcb_b, zp1) && Point64_eq(g_zcb_c, zp2) && Point64_eq(g_zcb_d, zp3), "with prevOp, splitOp, splitOp->next, nextNextOp");
  if (g_zcb && g_nnew > 0) __CPROVER_assert(g_new[0].pt.z == g_zcb_z, "every new vertex carries the z the callback assigned");
  if (g_zcb && g_nnew > 1) __CPROVER_assert(g_new[1].pt.z == g_zcb_z, "every new vertex carries the z the callback assigned");
#endif
  if (orec.pts == NULL) __CPROVER_assert(g_disposed_all, "a path that vanishes is disposed as a whole");
  else {
    __CPROVER_assert(orec.pts == prevOp, "the surviving ring is entered at prevOp");
    /* the splice: prevOp -> [new vertex at ip] -> nextNextOp, links consistent, and NO EQUAL NEIGHBOURS are created */
    OutPt* q = prevOp->next;
    __CPROVER_assert(q == nnOp || (q == &g_new[0] && Point64_eq(q->pt, g_ip) && q->next == nnOp && q->prev == prevOp && q->outrec == &orec), "prevOp is followed by nextNextOp or by one new vertex at the intersection point");
    __CPROVER_assert(nnOp->prev == q || (q == nnOp && nnOp->prev == prevOp), "back link of the splice");
    __CPROVER_assert(!Point64_eq(prevOp->pt, prevOp->next->pt) || (q == nnOp && Point64_eq(g_ring[0].pt, g_ring[3].pt)), "no vertex equal to its successor is created after prevOp");
    __CPROVER_assert(!Point64_eq(nnOp->pt, nnOp->prev->pt) || (q == nnOp && Point64_eq(g_ring[0].pt, g_ring[3].pt)), "no vertex equal to its predecessor is created before nextNextOp");
    /* the rest of the ring is untouched */
    for (int i = 3; i < R; ++i) __CPROVER_assert(g_ring[i].next == &g_ring[(i + 1) % R] && g_ring[(i + 1) % R].prev == &g_ring[i], "rest of the ring untouched");
    /* the two cut-off vertices: either deleted, or a consistent three-vertex ring of a new OutRec */
    if (g_nnewor == 0) __CPROVER_assert(g_deleted[1] && g_deleted[2] && !g_deleted[0] && !g_deleted[3], "the cut-off vertices are deleted (and only they)");
    else {
      OutPt* n = g_newor.pts;
      __CPROVER_assert(n != NULL && Point64_eq(n->pt, g_ip) && n->next == splitOp && splitOp->next == nextOp && nextOp->next == n && n->prev == nextOp && nextOp->prev == splitOp && splitOp->prev == n, "split-off triangle ring is consistent");
      __CPROVER_assert(n->outrec == &g_newor && splitOp->outrec == &g_newor && nextOp->outrec == &g_newor && !g_deleted[1] && !g_deleted[2], "and belongs to the new OutRec");
      __CPROVER_assert(g_newor.owner == orec.owner, "new OutRec inherits the tentative owner");
      if (cb.using_polytree_) __CPROVER_assert(g_nsplits_outrec + g_nsplits_newor == 1 && (g_p1in2 ? g_nsplits_newor == 1 : g_nsplits_outrec == 1), "exactly one of the two records the other as a split, by containment");
      else __CPROVER_assert(g_nsplits_outrec + g_nsplits_newor == 0, "no splits without a polytree");
    }
  }
  VF_CANARY();
}
//@run name=DoSplitOp.ring6 entry=h_Split defs=R=6 unwind=8 flags="--bounds-check --pointer-check" solver=cadical timeout=300
//@run name=DoSplitOp.ring5 entry=h_Split defs=R=5 unwind=8 flags="--bounds-check --pointer-check" solver=cadical timeout=300
//@run name=DoSplitOp.ring4 entry=h_Split defs=R=4 unwind=8 flags="--bounds-check --pointer-check" solver=cadical timeout=300
//@assume A5 (C03_splitop): GetSegmentIntersectPt, Area, AreaTriangle and Path1InsidePath2 answer arbitrarily; new/delete are a pool with double-delete detection; the .Z runs compile the USINGZ callback line in (the callback is a recording stub).
//@run name=DoSplitOp.ring5.Z entry=h_Split defs=R=5,USINGZ unwind=8 flags="--bounds-check --pointer-check" solver=cadical timeout=300 props=C15,C03
//@run name=DoSplitOp.ring4.Z entry=h_Split defs=R=4,USINGZ unwind=8 flags="--bounds-check --pointer-check" solver=cadical timeout=300 props=C15,C03
