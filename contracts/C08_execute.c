//@unit C08_execute
//@props C08 C09 C12
//@safetyprops C10 C14
//@desc RectClip64::Execute and RectClipLines64::Execute, unbounded in the number of paths (loop contracts; ExecuteInternal, CheckEdges, TidyEdges, GetPath, GetBounds are stubs): (C08) paths with fewer than 3 points or whose bounds miss the rectangle vanish, paths whose bounds lie inside it are returned unchanged (same path object), all others go through ExecuteInternal; an empty rectangle gives an empty result; (C12) every path starts from empty per-path scratch state (op_container_, results_, all eight edge lists, start_locs_) and Execute leaves it empty, so no path or earlier call can influence a later one. The Rect64 predicates used by the shortcuts are the real extracted bodies.
#include "vf.h"
//@include rect_types.inc
typedef struct { long tok; size_t size; } VTok;
typedef struct { VTok* data; size_t size; } PathsV;
typedef struct { size_t size; } VecN;
typedef struct { VecN data[8]; size_t size; } EdgesV;
typedef struct { RectT rect_; VTok rect_as_path_; Point64 rect_mp_; RectT path_bounds_; VecN op_container_; VecN results_; EdgesV edges_; VecN start_locs_; } RectClipS;
//@expect file=CPP/Clipper2Lib/include/clipper2/clipper.rectclip.h /const Rect64 rect_;\s*const Path64 rect_as_path_;\s*const Point64 rect_mp_;\s*Rect64 path_bounds_;\s*std::deque<OutPt2> op_container_;\s*OutPt2List results_;[^\n]*\s*OutPt2List edges_\[8\];[^\n]*\s*std::vector<Location> start_locs_;/
#define SCRATCH_EMPTY(s) ((s)->op_container_.size == 0 && (s)->results_.size == 0 && (s)->start_locs_.size == 0 && \
   (s)->edges_.data[0].size == 0 && (s)->edges_.data[1].size == 0 && (s)->edges_.data[2].size == 0 && (s)->edges_.data[3].size == 0 && \
   (s)->edges_.data[4].size == 0 && (s)->edges_.data[5].size == 0 && (s)->edges_.data[6].size == 0 && (s)->edges_.data[7].size == 0)
#define LINES_SCRATCH_EMPTY(s) ((s)->op_container_.size == 0 && (s)->results_.size == 0 && (s)->start_locs_.size == 0)

/* real Rect64 predicates (bodies extracted; proved against their definitions in unit C08_kernel) */
//@extract file=CPP/Clipper2Lib/include/clipper2/clipper.core.h func=IsEmpty scope=Rect as=Rect_IsEmpty self=RectT members=left,top,right,bottom
//@end
//@extract file=CPP/Clipper2Lib/include/clipper2/clipper.core.h func=Contains scope=Rect sig="Rect<T>" as=Rect_Contains self=RectT byval=rec members=left,top,right,bottom
//@end
//@extract file=CPP/Clipper2Lib/include/clipper2/clipper.core.h func=Intersects scope=Rect as=Rect_Intersects self=RectT byval=rec members=left,top,right,bottom
//@end

/* ghost observation of one arbitrary input path */
size_t g_p;          /* ghost: index of one arbitrary observed input path */
RectT g_bounds;      /* its bounds, as GetBounds reports them */
int g_fate;          /* 0: vanished, 1: returned unchanged, 2: clipped by ExecuteInternal */
bool g_nresult;      /* something was appended to the result */
RectT GetBounds_i(PathsV paths, size_t idx)
__CPROVER_requires(idx < paths.size)
__CPROVER_ensures(idx == g_p ==> (__CPROVER_return_value.left == g_bounds.left && __CPROVER_return_value.top == g_bounds.top && __CPROVER_return_value.right == g_bounds.right && __CPROVER_return_value.bottom == g_bounds.bottom))
__CPROVER_assigns();
void vf_emit_same(RectClipS* self, PathsV paths, size_t idx)
__CPROVER_requires(1)
__CPROVER_ensures(g_nresult && (idx == g_p ==> g_fate == 1))
__CPROVER_assigns(g_nresult; idx == g_p: g_fate);
/* the per-path machinery: needs empty scratch state, may leave anything in it */
#define SCRATCH_ASG self->op_container_, self->results_, self->start_locs_, self->edges_
void ExecuteInternal_(RectClipS* self, PathsV paths, size_t idx)
__CPROVER_requires(SCRATCH_EMPTY(self) && idx < paths.size && paths.data[idx].size >= 3)
__CPROVER_ensures((idx == g_p ==> g_fate == 2) && self->edges_.size == 8)
__CPROVER_assigns(SCRATCH_ASG; idx == g_p: g_fate);
void CheckEdges(RectClipS* self) __CPROVER_requires(1) __CPROVER_ensures(self->edges_.size == 8) __CPROVER_assigns(SCRATCH_ASG);
void TidyEdges(RectClipS* self, size_t idx, VecN* cw, VecN* ccw) __CPROVER_requires(idx < 4) __CPROVER_ensures(self->edges_.size == 8) __CPROVER_assigns(SCRATCH_ASG);
void vf_collect_results(RectClipS* self)
__CPROVER_requires(1)
__CPROVER_ensures(__CPROVER_old(g_nresult) ==> g_nresult)
__CPROVER_assigns(g_nresult);
//@assume A5/R18: RectClip64::ExecuteInternal, CheckEdges, TidyEdges, GetBounds are stubs; the inner "for (OutPt2*& op : results_) { GetPath ... }" block of both Execute functions is cut out and replaced by one stub call (result collection is not verified).

#define FATE_SPEC(self) ((paths.data[g_p].size < 3 || !( VF_max((self)->rect_.left, g_bounds.left) <= VF_min((self)->rect_.right, g_bounds.right) && VF_max((self)->rect_.top, g_bounds.top) <= VF_min((self)->rect_.bottom, g_bounds.bottom))) ? 0 : \
   ((g_bounds.left >= (self)->rect_.left && g_bounds.right <= (self)->rect_.right && g_bounds.top >= (self)->rect_.top && g_bounds.bottom <= (self)->rect_.bottom) ? 1 : 2))
#define RECT_EMPTY(self) (!((self)->rect_.left < (self)->rect_.right && (self)->rect_.top < (self)->rect_.bottom))

//@extract file=CPP/Clipper2Lib/src/clipper.rectclip.cpp func=RectClip64::Execute ifndef=LINES self=RectClipS byval=paths rangefor=1 vec=edges_,results_,start_locs_ selfcalls=CheckEdges,TidyEdges
//@presub /for \(OutPt2\*& op :\s*results_\)\s*\{[^{}]*\}/vf_collect_results(self);/
//@presub /const Paths64 ?& ?paths/const PathsV& paths/
//@presub /Paths64 result;/size_t result = 0;/
//@presub /op_container_ = std::deque<OutPt2>\(\);/op_container_.size = 0;/
//@presub /result\.emplace_back\(path\);/vf_emit_same(self, &path);/
//@presub /GetBounds\(path\)/GetBounds(&path)/
//@presub /ExecuteInternal\(path\)/ExecuteInternal_(self, &path)/
//@presub /TidyEdges\(i, edges_\[i \* 2\], edges_\[i \* 2 \+ 1\]\)/TidyEdges(i, &edges_[i * 2], &edges_[i * 2 + 1])/
//@sub /^Paths64 Execute/size_t Execute/
//@sub /GetBounds\(&\(paths\.data\[vf_i_path\]\)\)/GetBounds_i(paths, vf_i_path)/
//@sub /vf_emit_same\(self, &\(paths\.data\[vf_i_path\]\)\)/vf_emit_same(self, paths, vf_i_path)/
//@sub /ExecuteInternal_\(self, &\(paths\.data\[vf_i_path\]\)\)/ExecuteInternal_(self, paths, vf_i_path)/
//@sub /self->rect_\.IsEmpty\(\)/Rect_IsEmpty(&self->rect_)/
//@sub /self->rect_\.(Intersects|Contains)\(/Rect_\1(&self->rect_, / min=2
//@sub /\.data\[vf_i_path\]\)\.size\(\)/.data[vf_i_path]).size/
//@sub /\(self->edges_\.data\[vf_i_edge\]\)\.clear\(\)/(self->edges_.data[vf_i_edge]).size = 0/ min=0
//@sub /\bedge\.clear\(\)/edge.size = 0/ min=0
__CPROVER_requires(__CPROVER_is_fresh(self, sizeof(*self)) && paths.size < ((size_t)1 << 40) && __CPROVER_is_fresh(paths.data, paths.size * sizeof(VTok)))
__CPROVER_requires(self->edges_.size == 8 && SCRATCH_EMPTY(self) && g_fate == 0 && !g_nresult)
__CPROVER_requires(g_p < paths.size)
__CPROVER_requires(g_bounds.left <= g_bounds.right && g_bounds.top <= g_bounds.bottom && self->rect_.left <= self->rect_.right && self->rect_.top <= self->rect_.bottom)
/* C08: fate of an arbitrary input path */
__CPROVER_ensures(RECT_EMPTY(self) ==> (g_fate == 0 && !g_nresult))
__CPROVER_ensures(!RECT_EMPTY(self) ==> g_fate == FATE_SPEC(self))
/* C12: nothing of this call survives in the object */
__CPROVER_ensures(SCRATCH_EMPTY(self))
__CPROVER_assigns(SCRATCH_ASG, self->path_bounds_, g_fate, g_nresult)
//@loop 1
__CPROVER_assigns(vf_i_path, SCRATCH_ASG, self->path_bounds_, g_fate, g_nresult)
__CPROVER_loop_invariant(vf_i_path <= paths.size)
__CPROVER_loop_invariant(self->edges_.size == 8)
__CPROVER_loop_invariant(SCRATCH_EMPTY(self))
__CPROVER_loop_invariant(g_fate == ((g_p < vf_i_path) ? FATE_SPEC(self) : 0))
__CPROVER_decreases(paths.size - vf_i_path)
//@loop 2
__CPROVER_assigns(i, SCRATCH_ASG)
__CPROVER_loop_invariant(i <= 4 && self->edges_.size == 8)
__CPROVER_decreases(4 - i)
//@loop 3
__CPROVER_assigns(vf_i_edge, self->edges_)
__CPROVER_loop_invariant(vf_i_edge <= 8 && self->edges_.size == 8)
__CPROVER_loop_invariant(vf_i_edge > 0 ==> self->edges_.data[0].size == 0)
__CPROVER_loop_invariant(vf_i_edge > 1 ==> self->edges_.data[1].size == 0)
__CPROVER_loop_invariant(vf_i_edge > 2 ==> self->edges_.data[2].size == 0)
__CPROVER_loop_invariant(vf_i_edge > 3 ==> self->edges_.data[3].size == 0)
__CPROVER_loop_invariant(vf_i_edge > 4 ==> self->edges_.data[4].size == 0)
__CPROVER_loop_invariant(vf_i_edge > 5 ==> self->edges_.data[5].size == 0)
__CPROVER_loop_invariant(vf_i_edge > 6 ==> self->edges_.data[6].size == 0)
__CPROVER_loop_invariant(vf_i_edge > 7 ==> self->edges_.data[7].size == 0)
__CPROVER_decreases(8 - vf_i_edge)
//@end
#ifndef LINES
void h_RC(void) { RectClipS* s; PathsV p; Execute(s, p); VF_CANARY(); }
#endif
//@run name=RectClip64.Execute entry=h_RC enforce=Execute replace=GetBounds_i,vf_emit_same,ExecuteInternal_,CheckEdges,TidyEdges,vf_collect_results loops=1 flags="--bounds-check --pointer-check --unsigned-overflow-check" timeout=300

/* ---- RectClipLines64::Execute (C09) ---- */
#define LFATE_SPEC(self) (!( VF_max((self)->rect_.left, g_bounds.left) <= VF_min((self)->rect_.right, g_bounds.right) && VF_max((self)->rect_.top, g_bounds.top) <= VF_min((self)->rect_.bottom, g_bounds.bottom)) ? 0 : 2)
void ExecuteInternalL_(RectClipS* self, PathsV paths, size_t idx)
__CPROVER_requires(LINES_SCRATCH_EMPTY(self) && idx < paths.size)
__CPROVER_ensures(idx == g_p ==> g_fate == 2)
__CPROVER_assigns(self->op_container_, self->results_, self->start_locs_; idx == g_p: g_fate);
//@extract file=CPP/Clipper2Lib/src/clipper.rectclip.cpp func=RectClipLines64::Execute ifdef=LINES self=RectClipS byval=paths rangefor=1 vec=results_,start_locs_
//@presub /for \(OutPt2\*& op :\s*results_\)\s*\{[^{}]*\}/vf_collect_results(self);/
//@presub /const Paths64 ?& ?paths/const PathsV& paths/
//@presub /Paths64 result;/size_t result = 0;/
//@presub /op_container_ = std::deque<OutPt2>\(\);/op_container_.size = 0;/
//@presub /Rect64 pathrec = GetBounds\(path\);/RectT pathrec = GetBounds(&path);/
//@presub /ExecuteInternal\(path\)/ExecuteInternalL_(self, &path)/
//@sub /^Paths64 Execute/size_t Execute/
//@sub /self->rect_\.IsEmpty\(\)/Rect_IsEmpty(&self->rect_)/
//@sub /self->rect_\.(Intersects|Contains)\(/Rect_\1(&self->rect_, /
//@sub /GetBounds\(&\(paths\.data\[vf_i_path\]\)\)/GetBounds_i(paths, vf_i_path)/
//@sub /ExecuteInternalL_\(self, &\(paths\.data\[vf_i_path\]\)\)/ExecuteInternalL_(self, paths, vf_i_path)/
__CPROVER_requires(__CPROVER_is_fresh(self, sizeof(*self)) && paths.size < ((size_t)1 << 40) && __CPROVER_is_fresh(paths.data, paths.size * sizeof(VTok)))
__CPROVER_requires(LINES_SCRATCH_EMPTY(self) && g_fate == 0 && !g_nresult && g_p < paths.size)
__CPROVER_requires(g_bounds.left <= g_bounds.right && g_bounds.top <= g_bounds.bottom && self->rect_.left <= self->rect_.right && self->rect_.top <= self->rect_.bottom)
/* C09: a polyline whose bounds miss the rectangle contributes nothing; every other one goes through ExecuteInternal exactly as given */
__CPROVER_ensures(RECT_EMPTY(self) ==> (g_fate == 0 && !g_nresult))
__CPROVER_ensures(!RECT_EMPTY(self) ==> g_fate == LFATE_SPEC(self))
/* C12: the per-path scratch state is empty again */
__CPROVER_ensures(LINES_SCRATCH_EMPTY(self))
__CPROVER_assigns(self->op_container_, self->results_, self->start_locs_, g_fate, g_nresult)
//@loop 1
__CPROVER_assigns(vf_i_path, self->op_container_, self->results_, self->start_locs_, g_fate, g_nresult)
__CPROVER_loop_invariant(vf_i_path <= paths.size && LINES_SCRATCH_EMPTY(self))
__CPROVER_loop_invariant(g_fate == ((g_p < vf_i_path) ? LFATE_SPEC(self) : 0))
__CPROVER_decreases(paths.size - vf_i_path)
//@end
#ifdef LINES
void h_RCL(void) { RectClipS* s; PathsV p; Execute(s, p); VF_CANARY(); }
#endif
//@run name=RectClipLines64.Execute entry=h_RCL enforce=Execute replace=GetBounds_i,ExecuteInternalL_,vf_collect_results loops=1 defs=LINES flags="--bounds-check --pointer-check --unsigned-overflow-check" timeout=300 props=C09,C12,C10,C14
