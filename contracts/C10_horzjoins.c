//@unit C10_horzjoins
//@props C10 C04 C02
//@desc ClipperBase::ProcessHorzJoins, one join (harness; rings are concrete lists of symbolic shape, sizes bounded). JOIN of two different OutRecs (rings of n1 and n2 vertices): the rings are spliced into ONE consistent ring of n1 + n2 vertices owned by or1 alone - or2 gives its ring up (`pts == nullptr`) BEFORE anything that can allocate (and so can throw std::bad_alloc) runs: MoveSplits is under a contract whose precondition is that the giver no longer claims the ring, otherwise ~ClipperBase would free the ring twice (C10: every object can still be destroyed after an allocation failure); or2 is then owned by or1 (SetOwner(or2, or1) with a polytree, the owner field otherwise). SPLIT (both ends on one ring of n vertices): two consistent rings whose sizes add up to n, each owned by exactly one OutRec (the old one and ONE new one) with every vertex labelled with its owner, no vertex lost or duplicated; with a polytree exactly one split entry (the new OutRec in the old one's list) and the owner chosen by containment. No null or dangling dereference anywhere.
#include "vf.h"
//@include engine_types.inc
typedef struct HorzJoin HorzJoin;
//@struct file=CPP/Clipper2Lib/include/clipper2/clipper.engine.h name=HorzJoin
#ifndef R
#define R 6
#endif
OutRec g_newor; int g_nnewor;
static OutRec* NewOutRec(ClipperBase* self) { __CPROVER_assert(g_nnewor == 0, "one new OutRec per split"); g_nnewor++; g_newor.pts = NULL; g_newor.splits = NULL; g_newor.owner = NULL; return &g_newor; }
OutRecList g_list; int g_nlists, g_npush; OutRec* g_pushed_into; OutRec* g_pushed;
static OutRecList* vf_new_list(void) { __CPROVER_assert(g_nlists == 0, "one list"); g_nlists++; g_list.size = 0; return &g_list; }
#define VF_LPUSH(owner, e) do { g_npush++; g_pushed_into = (owner); g_pushed = (e); (owner)->splits->size++; } while (0)
bool g_p12, g_p21; int g_npip;
bool Path1InsidePath2(OutPt* op1, OutPt* op2) { __CPROVER_assert(op1 != NULL && op2 != NULL && op1 != op2, "containment is asked about two rings"); g_npip++; return g_npip == 1 ? g_p12 : g_p21; }
int g_nsetowner; OutRec *g_so_a, *g_so_b;
void SetOwner(OutRec* outrec, OutRec* new_owner) { __CPROVER_assert(outrec != NULL && new_owner != NULL, "SetOwner arguments"); g_nsetowner++; g_so_a = outrec; g_so_b = new_owner; outrec->owner = new_owner; }
int g_nmove; OutRec *g_mv_a, *g_mv_b;
/* MoveSplits allocates (new OutRecList, emplace_back): when it runs, the giver must no longer claim the (already spliced) ring */
void MoveSplits(OutRec* fromOr, OutRec* toOr) { __CPROVER_assert(fromOr->pts == NULL, "the absorbed OutRec has given up its ring before an allocation can fail"); g_nmove++; g_mv_a = fromOr; g_mv_b = toOr; }
//@extract file=CPP/Clipper2Lib/src/clipper.engine.cpp func=GetRealOutRec
//@end
//@extract file=CPP/Clipper2Lib/src/clipper.engine.cpp func=FixOutRecPts
//@end
//@extract file=CPP/Clipper2Lib/src/clipper.engine.cpp func=ClipperBase::ProcessHorzJoins self=ClipperBase rangefor=1 selfcalls=NewOutRec
//@sub /new OutRecList\(\)/vf_new_list()/
//@sub /(\w+)->splits->emplace_back\((\w+)\)/VF_LPUSH(\1, \2)/
//@sub /self->horz_join_list_\.data\[vf_i_j\]/((HorzJoin*)self->horz_join_list_.data)[vf_i_j]/ min=0
//@end
unsigned nondet_uint(void); bool nondet_bool(void);
OutPt g_n[R];
/* ring made of nodes lo..hi-1 in index order */
static void mk_ring(unsigned lo, unsigned hi, OutRec* o) { for (unsigned i = lo; i < hi; ++i) { g_n[i].next = &g_n[i + 1 == hi ? lo : i + 1]; g_n[i].prev = &g_n[i == lo ? hi - 1 : i - 1]; g_n[i].outrec = o; g_n[i].horz = NULL; } }
static unsigned ring_len(OutPt* s) { unsigned c = 0; OutPt* p = s; do { __CPROVER_assert(p->next->prev == p && p->prev->next == p, "ring is consistent"); ++c; p = p->next; } while (p != s && c <= R); return c; }
static bool ring_has(OutPt* s, OutPt* q) { unsigned c = 0; OutPt* p = s; do { if (p == q) return true; ++c; p = p->next; } while (p != s && c <= R); return false; }
static bool ring_all_owned(OutPt* s, OutRec* o) { unsigned c = 0; OutPt* p = s; do { if (p->outrec != o) return false; ++c; p = p->next; } while (p != s && c <= R); return true; }
void h_PHJ(void)
{
  ClipperBase cb; OutRec o1, o2; HorzJoin hj; OutRecList l1, l2;
  cb.using_polytree_ = nondet_bool(); cb.horz_join_list_.data = &hj; cb.horz_join_list_.size = 1;
  o1.owner = NULL; o2.owner = nondet_bool() ? &o1 : NULL; o1.splits = nondet_bool() ? &l1 : NULL; o2.splits = nondet_bool() ? &l2 : NULL; l1.size = nondet_uint() % 3; l2.size = nondet_uint() % 3;
  g_nnewor = 0; g_nlists = 0; g_npush = 0; g_npip = 0; g_nsetowner = 0; g_nmove = 0; g_p12 = nondet_bool(); g_p21 = nondet_bool();
#ifdef SPLIT
  /* both ends on ONE ring of R vertices owned by o1 */
  mk_ring(0, R, &o1); o1.pts = &g_n[nondet_uint() % R];
  unsigned a = nondet_uint() % R, b = nondet_uint() % R; __CPROVER_assume(a != b);
  /* op1->next and op2->prev are not each other's ends: both new rings keep at least one vertex (what the horizontal-segment pairing yields) */
  hj.op1 = &g_n[a]; hj.op2 = &g_n[b];
  __CPROVER_assume(hj.op1->next != hj.op2);
  OutRecList* splits0 = o1.splits;
  ProcessHorzJoins(&cb);
  __CPROVER_assert(g_nnewor == 1 && o1.pts != NULL && g_newor.pts != NULL, "a split creates exactly one new OutRec and both own a ring");
  if (cb.using_polytree_) __CPROVER_assert(splits0 ? (o1.splits == splits0 && g_nlists == 0) : (o1.splits == &g_list && g_nlists == 1), "an existing split list is kept (earlier split-off contours are not forgotten, nothing leaks); a new one is made only when there was none");
  unsigned n1 = ring_len(o1.pts), n2 = ring_len(g_newor.pts);
  __CPROVER_assert(n1 + n2 == R && n1 >= 1 && n2 >= 1, "no vertex lost or duplicated");
  __CPROVER_assert(!ring_has(o1.pts, g_newor.pts), "the two OutRecs own different rings");
  __CPROVER_assert(ring_all_owned(o1.pts, &o1) && ring_all_owned(g_newor.pts, &g_newor), "every vertex is labelled with the OutRec that owns its ring");
  if (cb.using_polytree_) {
    __CPROVER_assert(g_npush == 1 && g_pushed_into == &o1 && g_pushed == &g_newor && o1.splits != NULL, "the new OutRec is recorded once as a split of the old one");
    __CPROVER_assert(g_newor.owner == ((g_p12 || g_p21) ? &o1 : o1.owner), "owner by containment: inside the other part, else a sibling");
  } else {
    __CPROVER_assert(g_npush == 0 && g_nlists == 0 && g_newor.owner == &o1, "no polytree: no splits, new OutRec hangs under the old one");
  }
#else
  /* two rings: nodes 0..K-1 owned by o1, K..R-1 owned by o2 */
  mk_ring(0, K, &o1); mk_ring(K, R, &o2);
  o1.pts = &g_n[nondet_uint() % K]; o2.pts = &g_n[K + nondet_uint() % (R - K)];
#ifndef SWAP
  hj.op1 = &g_n[nondet_uint() % K]; hj.op2 = &g_n[K + nondet_uint() % (R - K)]; OutRec* or1 = &o1; OutRec* or2 = &o2;
#else
  hj.op2 = &g_n[nondet_uint() % K]; hj.op1 = &g_n[K + nondet_uint() % (R - K)]; OutRec* or1 = &o2; OutRec* or2 = &o1;
#endif
  ProcessHorzJoins(&cb);
  __CPROVER_assert(g_nnewor == 0, "a join creates no OutRec");
  __CPROVER_assert(or2->pts == NULL && or1->pts != NULL, "the absorbed OutRec gives up its ring, the other keeps it");
  __CPROVER_assert(ring_len(or1->pts) == R, "one ring with every vertex of both");
  __CPROVER_assert(or2->owner == or1, "the absorbed OutRec is owned by the survivor");
  if (cb.using_polytree_) __CPROVER_assert(g_nsetowner == 1 && g_so_a == or2 && g_so_b == or1 && g_nmove == 1 && g_mv_a == or2 && g_mv_b == or1, "polytree: SetOwner(or2, or1) and MoveSplits(or2, or1), once each");
  else __CPROVER_assert(g_nsetowner == 0 && g_nmove == 0, "no polytree: no owner search, no splits");
#endif
  VF_CANARY();
}
//@run name=ProcessHorzJoins.join.1+3 entry=h_PHJ defs=R=4,K=1 unwind=7 flags="--bounds-check --pointer-check" timeout=300 bounded="rings of 1 and 3 vertices, the small one survives (every position of the join ends and of pts)"
//@run name=ProcessHorzJoins.join.3+1 entry=h_PHJ defs=R=4,K=1,SWAP unwind=7 flags="--bounds-check --pointer-check" timeout=300 bounded="rings of 3 and 1 vertices, the large one survives (every position of the join ends and of pts)"
//@run name=ProcessHorzJoins.join.2+3 entry=h_PHJ defs=R=5,K=2 unwind=8 flags="--bounds-check --pointer-check" timeout=300 bounded="rings of 2 and 3 vertices (every position of the join ends and of pts)"
//@run name=ProcessHorzJoins.join.3+3 entry=h_PHJ defs=R=6,K=3 unwind=9 flags="--bounds-check --pointer-check" timeout=300 bounded="rings of 3 and 3 vertices (every position of the join ends and of pts)"
//@run name=ProcessHorzJoins.split entry=h_PHJ defs=R=6,SPLIT unwind=9 flags="--bounds-check --pointer-check" timeout=300 bounded="one ring of 6 vertices (every position of the two join ends and of pts)"
//@assume A5 (C10_horzjoins): Path1InsidePath2 answers arbitrarily; SetOwner and MoveSplits are recording stubs (their own contracts: C10_lists, C10_movesplits); NewOutRec / new OutRecList are single-object pools; FixOutRecPts and GetRealOutRec are the real functions.
