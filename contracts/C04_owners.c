//@unit C04_owners
//@props C04
//@safetyprops C10 C14
//@desc ClipperBase::RecursiveCheckOwners - where a contour lands in the PolyTree - BOUNDED (tentative owner chains of up to 3 OutRecs; the recursive call is replaced by its contract "afterwards the owner has a polypath"; CheckSplitOwner, CheckBounds, Rect64::Contains, Path1InsidePath2 answer arbitrarily, their answers are logged): a contour that already has a node, or has empty bounds, is left alone; otherwise the tentative owners are tried innermost first and the FIRST one that either yields a split owner or (has points, valid bounds that contain the contour's bounds, and contains the contour) is taken - no candidate is skipped, none beyond it is consulted; the contour becomes a child of that owner's node (which exists before the child is added), or of the root when no owner qualifies, and outrec->owner is exactly the OutRec whose node is the parent.
#include "vf.h"
//@include engine_types.inc
unsigned nondet_uint(void); bool nondet_bool(void);
typedef struct PolyPathTok { int id; } PolyPathTok;
PolyPathTok g_nodes[8]; int g_nnodes; PolyPathTok* g_child_parent; int g_nchild;
static PolyPath* vf_AddChild(PolyPath* parent) { __CPROVER_assert(parent != NULL, "AddChild on an existing node"); g_nchild++; g_child_parent = (PolyPathTok*)parent; __CPROVER_assert(g_nnodes < 8, "pool"); return (PolyPath*)&g_nodes[g_nnodes++]; }
OutRec g_chain[4];   /* g_chain[0] = the contour; g_chain[k]->owner = g_chain[k+1] */
bool g_split_ans[4], g_accept_ans[4]; OutRec* g_split_newowner; int g_tests; int g_first_tested_bad;
static int idx_of(OutRec* o) { for (int i = 0; i < 4; ++i) if (o == &g_chain[i]) return i; return -1; }
/* CheckSplitOwner(outrec, owner->splits): logged per candidate; when it says yes it has set outrec->owner to the split it found */
static bool CheckSplitOwner(ClipperBase* s, OutRec* outrec, OutRecList* splits) { int k = idx_of(outrec->owner); __CPROVER_assert(k >= 1, "candidate in chain"); if (g_split_ans[k]) { outrec->owner = g_split_newowner; return true; } return false; }
static bool g_cb_ans[4], g_cont_ans[4], g_in_ans[4];
static bool CheckBounds(ClipperBase* s, OutRec* o) { int k = idx_of(o); return k >= 0 ? g_cb_ans[k] : nondet_bool(); }
static bool vf_Contains(const Rect64* a, const Rect64* b, OutRec* o) { int k = idx_of(o); return k >= 0 ? g_cont_ans[k] : nondet_bool(); }
static bool Path1InsidePath2(OutPt* a, OutPt* b) { for (int i = 1; i < 4; ++i) if (b == g_chain[i].pts && b != NULL) return g_in_ans[i]; return nondet_bool(); }
static bool Rect_IsEmpty(const Rect64* r) { return r->left >= r->right || r->top >= r->bottom; }
int g_rec_n; OutRec* g_rec_arg;
static void RecursiveCheckOwners_rec(ClipperBase* s, OutRec* o, PolyPath* root) { g_rec_n++; g_rec_arg = o; __CPROVER_assert(g_nnodes < 8, "pool"); o->polypath = (PolyPath*)&g_nodes[g_nnodes++]; }
//@extract file=CPP/Clipper2Lib/src/clipper.engine.cpp func=ClipperBase::RecursiveCheckOwners self=ClipperBase selfcalls=CheckSplitOwner,CheckBounds
//@sub /outrec->bounds\.IsEmpty\(\)/Rect_IsEmpty(&outrec->bounds)/
//@sub /outrec->owner->bounds\.Contains\(outrec->bounds\)/vf_Contains(&outrec->owner->bounds, &outrec->bounds, outrec->owner)/
//@sub /(?<!void )RecursiveCheckOwners\(outrec->owner, polypath\)/RecursiveCheckOwners_rec(self, outrec->owner, polypath)/
//@sub /outrec->owner->polypath->AddChild\(outrec->path\)/vf_AddChild(outrec->owner->polypath)/
//@sub /polypath->AddChild\(outrec->path\)/vf_AddChild(polypath)/
//@end
OutPt g_pts[4]; OutRecList g_lists[4]; OutRec g_splitowner;
void h_RCO(void)
{
  ClipperBase cb; PolyPathTok root; unsigned n = nondet_uint() % 4;      /* number of tentative owners above the contour: 0..3 */
  for (unsigned i = 0; i < 4; ++i) {
    g_chain[i].owner = (i < n) ? &g_chain[i + 1] : NULL; g_chain[i].pts = nondet_bool() ? &g_pts[i] : NULL; g_chain[i].splits = nondet_bool() ? &g_lists[i] : NULL;
    g_chain[i].polypath = nondet_bool() ? (PolyPath*)&g_nodes[i] : NULL; g_split_ans[i] = nondet_bool(); g_cb_ans[i] = nondet_bool(); g_cont_ans[i] = nondet_bool(); g_in_ans[i] = nondet_bool();
  }
  g_nnodes = 4; g_chain[0].pts = &g_pts[0]; g_chain[0].bounds.left = 0; g_chain[0].bounds.top = 0; g_chain[0].bounds.right = nondet_bool() ? 10 : 0; g_chain[0].bounds.bottom = 10;
  g_split_newowner = &g_splitowner; g_splitowner.polypath = nondet_bool() ? (PolyPath*)&g_nodes[7 - 1] : NULL; g_splitowner.owner = NULL;
  g_rec_n = 0; g_nchild = 0;
  bool had_node = g_chain[0].polypath != NULL, empty = g_chain[0].bounds.left >= g_chain[0].bounds.right;
  RecursiveCheckOwners(&cb, &g_chain[0], (PolyPath*)&root);
  if (had_node || empty) { __CPROVER_assert(g_nchild == 0 && g_rec_n == 0, "a contour that has a node already, or has empty bounds, is left alone"); }
  else {
    /* expected: the first candidate k = 1..n that qualifies */
    int want = 0; bool via_split = false;
    for (int k = 1; k < 4; ++k) if (want == 0 && (unsigned)k <= n) {
      if (g_chain[k].splits != NULL && g_split_ans[k]) { want = k; via_split = true; }
      else if (g_chain[k].pts != NULL && g_cb_ans[k] && g_cont_ans[k] && g_in_ans[k]) want = k;
    }
    OutRec* exp_owner = want == 0 ? NULL : via_split ? &g_splitowner : &g_chain[want];
    __CPROVER_assert(g_chain[0].owner == exp_owner, "the owner is the first tentative owner that qualifies (through its splits, or by bounds + containment), none when no one does");
    __CPROVER_assert(g_nchild == 1 && g_chain[0].polypath != NULL, "the contour gets exactly one node");
    if (exp_owner == NULL) __CPROVER_assert(g_child_parent == &root && g_rec_n == 0, "no owner: child of the root");
    else {
      __CPROVER_assert(exp_owner->polypath != NULL && g_child_parent == (PolyPathTok*)exp_owner->polypath, "child of the owner's node");
      __CPROVER_assert(g_rec_n <= 1 && (g_rec_n == 1 ==> g_rec_arg == exp_owner), "the owner is placed first if it has no node yet");
    }
  }
  VF_CANARY();
}
//@run name=RecursiveCheckOwners.bounded entry=h_RCO unwind=6 flags="--bounds-check --pointer-check" solver=cadical timeout=300 bounded="tentative owner chain of 0..3 OutRecs; recursion replaced by its contract"
//@assume A5 (C04_owners): CheckSplitOwner, CheckBounds, Rect64::Contains, Path1InsidePath2 answer arbitrarily per candidate (CheckSplitOwner's yes comes with outrec->owner set to the split it found); AddChild and the recursive call are pool-based stubs.
