//@unit C06_normals
//@props C06 C07
//@safetyprops C10 C14
//@desc ClipperOffset::BuildNormals, unbounded in the path length (loop contract): the normals vector is rebuilt from empty with exactly one entry per vertex (what every Offset* contract assumes: norms.size == path.size), entry i is the unit normal of the edge from path[i] to its cyclic successor path[(i+1) mod n] - in particular the last one closes the ring to path[0] -, every index is in range, an empty path gives no normals. GetUnitNormal is a stub (floating point).
#include "vf.h"
typedef struct { int64_t x, y; } Point64;
typedef struct { double x, y; } PointD;
typedef struct { Point64* data; size_t size; } Path64;
typedef struct { size_t size, cap; } VecObs;
typedef struct { VecObs norms; } ClipperOffset;
size_t g_k; Point64 g_from, g_to; bool g_seen; size_t g_cur;
/* GetUnitNormal(a, b): observed for the entry that lands at index g_k */
PointD GetUnitNormal(Point64 a, Point64 b) __CPROVER_requires(1) __CPROVER_ensures(1) __CPROVER_assigns();
#define VF_NORM_PUSH(v, a, b) do { __CPROVER_assert((v).size < (v).cap, "push within reserved capacity"); if ((v).size == g_k) { g_from = (a); g_to = (b); g_seen = true; } (void)GetUnitNormal(a, b); (v).size++; } while (0)
//@extract file=CPP/Clipper2Lib/src/clipper.offset.cpp func=ClipperOffset::BuildNormals self=ClipperOffset byval=path vec=path iters=path:path_iter,path_stop_iter members=norms
//@presub /--path\.cend\(\)/path.cend() - 1/
//@presub /\*\(path\.cbegin\(\)\)/path[0]/ min=0
//@presub /\*\((path_iter|path_stop_iter)\)/*\1/ min=0
//@presub /norms\.clear\(\);/norms.size = 0;/
//@presub /norms\.reserve\(([^;]*)\);/norms.cap = \1;/
//@presub /norms\.emplace_back\(GetUnitNormal\(([^;]*)\)\);/VF_NORM_PUSH(norms, \1);/ min=2
__CPROVER_requires(__CPROVER_is_fresh(self, sizeof(*self)) && path.size < ((size_t)1 << 40) && __CPROVER_is_fresh(path.data, path.size * sizeof(Point64)) && g_k < path.size && !g_seen)
__CPROVER_ensures(self->norms.size == path.size)
__CPROVER_ensures(path.size > 0 ==> (g_seen && g_from.x == path.data[g_k].x && g_from.y == path.data[g_k].y &&
    g_to.x == path.data[g_k + 1 == path.size ? 0 : g_k + 1].x && g_to.y == path.data[g_k + 1 == path.size ? 0 : g_k + 1].y))
__CPROVER_assigns(self->norms, g_from, g_to, g_seen)
//@loop 1
__CPROVER_assigns(path_iter, self->norms.size, g_from, g_to, g_seen)
__CPROVER_loop_invariant(path_iter <= path_stop_iter && self->norms.size == path_iter && self->norms.cap == path.size && path_stop_iter + 1 == path.size)
__CPROVER_loop_invariant(g_seen == (g_k < path_iter))
__CPROVER_loop_invariant(g_seen ==> (g_from.x == path.data[g_k].x && g_from.y == path.data[g_k].y && g_to.x == path.data[g_k + 1].x && g_to.y == path.data[g_k + 1].y))
__CPROVER_decreases(path_stop_iter - path_iter)
//@end
void h_BN(void) { ClipperOffset* s; Path64 p; BuildNormals(s, p); VF_CANARY(); }
//@run name=BuildNormals entry=h_BN enforce=BuildNormals replace=GetUnitNormal loops=1 flags=SAFETY solver=cadical timeout=300
//@assume A5 (C06_normals): GetUnitNormal is a stub; the normals vector is observed (length + the operands of one arbitrary entry), not stored; iterator arithmetic `--path.cend()` / `*(path.cbegin())` is read as index size-1 / element 0.
