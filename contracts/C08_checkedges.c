//@unit C08_checkedges
//@props C08
//@safetyprops C10
//@desc RectClip64::CheckEdges, edge registration (BOUNDED: one result ring of N = 3 or 4 vertices, 6 thorough; all coordinates and the rectangle symbolic; no collinear triple, so the first phase removes nothing). A result vertex is registered on a rectangle side exactly when the SEGMENT that arrives at it runs along that side - the vertex and its ring predecessor both lie on the side (this is what TidyEdges later pairs up, and what "also when they run along the rectangle's sides" rests on): every vertex is registered at most once, on the first side (left, top, right, bottom) that its arriving segment runs along, in that side's clockwise list when the segment heads clockwise round the rectangle and in the counter-clockwise list otherwise; a vertex whose arriving segment runs along no side is not registered. GetEdgesForPt, IsHeadingClockwise and AddToEdge are the real functions.
#include "vf.h"
//@include rect_types.inc
#ifndef N
#define N 3
#endif
typedef struct { size_t size; } VecN; typedef VecN OutPt2List;
typedef struct OutPt2 OutPt2;
struct OutPt2 { Point64 pt; size_t owner_idx; VecN* edge; OutPt2* next; OutPt2* prev; VecN* g_reg; int g_nreg; /* ghost: list this vertex was appended to, how often */ };
//@expect file=CPP/Clipper2Lib/include/clipper2/clipper.rectclip.h /Point64 pt;\s*size_t owner_idx = 0;\s*OutPt2List\* edge = nullptr;\s*OutPt2\* next = nullptr;\s*OutPt2\* prev = nullptr;/
typedef struct { OutPt2** data; size_t size; } ResultsV;
typedef struct { RectT rect_; ResultsV results_; VecN edges_[8]; } RectClipS;
OutPt2 g_n[N];
RectClipS* g_self;
#define VF_REG(e, op) do { (e)->size++; (op)->g_reg = (e); (op)->g_nreg++; } while (0)
bool IsCollinear(Point64 a, Point64 b, Point64 c) { return false; }
//@assume A5 (C08_checkedges): IsCollinear answers "no" (the collinear-removal phase of CheckEdges is not exercised); the edge lists are counters plus a per-vertex record of the list a vertex was appended to.
//@extract file=CPP/Clipper2Lib/src/clipper.rectclip.cpp func=UnlinkOpBack
//@end
//@extract file=CPP/Clipper2Lib/src/clipper.rectclip.cpp func=GetEdgesForPt byval=pt,rec
//@end
//@extract file=CPP/Clipper2Lib/src/clipper.rectclip.cpp func=IsHeadingClockwise byval=pt1,pt2
//@end
//@extract file=CPP/Clipper2Lib/src/clipper.rectclip.cpp func=AddToEdge byptr=edge
//@sub /edge->emplace_back\(op\)|\(\*edge\)\.emplace_back\(op\)/VF_REG(edge, op)/
//@sub /op->edge = &\(\*edge\);/op->edge = edge;/ min=0
//@end
//@extract file=CPP/Clipper2Lib/src/clipper.rectclip.cpp func=RectClip64::CheckEdges self=RectClipS vec=results_
//@sub /AddToEdge\(self->edges_\[([^\]]*)\], (\w+)\)/AddToEdge(&self->edges_[\1], \2)/ min=2
//@end
int64_t nondet_i64(void); unsigned nondet_uint(void);
#define ON(j, p, r) ((j) == 0 ? (p).x == (r).left : (j) == 1 ? (p).y == (r).top : (j) == 2 ? (p).x == (r).right : (p).y == (r).bottom)
/* heading clockwise round the rectangle (y grows downwards): up the left side, rightwards along the top, down the right side, leftwards along the bottom */
#define CW(j, a, b) ((j) == 0 ? (b).y < (a).y : (j) == 1 ? (b).x > (a).x : (j) == 2 ? (b).y > (a).y : (b).x < (a).x)
void h_CE(void)
{
  RectClipS self; OutPt2* res[1]; g_self = &self;
  self.rect_.left = nondet_i64(); self.rect_.top = nondet_i64(); self.rect_.right = nondet_i64(); self.rect_.bottom = nondet_i64();
  __CPROVER_assume(self.rect_.left < self.rect_.right && self.rect_.top < self.rect_.bottom);
  for (int i = 0; i < N; ++i) { g_n[i].pt.x = nondet_i64(); g_n[i].pt.y = nondet_i64(); g_n[i].next = &g_n[(i + 1) % N]; g_n[i].prev = &g_n[(i + N - 1) % N]; g_n[i].edge = NULL; g_n[i].owner_idx = 0; g_n[i].g_reg = NULL; g_n[i].g_nreg = 0; }
  self.edges_[0].size = 0; self.edges_[1].size = 0; self.edges_[2].size = 0; self.edges_[3].size = 0; self.edges_[4].size = 0; self.edges_[5].size = 0; self.edges_[6].size = 0; self.edges_[7].size = 0;
  const unsigned s = 0; res[0] = &g_n[s];      /* the handle is vertex 0 without loss of generality: all coordinates are symbolic */ self.results_.data = res; self.results_.size = 1;
  CheckEdges(&self);
  unsigned q = nondet_uint() % N;                       /* one arbitrary vertex */
  Point64 a = g_n[(q + N - 1) % N].pt, b = g_n[q].pt;   /* its arriving segment a -> b */
  int want = -1;
  for (int j = 3; j >= 0; --j) if (ON(j, a, self.rect_) && ON(j, b, self.rect_)) want = 2 * j + (CW(j, a, b) ? 0 : 1);
  __CPROVER_assert(g_n[q].g_nreg <= 1, "a vertex is registered at most once");
  __CPROVER_assert(g_n[q].g_reg == (want < 0 ? (VecN*)NULL : &self.edges_[want]), "registered exactly on the first side its arriving segment runs along, in the list of its heading; not at all otherwise");
  __CPROVER_assert(res[0] == &g_n[s], "the ring's handle is kept");
  VF_CANARY();
}
//@run name=CheckEdges.n3 entry=h_CE defs=N=3 unwind=5 unwindset=CheckEdges.0:4,CheckEdges.1:5,CheckEdges.2:4,CheckEdges.3:2 flags="--bounds-check --pointer-check" timeout=300 bounded="one result ring of 3 vertices, coordinates and rectangle symbolic, no collinear triples"
//@run name=CheckEdges.n4 entry=h_CE defs=N=4 unwind=6 unwindset=CheckEdges.0:5,CheckEdges.1:5,CheckEdges.2:5,CheckEdges.3:2 flags="--bounds-check --pointer-check" timeout=600 bounded="one result ring of 4 vertices, coordinates and rectangle symbolic, no collinear triples"
//@run name=CheckEdges.n6 entry=h_CE defs=N=6 unwind=8 unwindset=CheckEdges.0:7,CheckEdges.1:5,CheckEdges.2:7,CheckEdges.3:2 flags="--bounds-check --pointer-check" timeout=600 tier=thorough bounded="one result ring of 6 vertices, coordinates and rectangle symbolic, no collinear triples"
