//@unit C01_windcount
//@props C01
//@safetyprops C10 C14
//@desc SetWindCountForClosedPathEdge and SetWindCountForOpenPathEdge — BOUNDED (active edge list of at most 4 resident edges, all path types, open flags and winding directions symbolic): when every resident closed edge satisfies the face-winding representation (G4: own-type winding of the adjacent face farther from zero, other-type winding of the faces; parities / +-1 under EvenOdd), the edge being inserted at the right end gets counts that satisfy it too (closed), resp. the closed-subject and clip windings of its position (open).
#include "vf.h"
//@include engine_types.inc
#ifndef NRES
#define NRES 4
#endif
//@extract file=CPP/Clipper2Lib/src/clipper.engine.cpp func=GetPolyType byptr=e refmacro=1
//@end
//@extract file=CPP/Clipper2Lib/src/clipper.engine.cpp func=IsOpen byptr=e refmacro=1
//@end
//@extract file=CPP/Clipper2Lib/src/clipper.engine.cpp func=IsOdd
//@end
//@extract file=CPP/Clipper2Lib/src/clipper.engine.cpp func=ClipperBase::SetWindCountForClosedPathEdge self=ClipperBase byptr=e
//@end
//@extract file=CPP/Clipper2Lib/src/clipper.engine.cpp func=ClipperBase::SetWindCountForOpenPathEdge self=ClipperBase byptr=e
//@end
#define ABS_(v) ((v) < 0 ? -(v) : (v))
#define MAXABS(a,b) (ABS_(a) > ABS_(b) ? (a) : (b))
unsigned nondet_uint(void); int nondet_int(void); bool nondet_bool(void);
/* builds an AEL of n resident edges + the new edge at its right end; W[t] = winding of path type t left of the current position */
static void build(ClipperBase* cb, Active a[NRES + 1], LocalMinima lm[NRES + 1], unsigned n, int W[2], bool evenodd)
{
  W[0] = W[1] = 0;
  for (unsigned i = 0; i <= NRES; ++i) {
    if (i > n) break;
    a[i].local_min = &lm[i]; a[i].prev_in_ael = i ? &a[i - 1] : NULL; a[i].next_in_ael = (i < n) ? &a[i + 1] : NULL;
    lm[i].polytype = (PathType)nondet_uint(); __CPROVER_assume(ENUM_OK(lm[i].polytype, PathType_Clip));
    lm[i].is_open = nondet_bool();
    a[i].wind_dx = nondet_int(); __CPROVER_assume(a[i].wind_dx == 1 || a[i].wind_dx == -1);
    a[i].wind_cnt = nondet_int(); a[i].wind_cnt2 = nondet_int();
    if (i < n && !lm[i].is_open) {       /* resident closed edges satisfy the representation */
      int t = lm[i].polytype;
      if (evenodd) __CPROVER_assume(a[i].wind_cnt == a[i].wind_dx && a[i].wind_cnt2 == (W[1 - t] & 1));
      else __CPROVER_assume(a[i].wind_cnt == MAXABS(W[t], W[t] + a[i].wind_dx) && a[i].wind_cnt2 == W[1 - t]);
      W[t] += a[i].wind_dx;
    }
  }
  cb->actives_ = &a[0];
}
void h_Closed(void)
{
  ClipperBase cb; Active a[NRES + 1]; LocalMinima lm[NRES + 1]; int W[2];
  unsigned n = nondet_uint(); __CPROVER_assume(n <= NRES);
  cb.fillrule_ = (FillRule)nondet_uint(); __CPROVER_assume(ENUM_OK(cb.fillrule_, FillRule_Negative));
  bool eo = cb.fillrule_ == FillRule_EvenOdd;
  build(&cb, a, lm, n, W, eo);
  Active* e = &a[n]; __CPROVER_assume(!lm[n].is_open);
  e->wind_cnt = 0; e->wind_cnt2 = 0;    /* as freshly constructed */
  int t = lm[n].polytype;
  SetWindCountForClosedPathEdge(&cb, e);
  if (eo) {
    __CPROVER_assert(e->wind_cnt == e->wind_dx, "EvenOdd: own count is the edge's direction");
    __CPROVER_assert(e->wind_cnt2 == (W[1 - t] & 1), "EvenOdd: other-type parity of the face");
  } else {
    __CPROVER_assert(e->wind_cnt == MAXABS(W[t], W[t] + e->wind_dx), "own-type winding of the adjacent face farther from zero");
    __CPROVER_assert(e->wind_cnt2 == W[1 - t], "other-type winding of the face");
  }
  VF_CANARY();
}
void h_Open(void)
{
  ClipperBase cb; Active a[NRES + 1]; LocalMinima lm[NRES + 1]; int W[2];
  unsigned n = nondet_uint(); __CPROVER_assume(n <= NRES);
  cb.fillrule_ = (FillRule)nondet_uint(); __CPROVER_assume(ENUM_OK(cb.fillrule_, FillRule_Negative));
  bool eo = cb.fillrule_ == FillRule_EvenOdd;
  build(&cb, a, lm, n, W, eo);
  /* open paths are always subjects */
  for (unsigned i = 0; i <= NRES; ++i) if (i <= n && lm[i].is_open) __CPROVER_assume(lm[i].polytype == PathType_Subject);
  Active* e = &a[n]; __CPROVER_assume(lm[n].is_open);
  e->wind_cnt = 0; e->wind_cnt2 = 0;
  SetWindCountForOpenPathEdge(&cb, e);
  if (eo) {
    __CPROVER_assert(e->wind_cnt == (W[PathType_Subject] & 1) && e->wind_cnt2 == (W[PathType_Clip] & 1), "EvenOdd: parities of the closed-subject and clip windings at the open edge");
  } else {
    __CPROVER_assert(e->wind_cnt == W[PathType_Subject] && e->wind_cnt2 == W[PathType_Clip], "closed-subject and clip winding numbers at the open edge");
  }
  VF_CANARY();
}
//@run name=SetWindCountForClosedPathEdge.ael4 entry=h_Closed defs=NRES=4 unwind=7 flags=SAFETY timeout=600 bounded="at most 4 resident edges in the AEL; path types, open flags, directions, fill rule symbolic"
//@run name=SetWindCountForOpenPathEdge.ael4 entry=h_Open defs=NRES=4 unwind=7 flags=SAFETY timeout=600 bounded="at most 4 resident edges in the AEL" props=C05,C10,C14
//@run name=SetWindCountForClosedPathEdge.ael6 entry=h_Closed defs=NRES=6 unwind=9 flags=SAFETY timeout=900 bounded="at most 6 resident edges in the AEL" tier=thorough
