//@unit C20_getnext
//@props C20
//@safetyprops C10 C14
//@desc GetNext / GetPrior (index helpers of SimplifyPath): for every flag vector with at least one unflagged index <= high the result is an unflagged index <= high and it is the cyclically next / previous one (no unflagged index strictly between); every access in bounds; both loops terminate. Unbounded in the vector length (loop contracts, ghost witnesses G3 instead of quantifiers).
#include "vf.h"
size_t g_k0;   /* ghost witness: some unflagged index */
size_t g_j;    /* ghost: an arbitrary index, for "none in between" */

//@extract file=CPP/Clipper2Lib/include/clipper2/clipper.h func=GetNext vec=flags byval=flags
//@sub /const std::vector<bool>\s+flags/const VecBool flags/
__CPROVER_requires(high < flags.size && flags.size < ((size_t)1 << 40) && __CPROVER_is_fresh(flags.data, flags.size * sizeof(bool)))
__CPROVER_requires(current <= high && g_k0 <= high && !flags.data[g_k0] && g_j <= high)
__CPROVER_ensures(__CPROVER_return_value <= high && !flags.data[__CPROVER_return_value])
/* no unflagged index strictly between current and the result, going forward cyclically */
__CPROVER_ensures(__CPROVER_return_value > __CPROVER_old(current)
     ? ((g_j > __CPROVER_old(current) && g_j < __CPROVER_return_value) ==> flags.data[g_j])
     : ((g_j > __CPROVER_old(current) || g_j < __CPROVER_return_value) ==> flags.data[g_j]))
__CPROVER_assigns()
//@loop 1
__CPROVER_assigns(current)
__CPROVER_loop_invariant(current <= high + 1 && current >= __CPROVER_loop_entry(current))
__CPROVER_loop_invariant((g_j >= __CPROVER_loop_entry(current) && g_j < current) ==> flags.data[g_j])
__CPROVER_decreases(high + 1 - current)
//@loop 2
__CPROVER_assigns(current)
__CPROVER_loop_invariant(current <= g_k0)
__CPROVER_loop_invariant((g_j < current) ==> flags.data[g_j])
__CPROVER_decreases(g_k0 - current)
//@end

//@extract file=CPP/Clipper2Lib/include/clipper2/clipper.h func=GetPrior vec=flags byval=flags
//@sub /const std::vector<bool>\s+flags/const VecBool flags/
__CPROVER_requires(high < flags.size && flags.size < ((size_t)1 << 40) && __CPROVER_is_fresh(flags.data, flags.size * sizeof(bool)))
__CPROVER_requires(current <= high && g_k0 <= high && !flags.data[g_k0] && g_j <= high)
__CPROVER_ensures(__CPROVER_return_value <= high && !flags.data[__CPROVER_return_value])
/* no unflagged index strictly between the result and current, going backward cyclically */
__CPROVER_ensures(__CPROVER_return_value < __CPROVER_old(current)
     ? ((g_j < __CPROVER_old(current) && g_j > __CPROVER_return_value) ==> flags.data[g_j])
     : ((g_j < __CPROVER_old(current) || g_j > __CPROVER_return_value) ==> flags.data[g_j]))
__CPROVER_assigns()
//@loop 1
__CPROVER_assigns(current)
__CPROVER_loop_invariant(current <= __CPROVER_loop_entry(current))
__CPROVER_loop_invariant((g_j > current && g_j <= __CPROVER_loop_entry(current)) ==> flags.data[g_j])
__CPROVER_decreases(current)
//@loop 2
__CPROVER_assigns(current)
__CPROVER_loop_invariant(current >= g_k0 && current <= high)
__CPROVER_loop_invariant((g_j > current) ==> flags.data[g_j])
__CPROVER_decreases(current)
//@end

void h_GetNext(void) { size_t c, h; VecBool f; GetNext(c, h, f); VF_CANARY(); }
void h_GetPrior(void) { size_t c, h; VecBool f; GetPrior(c, h, f); VF_CANARY(); }
//@run name=GetNext entry=h_GetNext enforce=GetNext loops=1 flags=SAFETY timeout=120
//@run name=GetPrior entry=h_GetPrior enforce=GetPrior loops=1 flags=SAFETY timeout=120
