//@unit C17_export
//@props C17 C11
//@safetyprops C14
//@desc The 14 exported functions of clipper.export.h under call-trace contracts (G5): every parameter reaches the parameter of the same meaning of the C++ object/function it is documented to forward to, invalid clip type / fill rule / precision are rejected with the documented negative code before any work is done, and the returned arrays are the marshalled results of exactly the C++ call.
#include "vf.h"
//@include calltrace.inc
//@include calltrace_stubs.inc
#ifdef TD
typedef double* CPaths; typedef double* CPath; typedef double TT;
#else
typedef int64_t* CPaths; typedef int64_t* CPath; typedef int64_t TT;
#endif
typedef int64_t* CPaths64; typedef int64_t* CPath64; typedef double* CPathsD; typedef double* CPathD;
typedef int64_t* CPolyTree64; typedef double* CPolyTreeD;

/* marshalling stubs */
VTok ConvertCPathsToPathsT(void* p)
LOG_REQ(FN_CONVS) LOG_ENS(FN_CONVS, p, __CPROVER_return_value.size, 0,0,0,0, 0,0,0,0)
__CPROVER_ensures(__CPROVER_return_value.tok == TOK(FN_CONVS, OC_(FN_CONVS)) && __CPROVER_return_value.size < ((size_t)1 << 40))
__CPROVER_assigns(LOG_ASG(FN_CONVS));
VTok ConvertCPathToPathT(void* p)
LOG_REQ(FN_CONV1) LOG_ENS(FN_CONV1, p, __CPROVER_return_value.size, 0,0,0,0, 0,0,0,0)
__CPROVER_ensures(__CPROVER_return_value.tok == TOK(FN_CONV1, OC_(FN_CONV1)) && __CPROVER_return_value.size < ((size_t)1 << 40))
__CPROVER_assigns(LOG_ASG(FN_CONV1));
VTok ConvertCPathsDToPaths64(CPathsD p, double scale)
LOG_REQ(FN_CONVSD64) LOG_ENS(FN_CONVSD64, p, __CPROVER_return_value.size, 0,0,0,0, scale,0,0,0)
__CPROVER_ensures(__CPROVER_return_value.tok == TOK(FN_CONVSD64, OC_(FN_CONVSD64)) && __CPROVER_return_value.size < ((size_t)1 << 40))
__CPROVER_assigns(LOG_ASG(FN_CONVSD64));
VTok ConvertCPathDToPath64WithScale(CPathD p, double scale)
LOG_REQ(FN_CONV1D64) LOG_ENS(FN_CONV1D64, p, __CPROVER_return_value.size, 0,0,0,0, scale,0,0,0)
__CPROVER_ensures(__CPROVER_return_value.tok == TOK(FN_CONV1D64, OC_(FN_CONV1D64)) && __CPROVER_return_value.size < ((size_t)1 << 40))
__CPROVER_assigns(LOG_ASG(FN_CONV1D64));
int64_t* CreateCPathsFromPathsT(VTok paths)
LOG_REQ(FN_CREATE) LOG_ENS(FN_CREATE, paths.tok, 0,0,0,0,0, 0,0,0,0)
__CPROVER_ensures(__CPROVER_return_value == (int64_t*)TOK(FN_CREATE, OC_(FN_CREATE)))
__CPROVER_assigns(LOG_ASG(FN_CREATE));
CPathsD CreateCPathsDFromPathsD(VTok paths)
LOG_REQ(FN_CREATEDD) LOG_ENS(FN_CREATEDD, paths.tok, 0,0,0,0,0, 0,0,0,0)
__CPROVER_ensures(__CPROVER_return_value == (CPathsD)TOK(FN_CREATEDD, OC_(FN_CREATEDD)))
__CPROVER_assigns(LOG_ASG(FN_CREATEDD));
CPathsD CreateCPathsDFromPaths64(VTok paths, double scale)
LOG_REQ(FN_CREATED64) LOG_ENS(FN_CREATED64, paths.tok, 0,0,0,0,0, scale,0,0,0)
__CPROVER_ensures(__CPROVER_return_value == (CPathsD)TOK(FN_CREATED64, OC_(FN_CREATED64)))
__CPROVER_assigns(LOG_ASG(FN_CREATED64));
CPolyTree64 CreateCPolyTree64(OTok* tree)
LOG_REQ(FN_CTREE64) LOG_ENS(FN_CTREE64, tree->tok, 0,0,0,0,0, 0,0,0,0)
__CPROVER_ensures(__CPROVER_return_value == (CPolyTree64)TOK(FN_CTREE64, OC_(FN_CTREE64)))
__CPROVER_assigns(LOG_ASG(FN_CTREE64));
CPolyTreeD CreateCPolyTreeD(OTok* tree)
LOG_REQ(FN_CTREED) LOG_ENS(FN_CTREED, tree->tok, 0,0,0,0,0, 0,0,0,0)
__CPROVER_ensures(__CPROVER_return_value == (CPolyTreeD)TOK(FN_CTREED, OC_(FN_CTREED)))
__CPROVER_assigns(LOG_ASG(FN_CTREED));
bool CRectIsEmpty(VTok rect)
BOOL_RET
LOG_REQ(FN_RECTEMPTY) LOG_ENS(FN_RECTEMPTY, rect.tok, __CPROVER_return_value, 0,0,0,0, 0,0,0,0)
__CPROVER_assigns(LOG_ASG(FN_RECTEMPTY));
VTok CRectToRect(VTok rect)
LOG_REQ(FN_CRECT2RECT) LOG_ENS(FN_CRECT2RECT, rect.tok, 0,0,0,0,0, 0,0,0,0)
__CPROVER_ensures(__CPROVER_return_value.tok == TOK(FN_CRECT2RECT, OC_(FN_CRECT2RECT)))
__CPROVER_assigns(LOG_ASG(FN_CRECT2RECT));
VTok MinkowskiSum(VTok pattern, VTok path, bool is_closed)
LOG_REQ(FN_MINKSUM) LOG_ENS(FN_MINKSUM, pattern.tok, path.tok, is_closed, 0,0,0, 0,0,0,0)
__CPROVER_ensures(__CPROVER_return_value.tok == TOK(FN_MINKSUM, OC_(FN_MINKSUM)))
__CPROVER_assigns(LOG_ASG(FN_MINKSUM));
VTok MinkowskiDiff(VTok pattern, VTok path, bool is_closed)
LOG_REQ(FN_MINKDIFF) LOG_ENS(FN_MINKDIFF, pattern.tok, path.tok, is_closed, 0,0,0, 0,0,0,0)
__CPROVER_ensures(__CPROVER_return_value.tok == TOK(FN_MINKDIFF, OC_(FN_MINKDIFF)))
__CPROVER_assigns(LOG_ASG(FN_MINKDIFF));

#define EXP CPP/Clipper2Lib/include/clipper2/clipper.export.h
#define LOG_FRESH (g_n == 0 && g_cnt[FN_CONVS] == 0 && g_cnt[FN_CONV1] == 0 && g_cnt[FN_CONVSD64] == 0 && g_cnt[FN_CONV1D64] == 0 && \
  g_cnt[FN_CREATE] == 0 && g_cnt[FN_CREATEDD] == 0 && g_cnt[FN_CREATED64] == 0 && g_cnt[FN_CTREE64] == 0 && g_cnt[FN_CTREED] == 0 && \
  g_cnt[FN_C64CTOR] == 0 && g_cnt[FN_CDCTOR] == 0 && g_cnt[FN_PRESERVE] == 0 && g_cnt[FN_REVERSE] == 0 && g_cnt[FN_ADDSUBJ] == 0 && \
  g_cnt[FN_ADDOPEN] == 0 && g_cnt[FN_ADDCLIP] == 0 && g_cnt[FN_EXEC] == 0 && g_cnt[FN_EXECTREE] == 0 && g_cnt[FN_COCTOR] == 0 && \
  g_cnt[FN_COADDPATHS] == 0 && g_cnt[FN_COADDPATH] == 0 && g_cnt[FN_COEXEC] == 0 && g_cnt[FN_RCCTOR] == 0 && g_cnt[FN_RCEXEC] == 0 && \
  g_cnt[FN_RCLCTOR] == 0 && g_cnt[FN_RCLEXEC] == 0 && g_cnt[FN_MINKSUM] == 0 && g_cnt[FN_MINKDIFF] == 0 && g_cnt[FN_POW] == 0 && \
  g_cnt[FN_FMUL] == 0 && g_cnt[FN_FDIV] == 0 && g_cnt[FN_RECTEMPTY] == 0 && g_cnt[FN_CRECT2RECT] == 0 && g_cnt[FN_SCALERECT] == 0 && g_cnt[FN_TREECTOR] == 0)

/* ---- Boolean operations ------------------------------------------------------------------------------- */
/* common part: the three inputs are converted in order; the clipper gets both options; non-empty inputs are added
   to the slot of the same meaning; Execute gets the clip type and fill rule */
#define BOOL_COMMON(CTOR, CLIP) ( \
  C_(FN_CONVS) == 3 && I_(FN_CONVS,0,0) == (long)subjects && I_(FN_CONVS,1,0) == (long)subjects_open && I_(FN_CONVS,2,0) == (long)clips && \
  C_(CTOR) == 1 && C_(FN_PRESERVE) == 1 && I_(FN_PRESERVE,0,0) == CLIP && I_(FN_PRESERVE,0,1) == (long)preserve_collinear && \
  C_(FN_REVERSE) == 1 && I_(FN_REVERSE,0,0) == CLIP && I_(FN_REVERSE,0,1) == (long)reverse_solution && \
  C_(FN_ADDSUBJ) == (I_(FN_CONVS,0,1) > 0 ? 1 : 0) && (C_(FN_ADDSUBJ) == 1 ==> (I_(FN_ADDSUBJ,0,0) == CLIP && I_(FN_ADDSUBJ,0,1) == TOK(FN_CONVS,0))) && \
  C_(FN_ADDOPEN) == (I_(FN_CONVS,1,1) > 0 ? 1 : 0) && (C_(FN_ADDOPEN) == 1 ==> (I_(FN_ADDOPEN,0,0) == CLIP && I_(FN_ADDOPEN,0,1) == TOK(FN_CONVS,1))) && \
  C_(FN_ADDCLIP) == (I_(FN_CONVS,2,1) > 0 ? 1 : 0) && (C_(FN_ADDCLIP) == 1 ==> (I_(FN_ADDCLIP,0,0) == CLIP && I_(FN_ADDCLIP,0,1) == TOK(FN_CONVS,2))) )
#define EXEC_ARGS(FN, CLIP) (C_(FN) == 1 && I_(FN,0,0) == CLIP && I_(FN,0,1) == (long)cliptype && I_(FN,0,2) == (long)fillrule && \
  SEQ(FN,0) > SEQ(FN_REVERSE,0) && SEQ(FN,0) > SEQ(FN_PRESERVE,0) && \
  (C_(FN_ADDSUBJ) == 1 ==> SEQ(FN,0) > SEQ(FN_ADDSUBJ,0)) && (C_(FN_ADDOPEN) == 1 ==> SEQ(FN,0) > SEQ(FN_ADDOPEN,0)) && (C_(FN_ADDCLIP) == 1 ==> SEQ(FN,0) > SEQ(FN_ADDCLIP,0)))
#define BAD_CT (cliptype > 4)
#define BAD_FR (fillrule > 3)
#define BAD_PREC (precision < -8 || precision > 8)

//@extract file=CPP/Clipper2Lib/include/clipper2/clipper.export.h func=BooleanOp64 byptr=solution,solution_open cpp=NOUSINGZ
//@presub /EXTERN_DLL_EXPORT\s*//
//@pysub calltrace
__CPROVER_requires(LOG_FRESH && __CPROVER_is_fresh(solution, sizeof(*solution)) && __CPROVER_is_fresh(solution_open, sizeof(*solution_open)))
__CPROVER_ensures(BAD_CT ==> (__CPROVER_return_value == -4 && NOCALLS))
__CPROVER_ensures((!BAD_CT && BAD_FR) ==> (__CPROVER_return_value == -3 && NOCALLS))
__CPROVER_ensures((!BAD_CT && !BAD_FR) ==> (BOOL_COMMON(FN_C64CTOR, TOK(FN_C64CTOR,0)) && EXEC_ARGS(FN_EXEC, TOK(FN_C64CTOR,0))))
__CPROVER_ensures((!BAD_CT && !BAD_FR && !I_(FN_EXEC,0,3)) ==> (__CPROVER_return_value == -1 && C_(FN_CREATE) == 0))
__CPROVER_ensures((!BAD_CT && !BAD_FR && I_(FN_EXEC,0,3)) ==> (__CPROVER_return_value == 0 && C_(FN_CREATE) == 2 &&
   I_(FN_CREATE,0,0) == TOK(FN_EXEC,0) && I_(FN_CREATE,1,0) == TOK(FN_EXEC,0) + 8 &&
   *solution == (int64_t*)TOK(FN_CREATE,0) && *solution_open == (int64_t*)TOK(FN_CREATE,1)))
__CPROVER_assigns(*solution, *solution_open, __CPROVER_object_whole(g_cnt), __CPROVER_object_whole(g_ev), g_n)
//@end
void h_BooleanOp64(void) { uint8_t ct, fr; CPaths64 a, b, c; CPaths64 *s, *so; bool pc, rs; LOG_INIT(); BooleanOp64(ct, fr, a, b, c, s, so, pc, rs); VF_CANARY(); }
//@run name=BooleanOp64 entry=h_BooleanOp64 enforce=BooleanOp64 replace=ConvertCPathsToPathsT,Clipper64_ctor,Clipper_PreserveCollinear,Clipper_ReverseSolution,Clipper_AddSubject,Clipper_AddOpenSubject,Clipper_AddClip,Clipper_Execute,CreateCPathsFromPathsT flags="--bounds-check --pointer-check" timeout=120

#define REPL_BOOL ConvertCPathsToPathsT,Clipper64_ctor,ClipperD_ctor2,PolyTree_ctor,Clipper_PreserveCollinear,Clipper_ReverseSolution,Clipper_AddSubject,Clipper_AddOpenSubject,Clipper_AddClip,Clipper_Execute,Clipper_ExecuteTree,CreateCPathsFromPathsT,CreateCPathsDFromPathsD,CreateCPolyTree64,CreateCPolyTreeD
#define ASG_LOG __CPROVER_object_whole(g_cnt), __CPROVER_object_whole(g_ev), g_n

//@extract file=CPP/Clipper2Lib/include/clipper2/clipper.export.h func=BooleanOp_PolyTree64 byptr=sol_tree,solution_open cpp=NOUSINGZ
//@presub /EXTERN_DLL_EXPORT\s*//
//@pysub calltrace
//@sub /Clipper64_Execute\(/Clipper_ExecuteTree(/
__CPROVER_requires(LOG_FRESH && __CPROVER_is_fresh(sol_tree, sizeof(*sol_tree)) && __CPROVER_is_fresh(solution_open, sizeof(*solution_open)))
__CPROVER_ensures(BAD_CT ==> (__CPROVER_return_value == -4 && NOCALLS))
__CPROVER_ensures((!BAD_CT && BAD_FR) ==> (__CPROVER_return_value == -3 && NOCALLS))
__CPROVER_ensures((!BAD_CT && !BAD_FR) ==> (BOOL_COMMON(FN_C64CTOR, TOK(FN_C64CTOR,0)) && EXEC_ARGS(FN_EXECTREE, TOK(FN_C64CTOR,0)) &&
   C_(FN_TREECTOR) == 1 && I_(FN_EXECTREE,0,4) == TOK(FN_TREECTOR,0)))
__CPROVER_ensures((!BAD_CT && !BAD_FR && !I_(FN_EXECTREE,0,3)) ==> (__CPROVER_return_value == -1 && C_(FN_CREATE) == 0 && C_(FN_CTREE64) == 0))
__CPROVER_ensures((!BAD_CT && !BAD_FR && I_(FN_EXECTREE,0,3)) ==> (__CPROVER_return_value == 0 && C_(FN_CTREE64) == 1 && I_(FN_CTREE64,0,0) == TOK(FN_TREECTOR,0) &&
   C_(FN_CREATE) == 1 && I_(FN_CREATE,0,0) == TOK(FN_EXECTREE,0) + 8 &&
   *sol_tree == (CPolyTree64)TOK(FN_CTREE64,0) && *solution_open == (int64_t*)TOK(FN_CREATE,0)))
__CPROVER_assigns(*sol_tree, *solution_open, ASG_LOG)
//@end
void h_BooleanOp_PolyTree64(void) { uint8_t ct, fr; CPaths64 a, b, c; CPolyTree64 *s; CPaths64 *so; bool pc, rs; LOG_INIT(); BooleanOp_PolyTree64(ct, fr, a, b, c, s, so, pc, rs); VF_CANARY(); }

//@extract file=CPP/Clipper2Lib/include/clipper2/clipper.export.h func=BooleanOpD byptr=solution,solution_open cpp=NOUSINGZ
//@presub /EXTERN_DLL_EXPORT\s*//
//@pysub calltrace
__CPROVER_requires(LOG_FRESH && __CPROVER_is_fresh(solution, sizeof(*solution)) && __CPROVER_is_fresh(solution_open, sizeof(*solution_open)))
__CPROVER_ensures(BAD_PREC ==> (__CPROVER_return_value == -5 && NOCALLS))
__CPROVER_ensures((!BAD_PREC && BAD_CT) ==> (__CPROVER_return_value == -4 && NOCALLS))
__CPROVER_ensures((!BAD_PREC && !BAD_CT && BAD_FR) ==> (__CPROVER_return_value == -3 && NOCALLS))
__CPROVER_ensures((!BAD_PREC && !BAD_CT && !BAD_FR) ==> (BOOL_COMMON(FN_CDCTOR, TOK(FN_CDCTOR,0)) && EXEC_ARGS(FN_EXEC, TOK(FN_CDCTOR,0)) && I_(FN_CDCTOR,0,0) == precision))
__CPROVER_ensures((!BAD_PREC && !BAD_CT && !BAD_FR && !I_(FN_EXEC,0,3)) ==> (__CPROVER_return_value == -1 && C_(FN_CREATEDD) == 0))
__CPROVER_ensures((!BAD_PREC && !BAD_CT && !BAD_FR && I_(FN_EXEC,0,3)) ==> (__CPROVER_return_value == 0 && C_(FN_CREATEDD) == 2 &&
   I_(FN_CREATEDD,0,0) == TOK(FN_EXEC,0) && I_(FN_CREATEDD,1,0) == TOK(FN_EXEC,0) + 8 &&
   *solution == (CPathsD)TOK(FN_CREATEDD,0) && *solution_open == (CPathsD)TOK(FN_CREATEDD,1)))
__CPROVER_assigns(*solution, *solution_open, ASG_LOG)
//@end
void h_BooleanOpD(void) { uint8_t ct, fr; CPathsD a, b, c; CPathsD *s, *so; int prec; bool pc, rs; LOG_INIT(); BooleanOpD(ct, fr, a, b, c, s, so, prec, pc, rs); VF_CANARY(); }

//@extract file=CPP/Clipper2Lib/include/clipper2/clipper.export.h func=BooleanOp_PolyTreeD byptr=solution,solution_open cpp=NOUSINGZ
//@presub /EXTERN_DLL_EXPORT\s*//
//@pysub calltrace
//@sub /ClipperD_Execute\(/Clipper_ExecuteTree(/
__CPROVER_requires(LOG_FRESH && __CPROVER_is_fresh(solution, sizeof(*solution)) && __CPROVER_is_fresh(solution_open, sizeof(*solution_open)))
__CPROVER_ensures(BAD_PREC ==> (__CPROVER_return_value == -5 && NOCALLS))
__CPROVER_ensures((!BAD_PREC && BAD_CT) ==> (__CPROVER_return_value == -4 && NOCALLS))
__CPROVER_ensures((!BAD_PREC && !BAD_CT && BAD_FR) ==> (__CPROVER_return_value == -3 && NOCALLS))
__CPROVER_ensures((!BAD_PREC && !BAD_CT && !BAD_FR) ==> (BOOL_COMMON(FN_CDCTOR, TOK(FN_CDCTOR,0)) && EXEC_ARGS(FN_EXECTREE, TOK(FN_CDCTOR,0)) && I_(FN_CDCTOR,0,0) == precision &&
   C_(FN_TREECTOR) == 1 && I_(FN_EXECTREE,0,4) == TOK(FN_TREECTOR,0)))
__CPROVER_ensures((!BAD_PREC && !BAD_CT && !BAD_FR && !I_(FN_EXECTREE,0,3)) ==> (__CPROVER_return_value == -1 && C_(FN_CREATEDD) == 0 && C_(FN_CTREED) == 0))
__CPROVER_ensures((!BAD_PREC && !BAD_CT && !BAD_FR && I_(FN_EXECTREE,0,3)) ==> (__CPROVER_return_value == 0 && C_(FN_CTREED) == 1 && I_(FN_CTREED,0,0) == TOK(FN_TREECTOR,0) &&
   C_(FN_CREATEDD) == 1 && I_(FN_CREATEDD,0,0) == TOK(FN_EXECTREE,0) + 8 &&
   *solution == (CPolyTreeD)TOK(FN_CTREED,0) && *solution_open == (CPathsD)TOK(FN_CREATEDD,0)))
__CPROVER_assigns(*solution, *solution_open, ASG_LOG)
//@end
void h_BooleanOp_PolyTreeD(void) { uint8_t ct, fr; CPathsD a, b, c; CPolyTreeD *s; CPathsD *so; int prec; bool pc, rs; LOG_INIT(); BooleanOp_PolyTreeD(ct, fr, a, b, c, s, so, prec, pc, rs); VF_CANARY(); }

/* ---- Offsetting ------------------------------------------------------------------------------------------ */
#define HAS_FMUL(a, b, r) ((C_(FN_FMUL) > 0 && IS_FMUL(0, a, b) && FMUL_RET(0) == (r)) || (C_(FN_FMUL) > 1 && IS_FMUL(1, a, b) && FMUL_RET(1) == (r)) || \
                           (C_(FN_FMUL) > 2 && IS_FMUL(2, a, b) && FMUL_RET(2) == (r)))
/* the offsetter is built with the four constructor parameters of the same meaning: preserve_collinear is not an
   argument of the exported functions, so it takes the constructor's default (false) */
#define CO_CTOR(arc) (C_(FN_COCTOR) == 1 && D_(FN_COCTOR,0,0) == miter_limit && D_(FN_COCTOR,0,1) == (arc) && \
                      I_(FN_COCTOR,0,0) == 0 && I_(FN_COCTOR,0,1) == (long)reverse_solution)
#define REPL_CO ConvertCPathsToPathsT,ConvertCPathToPathT,ConvertCPathsDToPaths64,ConvertCPathDToPath64WithScale,ClipperOffset_ctor5,ClipperOffset_AddPaths,ClipperOffset_AddPath,ClipperOffset_Execute,CreateCPathsFromPathsT,CreateCPathsDFromPaths64,vf_pow,vf_fmul,vf_fdiv

//@extract file=CPP/Clipper2Lib/include/clipper2/clipper.export.h func=InflatePaths64 cpp=NOUSINGZ
//@presub /EXTERN_DLL_EXPORT\s*//
//@pysub calltrace
//@pysub floatops min=0
__CPROVER_requires(LOG_FRESH && !__CPROVER_isnand(miter_limit) && !__CPROVER_isnand(arc_tolerance) && !__CPROVER_isnand(delta))
__CPROVER_ensures(C_(FN_CONVS) == 1 && I_(FN_CONVS,0,0) == (long)paths && CO_CTOR(arc_tolerance))
__CPROVER_ensures(C_(FN_COADDPATHS) == 1 && I_(FN_COADDPATHS,0,0) == TOK(FN_COCTOR,0) && I_(FN_COADDPATHS,0,1) == TOK(FN_CONVS,0) &&
   I_(FN_COADDPATHS,0,2) == (long)jointype && I_(FN_COADDPATHS,0,3) == (long)endtype)
__CPROVER_ensures(C_(FN_COEXEC) == 1 && I_(FN_COEXEC,0,0) == TOK(FN_COCTOR,0) && D_(FN_COEXEC,0,0) == delta && SEQ(FN_COEXEC,0) > SEQ(FN_COADDPATHS,0))
__CPROVER_ensures(C_(FN_CREATE) == 1 && I_(FN_CREATE,0,0) == TOK(FN_COEXEC,0) && __CPROVER_return_value == (int64_t*)TOK(FN_CREATE,0))
__CPROVER_assigns(ASG_LOG)
//@end
void h_InflatePaths64(void) { CPaths64 p; double d, ml, at; uint8_t jt, et; bool rs; LOG_INIT(); InflatePaths64(p, d, jt, et, ml, at, rs); VF_CANARY(); }

//@extract file=CPP/Clipper2Lib/include/clipper2/clipper.export.h func=InflatePath64 cpp=NOUSINGZ
//@presub /EXTERN_DLL_EXPORT\s*//
//@pysub calltrace
//@pysub floatops min=0
__CPROVER_requires(LOG_FRESH && !__CPROVER_isnand(miter_limit) && !__CPROVER_isnand(arc_tolerance) && !__CPROVER_isnand(delta))
__CPROVER_ensures(C_(FN_CONV1) == 1 && I_(FN_CONV1,0,0) == (long)path && CO_CTOR(arc_tolerance))
__CPROVER_ensures(C_(FN_COADDPATH) == 1 && I_(FN_COADDPATH,0,0) == TOK(FN_COCTOR,0) && I_(FN_COADDPATH,0,1) == TOK(FN_CONV1,0) &&
   I_(FN_COADDPATH,0,2) == (long)jointype && I_(FN_COADDPATH,0,3) == (long)endtype)
__CPROVER_ensures(C_(FN_COEXEC) == 1 && I_(FN_COEXEC,0,0) == TOK(FN_COCTOR,0) && D_(FN_COEXEC,0,0) == delta && SEQ(FN_COEXEC,0) > SEQ(FN_COADDPATH,0))
__CPROVER_ensures(C_(FN_CREATE) == 1 && I_(FN_CREATE,0,0) == TOK(FN_COEXEC,0) && __CPROVER_return_value == (int64_t*)TOK(FN_CREATE,0))
__CPROVER_assigns(ASG_LOG)
//@end
void h_InflatePath64(void) { CPath64 p; double d, ml, at; uint8_t jt, et; bool rs; LOG_INIT(); InflatePath64(p, d, jt, et, ml, at, rs); VF_CANARY(); }

#define SCALE POW_RET(0)
#define D_PRE (LOG_FRESH && !__CPROVER_isnand(miter_limit) && !__CPROVER_isnand(arc_tolerance) && !__CPROVER_isnand(delta))
//@extract file=CPP/Clipper2Lib/include/clipper2/clipper.export.h func=InflatePathsD cpp=NOUSINGZ
//@presub /EXTERN_DLL_EXPORT\s*//
//@pysub calltrace
//@pysub floatops
__CPROVER_requires(D_PRE)
__CPROVER_ensures((BAD_PREC || paths == NULL) ==> (__CPROVER_return_value == NULL && NOCALLS))
#define OKD (!BAD_PREC && paths != NULL)
/* scale = 10^precision; paths, delta and arc tolerance are scaled alike; the result is descaled with 1/scale */
__CPROVER_ensures(OKD ==> (C_(FN_POW) == 1 && IS_POW10(0, precision) && C_(FN_CONVSD64) == 1 && I_(FN_CONVSD64,0,0) == (long)paths && D_(FN_CONVSD64,0,0) == SCALE))
__CPROVER_ensures(OKD ==> (C_(FN_COCTOR) == 1 && D_(FN_COCTOR,0,0) == miter_limit && HAS_FMUL(arc_tolerance, SCALE, D_(FN_COCTOR,0,1)) && I_(FN_COCTOR,0,0) == 0 && I_(FN_COCTOR,0,1) == (long)reverse_solution))
__CPROVER_ensures(OKD ==> (C_(FN_COADDPATHS) == 1 && I_(FN_COADDPATHS,0,0) == TOK(FN_COCTOR,0) && I_(FN_COADDPATHS,0,1) == TOK(FN_CONVSD64,0) &&
   I_(FN_COADDPATHS,0,2) == (long)jointype && I_(FN_COADDPATHS,0,3) == (long)endtype))
__CPROVER_ensures(OKD ==> (C_(FN_COEXEC) == 1 && I_(FN_COEXEC,0,0) == TOK(FN_COCTOR,0) && HAS_FMUL(delta, SCALE, D_(FN_COEXEC,0,0)) && SEQ(FN_COEXEC,0) > SEQ(FN_COADDPATHS,0)))
__CPROVER_ensures(OKD ==> (C_(FN_CREATED64) == 1 && I_(FN_CREATED64,0,0) == TOK(FN_COEXEC,0) && C_(FN_FDIV) == 1 && IS_FDIV(0, 1.0, SCALE) && D_(FN_CREATED64,0,0) == FDIV_RET(0) &&
   __CPROVER_return_value == (CPathsD)TOK(FN_CREATED64,0)))
__CPROVER_assigns(ASG_LOG)
//@end
void h_InflatePathsD(void) { CPathsD p; double d, ml, at; uint8_t jt, et; int prec; bool rs; LOG_INIT(); InflatePathsD(p, d, jt, et, prec, ml, at, rs); VF_CANARY(); }

//@extract file=CPP/Clipper2Lib/include/clipper2/clipper.export.h func=InflatePathD cpp=NOUSINGZ
//@presub /EXTERN_DLL_EXPORT\s*//
//@pysub calltrace
//@pysub floatops
__CPROVER_requires(D_PRE)
__CPROVER_ensures((BAD_PREC || path == NULL) ==> (__CPROVER_return_value == NULL && NOCALLS))
#define OKD1 (!BAD_PREC && path != NULL)
__CPROVER_ensures(OKD1 ==> (C_(FN_POW) == 1 && IS_POW10(0, precision) && C_(FN_CONV1D64) == 1 && I_(FN_CONV1D64,0,0) == (long)path && D_(FN_CONV1D64,0,0) == SCALE))
__CPROVER_ensures(OKD1 ==> (C_(FN_COCTOR) == 1 && D_(FN_COCTOR,0,0) == miter_limit && HAS_FMUL(arc_tolerance, SCALE, D_(FN_COCTOR,0,1)) && I_(FN_COCTOR,0,0) == 0 && I_(FN_COCTOR,0,1) == (long)reverse_solution))
__CPROVER_ensures(OKD1 ==> (C_(FN_COADDPATH) == 1 && I_(FN_COADDPATH,0,0) == TOK(FN_COCTOR,0) && I_(FN_COADDPATH,0,1) == TOK(FN_CONV1D64,0) &&
   I_(FN_COADDPATH,0,2) == (long)jointype && I_(FN_COADDPATH,0,3) == (long)endtype))
__CPROVER_ensures(OKD1 ==> (C_(FN_COEXEC) == 1 && I_(FN_COEXEC,0,0) == TOK(FN_COCTOR,0) && HAS_FMUL(delta, SCALE, D_(FN_COEXEC,0,0)) && SEQ(FN_COEXEC,0) > SEQ(FN_COADDPATH,0)))
__CPROVER_ensures(OKD1 ==> (C_(FN_CREATED64) == 1 && I_(FN_CREATED64,0,0) == TOK(FN_COEXEC,0) && C_(FN_FDIV) == 1 && IS_FDIV(0, 1.0, SCALE) && D_(FN_CREATED64,0,0) == FDIV_RET(0) &&
   __CPROVER_return_value == (CPathsD)TOK(FN_CREATED64,0)))
__CPROVER_assigns(ASG_LOG)
//@end
void h_InflatePathD(void) { CPathD p; double d, ml, at; uint8_t jt, et; int prec; bool rs; LOG_INIT(); InflatePathD(p, d, jt, et, prec, ml, at, rs); VF_CANARY(); }

/* ---- Rectangle clipping ------------------------------------------------------------------------------------ */
#define REPL_RC ConvertCPathsToPathsT,ConvertCPathsDToPaths64,CreateCPathsFromPathsT,CreateCPathsDFromPaths64,CRectIsEmpty,CRectToRect,ScaleRect,RectClip64_ctor,RectClip64_Execute,RectClipLines64_ctor,RectClipLines64_Execute,vf_pow,vf_fdiv
#define RC_REJECT64 (I_(FN_RECTEMPTY,0,1) || paths == NULL)
#define RC64_SPEC(CTOR, EXEC) \
  __CPROVER_ensures(C_(FN_RECTEMPTY) == 1 && I_(FN_RECTEMPTY,0,0) == rect->tok) \
  __CPROVER_ensures(RC_REJECT64 ==> (__CPROVER_return_value == NULL && g_n == 1)) \
  __CPROVER_ensures(!RC_REJECT64 ==> (C_(FN_CRECT2RECT) == 1 && I_(FN_CRECT2RECT,0,0) == rect->tok && C_(CTOR) == 1 && I_(CTOR,0,0) == TOK(FN_CRECT2RECT,0) && \
     C_(FN_CONVS) == 1 && I_(FN_CONVS,0,0) == (long)paths && C_(EXEC) == 1 && I_(EXEC,0,0) == TOK(CTOR,0) && I_(EXEC,0,1) == TOK(FN_CONVS,0) && \
     C_(FN_CREATE) == 1 && I_(FN_CREATE,0,0) == TOK(EXEC,0) && __CPROVER_return_value == (int64_t*)TOK(FN_CREATE,0)))
//@extract file=CPP/Clipper2Lib/include/clipper2/clipper.export.h func=RectClip64 as=exp_RectClip64 byptr=rect cpp=NOUSINGZ
//@presub /EXTERN_DLL_EXPORT\s*//
//@pysub calltrace
__CPROVER_requires(LOG_FRESH && __CPROVER_is_fresh(rect, sizeof(*rect)))
RC64_SPEC(FN_RCCTOR, FN_RCEXEC)
__CPROVER_assigns(ASG_LOG)
//@end
void h_RectClip64(void) { CRect64* r; CPaths64 p; LOG_INIT(); exp_RectClip64(r, p); VF_CANARY(); }
//@extract file=CPP/Clipper2Lib/include/clipper2/clipper.export.h func=RectClipLines64 as=exp_RectClipLines64 byptr=rect cpp=NOUSINGZ
//@presub /EXTERN_DLL_EXPORT\s*//
//@pysub calltrace
__CPROVER_requires(LOG_FRESH && __CPROVER_is_fresh(rect, sizeof(*rect)))
RC64_SPEC(FN_RCLCTOR, FN_RCLEXEC)
__CPROVER_assigns(ASG_LOG)
//@end
void h_RectClipLines64(void) { CRect64* r; CPaths64 p; LOG_INIT(); exp_RectClipLines64(r, p); VF_CANARY(); }

#define RCD_SPEC(CTOR, EXEC) \
  __CPROVER_ensures(C_(FN_RECTEMPTY) == 1 && I_(FN_RECTEMPTY,0,0) == rect->tok) \
  __CPROVER_ensures((RC_REJECT64 || BAD_PREC) ==> (__CPROVER_return_value == NULL && g_n == 1)) \
  __CPROVER_ensures((!RC_REJECT64 && !BAD_PREC) ==> (C_(FN_POW) == 1 && IS_POW10(0, precision) && \
     C_(FN_CRECT2RECT) == 1 && I_(FN_CRECT2RECT,0,0) == rect->tok && C_(FN_SCALERECT) == 1 && I_(FN_SCALERECT,0,0) == TOK(FN_CRECT2RECT,0) && D_(FN_SCALERECT,0,0) == SCALE && \
     C_(CTOR) == 1 && I_(CTOR,0,0) == TOK(FN_SCALERECT,0) && \
     C_(FN_CONVSD64) == 1 && I_(FN_CONVSD64,0,0) == (long)paths && D_(FN_CONVSD64,0,0) == SCALE && C_(EXEC) == 1 && I_(EXEC,0,0) == TOK(CTOR,0) && I_(EXEC,0,1) == TOK(FN_CONVSD64,0) && \
     C_(FN_CREATED64) == 1 && I_(FN_CREATED64,0,0) == TOK(EXEC,0) && C_(FN_FDIV) == 1 && IS_FDIV(0, 1.0, SCALE) && D_(FN_CREATED64,0,0) == FDIV_RET(0) && \
     __CPROVER_return_value == (CPathsD)TOK(FN_CREATED64,0)))
//@extract file=CPP/Clipper2Lib/include/clipper2/clipper.export.h func=RectClipD byptr=rect cpp=NOUSINGZ
//@presub /EXTERN_DLL_EXPORT\s*//
//@pysub calltrace
//@pysub floatops
__CPROVER_requires(LOG_FRESH && __CPROVER_is_fresh(rect, sizeof(*rect)))
RCD_SPEC(FN_RCCTOR, FN_RCEXEC)
__CPROVER_assigns(ASG_LOG)
//@end
void h_RectClipD(void) { CRectD* r; CPathsD p; int prec; LOG_INIT(); RectClipD(r, p, prec); VF_CANARY(); }
//@extract file=CPP/Clipper2Lib/include/clipper2/clipper.export.h func=RectClipLinesD byptr=rect cpp=NOUSINGZ
//@presub /EXTERN_DLL_EXPORT\s*//
//@pysub calltrace
//@pysub floatops
__CPROVER_requires(LOG_FRESH && __CPROVER_is_fresh(rect, sizeof(*rect)))
RCD_SPEC(FN_RCLCTOR, FN_RCLEXEC)
__CPROVER_assigns(ASG_LOG)
//@end
void h_RectClipLinesD(void) { CRectD* r; CPathsD p; int prec; LOG_INIT(); RectClipLinesD(r, p, prec); VF_CANARY(); }

/* ---- Minkowski --------------------------------------------------------------------------------------------- */
#define MINK_SPEC(FN) \
  __CPROVER_ensures(C_(FN_CONV1) == 2 && C_(FN) == 1 && C_(FN_CREATE) == 1 && I_(FN,0,2) == (long)is_closed && \
    ((I_(FN_CONV1,0,0) == (long)*cpath && I_(FN_CONV1,1,0) == (long)*cpattern && I_(FN,0,0) == TOK(FN_CONV1,1) && I_(FN,0,1) == TOK(FN_CONV1,0)) || \
     (I_(FN_CONV1,0,0) == (long)*cpattern && I_(FN_CONV1,1,0) == (long)*cpath && I_(FN,0,0) == TOK(FN_CONV1,0) && I_(FN,0,1) == TOK(FN_CONV1,1))) && \
    I_(FN_CREATE,0,0) == TOK(FN,0) && __CPROVER_return_value == (int64_t*)TOK(FN_CREATE,0))
//@extract file=CPP/Clipper2Lib/include/clipper2/clipper.export.h func=MinkowskiSum64 byptr=cpattern,cpath cpp=NOUSINGZ
//@presub /EXTERN_DLL_EXPORT\s*//
//@pysub calltrace
__CPROVER_requires(LOG_FRESH && __CPROVER_is_fresh(cpattern, sizeof(*cpattern)) && __CPROVER_is_fresh(cpath, sizeof(*cpath)) && *cpattern != *cpath)
MINK_SPEC(FN_MINKSUM)
__CPROVER_assigns(ASG_LOG)
//@end
void h_MinkowskiSum64(void) { CPath64 *a, *b; bool c; LOG_INIT(); MinkowskiSum64(a, b, c); VF_CANARY(); }
//@extract file=CPP/Clipper2Lib/include/clipper2/clipper.export.h func=MinkowskiDiff64 byptr=cpattern,cpath cpp=NOUSINGZ
//@presub /EXTERN_DLL_EXPORT\s*//
//@pysub calltrace
__CPROVER_requires(LOG_FRESH && __CPROVER_is_fresh(cpattern, sizeof(*cpattern)) && __CPROVER_is_fresh(cpath, sizeof(*cpath)) && *cpattern != *cpath)
MINK_SPEC(FN_MINKDIFF)
__CPROVER_assigns(ASG_LOG)
//@end
void h_MinkowskiDiff64(void) { CPath64 *a, *b; bool c; LOG_INIT(); MinkowskiDiff64(a, b, c); VF_CANARY(); }

//@run name=BooleanOp_PolyTree64 entry=h_BooleanOp_PolyTree64 enforce=BooleanOp_PolyTree64 replace=ConvertCPathsToPathsT,Clipper64_ctor,PolyTree_ctor,Clipper_PreserveCollinear,Clipper_ReverseSolution,Clipper_AddSubject,Clipper_AddOpenSubject,Clipper_AddClip,Clipper_ExecuteTree,CreateCPathsFromPathsT,CreateCPolyTree64 flags="--bounds-check --pointer-check" timeout=120
//@run name=BooleanOpD entry=h_BooleanOpD enforce=BooleanOpD replace=ConvertCPathsToPathsT,ClipperD_ctor2,Clipper_PreserveCollinear,Clipper_ReverseSolution,Clipper_AddSubject,Clipper_AddOpenSubject,Clipper_AddClip,Clipper_Execute,CreateCPathsDFromPathsD flags="--bounds-check --pointer-check" timeout=120
//@run name=BooleanOp_PolyTreeD entry=h_BooleanOp_PolyTreeD enforce=BooleanOp_PolyTreeD replace=ConvertCPathsToPathsT,ClipperD_ctor2,PolyTree_ctor,Clipper_PreserveCollinear,Clipper_ReverseSolution,Clipper_AddSubject,Clipper_AddOpenSubject,Clipper_AddClip,Clipper_ExecuteTree,CreateCPathsDFromPathsD,CreateCPolyTreeD flags="--bounds-check --pointer-check" timeout=120
//@run name=InflatePaths64 entry=h_InflatePaths64 enforce=InflatePaths64 replace=ConvertCPathsToPathsT,ClipperOffset_ctor5,ClipperOffset_AddPaths,ClipperOffset_Execute,CreateCPathsFromPathsT flags="--bounds-check --pointer-check" timeout=120
//@run name=InflatePath64 entry=h_InflatePath64 enforce=InflatePath64 replace=ConvertCPathToPathT,ClipperOffset_ctor5,ClipperOffset_AddPath,ClipperOffset_Execute,CreateCPathsFromPathsT flags="--bounds-check --pointer-check" timeout=120
//@run name=InflatePathsD entry=h_InflatePathsD enforce=InflatePathsD replace=ConvertCPathsDToPaths64,ClipperOffset_ctor5,ClipperOffset_AddPaths,ClipperOffset_Execute,CreateCPathsDFromPaths64,vf_pow,vf_fmul,vf_fdiv flags="--bounds-check --pointer-check" timeout=120
//@run name=InflatePathD entry=h_InflatePathD enforce=InflatePathD replace=ConvertCPathDToPath64WithScale,ClipperOffset_ctor5,ClipperOffset_AddPath,ClipperOffset_Execute,CreateCPathsDFromPaths64,vf_pow,vf_fmul,vf_fdiv flags="--bounds-check --pointer-check" timeout=120
//@run name=RectClip64 entry=h_RectClip64 enforce=exp_RectClip64 replace=ConvertCPathsToPathsT,CreateCPathsFromPathsT,CRectIsEmpty,CRectToRect,RectClip64_ctor,RectClip64_Execute flags="--bounds-check --pointer-check" timeout=120
//@run name=RectClipLines64 entry=h_RectClipLines64 enforce=exp_RectClipLines64 replace=ConvertCPathsToPathsT,CreateCPathsFromPathsT,CRectIsEmpty,CRectToRect,RectClipLines64_ctor,RectClipLines64_Execute flags="--bounds-check --pointer-check" timeout=120
//@run name=RectClipD entry=h_RectClipD enforce=RectClipD replace=ConvertCPathsDToPaths64,CreateCPathsDFromPaths64,CRectIsEmpty,CRectToRect,ScaleRect,RectClip64_ctor,RectClip64_Execute,vf_pow,vf_fdiv flags="--bounds-check --pointer-check" timeout=120
//@run name=RectClipLinesD entry=h_RectClipLinesD enforce=RectClipLinesD replace=ConvertCPathsDToPaths64,CreateCPathsDFromPaths64,CRectIsEmpty,CRectToRect,ScaleRect,RectClipLines64_ctor,RectClipLines64_Execute,vf_pow,vf_fdiv flags="--bounds-check --pointer-check" timeout=120
//@run name=MinkowskiSum64 entry=h_MinkowskiSum64 enforce=MinkowskiSum64 replace=ConvertCPathToPathT,MinkowskiSum,CreateCPathsFromPathsT flags="--bounds-check --pointer-check" timeout=120
//@run name=MinkowskiDiff64 entry=h_MinkowskiDiff64 enforce=MinkowskiDiff64 replace=ConvertCPathToPathT,MinkowskiDiff,CreateCPathsFromPathsT flags="--bounds-check --pointer-check" timeout=120
