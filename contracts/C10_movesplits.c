//@unit C10_movesplits
//@props C10
//@desc MoveSplits (ProcessHorzJoins, polytree output): the split list of the absorbed OutRec is moved, not lost. OutRec::splits is an owning raw pointer released only by ~OutRec, so the function must leave every list that existed before still owned by the OutRec that owned it (C10: no leaks), allocate at most one new list and only when the receiver had none, append the moved entries after the receiver's own in order, and leave the giver's list empty. The std::vector operations are mapped line by line onto a (data,size) list with a bounded capacity; the loop is closed by a loop contract.
#include "vf.h"
//@include engine_types.inc
#define CAP 8
size_t g_to0, g_from0, g_k; OutRec* g_expect;
OutRecList g_newlist; OutRec* g_newents[CAP]; int g_nnew;
static OutRecList* vf_new_list(void) { __CPROVER_assert(g_nnew == 0, "at most one list is allocated"); g_nnew++; g_newlist.data = g_newents; g_newlist.size = 0; return &g_newlist; }
#define VF_LPUSH(l, e) do { __CPROVER_assert((l)->size < CAP, "capacity"); ((OutRec**)(l)->data)[(l)->size] = (e); (l)->size++; } while (0)
//@extract file=CPP/Clipper2Lib/src/clipper.engine.cpp func=MoveSplits
//@sub /new OutRecList\(\)/vf_new_list()/
//@sub /OutRecList::iterator (\w+) = (\w+)->splits->begin\(\);/size_t \1 = 0;/
//@sub /(\w+) != (\w+)->splits->end\(\)/\1 < \2->splits->size/
//@sub /(\w+)->splits->emplace_back\(\*(\w+)\)/VF_LPUSH(\1->splits, ((OutRec**)fromOr->splits->data)[\2])/
//@sub /(\w+)->splits->clear\(\)/\1->splits->size = 0/ min=0
//@loop 1
__CPROVER_assigns(orIter, toOr->splits->size, __CPROVER_object_whole(toOr->splits->data))
__CPROVER_loop_invariant(orIter <= fromOr->splits->size && toOr->splits->size == g_to0 + orIter && fromOr->splits->size == g_from0)
__CPROVER_loop_invariant(g_k >= g_to0 + orIter || ((OutRec**)toOr->splits->data)[g_k] == g_expect)
__CPROVER_decreases(fromOr->splits->size - orIter)
//@end
unsigned nondet_uint(void); bool nondet_bool(void); size_t nondet_size(void);
void h_MS(void)
{
  OutRec from, to; OutRecList lf, lt; OutRec* ef[CAP]; OutRec* et[CAP];
  lf.data = ef; lt.data = et; lf.size = nondet_size(); lt.size = nondet_size();
  __CPROVER_assume(lf.size <= CAP && lt.size <= CAP && lf.size + lt.size <= CAP);
  from.splits = nondet_bool() ? &lf : NULL; to.splits = nondet_bool() ? &lt : NULL;
  OutRecList* from_old = from.splits; OutRecList* to_old = to.splits;
  g_from0 = from.splits ? lf.size : 0; g_to0 = to.splits ? lt.size : 0;
  g_k = nondet_size(); __CPROVER_assume(g_k < g_to0 + g_from0);          /* one arbitrary position of the result list */
  g_expect = g_k < g_to0 ? et[g_k] : ef[g_k - g_to0];
  g_nnew = 0;
  MoveSplits(&from, &to);
  __CPROVER_assert(from.splits == from_old, "the giver still owns its list object (released by ~OutRec, not leaked)");
  if (to_old) __CPROVER_assert(to.splits == to_old && g_nnew == 0, "the receiver keeps its own list; none is allocated");
  else if (from_old) __CPROVER_assert(to.splits == &g_newlist && g_nnew == 1, "a receiver without a list gets exactly one new list, which it owns");
  else __CPROVER_assert(to.splits == NULL && g_nnew == 0, "nothing to move: nothing allocated");
  if (from_old) {
    __CPROVER_assert(from.splits->size == 0, "the giver's list is emptied");
    __CPROVER_assert(to.splits->size == g_to0 + g_from0, "the receiver has its own entries plus all moved ones");
    __CPROVER_assert(((OutRec**)to.splits->data)[g_k] == g_expect, "own entries first, then the moved ones, in order");
  }
  VF_CANARY();
}
//@run name=MoveSplits entry=h_MS loops=1 flags="--bounds-check --pointer-check" timeout=300
