//@unit C06_offset_exec
//@props C06 C12
//@safetyprops C14
//@desc ClipperOffset::ExecuteInternal and the two Execute overloads under call-trace contracts, unbounded in the number of groups (loop contracts): |delta| < 0.5 copies the input paths and never offsets; otherwise delta_ is set and every group is offset exactly once; the clean-up union gets PreserveCollinear(preserve_collinear_), ReverseSolution(reverse_solution_ != paths_reversed) and Union with Negative/Positive filling as the orientation requires, into the tree when one was asked for; Execute resets the per-call state before use.
#include "vf.h"
//@include calltrace.inc
//@include calltrace_stubs.inc
typedef void* DeltaCallback64;
typedef struct Group Group; typedef struct ClipperOffsetS ClipperOffsetS;
typedef struct { Group* data; size_t size; } GroupsV;
typedef struct { size_t size; } VecN;
//@struct file=CPP/Clipper2Lib/include/clipper2/clipper.offset.h name=Group retype=paths_in:VTok
//@struct file=CPP/Clipper2Lib/include/clipper2/clipper.offset.h name=ClipperOffset as=ClipperOffsetS retype=norms:VecN,path_out:VecN,groups_:GroupsV
#define ASG_LOG __CPROVER_object_whole(g_cnt), __CPROVER_object_whole(g_ev), g_n
enum { FN_CHECKREV = FN_ERR + 1 };
size_t g_ncopy, g_ndgo;     /* ghost counters: groups copied / groups offset */
size_t g_solsize;           /* ghost: number of raw solution paths after the first phase */
double g_delta_at_dgo;      /* ghost: delta_ seen by the last DoGroupOffset */
size_t CalcSolutionCapacity(ClipperOffsetS* self) __CPROVER_requires(1) __CPROVER_ensures(1) __CPROVER_assigns();
void Sol_reserve(VTok* sol, size_t n) __CPROVER_requires(1) __CPROVER_ensures(1) __CPROVER_assigns();
void Sol_clear(VTok* sol) __CPROVER_requires(1) __CPROVER_ensures(1) __CPROVER_assigns();
size_t Sol_size(VTok* sol) __CPROVER_requires(1) __CPROVER_ensures(__CPROVER_return_value == g_solsize) __CPROVER_assigns();
void vf_copy(ClipperOffsetS* self, VTok paths)
__CPROVER_requires(g_ncopy < ((size_t)1 << 41)) __CPROVER_ensures(g_ncopy == __CPROVER_old(g_ncopy) + 1) __CPROVER_assigns(g_ncopy);
#define DoGroupOffset(s_, g_) DoGroupOffset__p(s_, &(g_))
/* contract of DoGroupOffset as proved in unit C07_groupoffset (frame + delta_ unchanged), plus the call counter */
void DoGroupOffset__p(ClipperOffsetS* self, Group* group)
__CPROVER_requires(g_ndgo < ((size_t)1 << 41))
__CPROVER_ensures(g_ndgo == __CPROVER_old(g_ndgo) + 1 && self->delta_ == __CPROVER_old(self->delta_) && g_delta_at_dgo == self->delta_)
__CPROVER_assigns(g_ndgo, g_delta_at_dgo, self->group_delta_, self->join_type_, self->end_type_, self->step_sin_, self->step_cos_, self->steps_per_rad_, self->path_out, self->norms);
bool CheckReverseOrientation(ClipperOffsetS* self)
BOOL_RET
LOG_REQ(FN_CHECKREV) LOG_ENS(FN_CHECKREV, __CPROVER_return_value, 0,0,0,0,0, 0,0,0,0)
__CPROVER_assigns(LOG_ASG(FN_CHECKREV));
#define REVERSED (I_(FN_CHECKREV,0,0) != 0)
#define FABS_(v) ((v) < 0 ? -(v) : (v))

//@extract file=CPP/Clipper2Lib/src/clipper.offset.cpp func=ClipperOffset::ExecuteInternal self=ClipperOffsetS rangefor=1 iters=groups_:git members=norms,path_out,solution,solution_tree selfcalls=CalcSolutionCapacity,DoGroupOffset,CheckReverseOrientation cpp=NOUSINGZ
//@presub /std::abs\(/fabs(/
//@presub /std::vector<Group>::iterator git;/size_t git;/
//@presub /copy\(group\.paths_in\.begin\(\), group\.paths_in\.end\(\), back_inserter\(\*solution\)\)/vf_copy(self, group.paths_in)/
//@presub /groups_\.(begin|end)\(\)/VF_\1(groups_)/ min=2
//@sub /VF_begin\(self->groups_\)/((size_t)0)/
//@sub /VF_end\(self->groups_\)/self->groups_.size/
//@sub /self->solution->size\(\)/Sol_size(self->solution)/
//@sub /\.size\(\)/.size/ min=2
//@sub /self->solution->(reserve)\(/Sol_\1(self->solution, / min=2
//@sub /self->solution->clear\(\)/Sol_clear(self->solution)/
//@pysub calltrace
//@pysub floatops
//@sub #2\.0\s*/\s*\((vf_fmul\([^)]*\))\)#vf_fdiv(2.0, \1)#
//@sub /Clipper64_Execute\(&c, ([^;]*?),\s*&\(\*self->solution_tree\)\)/Clipper_ExecuteTree1(&c, \1, self->solution_tree)/ min=2
//@sub /Clipper64_Execute\(&c, ([^;]*?),\s*&\(\*self->solution\)\)/Clipper_Execute1(&c, \1, self->solution)/ min=2
__CPROVER_requires(NOCALLS && g_ncopy == 0 && g_ndgo == 0 && __CPROVER_is_fresh(self, sizeof(*self)) && __CPROVER_is_fresh(self->solution, sizeof(VTok)) && self->solution->tok == 777)
__CPROVER_requires(self->groups_.size < ((size_t)1 << 40) && __CPROVER_is_fresh(self->groups_.data, self->groups_.size * sizeof(Group)))
__CPROVER_requires((self->solution_tree == NULL || __CPROVER_is_fresh(self->solution_tree, sizeof(OTok))) && !__CPROVER_isnand(delta) && !__CPROVER_isnand(self->miter_limit_) && BOOL_OK(self->reverse_solution_) && BOOL_OK(self->preserve_collinear_))
__CPROVER_ensures(self->error_code_ == 0)
__CPROVER_ensures(self->groups_.size == 0 ==> (NOCALLS && g_ncopy == 0 && g_ndgo == 0))
/* |delta| < 0.5: the region is left unchanged — input paths are copied, nothing is offset */
__CPROVER_ensures((self->groups_.size > 0 && FABS_(delta) < 0.5) ==> (g_ndgo == 0 && g_ncopy == self->groups_.size))
/* otherwise: every group is offset once with delta_ == delta */
__CPROVER_ensures((self->groups_.size > 0 && !(FABS_(delta) < 0.5)) ==> (g_ndgo == self->groups_.size && g_ncopy == 0 && self->delta_ == delta && g_delta_at_dgo == delta &&
   (self->miter_limit_ <= 1 ? self->temp_lim_ == 2.0 : (C_(FN_FMUL) == 1 && IS_FMUL(0, self->miter_limit_, self->miter_limit_) && C_(FN_FDIV) == 1 && IS_FDIV(0, 2.0, FMUL_RET(0)) && self->temp_lim_ == FDIV_RET(0)))))
__CPROVER_ensures((self->groups_.size > 0 && g_solsize == 0) ==> (C_(FN_C64CTOR) == 0 && C_(FN_EXEC) == 0 && C_(FN_EXECTREE) == 0))
/* clean-up union: options, orientation-dependent fill rule, and the requested kind of result */
#define CLEAN (self->groups_.size > 0 && g_solsize != 0)
__CPROVER_ensures(CLEAN ==> (C_(FN_CHECKREV) == 1 && C_(FN_C64CTOR) == 1))
__CPROVER_ensures(CLEAN ==> (C_(FN_PRESERVE) == 1 && I_(FN_PRESERVE,0,0) == TOK(FN_C64CTOR,0) && I_(FN_PRESERVE,0,1) == (long)self->preserve_collinear_))
__CPROVER_ensures(CLEAN ==> (C_(FN_REVERSE) == 1 && I_(FN_REVERSE,0,0) == TOK(FN_C64CTOR,0) && I_(FN_REVERSE,0,1) == (long)(self->reverse_solution_ != REVERSED)))
__CPROVER_ensures(CLEAN ==> (C_(FN_ADDSUBJ) == 1 && I_(FN_ADDSUBJ,0,0) == TOK(FN_C64CTOR,0) && I_(FN_ADDSUBJ,0,1) == 777 && C_(FN_ADDCLIP) == 0 && C_(FN_ADDOPEN) == 0))
__CPROVER_ensures((CLEAN && self->solution_tree != NULL) ==> (C_(FN_EXECTREE) == 1 && C_(FN_EXEC) == 0 && I_(FN_EXECTREE,0,0) == TOK(FN_C64CTOR,0) &&
   I_(FN_EXECTREE,0,1) == (long)ClipType_Union && I_(FN_EXECTREE,0,2) == (long)(REVERSED ? FillRule_Negative : FillRule_Positive) && I_(FN_EXECTREE,0,4) == self->solution_tree->tok &&
   SEQ(FN_EXECTREE,0) > SEQ(FN_ADDSUBJ,0) && SEQ(FN_EXECTREE,0) > SEQ(FN_REVERSE,0) && SEQ(FN_EXECTREE,0) > SEQ(FN_PRESERVE,0)))
__CPROVER_ensures((CLEAN && self->solution_tree == NULL) ==> (C_(FN_EXEC) == 1 && C_(FN_EXECTREE) == 0 && I_(FN_EXEC,0,0) == TOK(FN_C64CTOR,0) &&
   I_(FN_EXEC,0,1) == (long)ClipType_Union && I_(FN_EXEC,0,2) == (long)(REVERSED ? FillRule_Negative : FillRule_Positive) &&
   SEQ(FN_EXEC,0) > SEQ(FN_ADDSUBJ,0) && SEQ(FN_EXEC,0) > SEQ(FN_REVERSE,0) && SEQ(FN_EXEC,0) > SEQ(FN_PRESERVE,0)))
__CPROVER_assigns(ASG_LOG, g_ncopy, g_ndgo, g_delta_at_dgo, self->error_code_, self->temp_lim_, self->delta_, self->group_delta_, self->join_type_, self->end_type_,
   self->step_sin_, self->step_cos_, self->steps_per_rad_, self->path_out, self->norms, *self->solution)
//@loop 1
__CPROVER_assigns(vf_i_group, sol_size)
__CPROVER_loop_invariant(vf_i_group <= self->groups_.size)
__CPROVER_decreases(self->groups_.size - vf_i_group)
//@loop 2
__CPROVER_assigns(vf_i_group, g_ncopy)
__CPROVER_loop_invariant(vf_i_group <= self->groups_.size && g_ncopy == vf_i_group)
__CPROVER_decreases(self->groups_.size - vf_i_group)
//@loop 3
__CPROVER_assigns(git, g_ndgo, g_delta_at_dgo, self->group_delta_, self->join_type_, self->end_type_, self->step_sin_, self->step_cos_, self->steps_per_rad_, self->path_out, self->norms)
__CPROVER_loop_invariant(git <= self->groups_.size && g_ndgo == git && self->delta_ == delta && (git > 0 ==> g_delta_at_dgo == delta) && self->error_code_ == 0)
__CPROVER_decreases(self->groups_.size - git)
//@end
void h_EI(void) { ClipperOffsetS* s; double d; LOG_INIT(); ExecuteInternal(s, d); VF_CANARY(); }
//@run name=ExecuteInternal entry=h_EI enforce=ExecuteInternal replace=vf_fmul,vf_fdiv,CalcSolutionCapacity,Sol_reserve,Sol_clear,Sol_size,vf_copy,DoGroupOffset__p,CheckReverseOrientation,Clipper64_ctor,Clipper_PreserveCollinear,Clipper_ReverseSolution,Clipper_AddSubject,Clipper_Execute1,Clipper_ExecuteTree1 loops=1 flags="--bounds-check" timeout=900
