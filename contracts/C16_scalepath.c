//@unit C16_scalepath
//@props C16 C11
//@safetyprops C10 C14
//@desc ScalePath<int64_t, double> (the conversion every PathsD entry point goes through), unbounded in the path length (loop contract), both build configurations: the result has the same number of points; point k is built from (pt.x * scale_x, pt.y * scale_y) - x with the x scale, y with the y scale, each handed to the Point<int64_t> constructor whose rounding is C16_init's subject - and with USINGZ carries pt.z unchanged; a zero scale is REPORTED (scale_error_i set in error_code, DoError called) and treated as 1, never silently used. Products are applications of one uninterpreted function (the rounding of x * scale itself is not decided).
#include "vf.h"
#ifdef USINGZ
typedef struct { double x, y; int64_t z; } PointD; typedef struct { int64_t x, y, z; } Point64;
#else
typedef struct { double x, y; } PointD; typedef struct { int64_t x, y; } Point64;
#endif
typedef struct { PointD* data; size_t size; } PathD;
typedef struct { size_t size, cap; } PathObs;
//@const file=CPP/Clipper2Lib/include/clipper2/clipper.core.h name=scale_error_i
double __CPROVER_uninterpreted_fmul(double, double);
#define vf_fmul(a, b) __CPROVER_uninterpreted_fmul((double)(a), (double)(b))
int g_doerror_n, g_doerror_code;
void DoError(int code) __CPROVER_ensures(g_doerror_n == __CPROVER_old(g_doerror_n) + 1 && g_doerror_code == code) __CPROVER_assigns(g_doerror_n, g_doerror_code);
size_t g_k; double g_exp_x, g_exp_y; double g_out_x, g_out_y; int64_t g_out_z; bool g_out_set;
#ifdef USINGZ
#define VF_OBS_PUSH(v, X, Y, Z) do { __CPROVER_assert((v).size < (v).cap, "push within reserved capacity"); if ((v).size == g_k) { g_out_x = (X); g_out_y = (Y); g_out_z = (Z); g_out_set = true; } (v).size++; } while (0)
#else
#define VF_OBS_PUSH(v, X, Y) do { __CPROVER_assert((v).size < (v).cap, "push within reserved capacity"); if ((v).size == g_k) { g_out_x = (X); g_out_y = (Y); g_out_set = true; } (v).size++; } while (0)
#endif
//@extract file=CPP/Clipper2Lib/include/clipper2/clipper.core.h func=ScalePath sig="double scale_x, double scale_y, int& error_code" byval=path byptr=error_code vec=path cpp=USINGZ ifdef=USINGZ
//@include C16_scalepath_body.inc
//@end
//@extract file=CPP/Clipper2Lib/include/clipper2/clipper.core.h func=ScalePath sig="double scale_x, double scale_y, int& error_code" byval=path byptr=error_code vec=path cpp=NOTHING ifndef=USINGZ
//@include C16_scalepath_body.inc
//@end
void h_ScalePath(void) { PathD p; double sx, sy; int* ec; ScalePath(p, sx, sy, ec); VF_CANARY(); }
//@run name=ScalePath entry=h_ScalePath enforce=ScalePath replace=DoError loops=1 flags="--bounds-check --pointer-check --unsigned-overflow-check" timeout=300
//@run name=ScalePath.Z entry=h_ScalePath enforce=ScalePath replace=DoError loops=1 defs=USINGZ flags="--bounds-check --pointer-check --unsigned-overflow-check" timeout=300
//@assume A5/R17 (C16_scalepath): the std::transform/back_inserter/lambda idiom is rewritten into the index loop it denotes; the result vector is observed (one arbitrary element), not stored; DoError is a stub (returns: the no-exceptions configuration); floating-point products are applications of an uninterpreted function; Point<int64_t>(double, double) itself is C16_init.
