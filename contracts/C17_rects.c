//@unit C17_rects
//@props C17
//@safetyprops C10 C14
//@desc Small marshalling helpers of the C export layer. CRectToRect: the four sides are copied to the sides of the same name (left to left, top to top, right to right, bottom to bottom - the exported RectClip functions forward the rectangle through it). CRectIsEmpty: empty exactly when right <= left or bottom <= top (the export layer's argument check agrees with Rect64::IsEmpty). ConvertCPathToPathT<int64_t> (unbounded path length, loop contract): a null array gives an empty path; otherwise element 0 is the vertex count, element 1 is skipped, and vertex j is read from elements 2 + j*D and 2 + j*D + 1 (D = 2, or 3 with USINGZ where the third element is z bit for bit) - every read stays inside [0, 2 + cnt*D).
#include "vf.h"
typedef int64_t T;
typedef struct { int64_t left, top, right, bottom; } CRectT;
typedef struct { int64_t left, top, right, bottom; } RectT;
//@extract file=CPP/Clipper2Lib/include/clipper2/clipper.export.h func=CRectToRect byval=rect
//@sub /CRect<T>/CRectT/
__CPROVER_ensures(__CPROVER_return_value.left == rect.left && __CPROVER_return_value.top == rect.top && __CPROVER_return_value.right == rect.right && __CPROVER_return_value.bottom == rect.bottom)
__CPROVER_assigns()
//@end
//@extract file=CPP/Clipper2Lib/include/clipper2/clipper.export.h func=CRectIsEmpty byval=rect
//@sub /CRect<T>/CRectT/
__CPROVER_ensures(__CPROVER_return_value == (rect.right <= rect.left || rect.bottom <= rect.top))
__CPROVER_assigns()
//@end
/* ---------- ConvertCPathToPathT<int64_t> ---------- */
#ifdef USINGZ
typedef struct { int64_t x, y, z; } PointT;
#define D_ 3
#else
typedef struct { int64_t x, y; } PointT;
#define D_ 2
#endif
typedef int64_t z_type;
typedef struct { size_t size, cap; } PathObs;
size_t g_k; PointT g_out; bool g_out_set; size_t g_len;   /* ghost: one arbitrary vertex index, what was pushed there, the stated array length */
T* g_base;
#define VF_RD() (__CPROVER_assert((size_t)(v - g_base) < g_len, "read inside [0, 2 + cnt*D)"), *v++)
static inline int64_t Reinterpret_i2i(int64_t value) { return *(int64_t*)(&value); }
#ifdef USINGZ
#define VF_OBS_PUSH(r, X, Y, Z) do { __CPROVER_assert((r).size < (r).cap, "push within reserved capacity"); if ((r).size == g_k) { g_out.x = (X); g_out.y = (Y); g_out.z = (Z); g_out_set = true; } (r).size++; } while (0)
#else
#define VF_OBS_PUSH(r, X, Y) do { __CPROVER_assert((r).size < (r).cap, "push within reserved capacity"); if ((r).size == g_k) { g_out.x = (X); g_out.y = (Y); g_out_set = true; } (r).size++; } while (0)
#endif
//@extract file=CPP/Clipper2Lib/include/clipper2/clipper.export.h func=ConvertCPathToPathT cpp=USINGZ ifdef=USINGZ
//@include C17_convpath.inc
//@end
//@extract file=CPP/Clipper2Lib/include/clipper2/clipper.export.h func=ConvertCPathToPathT cpp=NOTHING ifndef=USINGZ
//@include C17_convpath.inc
//@end
void h_Conv(void) { T* p; ConvertCPathToPathT(p); VF_CANARY(); }
void h_R2R(void) { CRectT r; CRectToRect(r); VF_CANARY(); }
void h_RIE(void) { CRectT r; CRectIsEmpty(r); VF_CANARY(); }
//@run name=CRectToRect entry=h_R2R enforce=CRectToRect flags=SAFETY timeout=60
//@run name=CRectIsEmpty entry=h_RIE enforce=CRectIsEmpty flags=SAFETY timeout=60
//@run name=ConvertCPathToPathT entry=h_Conv enforce=ConvertCPathToPathT loops=1 flags="--bounds-check --pointer-check --unsigned-overflow-check" solver=cadical timeout=300
//@run name=ConvertCPathToPathT.Z entry=h_Conv enforce=ConvertCPathToPathT loops=1 defs=USINGZ flags="--bounds-check --pointer-check --unsigned-overflow-check" solver=cadical timeout=300
//@assume A5 (C17_rects): the result vector of ConvertCPathToPathT is observed (length + one arbitrary element), not stored; Reinterpret is its real body (pointer-cast bit copy, see C17_marshal).
