//@unit C01_sides
//@props C01
//@desc The small contour-side helpers of the sweep (loop-free, all states): SetSides makes the two given edges the front and the back edge of the contour; OutrecIsAscending says whether the edge is its contour's front edge; SwapFrontBackSides exchanges the two sides and moves the entry vertex to the other end of the ring (pts -> pts->next), touching nothing else; UncoupleOutRec detaches BOTH edges of the contour from it (they become cold) and the contour from its edges, and does nothing for a cold edge.
#include "vf.h"
//@include engine_types.inc
//@extract file=CPP/Clipper2Lib/src/clipper.engine.cpp func=SetSides byptr=outrec,start_edge,end_edge
//@sub /&\(\*start_edge\)/start_edge/ min=0
//@sub /&\(\*end_edge\)/end_edge/ min=0
//@end
//@extract file=CPP/Clipper2Lib/src/clipper.engine.cpp func=OutrecIsAscending
//@end
//@extract file=CPP/Clipper2Lib/src/clipper.engine.cpp func=SwapFrontBackSides byptr=outrec
//@end
//@extract file=CPP/Clipper2Lib/src/clipper.engine.cpp func=UncoupleOutRec
//@end
bool nondet_bool(void);
void h_Sides(void)
{
  OutRec o, o2; Active a, b, c; OutPt p0, p1;
  p0.next = &p1; p1.next = &p0; p0.prev = &p1; p1.prev = &p0;
  o.front_edge = nondet_bool() ? &c : NULL; o.back_edge = nondet_bool() ? &c : NULL; o.pts = &p0;
  SetSides(&o, &a, &b);
  __CPROVER_assert(o.front_edge == &a && o.back_edge == &b && o.pts == &p0, "SetSides: front = first edge, back = second edge, nothing else");
  a.outrec = &o; b.outrec = &o;
  __CPROVER_assert(OutrecIsAscending(&a) && !OutrecIsAscending(&b), "OutrecIsAscending: the front edge, and only it");
  SwapFrontBackSides(&o);
  __CPROVER_assert(o.front_edge == &b && o.back_edge == &a && o.pts == &p1, "SwapFrontBackSides: sides exchanged, entry vertex moved to the other end");
  __CPROVER_assert(a.outrec == &o && b.outrec == &o, "the edges stay on the contour");
  /* UncoupleOutRec takes the edge BY VALUE (a copy): what matters is the contour it points to */
  c.outrec = nondet_bool() ? &o : NULL; bool was = c.outrec != NULL;
  UncoupleOutRec(c);
  if (was) __CPROVER_assert(a.outrec == NULL && b.outrec == NULL && o.front_edge == NULL && o.back_edge == NULL && o.pts == &p1, "UncoupleOutRec: both edges of the contour become cold, the contour forgets them, its ring is kept");
  else __CPROVER_assert(a.outrec == &o && b.outrec == &o && o.front_edge == &b && o.back_edge == &a, "a cold edge uncouples nothing");
  VF_CANARY();
}
//@run name=Sides entry=h_Sides flags="--bounds-check --pointer-check" timeout=120
