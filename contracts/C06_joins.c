//@unit C06_joins
//@props C06
//@desc The join builders of ClipperOffset place their vertices where the property says they lie. DoBevel (j != k): exactly two vertices, the path vertex moved along the normal of the incoming edge (norms[k]) and along the normal of the outgoing edge (norms[j]) by the SIGNED group delta — the two corners of "the polygon moved only along its edge normals"; DoBevel (j == k, open-path end): the vertex moved by -|delta| and +|delta| along the single normal. DoMiter: one vertex, the intersection of the two offset edges, vertex + (n_k + n_j) * delta / (1 + cos). DoRound (no delta callback): the first vertex of the arc is the vertex moved along norms[k] by the signed delta (negated for an end cap), and at least one arc vertex is emitted. Floating-point sums, products and quotients are uninterpreted functions made commutative where IEEE is (R21b/c: real adders and multipliers did not finish in 600 s); the spec terms are built from the same functions in the order of the property's formula, so a changed operand (|delta| for delta, norms[j] for norms[k], a flipped sign) is a different term.
#include "vf.h"
typedef struct { int64_t x, y; } Point64;
typedef struct { double x, y; } PointD;
typedef struct { Point64* data; size_t size; } Path64;
typedef struct { PointD* data; size_t size; } PathD;
typedef struct { double group_delta_, step_sin_, step_cos_, steps_per_rad_, arc_tolerance_; void* deltaCallback64_; PathD norms; Point64 out[8]; size_t nout; } ClipperOffset;
#define VSEL3(a, b, c, N, ...) N
int64_t __CPROVER_uninterpreted_round_i64(double);
#define vf_r(v) __CPROVER_uninterpreted_round_i64(v)
#define TO_I64(v) _Generic((v), double: vf_r(v), default: (int64_t)(v))
#define PD1(p) ((PointD){(double)(p).x, (double)(p).y})
#define PD2(a, b) ((PointD){(double)(a), (double)(b)})
#define PointD(...) VSEL3(__VA_ARGS__, PD3, PD2, PD1)(__VA_ARGS__)
#define P64_1(p) ((Point64){TO_I64((p).x), TO_I64((p).y)})
#define P64_2(a, b) ((Point64){TO_I64(a), TO_I64(b)})
void emit_p64(ClipperOffset* s, Point64 p) { __CPROVER_assert(s->nout < 8, "observation buffer"); s->out[s->nout++] = p; }
void emit_pd(ClipperOffset* s, PointD p) { emit_p64(s, P64_1(p)); }
void emit_xy(ClipperOffset* s, double x, double y) { emit_p64(s, P64_2(x, y)); }
#define EMIT1(s, p) _Generic((p), Point64: emit_p64, PointD: emit_pd)(s, p)
#define EMIT2(s, a, b) emit_xy(s, a, b)
#define VF_EMIT(s, ...) VSEL3(__VA_ARGS__, EMIT3, EMIT2, EMIT1)(s, __VA_ARGS__)
/* R21b/c with commutativity: products and sums of doubles are applications of uninterpreted functions whose operands are ordered first, so a*b == b*a and a+b == b+a hold as in IEEE arithmetic */
double __CPROVER_uninterpreted_fmul(double, double); double __CPROVER_uninterpreted_fdiv(double, double); double __CPROVER_uninterpreted_fadd(double, double); double __CPROVER_uninterpreted_fsub(double, double);
#define VF_BITS(d) (*(const int64_t*)&(d))     /* a total order on bit patterns, so NaN operands are ordered too */
static inline double vf_cmul(double a, double b) { return VF_BITS(a) <= VF_BITS(b) ? __CPROVER_uninterpreted_fmul(a, b) : __CPROVER_uninterpreted_fmul(b, a); }
static inline double vf_cadd(double a, double b) { return VF_BITS(a) <= VF_BITS(b) ? __CPROVER_uninterpreted_fadd(a, b) : __CPROVER_uninterpreted_fadd(b, a); }
#define vf_fmul(a, b) vf_cmul((double)(a), (double)(b))
#define vf_fdiv(a, b) __CPROVER_uninterpreted_fdiv((double)(a), (double)(b))
#define vf_add(a, b) _Generic((a) + (b), double: vf_cadd((double)(a), (double)(b)), default: (a) + (b))
#define vf_sub(a, b) _Generic((a) - (b), double: __CPROVER_uninterpreted_fsub((double)(a), (double)(b)), default: (a) - (b))
#define Point64(...) VSEL3(__VA_ARGS__, P64_3, P64_2, P64_1)(__VA_ARGS__)
/* arc vertices beyond the observation buffer are counted, not stored */
void emit_sat(ClipperOffset* s, Point64 p) { if (s->nout < 8) s->out[s->nout] = p; s->nout++; }
void emit_sat_xy(ClipperOffset* s, double x, double y) { emit_sat(s, P64_2(x, y)); }
#define ESAT1(s, p) emit_sat(s, p)
#define ESAT2(s, a, b) emit_sat_xy(s, a, b)
#define VF_EMIT_SAT(s, ...) VSEL3(__VA_ARGS__, ESAT3, ESAT2, ESAT1)(s, __VA_ARGS__)
#define PI 3.141592653589793238
#define floating_point_tolerance 1e-12
#define arc_const 0.002
#define STATE_OK(self, path, j, k) (__CPROVER_is_fresh(self, sizeof(*self)) && path.size >= 1 && path.size <= 4 && __CPROVER_is_fresh(path.data, path.size * sizeof(Point64)) && \
    self->norms.size == path.size && __CPROVER_is_fresh(self->norms.data, path.size * sizeof(PointD)) && j < path.size && k < path.size && self->nout == 0)
/* the vertex p moved along the normal n by d (spec function, same IEEE operations in the order the property's formula has them) */
#define MOVED_X(p, n, d) vf_r(vf_add((p).x, vf_fmul(d, (n).x)))
#define MOVED_Y(p, n, d) vf_r(vf_add((p).y, vf_fmul(d, (n).y)))
#define AT(i, X, Y) (self->out[i].x == (X) && self->out[i].y == (Y))

//@extract file=CPP/Clipper2Lib/src/clipper.offset.cpp func=ClipperOffset::DoBevel self=ClipperOffset cpp=NOTHING byval=path vec=path,norms members=norms,path_out ifdef=BEVEL
//@pysub fops_all
//@sub /std::abs\(/fabs(/ min=0
//@sub /self->path_out\.emplace_back\(/VF_EMIT(self, / min=2
//@contract
__CPROVER_requires(STATE_OK(self, path, j, k))
__CPROVER_ensures(self->nout == 2)
__CPROVER_ensures(j != k ==> AT(0, MOVED_X(path.data[j], self->norms.data[k], self->group_delta_), MOVED_Y(path.data[j], self->norms.data[k], self->group_delta_)))
__CPROVER_ensures(j != k ==> AT(1, MOVED_X(path.data[j], self->norms.data[j], self->group_delta_), MOVED_Y(path.data[j], self->norms.data[j], self->group_delta_)))
__CPROVER_ensures(j == k ==> AT(0, vf_r(vf_sub(path.data[j].x, vf_fmul(fabs(self->group_delta_), self->norms.data[j].x))), vf_r(vf_sub(path.data[j].y, vf_fmul(fabs(self->group_delta_), self->norms.data[j].y)))))
__CPROVER_ensures(j == k ==> AT(1, MOVED_X(path.data[j], self->norms.data[j], fabs(self->group_delta_)), MOVED_Y(path.data[j], self->norms.data[j], fabs(self->group_delta_))))
__CPROVER_assigns(self->out, self->nout)
//@end
//@extract file=CPP/Clipper2Lib/src/clipper.offset.cpp func=ClipperOffset::DoMiter self=ClipperOffset cpp=NOTHING byval=path vec=path,norms members=norms,path_out ifdef=MITER
//@pysub fops_all
//@sub /self->path_out\.emplace_back\(/VF_EMIT(self, /
//@contract
__CPROVER_requires(STATE_OK(self, path, j, k))
__CPROVER_ensures(self->nout == 1)
__CPROVER_ensures(AT(0, vf_r(vf_add(path.data[j].x, vf_fmul(vf_add(self->norms.data[k].x, self->norms.data[j].x), vf_fdiv(self->group_delta_, vf_add(cos_a, 1.0))))), vf_r(vf_add(path.data[j].y, vf_fmul(vf_add(self->norms.data[k].y, self->norms.data[j].y), vf_fdiv(self->group_delta_, vf_add(cos_a, 1.0)))))))
__CPROVER_assigns(self->out, self->nout)
//@end
//@extract file=CPP/Clipper2Lib/src/clipper.offset.cpp func=GetPerpendic cpp=NOTHING byval=pt,norm ifdef=ROUND
//@pysub fops_all
//@end
//@extract file=CPP/Clipper2Lib/include/clipper2/clipper.core.h func=Negate scope=Point as=PointD_Negate self=PointD members=x,y ifdef=ROUND
//@end
//@extract file=CPP/Clipper2Lib/src/clipper.offset.cpp func=ClipperOffset::DoRound self=ClipperOffset cpp=NOTHING byval=path vec=path,norms members=norms,path_out ifdef=ROUND
//@pysub fops_all
//@sub /std::abs\(/fabs(/ min=0
//@sub /offsetVec\.Negate\(\);/PointD_Negate(&offsetVec);/
//@sub /self->path_out\.emplace_back\(/VF_EMIT_SAT(self, / min=3
//@contract
__CPROVER_requires(STATE_OK(self, path, j, k) && self->deltaCallback64_ == NULL)
__CPROVER_ensures(self->nout >= 2)
__CPROVER_ensures(j != k ==> AT(0, MOVED_X(path.data[j], self->norms.data[k], self->group_delta_), MOVED_Y(path.data[j], self->norms.data[k], self->group_delta_)))
__CPROVER_ensures(j == k ==> AT(0, vf_r(vf_add(path.data[j].x, -vf_fmul(self->group_delta_, self->norms.data[k].x))), vf_r(vf_add(path.data[j].y, -vf_fmul(self->group_delta_, self->norms.data[k].y)))))
__CPROVER_ensures(self->nout <= 8 ==> AT(self->nout - 1, MOVED_X(path.data[j], self->norms.data[j], self->group_delta_), MOVED_Y(path.data[j], self->norms.data[j], self->group_delta_)))
__CPROVER_assigns(self->out, self->nout)
//@loop 1
__CPROVER_assigns(i, offsetVec, self->nout, __CPROVER_object_upto(self->out, sizeof(self->out)))
__CPROVER_loop_invariant(i >= 1 && self->nout == (size_t)i && self->out[0].x == __CPROVER_loop_entry(self->out[0].x) && self->out[0].y == __CPROVER_loop_entry(self->out[0].y))
__CPROVER_decreases(steps - i)
//@end
#ifdef BEVEL
void h_DoBevel(void) { ClipperOffset* s; Path64 p; size_t j, k; DoBevel(s, p, j, k); VF_CANARY(); }
#endif
#ifdef ROUND
void h_DoRound(void) { ClipperOffset* s; Path64 p; size_t j, k; double a; DoRound(s, p, j, k, a); VF_CANARY(); }
#endif
#ifdef MITER
void h_DoMiter(void) { ClipperOffset* s; Path64 p; size_t j, k; double c; DoMiter(s, p, j, k, c); VF_CANARY(); }
#endif
//@run name=DoBevel entry=h_DoBevel enforce=DoBevel defs=BEVEL flags="--bounds-check --pointer-check" unwind=9 timeout=300
//@run name=DoMiter entry=h_DoMiter enforce=DoMiter defs=MITER flags="--bounds-check --pointer-check" unwind=9 timeout=300
//@run name=DoRound entry=h_DoRound enforce=DoRound loops=1 defs=ROUND flags="--bounds-check --pointer-check" unwind=9 timeout=300
//@assume R21b/c (commutative form): in this unit every floating-point product, quotient, sum and difference and the double->int64 rounding are applications of uninterpreted functions; products and sums order their operands by bit pattern first, so commuted operands give the same term. A rewrite that is bit-identical in IEEE arithmetic but not by commutativity (e.g. a + (-b)*c for a - b*c) would be reported although the property holds; none exists on the current tree.
