//@unit C06_joins
//@props C06
//@desc The join builders of ClipperOffset place their vertices where the property says they lie. DoBevel (j != k): exactly two vertices, the path vertex moved along the normal of the incoming edge (norms[k]) and along the normal of the outgoing edge (norms[j]) by the SIGNED group delta — the two corners of "the polygon moved only along its edge normals"; DoBevel (j == k, open-path end): the vertex moved by -|delta| and +|delta| along the single normal. DoMiter: one vertex, the intersection of the two offset edges, vertex + (n_k + n_j) * delta / (1 + cos). DoSquare: the cut line runs through Q = vertex + |delta| * vec (unit bisector of the two edge directions, or the edge direction at an end cap) perpendicular to vec, it is intersected with the offset line of edge k (two points of edge k moved along norms[k] by the signed delta), and the two vertices are that intersection and its mirror image about Q (intersection and bisector themselves are stubs). DoRound (no delta callback): the first vertex of the arc is the vertex moved along norms[k] by the signed delta (negated for an end cap), and at least one arc vertex is emitted. Floating-point sums, products and quotients are uninterpreted functions made commutative where IEEE is (R21b/c: real adders and multipliers did not finish in 600 s); the spec terms are built from the same functions in the order of the property's formula, so a changed operand (|delta| for delta, norms[j] for norms[k], a flipped sign) is a different term.
#include "vf.h"
typedef struct { int64_t x, y; } Point64;
typedef struct { double x, y; } PointD;
typedef struct { Point64* data; size_t size; } Path64;
typedef struct { PointD* data; size_t size; } PathD;
typedef PointD PointT;
typedef struct { double group_delta_, step_sin_, step_cos_, steps_per_rad_, arc_tolerance_; void* deltaCallback64_; PathD norms; Point64 out[8]; size_t nout; } ClipperOffset;
#define VSEL3(a, b, c, N, ...) N
int64_t __CPROVER_uninterpreted_round_i64(double);
#define vf_r(v) __CPROVER_uninterpreted_round_i64(v)
#define TO_I64(v) _Generic((v), double: vf_r(v), default: (int64_t)(v))
#define PD1(p) ((PointD){(double)(p).x, (double)(p).y})
#define PD2(a, b) ((PointD){(double)(a), (double)(b)})
#define PointD(...) VSEL3(__VA_ARGS__, PD3, PD2, PD1)(__VA_ARGS__)
#define P64_1(p) ((Point64){TO_I64((p).x), TO_I64((p).y)})
#define P64_2(a, b) ((Point64){TO_I64(a), TO_I64(b)})
void emit_p64(ClipperOffset* s, Point64 p) { __CPROVER_assert(s->nout < 8, "observation buffer"); s->out[s->nout++] = p; }
void emit_pd(ClipperOffset* s, PointD p) { emit_p64(s, P64_1(p)); }
void emit_xy(ClipperOffset* s, double x, double y) { emit_p64(s, P64_2(x, y)); }
#define EMIT1(s, p) _Generic((p), Point64: emit_p64, PointD: emit_pd)(s, p)
#define EMIT2(s, a, b) emit_xy(s, a, b)
#define VF_EMIT(s, ...) VSEL3(__VA_ARGS__, EMIT3, EMIT2, EMIT1)(s, __VA_ARGS__)
/* R21b/c with commutativity: products and sums of doubles are applications of uninterpreted functions whose operands are ordered first, so a*b == b*a and a+b == b+a hold as in IEEE arithmetic */
double __CPROVER_uninterpreted_fmul(double, double); double __CPROVER_uninterpreted_fdiv(double, double); double __CPROVER_uninterpreted_fadd(double, double); double __CPROVER_uninterpreted_fsub(double, double);
#define VF_BITS(d) (*(const int64_t*)&(d))     /* a total order on bit patterns, so NaN operands are ordered too */
static inline double vf_cmul(double a, double b) { return VF_BITS(a) <= VF_BITS(b) ? __CPROVER_uninterpreted_fmul(a, b) : __CPROVER_uninterpreted_fmul(b, a); }
static inline double vf_cadd(double a, double b) { return VF_BITS(a) <= VF_BITS(b) ? __CPROVER_uninterpreted_fadd(a, b) : __CPROVER_uninterpreted_fadd(b, a); }
#define vf_fmul(a, b) vf_cmul((double)(a), (double)(b))
#define vf_fdiv(a, b) __CPROVER_uninterpreted_fdiv((double)(a), (double)(b))
#define vf_add(a, b) _Generic((a) + (b), double: vf_cadd((double)(a), (double)(b)), default: (a) + (b))
#define vf_sub(a, b) _Generic((a) - (b), double: __CPROVER_uninterpreted_fsub((double)(a), (double)(b)), default: (a) - (b))
#define Point64(...) VSEL3(__VA_ARGS__, P64_3, P64_2, P64_1)(__VA_ARGS__)
/* arc vertices beyond the observation buffer are counted, not stored */
void emit_sat(ClipperOffset* s, Point64 p) { if (s->nout < 8) s->out[s->nout] = p; s->nout++; }
void emit_sat_xy(ClipperOffset* s, double x, double y) { emit_sat(s, P64_2(x, y)); }
#define ESAT1(s, p) emit_sat(s, p)
#define ESAT2(s, a, b) emit_sat_xy(s, a, b)
#define VF_EMIT_SAT(s, ...) VSEL3(__VA_ARGS__, ESAT3, ESAT2, ESAT1)(s, __VA_ARGS__)
#define PI 3.141592653589793238
#define floating_point_tolerance 1e-12
#define arc_const 0.002
#ifndef MAXN
#define MAXN 4
#endif
#define STATE_OK(self, path, j, k) (__CPROVER_is_fresh(self, sizeof(*self)) && path.size >= 1 && path.size <= MAXN && __CPROVER_is_fresh(path.data, path.size * sizeof(Point64)) && \
    self->norms.size == path.size && __CPROVER_is_fresh(self->norms.data, path.size * sizeof(PointD)) && j < path.size && k < path.size && self->nout == 0)
/* the vertex p moved along the normal n by d (spec function, same IEEE operations in the order the property's formula has them) */
#define MOVED_X(p, n, d) vf_r(vf_add((p).x, vf_fmul(d, (n).x)))
#define MOVED_Y(p, n, d) vf_r(vf_add((p).y, vf_fmul(d, (n).y)))
#define AT(i, X, Y) (self->out[i].x == (X) && self->out[i].y == (Y))

//@extract file=CPP/Clipper2Lib/src/clipper.offset.cpp func=ClipperOffset::DoBevel self=ClipperOffset cpp=NOTHING byval=path vec=path,norms members=norms,path_out ifdef=BEVEL
//@pysub fops_all
//@sub /std::abs\(/fabs(/ min=0
//@sub /self->path_out\.emplace_back\(/VF_EMIT(self, / min=2
//@contract
__CPROVER_requires(STATE_OK(self, path, j, k))
__CPROVER_ensures(self->nout == 2)
__CPROVER_ensures(j != k ==> AT(0, MOVED_X(path.data[j], self->norms.data[k], self->group_delta_), MOVED_Y(path.data[j], self->norms.data[k], self->group_delta_)))
__CPROVER_ensures(j != k ==> AT(1, MOVED_X(path.data[j], self->norms.data[j], self->group_delta_), MOVED_Y(path.data[j], self->norms.data[j], self->group_delta_)))
__CPROVER_ensures(j == k ==> AT(0, vf_r(vf_sub(path.data[j].x, vf_fmul(__CPROVER_fabs(self->group_delta_), self->norms.data[j].x))), vf_r(vf_sub(path.data[j].y, vf_fmul(__CPROVER_fabs(self->group_delta_), self->norms.data[j].y)))))
__CPROVER_ensures(j == k ==> AT(1, MOVED_X(path.data[j], self->norms.data[j], __CPROVER_fabs(self->group_delta_)), MOVED_Y(path.data[j], self->norms.data[j], __CPROVER_fabs(self->group_delta_))))
__CPROVER_assigns(self->out, self->nout)
//@end
//@extract file=CPP/Clipper2Lib/src/clipper.offset.cpp func=ClipperOffset::DoMiter self=ClipperOffset cpp=NOTHING byval=path vec=path,norms members=norms,path_out ifdef=MITER
//@pysub fops_all
//@sub /self->path_out\.emplace_back\(/VF_EMIT(self, /
//@contract
__CPROVER_requires(STATE_OK(self, path, j, k))
__CPROVER_ensures(self->nout == 1)
__CPROVER_ensures(AT(0, vf_r(vf_add(path.data[j].x, vf_fmul(vf_add(self->norms.data[k].x, self->norms.data[j].x), vf_fdiv(self->group_delta_, vf_add(cos_a, 1.0))))), vf_r(vf_add(path.data[j].y, vf_fmul(vf_add(self->norms.data[k].y, self->norms.data[j].y), vf_fdiv(self->group_delta_, vf_add(cos_a, 1.0)))))))
__CPROVER_assigns(self->out, self->nout)
//@end
//@extract file=CPP/Clipper2Lib/src/clipper.offset.cpp func=GetPerpendic cpp=NOTHING byval=pt,norm ifdef=ROUND
//@pysub fops_all
//@end
//@extract file=CPP/Clipper2Lib/include/clipper2/clipper.core.h func=Negate scope=Point as=PointD_Negate self=PointD members=x,y ifdef=ROUND
//@end
//@extract file=CPP/Clipper2Lib/src/clipper.offset.cpp func=ClipperOffset::DoRound self=ClipperOffset cpp=NOTHING byval=path vec=path,norms members=norms,path_out ifdef=ROUND
//@pysub fops_all
//@sub /std::abs\(/fabs(/ min=0
//@sub /offsetVec\.Negate\(\);/PointD_Negate(&offsetVec);/
//@sub /self->path_out\.emplace_back\(/VF_EMIT_SAT(self, / min=3
//@contract
__CPROVER_requires(STATE_OK(self, path, j, k) && self->deltaCallback64_ == NULL)
__CPROVER_ensures(self->nout >= 2)
__CPROVER_ensures(j != k ==> AT(0, MOVED_X(path.data[j], self->norms.data[k], self->group_delta_), MOVED_Y(path.data[j], self->norms.data[k], self->group_delta_)))
__CPROVER_ensures(j == k ==> AT(0, vf_r(vf_add(path.data[j].x, -vf_fmul(self->group_delta_, self->norms.data[k].x))), vf_r(vf_add(path.data[j].y, -vf_fmul(self->group_delta_, self->norms.data[k].y)))))
__CPROVER_ensures(self->nout <= 8 ==> AT(self->nout - 1, MOVED_X(path.data[j], self->norms.data[j], self->group_delta_), MOVED_Y(path.data[j], self->norms.data[j], self->group_delta_)))
__CPROVER_assigns(self->out, self->nout)
//@loop 1
__CPROVER_assigns(i, offsetVec, self->nout, __CPROVER_object_upto(self->out, sizeof(self->out)))
__CPROVER_loop_invariant(i >= 1 && self->nout == (size_t)i && self->out[0].x == __CPROVER_loop_entry(self->out[0].x) && self->out[0].y == __CPROVER_loop_entry(self->out[0].y))
__CPROVER_decreases(steps - i)
//@end
/* ---- DoSquare: the cut line passes through Q = vertex + |delta| * vec (vec = unit bisector, or the edge direction at an end cap), perpendicular to vec; it is intersected with the offset line of edge k; the two vertices are the intersection and its mirror image about Q ---- */
static inline int64_t vf_bits(double d) { return *(const int64_t*)&d; }
#define SAMED(a, b) (vf_bits(a) == vf_bits(b))
#define SAMEP(p, X, Y) (SAMED((p).x, X) && SAMED((p).y, Y))
PointD g_ga, g_gb, g_gc, g_gd, g_ip, g_v1, g_v2, g_vec; int g_ngsi, g_navg;
bool vf_gsi(PointD a, PointD b, PointD c, PointD d, PointD* ip)
__CPROVER_ensures(g_ngsi == __CPROVER_old(g_ngsi) + 1 && SAMEP(g_ga, a.x, a.y) && SAMEP(g_gb, b.x, b.y) && SAMEP(g_gc, c.x, c.y) && SAMEP(g_gd, d.x, d.y) && SAMEP(*ip, g_ip.x, g_ip.y))
__CPROVER_assigns(g_ngsi, g_ga, g_gb, g_gc, g_gd, *ip);
PointD vf_avg(PointD v1, PointD v2)
__CPROVER_ensures(g_navg == __CPROVER_old(g_navg) + 1 && SAMEP(g_v1, v1.x, v1.y) && SAMEP(g_v2, v2.x, v2.y) && SAMEP(__CPROVER_return_value, g_vec.x, g_vec.y))
__CPROVER_assigns(g_navg, g_v1, g_v2);
//@extract file=CPP/Clipper2Lib/include/clipper2/clipper.core.h func=TranslatePoint cpp=NOTHING byval=pt ifdef=SQUARE
//@pysub fops_all
//@sub /^PointT TranslatePoint/PointD TranslatePoint/
//@sub /return PointT\(/return PointD(/
//@end
//@extract file=CPP/Clipper2Lib/include/clipper2/clipper.core.h func=ReflectPoint cpp=NOTHING byval=pt,pivot ifdef=SQUARE
//@pysub fops_all
//@sub /^PointT ReflectPoint/PointD ReflectPoint/
//@sub /return PointT\(/return PointD(/
//@end
//@extract file=CPP/Clipper2Lib/src/clipper.offset.cpp func=GetPerpendicD cpp=NOTHING byval=pt,norm ifdef=SQUARE
//@pysub fops_all
//@end
#ifdef ENDCAP
#define CASE(j, k) (j == k)
#else
#define CASE(j, k) (j != k)
#endif
#define VECX (j == k ? self->norms.data[j].y : g_vec.x)
#define VECY (j == k ? -self->norms.data[j].x : g_vec.y)
#define GD (self->group_delta_)
#define QX vf_add((double)path.data[j].x, vf_fmul(__CPROVER_fabs(GD), VECX))
#define QY vf_add((double)path.data[j].y, vf_fmul(__CPROVER_fabs(GD), VECY))
#define PERP_X(p, n) vf_add((p).x, vf_fmul((n).x, GD))
#define PERP_Y(p, n) vf_add((p).y, vf_fmul((n).y, GD))
#define REFL(v, q) vf_add(q, vf_sub(q, v))
//@extract file=CPP/Clipper2Lib/src/clipper.offset.cpp func=ClipperOffset::DoSquare self=ClipperOffset cpp=NOTHING byval=path vec=path,norms members=norms,path_out ifdef=SQUARE
//@pysub fops_all
//@sub /std::abs\(/fabs(/ min=0
//@sub /GetAvgUnitVector\(/vf_avg(/
//@sub /GetSegmentIntersectPt\(pt1, pt2, pt3, pt4, pt\)/vf_gsi(pt1, pt2, pt3, pt4, &pt)/ min=2
//@sub /self->path_out\.emplace_back\(/VF_EMIT(self, / min=4
//@contract
__CPROVER_requires(STATE_OK(self, path, j, k) && g_ngsi == 0 && g_navg == 0 && CASE(j, k))
/* the bisector is asked for between the two edge directions (normals turned by -90 and +90 degrees) */
__CPROVER_ensures(j == k ? g_navg == 0 : (g_navg == 1 && SAMEP(g_v1, -self->norms.data[k].y, self->norms.data[k].x) && SAMEP(g_v2, self->norms.data[j].y, -self->norms.data[j].x)))
/* cut line: through Q at distance |delta| from the vertex along vec, perpendicular to vec */
__CPROVER_ensures(g_ngsi == 1 && SAMEP(g_ga, vf_add(QX, vf_fmul(GD, VECY)), vf_add(QY, vf_fmul(GD, -VECX))) && SAMEP(g_gb, vf_add(QX, vf_fmul(GD, -VECY)), vf_add(QY, vf_fmul(GD, VECX))))
/* intersected with the offset line of edge k: both points are points of that edge moved along norms[k] by the signed delta */
__CPROVER_ensures(SAMEP(g_gc, PERP_X(path.data[k], self->norms.data[k]), PERP_Y(path.data[k], self->norms.data[k])))
__CPROVER_ensures(j != k ==> SAMEP(g_gd, PERP_X(path.data[j], self->norms.data[k]), PERP_Y(path.data[j], self->norms.data[k])))
__CPROVER_ensures(j == k ==> SAMEP(g_gd, vf_add(g_gc.x, vf_fmul(VECX, GD)), vf_add(g_gc.y, vf_fmul(VECY, GD))))
/* two vertices: the intersection and its mirror image about Q (mirror image first at an end cap) */
__CPROVER_ensures(self->nout == 2)
__CPROVER_ensures(j != k ==> (AT(0, vf_r(g_ip.x), vf_r(g_ip.y)) && AT(1, vf_r(REFL(g_ip.x, QX)), vf_r(REFL(g_ip.y, QY)))))
__CPROVER_ensures(j == k ==> (AT(1, vf_r(g_ip.x), vf_r(g_ip.y)) && AT(0, vf_r(REFL(g_ip.x, QX)), vf_r(REFL(g_ip.y, QY)))))
__CPROVER_assigns(self->out, self->nout, g_ngsi, g_ga, g_gb, g_gc, g_gd, g_navg, g_v1, g_v2)
//@end
#ifdef BEVEL
void h_DoBevel(void) { ClipperOffset* s; Path64 p; size_t j, k; DoBevel(s, p, j, k); VF_CANARY(); }
#endif
#ifdef ROUND
void h_DoRound(void) { ClipperOffset* s; Path64 p; size_t j, k; double a; DoRound(s, p, j, k, a); VF_CANARY(); }
#endif
#ifdef SQUARE
void h_DoSquare(void) { ClipperOffset* s; Path64 p; size_t j, k; DoSquare(s, p, j, k); VF_CANARY(); }
#endif
#ifdef MITER
void h_DoMiter(void) { ClipperOffset* s; Path64 p; size_t j, k; double c; DoMiter(s, p, j, k, c); VF_CANARY(); }
#endif
//@run name=DoBevel entry=h_DoBevel enforce=DoBevel defs=BEVEL flags="--bounds-check --pointer-check" unwind=9 timeout=300
//@run name=DoMiter entry=h_DoMiter enforce=DoMiter defs=MITER flags="--bounds-check --pointer-check" unwind=9 timeout=300
//@run name=DoRound entry=h_DoRound enforce=DoRound loops=1 defs=ROUND flags="--bounds-check --pointer-check" unwind=9 timeout=300
//@run name=DoSquare.join entry=h_DoSquare enforce=DoSquare replace=vf_gsi,vf_avg defs=SQUARE,MAXN=2 flags="--bounds-check --pointer-check" unwind=9 nocross=1 timeout=600
//@run name=DoSquare.endcap entry=h_DoSquare enforce=DoSquare replace=vf_gsi,vf_avg defs=SQUARE,MAXN=2,ENDCAP flags="--bounds-check --pointer-check" unwind=9 nocross=1 timeout=600
//@assume A5 (C06_joins): GetSegmentIntersectPt(PointD) and GetAvgUnitVector are recording stubs that return arbitrary points (intersection accuracy and normalisation are not decided).
//@assume R21b/c (commutative form): in this unit every floating-point product, quotient, sum and difference and the double->int64 rounding are applications of uninterpreted functions; products and sums order their operands by bit pattern first, so commuted operands give the same term. A rewrite that is bit-identical in IEEE arithmetic but not by commutativity (e.g. a + (-b)*c for a - b*c) would be reported although the property holds; none exists on the current tree.
