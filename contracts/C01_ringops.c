//@unit C01_ringops
//@props C01 C03
//@safetyprops C10 C14
//@desc Ring surgery of the sweep (loop-free functions, harnesses over every aliasing of small rings): AddOutPt (rings of 1, 2, 3: a point equal to the end it extends is not added again, otherwise exactly one new vertex goes between the front and the back end with consistent links and the front end moves only when the front edge adds - so no equal neighbours arise at the growing end); JoinOutrecPaths (rings 1x1, 2x1, 2x3, 3x2: one ring holding every vertex of both paths exactly once, attached at e1's end, front/back ends and edges taken over, e2's OutRec emptied and pointed at the survivor); DuplicateOp (rings of 1 and 3: one copy linked in right before / after the original, ring grows by one); SwapOutrecs (every hot/cold combination of two edges on one or two OutRecs: the edges exchange OutRecs, each takes exactly the side the other had, the coupling invariant - a hot edge is the front or back edge of its OutRec - is preserved); AddLocalMaxPoly (call trace; C11: succeeded_ is cleared exactly when both edges claim the same side of their OutRec and neither is an open-path end, and then nothing is built; otherwise one vertex is added on e1's side, one OutRec is closed or two are joined exactly once).
#include "vf.h"
//@include engine_types.inc
static inline bool Point64_eq(Point64 a, Point64 b) { return a.x == b.x && a.y == b.y; }
unsigned nondet_uint(void); bool nondet_bool(void); int64_t nondet_i64(void);
#ifndef R
#define R 3
#endif
OutPt g_ring[4]; OutPt g_new; int g_nnew;
static OutPt* vf_new_outpt(Point64 pt, OutRec* outrec) { __CPROVER_assert(g_nnew == 0, "one new vertex"); g_nnew++; g_new.pt = pt; g_new.outrec = outrec; g_new.next = &g_new; g_new.prev = &g_new; g_new.horz = NULL; return &g_new; }
//@extract file=CPP/Clipper2Lib/src/clipper.engine.cpp func=IsFront byptr=e refmacro=1
//@end
#ifdef ADDOUTPT
//@extract file=CPP/Clipper2Lib/src/clipper.engine.cpp func=ClipperBase::AddOutPt self=ClipperBase byptr=e byval=pt ifdef=ADDOUTPT
//@sub /pt == (op_\w+)->pt/Point64_eq(pt, \1->pt)/ min=1
//@sub /new OutPt\(/vf_new_outpt(/
//@end
//@extract file=CPP/Clipper2Lib/src/clipper.engine.cpp func=GetLastOp byptr=hot_edge ifdef=ADDOUTPT
//@sub /&\(\*hot_edge\)/hot_edge/ min=0
//@end
void h_AddOutPt(void)
{
  /* ring of R nodes: pts = node 0 (the front end), its ->next = node 1 % R (the back end) */
  ClipperBase cb; OutRec orec; Active e, other;
  for (int i = 0; i < R; ++i) { g_ring[i].pt.x = nondet_i64(); g_ring[i].pt.y = nondet_i64(); g_ring[i].next = &g_ring[(i + 1) % R]; g_ring[i].prev = &g_ring[(i + R - 1) % R]; g_ring[i].outrec = &orec; }
  orec.pts = &g_ring[0]; bool to_front = nondet_bool(); orec.front_edge = to_front ? &e : &other; orec.back_edge = to_front ? &other : &e; e.outrec = &orec;
  Point64 pt; pt.x = nondet_i64(); pt.y = nondet_i64(); g_nnew = 0;
  OutPt* front = &g_ring[0]; OutPt* back = &g_ring[1 % R];
  OutPt* r = AddOutPt(&cb, &e, pt);
  OutPt* end = to_front ? front : back;
  if (Point64_eq(pt, end->pt)) {
    /* the point repeats the end it would be attached to: nothing is added (no equal neighbours are created) */
    __CPROVER_assert(r == end && g_nnew == 0 && orec.pts == front && front->next == back && back->prev == front, "a point equal to the end it extends is not added again");
  } else {
    __CPROVER_assert(r == &g_new && g_nnew == 1 && Point64_eq(g_new.pt, pt) && g_new.outrec == &orec, "one new vertex carrying the point");
    __CPROVER_assert(front->next == &g_new && g_new.prev == front && g_new.next == back && back->prev == &g_new, "inserted between the front end and the back end, links consistent");
    __CPROVER_assert(orec.pts == (to_front ? &g_new : front), "the front end moves only when the front edge adds");
    __CPROVER_assert(!Point64_eq(g_new.pt, end->pt), "the new vertex differs from the end it extends");
  }
  for (int i = 2; i < R; ++i) __CPROVER_assert(g_ring[i].next == &g_ring[(i + 1) % R] && g_ring[i].prev == &g_ring[i - 1], "rest of the ring untouched");
  /* C02: the vertex DoHorizontal offers as a horizontal-join candidate is the one this edge added last (on ITS side of the contour) */
  __CPROVER_assert(GetLastOp(&e) == r, "GetLastOp(edge) is the vertex the edge's last AddOutPt produced (or refused to duplicate)");
  VF_CANARY();
}
#endif
/* ---------- JoinOutrecPaths: two rings become one ---------- */
#ifdef JOIN
#ifndef R2
#define R2 2
#endif
OutPt g_ring2[4]; int g_setowner_n; OutRec* g_so_a; OutRec* g_so_b; bool g_openend;
static void SetOwner(OutRec* a, OutRec* b) { g_setowner_n++; g_so_a = a; g_so_b = b; }
static bool IsOpenEnd__s(const Active* e) { return g_openend; }
#define IsOpenEnd(e) IsOpenEnd__s(&(e))
//@extract file=CPP/Clipper2Lib/src/clipper.engine.cpp func=ClipperBase::JoinOutrecPaths self=ClipperBase byptr=e1,e2 ifdef=JOIN
//@end
void h_Join(void)
{
  ClipperBase cb; OutRec o1, o2; Active e1, e2, f2, b2, x1;
  for (int i = 0; i < R; ++i) { g_ring[i].next = &g_ring[(i + 1) % R]; g_ring[i].prev = &g_ring[(i + R - 1) % R]; g_ring[i].outrec = &o1; }
  for (int i = 0; i < R2; ++i) { g_ring2[i].next = &g_ring2[(i + 1) % R2]; g_ring2[i].prev = &g_ring2[(i + R2 - 1) % R2]; g_ring2[i].outrec = &o2; }
  o1.pts = &g_ring[0]; o2.pts = &g_ring2[0]; e1.outrec = &o1; e2.outrec = &o2;
  bool e1front = nondet_bool(); o1.front_edge = e1front ? &e1 : &x1; o1.back_edge = e1front ? &x1 : &e1;
  o2.front_edge = nondet_bool() ? &f2 : NULL; o2.back_edge = nondet_bool() ? &b2 : NULL; f2.outrec = &o2; b2.outrec = &o2;
  Active* of2 = o2.front_edge; Active* ob2 = o2.back_edge;
  g_setowner_n = 0; g_openend = nondet_bool();
  JoinOutrecPaths(&cb, &e1, &e2);
  /* one ring holding every vertex of both paths exactly once, links consistent */
  OutRec* keeper = g_openend ? &o2 : &o1; OutRec* emptied = g_openend ? &o1 : &o2;
  __CPROVER_assert(keeper->pts != NULL && emptied->pts == NULL, "the joined path lives in one OutRec, the other has no points");
  OutPt* op = keeper->pts; int cnt = 0; bool seen1[4] = {0,0,0,0}, seen2[4] = {0,0,0,0};
  for (int k = 0; k < R + R2; ++k) {
    __CPROVER_assert(op->next->prev == op && op->prev->next == op, "ring links are consistent");
    for (int q = 0; q < R; ++q) if (op == &g_ring[q]) { __CPROVER_assert(!seen1[q], "no vertex twice"); seen1[q] = true; }
    for (int q = 0; q < R2; ++q) if (op == &g_ring2[q]) { __CPROVER_assert(!seen2[q], "no vertex twice"); seen2[q] = true; }
    cnt++; op = op->next; if (op == keeper->pts) break;
  }
  __CPROVER_assert(op == keeper->pts && cnt == R + R2, "the ring closes after all vertices of both paths");
  /* ends: pts is the front end and pts->next the back end; joining at the front makes e2's front end the new front end, joining at the back makes e2's back end the new back end */
  if (e1front) __CPROVER_assert(keeper->pts == &g_ring2[0] && keeper->pts->next == &g_ring[1 % R], "joined at the front: new front end is e2's path's front end, the back end stays");
  else __CPROVER_assert(keeper->pts == &g_ring[0] && keeper->pts->next == &g_ring2[1 % R2], "joined at the back: the front end stays, new back end is e2's path's back end");
  /* e2's path is attached at e1's end: front joins at the front, back at the back; the joined ends' edges are taken over */
  if (e1front) __CPROVER_assert(o1.front_edge == of2 && (of2 == NULL || of2->outrec == &o1), "front edge of the joined path is e2's path's front edge");
  else __CPROVER_assert(o1.back_edge == ob2 && (ob2 == NULL || ob2->outrec == &o1), "back edge of the joined path is e2's path's back edge");
  __CPROVER_assert(o2.front_edge == NULL && o2.back_edge == NULL && e1.outrec == NULL && e2.outrec == NULL, "e2's OutRec is emptied and both maxima edges are released");
  __CPROVER_assert(g_openend ? g_setowner_n == 0 : (g_setowner_n == 1 && g_so_a == &o2 && g_so_b == &o1), "the emptied OutRec points to the one that took its points (closed paths)");
  VF_CANARY();
}
#endif
/* ---------- AddLocalMaxPoly: when does an execution report failure (succeeded_ = false)? ---------- */
#ifdef LOCMAX
bool g_front1, g_front2, g_oe1, g_oe2, g_joined1, g_joined2, g_isopen1; Active* g_prevhot; OutPt g_res;
int g_nsplit, g_nswap, g_naddout, g_nuncouple, g_nsetowner, g_njoin; OutRec* g_swap_arg; const Active* g_add_e; Active* g_join_a; Active* g_join_b;
Active* g_E1; Active* g_E2;
static bool IsJoined__s(const Active* e) { return e == g_E1 ? g_joined1 : g_joined2; }
#define IsJoined(e) IsJoined__s(&(e))
static bool IsFront__s(const Active* e) { return e == g_E1 ? g_front1 : g_front2; }
#undef IsFront
#define IsFront(e) IsFront__s(&(e))
static bool IsOpenEnd__s(const Active* e) { return e == g_E1 ? g_oe1 : g_oe2; }
#define IsOpenEnd(e) IsOpenEnd__s(&(e))
static bool IsOpen__s(const Active* e) { return g_isopen1; }
#define IsOpen(e) IsOpen__s(&(e))
static void Split__p(ClipperBase* self, Active* e, Point64 pt) { g_nsplit++; }
#define Split(s, e, p) Split__p(s, &(e), p)
static void SwapFrontBackSides__p(OutRec* o) { g_nswap++; g_swap_arg = o; }
#define SwapFrontBackSides(o) SwapFrontBackSides__p(&(o))
static OutPt* AddOutPt__p(ClipperBase* self, const Active* e, Point64 pt) { g_naddout++; g_add_e = e; return &g_res; }
#define AddOutPt(s, e, p) AddOutPt__p(s, &(e), p)
static Active* GetPrevHotEdge__p(const Active* e) { return g_prevhot; }
#define GetPrevHotEdge(e) GetPrevHotEdge__p(&(e))
static void SetOwner(OutRec* a, OutRec* b) { g_nsetowner++; }
static void UncoupleOutRec__p(Active* e) { g_nuncouple++; }
#define UncoupleOutRec(e) UncoupleOutRec__p(&(e))
static OutRec* GetRealOutRec(OutRec* o) { return o; }
static void JoinOutrecPaths__p(ClipperBase* self, Active* a, Active* b) { g_njoin++; g_join_a = a; g_join_b = b; }
#define JoinOutrecPaths(s, a, b) JoinOutrecPaths__p(s, &(a), &(b))
//@extract file=CPP/Clipper2Lib/src/clipper.engine.cpp func=ClipperBase::AddLocalMaxPoly self=ClipperBase byptr=e1,e2 byval=pt selfcalls=Split,AddOutPt,JoinOutrecPaths ifdef=LOCMAX
//@sub /OutRec& outrec = \*e1->outrec;/OutRec* outrec_p = e1->outrec;/
//@sub /\boutrec\./outrec_p->/ min=4
//@sub /&outrec\b/outrec_p/ min=0
//@end
void h_LocMax(void)
{
  ClipperBase cb; Active e1, e2, ph; OutRec o1, o2, oph, own; Point64 pt; pt.x = nondet_i64(); pt.y = nondet_i64();
  g_E1 = &e1; g_E2 = &e2; g_front1 = nondet_bool(); g_front2 = nondet_bool(); g_oe1 = nondet_bool(); g_oe2 = nondet_bool(); g_joined1 = nondet_bool(); g_joined2 = nondet_bool(); g_isopen1 = nondet_bool();
  e1.outrec = &o1; e2.outrec = nondet_bool() ? &o1 : &o2; o1.idx = nondet_uint() % 8; o2.idx = nondet_uint() % 8; e1.wind_dx = nondet_bool() ? 1 : -1;
  g_prevhot = nondet_bool() ? &ph : NULL; ph.outrec = &oph; o1.owner = nondet_bool() ? &own : NULL; own.front_edge = nondet_bool() ? &ph : NULL; o1.pts = &g_res;
  cb.succeeded_ = true; cb.using_polytree_ = nondet_bool();
  g_nsplit = g_nswap = g_naddout = g_nuncouple = g_nsetowner = g_njoin = 0;
  bool same = e1.outrec == e2.outrec; OutRec* o_e2 = e2.outrec;
  OutPt* r = AddLocalMaxPoly(&cb, &e1, &e2, pt);
  /* (C11) the one place an execution is declared failed: both edges claim the same side of their OutRec and neither is an open end */
  bool mismatch = (g_front1 == g_front2) && !g_oe1 && !g_oe2;
  __CPROVER_assert(cb.succeeded_ == !mismatch, "succeeded_ is cleared exactly when both edges are on the same side and neither is an open-path end");
  if (mismatch) __CPROVER_assert(r == NULL && g_naddout == 0 && g_njoin == 0 && g_nuncouple == 0, "and then nothing is built");
  else {
    __CPROVER_assert(g_naddout == 1 && g_add_e == &e1, "the maximum's vertex is added once, on e1's side");
    __CPROVER_assert((g_front1 == g_front2) ? (g_nswap == 1 && g_swap_arg == (g_oe1 ? &o1 : o_e2)) : g_nswap == 0, "sides are swapped only to repair an open end");
    if (same) __CPROVER_assert(g_nuncouple == 1 && g_njoin == 0 && r != NULL, "one OutRec: the contour is closed (edges uncoupled), nothing is joined");
    else __CPROVER_assert(g_njoin == 1 && g_nuncouple == 0 && r == &g_res &&
        ((g_join_a == &e1 && g_join_b == &e2) || (g_join_a == &e2 && g_join_b == &e1)), "two OutRecs: their paths are joined exactly once (which one survives is the code's choice)");
  }
  __CPROVER_assert(g_nsplit == (g_joined1 ? 1 : 0) + (g_joined2 ? 1 : 0), "joined edges are split first");
  VF_CANARY();
}
#endif
/* ---------- SwapOutrecs: two crossing edges exchange the contours they are building ---------- */
#ifdef SWAPOR
//@extract file=CPP/Clipper2Lib/src/clipper.engine.cpp func=SwapOutrecs byptr=e1,e2 ifdef=SWAPOR
//@sub /&\(\*e1\)/e1/ min=0
//@sub /&\(\*e2\)/e2/ min=0
//@end
#define COUPLED(e) ((e)->outrec == NULL || (e)->outrec->front_edge == (e) || (e)->outrec->back_edge == (e))
void h_SwapOr(void)
{
  Active e1, e2, x1, x2; OutRec o1, o2;
  unsigned c1 = nondet_uint() % 3, c2 = nondet_uint() % 3;      /* 0: cold edge, 1: builds o1, 2: builds o2 */
  __CPROVER_assume(c1 != 0 || c2 != 0);                          /* IntersectEdges swaps only when at least one edge is hot */
  e1.outrec = c1 == 0 ? NULL : c1 == 1 ? &o1 : &o2; e2.outrec = c2 == 0 ? NULL : c2 == 1 ? &o1 : &o2;
  /* coupling invariant: a hot edge is the front or the back edge of its OutRec, the two sides are different edges */
  bool f1 = nondet_bool(), f2 = nondet_bool();
  o1.front_edge = &x1; o1.back_edge = &x1; o2.front_edge = &x2; o2.back_edge = &x2;
  if (e1.outrec) { if (f1) e1.outrec->front_edge = &e1; else e1.outrec->back_edge = &e1; }
  if (e2.outrec) { if (e2.outrec == e1.outrec) { if (f1) e2.outrec->back_edge = &e2; else e2.outrec->front_edge = &e2; } else { if (f2) e2.outrec->front_edge = &e2; else e2.outrec->back_edge = &e2; } }
  OutRec* or1 = e1.outrec; OutRec* or2 = e2.outrec; Active* o1f = o1.front_edge; Active* o1b = o1.back_edge; Active* o2f = o2.front_edge; Active* o2b = o2.back_edge;
  SwapOutrecs(&e1, &e2);
  if (or1 == or2) {
    __CPROVER_assert(e1.outrec == or1 && e2.outrec == or1 && or1->front_edge == (or1 == &o1 ? o1b : o2b) && or1->back_edge == (or1 == &o1 ? o1f : o2f), "both edges build the same contour: its sides are exchanged");
  } else {
    __CPROVER_assert(e1.outrec == or2 && e2.outrec == or1, "the edges exchange their OutRecs");
    __CPROVER_assert(COUPLED(&e1) && COUPLED(&e2), "each hot edge is again the front or the back edge of the OutRec it now builds");
    if (or1) __CPROVER_assert((or1 == &o1 ? (o1f == &e1 ? (o1.front_edge == &e2 && o1.back_edge == o1b) : (o1.back_edge == &e2 && o1.front_edge == o1f)) : (o2f == &e1 ? (o2.front_edge == &e2 && o2.back_edge == o2b) : (o2.back_edge == &e2 && o2.front_edge == o2f))), "e2 takes exactly the side e1 had; the other side is untouched");
    if (or2) __CPROVER_assert((or2 == &o1 ? (o1f == &e2 ? (o1.front_edge == &e1 && o1.back_edge == o1b) : (o1.back_edge == &e1 && o1.front_edge == o1f)) : (o2f == &e2 ? (o2.front_edge == &e1 && o2.back_edge == o2b) : (o2.back_edge == &e1 && o2.front_edge == o2f))), "e1 takes exactly the side e2 had; the other side is untouched");
  }
  VF_CANARY();
}
#endif
/* ---------- DuplicateOp: a copy of a vertex next to it ---------- */
#ifdef DUPOP
//@extract file=CPP/Clipper2Lib/src/clipper.engine.cpp func=DuplicateOp ifdef=DUPOP
//@sub /new OutPt\(/vf_new_outpt(/
//@end
void h_Dup(void)
{
  OutRec orec;
  for (int i = 0; i < R; ++i) { g_ring[i].pt.x = nondet_i64(); g_ring[i].pt.y = nondet_i64(); g_ring[i].next = &g_ring[(i + 1) % R]; g_ring[i].prev = &g_ring[(i + R - 1) % R]; g_ring[i].outrec = &orec; }
  unsigned k = nondet_uint() % R; bool after = nondet_bool(); g_nnew = 0;
  OutPt* op = &g_ring[k]; OutPt* nxt = op->next; OutPt* prv = op->prev;
  OutPt* r = DuplicateOp(op, after);
  __CPROVER_assert(r == &g_new && Point64_eq(r->pt, op->pt) && r->outrec == &orec, "one new vertex with the same point and owner");
  if (after) __CPROVER_assert(op->next == r && r->prev == op && r->next == (R == 1 ? op : nxt) && (R == 1 ? op->prev == r : nxt->prev == r), "linked in right after the original");
  else __CPROVER_assert(op->prev == r && r->next == op && r->prev == (R == 1 ? op : prv) && (R == 1 ? op->next == r : prv->next == r), "linked in right before the original");
  int cnt = 0; OutPt* p = op; for (int i = 0; i < R + 1; ++i) { __CPROVER_assert(p->next->prev == p, "ring consistent"); cnt++; p = p->next; if (p == op) break; }
  __CPROVER_assert(p == op && cnt == R + 1, "the ring has grown by exactly one");
  VF_CANARY();
}
#endif
//@run name=AddOutPt.ring1 entry=h_AddOutPt defs=ADDOUTPT,R=1 unwind=6 flags="--bounds-check --pointer-check" solver=cadical timeout=120 props=C01,C03,C02,C10,C14
//@run name=AddOutPt.ring2 entry=h_AddOutPt defs=ADDOUTPT,R=2 unwind=6 flags="--bounds-check --pointer-check" solver=cadical timeout=120 props=C01,C03,C02,C10,C14
//@run name=AddOutPt.ring3 entry=h_AddOutPt defs=ADDOUTPT,R=3 unwind=6 flags="--bounds-check --pointer-check" solver=cadical timeout=120 props=C01,C03,C02,C10,C14
//@run name=JoinOutrecPaths.1x1 entry=h_Join defs=JOIN,R=1,R2=1 unwind=8 flags="--bounds-check --pointer-check" solver=cadical timeout=120
//@run name=JoinOutrecPaths.2x1 entry=h_Join defs=JOIN,R=2,R2=1 unwind=8 flags="--bounds-check --pointer-check" solver=cadical timeout=120
//@run name=JoinOutrecPaths.2x3 entry=h_Join defs=JOIN,R=2,R2=3 unwind=8 flags="--bounds-check --pointer-check" solver=cadical timeout=120
//@run name=JoinOutrecPaths.3x2 entry=h_Join defs=JOIN,R=3,R2=2 unwind=8 flags="--bounds-check --pointer-check" solver=cadical timeout=120
//@run name=AddLocalMaxPoly entry=h_LocMax defs=LOCMAX unwind=4 flags="--bounds-check --pointer-check" solver=cadical timeout=120 props=C11,C01
//@assume A5 (C01_ringops): in the AddLocalMaxPoly harness Split, SwapFrontBackSides, AddOutPt, GetPrevHotEdge, SetOwner, UncoupleOutRec, JoinOutrecPaths are counting stubs and the edge predicates answer arbitrarily; new OutPt is a one-element pool.
//@run name=SwapOutrecs entry=h_SwapOr defs=SWAPOR unwind=3 flags="--bounds-check --pointer-check" solver=cadical timeout=120
//@run name=DuplicateOp.ring1 entry=h_Dup defs=DUPOP,R=1 unwind=6 flags="--bounds-check --pointer-check" solver=cadical timeout=120
//@run name=DuplicateOp.ring3 entry=h_Dup defs=DUPOP,R=3 unwind=6 flags="--bounds-check --pointer-check" solver=cadical timeout=120
