//@unit C01_horzstack
//@props C01
//@desc The stack of pending horizontal edges (PushHorz / PopHorz, loop-free): what was pushed comes back, last in first out, each edge exactly once, and the stack is empty afterwards - so every horizontal queued at a scanline is processed by the `while (PopHorz(e)) DoHorizontal(*e)` loop of the sweep, and none twice.
#include "vf.h"
//@include engine_types.inc
//@extract file=CPP/Clipper2Lib/src/clipper.engine.cpp func=ClipperBase::PushHorz self=ClipperBase byptr=e
//@sub /&\(\*e\)/e/ min=0
//@end
//@extract file=CPP/Clipper2Lib/src/clipper.engine.cpp func=ClipperBase::PopHorz self=ClipperBase byptr=e
//@end
bool nondet_bool(void);
void h_HS(void)
{
  ClipperBase cb; Active a, b, c; Active* out = &c; cb.sel_ = NULL;
  __CPROVER_assert(!PopHorz(&cb, &out) && out == NULL, "an empty stack gives nothing");
  PushHorz(&cb, &a); PushHorz(&cb, &b);
  bool three = nondet_bool(); if (three) PushHorz(&cb, &c);
  if (three) __CPROVER_assert(PopHorz(&cb, &out) && out == &c, "last in, first out");
  __CPROVER_assert(PopHorz(&cb, &out) && out == &b, "last in, first out");
  __CPROVER_assert(PopHorz(&cb, &out) && out == &a, "and the first one last");
  __CPROVER_assert(!PopHorz(&cb, &out) && cb.sel_ == NULL, "then the stack is empty: every edge came back exactly once");
  VF_CANARY();
}
//@run name=PushPopHorz entry=h_HS flags="--bounds-check --pointer-check" timeout=120
