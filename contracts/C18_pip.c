//@unit C18_pip
//@props C18
//@safetyprops C10
//@desc PointInPolygon<int64_t> — BOUNDED check against the exact even-odd / on-boundary definition: polygons of exactly N vertices (N = 3, 4 per run; 5 in the thorough tier) and a query point, all coordinates symbolic in [-G, G]; every start vertex and orientation is covered because the vertices are symbolic. CrossProduct (double) is replaced by the exact integer cross product converted to double (assumption A3: it is exact when all coordinate differences are below 2^26).
#include "vf.h"
#ifndef N
#define N 3
#endif
#ifndef G
#define G 4
#endif
typedef int64_t T;
typedef struct { int64_t x, y; } PointT;
typedef struct { PointT* data; size_t size; } PathT;
//@enum file=CPP/Clipper2Lib/include/clipper2/clipper.core.h name=PointInPolygonResult
/* all coordinates are within [-G, G]: 16-bit differences and 32-bit products are exact (keeps the multipliers small for the solver) */
#define D16(e) ((int16_t)(e))
static double vf_cross(PointT p1, PointT p2, PointT p3) { return (double)((int32_t)D16(p2.x - p1.x) * D16(p3.y - p2.y) - (int32_t)D16(p2.y - p1.y) * D16(p3.x - p2.x)); }
//@assume A3: CrossProduct(double) is exact when every coordinate difference is below 2^26 in magnitude (both products < 2^53); the bounded PointInPolygon check uses the exact integer cross product in its place.
//@extract file=CPP/Clipper2Lib/include/clipper2/clipper.core.h func=PointInPolygon byval=pt,polygon iters=polygon:first,curr,prev vec=polygon
//@sub /CrossProduct\(polygon\.data\[prev\], polygon\.data\[curr\], pt\)/vf_cross(polygon.data[prev], polygon.data[curr], pt)/ min=2
//@end
int64_t nondet_i64(void);
#define CROSS(a, b, c) ((int32_t)D16((b).x - (a).x) * D16((c).y - (b).y) - (int32_t)D16((b).y - (a).y) * D16((c).x - (b).x))
#define BETWEEN(v, a, b) (((a) <= (v) && (v) <= (b)) || ((b) <= (v) && (v) <= (a)))
void h_PIP(void)
{
  PointT v[N], pt; PathT poly = { v, N };
  for (int i = 0; i < N; ++i) { v[i].x = nondet_i64(); v[i].y = nondet_i64(); __CPROVER_assume(v[i].x >= -G && v[i].x <= G && v[i].y >= -G && v[i].y <= G); }
  /* the function only compares coordinates and forms differences, so it is translation invariant: the query point is the origin */
  pt.x = 0; pt.y = 0;
  bool flat = true; for (int i = 1; i < N; ++i) if (v[i].y != v[0].y) flat = false;
  __CPROVER_assume(!flat);                      /* "any polygon not contained in a single horizontal line" */
  /* oracle: on the boundary / crossing number of the ray to the left (exact integer arithmetic) */
  bool on = false; int crossings = 0;
  for (int i = 0; i < N; ++i) {
    PointT a = v[i], b = v[(i + 1) % N];
    if (CROSS(a, b, pt) == 0 && BETWEEN(pt.x, a.x, b.x) && BETWEEN(pt.y, a.y, b.y)) on = true;
    if ((a.y > pt.y) != (b.y > pt.y)) {
      /* x of the edge at height pt.y, compared with pt.x without division: sign-corrected cross-multiplication */
      int32_t lhs = (int32_t)D16(pt.x - a.x) * D16(b.y - a.y), rhs = (int32_t)D16(pt.y - a.y) * D16(b.x - a.x);
      if ((b.y > a.y) ? (rhs < lhs) : (rhs > lhs)) crossings++;   /* the edge passes strictly left of pt */
    }
  }
  PointInPolygonResult want = on ? PointInPolygonResult_IsOn : ((crossings & 1) ? PointInPolygonResult_IsInside : PointInPolygonResult_IsOutside);
  PointInPolygonResult got = PointInPolygon(pt, poly);
  __CPROVER_assert(got == want, "PointInPolygon == exact on / inside / outside by the even-odd rule");
  VF_CANARY();
}
/* C10: a polygon that IS contained in the query point's horizontal line (outside C18's exactness claim) must still be handled without reading past the path */
void h_PIP_flat(void)
{
  PointT v[N], pt; PathT poly = { v, N };
  for (int i = 0; i < N; ++i) { v[i].x = nondet_i64(); v[i].y = 0; __CPROVER_assume(v[i].x >= -G && v[i].x <= G); }
  pt.x = 0; pt.y = 0;
  PointInPolygonResult got = PointInPolygon(pt, poly);
  __CPROVER_assert((unsigned)got <= (unsigned)PointInPolygonResult_IsOutside, "a verdict is returned");
  VF_CANARY();
}
//@run name=PointInPolygon.n3 entry=h_PIP defs=N=3,G=4 unwind=5 unwindset=PointInPolygon.3:8 flags="--bounds-check --pointer-check --signed-overflow-check" timeout=600 bounded="triangles, all vertex coordinates symbolic in [-4, 4] relative to the query point"
//@run name=PointInPolygon.n4 entry=h_PIP defs=N=4,G=3 unwind=6 unwindset=PointInPolygon.3:10 flags="--bounds-check --pointer-check --signed-overflow-check" timeout=900 bounded="quadrilaterals (self-intersecting ones included), all vertex coordinates symbolic in [-3, 3] relative to the query point"
//@run name=PointInPolygon.n5 entry=h_PIP defs=N=5,G=2 unwind=7 unwindset=PointInPolygon.3:12 flags="--bounds-check --pointer-check --signed-overflow-check" timeout=900 bounded="pentagons, coordinates in [-2, 2]" tier=thorough
//@run name=PointInPolygon.flat3 entry=h_PIP_flat defs=N=3,G=4 unwind=5 unwindset=PointInPolygon.3:8 flags="--bounds-check --pointer-check --signed-overflow-check" timeout=300 bounded="three collinear vertices on the query point's horizontal" props=C10
//@run name=PointInPolygon.flat4 entry=h_PIP_flat defs=N=4,G=3 unwind=6 unwindset=PointInPolygon.3:10 flags="--bounds-check --pointer-check --signed-overflow-check" timeout=300 bounded="four collinear vertices on the query point's horizontal" props=C10
