//@unit C19_minkowski_quads
//@props C19
//@safetyprops C10 C14
//@desc detail::Minkowski, unbounded in both lengths (six loop contracts): empty pattern or path gives an empty result; row a of the temporary is path[a] + pattern[b] (Sum) or path[a] - pattern[b] (Diff) for every b; for every path edge (g -> i) and pattern edge (h -> j) exactly one quad is emitted and it consists of tmp[g][h], tmp[i][h], tmp[i][j], tmp[g][j] in this order (orientation normalisation by IsPositive/reverse is a stub), where g is the previous path index (the last one for i == 0 only when closed; the open case starts at i == 1) and h the cyclically previous pattern index; every index is in range.
#include "vf.h"
typedef struct { int64_t x, y; } Point64; typedef Point64 Point;
typedef struct { Point64* data; size_t size; } Path64;
typedef struct { size_t size; size_t cap; } Paths64;      /* outputs: only counted */
typedef struct { size_t size; size_t cap; } QuadV;
//@extract file=CPP/Clipper2Lib/include/clipper2/clipper.core.h func=operator+ scope=Point as=Point64_add self=Point64 byval=b members=x,y
//@sub /Point64\* self/const Point64 a/
//@sub /self->/a./ min=2
//@sub /return Point\(([^;]*)\);/return (Point64){\1};/
//@end
//@extract file=CPP/Clipper2Lib/include/clipper2/clipper.core.h func=operator- scope=Point sig="const Point& b" as=Point64_sub self=Point64 byval=b members=x,y
//@sub /Point64\* self/const Point64 a/
//@sub /self->/a./ min=2
//@sub /return Point\(([^;]*)\);/return (Point64){\1};/
//@end
/* ghost observations */
size_t g_a, g_b;        /* one arbitrary cell of tmp */
Point64 g_tmp_ab;       /* its value as stored */
bool g_tmp_ab_set;
size_t g_row;           /* row being built */
size_t g_i, g_j;        /* one arbitrary (path index, pattern index) pair of the quad loop */
size_t g_q_g, g_q_h;    /* g and h used for the quad emitted at (g_i, g_j) */
size_t g_q_count;       /* how many quads were emitted at (g_i, g_j) */
bool g_isSum;
#define VF_ROW_SET(row, t, val) do { Point64 v_ = (val); if ((row) == g_a && (t) == g_b) { g_tmp_ab = v_; g_tmp_ab_set = true; } } while (0)
#define C40 ((int64_t)1 << 40)
#define P40(p) ((p).x >= -C40 && (p).x <= C40 && (p).y >= -C40 && (p).y <= C40)
/* tmp[X][Y]: in-range indices only */
Point64 vf_tmp(size_t X, size_t Y, size_t pathLen, size_t patLen)
__CPROVER_requires(X < pathLen && Y < patLen)
__CPROVER_ensures(1)
__CPROVER_assigns();
void vf_quad(size_t g, size_t h, size_t i, size_t j, Point64 p0, Point64 p1, Point64 p2, Point64 p3)
__CPROVER_requires(g_q_count < 4)
__CPROVER_ensures((i == g_i && j == g_j) ==> (g_q_g == g && g_q_h == h && g_q_count == __CPROVER_old(g_q_count) + 1))
__CPROVER_ensures(!(i == g_i && j == g_j) ==> (g_q_g == __CPROVER_old(g_q_g) && g_q_h == __CPROVER_old(g_q_h) && g_q_count == __CPROVER_old(g_q_count)))
__CPROVER_assigns(g_q_g, g_q_h, g_q_count);
#define VF_RESERVE_N(v, n) do { (v).cap = (n); } while (0)
#define VF_EMIT_QUAD(a, b, c, d, e, f, g_, h_) do { vf_quad(a, b, c, f, vf_tmp(a, b, pathLen, patLen), vf_tmp(c, d, pathLen, patLen), vf_tmp(e, f, pathLen, patLen), vf_tmp(g_, h_, pathLen, patLen)); \
   __CPROVER_assert((c) == (e) && (a) == (g_) && (b) == (d) && (f) == (h_), "quad is (g,h) (i,h) (i,j) (g,j)"); } while (0)
//@assume A5/R17: tmp (vector of vectors) is abstracted to its defining cell function (ghost observation of one arbitrary cell while it is filled; reads go through the stub vf_tmp whose precondition is index validity); IsPositive/std::reverse on a quad are stubs (orientation normalisation is not verified); result/tmp growth is only counted.

//@extract file=CPP/Clipper2Lib/include/clipper2/clipper.minkowski.h func=Minkowski byval=pattern,path rangefor=1 vec=pattern,path
//@presub /Path64 path2\(pattern\.size\(\)\);\s*std::transform\(pattern\.cbegin\(\), pattern\.cend\(\),\s*path2\.begin\(\), \[p\]\(const Point64& pt2\) \{\s*return ([^;]+); \}\);\s*tmp\.emplace_back\(std::move\(path2\)\);/for (size_t vf_t = 0; vf_t < pattern.size(); ++vf_t) VF_ROW_SET(vf_i_p, vf_t, VFL<<\1>>);/ min=2
//@pysub point_lambda min=2
//@presub /Paths64 tmp;\s*tmp\.reserve\(pathLen\);//
//@presub /return Paths64\(\);/return (Paths64){0, 0};/
//@presub /Paths64 result;/Paths64 result = {0, 0};/
//@presub /result\.reserve\(/VF_RESERVE_N(result, /
//@presub /Path64 quad;\s*quad\.reserve\(4\);\s*\{\s*quad\.emplace_back\(tmp\[(\w+)\]\[(\w+)\]\);\s*quad\.emplace_back\(tmp\[(\w+)\]\[(\w+)\]\);\s*quad\.emplace_back\(tmp\[(\w+)\]\[(\w+)\]\);\s*quad\.emplace_back\(tmp\[(\w+)\]\[(\w+)\]\);\s*\};\s*if \(!IsPositive\(quad\)\)\s*std::reverse\(quad\.begin\(\), quad\.end\(\)\);\s*result\.emplace_back\(std::move\(quad\)\);/VF_EMIT_QUAD(\1, \2, \3, \4, \5, \6, \7, \8);/
__CPROVER_requires(pattern.size < ((size_t)1 << 30) && path.size < ((size_t)1 << 30) && __CPROVER_is_fresh(pattern.data, pattern.size * sizeof(Point64)) && __CPROVER_is_fresh(path.data, path.size * sizeof(Point64)))
__CPROVER_requires(g_a < path.size && g_b < pattern.size && P40(path.data[g_a]) && P40(pattern.data[g_b]) && !g_tmp_ab_set && g_q_count == 0)
__CPROVER_requires(g_j < pattern.size && g_i < path.size && g_i >= (isClosed ? 0 : 1))
__CPROVER_ensures((pattern.size == 0 || path.size == 0) ==> __CPROVER_return_value.size == 0)
/* cell (a, b) of tmp is path[a] (+|-) pattern[b], exactly (no wrap-around for |coordinates| <= 2^40; the cell is arbitrary) */
__CPROVER_ensures((pattern.size > 0 && path.size > 0) ==> (g_tmp_ab_set &&
   I128(g_tmp_ab.x) == (isSum ? I128(path.data[g_a].x) + I128(pattern.data[g_b].x) : I128(path.data[g_a].x) - I128(pattern.data[g_b].x)) &&
   I128(g_tmp_ab.y) == (isSum ? I128(path.data[g_a].y) + I128(pattern.data[g_b].y) : I128(path.data[g_a].y) - I128(pattern.data[g_b].y))))
/* exactly one quad per (path edge ending at i, pattern edge ending at j), built from the previous indices */
__CPROVER_ensures((pattern.size > 0 && path.size > 0) ==> (g_q_count == 1 &&
   g_q_g == (g_i == 0 ? path.size - 1 : g_i - 1) && g_q_h == (g_j == 0 ? pattern.size - 1 : g_j - 1)))
__CPROVER_assigns(g_tmp_ab, g_tmp_ab_set, g_q_g, g_q_h, g_q_count)
//@loop 1
__CPROVER_assigns(vf_i_p, g_tmp_ab, g_tmp_ab_set)
__CPROVER_loop_invariant(vf_i_p <= path.size)
__CPROVER_loop_invariant(g_tmp_ab_set == (g_a < vf_i_p))
__CPROVER_loop_invariant(g_tmp_ab_set ==> (g_tmp_ab.x == path.data[g_a].x + pattern.data[g_b].x && g_tmp_ab.y == path.data[g_a].y + pattern.data[g_b].y))
__CPROVER_decreases(path.size - vf_i_p)
//@loop 2
__CPROVER_assigns(vf_t, g_tmp_ab, g_tmp_ab_set)
__CPROVER_loop_invariant(vf_t <= pattern.size)
__CPROVER_loop_invariant(g_tmp_ab_set == (g_a < vf_i_p || (g_a == vf_i_p && g_b < vf_t)))
__CPROVER_loop_invariant(g_tmp_ab_set ==> (g_tmp_ab.x == path.data[g_a].x + pattern.data[g_b].x && g_tmp_ab.y == path.data[g_a].y + pattern.data[g_b].y))
__CPROVER_decreases(pattern.size - vf_t)
//@loop 3
__CPROVER_assigns(vf_i_p, g_tmp_ab, g_tmp_ab_set)
__CPROVER_loop_invariant(vf_i_p <= path.size)
__CPROVER_loop_invariant(g_tmp_ab_set == (g_a < vf_i_p))
__CPROVER_loop_invariant(g_tmp_ab_set ==> (g_tmp_ab.x == path.data[g_a].x - pattern.data[g_b].x && g_tmp_ab.y == path.data[g_a].y - pattern.data[g_b].y))
__CPROVER_decreases(path.size - vf_i_p)
//@loop 4
__CPROVER_assigns(vf_t, g_tmp_ab, g_tmp_ab_set)
__CPROVER_loop_invariant(vf_t <= pattern.size)
__CPROVER_loop_invariant(g_tmp_ab_set == (g_a < vf_i_p || (g_a == vf_i_p && g_b < vf_t)))
__CPROVER_loop_invariant(g_tmp_ab_set ==> (g_tmp_ab.x == path.data[g_a].x - pattern.data[g_b].x && g_tmp_ab.y == path.data[g_a].y - pattern.data[g_b].y))
__CPROVER_decreases(pattern.size - vf_t)
//@loop 5
__CPROVER_assigns(i, g, h, g_q_g, g_q_h, g_q_count)
__CPROVER_loop_invariant(i >= delta && i <= pathLen && h == patLen - 1 && g < pathLen && g == (i == delta ? (isClosed ? pathLen - 1 : 0) : i - 1))
__CPROVER_loop_invariant(g_q_count == (g_i < i ? 1 : 0))
__CPROVER_loop_invariant(g_q_count == 1 ==> (g_q_g == (g_i == 0 ? pathLen - 1 : g_i - 1) && g_q_h == (g_j == 0 ? patLen - 1 : g_j - 1)))
__CPROVER_decreases(pathLen - i)
//@loop 6
__CPROVER_assigns(j, h, g_q_g, g_q_h, g_q_count)
__CPROVER_loop_invariant(j <= patLen && h == (j == 0 ? patLen - 1 : j - 1))
__CPROVER_loop_invariant(g_q_count == ((g_i < i || (g_i == i && g_j < j)) ? 1 : 0))
__CPROVER_loop_invariant(g_q_count == 1 ==> (g_q_g == (g_i == 0 ? pathLen - 1 : g_i - 1) && g_q_h == (g_j == 0 ? patLen - 1 : g_j - 1)))
__CPROVER_decreases(patLen - j)
//@end
void h_M(void) { Path64 a, b; bool s, c; Minkowski(a, b, s, c); VF_CANARY(); }
//@run name=Minkowski entry=h_M enforce=Minkowski replace=vf_tmp,vf_quad loops=1 flags="--bounds-check --pointer-check --unsigned-overflow-check" timeout=600
