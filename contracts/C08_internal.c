//@unit C08_internal
//@props C08
//@safetyprops C10 C14
//@desc RectClip64::ExecuteInternal - the location state machine of polygon clipping - unbounded in the path length (eight loop contracts, three of them on the do-while corner loops), with the real AddCorner (both overloads), GetAdjacentLocation and HeadingClockwise: every corner that is added indexes rect_as_path_ with a SIDE (never with Location::Inside = 4), every one of the corner loops `do { AddCorner(prev, cw); } while (prev != target);` TERMINATES within four steps because its target is a side (decreases clause on the cyclic distance), only sides are recorded as start locations (so the closing loop over start_locs_ is index-safe too), path[i-1] / path[highI] / edges_[k*2] / results_[0] are in range (the segment before vertex 0 is the closing segment from path[highI]), and an empty path adds nothing.
#include "vf.h"
//@include rect_types.inc
typedef struct { size_t size; } VecN;
typedef struct { RectT rect_; RectT path_bounds_; Point64 rect_mp_; VecN start_locs_; size_t n_add; size_t n_results; } RectClipS;
#define STRICTLY_INSIDE(r,p) ((p).x > (r).left && (p).x < (r).right && (p).y > (r).top && (p).y < (r).bottom)
#define SIDE(l) ((unsigned)(l) <= (unsigned)Location_Bottom)
#define LOC_OK(l) ENUM_OK(l, Location_Inside)
size_t g_corner_idx_max;   /* ghost: largest rect_as_path_ index used by a corner */
/* ---- stubs ---- */
bool vf_GetLocation(RectT rec, Point64 pt, Location* loc)
BOOL_RET __CPROVER_ensures(LOC_OK(*loc)) __CPROVER_ensures(!__CPROVER_return_value ==> (SIDE(*loc) && !STRICTLY_INSIDE(rec, pt)))
__CPROVER_ensures(__CPROVER_return_value ==> ((*loc == Location_Inside) == STRICTLY_INSIDE(rec, pt))) __CPROVER_assigns(*loc);   /* = GetLocation's proved contract (C08_kernel) */
/* GetNextLocation under its own contract (C09_lines): i moves forward; when it stops inside the path, loc has changed */
void vf_GNL(RectClipS* self, Path64 path, Location* loc, size_t* i, size_t highI)
__CPROVER_requires(*i <= highI && highI < path.size && LOC_OK(*loc))
__CPROVER_ensures(*i >= __CPROVER_old(*i) && *i <= highI + 1 && LOC_OK(*loc) && (*i <= highI ==> *loc != __CPROVER_old(*loc)) && (*i > highI ==> *loc == __CPROVER_old(*loc)))
__CPROVER_ensures((*i <= highI && *loc != Location_Inside) ==> !STRICTLY_INSIDE(self->rect_, path.data[*i]))
__CPROVER_assigns(*loc, *i, self->n_add, self->n_results);
/* GetIntersection: on success loc names the side that is crossed; A-geom2: it cannot fail for a segment that ends strictly inside */
bool vf_GetIntersection(Location walked, Point64 p, Point64 p2, Location* loc, Point64* ip)
__CPROVER_requires(LOC_OK(*loc)) BOOL_RET
__CPROVER_ensures(__CPROVER_return_value ? SIDE(*loc) : (*loc == __CPROVER_old(*loc)))
/* A-geom2: a segment that ends strictly inside the rectangle and starts on or outside its boundary crosses the boundary */
__CPROVER_ensures(__CPROVER_old(*loc) == Location_Inside ==> __CPROVER_return_value)
/* A-geom3: nor for a segment that starts inside or on the rectangle (walked == Inside) and ends outside it */
__CPROVER_ensures(walked == Location_Inside ==> __CPROVER_return_value)
__CPROVER_assigns(*loc, *ip);
bool IsClockwise(Location prev, Location curr, Point64 a, Point64 b, Point64 mp)
__CPROVER_requires(LOC_OK(prev) && LOC_OK(curr)) BOOL_RET __CPROVER_assigns();
void vf_Add(RectClipS* self, Point64 pt) __CPROVER_ensures(self->n_results >= 1) /* Add() starts a result ring when there is none */ __CPROVER_assigns(self->n_add, self->n_results);
Point64 vf_rect_pt(RectClipS* self, size_t idx)
__CPROVER_requires(idx < 4) __CPROVER_assigns();          /* rect_as_path_[idx]: four corners */
void vf_startloc_push(RectClipS* self, Location l) __CPROVER_requires(SIDE(l)) /* start locations index rect_as_path_ later */ __CPROVER_assigns(self->start_locs_.size);
bool vf_Contains(const RectT* a, RectT b) BOOL_RET __CPROVER_assigns();
bool vf_Path1ContainsPath2(Path64 p) BOOL_RET __CPROVER_assigns();
bool vf_StartLocsAreClockwise(RectClipS* self) BOOL_RET __CPROVER_assigns();
void vf_AddToEdge(RectClipS* self, size_t edge_idx) __CPROVER_requires(edge_idx < 8 && self->n_results > 0) __CPROVER_assigns();
Location vf_startloc_at(RectClipS* self, size_t k) __CPROVER_requires(k < self->start_locs_.size) __CPROVER_ensures(SIDE(__CPROVER_return_value)) /* only sides are ever pushed (precondition of vf_startloc_push) */ __CPROVER_assigns();
static inline bool Point64_eq(Point64 a, Point64 b) { return a.x == b.x && a.y == b.y; }
//@extract file=CPP/Clipper2Lib/src/clipper.rectclip.cpp func=GetAdjacentLocation
//@end
//@extract file=CPP/Clipper2Lib/src/clipper.rectclip.cpp func=HeadingClockwise
//@end
//@extract file=CPP/Clipper2Lib/src/clipper.rectclip.cpp func=RectClip64::AddCorner sig="Location prev, Location curr" as=AddCorner2 self=RectClipS
//@sub /Add\(self->rect_as_path_\[([^;]*)\]\);/vf_Add(self, vf_rect_pt(self, \1));/ min=2
__CPROVER_requires(__CPROVER_is_fresh(self, sizeof(*self)) && SIDE(prev) && SIDE(curr))
__CPROVER_assigns(self->n_add, self->n_results)
//@end
#define CW_NEXT(l) ((l) == Location_Left ? Location_Top : (l) == Location_Top ? Location_Right : (l) == Location_Right ? Location_Bottom : Location_Left)
//@extract file=CPP/Clipper2Lib/src/clipper.rectclip.cpp func=RectClip64::AddCorner sig="Location& loc, bool isClockwise" as=AddCornerR self=RectClipS byptr=loc
//@sub /Add\(self->rect_as_path_\[([^;]*)\]\);/vf_Add(self, vf_rect_pt(self, \1));/ min=2
__CPROVER_requires(__CPROVER_is_fresh(self, sizeof(*self)) && __CPROVER_is_fresh(loc, sizeof(*loc)) && SIDE(*loc) && BOOL_OK(isClockwise))
__CPROVER_ensures(SIDE(*loc) && (isClockwise ? *loc == CW_NEXT(__CPROVER_old(*loc)) : CW_NEXT(*loc) == __CPROVER_old(*loc)))
__CPROVER_assigns(*loc, self->n_add, self->n_results)
//@end
Location g_start; bool g_start_set; size_t g_lb; bool g_lb_set;   /* ghost: start state; index just after the nearest earlier off-boundary vertex */
#define CDIST(cw, from, to) ((cw) ? (((int)(to) - (int)(from) + 4) % 4) : (((int)(from) - (int)(to) + 4) % 4))
//@extract file=CPP/Clipper2Lib/src/clipper.rectclip.cpp func=RectClip64::ExecuteInternal self=RectClipS byval=path vec=path rangefor=1
//@presub /\bfirst_cross_\b/first_cross/ min=5
//@presub /for \(auto loc2 : start_locs_\)\s*\{/for (size_t sl_k = 0; sl_k < start_locs_.size(); ++sl_k) { Location loc2 = vf_startloc_at(self, sl_k);/
//@sub /\bGetLocation\(self->rect_, ([^,]*(?:\[[^\]]*\])?), (\w+)\)/vf_GetLocation(self->rect_, \1, &\2)/ min=3
//@sub /GetNextLocation\(path, loc, i, highI\)/vf_GNL(self, path, &loc, &i, highI)/
//@sub /GetIntersection\(self->rect_as_path_,\s*path\.data\[i\], prev_pt, crossing_loc, ip\)/vf_GetIntersection(prev, path.data[i], prev_pt, &crossing_loc, &ip)/
//@sub /GetIntersection\(self->rect_as_path_, prev_pt, path\.data\[i\], loc, ip2\)/vf_GetIntersection(Location_Left, prev_pt, path.data[i], &loc, &ip2)/
//@sub /self->start_locs_\.emplace_back\(prev\);/vf_startloc_push(self, prev);/ min=3
//@sub /self->start_locs_\.size\(\)/self->start_locs_.size/ min=0
//@sub /AddCorner\((\w+), (isClockw|HeadingClockwise\([^)]*\))\);/AddCornerR(self, &\1, \2);/ min=4
//@sub /AddCorner\((\w+), (\w+)\);/AddCorner2(self, \1, \2);/ min=2
//@sub /(?<![\w.])Add\(self->rect_as_path_\[k\]\);/vf_Add(self, vf_rect_pt(self, k));/
//@sub /(?<![\w.])Add\(([^;]*)\);/vf_Add(self, \1);/ min=3
//@sub /Location starting_loc = loc;/Location starting_loc = loc; g_start = loc; g_start_set = true;/
//@sub /if \(i == 0\)/g_lb = i; g_lb_set = true; if (i == 0)/
//@sub /ip == ip2/Point64_eq(ip, ip2)/
//@sub /self->path_bounds_\.Contains\(self->rect_\)/vf_Contains(&self->path_bounds_, self->rect_)/
//@sub /Path1ContainsPath2\(path, self->rect_as_path_\)/vf_Path1ContainsPath2(path)/
//@sub /StartLocsAreClockwise\(self->start_locs_\)/vf_StartLocsAreClockwise(self)/
//@sub /AddToEdge\(self->edges_\[k \* 2\], self->results_\[0\]\);/vf_AddToEdge(self, k * 2);/
__CPROVER_requires(__CPROVER_is_fresh(self, sizeof(*self)) && path.size < ((size_t)1 << 40) && __CPROVER_is_fresh(path.data, path.size * sizeof(Point64)) && self->rect_.left < self->rect_.right && self->rect_.top < self->rect_.bottom && !g_start_set && !g_lb_set)
__CPROVER_ensures(path.size == 0 ==> self->n_add == __CPROVER_old(self->n_add))
/* start state of the location machine = where the (cyclic) path comes from when it reaches vertex 0: Inside when the last vertex is strictly inside; when the last vertex lies on the boundary, Inside exactly when the nearest earlier vertex off the boundary is strictly inside (the path touches the boundary from within) */
__CPROVER_ensures((g_start_set && !g_lb_set) ==> ((g_start == Location_Inside) == STRICTLY_INSIDE(self->rect_, path.data[path.size - 1])))
__CPROVER_ensures(g_lb_set ==> (g_lb <= path.size - 1 && !STRICTLY_INSIDE(self->rect_, path.data[path.size - 1])))
__CPROVER_ensures((g_start_set && g_lb_set) ==> (g_lb >= 1 && (g_start == Location_Inside) == STRICTLY_INSIDE(self->rect_, path.data[g_lb - 1])))
__CPROVER_assigns(self->n_add, self->n_results, self->start_locs_.size, g_start, g_start_set, g_lb, g_lb_set)
//@loop 1
__CPROVER_assigns(i, prev)
__CPROVER_loop_invariant(i <= highI && LOC_OK(prev))
__CPROVER_decreases(i)
//@loop 2
__CPROVER_assigns(vf_i_pt, self->n_add, self->n_results)
__CPROVER_loop_invariant(vf_i_pt <= path.size)
__CPROVER_decreases(path.size - vf_i_pt)
//@loop 3
__CPROVER_assigns(i, prev, loc, crossing_loc, first_cross, self->n_add, self->n_results, self->start_locs_.size)
__CPROVER_loop_invariant(i <= highI + 1 && LOC_OK(loc) && LOC_OK(prev) && LOC_OK(crossing_loc) && LOC_OK(first_cross))
//@loop 4
__CPROVER_assigns(prev, self->start_locs_.size)
__CPROVER_loop_invariant(SIDE(prev) && SIDE(loc))
__CPROVER_decreases(CDIST(isClockw, prev, loc) == 0 ? 4 : CDIST(isClockw, prev, loc))
//@loop 5
__CPROVER_assigns(prev, self->n_add, self->n_results)
__CPROVER_loop_invariant(SIDE(prev) && SIDE(loc))
__CPROVER_decreases(CDIST(isClockw, prev, loc) == 0 ? 4 : CDIST(isClockw, prev, loc))
//@loop 6
__CPROVER_assigns(prev, self->n_add, self->n_results)
__CPROVER_loop_invariant(SIDE(prev) && SIDE(crossing_loc))
__CPROVER_decreases(CDIST(isClockw, prev, crossing_loc) == 0 ? 4 : CDIST(isClockw, prev, crossing_loc))
//@loop 7
__CPROVER_assigns(j, self->n_add, self->n_results)
__CPROVER_loop_invariant(j <= 4)
__CPROVER_decreases(4 - j)
//@loop 8
__CPROVER_assigns(sl_k, prev, self->n_add, self->n_results)
__CPROVER_loop_invariant(sl_k <= self->start_locs_.size && SIDE(prev))
__CPROVER_decreases(self->start_locs_.size - sl_k)
//@end
void h_ACR(void) { RectClipS* s; Location* l; bool cw; AddCornerR(s, l, cw); VF_CANARY(); }
void h_AC2(void) { RectClipS* s; Location a, b; AddCorner2(s, a, b); VF_CANARY(); }
void h_EI(void) { RectClipS* s; Path64 p; ExecuteInternal(s, p); VF_CANARY(); }
//@run name=RectClip64.ExecuteInternal entry=h_EI enforce=ExecuteInternal replace=vf_GetLocation,vf_GNL,vf_GetIntersection,IsClockwise,vf_Add,vf_rect_pt,vf_startloc_push,vf_Contains,vf_Path1ContainsPath2,vf_StartLocsAreClockwise,vf_AddToEdge,vf_startloc_at,AddCornerR,AddCorner2 loops=1 flags=SAFETY timeout=600
//@run name=AddCorner.ref entry=h_ACR enforce=AddCornerR replace=vf_Add,vf_rect_pt flags=SAFETY timeout=60
//@run name=AddCorner.pair entry=h_AC2 enforce=AddCorner2 replace=vf_Add,vf_rect_pt flags=SAFETY timeout=60
//@assume A5 / A-geom2 / A-geom3 (C08_internal): GetLocation and GetNextLocation are used under the contracts proved for them in C08_kernel / C09_lines; GetIntersection is a stub that (on success) names a side, and is ASSUMED not to fail for a segment that ends strictly inside the rectangle or starts inside/on it and ends outside (geometry of GetSegmentIntersection is not verified); IsClockwise, Add, AddToEdge, Path1ContainsPath2, Rect64::Contains, StartLocsAreClockwise are stubs; start_locs_ is abstracted to its length with the fact that only sides are pushed (checked at every push). The main loop's termination is not proved here (it follows from GetNextLocation's contract: each call advances i or changes loc).
