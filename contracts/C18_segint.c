//@unit C18_segint
//@props C18
//@safetyprops C10 C14
//@desc GetSegmentIntersectPt (the default, non-HI_PRECISION variant; loop-free; floating-point operations uninterpreted): parallel segments (zero determinant of the direction vectors) are reported and leave the output point untouched; otherwise the result always lies on the FIRST segment - the parameter t is clamped to [0, 1], so for t <= 0 the result is exactly ln1a and for t >= 1 exactly ln1b, and in between x and y are interpolated from segment 1's start point and direction with the same t; the integer coordinate differences cannot overflow for |coordinates| < 2^62.
#include "vf.h"
typedef struct { int64_t x, y; } Point64;
typedef Point64 PointT; typedef int64_t T;
double __CPROVER_uninterpreted_fmul(double, double); double __CPROVER_uninterpreted_fdiv(double, double); double __CPROVER_uninterpreted_fadd(double, double); double __CPROVER_uninterpreted_fsub(double, double);
/* only floating-point operations are abstracted (uninterpreted); integer ones stay the machine operation and are overflow-checked */
double __CPROVER_uninterpreted_i2d(int64_t);
/* int64 -> double is uninterpreted as well: the same integer gives the same double, nothing more is needed */
#define TO_D(v) _Generic((v), double: (v), default: __CPROVER_uninterpreted_i2d(v))
#define vf_fmul(a, b) _Generic((a) * (b), double: __CPROVER_uninterpreted_fmul(TO_D(a), TO_D(b)), default: (a) * (b))
#define vf_fdiv(a, b) _Generic((a) / (b), double: __CPROVER_uninterpreted_fdiv(TO_D(a), TO_D(b)), default: (a) / (b))
#define vf_add(a, b) _Generic((a) + (b), double: __CPROVER_uninterpreted_fadd(TO_D(a), TO_D(b)), default: (a) + (b))
#define vf_sub(a, b) _Generic((a) - (b), double: __CPROVER_uninterpreted_fsub(TO_D(a), TO_D(b)), default: (a) - (b))
double g_t, g_det; bool g_t_set;
int64_t __CPROVER_uninterpreted_d2i(double);
#define C62 ((int64_t)1 << 62)
#define IN62(v) ((v) > -C62 && (v) < C62)
#define P62(p) (IN62((p).x) && IN62((p).y))
//@extract file=CPP/Clipper2Lib/include/clipper2/clipper.core.h func=GetSegmentIntersectPt nth=1 byval=ln1a,ln1b,ln2a,ln2b byptr=ip cpp=NOTHING
//@pysub fops_all
//@sub /\(double\)\(/TO_D(/ min=4
//@sub /double t = ([^;]*);/double t = \1; g_t = t; g_t_set = true;/
//@sub /if \(det == 0\.0\) return false;/g_det = det; if (det == 0.0) return false;/
//@sub /\(T\)\(vf_add\(/__CPROVER_uninterpreted_d2i(vf_add(/ min=2
__CPROVER_requires(__CPROVER_is_fresh(ip, sizeof(*ip)) && P62(ln1a) && P62(ln1b) && P62(ln2a) && P62(ln2b) && !g_t_set)
/* parallel (the determinant of the two direction vectors is zero): reported, and the output point is left alone */
__CPROVER_ensures(__CPROVER_return_value == !(g_det == 0.0))
__CPROVER_ensures(!__CPROVER_return_value ==> (ip->x == __CPROVER_old(ip->x) && ip->y == __CPROVER_old(ip->y) && !g_t_set))
/* otherwise the point lies on the FIRST segment: its parameter is clamped to [0, 1], so outside that range the result is exactly an end point of segment 1 */
__CPROVER_ensures(__CPROVER_return_value ==> (g_t_set && (g_t <= 0.0 ==> (ip->x == ln1a.x && ip->y == ln1a.y)) && (g_t >= 1.0 ==> (ip->x == ln1b.x && ip->y == ln1b.y))))
/* and inside it, x and y are interpolated from segment 1's own start point and direction with the SAME parameter */
__CPROVER_ensures((__CPROVER_return_value && g_t > 0.0 && g_t < 1.0) ==> (ip->x == __CPROVER_uninterpreted_d2i(vf_add(ln1a.x, vf_fmul(g_t, TO_D(ln1b.x - ln1a.x)))) && ip->y == __CPROVER_uninterpreted_d2i(vf_add(ln1a.y, vf_fmul(g_t, TO_D(ln1b.y - ln1a.y))))))
__CPROVER_assigns(*ip, g_t, g_det, g_t_set)
//@end
void h_GSI(void) { Point64 a, b, c, d; Point64* ip; GetSegmentIntersectPt(a, b, c, d, ip); VF_CANARY(); }
/* translation invariance (C13 "translating the input transforms the result accordingly", C18 "within one unit" anywhere in range): the determinant and the interpolation parameter depend on coordinate DIFFERENCES only, so translating all four points by the same vector gives bit-identical det and t, the same verdict and the same clamping; a formula built from absolute coordinates (x3*y4 - y3*x4) loses this and, far from the origin, its accuracy */
int64_t nondet_i64(void);
void h_GSI_tr(void)
{
  Point64 a, b, c, d, ip1, ip2; int64_t vx = nondet_i64(), vy = nondet_i64();
  __CPROVER_assume(P62(a) && P62(b) && P62(c) && P62(d) && IN62(vx) && IN62(vy));
  Point64 a2 = { a.x + vx, a.y + vy }, b2 = { b.x + vx, b.y + vy }, c2 = { c.x + vx, c.y + vy }, d2 = { d.x + vx, d.y + vy };
  __CPROVER_assume(P62(a2) && P62(b2) && P62(c2) && P62(d2));
  g_t_set = false; bool r1 = GetSegmentIntersectPt(a, b, c, d, &ip1); double t1 = g_t, det1 = g_det; bool s1 = g_t_set;
  g_t_set = false; bool r2 = GetSegmentIntersectPt(a2, b2, c2, d2, &ip2); double t2 = g_t, det2 = g_det; bool s2 = g_t_set;
  #define SAMEBITS(p, q) (*(const int64_t*)&(p) == *(const int64_t*)&(q))
  __CPROVER_assert(r1 == r2 && SAMEBITS(det1, det2), "same verdict and determinant for the translated segments");
  __CPROVER_assert(s1 == s2 && (s1 ==> SAMEBITS(t1, t2)), "same interpolation parameter for the translated segments");
  if (r1 && (t1 <= 0.0 || t1 >= 1.0)) __CPROVER_assert(ip2.x == ip1.x + vx && ip2.y == ip1.y + vy, "clamped results are translated exactly");
  VF_CANARY();
}
//@run name=GetSegmentIntersectPt.translate entry=h_GSI_tr flags="--bounds-check --pointer-check --signed-overflow-check" timeout=120 props=C18,C13
//@run name=GetSegmentIntersectPt entry=h_GSI enforce=GetSegmentIntersectPt flags="--bounds-check --pointer-check --signed-overflow-check" timeout=120
//@assume R21c (C18_segint): floating-point +, -, *, /, the int64->double and the double->int64 conversion are uninterpreted functions: what is proved is the clamp structure, which operands go where, and that no INTEGER subtraction overflows for |coordinates| < 2^62; the accuracy of the crossing (C18's "within one unit") is NOT decided.
