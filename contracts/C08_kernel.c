//@unit C08_kernel
//@props C08 C09
//@safetyprops C10 C14
//@desc Rectangle-clipping kernel shared by RectClip64 and RectClipLines64: GetLocation classifies a point exactly (on which side of the boundary / strictly inside / in which outside half-plane), Rect64 predicates, and the location arithmetic (adjacent side, clockwise successor, opposites, edge bitmask, heading, overlaps).
#include "vf.h"
//@include rect_types.inc
#define VF_T_MAX INT64_MAX
#define VF_T_LOWEST INT64_MIN

#define ON_LEFT(r,p)   ((p).x == (r).left   && (p).y >= (r).top  && (p).y <= (r).bottom)
#define ON_RIGHT(r,p)  ((p).x == (r).right  && (p).y >= (r).top  && (p).y <= (r).bottom)
#define ON_TOP(r,p)    ((p).y == (r).top    && (p).x >= (r).left && (p).x <= (r).right)
#define ON_BOTTOM(r,p) ((p).y == (r).bottom && (p).x >= (r).left && (p).x <= (r).right)
#define ON_BOUNDARY(r,p) (ON_LEFT(r,p) || ON_RIGHT(r,p) || ON_TOP(r,p) || ON_BOTTOM(r,p))
#define STRICTLY_INSIDE(r,p) ((p).x > (r).left && (p).x < (r).right && (p).y > (r).top && (p).y < (r).bottom)

//@extract file=CPP/Clipper2Lib/src/clipper.rectclip.cpp func=GetLocation byval=rec,pt byptr=loc must=R4,R5,R7
__CPROVER_requires(__CPROVER_is_fresh(loc, sizeof(*loc)) && (rec.left <= rec.right && rec.top <= rec.bottom))
/* false <=> on the boundary, and then loc names a side the point lies on */
__CPROVER_ensures(__CPROVER_return_value == !ON_BOUNDARY(rec, pt))
__CPROVER_ensures(!__CPROVER_return_value ==> (
    (*loc == Location_Left && ON_LEFT(rec, pt)) || (*loc == Location_Right && ON_RIGHT(rec, pt)) ||
    (*loc == Location_Top && ON_TOP(rec, pt)) || (*loc == Location_Bottom && ON_BOTTOM(rec, pt))))
/* true: Inside <=> strictly inside; otherwise a side whose outer half-plane contains the point */
__CPROVER_ensures(__CPROVER_return_value ==> ((*loc == Location_Inside) == STRICTLY_INSIDE(rec, pt)))
__CPROVER_ensures(__CPROVER_return_value ==> (
    (*loc == Location_Inside) || (*loc == Location_Left && pt.x < rec.left) || (*loc == Location_Right && pt.x > rec.right) ||
    (*loc == Location_Top && pt.y < rec.top) || (*loc == Location_Bottom && pt.y > rec.bottom)))
__CPROVER_assigns(*loc)
//@end

//@extract file=CPP/Clipper2Lib/include/clipper2/clipper.core.h func=IsEmpty scope=Rect as=Rect_IsEmpty self=RectT members=left,top,right,bottom
__CPROVER_requires(__CPROVER_is_fresh(self, sizeof(*self)))
__CPROVER_ensures(__CPROVER_return_value == !(self->left < self->right && self->top < self->bottom))
__CPROVER_assigns()
//@end

//@extract file=CPP/Clipper2Lib/include/clipper2/clipper.core.h func=Contains scope=Rect sig="Point<T>" as=Rect_ContainsPt self=RectT byval=pt members=left,top,right,bottom
__CPROVER_requires(__CPROVER_is_fresh(self, sizeof(*self)))
__CPROVER_ensures(__CPROVER_return_value == STRICTLY_INSIDE(*self, pt))
__CPROVER_assigns()
//@end

//@extract file=CPP/Clipper2Lib/include/clipper2/clipper.core.h func=Contains scope=Rect sig="Rect<T>" as=Rect_ContainsRect self=RectT byval=rec members=left,top,right,bottom
__CPROVER_requires(__CPROVER_is_fresh(self, sizeof(*self)))
/* every point of rec (closed box) lies in self (closed box) */
__CPROVER_ensures(__CPROVER_return_value == (rec.left >= self->left && rec.right <= self->right && rec.top >= self->top && rec.bottom <= self->bottom))
__CPROVER_assigns()
//@end

int64_t g_wx, g_wy; /* ghost witness point for Intersects */
//@extract file=CPP/Clipper2Lib/include/clipper2/clipper.core.h func=Intersects scope=Rect as=Rect_Intersects self=RectT byval=rec members=left,top,right,bottom
__CPROVER_requires(__CPROVER_is_fresh(self, sizeof(*self)))
__CPROVER_requires(self->left <= self->right && self->top <= self->bottom && rec.left <= rec.right && rec.top <= rec.bottom)
/* false => no common point (for an arbitrary ghost point); true => the point (max lefts, max tops) is common */
__CPROVER_ensures(!__CPROVER_return_value ==> !((g_wx >= self->left && g_wx <= self->right && g_wy >= self->top && g_wy <= self->bottom) &&
                                                  (g_wx >= rec.left && g_wx <= rec.right && g_wy >= rec.top && g_wy <= rec.bottom)))
__CPROVER_ensures(__CPROVER_return_value ==> (VF_max(self->left, rec.left) <= VF_min(self->right, rec.right) && VF_max(self->top, rec.top) <= VF_min(self->bottom, rec.bottom)))
__CPROVER_assigns()
//@end

#define CW_NEXT(l) ((l) == Location_Left ? Location_Top : (l) == Location_Top ? Location_Right : (l) == Location_Right ? Location_Bottom : Location_Left)
//@extract file=CPP/Clipper2Lib/src/clipper.rectclip.cpp func=GetAdjacentLocation
__CPROVER_requires(ENUM_OK(loc, Location_Bottom))
__CPROVER_ensures(isClockwise ==> __CPROVER_return_value == CW_NEXT(loc))
__CPROVER_ensures(!isClockwise ==> CW_NEXT(__CPROVER_return_value) == loc)
__CPROVER_ensures(ENUM_OK(__CPROVER_return_value, Location_Bottom))
__CPROVER_assigns()
//@end

//@extract file=CPP/Clipper2Lib/src/clipper.rectclip.cpp func=HeadingClockwise
__CPROVER_requires(ENUM_OK(prev, Location_Bottom) && ENUM_OK(curr, Location_Bottom))
__CPROVER_ensures(__CPROVER_return_value == (curr == CW_NEXT(prev)))
__CPROVER_assigns()
//@end

//@extract file=CPP/Clipper2Lib/src/clipper.rectclip.cpp func=AreOpposites
__CPROVER_requires(ENUM_OK(prev, Location_Bottom) && ENUM_OK(curr, Location_Bottom))
__CPROVER_ensures(__CPROVER_return_value == (curr == CW_NEXT(CW_NEXT(prev))))
__CPROVER_assigns()
//@end

//@extract file=CPP/Clipper2Lib/src/clipper.rectclip.cpp func=GetEdgesForPt byval=pt,rec
__CPROVER_requires(rec.left < rec.right && rec.top < rec.bottom)
__CPROVER_ensures(__CPROVER_return_value == ((pt.x == rec.left ? 1u : 0u) | (pt.y == rec.top ? 2u : 0u) | (pt.x == rec.right ? 4u : 0u) | (pt.y == rec.bottom ? 8u : 0u)))
__CPROVER_assigns()
//@end

//@extract file=CPP/Clipper2Lib/src/clipper.rectclip.cpp func=IsHeadingClockwise byval=pt1,pt2
__CPROVER_requires(edgeIdx >= 0 && edgeIdx <= 3)
/* clockwise (Y down): up the left side, rightwards along the top, down the right side, leftwards along the bottom */
__CPROVER_ensures(__CPROVER_return_value == (edgeIdx == 0 ? pt2.y < pt1.y : edgeIdx == 1 ? pt2.x > pt1.x : edgeIdx == 2 ? pt2.y > pt1.y : pt2.x < pt1.x))
__CPROVER_assigns()
//@end

//@extract file=CPP/Clipper2Lib/src/clipper.rectclip.cpp func=HasHorzOverlap byval=left1,right1,left2,right2
__CPROVER_requires(left1.x < right1.x && left2.x < right2.x)
/* the open x-intervals share a point  <=>  max(lefts) < min(rights) */
__CPROVER_ensures(__CPROVER_return_value == (VF_max(left1.x, left2.x) < VF_min(right1.x, right2.x)))
__CPROVER_assigns()
//@end

//@extract file=CPP/Clipper2Lib/src/clipper.rectclip.cpp func=HasVertOverlap byval=top1,bottom1,top2,bottom2
__CPROVER_requires(top1.y < bottom1.y && top2.y < bottom2.y)
__CPROVER_ensures(__CPROVER_return_value == (VF_max(top1.y, top2.y) < VF_min(bottom1.y, bottom2.y)))
__CPROVER_assigns()
//@end

void h_GetLocation(void) { Rect64 r; Point64 p; Location* l; GetLocation(r, p, l); VF_CANARY(); }
void h_IsEmpty(void) { RectT* s; Rect_IsEmpty(s); VF_CANARY(); }
void h_ContainsPt(void) { RectT* s; Point64 p; Rect_ContainsPt(s, p); VF_CANARY(); }
void h_ContainsRect(void) { RectT* s; RectT r; Rect_ContainsRect(s, r); VF_CANARY(); }
void h_Intersects(void) { RectT* s; RectT r; Rect_Intersects(s, r); VF_CANARY(); }
void h_Adj(void) { Location l; bool cw; GetAdjacentLocation(l, cw); VF_CANARY(); }
void h_HCW(void) { Location a, b; HeadingClockwise(a, b); VF_CANARY(); }
void h_Opp(void) { Location a, b; AreOpposites(a, b); VF_CANARY(); }
void h_Edges(void) { Point64 p; Rect64 r; GetEdgesForPt(p, r); VF_CANARY(); }
void h_IHC(void) { Point64 a, b; int e; IsHeadingClockwise(a, b, e); VF_CANARY(); }
void h_HHO(void) { Point64 a, b, c, d; HasHorzOverlap(a, b, c, d); VF_CANARY(); }
void h_HVO(void) { Point64 a, b, c, d; HasVertOverlap(a, b, c, d); VF_CANARY(); }

//@run name=GetLocation entry=h_GetLocation enforce=GetLocation flags=SAFETY timeout=60
//@run name=Rect.IsEmpty entry=h_IsEmpty enforce=Rect_IsEmpty flags=SAFETY timeout=60
//@run name=Rect.ContainsPt entry=h_ContainsPt enforce=Rect_ContainsPt flags=SAFETY timeout=60
//@run name=Rect.ContainsRect entry=h_ContainsRect enforce=Rect_ContainsRect flags=SAFETY timeout=60
//@run name=Rect.Intersects entry=h_Intersects enforce=Rect_Intersects flags=SAFETY timeout=60
//@run name=GetAdjacentLocation entry=h_Adj enforce=GetAdjacentLocation flags=SAFETY timeout=60
//@run name=HeadingClockwise entry=h_HCW enforce=HeadingClockwise flags=SAFETY timeout=60
//@run name=AreOpposites entry=h_Opp enforce=AreOpposites flags=SAFETY timeout=60
//@run name=GetEdgesForPt entry=h_Edges enforce=GetEdgesForPt flags=SAFETY timeout=60
//@run name=IsHeadingClockwise entry=h_IHC enforce=IsHeadingClockwise flags=SAFETY timeout=60
//@run name=HasHorzOverlap entry=h_HHO enforce=HasHorzOverlap flags=SAFETY timeout=60
//@run name=HasVertOverlap entry=h_HVO enforce=HasVertOverlap flags=SAFETY timeout=60
