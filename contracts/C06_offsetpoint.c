//@unit C06_offsetpoint
//@props C06 C07
//@safetyprops C10 C14
//@desc Join selection and vertex traversal of offsetting (call-trace contracts; DoMiter/DoSquare/DoBevel/DoRound, GetPerpendic, cross/dot product and atan2 are stubs, the sine and cosine of the turn are ghost inputs). OffsetPoint: coincident neighbours emit nothing, a (near) zero delta emits the vertex itself; a clearly concave turn (sin * delta < 0, cos > -0.99) gets no join construction but the vertex itself between the two perpendicular offsets; a clearly convex turn gets exactly one join construction, for this vertex pair (j, k), of a kind the join type allows (Round: DoRound with atan2(sin clamped to [-1,1], cos); Bevel/Square: their own construction, DoMiter only when nearly straight; Miter: squared off exactly when cos <= temp_lim_ - 1, i.e. beyond the miter limit); thresholds themselves (0.999) are not pinned down. OffsetPolygon (loop contract): path_out restarts empty, every vertex is offset exactly once against its cyclic predecessor, one path is emitted. OffsetOpenPath (three loop contracts, needs >= 2 points): start cap at vertex 0 first and end cap at the last vertex after the forward pass, of the kind end_type_ asks for (Butt: bevel, Round: round spanning PI, else square; none for zero delta); every interior vertex is offset twice, forward against its predecessor and then backward against its successor with the end cap in between; the normals used on the way back are the forward normals negated and shifted by one edge (norms[i] = -norms[i-1], norms[0] = -norms[highI-1]); one path is emitted.
#include "vf.h"
//@enum file=CPP/Clipper2Lib/include/clipper2/clipper.offset.h name=JoinType
//@enum file=CPP/Clipper2Lib/include/clipper2/clipper.offset.h name=EndType
typedef struct { int64_t x, y; } Point64;
typedef struct { double x, y; } PointD;
typedef struct { Point64* data; size_t size; } Path64;
typedef struct { PointD* data; size_t size; } PathD;
typedef struct { size_t size; } PathObs;
typedef void* DeltaCallback64;
typedef struct { bool is_reversed; JoinType join_type; EndType end_type; } Group;
typedef struct { double group_delta_, temp_lim_; PathD norms; PathObs path_out; JoinType join_type_; EndType end_type_; DeltaCallback64 deltaCallback64_; size_t n_solution; } ClipperOffset;
//@const file=CPP/Clipper2Lib/src/clipper.offset.cpp name=floating_point_tolerance
#define ENUM_OK(e, max) ((unsigned)(e) <= (unsigned)(max))
static inline bool Point64_eq(Point64 a, Point64 b) { return a.x == b.x && a.y == b.y; }
/* ghost: the sine and cosine of the turn (cross and dot product of the two unit normals), and the join call log */
double g_cross, g_dot, g_atan;
enum { J_NONE, J_MITER, J_SQUARE, J_BEVEL, J_ROUND };
int g_join; size_t g_join_j, g_join_k; int g_njoin; double g_join_arg;
int g_nperp; size_t g_nplain;     /* GetPerpendic calls; emplace_back(path[j]) style pushes */
double vf_cross(PointD a, PointD b) __CPROVER_ensures(__CPROVER_return_value == g_cross) __CPROVER_assigns();
double vf_dot(PointD a, PointD b) __CPROVER_ensures(__CPROVER_return_value == g_dot) __CPROVER_assigns();
double g_atan_s, g_atan_c;
double vf_atan2(double s, double c) __CPROVER_ensures(__CPROVER_return_value == g_atan && g_atan_s == s && g_atan_c == c) __CPROVER_assigns(g_atan_s, g_atan_c);
#define JOIN_STUB(NAME, ID, ARGDECL, ARGVAL) void NAME(ClipperOffset* self, Path64 path, size_t j, size_t k ARGDECL) \
  __CPROVER_requires(j < path.size && k < path.size && j < self->norms.size && k < self->norms.size) \
  __CPROVER_ensures(g_join == ID && g_join_j == j && g_join_k == k && g_njoin == __CPROVER_old(g_njoin) + 1 && g_join_arg == ARGVAL) \
  __CPROVER_assigns(g_join, g_join_j, g_join_k, g_njoin, g_join_arg, self->path_out.size);
#define COMMA ,
JOIN_STUB(DoMiter, J_MITER, COMMA double cos_a, cos_a)
JOIN_STUB(DoSquare, J_SQUARE, , 0.0)
JOIN_STUB(DoBevel, J_BEVEL, , 0.0)
JOIN_STUB(DoRound, J_ROUND, COMMA double angle, angle)
Point64 GetPerpendic(Point64 pt, PointD norm, double delta)
__CPROVER_ensures(g_nperp == __CPROVER_old(g_nperp) + 1) __CPROVER_assigns(g_nperp);
#ifndef PATHS
void vf_push(ClipperOffset* self, Point64 p)
__CPROVER_requires(self->path_out.size < ((size_t)1 << 41))
__CPROVER_ensures(self->path_out.size == __CPROVER_old(self->path_out.size) + 1) __CPROVER_assigns(self->path_out.size);
#else
void vf_push(ClipperOffset* self, Point64 p) __CPROVER_assigns(self->path_out.size);   /* path_out is only a counter here and the OffsetPoint stub leaves it arbitrary */
#endif
#define S_ (g_cross > 1.0 ? 1.0 : g_cross < -1.0 ? -1.0 : g_cross)
#define D_ (self->group_delta_)
#define COINCIDE Point64_eq(path.data[j], path.data[k])
#define TINY (fabs(D_) <= floating_point_tolerance)
/* clearly concave / clearly convex turns (magnitudes away from underflow; the band -0.999..-0.99 of the cosine is left to the code) */
#define BIG(v) ((v) > 1e-9 || (v) < -1e-9)
#define CONCAVE_SURE (BIG(S_) && BIG(D_) && ((S_ < 0) != (D_ < 0)) && g_dot > -0.99)
#define CONVEX_SURE (BIG(S_) && BIG(D_) && ((S_ < 0) == (D_ < 0)))
#define NO_OUTPUT (g_njoin == 0 && g_nperp == 0 && self->path_out.size == __CPROVER_old(self->path_out.size))
//@extract file=CPP/Clipper2Lib/src/clipper.offset.cpp func=ClipperOffset::OffsetPoint self=ClipperOffset byptr=group byval=path vec=path,norms members=norms,path_out cpp=NOTHING selfcalls=DoMiter,DoSquare,DoBevel,DoRound ifndef=PATHS
//@sub /path\.data\[j\] == path\.data\[k\]/Point64_eq(path.data[j], path.data[k])/
//@sub /CrossProduct\(/vf_cross(/
//@sub /DotProduct\(/vf_dot(/
//@sub /\batan2\(/vf_atan2(/
//@sub /self->path_out\.emplace_back\(/vf_push(self, / min=0
//@sub /self->group_delta_ = deltaCallback64_\(path, self->norms, j, k\);/__CPROVER_assert(0, "delta callback not modelled");/
__CPROVER_requires(__CPROVER_is_fresh(self, sizeof(*self)) && __CPROVER_is_fresh(group, sizeof(*group)) && path.size < ((size_t)1 << 40) && __CPROVER_is_fresh(path.data, path.size * sizeof(Point64)))
__CPROVER_requires(self->norms.size == path.size && __CPROVER_is_fresh(self->norms.data, path.size * sizeof(PointD)) && j < path.size && k < path.size && self->deltaCallback64_ == NULL)
__CPROVER_requires(ENUM_OK(self->join_type_, JoinType_Miter) && g_njoin == 0 && g_nperp == 0 && self->path_out.size < ((size_t)1 << 40) && g_join == J_NONE)
__CPROVER_requires(!__CPROVER_isnand(g_cross) && !__CPROVER_isnand(g_dot) && !__CPROVER_isnand(self->group_delta_) && !__CPROVER_isnand(self->temp_lim_))
/* coincident neighbours: nothing; (almost) zero delta: the vertex itself */
__CPROVER_ensures(COINCIDE ==> NO_OUTPUT)
__CPROVER_ensures((!COINCIDE && TINY) ==> (g_njoin == 0 && g_nperp == 0 && self->path_out.size == __CPROVER_old(self->path_out.size) + 1))
/* concave turn: no join construction - the vertex itself between the two perpendicular offsets (removed later by the clean-up union) */
__CPROVER_ensures((!COINCIDE && !TINY && CONCAVE_SURE) ==> (g_njoin == 0 && g_nperp == 2 && self->path_out.size == __CPROVER_old(self->path_out.size) + 3))
/* convex turn: exactly one join construction, for this vertex pair, of the kind the join type allows */
__CPROVER_ensures((!COINCIDE && !TINY && CONVEX_SURE) ==> (g_njoin == 1 && g_nperp == 0 && g_join_j == j && g_join_k == k))
#define JT (self->join_type_)
__CPROVER_ensures((!COINCIDE && !TINY && g_njoin == 1) ==> (
    (JT == JoinType_Round ==> (g_join == J_ROUND && g_join_arg == g_atan && g_atan_s == S_ && g_atan_c == g_dot)) &&
    (JT == JoinType_Bevel ==> (g_join == J_BEVEL || (g_join == J_MITER && g_dot > 0.99))) &&
    (JT == JoinType_Square ==> (g_join == J_SQUARE || (g_join == J_MITER && g_dot > 0.99))) &&
    (JT == JoinType_Miter ==> (g_join == J_MITER || g_join == J_SQUARE))))
/* miter limit: a mitered corner is squared off exactly when the angle is too acute for the limit (temp_lim_ = 2 / ML^2) */
__CPROVER_ensures((!COINCIDE && !TINY && g_njoin == 1 && JT == JoinType_Miter) ==> (g_join == J_MITER ? (g_dot > self->temp_lim_ - 1 || g_dot > 0.99) : !(g_dot > self->temp_lim_ - 1)))
__CPROVER_ensures(g_join == J_MITER ==> g_join_arg == g_dot)
__CPROVER_ensures(g_njoin <= 1 && self->group_delta_ == __CPROVER_old(self->group_delta_))
__CPROVER_assigns(g_join, g_join_j, g_join_k, g_njoin, g_join_arg, g_nperp, g_atan_s, g_atan_c, self->path_out.size)
//@end
#ifndef PATHS
void h_OffsetPoint(void) { ClipperOffset* s; Group* g; Path64 p; size_t j, k; OffsetPoint(s, g, p, j, k); VF_CANARY(); }
#endif
/* ================= OffsetPolygon / OffsetOpenPath: which vertex pairs are offset, in which order ================= */
#ifdef PATHS
size_t g_j;                       /* ghost: one arbitrary vertex index */
int g_op_n; size_t g_op_k1, g_op_k2; int g_seq, g_op_seq1, g_op_seq2;     /* OffsetPoint calls made for vertex g_j: count, the k of the first and second, their sequence numbers */
void OffsetPoint__p(ClipperOffset* self, Group* group, Path64 path, size_t j, size_t k)
__CPROVER_requires(j < path.size && k < path.size && self->norms.size == path.size && g_seq < 2000000000)
__CPROVER_ensures(g_seq == __CPROVER_old(g_seq) + 1)
__CPROVER_ensures(j == g_j ==> (g_op_n == __CPROVER_old(g_op_n) + 1 && (__CPROVER_old(g_op_n) == 0 ? (g_op_k1 == k && g_op_seq1 == __CPROVER_old(g_seq) && g_op_k2 == __CPROVER_old(g_op_k2) && g_op_seq2 == __CPROVER_old(g_op_seq2)) : (g_op_k2 == k && g_op_seq2 == __CPROVER_old(g_seq) && g_op_k1 == __CPROVER_old(g_op_k1) && g_op_seq1 == __CPROVER_old(g_op_seq1)))))
__CPROVER_ensures(j != g_j ==> (g_op_n == __CPROVER_old(g_op_n) && g_op_k1 == __CPROVER_old(g_op_k1) && g_op_k2 == __CPROVER_old(g_op_k2) && g_op_seq1 == __CPROVER_old(g_op_seq1) && g_op_seq2 == __CPROVER_old(g_op_seq2)))
__CPROVER_assigns(g_op_n, g_op_k1, g_op_k2, g_seq, g_op_seq1, g_op_seq2, self->path_out.size);
#define OffsetPoint(g_, p_, j_, k_) OffsetPoint__p(self, &(g_), p_, j_, k_)
/* caps: the join constructions called directly by OffsetOpenPath (at most two) */
int g_cap_n, g_cap_fn1, g_cap_fn2, g_cap_seq1, g_cap_seq2; size_t g_cap_j1, g_cap_k1, g_cap_j2, g_cap_k2; double g_cap_arg1, g_cap_arg2;
#define CAP_STUB(NAME, ID, ARGDECL, ARGVAL) void NAME(ClipperOffset* self, Path64 path, size_t j, size_t k ARGDECL) \
  __CPROVER_requires(j < path.size && k < path.size && j < self->norms.size && k < self->norms.size && g_cap_n < 2 && g_seq < 2000000000) \
  __CPROVER_ensures(g_cap_n == __CPROVER_old(g_cap_n) + 1 && g_seq == __CPROVER_old(g_seq) + 1) \
  __CPROVER_ensures(__CPROVER_old(g_cap_n) == 0 ==> (g_cap_fn1 == ID && g_cap_j1 == j && g_cap_k1 == k && g_cap_arg1 == ARGVAL && g_cap_seq1 == __CPROVER_old(g_seq))) \
  __CPROVER_ensures(__CPROVER_old(g_cap_n) == 1 ==> (g_cap_fn2 == ID && g_cap_j2 == j && g_cap_k2 == k && g_cap_arg2 == ARGVAL && g_cap_seq2 == __CPROVER_old(g_seq) && \
      g_cap_fn1 == __CPROVER_old(g_cap_fn1) && g_cap_j1 == __CPROVER_old(g_cap_j1) && g_cap_k1 == __CPROVER_old(g_cap_k1) && g_cap_arg1 == __CPROVER_old(g_cap_arg1) && g_cap_seq1 == __CPROVER_old(g_cap_seq1))) \
  __CPROVER_assigns(g_cap_n, g_cap_fn1, g_cap_fn2, g_cap_j1, g_cap_k1, g_cap_j2, g_cap_k2, g_cap_arg1, g_cap_arg2, g_cap_seq1, g_cap_seq2, g_seq, self->path_out.size);
CAP_STUB(CapSquare, J_SQUARE, , 0.0)
CAP_STUB(CapBevel, J_BEVEL, , 0.0)
CAP_STUB(CapRound, J_ROUND, COMMA double angle, angle)
void vf_emit_solution(ClipperOffset* self) __CPROVER_ensures(self->n_solution == __CPROVER_old(self->n_solution) + 1) __CPROVER_assigns(self->n_solution);
#define PI 3.141592653589793238

//@extract file=CPP/Clipper2Lib/src/clipper.offset.cpp func=ClipperOffset::OffsetPolygon self=ClipperOffset byptr=group byval=path vec=path,norms members=norms,path_out,solution ifdef=POLY
//@sub /self->path_out\.clear\(\);/self->path_out.size = 0;/
//@sub /self->solution->emplace_back\(self->path_out\);/vf_emit_solution(self);/
//@sub /Path64::size_type/size_t/ min=0
__CPROVER_requires(__CPROVER_is_fresh(self, sizeof(*self)) && __CPROVER_is_fresh(group, sizeof(*group)) && path.size >= 1 && path.size < ((size_t)1 << 29) && self->norms.size == path.size && g_op_n == 0 && g_seq == 0 && g_j < path.size && self->n_solution < 1000)
/* every vertex is offset exactly once, against its cyclic predecessor; one path is emitted, built from an empty path_out */
__CPROVER_ensures(g_op_n == 1 && g_op_k1 == (g_j == 0 ? path.size - 1 : g_j - 1))
__CPROVER_ensures(g_seq == (int)path.size && self->n_solution == __CPROVER_old(self->n_solution) + 1)
__CPROVER_assigns(g_op_n, g_op_k1, g_op_k2, g_seq, g_op_seq1, g_op_seq2, self->path_out.size, self->n_solution)
//@loop 1
__CPROVER_assigns(j, k, g_op_n, g_op_k1, g_op_k2, g_seq, g_op_seq1, g_op_seq2, self->path_out.size)
__CPROVER_loop_invariant(j <= path.size && k == (j == 0 ? path.size - 1 : j - 1) && g_seq == (int)j)
__CPROVER_loop_invariant(g_op_n == (g_j < j ? 1 : 0) && (g_j < j ==> g_op_k1 == (g_j == 0 ? path.size - 1 : g_j - 1)))
__CPROVER_decreases(path.size - j)
//@end
#ifdef POLY
void h_OffsetPolygon(void) { ClipperOffset* s; Group* g; Path64 p; OffsetPolygon(s, g, p); VF_CANARY(); }
#endif

#ifdef OPEN
PointD g_norm_prev, g_norm_last;  size_t g_n;
#endif      /* ghost: old norms[g_n - 1] and old norms[highI - 1] */
//@extract file=CPP/Clipper2Lib/src/clipper.offset.cpp func=ClipperOffset::OffsetOpenPath self=ClipperOffset byptr=group byval=path vec=path,norms members=norms,path_out,solution ifdef=OPEN
//@sub /self->solution->emplace_back\(self->path_out\);/vf_emit_solution(self);/
//@sub /self->path_out\.emplace_back\(/vf_push(self, / min=0
//@sub /Path64::size_type/size_t/ min=0
//@sub /\bDoBevel\(path,/CapBevel(self, path,/ min=0
//@sub /\bDoRound\(path,/CapRound(self, path,/ min=0
//@sub /\bDoSquare\(path,/CapSquare(self, path,/ min=0
//@sub /self->group_delta_ = deltaCallback64_\([^;]*\);/__CPROVER_assert(0, "delta callback not modelled");/ min=0
//@sub /PointD\(([^;]*)\);/(PointD){\1};/ min=0
__CPROVER_requires(__CPROVER_is_fresh(self, sizeof(*self)) && __CPROVER_is_fresh(group, sizeof(*group)) && path.size >= 2 /* highI - 1 must not wrap: DoGroupOffset never passes a one-point path */ && path.size < ((size_t)1 << 29) && __CPROVER_is_fresh(path.data, path.size * sizeof(Point64)))
__CPROVER_requires(self->norms.size == path.size && __CPROVER_is_fresh(self->norms.data, path.size * sizeof(PointD)) && self->deltaCallback64_ == NULL && self->path_out.size == 0 && self->n_solution < 1000)
__CPROVER_requires(g_op_n == 0 && g_seq == 0 && g_cap_n == 0 && ENUM_OK(self->end_type_, EndType_Round) && !__CPROVER_isnand(self->group_delta_))
#define INTERIOR (g_j >= 1 && g_j < path.size - 1)
#define NIDX (g_n >= 1 && g_n < path.size)
__CPROVER_requires(g_j < path.size && g_n < path.size && (NIDX ==> (g_norm_prev.x == self->norms.data[g_n - 1].x && g_norm_prev.y == self->norms.data[g_n - 1].y)))
__CPROVER_requires(path.size >= 2 ==> (g_norm_last.x == self->norms.data[path.size - 2].x && g_norm_last.y == self->norms.data[path.size - 2].y))
#define HI (path.size - 1)
#define TINYD ((self->group_delta_ < 0 ? -self->group_delta_ : self->group_delta_) <= floating_point_tolerance)
#define CAPFN (self->end_type_ == EndType_Butt ? J_BEVEL : self->end_type_ == EndType_Round ? J_ROUND : J_SQUARE)
/* caps: start cap at vertex 0 first, end cap at the last vertex after the forward pass, of the kind end_type_ asks for (a round cap spans PI) */
__CPROVER_ensures(TINYD ? g_cap_n == 0 : (g_cap_n == 2 && g_cap_fn1 == CAPFN && g_cap_j1 == 0 && g_cap_k1 == 0 && g_cap_fn2 == CAPFN && g_cap_j2 == HI && g_cap_k2 == HI &&
    (CAPFN == J_ROUND ==> (g_cap_arg1 == PI && g_cap_arg2 == PI)) && g_cap_seq1 == 0))
/* every interior vertex is offset twice: going forward against its predecessor (left side), then coming back against its successor (right side); the end cap lies in between */
__CPROVER_ensures(INTERIOR ==> (g_op_n == 2 && g_op_k1 == g_j - 1 && g_op_k2 == g_j + 1 && g_op_seq1 < g_op_seq2 && (!TINYD ==> (g_op_seq1 < g_cap_seq2 && g_cap_seq2 < g_op_seq2))))
__CPROVER_ensures(!INTERIOR ==> g_op_n == 0)
/* the normals used on the way back are the forward normals reversed and shifted by one edge */
__CPROVER_ensures(NIDX ==> (self->norms.data[g_n].x == -g_norm_prev.x && self->norms.data[g_n].y == -g_norm_prev.y))
__CPROVER_ensures(path.size >= 2 ==> (self->norms.data[0].x == -g_norm_last.x && self->norms.data[0].y == -g_norm_last.y))
__CPROVER_ensures(self->n_solution == __CPROVER_old(self->n_solution) + 1)
__CPROVER_assigns(g_op_n, g_op_k1, g_op_k2, g_seq, g_op_seq1, g_op_seq2, self->path_out.size, self->n_solution, __CPROVER_object_whole(self->norms.data))
__CPROVER_assigns(g_cap_n, g_cap_fn1, g_cap_fn2, g_cap_j1, g_cap_k1, g_cap_j2, g_cap_k2, g_cap_arg1, g_cap_arg2, g_cap_seq1, g_cap_seq2)
//@loop 1
__CPROVER_assigns(j, k, g_op_n, g_op_k1, g_op_k2, g_seq, g_op_seq1, g_op_seq2, self->path_out.size)
__CPROVER_loop_invariant(j >= 1 && (highI >= 1 ==> j <= highI) && k == j - 1 && g_seq >= 0 && g_seq <= (int)j)
__CPROVER_loop_invariant(g_op_n == ((INTERIOR && g_j < j) ? 1 : 0) && ((INTERIOR && g_j < j) ==> (g_op_k1 == g_j - 1 && g_op_seq1 < g_seq)) && g_cap_n == (TINYD ? 0 : 1))
__CPROVER_decreases(highI - j)
//@loop 2
__CPROVER_assigns(i, __CPROVER_object_whole(self->norms.data))
__CPROVER_loop_invariant(i <= highI)
__CPROVER_loop_invariant((NIDX && g_n > i) ==> (self->norms.data[g_n].x == -g_norm_prev.x && self->norms.data[g_n].y == -g_norm_prev.y))
__CPROVER_loop_invariant((NIDX && g_n <= i) ==> (self->norms.data[g_n - 1].x == g_norm_prev.x && self->norms.data[g_n - 1].y == g_norm_prev.y))
__CPROVER_loop_invariant((highI >= 1 && i < highI) ==> (self->norms.data[highI].x == -g_norm_last.x && self->norms.data[highI].y == -g_norm_last.y))
__CPROVER_loop_invariant((highI >= 1 && i == highI) ==> (self->norms.data[highI - 1].x == g_norm_last.x && self->norms.data[highI - 1].y == g_norm_last.y))
__CPROVER_decreases(i)
//@loop 3
__CPROVER_assigns(j, k, g_op_n, g_op_k1, g_op_k2, g_seq, g_op_seq1, g_op_seq2, self->path_out.size)
__CPROVER_loop_invariant(j < highI && k == j + 1 && g_seq >= 0 && g_seq <= (int)(highI + 1) + (int)(highI - 1 - j))
__CPROVER_loop_invariant(!INTERIOR ==> g_op_n == 0)
__CPROVER_loop_invariant(INTERIOR ==> (g_op_n == (g_j > j ? 2 : 1) && g_op_k1 == g_j - 1 && (g_j > j ==> (g_op_k2 == g_j + 1 && g_op_seq1 < g_op_seq2)) && g_op_seq1 < g_seq && (!TINYD ==> (g_op_seq1 < g_cap_seq2 && (g_j > j ==> g_cap_seq2 < g_op_seq2) && g_cap_seq2 < g_seq))))
__CPROVER_decreases(j)
//@end
#ifdef OPEN
void h_OffsetOpenPath(void) { ClipperOffset* s; Group* g; Path64 p; OffsetOpenPath(s, g, p); VF_CANARY(); }
#endif
#endif
/* ================= OffsetOpenJoined, BOUNDED (path of 2..4 points): the way back is the reversed path with the reversed normals ================= */
#ifdef JOINED
/* models of the std algorithms used (spec-level: reverse, push_back of a copy, erase of the first element) and of NegatePath */
static void vf_reverse_pts(Point64* d, size_t n) { for (size_t i = 0; i < n / 2; ++i) { Point64 t = d[i]; d[i] = d[n - 1 - i]; d[n - 1 - i] = t; } }
static void vf_reverse_nrm(PointD* d, size_t n) { for (size_t i = 0; i < n / 2; ++i) { PointD t = d[i]; d[i] = d[n - 1 - i]; d[n - 1 - i] = t; } }
static void vf_rotate_right_nrm(PointD* d, size_t n) { PointD l = d[n - 1]; for (size_t i = n - 1; i > 0; --i) d[i] = d[i - 1]; d[0] = l; }   /* std::rotate(rbegin(), rbegin() + 1, rend()) */
static void vf_rotate_left_nrm(PointD* d, size_t n) { PointD f = d[0]; for (size_t i = 0; i + 1 < n; ++i) d[i] = d[i + 1]; d[n - 1] = f; }   /* emplace_back(norms[0]); erase(begin()) */
//@expect file=CPP/Clipper2Lib/src/clipper.offset.cpp /(norms\.emplace_back\(norms\[0\]\);\s*norms\.erase\(norms\.begin\(\)\);|std::rotate\(norms\.r?begin\(\), norms\.r?begin\(\) \+ 1, norms\.r?end\(\)\);)/
//@extract file=CPP/Clipper2Lib/src/clipper.offset.cpp func=NegatePath byptr=path rangefor=1 cpp=NOTHING ifdef=JOINED
//@sub /PathD\* path/PathD* path/ min=0
//@end
int g_poly_n; Point64 g_call_pts[2][4]; PointD g_call_nrm[2][4]; size_t g_call_len[2];
void OffsetPolygon__j(ClipperOffset* self, Group* group, Path64 path)
{ __CPROVER_assert(g_poly_n < 2 && path.size <= 4 && self->norms.size == path.size, "at most two polygon passes over a path with as many normals");
  g_call_len[g_poly_n] = path.size; for (size_t i = 0; i < 4; ++i) if (i < path.size) { g_call_pts[g_poly_n][i] = path.data[i]; g_call_nrm[g_poly_n][i] = self->norms.data[i]; } g_poly_n++; }
#define OffsetPolygon(g_, p_) OffsetPolygon__j(self, &(g_), p_)
Point64 g_rev_buf[4];
//@extract file=CPP/Clipper2Lib/src/clipper.offset.cpp func=ClipperOffset::OffsetOpenJoined self=ClipperOffset byptr=group byval=path vec=path,norms members=norms ifdef=JOINED
//@presub /Path64 reverse_path\(path\);/Path64 reverse_path = { g_rev_buf, path.size() }; for (size_t cc = 0; cc < path.size(); ++cc) g_rev_buf[cc] = path[cc];/
//@presub /std::reverse\(reverse_path\.begin\(\), reverse_path\.end\(\)\);/vf_reverse_pts(reverse_path.data, reverse_path.size);/
//@presub /std::reverse\(norms\.begin\(\), norms\.end\(\)\);/vf_reverse_nrm(norms.data, norms.size());/
//@presub /norms\.emplace_back\(norms\[0\]\);\s*norms\.erase\(norms\.begin\(\)\);/vf_rotate_left_nrm(norms.data, norms.size());/ min=0
//@presub /std::rotate\(norms\.begin\(\), norms\.begin\(\) \+ 1, norms\.end\(\)\);/vf_rotate_left_nrm(norms.data, norms.size());/ min=0
//@presub /std::rotate\(norms\.rbegin\(\), norms\.rbegin\(\) \+ 1, norms\.rend\(\)\);/vf_rotate_right_nrm(norms.data, norms.size());/ min=0
//@sub /NegatePath\(self->norms\);/NegatePath(&self->norms);/ min=0
//@end
unsigned nondet_uint(void); int64_t nondet_i64(void); double nondet_double(void);
void h_Joined(void)
{
  ClipperOffset co; Group g; Point64 pts[4]; PointD nrm[4]; size_t n = nondet_uint(); __CPROVER_assume(n >= 2 && n <= 4);
  for (int i = 0; i < 4; ++i) { pts[i].x = nondet_i64(); pts[i].y = nondet_i64(); nrm[i].x = nondet_double(); nrm[i].y = nondet_double(); __CPROVER_assume(!__CPROVER_isnand(nrm[i].x) && !__CPROVER_isnand(nrm[i].y)); }
  Path64 path = { pts, n }; co.norms.data = nrm; co.norms.size = n; g_poly_n = 0;
  PointD n0[4]; for (int i = 0; i < 4; ++i) n0[i] = nrm[i];
  OffsetOpenJoined(&co, &g, path);
  __CPROVER_assert(g_poly_n == 2 && g_call_len[0] == n && g_call_len[1] == n, "two polygon passes over n vertices each");
  for (size_t i = 0; i < 4; ++i) if (i < n) {
    __CPROVER_assert(g_call_pts[0][i].x == pts[i].x && g_call_pts[0][i].y == pts[i].y && g_call_nrm[0][i].x == n0[i].x && g_call_nrm[0][i].y == n0[i].y, "first pass: the path and its normals as given");
    __CPROVER_assert(g_call_pts[1][i].x == pts[n - 1 - i].x && g_call_pts[1][i].y == pts[n - 1 - i].y, "second pass: the reversed path");
    size_t e = (i == n - 1) ? n - 1 : n - 2 - i;     /* edge i of the reversed path is edge e of the path, traversed backwards */
    __CPROVER_assert(g_call_nrm[1][i].x == -n0[e].x && g_call_nrm[1][i].y == -n0[e].y, "second pass: normal of edge i of the reversed path == minus the normal of the same edge of the path");
  }
  VF_CANARY();
}
#endif
//@run name=OffsetPoint entry=h_OffsetPoint enforce=OffsetPoint replace=vf_cross,vf_dot,vf_atan2,DoMiter,DoSquare,DoBevel,DoRound,GetPerpendic,vf_push flags="--bounds-check --pointer-check --unsigned-overflow-check" timeout=300
//@run name=OffsetPolygon entry=h_OffsetPolygon enforce=OffsetPolygon replace=OffsetPoint__p,vf_emit_solution loops=1 defs=PATHS,POLY flags="--bounds-check --pointer-check --unsigned-overflow-check" timeout=300
//@run name=OffsetOpenPath entry=h_OffsetOpenPath enforce=OffsetOpenPath replace=OffsetPoint__p,CapSquare,CapBevel,CapRound,vf_push,vf_emit_solution loops=1 defs=PATHS,OPEN flags="--bounds-check --pointer-check --unsigned-overflow-check" timeout=600
//@assume A5 (C06_offsetpoint): the four join constructions, GetPerpendic, CrossProduct/DotProduct of the unit normals and atan2 are stubs (the turn's sine and cosine are ghost inputs); the delta callback is not modelled (deltaCallback64_ == nullptr); OffsetOpenJoined is checked bounded (2..4 points) with std::reverse and emplace_back+erase replaced by spec-level models.
//@run name=OffsetOpenJoined.bounded entry=h_Joined defs=JOINED unwind=6 flags="--bounds-check --pointer-check" timeout=300 bounded="path of 2..4 points; std::reverse / emplace_back+erase replaced by spec-level models"
