//@unit C01_hotinv
//@props C01
//@safetyprops C10
//@desc ClipperBase::IntersectEdges for two closed-path edges (loop-free; all 4 clip types x 4 fill rules, all winding numbers, same or different path types, every hot/cold combination, every front/back and shared-contour configuration): the invariant the whole sweep rests on - AN EDGE IS HOT (belongs to an output contour) EXACTLY WHEN THE RESULT REGION DIFFERS ON ITS TWO SIDES - is preserved across a crossing. Four faces meet at the crossing (left, below = between the edges before, right, above = between them afterwards); their subject and clip winding numbers follow from the face on the left and the two winding directions; RESULT(face) = OP(clip type, FILLED(fill rule, subject winding), FILLED(fill rule, clip winding)) is the property's own definition. Given the invariant for both edges below the crossing (and the winding-count representation of C01_contrib), after IntersectEdges it holds for both edges above it. The contour builders are modelled by their effect on hotness only: AddLocalMaxPoly makes both edges cold (JoinOutrecPaths / UncoupleOutRec end that way, C01_ringops), AddLocalMinPoly makes both hot, AddOutPt changes nothing, SwapOutrecs exchanges the contours. Second run (C05): an OPEN edge crossing a closed edge toggles between hot and cold exactly when its contribution rule (inside the clip region for Intersection, outside it for Difference and Xor, outside both regions for Union) gives different answers on the two sides of the closed edge, whichever side it comes from and whichever argument it is; the closed edge is left untouched.
#include "vf.h"
//@include engine_types.inc
#define FILLED(fr, w) ((fr) == FillRule_EvenOdd ? (((w) & 1) != 0) : (fr) == FillRule_NonZero ? ((w) != 0) : (fr) == FillRule_Positive ? ((w) > 0) : ((w) < 0))
#define OP(ct, s, c) ((ct) == ClipType_Intersection ? ((s) && (c)) : (ct) == ClipType_Union ? ((s) || (c)) : (ct) == ClipType_Difference ? ((s) && !(c)) : ((s) != (c)))
#define ABS_(v) ((v) < 0 ? -(v) : (v))
#define MAXABS(a,b) (ABS_(a) > ABS_(b) ? (a) : (b))
#define REP(left, dx) MAXABS((left), (left) + (dx))
#define PAR(v) ((v) & 1)
OutRec g_o1, g_o2, g_onew; int g_nlmax, g_nlmin;
static void Split__p(ClipperBase* self, Active* e, Point64 pt) { __CPROVER_assert(0, "no joined edges in this harness"); }
static OutPt* AddOutPt__p(ClipperBase* self, const Active* e, Point64 pt) { __CPROVER_assert(e->outrec != NULL, "a vertex is added to a hot edge's contour"); return NULL; }
#ifdef OPENX
static OutPt* StartOpenPath__p(ClipperBase* self, Active* e, Point64 pt) { __CPROVER_assert(e->outrec == NULL && e->local_min->is_open, "an open contour starts on a cold open edge"); e->outrec = &g_onew; return NULL; }
#else
static OutPt* StartOpenPath__p(ClipperBase* self, Active* e, Point64 pt) { __CPROVER_assert(0, "closed paths"); return NULL; }
#endif
static OutPt* AddLocalMaxPoly__p(ClipperBase* self, Active* e1, Active* e2, Point64 pt) { __CPROVER_assert(e1->outrec != NULL && e2->outrec != NULL, "a maximum closes two hot edges"); g_nlmax++; e1->outrec = NULL; e2->outrec = NULL; return NULL; }
static OutPt* AddLocalMinPoly4(ClipperBase* self, Active* e1, Active* e2, Point64 pt, bool is_new) { __CPROVER_assert(e1->outrec == NULL && e2->outrec == NULL, "a minimum starts on two cold edges"); g_nlmin++; e1->outrec = &g_onew; e2->outrec = &g_onew; g_onew.front_edge = e1; g_onew.back_edge = e2; return NULL; }
static void SwapOutrecs__p(Active* e1, Active* e2) { OutRec* t = e1->outrec; e1->outrec = e2->outrec; e2->outrec = t; }
//@expect file=CPP/Clipper2Lib/include/clipper2/clipper.engine.h /OutPt\* AddLocalMinPoly\(Active &e1, Active &e2,\s*const Point64& pt, bool is_new = false\);/
#define VSEL5(a, b, c, d, e, N, ...) N
#define AddLocalMinPoly(...) VSEL5(__VA_ARGS__, AddLocalMinPoly4m, AddLocalMinPoly3)(__VA_ARGS__)
#define AddLocalMinPoly3(s, a, b, p) AddLocalMinPoly4(s, &(a), &(b), p, false)
#define AddLocalMinPoly4m(s, a, b, p, n) AddLocalMinPoly4(s, &(a), &(b), p, n)
#define Split(s, e, p) Split__p(s, &(e), p)
#define AddOutPt(s, e, p) AddOutPt__p(s, &(e), p)
#define StartOpenPath(s, e, p) StartOpenPath__p(s, &(e), p)
#define AddLocalMaxPoly(s, a, b, p) AddLocalMaxPoly__p(s, &(a), &(b), p)
#define SwapOutrecs(a, b) SwapOutrecs__p(&(a), &(b))
static inline bool Point64_eq(Point64 a, Point64 b) { return a.x == b.x && a.y == b.y; }
static void SetSides__p(OutRec* o, Active* a, Active* b) { }
#define SetSides(o, a, b) SetSides__p(&(o), &(a), &(b))
Active g_e3; bool nondet_bool(void);
static Active* FindEdgeWithMatchingLocMin(Active* e) { return nondet_bool() ? &g_e3 : NULL; }
//@extract file=CPP/Clipper2Lib/src/clipper.engine.cpp func=IsHotEdge byptr=e refmacro=1
//@end
//@extract file=CPP/Clipper2Lib/src/clipper.engine.cpp func=IsOpen sig="const Active& e" byptr=e refmacro=1
//@end
//@extract file=CPP/Clipper2Lib/src/clipper.engine.cpp func=IsOpenEnd sig="const Vertex& v" byptr=v refmacro=1
//@end
//@extract file=CPP/Clipper2Lib/src/clipper.engine.cpp func=IsFront byptr=e refmacro=1
//@end
//@extract file=CPP/Clipper2Lib/src/clipper.engine.cpp func=IsJoined byptr=e refmacro=1
//@end
//@extract file=CPP/Clipper2Lib/src/clipper.engine.cpp func=GetPolyType byptr=e refmacro=1
//@end
//@extract file=CPP/Clipper2Lib/src/clipper.engine.cpp func=IsSamePolyType byptr=e1,e2 refmacro=1
//@end
//@extract file=CPP/Clipper2Lib/src/clipper.engine.cpp func=ClipperBase::IntersectEdges self=ClipperBase byptr=e1,e2 byval=pt cpp=NOTHING selfcalls=Split,AddOutPt,StartOpenPath,AddLocalMaxPoly,AddLocalMinPoly
//@sub /\bpt == edge_o->local_min->vertex->pt/Point64_eq(pt, edge_o->local_min->vertex->pt)/
//@sub /std::abs\(/abs(/ min=0
//@sub /(?<![>\w])fillpos\b/self->fillpos/ min=0
//@end
int nondet_int(void); bool nondet_bool(void); unsigned nondet_uint(void);
void h_HOT(void)
{
  ClipperBase cb; Active e1, e2, other; LocalMinima l1, l2; Point64 pt;
  cb.cliptype_ = (ClipType)(1 + nondet_uint() % 4); cb.fillrule_ = (FillRule)(nondet_uint() % 4); cb.fillpos = FillRule_Positive; cb.has_open_paths_ = false; cb.succeeded_ = true;
  __CPROVER_assume(cb.cliptype_ == ClipType_Intersection || cb.cliptype_ == ClipType_Union || cb.cliptype_ == ClipType_Difference || cb.cliptype_ == ClipType_Xor);
  __CPROVER_assume(cb.fillrule_ == FillRule_EvenOdd || cb.fillrule_ == FillRule_NonZero || cb.fillrule_ == FillRule_Positive || cb.fillrule_ == FillRule_Negative);
  l1.is_open = false; l2.is_open = false; l1.polytype = nondet_bool() ? PathType_Subject : PathType_Clip; l2.polytype = nondet_bool() ? PathType_Subject : PathType_Clip;
  e1.local_min = &l1; e2.local_min = &l2; e1.join_with = JoinWith_NoJoin; e2.join_with = JoinWith_NoJoin; e1.wind_dx = nondet_bool() ? 1 : -1; e2.wind_dx = nondet_bool() ? 1 : -1;
  bool same = l1.polytype == l2.polytype, eo = cb.fillrule_ == FillRule_EvenOdd;
  /* windings of the face LEFT of e1 below the crossing: of e1's own path type (a) and of the other type (v) */
  int a = nondet_int(), v = nondet_int(); __CPROVER_assume(a > -1000 && a < 1000 && v > -1000 && v < 1000);
  /* the winding-count representation below the crossing (C01_contrib K2, same preconditions) */
  if (!eo) { e1.wind_cnt = REP(a, e1.wind_dx); e1.wind_cnt2 = v;
             if (same) { e2.wind_cnt = REP(a + e1.wind_dx, e2.wind_dx); e2.wind_cnt2 = v; } else { e2.wind_cnt = REP(v, e2.wind_dx); e2.wind_cnt2 = a + e1.wind_dx; } }
  else { e1.wind_cnt = e1.wind_dx; e2.wind_cnt = e2.wind_dx; e1.wind_cnt2 = PAR(v); e2.wind_cnt2 = same ? PAR(v) : PAR(a + 1); }
  /* subject / clip windings of the four faces */
  #define SUBJ(own, oth) (l1.polytype == PathType_Subject ? (own) : (oth))
  #define CLIP(own, oth) (l1.polytype == PathType_Subject ? (oth) : (own))
  #define RES(own, oth) OP(cb.cliptype_, FILLED(cb.fillrule_, SUBJ(own, oth)), FILLED(cb.fillrule_, CLIP(own, oth)))
  int Lo = a, Lv = v;
  int Bo = a + e1.wind_dx, Bv = v;
  int Ro = same ? a + e1.wind_dx + e2.wind_dx : a + e1.wind_dx, Rv = same ? v : v + e2.wind_dx;
  int To = same ? a + e2.wind_dx : a, Tv = same ? v : v + e2.wind_dx;
  bool rL = RES(Lo, Lv), rB = RES(Bo, Bv), rR = RES(Ro, Rv), rT = RES(To, Tv);
  /* the invariant below the crossing */
  bool hot1 = rL != rB, hot2 = rB != rR;
  bool shared = nondet_bool();
  e1.outrec = hot1 ? &g_o1 : NULL; e2.outrec = hot2 ? ((shared && hot1) ? &g_o1 : &g_o2) : NULL;
  g_o1.front_edge = nondet_bool() ? &e1 : (nondet_bool() ? &e2 : &other); g_o1.back_edge = nondet_bool() ? &e2 : &other; g_o2.front_edge = nondet_bool() ? &e2 : &other; g_o2.back_edge = &other;
  g_nlmax = 0; g_nlmin = 0;
  IntersectEdges(&cb, &e1, &e2, pt);
  /* the invariant above the crossing: e2 is now between L and T, e1 between T and R */
  __CPROVER_assert((e2.outrec != NULL) == (rL != rT), "above the crossing the edge now on the left is hot exactly when the result differs on its two sides");
  __CPROVER_assert((e1.outrec != NULL) == (rT != rR), "above the crossing the edge now on the right is hot exactly when the result differs on its two sides");
  VF_CANARY();
}
#ifdef OPENX
/* an OPEN edge o crosses a CLOSED edge c: o is hot exactly when the face it runs through makes it contribute (C05's rule), before and after */
#define NEARER0(w) ((w) > 0 ? (w) - 1 : (w) + 1)
#define CONTRIBO(ct, fr, s, k) ((ct) == ClipType_Intersection ? FILLED(fr, k) : (ct) == ClipType_Union ? (!FILLED(fr, s) && !FILLED(fr, k)) : !FILLED(fr, k))
void h_HOTO(void)
{
  ClipperBase cb; Active o, c, other; LocalMinima lo, lc; Vertex vmin; Point64 pt;
  cb.cliptype_ = (ClipType)(1 + nondet_uint() % 4); cb.fillrule_ = (FillRule)(nondet_uint() % 4); cb.fillpos = FillRule_Positive; cb.has_open_paths_ = true; cb.succeeded_ = true;
  __CPROVER_assume(cb.cliptype_ == ClipType_Intersection || cb.cliptype_ == ClipType_Union || cb.cliptype_ == ClipType_Difference || cb.cliptype_ == ClipType_Xor);
  __CPROVER_assume(cb.fillrule_ == FillRule_EvenOdd || cb.fillrule_ == FillRule_NonZero || cb.fillrule_ == FillRule_Positive || cb.fillrule_ == FillRule_Negative);
  lo.is_open = true; lo.polytype = PathType_Subject; lo.vertex = &vmin; vmin.flags = nondet_bool() ? VertexFlags_OpenStart : VertexFlags_LocalMin; vmin.pt.x = (int64_t)nondet_int(); vmin.pt.y = (int64_t)nondet_int(); pt.x = (int64_t)nondet_int(); pt.y = (int64_t)nondet_int();
  lc.is_open = false; lc.polytype = nondet_bool() ? PathType_Subject : PathType_Clip;
  o.local_min = &lo; c.local_min = &lc; o.join_with = JoinWith_NoJoin; c.join_with = JoinWith_NoJoin; o.wind_dx = nondet_bool() ? 1 : -1; c.wind_dx = nondet_bool() ? 1 : -1;
  bool eo = cb.fillrule_ == FillRule_EvenOdd;
  /* the closed edge: own-type windings of its two sides are w (farther from zero, stored) and NEARER0(w); other type k */
  int w = nondet_int(), k = nondet_int(); __CPROVER_assume(w != 0 && w > -1000 && w < 1000 && k > -1000 && k < 1000);
  if (eo) __CPROVER_assume((w == 1 || w == -1) && (k == 0 || k == 1));
  c.wind_cnt = w; c.wind_cnt2 = k;
  int s_far = lc.polytype == PathType_Subject ? w : k, k_far = lc.polytype == PathType_Subject ? k : w;
  int s_near = lc.polytype == PathType_Subject ? NEARER0(w) : k, k_near = lc.polytype == PathType_Subject ? k : NEARER0(w);
  /* the closed edge obeys the closed-path invariant (C01_hotinv, first run) */
  bool res_far = OP(cb.cliptype_, FILLED(cb.fillrule_, s_far), FILLED(cb.fillrule_, k_far)), res_near = OP(cb.cliptype_, FILLED(cb.fillrule_, s_near), FILLED(cb.fillrule_, k_near));
  c.outrec = (res_far != res_near) ? &g_o2 : NULL; g_o2.front_edge = &c; g_o2.back_edge = &other;
  bool con_far = CONTRIBO(cb.cliptype_, cb.fillrule_, s_far, k_far), con_near = CONTRIBO(cb.cliptype_, cb.fillrule_, s_near, k_near);
  bool from_far = nondet_bool();                                   /* which side the open edge comes from */
  bool hot0 = from_far ? con_far : con_near;                      /* the invariant before the crossing */
  o.outrec = hot0 ? &g_o1 : NULL; g_o1.front_edge = nondet_bool() ? &o : &other; g_o1.back_edge = g_o1.front_edge == &o ? &other : &o; g_o1.is_open = true;
  g_e3.outrec = nondet_bool() ? &g_onew : NULL; g_e3.local_min = &lo;
  bool first = nondet_bool();                                      /* the open edge may be either argument */
  if (first) IntersectEdges(&cb, &o, &c, pt); else IntersectEdges(&cb, &c, &o, pt);
  __CPROVER_assert((o.outrec != NULL) == (from_far ? con_near : con_far), "beyond the crossing the open edge is hot exactly when the face it enters makes it contribute");
  __CPROVER_assert(c.wind_cnt == w && c.wind_cnt2 == k && (c.outrec != NULL) == (res_far != res_near), "the closed edge is left as it was");
  VF_CANARY();
}
#endif
//@run name=IntersectEdges.open-crosses-closed entry=h_HOTO defs=OPENX unwind=3 flags="--bounds-check --pointer-check" timeout=600 props=C05,C01,C10
//@run name=IntersectEdges.hot-invariant entry=h_HOT unwind=3 flags="--bounds-check --pointer-check" timeout=600
//@assume A5/G4 (C01_hotinv): the contour builders are modelled by their effect on hotness only; the winding-count representation below the crossing is the one of C01_contrib (K2); closed paths, no joined edges, |winding| < 1000.
