//@unit C02_horz
//@props C02
//@safetyprops C10
//@desc Horizontal-edge helpers of the sweep (what axis-parallel exactness rests on: horizontal runs are merged onto INPUT vertices and swept between INPUT x positions) - TrimHorz BOUNDED (vertex ring of 5, real NextVertex / IsMaxima / SetDx): the edge's top always is the point of its top vertex (an input vertex), stays on the edge's own horizontal line, and advances only in the edge's winding direction over vertices on that line; it never passes a local maximum; without preserve-collinear it stops only at a maximum or where the path leaves the line; the slope is reset to the horizontal value exactly when something was merged. UpdateHorzSegment (ring of 5, real SetHorzSegHeadingForward / GetRealOutRec): a usable horizontal output segment spans a run of ring vertices on its own line that contains the vertex it started from (maximal for a closed ring), its left end is strictly left of its right end and is claimed by it; an unusable one is marked. ResetHorzDirection (AEL of 3, loop over the AEL unwound): the sweep interval [left, right] is spanned by the edge's current x and its top x (both input x positions for rectilinear input), left <= right, heading right exactly when curr_x < top.x; a zero-length horizontal sweeps nothing and heads right exactly when its maximum's partner lies to its right in the AEL.
#include "vf.h"
#include <float.h>
//@include engine_types.inc
Active g_e0, g_e1, g_e2; Vertex g_v0, g_v1, g_v2, g_v3, g_v4; Vertex* const g_vp[5] = { &g_v0, &g_v1, &g_v2, &g_v3, &g_v4 };
static int vidx(const Vertex* v) { return v == &g_v0 ? 0 : v == &g_v1 ? 1 : v == &g_v2 ? 2 : v == &g_v3 ? 3 : v == &g_v4 ? 4 : -1; }
//@extract file=CPP/Clipper2Lib/src/clipper.engine.cpp func=NextVertex byptr=e refmacro=1
//@end
//@extract file=CPP/Clipper2Lib/src/clipper.engine.cpp func=IsMaxima sig="const Vertex& v" as=IsMaximaV byptr=v
//@end
//@extract file=CPP/Clipper2Lib/src/clipper.engine.cpp func=IsMaxima sig="const Active& e" byptr=e refmacro=1
//@sub /IsMaxima\(\*e->vertex_top\)/IsMaximaV(e->vertex_top)/
//@end
int g_setdx_n;
static void SetDx__p(Active* e) { __CPROVER_assert(e->top.y == e->bot.y, "SetDx on a horizontal edge"); g_setdx_n++; }
#define SetDx(e) SetDx__p(&(e))
//@extract file=CPP/Clipper2Lib/src/clipper.engine.cpp func=TrimHorz byptr=horzEdge ifdef=TRIM
//@end
//@extract file=CPP/Clipper2Lib/src/clipper.engine.cpp func=ClipperBase::ResetHorzDirection self=ClipperBase byptr=horz,horz_left,horz_right ifdef=RESET
//@end
//@extract file=CPP/Clipper2Lib/src/clipper.engine.cpp func=GetRealOutRec ifdef=UPD
//@end
//@extract file=CPP/Clipper2Lib/src/clipper.engine.cpp func=SetHorzSegHeadingForward byptr=hs ifdef=UPD
//@end
//@extract file=CPP/Clipper2Lib/src/clipper.engine.cpp func=UpdateHorzSegment byptr=hs ifdef=UPD
//@sub /SetHorzSegHeadingForward\(\(\*hs\), /SetHorzSegHeadingForward(hs, /
//@end
unsigned nondet_uint(void); int64_t nondet_i64(void); bool nondet_bool(void);
#ifdef UPD
OutPt g_o0, g_o1, g_o2, g_o3, g_o4; OutPt* const g_op[5] = { &g_o0, &g_o1, &g_o2, &g_o3, &g_o4 };
static int oidx(const OutPt* o) { return o == &g_o0 ? 0 : o == &g_o1 ? 1 : o == &g_o2 ? 2 : o == &g_o3 ? 3 : o == &g_o4 ? 4 : -1; }
void h_UH(void)
{
  OutRec orec; HorzSegment hs, other; Active edge;
  for (int i = 0; i < 5; ++i) { g_op[i]->next = g_op[(i + 1) % 5]; g_op[i]->prev = g_op[(i + 4) % 5]; g_op[i]->pt.x = nondet_i64(); g_op[i]->pt.y = nondet_i64(); g_op[i]->outrec = &orec; g_op[i]->horz = nondet_bool() ? &other : NULL; }
  bool claimed0[5]; for (int i = 0; i < 5; ++i) claimed0[i] = g_op[i]->horz != NULL;
  bool has_edges = nondet_bool(); unsigned s = nondet_uint() % 5, a = nondet_uint() % 5;
  orec.pts = g_op[a]; orec.owner = NULL; orec.front_edge = has_edges ? &edge : NULL;
  /* a closed ring is not one horizontal line as a whole */
  if (!has_edges) __CPROVER_assume(g_o1.pt.y != g_o0.pt.y || g_o2.pt.y != g_o0.pt.y || g_o3.pt.y != g_o0.pt.y || g_o4.pt.y != g_o0.pt.y);
  hs.left_op = g_op[s]; hs.right_op = NULL; hs.left_to_right = true; int64_t y0 = g_op[s]->pt.y;
  bool r = UpdateHorzSegment(&hs);
  if (!r) __CPROVER_assert(hs.right_op == NULL, "an unusable segment is marked (sorted to the end)");
  else {
    OutPt *L = hs.left_op, *R = hs.right_op; int li = oidx(L), ri = oidx(R);
    __CPROVER_assert(li >= 0 && ri >= 0 && L->pt.y == y0 && R->pt.y == y0 && L->pt.x < R->pt.x, "both ends are vertices of the ring on the segment's own line, left end strictly left");
    __CPROVER_assert(L->horz == &hs && !claimed0[li], "the left end is claimed by this segment, and was not claimed by another one before");
    OutPt* P = hs.left_to_right ? L : R; OutPt* Nn = hs.left_to_right ? R : L; int pi = oidx(P), ni = oidx(Nn);
    /* P ... Nn in ring order contains the start vertex and lies on the line */
    unsigned len = (unsigned)((ni - pi + 5) % 5), off = (unsigned)(((int)s - pi + 5) % 5);
    __CPROVER_assert(off <= len, "the run (in ring order) contains the vertex the segment started from");
    for (unsigned d = 0; d < 5; ++d) if (d <= len) __CPROVER_assert(g_op[(pi + d) % 5]->pt.y == y0, "every vertex of the run lies on the line");
    if (!has_edges) __CPROVER_assert((P->prev == Nn || P->prev->pt.y != y0) && (Nn->next == P || Nn->next->pt.y != y0), "closed ring: the run is maximal");
  }
  VF_CANARY();
}
#endif
#ifdef TRIM
void h_TH(void)
{
  for (int i = 0; i < 5; ++i) { g_vp[i]->next = g_vp[(i + 1) % 5]; g_vp[i]->prev = g_vp[(i + 4) % 5]; g_vp[i]->pt.x = nondet_i64(); g_vp[i]->pt.y = nondet_i64(); g_vp[i]->flags = nondet_bool() ? VertexFlags_LocalMax : VertexFlags_Empty; }
  bool fwd = nondet_bool(); bool pc = nondet_bool();
  g_e0.wind_dx = fwd ? 1 : -1; g_e0.vertex_top = &g_v0; g_e0.top = g_v0.pt; g_e0.bot.y = g_e0.top.y; g_e0.bot.x = nondet_i64(); g_setdx_n = 0;
  __CPROVER_assume(g_e0.bot.x != g_e0.top.x);                    /* a horizontal edge of non-zero length */
  /* the vertex ring is not one horizontal line as a whole (a closed path has height) */
  __CPROVER_assume(g_v1.pt.y != g_v0.pt.y || g_v2.pt.y != g_v0.pt.y || g_v3.pt.y != g_v0.pt.y || g_v4.pt.y != g_v0.pt.y);
  int64_t y0 = g_e0.top.y, bx = g_e0.bot.x; Point64 top0 = g_e0.top;
  TrimHorz(&g_e0, pc);
  int k = vidx(g_e0.vertex_top); __CPROVER_assert(k >= 0, "top vertex is a vertex of the path");
  int steps = fwd ? k : (5 - k) % 5;                                   /* how many vertices the top advanced in winding direction */
  __CPROVER_assert(g_e0.top.x == g_e0.vertex_top->pt.x && g_e0.top.y == g_e0.vertex_top->pt.y, "the edge's top is the point of its top vertex (an input vertex)");
  __CPROVER_assert(g_e0.top.y == y0 && g_e0.bot.y == y0 && g_e0.bot.x == bx, "the edge stays on its horizontal line; its bottom is untouched");
  for (int s = 1; s <= 4; ++s) if (s <= steps) { Vertex* v = g_vp[fwd ? s : (5 - s) % 5]; __CPROVER_assert(v->pt.y == y0, "every vertex merged lies on that line"); if (s < steps) __CPROVER_assert((v->flags & VertexFlags_LocalMax) == VertexFlags_Empty, "no local maximum is passed"); }
  __CPROVER_assert((g_setdx_n == 1) == (steps > 0) && g_setdx_n <= 1, "the slope is reset exactly when something was merged");
  /* why it stopped */
  Vertex* nxt = fwd ? g_e0.vertex_top->next : g_e0.vertex_top->prev;
  bool at_max = steps > 0 && (g_e0.vertex_top->flags & VertexFlags_LocalMax) != VertexFlags_Empty;
  if (!pc) __CPROVER_assert(at_max || nxt->pt.y != y0, "without preserve-collinear: stops only at a maximum or where the path leaves the line");
  VF_CANARY();
}
#endif
#ifdef RESET
void h_RH(void)
{
  ClipperBase cb; Active* const ep[3] = { &g_e0, &g_e1, &g_e2 };
  for (int i = 0; i < 3; ++i) { ep[i]->prev_in_ael = i ? ep[i - 1] : NULL; ep[i]->next_in_ael = (i + 1 < 3) ? ep[i + 1] : NULL; ep[i]->vertex_top = g_vp[nondet_uint() % 3]; ep[i]->curr_x = nondet_i64(); ep[i]->top.x = nondet_i64(); ep[i]->bot.x = nondet_i64(); }
  unsigned k = nondet_uint() % 3; Active* h = ep[k]; Vertex* mv = nondet_bool() ? g_vp[nondet_uint() % 3] : NULL;
  int64_t l = nondet_i64(), r = nondet_i64();
  bool ltr = ResetHorzDirection(&cb, h, mv, &l, &r);
  __CPROVER_assert(l <= r, "left <= right");
  if (h->bot.x == h->top.x) {
    bool partner_right = false; for (unsigned i = k + 1; i < 3; ++i) if (ep[i]->vertex_top == mv) partner_right = true;
    __CPROVER_assert(l == h->curr_x && r == h->curr_x && ltr == partner_right, "a zero-length horizontal sweeps nothing; it heads right exactly when its maximum's partner is to its right");
  } else {
    __CPROVER_assert((l == h->curr_x && r == h->top.x) || (l == h->top.x && r == h->curr_x), "the sweep interval is spanned by the current x and the top x");
    if (h->curr_x != h->top.x) __CPROVER_assert(ltr == (h->curr_x < h->top.x), "heading right exactly when the top lies to the right of the current position");
  }
  VF_CANARY();
}
#endif
//@run name=TrimHorz entry=h_TH defs=TRIM unwind=7 flags="--bounds-check --pointer-check" timeout=300 bounded="vertex ring of 5, all coordinates and maxima flags symbolic, both winding directions, preserve-collinear on and off"
//@run name=ResetHorzDirection entry=h_RH defs=RESET unwind=5 flags="--bounds-check --pointer-check" timeout=300 bounded="AEL of 3 edges, any position of the horizontal"
//@run name=UpdateHorzSegment entry=h_UH defs=UPD unwind=7 flags="--bounds-check --pointer-check" timeout=300 bounded="OutPt ring of 5, coordinates symbolic, ring with or without edges still attached"
//@assume A5 (C02_horz): SetDx is a counting stub (GetDx: C10_topx).
