//@unit C10_splitowner
//@props C10 C04
//@safetyprops C14
//@desc ClipperBase::CheckSplitOwner terminates (C10: no input can hang or exhaust the stack). Modular termination argument with ghost state: the recursive calls are replaced by a contract whose PRECONDITION is progress — since entry (or since the previous recursive call) one more OutRec has been marked `recursive_split = outrec`, and it was not marked before (checked at the marking statement). Marks are never undone during one search, so the recursion depth is bounded by the number of OutRecs. The split list is bounded (<= 2 entries drawn from a pool of 3 OutRecs, arbitrary graph: self-references and cycles included, which is what MoveSplits builds); GetRealOutRec is the real function with acyclic owner chains; CheckBounds, IsValidOwner, Rect64::Contains, Path1InsidePath2 answer arbitrarily.
#include "vf.h"
//@include engine_types.inc
bool CheckBounds(ClipperBase* self, OutRec* outrec) BOOL_RET __CPROVER_assigns();
bool IsValidOwner(const OutRec* outrec, const OutRec* testOwner) BOOL_RET __CPROVER_assigns();
bool Path1InsidePath2(OutPt* op1, OutPt* op2) BOOL_RET __CPROVER_assigns();
bool vf_Contains(const Rect64* a, const Rect64* b) BOOL_RET __CPROVER_assigns();
bool g_newmark;     /* ghost: a fresh mark has been placed and not yet "spent" on a recursive call */
bool CheckSplitOwner_rec(ClipperBase* self, OutRec* outrec, OutRecList* splits)
__CPROVER_requires(g_newmark == true)          /* progress: every recursive call is paid for by one fresh mark */
__CPROVER_requires(splits != NULL)
__CPROVER_ensures(g_newmark == false) BOOL_RET
__CPROVER_assigns(g_newmark, outrec->owner);
#define VF_MARK(sp, o) do { __CPROVER_assert((sp)->recursive_split != (o), "mark is fresh: the OutRec was not yet marked for this search"); (sp)->recursive_split = (o); g_newmark = true; } while (0)
//@extract file=CPP/Clipper2Lib/src/clipper.engine.cpp func=GetRealOutRec
//@end
//@extract file=CPP/Clipper2Lib/src/clipper.engine.cpp func=ClipperBase::CheckSplitOwner self=ClipperBase rangefor=1 selfcalls=CheckBounds
//@sub /(?<!bool )CheckSplitOwner\(outrec,/CheckSplitOwner_rec(self, outrec,/ min=2
//@sub /\(\*splits\)\.data\[vf_i_split\]/((OutRec**)(*splits).data)[vf_i_split]/
//@sub /split->bounds\.Contains\(outrec->bounds\)/vf_Contains(&split->bounds, &outrec->bounds)/
//@sub /(\w+)->recursive_split = outrec;/VF_MARK(\1, outrec);/
//@end
#define N 3
unsigned nondet_uint(void); bool nondet_bool(void);
void h_CSO(void)
{
  OutRec r[N]; OutRecList lists[N]; OutRecList top; OutRec* ents[N][2]; OutRec* topents[2]; OutPt somePts; ClipperBase cb;
  for (unsigned i = 0; i < N; ++i) {
    r[i].pts = nondet_bool() ? &somePts : NULL;
    unsigned ow = nondet_uint(); r[i].owner = (ow > i && ow < N) ? &r[ow] : NULL;          /* owner chains are acyclic (GetRealOutRec terminates) */
    unsigned rs = nondet_uint(); r[i].recursive_split = rs < N ? &r[rs] : NULL;            /* left over from earlier searches */
    r[i].splits = nondet_bool() ? &lists[i] : NULL;                                        /* content irrelevant here: recursion is by contract */
  }
  unsigned a = nondet_uint(), b = nondet_uint(), n = nondet_uint(), o = nondet_uint(); __CPROVER_assume(a < N && b < N && n <= 2 && o < N && r[o].pts != NULL);
  topents[0] = &r[a]; topents[1] = &r[b]; top.data = topents; top.size = n;
  g_newmark = false;
  CheckSplitOwner(&cb, &r[o], &top);
  VF_CANARY();
}
//@run name=CheckSplitOwner.progress entry=h_CSO replace=CheckSplitOwner_rec,CheckBounds,IsValidOwner,Path1InsidePath2,vf_Contains unwind=4 flags="--bounds-check --pointer-check" timeout=300 bounded="split list of <= 2 entries from a pool of 3 OutRecs (arbitrary graph); the recursion itself is not bounded: it is replaced by the progress contract"
