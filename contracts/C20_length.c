//@unit C20_length
//@props C20
//@safetyprops C10 C14
//@desc Length(Path64, is_closed), unbounded in the path length (one loop contract): its defining equation as far as the segments go - paths with fewer than two points have length 0; otherwise every pair of consecutive vertices (k, k+1) is measured exactly once, in order, the closing pair (last, first) exactly when the path is closed, and nothing else is measured (the distance itself - a square root - is a stub; the floating-point sum of the measured distances is not decided).
#include "vf.h"
typedef int64_t T;
typedef struct { int64_t x, y; } Point64; typedef Point64 PointT;
typedef struct { Point64* data; size_t size; } Path64; typedef Path64 PathT;
#define PT_EQ(a,b) ((a).x == (b).x && (a).y == (b).y)
size_t g_k; int g_nk; size_t g_calls; bool g_order_ok; size_t g_last_i; bool g_closing_seen; double g_sum; double g_dk;
/* Distance(p[i], p[j]) as called from Length: logged with the indices the rewrite supplies, which the stub checks against the values */
double vf_dist(Path64 p, size_t i, size_t j, Point64 a, Point64 b)
__CPROVER_requires(i < p.size && j < p.size && PT_EQ(a, p.data[i]) && PT_EQ(b, p.data[j]) && g_calls < ((size_t)1 << 40))
__CPROVER_ensures(g_calls == __CPROVER_old(g_calls) + 1 && !__CPROVER_isnand(__CPROVER_return_value))
__CPROVER_ensures(g_order_ok == (__CPROVER_old(g_order_ok) && (j == i + 1 ? (i == __CPROVER_old(g_calls)) : (j == 0 && i == p.size - 1 && __CPROVER_old(g_calls) == p.size - 1))))
__CPROVER_ensures(g_closing_seen == (__CPROVER_old(g_closing_seen) || j != i + 1))
__CPROVER_ensures(i == g_k && j == i + 1 ? (g_nk == __CPROVER_old(g_nk) + 1 && g_dk == __CPROVER_return_value) : (g_nk == __CPROVER_old(g_nk) && g_dk == __CPROVER_old(g_dk)))
__CPROVER_assigns(g_calls, g_order_ok, g_closing_seen, g_nk, g_dk);
//@assume A5/R21 (C20_length): Distance (sqrt of a sum of squares) answers arbitrarily (never NaN); which pairs are measured, how often and in what order is what is proved.
#define LEN_OK(n) ((n) < ((size_t)1 << 30))
//@extract file=CPP/Clipper2Lib/include/clipper2/clipper.h func=Length sig="const Path<T>& path, bool is_closed_path" byval=path iters=path:it,stop vec=path
//@presub /auto it = path\.cbegin\(\), stop = path\.end\(\) - 1;/size_t it = 0, stop = path.size() - 1;/
//@presub /Distance\(\*it, \*\(it \+ 1\)\)/vf_dist(path, it, it + 1, *it, *(it + 1))/
//@presub /Distance\(\*stop, \*path\.cbegin\(\)\)/vf_dist(path, stop, 0, *stop, path[0])/
__CPROVER_requires(LEN_OK(path.size) && __CPROVER_is_fresh(path.data, path.size * sizeof(Point64)) && BOOL_OK(is_closed_path) && g_calls == 0 && g_order_ok && !g_closing_seen && g_nk == 0 && g_k < ((size_t)1 << 40))
__CPROVER_ensures(path.size < 2 ==> (__CPROVER_return_value == 0.0 && g_calls == 0))
__CPROVER_ensures(path.size >= 2 ==> (g_order_ok && g_calls == path.size - 1 + (is_closed_path ? 1 : 0) && g_closing_seen == is_closed_path))
__CPROVER_ensures((path.size >= 2 && g_k + 1 < path.size) ==> g_nk == 1)
__CPROVER_assigns(g_calls, g_order_ok, g_closing_seen, g_nk, g_dk)
//@loop 1
__CPROVER_assigns(it, result, g_calls, g_order_ok, g_closing_seen, g_nk, g_dk)
__CPROVER_loop_invariant(it <= stop && g_calls == it && g_order_ok && !g_closing_seen && g_nk == ((g_k < it) ? 1 : 0))
__CPROVER_decreases(stop - it)
//@end
void h_Len(void) { Path64 p; bool c; Length(p, c); VF_CANARY(); }
//@run name=Length entry=h_Len enforce=Length replace=vf_dist loops=1 flags="--bounds-check --pointer-check --unsigned-overflow-check" timeout=300
