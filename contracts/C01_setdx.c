//@unit C01_setdx
//@props C01
//@desc SetDx (loop-free; GetDx is a logging stub whose own contract is proved in C10_topx): the edge's slope is GetDx of ITS OWN end points, bottom first and top second - the argument order is what gives a horizontal edge -DBL_MAX when it heads right and +DBL_MAX when it heads left, which IsHeadingRightHorz / IsHeadingLeftHorz and the left/right bound choice at a local minimum read back -, the result is stored in e.dx, and no other field of the edge changes. The real body behind the SetDx stubs of C01_advance, C01_localminima and C02_horz.
#include "vf.h"
//@include engine_types.inc
Point64 g_a1, g_a2; int g_ncall; double g_ret;
static double GetDx__p(const Point64* p1, const Point64* p2) { g_ncall++; g_a1 = *p1; g_a2 = *p2; return g_ret; }
#define GetDx(a, b) GetDx__p(&(a), &(b))
//@extract file=CPP/Clipper2Lib/src/clipper.engine.cpp func=SetDx byptr=e refmacro=1
//@end
double nondet_double(void); int64_t nondet_i64(void);
void h_SetDx(void)
{
  Active e, before; 
  e.bot.x = nondet_i64(); e.bot.y = nondet_i64(); e.top.x = nondet_i64(); e.top.y = nondet_i64(); e.curr_x = nondet_i64(); e.wind_dx = (int)nondet_i64(); e.dx = nondet_double();
  g_ret = nondet_double(); __CPROVER_assume(!__CPROVER_isnand(g_ret)); g_ncall = 0;
  before = e;
  SetDx(e);
  __CPROVER_assert(g_ncall == 1 && g_a1.x == before.bot.x && g_a1.y == before.bot.y && g_a2.x == before.top.x && g_a2.y == before.top.y, "slope of the edge's own segment, bottom first, top second");
  __CPROVER_assert(e.dx == g_ret, "stored in dx");
  __CPROVER_assert(e.bot.x == before.bot.x && e.bot.y == before.bot.y && e.top.x == before.top.x && e.top.y == before.top.y && e.curr_x == before.curr_x && e.wind_dx == before.wind_dx &&
                   e.outrec == before.outrec && e.prev_in_ael == before.prev_in_ael && e.next_in_ael == before.next_in_ael && e.vertex_top == before.vertex_top && e.local_min == before.local_min, "nothing else changes");
  VF_CANARY();
}
//@run name=SetDx entry=h_SetDx flags="--bounds-check --pointer-check" timeout=120
