//@unit C04_prevhot
//@props C04
//@desc GetPrevHotEdge - BOUNDED (AEL of 4 edges, any mix of open / closed, hot / cold): the edge returned is the NEAREST edge to the left that belongs to a closed path and is hot (the one whose contour becomes the tentative owner of a new contour in a polytree), or null when there is none; nothing to the right of the edge is looked at.
#include "vf.h"
//@include engine_types.inc
Active g_e0, g_e1, g_e2, g_e3; Active* const g_p[4] = { &g_e0, &g_e1, &g_e2, &g_e3 };
LocalMinima g_lmc, g_lmo; OutRec g_or;
//@extract file=CPP/Clipper2Lib/src/clipper.engine.cpp func=IsHotEdge byptr=e refmacro=1
//@end
//@extract file=CPP/Clipper2Lib/src/clipper.engine.cpp func=IsOpen sig="const Active& e" byptr=e refmacro=1
//@end
//@extract file=CPP/Clipper2Lib/src/clipper.engine.cpp func=GetPrevHotEdge byptr=e refmacro=1
//@end
unsigned nondet_uint(void); bool nondet_bool(void);
void h_GPH(void)
{
  g_lmc.is_open = false; g_lmo.is_open = true;
  for (int i = 0; i < 4; ++i) { g_p[i]->prev_in_ael = i ? g_p[i - 1] : NULL; g_p[i]->next_in_ael = i + 1 < 4 ? g_p[i + 1] : NULL; g_p[i]->local_min = nondet_bool() ? &g_lmo : &g_lmc; g_p[i]->outrec = nondet_bool() ? &g_or : NULL; }
  unsigned k = nondet_uint() % 4;
  Active* want = NULL; for (int i = 0; i < (int)k; ++i) if (!g_p[i]->local_min->is_open && g_p[i]->outrec != NULL) want = g_p[i];   /* the last qualifying one = the nearest */
  Active* got = GetPrevHotEdge(*g_p[k]);
  __CPROVER_assert(got == want, "the nearest hot closed-path edge to the left, or null");
  VF_CANARY();
}
//@run name=GetPrevHotEdge entry=h_GPH unwind=6 flags="--bounds-check --pointer-check" timeout=120 bounded="AEL of 4 edges"
