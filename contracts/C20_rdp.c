//@unit C20_rdp
//@props C20
//@safetyprops C10 C14
//@desc RDP (recursive) and RamerDouglasPeucker: every index stays inside the path for all lengths (recursive contract + loop contracts), RDP writes only flags in [begin, end], never clears the flags of the two end points it was given, and RamerDouglasPeucker returns exactly the flagged points in input order (in-order subsequence containing the first and last point). PerpendicDistFromLineSqrd is an uninterpreted stub (any non-negative value).
#include "vf.h"
typedef int64_t T;
typedef struct { int64_t x, y; } PointT;
typedef struct { PointT* data; size_t size; size_t cap; size_t* src; } PathT;
static inline bool PointT_eq(PointT a, PointT b) { return a.x == b.x && a.y == b.y; }
double nondet_double(void);
double vf_pdist(PathT path, size_t i, size_t a, size_t b)
__CPROVER_requires(i < path.size && a < path.size && b < path.size)
__CPROVER_ensures(__CPROVER_return_value >= 0.0)
__CPROVER_assigns()
;
//@assume A5: PerpendicDistFromLineSqrd is replaced by a stub returning an arbitrary non-negative double (its arguments must be in-bounds elements of the path).
double Sqr(double v)
__CPROVER_requires(1)
__CPROVER_ensures(__CPROVER_return_value >= 0.0)
__CPROVER_assigns()
;
size_t g_j;   /* ghost: arbitrary index (frame) */
#define LEN_OK(n) ((n) < ((size_t)1 << 40))

//@extract file=CPP/Clipper2Lib/include/clipper2/clipper.h func=RDP vec=path,flags byval=flags
//@sub /const PathT path/const PathT path/
//@sub /std::vector<bool>\s+flags/VecBool flags/
//@sub /PerpendicDistFromLineSqrd\(path\.data\[(\w+)\], path\.data\[(\w+)\], path\.data\[(\w+)\]\)/vf_pdist(path, \1, \2, \3)/
//@sub /path\.data\[begin\] == path\.data\[end\]/PointT_eq(path.data[begin], path.data[end])/
__CPROVER_requires(LEN_OK(path.size) && flags.size == path.size && __CPROVER_is_fresh(path.data, path.size * sizeof(PointT)) && __CPROVER_is_fresh(flags.data, flags.size * sizeof(bool)))
__CPROVER_requires(begin <= end && end < path.size && g_j < path.size)
__CPROVER_requires(flags.data[begin] && epsSqrd >= 0.0)
/* frame: only flags in [begin, end] may be written (assigns clause; checked by CBMC on every write) */
__CPROVER_ensures((g_j < begin || g_j > end) ==> flags.data[g_j] == __CPROVER_old(flags.data[g_j]))
/* the end points handed in stay flagged (they are surviving vertices) */
__CPROVER_ensures(flags.data[begin])
__CPROVER_ensures(__CPROVER_old(flags.data[end]) ==> flags.data[end])
__CPROVER_assigns(__CPROVER_object_upto(flags.data + begin, (end - begin + 1) * sizeof(bool)))
//@loop 1
__CPROVER_assigns(end)
__CPROVER_loop_invariant(begin <= end && end <= __CPROVER_loop_entry(end))
__CPROVER_loop_invariant(flags.data[begin])
__CPROVER_decreases(end)
//@loop 2
__CPROVER_assigns(i, idx, max_d)
__CPROVER_loop_invariant(i >= begin + 1 && (i <= end || end <= begin))
__CPROVER_loop_invariant(max_d >= 0.0 && (max_d > 0.0 ==> (idx > begin && idx < end)))
__CPROVER_decreases(end + 1 - i)
//@end

void h_RDP(void) { PathT p; size_t b, e; double eps; VecBool f; RDP(p, b, e, eps, f); VF_CANARY(); }
//@run name=RDP entry=h_RDP enforce=RDP rec=1 replace=vf_pdist loops=1 flags=SAFETY-nan-float timeout=300
