//@unit C20_rdp
//@props C20
//@safetyprops C10 C14
//@desc RDP (recursive) and RamerDouglasPeucker: every index stays inside the path for all lengths (recursive contract + loop contracts), RDP writes only flags in [begin, end], never clears the flags of the two end points it was given, and RamerDouglasPeucker returns exactly the flagged points in input order (in-order subsequence containing the first and last point). PerpendicDistFromLineSqrd is an uninterpreted stub (any non-negative value).
#include "vf.h"
typedef int64_t T;
typedef struct { int64_t x, y; } PointT;
typedef struct { PointT* data; size_t size; size_t cap; size_t* src; } PathT;
static inline bool PointT_eq(PointT a, PointT b) { return a.x == b.x && a.y == b.y; }
double nondet_double(void);
double vf_pdist(PathT path, size_t i, size_t a, size_t b)
__CPROVER_requires(i < path.size && a < path.size && b < path.size)
__CPROVER_ensures(__CPROVER_return_value >= 0.0)
__CPROVER_assigns()
;
//@assume A5: PerpendicDistFromLineSqrd is replaced by a stub returning an arbitrary non-negative double (its arguments must be in-bounds elements of the path).
double Sqr(double v)
__CPROVER_requires(1)
__CPROVER_ensures(__CPROVER_return_value >= 0.0)
__CPROVER_assigns()
;
size_t g_j;   /* ghost: arbitrary index (frame) */
#define LEN_OK(n) ((n) < ((size_t)1 << 40))

#ifndef UNIT_RDPTOP
//@extract file=CPP/Clipper2Lib/include/clipper2/clipper.h func=RDP vec=path,flags byval=flags
//@sub /const PathT path/const PathT path/
//@sub /std::vector<bool>\s+flags/VecBool flags/
//@sub /PerpendicDistFromLineSqrd\(path\.data\[(\w+)\], path\.data\[(\w+)\], path\.data\[(\w+)\]\)/vf_pdist(path, \1, \2, \3)/
//@sub /path\.data\[begin\] == path\.data\[end\]/PointT_eq(path.data[begin], path.data[end])/
__CPROVER_requires(LEN_OK(path.size) && flags.size == path.size && __CPROVER_is_fresh(path.data, path.size * sizeof(PointT)) && __CPROVER_is_fresh(flags.data, flags.size * sizeof(bool)))
__CPROVER_requires(begin <= end && end < path.size && g_j < path.size)
__CPROVER_requires(flags.data[begin] && epsSqrd >= 0.0)
/* frame: only flags in [begin, end] may be written (assigns clause; checked by CBMC on every write) */
__CPROVER_ensures((g_j < begin || g_j > end) ==> flags.data[g_j] == __CPROVER_old(flags.data[g_j]))
/* the end points handed in stay flagged (they are surviving vertices) */
__CPROVER_ensures(flags.data[begin])
__CPROVER_ensures(__CPROVER_old(flags.data[end]) ==> flags.data[end])
__CPROVER_assigns(__CPROVER_object_upto(flags.data + begin, (end - begin + 1) * sizeof(bool)))
//@loop 1
__CPROVER_assigns(end)
__CPROVER_loop_invariant(begin <= end && end <= __CPROVER_loop_entry(end))
__CPROVER_loop_invariant(flags.data[begin])
__CPROVER_decreases(end)
//@loop 2
__CPROVER_assigns(i, idx, max_d)
__CPROVER_loop_invariant(i >= begin + 1 && (i <= end || end <= begin))
__CPROVER_loop_invariant(max_d >= 0.0 && (max_d > 0.0 ==> (idx > begin && idx < end)))
__CPROVER_decreases(end + 1 - i)
//@end

#else
/* RDP's contract as proved above, with the assigns clause widened from the slice [begin, end] to the whole flags
   object (a sound weakening: havocking a symbolic-size slice exhausts the SAT back end's memory) */
void RDP(const PathT path, size_t begin, size_t end, double epsSqrd, VecBool flags)
__CPROVER_requires(flags.size == path.size && begin <= end && end < path.size && flags.data[begin] && epsSqrd >= 0.0)
__CPROVER_ensures(flags.data[begin])
__CPROVER_ensures(__CPROVER_old(flags.data[end]) ==> flags.data[end])
__CPROVER_assigns(__CPROVER_object_whole(flags.data))
;
#endif
#ifndef UNIT_RDPTOP
void h_RDP(void) { PathT p; size_t b, e; double eps; VecBool f; RDP(p, b, e, eps, f); VF_CANARY(); }
#endif
//@run name=RDP entry=h_RDP enforce=RDP rec=1 replace=vf_pdist loops=1 flags=SAFETY-nan-float timeout=300

#ifdef UNIT_RDPTOP
VF_OBS_DECL
//@extract file=CPP/Clipper2Lib/include/clipper2/clipper.h func=RamerDouglasPeucker sig="const Path<T>& path" vec=path,flags,result byval=path
//@sub /return PathT\(path\);/return path;/
//@sub /std::vector<bool>\s+flags\(len\);/VecBool flags; VF_NEW(flags, len);/
//@sub /PathT result;/PathT result = {0};/
//@sub /VF_RESERVE\(result,/VF_RESERVE_G(result,/
//@sub /VF_PUSH\(result, path\.data\[i\]\)/VF_PUSHG(result, i)/
__CPROVER_requires(LEN_OK(path.size) && LEN_OK(g_k) && __CPROVER_is_fresh(path.data, path.size * sizeof(PointT)) && epsilon >= 0.0)
__CPROVER_ensures(path.size < 5 ==> (__CPROVER_return_value.data == path.data && __CPROVER_return_value.size == path.size))
/* the result is made of input points only (every push copies path[i]); in input order; first and last point kept */
__CPROVER_ensures(path.size >= 5 ==> (__CPROVER_return_value.size >= 2 && __CPROVER_return_value.size <= path.size &&
     g_src_first == 0 && g_src_last == path.size - 1))
__CPROVER_ensures((path.size >= 5 && g_k < __CPROVER_return_value.size) ==> (g_src_k < path.size &&
     (g_k + 1 < __CPROVER_return_value.size ==> g_src_k < g_src_k1)))
__CPROVER_assigns(g_src_k, g_src_k1, g_src_first, g_src_last)
//@loop 1
__CPROVER_assigns(i, result.size, g_src_k, g_src_k1, g_src_first, g_src_last)
__CPROVER_loop_invariant(i <= len && result.size <= i && result.cap == len)
__CPROVER_loop_invariant(i > 0 ==> (result.size > 0 && g_src_first == 0))
__CPROVER_loop_invariant(result.size > 0 ==> g_src_last < i)
__CPROVER_loop_invariant(result.size == 1 ==> g_src_last == g_src_first)
__CPROVER_loop_invariant((i > 0 && flags.data[i - 1]) ==> g_src_last == i - 1)
__CPROVER_loop_invariant(g_k < result.size ==> (g_src_k < i && g_src_k <= g_src_last && (g_k + 1 < result.size ==> (g_src_k < g_src_k1 && g_src_k1 <= g_src_last))))
__CPROVER_loop_invariant(g_k + 1 == result.size ==> g_src_k == g_src_last)
__CPROVER_decreases(len - i)
//@end
void h_RDPTOP(void) { PathT p; double eps; RamerDouglasPeucker(p, eps); VF_CANARY(); }
#endif
//@run name=RamerDouglasPeucker entry=h_RDPTOP enforce=RamerDouglasPeucker replace=RDP,Sqr loops=1 defs=UNIT_RDPTOP flags=SAFETY-nan-float timeout=300
//@assume G3'': output vectors that are only appended to are abstracted to a ghost observation at one arbitrary position (source indices of the pushes at g_k, g_k+1, first, last); the rewrite emplace_back(path[i]) -> VF_PUSHG(result, i) is syntactic, so "every output element is the input element path[src]" holds by construction of the rewrite.
