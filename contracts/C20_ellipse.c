//@unit C20_ellipse
//@props C20
//@safetyprops C10 C14
//@desc Ellipse(center, radiusX, radiusY, steps) for Path64, unbounded in the number of steps (loop contract; trigonometry, square root and all floating-point arithmetic are stubs / uninterpreted): a non-positive radiusX gives an empty path; a non-positive radiusY means a circle (radiusY = radiusX); with steps >= 3 given, the result has EXACTLY `steps` vertices, the first one is (center.x + radiusX, center.y) - the point on the positive x axis -, the rotation step is sin and cos of 2*PI/steps, evaluated once each; never more vertices than reserved. (The default step count for steps <= 2 and the positions of the other vertices are floating point and not decided.)
#include "vf.h"
typedef int64_t T;
typedef struct { int64_t x, y; } Point64; typedef Point64 PointT;
typedef struct { Point64* data; size_t size; size_t cap; } Path64; typedef Path64 PathT;
Point64* g_buf_data;
#define VF_RESERVE_B(v, n) do { (v).cap = (n); (v).size = 0; (v).data = g_buf_data; } while (0)
double __CPROVER_uninterpreted_fmul(double, double); double __CPROVER_uninterpreted_fdiv(double, double); double __CPROVER_uninterpreted_fadd(double, double); double __CPROVER_uninterpreted_fsub(double, double);
int64_t __CPROVER_uninterpreted_round_i64(double);
#define vf_fmul(a, b) __CPROVER_uninterpreted_fmul((double)(a), (double)(b))
#define vf_fdiv(a, b) __CPROVER_uninterpreted_fdiv((double)(a), (double)(b))
#define vf_add(a, b) _Generic((a) + (b), double: __CPROVER_uninterpreted_fadd((double)(a), (double)(b)), default: (a) + (b))
#define vf_sub(a, b) _Generic((a) - (b), double: __CPROVER_uninterpreted_fsub((double)(a), (double)(b)), default: (a) - (b))
#define PI 3.141592653589793238
int g_nsin, g_ncos; double g_sin_arg, g_cos_arg, g_si, g_co;
double vf_sin(double v) __CPROVER_requires(1) __CPROVER_ensures(g_nsin == __CPROVER_old(g_nsin) + 1 && g_sin_arg == v && __CPROVER_return_value == g_si) __CPROVER_assigns(g_nsin, g_sin_arg);
double vf_cos(double v) __CPROVER_requires(1) __CPROVER_ensures(g_ncos == __CPROVER_old(g_ncos) + 1 && g_cos_arg == v && __CPROVER_return_value == g_co) __CPROVER_assigns(g_ncos, g_cos_arg);
double vf_sqrt(double v) __CPROVER_requires(1) __CPROVER_ensures(1) __CPROVER_assigns();
/* result.emplace_back(double x, double y): Point<int64_t>(double, double) rounds (C16_init) */
#define VF_PUSH_XY(v, X, Y) do { __CPROVER_assert((v).size < (v).cap, "push within reserved capacity"); (v).data[(v).size].x = __CPROVER_uninterpreted_round_i64(X); (v).data[(v).size].y = __CPROVER_uninterpreted_round_i64(Y); (v).size++; } while (0)
#define LEN_OK(n) ((n) < ((size_t)1 << 30))
//@extract file=CPP/Clipper2Lib/include/clipper2/clipper.h func=Ellipse sig="const Point<T>& center" byval=center vec=result
//@presub /return Path<T>\(\);/return (PathT){0, 0, 0};/
//@presub /Path<T> result;/PathT result = {0, 0, 0};/
//@presub /\bsqrt\(/vf_sqrt(/
//@presub /std::sin\(/vf_sin(/
//@presub /std::cos\(/vf_cos(/
//@presub /result\.emplace_back\(([^,;]*), ([^;]*)\);/VF_PUSH_XY(result, \1, \2);/ min=2
//@pysub fops_all
//@sub /VF_RESERVE\(result,/VF_RESERVE_B(result,/
__CPROVER_requires(steps >= 3 && LEN_OK(steps) && __CPROVER_is_fresh(g_buf_data, steps * sizeof(Point64)) && g_nsin == 0 && g_ncos == 0 && !__CPROVER_isnand(radiusX) && !__CPROVER_isnand(radiusY))
#define RES __CPROVER_return_value
__CPROVER_ensures(radiusX <= 0.0 ==> RES.size == 0)
__CPROVER_ensures(radiusX > 0.0 ==> (RES.size == steps && g_nsin == 1 && g_ncos == 1 && g_sin_arg == vf_fdiv(vf_fmul(2, PI), steps) && g_cos_arg == g_sin_arg))
__CPROVER_ensures(radiusX > 0.0 ==> (RES.data[0].x == __CPROVER_uninterpreted_round_i64(vf_add(center.x, radiusX)) && RES.data[0].y == __CPROVER_uninterpreted_round_i64((double)center.y)))
__CPROVER_assigns(g_nsin, g_ncos, g_sin_arg, g_cos_arg, __CPROVER_object_upto(g_buf_data, steps * sizeof(Point64)))
//@loop 1
__CPROVER_assigns(i, dx, dy, result.size, __CPROVER_object_upto(result.data, steps * sizeof(Point64)))
__CPROVER_loop_invariant(i >= 1 && i <= steps && result.size == i && result.cap == steps)
__CPROVER_loop_invariant(result.data[0].x == __CPROVER_loop_entry(result.data[0].x) && result.data[0].y == __CPROVER_loop_entry(result.data[0].y))
__CPROVER_decreases(steps - i)
//@end
void h_Ell(void) { Point64 c; double rx, ry; size_t s; Ellipse(c, rx, ry, s); VF_CANARY(); }
//@run name=Ellipse entry=h_Ell enforce=Ellipse replace=vf_sin,vf_cos,vf_sqrt loops=1 flags="--bounds-check --pointer-check" timeout=300
//@assume R21c (C20_ellipse): sin, cos, sqrt are stubs; +, -, *, / on doubles and the rounding of a vertex are uninterpreted functions.
