//@unit C19_minkowski_fwd
//@props C19 C16
//@safetyprops C14
//@desc MinkowskiSum / MinkowskiDiff (Path64 and PathD overloads) and detail::Union under call-trace contracts: the result is Union(NonZero) of detail::Minkowski(pattern, path, isSum, isClosed) with pattern and path in their own slots, isSum true for Sum and false for Diff; the PathD overloads scale both operands by 10^decimalPlaces and descale the result with 1/scale.
#include "vf.h"
//@include calltrace.inc
//@include calltrace_stubs.inc
#define ASG_LOG __CPROVER_object_whole(g_cnt), __CPROVER_object_whole(g_ev), g_n
#define SCALE POW_RET(0)
VTok detail_Minkowski(VTok pattern, VTok path, bool isSum, bool isClosed)
LOG_REQ(FN_MINK) LOG_ENS(FN_MINK, pattern.tok, path.tok, isSum, isClosed, 0,0, 0,0,0,0)
__CPROVER_ensures(__CPROVER_return_value.tok == TOK(FN_MINK, OC_(FN_MINK)))
__CPROVER_assigns(LOG_ASG(FN_MINK));
VTok detail_Union(VTok subjects, FillRule fillrule)
LOG_REQ(FN_UNION) LOG_ENS(FN_UNION, subjects.tok, fillrule, 0,0,0,0, 0,0,0,0)
__CPROVER_ensures(__CPROVER_return_value.tok == TOK(FN_UNION, OC_(FN_UNION)))
__CPROVER_assigns(LOG_ASG(FN_UNION));
#define MINK64_SPEC(ISSUM) \
  __CPROVER_ensures(C_(FN_MINK) == 1 && I_(FN_MINK,0,0) == pattern.tok && I_(FN_MINK,0,1) == path.tok && I_(FN_MINK,0,2) == (ISSUM) && I_(FN_MINK,0,3) == (long)isClosed && \
     C_(FN_UNION) == 1 && I_(FN_UNION,0,0) == TOK(FN_MINK,0) && I_(FN_UNION,0,1) == (long)FillRule_NonZero && __CPROVER_return_value.tok == TOK(FN_UNION,0))
#define MINKD_SPEC(ISSUM) \
  __CPROVER_ensures(C_(FN_POW) == 1 && IS_POW10(0, decimalPlaces) && C_(FN_SCALEPATH) == 2 && D_(FN_SCALEPATH,0,0) == SCALE && D_(FN_SCALEPATH,1,0) == SCALE && \
     ((I_(FN_SCALEPATH,0,0) == pattern.tok && I_(FN_SCALEPATH,1,0) == path.tok && I_(FN_MINK,0,0) == TOK(FN_SCALEPATH,0) && I_(FN_MINK,0,1) == TOK(FN_SCALEPATH,1)) || \
      (I_(FN_SCALEPATH,0,0) == path.tok && I_(FN_SCALEPATH,1,0) == pattern.tok && I_(FN_MINK,0,0) == TOK(FN_SCALEPATH,1) && I_(FN_MINK,0,1) == TOK(FN_SCALEPATH,0))) && \
     C_(FN_MINK) == 1 && I_(FN_MINK,0,2) == (ISSUM) && I_(FN_MINK,0,3) == (long)isClosed && \
     C_(FN_UNION) == 1 && I_(FN_UNION,0,0) == TOK(FN_MINK,0) && I_(FN_UNION,0,1) == (long)FillRule_NonZero && \
     C_(FN_SCALEPATHS) == 1 && I_(FN_SCALEPATHS,0,0) == TOK(FN_UNION,0) && C_(FN_FDIV) == 1 && IS_FDIV(0, 1.0, SCALE) && D_(FN_SCALEPATHS,0,0) == FDIV_RET(0) && \
     __CPROVER_return_value.tok == TOK(FN_SCALEPATHS,0))

//@extract file=CPP/Clipper2Lib/include/clipper2/clipper.minkowski.h func=MinkowskiSum sig="const Path64& pattern" as=MinkowskiSum_64 byval=pattern,path
//@presub /detail::/detail_/ min=2
//@pysub calltrace min=0
__CPROVER_requires(NOCALLS && pattern.tok != path.tok)
MINK64_SPEC(1)
__CPROVER_assigns(ASG_LOG)
//@end
//@extract file=CPP/Clipper2Lib/include/clipper2/clipper.minkowski.h func=MinkowskiDiff sig="const Path64& pattern" as=MinkowskiDiff_64 byval=pattern,path
//@presub /detail::/detail_/ min=2
//@pysub calltrace min=0
__CPROVER_requires(NOCALLS && pattern.tok != path.tok)
MINK64_SPEC(0)
__CPROVER_assigns(ASG_LOG)
//@end
//@extract file=CPP/Clipper2Lib/include/clipper2/clipper.minkowski.h func=MinkowskiSum sig="const PathD& pattern" as=MinkowskiSum_D byval=pattern,path
//@presub /detail::/detail_/ min=2
//@pysub calltrace
//@pysub floatops
__CPROVER_requires(NOCALLS && pattern.tok != path.tok)
MINKD_SPEC(1)
#ifdef REQ_PRECCHECK
/* C11: a decimal precision outside +-8 must be reported: CheckPrecisionRange has to be called on decimalPlaces */
__CPROVER_ensures(C_(FN_CHECKPREC) == 1 && I_(FN_CHECKPREC,0,0) == (long)decimalPlaces)
#endif
__CPROVER_assigns(ASG_LOG)
//@end
//@extract file=CPP/Clipper2Lib/include/clipper2/clipper.minkowski.h func=MinkowskiDiff sig="const PathD& pattern" as=MinkowskiDiff_D byval=pattern,path
//@presub /detail::/detail_/ min=2
//@pysub calltrace
//@pysub floatops
__CPROVER_requires(NOCALLS && pattern.tok != path.tok)
MINKD_SPEC(0)
#ifdef REQ_PRECCHECK
__CPROVER_ensures(C_(FN_CHECKPREC) == 1 && I_(FN_CHECKPREC,0,0) == (long)decimalPlaces)
#endif
__CPROVER_assigns(ASG_LOG)
//@end
//@extract file=CPP/Clipper2Lib/include/clipper2/clipper.minkowski.h func=Union as=detail_Union_impl byval=subjects
//@pysub calltrace
//@sub /Clipper64_Execute\(/Clipper_Execute1(/
__CPROVER_requires(NOCALLS)
__CPROVER_ensures(C_(FN_C64CTOR) == 1 && C_(FN_ADDSUBJ) == 1 && I_(FN_ADDSUBJ,0,0) == TOK(FN_C64CTOR,0) && I_(FN_ADDSUBJ,0,1) == subjects.tok && C_(FN_ADDCLIP) == 0 && C_(FN_ADDOPEN) == 0 &&
   C_(FN_EXEC) == 1 && I_(FN_EXEC,0,0) == TOK(FN_C64CTOR,0) && I_(FN_EXEC,0,1) == (long)ClipType_Union && I_(FN_EXEC,0,2) == (long)fillrule && SEQ(FN_EXEC,0) > SEQ(FN_ADDSUBJ,0) &&
   __CPROVER_return_value.tok == TOK(FN_EXEC,0))
__CPROVER_assigns(ASG_LOG)
//@end
void h_S64(void) { VTok a, b; bool c; LOG_INIT(); MinkowskiSum_64(a, b, c); VF_CANARY(); }
void h_D64(void) { VTok a, b; bool c; LOG_INIT(); MinkowskiDiff_64(a, b, c); VF_CANARY(); }
void h_SD(void) { VTok a, b; bool c; int dp; LOG_INIT(); MinkowskiSum_D(a, b, c, dp); VF_CANARY(); }
void h_DD(void) { VTok a, b; bool c; int dp; LOG_INIT(); MinkowskiDiff_D(a, b, c, dp); VF_CANARY(); }
void h_U(void) { VTok a; FillRule fr; LOG_INIT(); detail_Union_impl(a, fr); VF_CANARY(); }
//@run name=MinkowskiSum.Path64 entry=h_S64 enforce=MinkowskiSum_64 replace=detail_Minkowski,detail_Union flags="--bounds-check --pointer-check" timeout=120
//@run name=MinkowskiDiff.Path64 entry=h_D64 enforce=MinkowskiDiff_64 replace=detail_Minkowski,detail_Union flags="--bounds-check --pointer-check" timeout=120
//@run name=MinkowskiSum.PathD entry=h_SD enforce=MinkowskiSum_D replace=detail_Minkowski,detail_Union,ScalePath,ScalePaths,vf_pow,vf_fdiv flags="--bounds-check --pointer-check" timeout=120
//@run name=MinkowskiDiff.PathD entry=h_DD enforce=MinkowskiDiff_D replace=detail_Minkowski,detail_Union,ScalePath,ScalePaths,vf_pow,vf_fdiv flags="--bounds-check --pointer-check" timeout=120
//@run name=detail.Union entry=h_U enforce=detail_Union_impl replace=Clipper64_ctor,Clipper_AddSubject,Clipper_Execute1 flags="--bounds-check --pointer-check" timeout=120
//@run name=MinkowskiSum.PathD.F6 entry=h_SD enforce=MinkowskiSum_D replace=detail_Minkowski,detail_Union,ScalePath,ScalePaths,vf_pow,vf_fdiv,CheckPrecisionRange defs=REQ_PRECCHECK flags="--bounds-check --pointer-check" timeout=120 expect=fail:postcondition\.2 known=F6 props=C11
//@run name=MinkowskiDiff.PathD.F6 entry=h_DD enforce=MinkowskiDiff_D replace=detail_Minkowski,detail_Union,ScalePath,ScalePaths,vf_pow,vf_fdiv,CheckPrecisionRange defs=REQ_PRECCHECK flags="--bounds-check --pointer-check" timeout=120 expect=fail:postcondition\.2 known=F6 props=C11
