//@unit C04_validowner
//@props C04
//@desc IsValidOwner(outrec, testOwner) - BOUNDED (acyclic owner chains over 4 OutRecs): the candidate owner is valid exactly when `outrec` is neither the candidate itself nor one of its ancestors (so that making it the owner cannot close a cycle: every `while (x->owner)` walk keeps terminating); a null candidate is valid; the walk terminates and dereferences nothing but the chain.
#include "vf.h"
//@include engine_types.inc
OutRec g_a, g_b, g_c, g_d; OutRec* const g_o[4] = { &g_a, &g_b, &g_c, &g_d };
//@extract file=CPP/Clipper2Lib/src/clipper.engine.cpp func=IsValidOwner
//@end
unsigned nondet_uint(void); bool nondet_bool(void);
void h_IVO(void)
{
  /* owner pointers only go to higher indices: any acyclic forest over four OutRecs (up to renaming) */
  for (int i = 0; i < 4; ++i) { unsigned ow = nondet_uint() % 5; g_o[i]->owner = (ow > (unsigned)i && ow < 4) ? g_o[ow] : NULL; }
  unsigned x = nondet_uint() % 4, t = nondet_uint() % 5;
  OutRec* outrec = g_o[x]; OutRec* test = t < 4 ? g_o[t] : NULL;
  bool among = false; OutRec* p = test; for (int k = 0; k < 5 && p; ++k) { if (p == outrec) among = true; p = p->owner; }
  bool r = IsValidOwner(outrec, test);
  __CPROVER_assert(r == !among, "valid exactly when outrec is not the candidate or one of its ancestors");
  VF_CANARY();
}
//@run name=IsValidOwner entry=h_IVO unwind=6 flags="--bounds-check --pointer-check" timeout=120 bounded="acyclic owner chains over 4 OutRecs"
