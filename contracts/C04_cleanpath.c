//@unit C04_cleanpath
//@props C04
//@desc GetCleanPath - BOUNDED (ring of 4 output vertices, any coordinates): the simplified copy of a ring that Path1InsidePath2 feeds to GetBounds / PointInPolygon when the vertex votes are equivocal (which decides the owner of a split contour in a polytree). It never reads outside the ring, emits at least one and at most n points, every emitted point is a vertex of the ring and they come in ring order without repetition (ghost: source index per emitted point, strictly increasing from `op`), and a ring in which no two neighbours share an x or a y is copied whole, starting at `op`: only vertices on axis-parallel runs can be dropped.
#include "vf.h"
//@include engine_types.inc
OutPt g_o0, g_o1, g_o2, g_o3; OutPt* const g_p[4] = { &g_o0, &g_o1, &g_o2, &g_o3 };
int g_src[4]; size_t g_nout;
#define VF_IDX(p) ((p) == &g_o0 ? 0 : (p) == &g_o1 ? 1 : (p) == &g_o2 ? 2 : (p) == &g_o3 ? 3 : -1)
#define VF_EMIT(p) do { __CPROVER_assert(g_nout < 4, "at most one point per ring vertex"); g_src[g_nout < 4 ? g_nout : 0] = VF_IDX(p); g_nout++; } while (0)
//@extract file=CPP/Clipper2Lib/src/clipper.engine.cpp func=GetCleanPath vec=result
//@sub /Path64 result;/Path64 result = { 0, 0 };/
//@sub /VF_PUSH\(result, op2->pt\)/VF_EMIT(op2)/ min=2
//@end
int64_t nondet_i64(void);
void h_GCP(void)
{
  for (int i = 0; i < 4; ++i) { g_p[i]->next = g_p[(i + 1) % 4]; g_p[i]->prev = g_p[(i + 3) % 4]; g_p[i]->pt.x = nondet_i64(); g_p[i]->pt.y = nondet_i64(); }
  g_nout = 0;
  GetCleanPath(g_p[0]);
  __CPROVER_assert(g_nout >= 1 && g_nout <= 4, "never empty, never longer than the ring");
  for (size_t i = 0; i < 4; ++i) if (i < g_nout) __CPROVER_assert(g_src[i] >= 0 && (i == 0 || g_src[i] > g_src[i - 1]), "ring vertices, in ring order from op, none twice");
  bool no_axis_run = true;
  for (int i = 0; i < 4; ++i) if (g_p[i]->pt.x == g_p[i]->next->pt.x || g_p[i]->pt.y == g_p[i]->next->pt.y) no_axis_run = false;
  if (no_axis_run) __CPROVER_assert(g_nout == 4 && g_src[0] == 0, "a ring without axis-parallel edges is copied whole, starting at op");
  VF_CANARY();
}
//@run name=GetCleanPath entry=h_GCP unwind=6 flags="--bounds-check --pointer-check" timeout=120 bounded="ring of 4"
