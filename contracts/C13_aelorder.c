//@unit C13_aelorder
//@props C13 C01 C02
//@safetyprops C10 C14
//@desc IsValidAelOrder, the comparison that places a new edge in the active edge list (loop-free; CrossProductSign and IsCollinear are stubs, IsMaxima / NextVertex / PrevPrevVertex are the real bodies over a six-vertex ring): two edges that are apart at the scanline are ordered by x ALONE - the newcomer goes to the right of the resident exactly when its x is larger, whatever their insertion order, bound side or path (the representation-independence C13 needs) -; edges through the same point are ordered first by the turn (resident.top, newcomer.bot, newcomer.top), a proper turn deciding at once; every vertex pointer followed in the collinear tie-breaks is valid.
#include "vf.h"
//@include engine_types.inc
unsigned nondet_uint(void); bool nondet_bool(void); int64_t nondet_i64(void); int nondet_int(void);
int g_cps1; int g_ncps; Point64 g_c1a, g_c1b, g_c1c;
static int CrossProductSign(Point64 a, Point64 b, Point64 c) { if (g_ncps++ == 0) { g_c1a = a; g_c1b = b; g_c1c = c; return g_cps1; } return nondet_int(); }
static bool IsCollinear(Point64 a, Point64 b, Point64 c) { return nondet_bool(); }
static inline bool Point64_eq(Point64 a, Point64 b) { return a.x == b.x && a.y == b.y; }
//@extract file=CPP/Clipper2Lib/src/clipper.engine.cpp func=IsMaxima sig="const Vertex& v" as=IsMaximaV byptr=v
//@end
//@extract file=CPP/Clipper2Lib/src/clipper.engine.cpp func=IsMaxima sig="const Active& e" byptr=e refmacro=1
//@sub /IsMaxima\(\*e->vertex_top\)/IsMaximaV(e->vertex_top)/
//@end
//@extract file=CPP/Clipper2Lib/src/clipper.engine.cpp func=NextVertex byptr=e refmacro=1
//@end
//@extract file=CPP/Clipper2Lib/src/clipper.engine.cpp func=PrevPrevVertex byptr=ae refmacro=1
//@end
//@extract file=CPP/Clipper2Lib/src/clipper.engine.cpp func=IsValidAelOrder nth=0 byptr=resident,newcomer
//@end
Vertex g_v[6]; LocalMinima g_lm[2];
void h_Order(void)
{
  Active r, n;
  for (int i = 0; i < 6; ++i) { g_v[i].pt.x = nondet_i64(); g_v[i].pt.y = nondet_i64(); g_v[i].next = &g_v[(i + 1) % 6]; g_v[i].prev = &g_v[(i + 5) % 6]; g_v[i].flags = (VertexFlags)(nondet_uint() % 16); }
  r.vertex_top = &g_v[nondet_uint() % 6]; n.vertex_top = &g_v[nondet_uint() % 6]; r.wind_dx = nondet_bool() ? 1 : -1; n.wind_dx = nondet_bool() ? 1 : -1;
  r.local_min = &g_lm[0]; n.local_min = &g_lm[1]; g_lm[0].vertex = &g_v[nondet_uint() % 6]; g_lm[1].vertex = &g_v[nondet_uint() % 6];
  r.curr_x = nondet_i64(); n.curr_x = nondet_i64(); r.top = r.vertex_top->pt; n.top = n.vertex_top->pt; r.bot.x = nondet_i64(); r.bot.y = nondet_i64(); n.bot.x = nondet_i64(); n.bot.y = nondet_i64();
  r.is_left_bound = nondet_bool(); n.is_left_bound = nondet_bool();
  g_cps1 = nondet_int(); __CPROVER_assume(g_cps1 >= -1 && g_cps1 <= 1); g_ncps = 0;
  bool ok = IsValidAelOrder(&r, &n);
  /* edges that are apart at the scanline are ordered by x alone - whichever was inserted first */
  if (n.curr_x != r.curr_x) __CPROVER_assert(ok == (n.curr_x > r.curr_x) && g_ncps == 0, "different x at the scanline: the newcomer goes right of the resident iff its x is larger; nothing else is consulted");
  else {
    /* edges through the same point: by the turn from the resident's top through the newcomer's bottom to the newcomer's top */
    __CPROVER_assert(g_ncps >= 1 && Point64_eq(g_c1a, r.top) && Point64_eq(g_c1b, n.bot) && Point64_eq(g_c1c, n.top), "same x: the first test is the turn (resident.top, newcomer.bot, newcomer.top)");
    if (g_cps1 != 0) __CPROVER_assert(ok == (g_cps1 < 0) && g_ncps == 1, "a proper turn decides: clockwise puts the newcomer right");
  }
  VF_CANARY();
}
//@run name=IsValidAelOrder entry=h_Order unwind=8 flags="--bounds-check --pointer-check" solver=cadical timeout=120
//@assume A5 (C13_aelorder): CrossProductSign (C18) and IsCollinear answer arbitrarily; the collinear tie-break rules themselves are not specified (only their memory safety).
