//@unit C12_offsetapi
//@props C12 C10
//@safetyprops C14
//@desc ClipperOffset's public Execute overloads and Clear. Execute(delta, Paths64&): the caller's vector is emptied first, becomes the solution target, and NO tree target is left over from an earlier tree run (`solution_tree = nullptr`) when the offsetting proper (ExecuteInternal, under a contract whose precondition states exactly this) starts with the given delta; nothing is allocated. Execute(delta, PolyTree64&): the tree is cleared first and becomes the tree target, the raw solution goes to ONE freshly allocated, empty vector that is released exactly once afterwards, and the object keeps no pointer to it (`solution == nullptr`) - so a later run cannot write through a dangling pointer and nothing leaks (C10). Execute(callback, Paths64&): installs the callback and runs the paths overload with delta 1.0. Clear() drops the groups and the scratch normals and nothing else (frame).
#include "vf.h"
typedef struct { long tok; size_t size; } VTok;
typedef struct { long tok; size_t nclear; } OTok;
typedef VTok Paths64; typedef OTok PolyTree64; typedef void* DeltaCallback64;
typedef struct { VTok* solution; OTok* solution_tree; DeltaCallback64 deltaCallback64_; size_t groups_size, norms_size; double miter_limit_, arc_tolerance_, delta_; bool preserve_collinear_, reverse_solution_; int error_code_; } ClipperOffset;
VTok g_pool; int g_nnew, g_ndel; bool g_live;
static VTok* vf_new_paths(void) { __CPROVER_assert(g_nnew == 0, "at most one temporary solution"); g_nnew++; g_live = true; g_pool.size = 0; g_pool.tok = 999; return &g_pool; }
static void vf_delete_paths(VTok* p) { __CPROVER_assert(p == &g_pool && g_live, "only the live temporary is released, once"); g_live = false; g_ndel++; }
int g_nexec; double g_delta; VTok* g_sol_at_exec; OTok* g_tree_at_exec; size_t g_solsize_at_exec; bool g_sol_live_at_exec;
void ExecuteInternal(ClipperOffset* self, double delta)
{
  __CPROVER_assert(self->solution != NULL, "a solution target exists when offsetting starts");
  g_nexec++; g_delta = delta; g_sol_at_exec = self->solution; g_tree_at_exec = self->solution_tree; g_solsize_at_exec = self->solution->size; g_sol_live_at_exec = g_live;
  self->solution->size = nondet_size();       /* the raw / final solution is written */
}
size_t nondet_size(void);
//@extract file=CPP/Clipper2Lib/src/clipper.offset.cpp func=ClipperOffset::Execute sig="double delta, Paths64& paths64" as=Execute_paths self=ClipperOffset byptr=paths64 selfcalls=ExecuteInternal members=solution,solution_tree
//@sub /paths64->clear\(\)|\(\*paths64\)\.clear\(\)/paths64->size = 0/  min=0
//@sub /&\(\*paths64\)/paths64/ min=0
//@end
//@extract file=CPP/Clipper2Lib/src/clipper.offset.cpp func=ClipperOffset::Execute sig="double delta, PolyTree64& polytree" as=Execute_tree self=ClipperOffset byptr=polytree selfcalls=ExecuteInternal members=solution,solution_tree
//@sub /polytree->Clear\(\)|\(\*polytree\)\.Clear\(\)/polytree->nclear++/ min=0
//@sub /&\(\*polytree\)/polytree/ min=0
//@sub /new Paths64\(\)/vf_new_paths()/
//@sub /delete self->solution;/vf_delete_paths(self->solution);/ min=0
//@end
//@extract file=CPP/Clipper2Lib/src/clipper.offset.cpp func=ClipperOffset::Execute sig="DeltaCallback64 delta_cb, Paths64& paths" as=Execute_cb self=ClipperOffset byptr=paths
//@sub /Execute\(1\.0, \(?\*?paths\)?\)/Execute_paths(self, 1.0, paths)/
//@end
//@extract file=CPP/Clipper2Lib/include/clipper2/clipper.offset.h func=Clear scope=ClipperOffset self=ClipperOffset members=norms,groups_
//@sub /self->groups_\.clear\(\)/self->groups_size = 0/
//@sub /self->norms\.clear\(\)/self->norms_size = 0/
__CPROVER_requires(__CPROVER_is_fresh(self, sizeof(*self)))
__CPROVER_ensures(self->groups_size == 0 && self->norms_size == 0)
__CPROVER_assigns(self->groups_size, self->norms_size)
//@end
OTok* nondet_otok(void); VTok* nondet_vtok(void); void* nondet_ptr(void);
static void init(ClipperOffset* co, OTok* stale_tree, VTok* stale_sol) { co->solution = stale_sol; co->solution_tree = stale_tree; co->deltaCallback64_ = nondet_ptr(); g_nnew = g_ndel = g_nexec = 0; g_live = false; }
void h_paths(void)
{
  ClipperOffset co; OTok old_tree; VTok old_sol, out; double d; bool a = nondet_bool(), b = nondet_bool();
  init(&co, a ? &old_tree : NULL, b ? &old_sol : NULL); out.size = nondet_size(); out.tok = 5;
  void* cb0 = co.deltaCallback64_;
  Execute_paths(&co, d, &out);
  __CPROVER_assert(g_nexec == 1 && (g_delta == d || d != d), "offsetting runs once with the given delta");
  __CPROVER_assert(g_sol_at_exec == &out && g_solsize_at_exec == 0, "the caller's vector, emptied, is the solution target");
  __CPROVER_assert(g_tree_at_exec == NULL, "no tree target left over from an earlier run");
  __CPROVER_assert(g_nnew == 0 && g_ndel == 0 && co.deltaCallback64_ == cb0, "nothing allocated; the callback option is untouched");
  VF_CANARY();
}
void h_tree(void)
{
  ClipperOffset co; OTok old_tree, tree; VTok old_sol; double d; bool a = nondet_bool(), b = nondet_bool();
  init(&co, a ? &old_tree : NULL, b ? &old_sol : NULL); tree.nclear = 0; tree.tok = 6;
  Execute_tree(&co, d, &tree);
  __CPROVER_assert(g_nexec == 1 && (g_delta == d || d != d), "offsetting runs once with the given delta");
  __CPROVER_assert(tree.nclear == 1 && g_tree_at_exec == &tree, "the tree is cleared and is the tree target");
  __CPROVER_assert(g_sol_at_exec == &g_pool && g_sol_live_at_exec && g_solsize_at_exec == 0 && g_nnew == 1, "the raw solution goes to one fresh, empty, live temporary");
  __CPROVER_assert(g_ndel == 1 && !g_live, "which is released exactly once");
  __CPROVER_assert(co.solution == NULL, "and the object keeps no pointer to it");
  VF_CANARY();
}
void h_cb(void)
{
  ClipperOffset co; VTok out; void* cb = nondet_ptr(); bool a = nondet_bool(); OTok old_tree;
  init(&co, a ? &old_tree : NULL, NULL); out.size = nondet_size();
  Execute_cb(&co, cb, &out);
  __CPROVER_assert(co.deltaCallback64_ == cb, "the callback is installed");
  __CPROVER_assert(g_nexec == 1 && g_delta == 1.0 && g_sol_at_exec == &out && g_solsize_at_exec == 0 && g_tree_at_exec == NULL, "and the paths overload runs with delta 1.0");
  VF_CANARY();
}
void h_Clear(void) { ClipperOffset* s; Clear(s); VF_CANARY(); }
//@run name=Execute.paths entry=h_paths flags="--bounds-check --pointer-check" timeout=120
//@run name=Execute.tree entry=h_tree flags="--bounds-check --pointer-check" timeout=120
//@run name=Execute.callback entry=h_cb flags="--bounds-check --pointer-check" timeout=120
//@run name=Clear entry=h_Clear enforce=Clear flags="--bounds-check --pointer-check" timeout=120
//@assume A5 (C12_offsetapi): ExecuteInternal is a recording stub (its own contract: C06_offset_exec, whose precondition "solution is a fresh target" is what is established here); Paths64/PolyTree64 are tokens with a size / clear counter; new/delete of the temporary solution are a one-object pool with double-release detection.
