//@unit C16_init
//@props C16
//@safetyprops C10 C14
//@desc Point<T>::Init, the single place where the double API turns into integers (both build configurations): for T = int64_t and a double argument each coordinate is rounded to a NEAREST integer (|r - v| <= 0.5; how ties go is not part of the property), x from x_, y from y_ (never truncated, never swapped), and nothing overflows for |v| <= 2^62; for T = double and an int64_t argument the conversion is the plain cast; with USINGZ z is copied unchanged. The `if constexpr` on type traits is resolved per instantiation by three macros (logged rewrite).
#include "vf.h"
#ifdef TO_INT
typedef int64_t TT; typedef double T2;
#define VF_T_INTEGRAL 1
#define VF_T2_ROUNDABLE 1
#define VF_T2_INTEGRAL 0
#else
typedef double TT; typedef int64_t T2;
#define VF_T_INTEGRAL 0
#define VF_T2_ROUNDABLE 1
#define VF_T2_INTEGRAL 1
#endif
typedef TT T;
/* r is an integer nearest to v (the property says "rounded to nearest"; it does not fix how ties go, so neither does this); (double)r - v is exact: r is an integer-valued double next to v */
#define ROUND_OK(r, v) ((double)(r) - (v) <= 0.5 && (double)(r) - (v) >= -0.5)
#ifdef USINGZ
typedef struct { TT x, y; int64_t z; } PointT;
#else
typedef struct { TT x, y; } PointT;
#endif
typedef int64_t z_type;
//@extract file=CPP/Clipper2Lib/include/clipper2/clipper.core.h func=Init scope=Point self=PointT members=x,y,z nth=1 ifndef=USINGZ
//@presub /if constexpr \(std::is_integral_v<T> &&\s*is_round_invocable<T2>::value && !std::is_integral_v<T2>\)/if (VF_T_INTEGRAL && VF_T2_ROUNDABLE && !VF_T2_INTEGRAL)/
//@presub /\b([xyz])_\b/in_\1/ min=4
//@include C16_init_contract.inc
//@end
//@extract file=CPP/Clipper2Lib/include/clipper2/clipper.core.h func=Init scope=Point self=PointT members=x,y,z nth=0 ifdef=USINGZ
//@presub /if constexpr \(std::is_integral_v<T> &&\s*is_round_invocable<T2>::value && !std::is_integral_v<T2>\)/if (VF_T_INTEGRAL && VF_T2_ROUNDABLE && !VF_T2_INTEGRAL)/
//@presub /\b([xyz])_\b/in_\1/ min=4
//@include C16_init_contract.inc
__CPROVER_ensures(self->z == in_z)
//@end
void h_Init(void) { PointT* p; T2 a, b;
#ifdef USINGZ
  int64_t z; Init(p, a, b, z);
#else
  Init(p, a, b);
#endif
  VF_CANARY(); }
//@run name=Init.i64.from.double entry=h_Init enforce=Init defs=TO_INT flags=SAFETY timeout=300
//@run name=Init.double.from.i64 entry=h_Init enforce=Init defs=TO_DBL flags=SAFETY timeout=300
//@run name=Init.i64.from.double.Z entry=h_Init enforce=Init defs=TO_INT,USINGZ flags=SAFETY timeout=300
//@run name=Init.double.from.i64.Z entry=h_Init enforce=Init defs=TO_DBL,USINGZ flags=SAFETY timeout=300
