//@unit C08_add
//@props C08 C09
//@safetyprops C10 C14
//@desc RectClip64::Add - how clipped vertices are strung into result rings (loop-free; results_ of 0..2 rings, the current ring of 1..3 vertices): the first vertex, or one added with start_new, opens a NEW ring of its own (a one-vertex ring, appended to results_); any other vertex goes into the CURRENT (last) ring right after its latest vertex and becomes the ring's latest vertex - unless it equals that latest vertex, in which case nothing is added (no equal neighbours); links stay consistent and earlier rings are untouched.
#include "vf.h"
//@include rect_types.inc
typedef struct OutPt2 OutPt2;
struct OutPt2 { Point64 pt; size_t owner_idx; void* edge; OutPt2* next; OutPt2* prev; };
typedef struct { OutPt2** data; size_t size; size_t cap; } OpList;
typedef struct { OpList results_; int dummy_container; } RectClipS;
unsigned nondet_uint(void); bool nondet_bool(void); int64_t nondet_i64(void);
OutPt2 g_newop; int g_nnew;
static OutPt2* vf_container_new(void) { __CPROVER_assert(g_nnew == 0, "one new vertex per call"); g_nnew++; g_newop.owner_idx = 0; g_newop.edge = NULL; g_newop.next = NULL; g_newop.prev = NULL; return &g_newop; }
static inline bool Point64_eq(Point64 a, Point64 b) { return a.x == b.x && a.y == b.y; }
//@extract file=CPP/Clipper2Lib/src/clipper.rectclip.cpp func=RectClip64::Add self=RectClipS vec=results_
//@sub /&self->op_container_\.emplace_back\(OutPt2\(\)\)/vf_container_new()/ min=2
//@sub /prevOp->pt == pt/Point64_eq(prevOp->pt, pt)/ min=0
//@end
OutPt2 g_r0[1], g_r1[3]; OutPt2* g_res[3];
void h_Add(void)
{
  RectClipS rc; unsigned nres = nondet_uint() % 3; unsigned m = 1 + nondet_uint() % 3;     /* nres rings so far; the last one has m vertices */
  g_r0[0].next = g_r0[0].prev = &g_r0[0];
  for (unsigned i = 0; i < 3; ++i) { g_r1[i].pt.x = nondet_i64(); g_r1[i].pt.y = nondet_i64(); g_r1[i].next = &g_r1[(i + 1) % m]; g_r1[i].prev = &g_r1[(i + m - 1) % m]; }
  unsigned latest = nondet_uint() % m;
  g_res[0] = nres == 2 ? &g_r0[0] : &g_r1[latest]; g_res[1] = &g_r1[latest]; rc.results_.data = g_res; rc.results_.size = nres; rc.results_.cap = 3;
  Point64 pt; pt.x = nondet_i64(); pt.y = nondet_i64(); bool start_new = nondet_bool(); g_nnew = 0;
  OutPt2* cur = nres ? g_res[nres - 1] : NULL; OutPt2* cur_next = cur ? cur->next : NULL;
  OutPt2* r = Add(&rc, pt, start_new);
  if (nres == 0 || start_new) {
    __CPROVER_assert(r == &g_newop && rc.results_.size == nres + 1 && g_res[nres] == r && r->next == r && r->prev == r && Point64_eq(r->pt, pt), "a new one-vertex ring is opened and appended to the results");
    if (cur) __CPROVER_assert(g_res[nres - 1] == cur && cur->next == cur_next, "earlier rings untouched");
  } else if (Point64_eq(cur->pt, pt)) {
    __CPROVER_assert(r == cur && g_nnew == 0 && rc.results_.size == nres && cur->next == cur_next, "a vertex equal to the ring's latest vertex is not added again");
  } else {
    __CPROVER_assert(r == &g_newop && rc.results_.size == nres && g_res[nres - 1] == r && Point64_eq(r->pt, pt) && r->owner_idx == nres - 1, "the vertex becomes the latest vertex of the current ring");
    __CPROVER_assert(cur->next == r && r->prev == cur && r->next == cur_next && cur_next->prev == r, "linked in right after the previous latest vertex, both ways");
  }
  if (nres == 2) __CPROVER_assert(g_res[0] == &g_r0[0] && g_r0[0].next == &g_r0[0], "the older ring is untouched");
  VF_CANARY();
}
//@run name=RectClip64.Add entry=h_Add unwind=5 flags="--bounds-check --pointer-check" solver=cadical timeout=120
//@assume A5 (C08_add): op_container_ (a deque whose elements never move) is a one-element pool; results_ is a fixed array of capacity 3.
