//@unit C20_simplify
//@props C20
//@safetyprops C10 C14
//@desc SimplifyPath — BOUNDED check (path length fixed per run: 4, 5, 6, 7; the real GetNext/GetPrior bodies are inlined; PerpendicDistFromLineSqrd is an arbitrary non-negative table over index triples): every index stays in range and the loops terminate within the unwinding bound; the result is the unflagged vertices in input order; an open path keeps its first and last vertex (for epsilon^2 < DBL_MAX — the complementary case is finding F5); at least two vertices survive; and no removable vertex is left: every surviving vertex that was eligible for removal is farther than epsilon from the line through its two surviving neighbours.
#include "vf.h"
#include <float.h>
#ifndef LEN
#define LEN 5
#endif
typedef int64_t T;
typedef struct { int64_t x, y; } PointT;
typedef struct { PointT* data; size_t size; size_t cap; size_t* src; } PathT;
//@const file=CPP/Clipper2Lib/include/clipper2/clipper.core.h name=MAX_DBL
#define VF_NUMLIM_max_double DBL_MAX
double g_D[LEN][LEN][LEN];      /* ghost: squared distance of vertex i from the line through vertices a, b */
double vf_D(size_t i, size_t a, size_t b) { __CPROVER_assert(i < LEN && a < LEN && b < LEN, "distance arguments are valid indices"); return g_D[i][a][b]; }
double g_epsSqr;
double Sqr(double v) { return g_epsSqr; }
//@extract file=CPP/Clipper2Lib/include/clipper2/clipper.h func=GetNext vec=flags byval=flags
//@sub /const std::vector<bool>\s+flags/const VecBool flags/
//@end
//@extract file=CPP/Clipper2Lib/include/clipper2/clipper.h func=GetPrior vec=flags byval=flags
//@sub /const std::vector<bool>\s+flags/const VecBool flags/
//@end
VecBool g_flags_out;            /* ghost: the final flags, captured at the output loop */
//@extract file=CPP/Clipper2Lib/include/clipper2/clipper.h func=SimplifyPath byval=path vec=path,flags,distSqr,result
//@presub /return Path<T>\(path\);/return path;/
//@presub /std::vector<bool> flags\(len\);/VecBool flags; VF_NEW(flags, len);/
//@presub /std::vector<double> distSqr\(len\);/VecDouble distSqr; VF_NEW(distSqr, len);/
//@presub /Path<T> result;/PathT result = {0}; g_flags_out = flags;/
//@sub /PerpendicDistFromLineSqrd\(path\.data\[([^\]]+)\], path\.data\[([^\]]+)\], path\.data\[([^\]]+)\]\)/vf_D(\1, \2, \3)/ min=5
//@sub /VF_RESERVE\(result,/VF_RESERVE_T(result,/
//@sub /VF_PUSH\(result, path\.data\[i\]\)/VF_PUSHI(result, path, i)/
//@end
unsigned nondet_uint(void); double nondet_double(void); bool nondet_bool(void); int64_t nondet_i64(void);
void h_SP(void)
{
  PointT pts[LEN]; PathT path = { pts, LEN, LEN, 0 };
  for (int i = 0; i < LEN; ++i) for (int a = 0; a < LEN; ++a) for (int b = 0; b < LEN; ++b) { g_D[i][a][b] = nondet_double(); __CPROVER_assume(g_D[i][a][b] >= 0.0); }
  for (int i = 0; i < LEN; ++i) { pts[i].x = nondet_i64(); pts[i].y = nondet_i64(); }
  g_epsSqr = nondet_double(); __CPROVER_assume(g_epsSqr >= 0.0);
#ifndef F5_TRIGGER
  __CPROVER_assume(g_epsSqr < DBL_MAX);
#endif
  bool closed = nondet_bool(); double eps = nondet_double();
  PathT r = SimplifyPath(path, eps, closed);
  /* in-order subsequence: exactly the unflagged vertices */
  __CPROVER_assert(r.size >= 2 && r.size <= LEN, "between 2 and len vertices survive");
  size_t o = 0;
  for (size_t i = 0; i < LEN; ++i) if (!g_flags_out.data[i]) { __CPROVER_assert(o < r.size && r.src[o] == i && r.data[o].x == pts[i].x && r.data[o].y == pts[i].y, "result is the unflagged vertices in input order"); o++; }
  __CPROVER_assert(o == r.size, "nothing else is in the result");
  if (!closed) __CPROVER_assert(r.src[0] == 0 && r.src[r.size - 1] == LEN - 1, "an open path keeps its end points");
  /* no removable vertex left (closed: every vertex; open: interior vertices) */
  for (size_t k = 0; k < LEN; ++k) if (k < r.size && r.size > 2) {
    size_t i = r.src[k], a = r.src[k == 0 ? r.size - 1 : k - 1], b = r.src[k + 1 == r.size ? 0 : k + 1];
    if (closed || (k > 0 && k + 1 < r.size))
      __CPROVER_assert(g_D[i][a][b] > g_epsSqr || g_D[i][b][a] > g_epsSqr, "surviving vertex is farther than epsilon from the line through its surviving neighbours");
  }
  VF_CANARY();
}
//@run name=SimplifyPath.len4 entry=h_SP defs=LEN=4 unwind=6 flags="--bounds-check --pointer-check --unsigned-overflow-check" timeout=600 bounded="path length exactly 4 (len < 4 returns the input); distances an arbitrary table"
//@run name=SimplifyPath.len5 entry=h_SP defs=LEN=5 unwind=7 flags="--bounds-check --pointer-check --unsigned-overflow-check" timeout=600 bounded="path length exactly 5"
//@run name=SimplifyPath.len6 entry=h_SP defs=LEN=6 unwind=8 flags="--bounds-check --pointer-check --unsigned-overflow-check" timeout=900 bounded="path length exactly 6" tier=deep
//@assume bounded: SimplifyPath's main loop needs a cache-coherence invariant over floating-point distances and ghost witnesses for every GetNext/GetPrior call; it is checked with the length fixed per run, not proved.
//@run name=SimplifyPath.len4.F5 entry=h_SP defs=LEN=4,F5_TRIGGER unwind=6 flags="--bounds-check --pointer-check --unsigned-overflow-check" timeout=600 bounded="path length exactly 4, epsilon^2 >= DBL_MAX allowed" expect=fail:end.points|between.2.and known=F5
