//@unit C01_maxima
//@props C01 C05
//@safetyprops C10
//@desc ClipperBase::DoMaxima for closed paths - BOUNDED (AEL of N = 4 edges, e anywhere in it, any assignment of top vertices, no joined edges), with the real GetMaximaPair, SwapPositionsInAEL, DeleteFromAEL and the edge predicates. When the edge that shares e's top vertex (the first such edge to the right) is in the AEL: every edge lying between the two is intersected with e exactly once, in AEL order, AT e's top vertex, each time as e's immediate right neighbour; then - iff e is hot - the local maximum is closed with AddLocalMaxPoly(e, partner, e.top) while the two are neighbours; both edges are unlinked and freed exactly once; all other edges stay in the AEL in their order; and the edge returned to the caller's loop is the one that now stands where e stood, so no edge is skipped or visited twice. When the partner is not there (it is a horizontal still to be processed) nothing happens and the next edge is returned. Open-path end at e's top: a hot edge adds its end vertex to its own contour once, the contour forgets the edge (only that side), e alone is unlinked and freed (unless horizontal), the caller continues with the edge that followed e.
#include "vf.h"
//@include engine_types.inc
#ifndef N
#define N 4
#endif
Active g_e0, g_e1, g_e2, g_e3; Active* const g_p[4] = { &g_e0, &g_e1, &g_e2, &g_e3 };
static int eidx(const Active* e) { return e == &g_e0 ? 0 : e == &g_e1 ? 1 : e == &g_e2 ? 2 : e == &g_e3 ? 3 : -1; }
Vertex g_v[N]; LocalMinima g_lm; bool g_freed[N]; int g_seq; int g_ie_seq[N]; int g_ie_n[N]; int g_lmp_n, g_lmp_seq; Active* g_E; int g_nfree_other;
#define VF_DELETE_E(pe) do { int q_ = eidx(pe); if (q_ >= 0) { __CPROVER_assert(!g_freed[q_], "no double delete"); g_freed[q_] = true; } else g_nfree_other++; } while (0)
static void IntersectEdges__p(ClipperBase* self, Active* e1, Active* e2, Point64 pt)
{ int b = eidx(e2); __CPROVER_assert(e1 == g_E && b >= 0 && e1->next_in_ael == e2 && e2->prev_in_ael == e1, "e is intersected with its immediate right neighbour"); __CPROVER_assert(pt.x == g_E->top.x && pt.y == g_E->top.y, "at e's top vertex"); g_ie_n[b]++; g_ie_seq[b] = g_seq++; }
#define IntersectEdges(s, a, b, p) IntersectEdges__p(s, &(a), &(b), p)
Active* g_lmp_e2;
static OutPt* AddLocalMaxPoly__p(ClipperBase* self, Active* e1, Active* e2, Point64 pt)
{ __CPROVER_assert(e1 == g_E && e1->next_in_ael == e2, "the maximum is closed between e and its right neighbour"); __CPROVER_assert(pt.x == g_E->top.x && pt.y == g_E->top.y, "at e's top vertex"); g_lmp_n++; g_lmp_seq = g_seq++; g_lmp_e2 = e2; return NULL; }
#define AddLocalMaxPoly(s, a, b, p) AddLocalMaxPoly__p(s, &(a), &(b), p)
int g_aop_n;
#ifdef OPENEND
static OutPt* AddOutPt__p(ClipperBase* self, const Active* e, Point64 pt) { __CPROVER_assert(e == g_E && e->outrec != NULL && pt.x == e->top.x && pt.y == e->top.y, "the end vertex of a hot open path is added to its own contour"); g_aop_n++; return NULL; }
#else
static OutPt* AddOutPt__p(ClipperBase* self, const Active* e, Point64 pt) { __CPROVER_assert(0, "closed paths: no open-end vertex is added"); return NULL; }
#endif
#define AddOutPt(s, e, p) AddOutPt__p(s, &(e), p)
static void Split__p(ClipperBase* self, Active* e, Point64 pt) { __CPROVER_assert(0, "no joined edges in this harness"); }
#define Split(s, e, p) Split__p(s, &(e), p)
//@assume A5 (C01_maxima): IntersectEdges and AddLocalMaxPoly are stubs that check the state they are called in (their own contracts: C15_intersect / C01_contrib, C01_ringops); closed paths without joined edges only (IsOpenEnd false, join_with == NoJoin).
//@extract file=CPP/Clipper2Lib/src/clipper.engine.cpp func=IsHotEdge byptr=e refmacro=1
//@end
//@extract file=CPP/Clipper2Lib/src/clipper.engine.cpp func=IsHorizontal sig="const Active& e" byptr=e refmacro=1
//@end
//@extract file=CPP/Clipper2Lib/src/clipper.engine.cpp func=IsJoined byptr=e refmacro=1
//@end
//@extract file=CPP/Clipper2Lib/src/clipper.engine.cpp func=IsOpen sig="const Active& e" byptr=e refmacro=1
//@end
//@extract file=CPP/Clipper2Lib/src/clipper.engine.cpp func=IsOpenEnd sig="const Vertex& v" as=IsOpenEndV byptr=v
//@end
//@extract file=CPP/Clipper2Lib/src/clipper.engine.cpp func=IsOpenEnd sig="const Active& ae" byptr=ae refmacro=1
//@sub /IsOpenEnd\(\*ae->vertex_top\)/IsOpenEndV(ae->vertex_top)/
//@end
//@extract file=CPP/Clipper2Lib/src/clipper.engine.cpp func=IsFront byptr=e refmacro=1
//@end
//@extract file=CPP/Clipper2Lib/src/clipper.engine.cpp func=GetMaximaPair byptr=e refmacro=1
//@end
//@extract file=CPP/Clipper2Lib/src/clipper.engine.cpp func=ClipperBase::DeleteFromAEL as=DeleteFromAEL__r self=ClipperBase byptr=e
//@sub /delete\s*&\s*\(\*e\);/VF_DELETE_E(e);/
//@end
#define DeleteFromAEL(s, e) DeleteFromAEL__r(s, &(e))
//@extract file=CPP/Clipper2Lib/src/clipper.engine.cpp func=ClipperBase::SwapPositionsInAEL as=SwapPositionsInAEL__r self=ClipperBase byptr=e1,e2
//@end
#define SwapPositionsInAEL(s, a, b) SwapPositionsInAEL__r(s, &(a), &(b))
//@extract file=CPP/Clipper2Lib/src/clipper.engine.cpp func=ClipperBase::DoMaxima as=DoMaxima__r self=ClipperBase byptr=e selfcalls=AddOutPt,DeleteFromAEL,Split,IntersectEdges,SwapPositionsInAEL,AddLocalMaxPoly
//@end
unsigned nondet_uint(void); int64_t nondet_i64(void); bool nondet_bool(void);
OutRec g_or;
void h_DM(void)
{
  ClipperBase cb; unsigned vid[N];
  g_lm.is_open = false;
  for (int i = 0; i < N; ++i) {
    g_p[i]->prev_in_ael = i ? g_p[i - 1] : NULL; g_p[i]->next_in_ael = (i + 1 < N) ? g_p[i + 1] : NULL; g_p[i]->join_with = JoinWith_NoJoin;
    vid[i] = nondet_uint() % N; g_p[i]->vertex_top = &g_v[vid[i]]; g_p[i]->local_min = &g_lm; g_p[i]->outrec = nondet_bool() ? &g_or : NULL;
    g_p[i]->top.x = nondet_i64(); g_p[i]->top.y = nondet_i64(); g_p[i]->bot.x = nondet_i64(); g_p[i]->bot.y = nondet_i64();
    g_v[i].flags = VertexFlags_Empty; g_freed[i] = false; g_ie_n[i] = 0; g_ie_seq[i] = -1;
  }
  cb.actives_ = &g_e0; g_seq = 0; g_lmp_n = 0; g_nfree_other = 0;
  unsigned k = nondet_uint() % N; g_E = g_p[k]; bool hot = g_E->outrec != NULL;
  int m = -1; for (int i = N - 1; i > (int)k; --i) if (vid[i] == vid[k]) m = i;     /* the first edge to the right with the same top vertex */
  Active* ret = DoMaxima__r(&cb, g_E);
  if (m < 0) {
    __CPROVER_assert(ret == (k + 1 < N ? g_p[k + 1] : NULL) && g_seq == 0 && g_nfree_other == 0, "partner not in the AEL: nothing happens, the next edge is returned");
    for (int i = 0; i < N; ++i) __CPROVER_assert(!g_freed[i] && g_p[i]->prev_in_ael == (i ? g_p[i - 1] : NULL) && g_p[i]->next_in_ael == ((i + 1 < N) ? g_p[i + 1] : NULL), "the AEL is unchanged");
  } else {
    for (int i = 0; i < N; ++i) {
      bool between = i > (int)k && i < m;
      __CPROVER_assert(g_ie_n[i] == (between ? 1 : 0), "exactly the edges between the pair are intersected with e, once each");
      if (between) __CPROVER_assert(g_ie_seq[i] == i - (int)k - 1, "in AEL order");
      __CPROVER_assert(g_freed[i] == (i == (int)k || i == m), "exactly the two edges of the maximum are freed, once each");
    }
    __CPROVER_assert(g_lmp_n == (hot ? 1 : 0) && (!hot || (g_lmp_e2 == g_p[m] && g_lmp_seq == m - (int)k - 1)), "a hot maximum is closed once, with its partner, after all intersections");
    __CPROVER_assert(g_nfree_other == 0, "nothing else is freed");
    /* the rest of the AEL keeps its order */
    Active* p = cb.actives_; Active* prev = NULL;
    for (int i = 0; i < N; ++i) if (i != (int)k && i != m) { __CPROVER_assert(p == g_p[i] && p->prev_in_ael == prev, "the other edges stay in the AEL in their order, links consistent"); prev = p; p = p->next_in_ael; }
    __CPROVER_assert(p == NULL, "and the AEL ends after them");
    /* the edge that now stands where e stood */
    Active* want = NULL; for (int i = N - 1; i > (int)k; --i) if (i != m) want = g_p[i];
    __CPROVER_assert(ret == want, "the caller continues with the first edge that was to the right of e and is still in the AEL");
  }
  VF_CANARY();
}
#ifdef OPENEND
/* an open path ends at e's top vertex */
void h_DMO(void)
{
  ClipperBase cb; g_lm.is_open = true;
  for (int i = 0; i < N; ++i) {
    g_p[i]->prev_in_ael = i ? g_p[i - 1] : NULL; g_p[i]->next_in_ael = (i + 1 < N) ? g_p[i + 1] : NULL; g_p[i]->join_with = JoinWith_NoJoin;
    g_p[i]->vertex_top = &g_v[i]; g_p[i]->local_min = &g_lm; g_p[i]->outrec = NULL;
    g_p[i]->top.x = nondet_i64(); g_p[i]->top.y = nondet_i64(); g_p[i]->bot.x = nondet_i64(); g_p[i]->bot.y = nondet_i64();
    g_v[i].flags = VertexFlags_Empty; g_freed[i] = false;
  }
  cb.actives_ = &g_e0; g_seq = 0; g_lmp_n = 0; g_nfree_other = 0; g_aop_n = 0;
  unsigned k = nondet_uint() % N; g_E = g_p[k]; g_v[k].flags = nondet_bool() ? VertexFlags_OpenEnd : VertexFlags_OpenStart;
  bool hot = nondet_bool(), front = nondet_bool(); Active other;
  if (hot) { g_E->outrec = &g_or; g_or.front_edge = front ? g_E : &other; g_or.back_edge = front ? &other : g_E; }
  bool horz = g_E->top.y == g_E->bot.y;
  Active* ret = DoMaxima__r(&cb, g_E);
  __CPROVER_assert(ret == (k + 1 < N ? g_p[k + 1] : NULL), "the caller continues with the edge that followed e");
  __CPROVER_assert(g_aop_n == (hot ? 1 : 0) && g_seq == 0 && g_lmp_n == 0, "a hot open end adds its end vertex once; nothing is intersected or closed");
  for (int i = 0; i < N; ++i) __CPROVER_assert(g_freed[i] == (i == (int)k && !horz), "only e is removed and freed - unless it is horizontal (then DoHorizontal finishes it)");
  if (hot && !horz) __CPROVER_assert((front ? g_or.front_edge : g_or.back_edge) == NULL && (front ? g_or.back_edge : g_or.front_edge) == &other, "the contour forgets the edge that ended, and only that side");
  if (!horz) { Active* p = cb.actives_; Active* prev = NULL; for (int i = 0; i < N; ++i) if (i != (int)k) { __CPROVER_assert(p == g_p[i] && p->prev_in_ael == prev, "the other edges stay in the AEL in their order"); prev = p; p = p->next_in_ael; } __CPROVER_assert(p == NULL, "and the AEL ends after them"); }
  VF_CANARY();
}
#endif
//@run name=DoMaxima.openend.ael4 entry=h_DMO defs=N=4,OPENEND unwind=6 flags="--bounds-check --pointer-check" timeout=600 bounded="AEL of 4 edges, e is the end of an open path (hot or not, front or back side, horizontal or not)"
//@run name=DoMaxima.closed.ael4 entry=h_DM defs=N=4 unwind=6 flags="--bounds-check --pointer-check" timeout=600 bounded="AEL of 4 edges, closed paths, no joined edges, every position of e and every assignment of top vertices"
