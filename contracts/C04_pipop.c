//@unit C04_pipop
//@props C04
//@safetyprops C10
//@desc PointInOpPolygon (the point-in-ring test behind Path1InsidePath2, i.e. behind every parent/child decision of the polytree) - BOUNDED check against the exact even-odd / on-boundary definition: OutPt rings of exactly N vertices (3 and 4), every start vertex, all coordinates symbolic in [-G, G] around the query point; CrossProductSign is the exact integer cross product (its own exactness: C18_cps_i128). A ring that lies in one horizontal line, or has fewer than 3 vertices, is "outside".
#include "vf.h"
//@include engine_types.inc
#ifndef N
#define N 3
#endif
#ifndef G
#define G 4
#endif
//@enum file=CPP/Clipper2Lib/include/clipper2/clipper.core.h name=PointInPolygonResult
#define D16(e) ((int16_t)(e))
#define CROSS(a, b, c) ((int32_t)D16((b).x - (a).x) * D16((c).y - (b).y) - (int32_t)D16((b).y - (a).y) * D16((c).x - (b).x))
#define BETWEEN(v, a, b) (((a) <= (v) && (v) <= (b)) || ((b) <= (v) && (v) <= (a)))
static int CrossProductSign(Point64 a, Point64 b, Point64 c) { int32_t v = CROSS(a, b, c); return v > 0 ? 1 : v < 0 ? -1 : 0; }
//@assume A3' (C04_pipop): CrossProductSign is replaced by the exact integer cross product on 16-bit differences (exact for |coordinates| <= G; the real function's exactness is C18_cps_i128's subject).
//@extract file=CPP/Clipper2Lib/src/clipper.engine.cpp func=PointInOpPolygon byval=pt
//@end
OutPt g_o0, g_o1, g_o2, g_o3, g_o4; OutPt* const g_op[5] = { &g_o0, &g_o1, &g_o2, &g_o3, &g_o4 };
int64_t nondet_i64(void); unsigned nondet_uint(void);
void h_PIOP(void)
{
  Point64 pt; pt.x = 0; pt.y = 0;
  for (int i = 0; i < N; ++i) { g_op[i]->pt.x = nondet_i64(); g_op[i]->pt.y = nondet_i64(); __CPROVER_assume(g_op[i]->pt.x >= -G && g_op[i]->pt.x <= G && g_op[i]->pt.y >= -G && g_op[i]->pt.y <= G);
    g_op[i]->next = g_op[(i + 1) % N]; g_op[i]->prev = g_op[(i + N - 1) % N]; }
  bool flat = true; for (int i = 0; i < N; ++i) if (g_op[i]->pt.y != pt.y) flat = false;
  bool on = false; int crossings = 0;
  for (int i = 0; i < N; ++i) {
    Point64 a = g_op[i]->pt, b = g_op[(i + 1) % N]->pt;
    if (CROSS(a, b, pt) == 0 && BETWEEN(pt.x, a.x, b.x) && BETWEEN(pt.y, a.y, b.y)) on = true;
    if ((a.y > pt.y) != (b.y > pt.y)) {
      int32_t lhs = (int32_t)D16(pt.x - a.x) * D16(b.y - a.y), rhs = (int32_t)D16(pt.y - a.y) * D16(b.x - a.x);
      if ((b.y > a.y) ? (rhs < lhs) : (rhs > lhs)) crossings++;
    }
  }
  PointInPolygonResult want = flat ? PointInPolygonResult_IsOutside : on ? PointInPolygonResult_IsOn : ((crossings & 1) ? PointInPolygonResult_IsInside : PointInPolygonResult_IsOutside);
  unsigned s = nondet_uint() % N;
  PointInPolygonResult got = PointInOpPolygon(pt, g_op[s]);
  __CPROVER_assert(got == want, "PointInOpPolygon == exact on / inside / outside by the even-odd rule, whatever vertex the ring is entered at");
  VF_CANARY();
}
//@run name=PointInOpPolygon.n3 entry=h_PIOP defs=N=3,G=4 unwind=6 flags="--bounds-check --pointer-check --signed-overflow-check" timeout=600 bounded="rings of 3 vertices, coordinates symbolic in [-4, 4] relative to the query point, every entry vertex"
//@run name=PointInOpPolygon.n4 entry=h_PIOP defs=N=4,G=3 unwind=7 flags="--bounds-check --pointer-check --signed-overflow-check" timeout=900 bounded="rings of 4 vertices (self-intersecting ones included), coordinates in [-3, 3], every entry vertex"
