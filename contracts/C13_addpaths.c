//@unit C13_addpaths
//@props C13 C05
//@safetyprops C10 C14
//@desc AddPaths_ / AddLocMin — BOUNDED (one path of exactly N points per run, N = 3..6; coordinates fully symbolic, so repeated points, a closing duplicate, plateaus and every start vertex are covered): every write stays inside the vertex array sized from the path lengths, the kept vertices form a ring with mutually inverse next/prev, and (closed paths) the LocalMin / LocalMax flags are exactly the cyclic local extrema of the path with duplicates removed — a characterisation that does not mention the start vertex — with one local-minimum record per LocalMin vertex; (open paths) the first and last kept vertex carry OpenStart / OpenEnd.
#include "vf.h"
//@include engine_types.inc
#ifndef N
#define N 4
#endif
static inline bool Point64_eq(Point64 a, Point64 b) { return a.x == b.x && a.y == b.y; }
typedef struct { Vertex* vertex; PathType polytype; bool is_open; } LMRec;
typedef struct { LMRec data[N + 1]; size_t size; } LocalMinimaList;
typedef struct { Vertex* data[2]; size_t size; } VertexLists;
typedef struct { Path64* data; size_t size; } Paths64;
//@extract file=CPP/Clipper2Lib/src/clipper.engine.cpp func=AddLocMin sig="LocalMinimaList& list" byptr=list,vert refmacro=1
//@sub /list->emplace_back\(std::make_unique\s*<LocalMinima>\(&\(\*vert\), polytype, is_open\)\);/{ __CPROVER_assert(list->size < N + 1, "local minima list capacity"); list->data[list->size].vertex = vert; list->data[list->size].polytype = polytype; list->data[list->size].is_open = is_open; list->size++; }/
//@end
size_t g_total;
//@extract file=CPP/Clipper2Lib/src/clipper.engine.cpp func=AddPaths_ byval=paths byptr=vertexLists,locMinList rangefor=1 vec=paths
//@presub /std::vector<Vertex\*>& vertexLists/VertexLists& vertexLists/
//@prepysub accumulate_sizes
//@sub /const __auto_type total_vertex_count =/const size_t total_vertex_count =/
//@sub /Vertex\* vertices = new Vertex\[total_vertex_count\], \* v = vertices;/Vertex* vertices = malloc(total_vertex_count * sizeof(Vertex)); Vertex* v = vertices; g_total = total_vertex_count;/
//@sub /prev_v->pt == \(paths\.data\[vf_i_path\]\.data\[vf_i_pt\]\)/Point64_eq(prev_v->pt, (paths.data[vf_i_path].data[vf_i_pt]))/ min=0
//@sub /prev_v->pt == ([\w>()\[\].-]+?)\)/Point64_eq(prev_v->pt, \1))/ min=1
//@sub /\(paths\.data\[vf_i_path\]\)\.empty\(\)/((paths.data[vf_i_path]).size == 0)/
//@sub /AddLocMin\(\(\*locMinList\) ?, /AddLocMin__p(locMinList, &/ min=4
//@sub /vertexLists->emplace_back\(vertices\);/vertexLists->data[vertexLists->size++] = vertices;/
//@end
int64_t nondet_i64(void); bool nondet_bool(void); unsigned nondet_uint(void);
void h_AP(void)
{
  Point64 pts[N]; Path64 path = { pts, N }; Paths64 paths = { &path, 1 };
  for (int i = 0; i < N; ++i) { pts[i].x = nondet_i64(); pts[i].y = nondet_i64(); }
  bool is_open = nondet_bool(); PathType pt = (PathType)nondet_uint(); __CPROVER_assume(ENUM_OK(pt, PathType_Clip));
  LocalMinimaList lml; lml.size = 0; VertexLists vl; vl.size = 0;
  AddPaths_(paths, pt, is_open, &vl, &lml);
  __CPROVER_assert(vl.size == 1 && g_total == N, "one vertex array, sized by the total number of points");
  Vertex* V = vl.data[0];
  /* which input points were kept (consecutive duplicates skipped), and how many */
  bool keep[N]; int m = 0; int last = -1;
  for (int i = 0; i < N; ++i) { keep[i] = (last < 0) || !Point64_eq(pts[last], pts[i]); if (keep[i]) { last = i; m++; } }
  /* kept point number k lives in V[k] */
  int k = 0;
  for (int i = 0; i < N; ++i) if (keep[i]) { __CPROVER_assert(Point64_eq(V[k].pt, pts[i]), "vertex k holds the k-th kept point"); k++; }
  int ring = m; if (!is_open && m >= 2 && Point64_eq(V[m - 1].pt, V[0].pt)) ring = m - 1;     /* closing duplicate dropped from the ring */
  if (m >= 2) {
    for (int i = 0; i < N; ++i) if (i < ring) {
      __CPROVER_assert(V[i].next == &V[(i + 1) % ring] && V[i].prev == &V[(i + ring - 1) % ring], "ring links follow the path and are mutually inverse");
    }
  }
  bool flat = true; for (int i = 1; i < N; ++i) if (i < ring && V[i].pt.y != V[0].pt.y) flat = false;
  bool processed = is_open ? (m >= 2) : (m >= 3 && !flat);
  if (!processed) __CPROVER_assert(lml.size == 0, "degenerate paths leave no local minima");
  if (processed && !is_open) {
    size_t nmin = 0;
    for (int i = 0; i < N; ++i) if (i < ring) {
      /* nearest ring neighbours with a different y, cyclically (exist because the ring is not flat) */
      int64_t y = V[i].pt.y, py = y, ny = y;
      for (int d = 1; d < N; ++d) if (d < ring && py == y) py = V[(i + ring - d) % ring].pt.y;
      for (int d = 1; d < N; ++d) if (d < ring && ny == y) ny = V[(i + d) % ring].pt.y;
      bool last_of_plateau = V[(i + 1) % ring].pt.y != y;
      bool is_min = last_of_plateau && py < y && ny < y;      /* Y axis points down: a local minimum is the bottom of a bound */
      bool is_max = last_of_plateau && py > y && ny > y;
      __CPROVER_assert(((V[i].flags & VertexFlags_LocalMin) != 0) == is_min, "LocalMin flag == cyclic local minimum (last vertex of its plateau)");
      __CPROVER_assert(((V[i].flags & VertexFlags_LocalMax) != 0) == is_max, "LocalMax flag == cyclic local maximum (last vertex of its plateau)");
      __CPROVER_assert((V[i].flags & (VertexFlags_OpenStart | VertexFlags_OpenEnd)) == 0, "closed paths carry no open-end flags");
      if (is_min) nmin++;
    }
    __CPROVER_assert(lml.size == nmin, "one local-minimum record per LocalMin vertex");
    for (int j = 0; j < N + 1; ++j) if ((size_t)j < lml.size)
      __CPROVER_assert((lml.data[j].vertex->flags & VertexFlags_LocalMin) != 0 && lml.data[j].polytype == pt && !lml.data[j].is_open, "every record points at a LocalMin vertex of this path type");
  }
  if (processed && is_open) {
    __CPROVER_assert((V[0].flags & VertexFlags_OpenStart) != 0 && (V[m - 1].flags & VertexFlags_OpenEnd) != 0, "open path: first / last kept vertex carry OpenStart / OpenEnd");
    for (int i = 1; i < N; ++i) if (i < m - 1) __CPROVER_assert((V[i].flags & (VertexFlags_OpenStart | VertexFlags_OpenEnd)) == 0, "no open-end flag in the interior");
    for (int j = 0; j < N + 1; ++j) if ((size_t)j < lml.size) __CPROVER_assert(lml.data[j].is_open && lml.data[j].polytype == pt, "records of an open path are marked open");
  }
  VF_CANARY();
}
//@run name=AddPaths_.n3 entry=h_AP defs=N=3 unwind=6 flags=SAFETY-unsigned timeout=600 bounded="one path of exactly 3 points, coordinates fully symbolic, open or closed"
//@run name=AddPaths_.n4 entry=h_AP defs=N=4 unwind=7 flags=SAFETY-unsigned timeout=900 bounded="one path of exactly 4 points"
//@run name=AddPaths_.n5 entry=h_AP defs=N=5 unwind=8 flags=SAFETY-unsigned timeout=900 bounded="one path of exactly 5 points" tier=deep
