//@unit C16_polypathd
//@props C16 C04
//@safetyprops C14
//@desc PolyPathD's constructor from an integer path (how every node of a PolyTreeD gets its polygon): the node inherits its parent's scale (1.0 for a node without parent) and its polygon is ScalePath<double, int64_t>(path, that scale) - the very path it was given, descaled once with the tree's scale (ClipperD sets the root's scale to invScale_, C16_clipperd); the parent link is the given parent. PolyPathD::Clear / PolyPath64::Clear remove the children and NOTHING else (frame checked): in particular a cleared PolyTreeD keeps the scale ClipperD gave it.
#include "vf.h"
typedef struct { long tok; } PathTok;
typedef struct PolyPathD PolyPathD;
struct PolyPathD { PolyPathD* parent_; double scale_; PathTok polygon_; };
typedef PathTok Path64; typedef PathTok PathD;
int g_sp_n; long g_sp_path; double g_sp_scale; long g_sp_ret;
PathTok vf_ScalePath(PathTok path, double scale, int* ec)
__CPROVER_ensures(g_sp_n == __CPROVER_old(g_sp_n) + 1 && g_sp_path == path.tok && g_sp_scale == scale && __CPROVER_return_value.tok == g_sp_ret)
__CPROVER_assigns(g_sp_n, g_sp_path, g_sp_scale, *ec);
//@extract file=CPP/Clipper2Lib/include/clipper2/clipper.engine.h func=PolyPathD scope=PolyPathD sig="const Path64. path" as=PolyPathD_construct self=PolyPathD ctor=1 byval=path
//@sub /ScalePath<double, int64_t>\(path, self->scale_, error_code\)/vf_ScalePath(path, self->scale_, &error_code)/
//@sub /PolyPath = parent;/self->parent_ = parent;/
__CPROVER_requires(__CPROVER_is_fresh(self, sizeof(*self)) && (parent == NULL || __CPROVER_is_fresh(parent, sizeof(*parent))) && g_sp_n == 0 && (parent != NULL ==> !__CPROVER_isnand(parent->scale_)))
//@expect file=CPP/Clipper2Lib/include/clipper2/clipper.engine.h /PolyPath\(PolyPath\* parent = nullptr\): parent_\(parent\)\{\}/
__CPROVER_ensures(self->scale_ == (parent ? parent->scale_ : 1.0) && self->parent_ == parent)
__CPROVER_ensures(g_sp_n == 1 && g_sp_path == path.tok && g_sp_scale == self->scale_ && self->polygon_.tok == g_sp_ret)
__CPROVER_assigns(*self, g_sp_n, g_sp_path, g_sp_scale)
//@end
/* ---------- PolyPathD::Clear / PolyPath64::Clear: only the children go ---------- */
typedef struct { size_t size; } ChildsObs;
typedef struct { void* parent_; double scale_; PathTok polygon_; ChildsObs childs_; } PolyPathDS;
typedef struct { void* parent_; PathTok polygon_; ChildsObs childs_; } PolyPath64S;
//@extract file=CPP/Clipper2Lib/include/clipper2/clipper.engine.h func=Clear scope=PolyPathD as=PolyPathD_Clear self=PolyPathDS
//@sub /self->childs_\.resize\(0\);/self->childs_.size = 0;/ min=0
//@sub /self->polygon_\.clear\(\);/self->polygon_.tok = 0;/ min=0
__CPROVER_requires(__CPROVER_is_fresh(self, sizeof(*self)))
__CPROVER_ensures(self->childs_.size == 0)
/* frame: the node keeps its scale (ClipperD::Execute sets it BEFORE BuildTreeD clears the tree again), its polygon and its parent */
__CPROVER_assigns(self->childs_)
//@end
//@extract file=CPP/Clipper2Lib/include/clipper2/clipper.engine.h func=Clear scope=PolyPath64 as=PolyPath64_Clear self=PolyPath64S
//@sub /self->childs_\.resize\(0\);/self->childs_.size = 0;/ min=0
//@sub /self->polygon_\.clear\(\);/self->polygon_.tok = 0;/ min=0
__CPROVER_requires(__CPROVER_is_fresh(self, sizeof(*self)))
__CPROVER_ensures(self->childs_.size == 0)
__CPROVER_assigns(self->childs_)
//@end
void h_ClearD(void) { PolyPathDS* s; PolyPathD_Clear(s); VF_CANARY(); }
void h_Clear64(void) { PolyPath64S* s; PolyPath64_Clear(s); VF_CANARY(); }
void h_PPD(void) { PolyPathD* s; PolyPathD* p; PathTok t; PolyPathD_construct(s, p, t); VF_CANARY(); }
//@run name=PolyPathD.ctor entry=h_PPD enforce=PolyPathD_construct replace=vf_ScalePath flags="--bounds-check --pointer-check" timeout=60
//@assume A5 (C16_polypathd): ScalePath is a logging stub (C16_scalepath covers the int64<-double direction; the double<-int64 instantiation multiplies by the scale in double); the base-class initialiser PolyPath(parent) is rewritten to parent_ = parent (its one-line definition is pinned by an expect fact).
//@run name=PolyPathD.Clear entry=h_ClearD enforce=PolyPathD_Clear flags="--bounds-check --pointer-check" timeout=60
//@run name=PolyPath64.Clear entry=h_Clear64 enforce=PolyPath64_Clear flags="--bounds-check --pointer-check" timeout=60
