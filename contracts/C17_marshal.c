//@unit C17_marshal
//@props C17
//@safetyprops C10 C14
//@desc Marshalling of paths into the flat C array: GetPathCountAndCPathsArrayLen and CreateCPathsFromPathsT<int64_t>. BOUNDED in the number of paths (at most 3; the loops over paths are unwound) and unbounded in the number of points per path (inner loops under loop contracts): element 0 is the array length and equals the number of elements written, element 1 the number of non-empty paths, every non-empty path is written as [size, 0, x, y, ...] at the offset the earlier paths determine, empty paths are skipped, and no write leaves the allocation.
#include "vf.h"
typedef int64_t T;
#ifdef USINGZ
typedef struct { int64_t x, y, z; } PointT;
#else
typedef struct { int64_t x, y; } PointT;
#endif
typedef int64_t z_type;
typedef struct { PointT* data; size_t size; } PathT;
typedef struct { PathT* data; size_t size; } PathsT;
//@const file=CPP/Clipper2Lib/include/clipper2/clipper.export.h name=EXPORT_VERTEX_DIMENSIONALITY
/* Reinterpret<T1>(T2): the real body (pointer-cast bit copy), at the two instantiations the 64-bit / D marshallers use */
#define DEF_REINTERPRET(NAME, T1, T2) static inline T1 NAME(T2 value) { return *(T1*)(&value); }
//@expect file=CPP/Clipper2Lib/include/clipper2/clipper.export.h /inline T1 Reinterpret\(T2 value\) \{\s*return \*reinterpret_cast<T1\*>\(&value\);\s*\}/
DEF_REINTERPRET(Reinterpret_i2i, int64_t, int64_t)
DEF_REINTERPRET(Reinterpret_d2z, int64_t, double)
DEF_REINTERPRET(Reinterpret_z2d, double, int64_t)
#define D_ ((size_t)EXPORT_VERTEX_DIMENSIONALITY)
#define SZ(i) (paths.data[i].size)
#define SEG(i) ((paths.size > (i) && SZ(i) > 0) ? SZ(i) * D_ + 2 : 0)
#define PREFIX(i) (((i) > 0 ? SEG(0) : 0) + ((i) > 1 ? SEG(1) : 0) + ((i) > 2 ? SEG(2) : 0))
#define LEN_SPEC (2 + PREFIX(3))
#define CNT_SPEC ((size_t)((paths.size > 0 && SZ(0) > 0) + (paths.size > 1 && SZ(1) > 0) + (paths.size > 2 && SZ(2) > 0)))
#define PATHS_OK (paths.size <= 3 && __CPROVER_is_fresh(paths.data, 3 * sizeof(PathT)) && \
   SZ(0) < ((size_t)1 << 30) && SZ(1) < ((size_t)1 << 30) && SZ(2) < ((size_t)1 << 30) && \
   __CPROVER_is_fresh(paths.data[0].data, SZ(0) * sizeof(PointT)) && __CPROVER_is_fresh(paths.data[1].data, SZ(1) * sizeof(PointT)) && __CPROVER_is_fresh(paths.data[2].data, SZ(2) * sizeof(PointT)))

//@extract file=CPP/Clipper2Lib/include/clipper2/clipper.export.h func=GetPathCountAndCPathsArrayLen byval=paths byptr=cnt,array_len rangefor=1 refmacro=1
//@sub /\)\.size\(\)/).size/ min=2
__CPROVER_requires(PATHS_OK && __CPROVER_is_fresh(cnt, sizeof(size_t)) && __CPROVER_is_fresh(array_len, sizeof(size_t)))
__CPROVER_ensures(*array_len == LEN_SPEC && *cnt == CNT_SPEC)
__CPROVER_assigns(*cnt, *array_len)
//@end
void h_Len(void) { PathsT p; size_t *c, *a; GetPathCountAndCPathsArrayLen__p(p, c, a); VF_CANARY(); }

/* ---- bounded check of CreateCPathsFromPathsT ---- */
#ifdef BOUNDED
/* R16: `new T[array_len]` becomes a fixed 64-element block; instead every write `*v++ = e` asserts that it lies inside the first array_len elements */
#define VF_MAXLEN 64
size_t g_len;
#define VF_WR(e) do { __CPROVER_assert((size_t)(v - result) < g_len, "write inside the stated array length"); *v++ = (e); } while (0)
//@extract file=CPP/Clipper2Lib/include/clipper2/clipper.export.h func=CreateCPathsFromPathsT byval=paths rangefor=1 vec=paths ifdef=BOUNDED
//@sub /T\* result = new T\[array_len\], \* v = result;/T* result = malloc(VF_MAXLEN * sizeof(T)); T* v = result; g_len = array_len;/
//@sub /\*\s*v\+\+ = ([^;]+);/VF_WR(\1);/ min=5
//@sub /\)\.size\(\)/).size/ min=2
//@sub /Reinterpret<T>\(/Reinterpret_i2i(/ min=0
//@end
/* reading side */
#define VF_RD() (__CPROVER_assert((size_t)(v - g_rd_base) < g_rd_len, "read inside the stated array length"), *v++)
T* g_rd_base; size_t g_rd_len;
typedef struct { PointT* data; size_t size; size_t cap; } OutPath;
typedef struct { OutPath* data; size_t size; size_t cap; } OutPaths;
//@extract file=CPP/Clipper2Lib/include/clipper2/clipper.export.h func=ConvertCPathsToPathsT ifdef=BOUNDED vec=result,path
//@presub /Paths<T> result;/OutPaths result = {0};/
//@presub /Path<T> path;/OutPath path = {0};/
//@presub /static Paths<T> ConvertCPathsToPathsT/static OutPaths ConvertCPathsToPathsT/
//@presub /T\* v = paths; \+\+v;/T* v = paths; g_rd_base = paths; g_rd_len = (size_t)paths[0]; ++v;/
//@presub /path\.emplace_back\(x, y, z\);/VF_PUSH(path, ((PointT){x, y, z}));/ min=0
//@presub /path\.emplace_back\(x, y\);/VF_PUSH(path, ((PointT){x, y}));/ min=0
//@presub /result\.emplace_back\(std::move\(path\)\);/VF_PUSH(result, path);/
//@sub /\(size_t\)\(\*v\+\+\)/(size_t)(VF_RD())/
//@sub /\(size_t\)\(\*v\)/(size_t)(v[0])/
//@sub /T x = \*v\+\+, y = \*v\+\+;/T x = VF_RD(); T y = VF_RD();/
//@sub /Reinterpret<z_type>\(\*v\+\+\)/Reinterpret_i2i(VF_RD())/ min=0
//@end
#define MAXP 3
#define MAXK 3
unsigned nondet_uint(void); int64_t nondet_i64(void);
#ifdef USINGZ
#define ZCMP && back.data[o].data[k].z == pts[i][k].z
#define ZSET pts[i][k].z = nondet_i64();
#else
#define ZCMP
#define ZSET
#endif
void h_CreateB(void)
{
  PathT pa[MAXP]; PointT pts[MAXP][MAXK]; PathsT paths;
  paths.size = nondet_uint(); __CPROVER_assume(paths.size <= MAXP); paths.data = pa;
  for (size_t i = 0; i < MAXP; ++i) { pa[i].size = nondet_uint(); __CPROVER_assume(pa[i].size <= MAXK); pa[i].data = pts[i];
    for (size_t k = 0; k < MAXK; ++k) { pts[i][k].x = nondet_i64(); pts[i][k].y = nondet_i64(); ZSET } }
  T* r = CreateCPathsFromPathsT(paths);
  /* oracle: walk the array as the documented layout says */
  size_t len = 2, cnt = 0;
  for (size_t i = 0; i < MAXP; ++i) if (i < paths.size && pa[i].size > 0) { len += pa[i].size * D_ + 2; cnt++; }
  __CPROVER_assert(r[0] == (T)len, "element 0 == array length == number of elements written");
  __CPROVER_assert(r[1] == (T)cnt, "element 1 == number of non-empty paths");
  __CPROVER_assert(g_len == len, "allocated length == array length");
  size_t off = 2;
  for (size_t i = 0; i < MAXP; ++i) if (i < paths.size && pa[i].size > 0) {
    __CPROVER_assert(r[off] == (T)pa[i].size && r[off + 1] == 0, "path header [size, 0]");
    for (size_t k = 0; k < MAXK; ++k) if (k < pa[i].size)
      __CPROVER_assert(r[off + 2 + k * D_] == pts[i][k].x && r[off + 2 + k * D_ + 1] == pts[i][k].y, "point k of path i at its offset");
    off += pa[i].size * D_ + 2;
  }
  /* reading side: converting the array back gives the non-empty paths, in order, point for point */
  OutPaths back = ConvertCPathsToPathsT(r);
  __CPROVER_assert(back.size == cnt, "round trip: number of paths == number of non-empty input paths");
  size_t o = 0;
  for (size_t i = 0; i < MAXP; ++i) if (i < paths.size && pa[i].size > 0) {
    __CPROVER_assert(back.data[o].size == pa[i].size, "round trip: path length");
    for (size_t k = 0; k < MAXK; ++k) if (k < pa[i].size)
      __CPROVER_assert(back.data[o].data[k].x == pts[i][k].x && back.data[o].data[k].y == pts[i][k].y ZCMP, "round trip: point");
    o++;
  }
  VF_CANARY();
}
#endif
//@run name=GetPathCountAndCPathsArrayLen entry=h_Len enforce=GetPathCountAndCPathsArrayLen__p unwind=5 flags=SAFETY timeout=300 bounded="at most 3 paths (points per path < 2^30, symbolic)"
//@run name=CreateConvert64.bounded entry=h_CreateB defs=BOUNDED unwind=5 flags=SAFETY timeout=600 bounded="at most 3 paths x at most 3 points, all sizes and coordinates symbolic"
//@run name=CreateConvert64.bounded.z entry=h_CreateB defs=BOUNDED,USINGZ unwind=5 flags=SAFETY timeout=600 bounded="at most 3 paths x at most 3 points, all sizes, coordinates and z symbolic (USINGZ layout)" props=C17,C15,C10,C14
//@assume bounded: a proof of CreateCPathsFromPathsT with inner loop contracts (points per path unbounded) was attempted and needs > 28 GB / > 5 min (symbolic-size allocation + whole-object havoc); the bounded run stands in.

/* ---- USINGZ: z travels through the double array as raw bits (ConvertCPathsDToPaths64) ---- */
#ifdef ZBITS
typedef struct { int64_t x, y, z; } PointZ;
typedef struct { PointZ* data; size_t size; size_t cap; } OutPathZ;
typedef struct { OutPathZ* data; size_t size; size_t cap; } OutPathsZ;
double* g_rdd_base; size_t g_rdd_len;
#define VF_RDD() (__CPROVER_assert((size_t)(v - g_rdd_base) < g_rdd_len, "read inside the stated array length"), *v++)
double g_prod[4]; int g_nprod; double g_prod_a[4], g_prod_s[4];
double vf_scaled(double v, double scale) { __CPROVER_assert(g_nprod < 4, "four products"); g_prod_a[g_nprod] = v; g_prod_s[g_nprod] = scale; return g_prod[g_nprod++]; }   /* x*scale, y*scale: the product is a ghost value (its rounding error is not decided) */
/* Point64(double, double[, z]) rounds to nearest (C16_init); Point64(int64, int64[, z]) copies */
static inline int64_t vf_nearest(double v) { return (int64_t)round(v); }
#define P64_FROM(v) _Generic((v), double: vf_nearest(v), default: (int64_t)(v))
//@extract file=CPP/Clipper2Lib/include/clipper2/clipper.export.h func=ConvertCPathsDToPaths64 ifdef=ZBITS cpp=USINGZ vec=result,path
//@presub /static Paths64 ConvertCPathsDToPaths64\(const CPathsD paths/static OutPathsZ ConvertCPathsDToPaths64(double* paths/
//@presub /Paths64 result;/OutPathsZ result = {0};/
//@presub /Path64 path;/OutPathZ path = {0};/
//@presub /double\* v = paths;/double* v = paths; g_rdd_base = paths; g_rdd_len = (size_t)paths[0];/
//@presub /\*v\+\+ \* scale/vf_scaled(VF_RDD(), scale)/ min=2
//@presub /path\.emplace_back\(x, y, z\);/VF_PUSH(path, ((PointZ){P64_FROM(x), P64_FROM(y), z}));/
//@presub /result\.emplace_back\(std::move\(path\)\);/VF_PUSH(result, path);/
//@sub /\(size_t\)\(\*v\+\+\)/(size_t)(VF_RDD())/
//@sub /\(size_t\)\(\*v\)/(size_t)(v[0])/
//@sub /Reinterpret<z_type>\(\*v\+\+\)/Reinterpret_d2z(VF_RDD())/ min=0
//@sub /\(z_type\)\(\*v\+\+\)/(z_type)(VF_RDD())/ min=0
//@end
int64_t nondet_i64(void); double nondet_double(void);
void h_ZBits(void)
{
  int64_t z0 = nondet_i64(), z1 = nondet_i64();
  /* one path of two vertices in the USINGZ layout: [len, count, size, 0, x, y, zbits, x, y, zbits] */
  double arr[10] = { 10.0, 1.0, 2.0, 0.0, nondet_double(), nondet_double(), Reinterpret_z2d(z0), nondet_double(), nondet_double(), Reinterpret_z2d(z1) };
  for (int i = 0; i < 4; ++i) { g_prod[i] = nondet_double(); __CPROVER_assume(g_prod[i] >= -0x1p52 && g_prod[i] <= 0x1p52); } g_nprod = 0; double sc = nondet_double();
  double x0 = arr[4], y0 = arr[5], x1 = arr[7], y1 = arr[8]; __CPROVER_assume(!__CPROVER_isnand(x0) && !__CPROVER_isnand(y0) && !__CPROVER_isnand(x1) && !__CPROVER_isnand(y1) && !__CPROVER_isnand(sc));
  OutPathsZ r = ConvertCPathsDToPaths64(arr, sc);
  __CPROVER_assert(r.size == 1 && r.data[0].size == 2, "one path of two vertices");
  __CPROVER_assert(r.data[0].data[0].z == z0 && r.data[0].data[1].z == z1, "z values are carried bit for bit");
  /* x and y: each coordinate times the scale (operands in array order), then ROUNDED to a nearest integer by the Point64(double, double) constructor - not truncated */
  __CPROVER_assert(g_nprod == 4 && g_prod_a[0] == x0 && g_prod_a[1] == y0 && g_prod_a[2] == x1 && g_prod_a[3] == y1 && g_prod_s[0] == sc && g_prod_s[1] == sc && g_prod_s[2] == sc && g_prod_s[3] == sc, "x, y of every vertex are multiplied by the scale, in array order");
#define NEAR(r_, v_) ((double)(r_) - (v_) <= 0.5 && (double)(r_) - (v_) >= -0.5)
  __CPROVER_assert(NEAR(r.data[0].data[0].x, g_prod[0]) && NEAR(r.data[0].data[0].y, g_prod[1]) && NEAR(r.data[0].data[1].x, g_prod[2]) && NEAR(r.data[0].data[1].y, g_prod[3]), "scaled coordinates are rounded to nearest");
  VF_CANARY();
}
#endif
//@run name=ConvertCPathsDToPaths64.zbits entry=h_ZBits defs=ZBITS,USINGZ unwind=6 flags="--bounds-check --pointer-check" timeout=300 bounded="one path of two vertices; all z values symbolic" props=C17,C15
