//@unit C20_stripnear
//@props C20
//@safetyprops C10 C14
//@desc StripNearEqual(Path64), unbounded in the path length (two loop contracts, push-trace ghost): its defining equations. A non-empty path gives a non-empty result that starts with the first vertex; the result is an in-order subsequence of the input; every kept vertex after the first was compared with the kept vertex before it and found not near-equal; every input vertex that falls strictly between two consecutive kept vertices was compared with the kept vertex before it and found near-equal; for a closed path the latest closing test was made on the final last vertex against the first and said not near-equal, unless only one vertex is left; an open path loses nothing from its end; an empty path gives an empty result. NearEqual answers arbitrarily (the tests involving one arbitrary observed vertex are put on record), so the facts hold for every distance threshold.
#include "vf.h"
typedef int64_t T;
typedef struct { int64_t x, y; } Point64; typedef Point64 PointT;
typedef struct { Point64* data; size_t size; size_t cap; size_t* src; } Path64; typedef Path64 PathT;
#define PT_EQ(a,b) ((a).x == (b).x && (a).y == (b).y)
size_t g_k, g_d;
Point64* g_buf_data; size_t* g_buf_src;
#define VF_RESERVE_B(v, n) do { (v).cap = (n); (v).size = 0; (v).data = g_buf_data; (v).src = g_buf_src; } while (0)
/* NearEqual answers arbitrarily; the tests that involve the observed input vertex g_d, and the last closing test, are put on record */
bool g_seen; size_t g_with; bool g_ret;          /* main pass: vertex g_d was compared with vertex g_with, answer g_ret */
bool g_cseen; size_t g_csrc; bool g_cret;        /* closing pass: the latest test compared result vertex (input index g_csrc) with the first vertex */
bool vf_near_idx(Path64 p, size_t i, size_t j, Point64 other, double m)
__CPROVER_requires(i < p.size && j < p.size && PT_EQ(other, p.data[j]))      /* the value compared with is vertex j (checks the index bookkeeping added by the rewrite) */
BOOL_RET
__CPROVER_ensures(i == g_d ==> (g_seen == true && g_with == j && g_ret == __CPROVER_return_value))
__CPROVER_assigns(i == g_d: g_seen, g_with, g_ret);
bool vf_near_close(Path64 r, Point64 first, double m)
__CPROVER_requires(r.size >= 1)
BOOL_RET
__CPROVER_ensures(g_cseen == true && g_csrc == r.src[r.size - 1] && g_cret == __CPROVER_return_value)
__CPROVER_assigns(g_cseen, g_csrc, g_cret);
//@assume A5 (C20_stripnear): NearEqual answers arbitrarily (its definition, squared distance below the threshold, is floating point and not decided); what is proved is which vertices are compared and what follows from each answer.
#define LEN_OK(n) ((n) < ((size_t)1 << 30))
//@extract file=CPP/Clipper2Lib/include/clipper2/clipper.core.h func=StripNearEqual sig="const Path<T>& path" byval=path iters=path:path_iter vec=path,result
//@presub /return Path<T>\(\);/return (PathT){0, 0, 0, 0};/
//@presub /Path<T> result;/PathT result = {0, 0, 0, 0};/
//@presub /Point<T> first_pt = \*path_iter\+\+, last_pt = first_pt;/size_t last_idx = 0; Point<T> first_pt = path[0], last_pt = first_pt; ++path_iter;/
//@presub /result\.emplace_back\(first_pt\);/VF_PUSHI(result, path, 0);/
//@presub /result\.emplace_back\(last_pt\);/__CPROVER_assert(PT_EQ(last_pt, path[path_iter]), "the vertex appended is the current input vertex"); last_idx = path_iter; VF_PUSHI(result, path, path_iter);/
//@sub /VF_RESERVE\(result,/VF_RESERVE_B(result,/
//@sub /NearEqual\(path\.data\[path_iter\], (\w+), max_dist_sqrd\)/vf_near_idx(path, path_iter, last_idx, \1, max_dist_sqrd)/
//@sub /NearEqual\([^;{]*?, first_pt, max_dist_sqrd\)/vf_near_close(result, first_pt, max_dist_sqrd)/
__CPROVER_requires(LEN_OK(path.size) && __CPROVER_is_fresh(path.data, path.size * sizeof(Point64)) && LEN_OK(g_k) && g_d < path.size && BOOL_OK(is_closed_path) && !g_seen && !g_cseen)
__CPROVER_requires(__CPROVER_is_fresh(g_buf_data, path.size * sizeof(Point64)) && __CPROVER_is_fresh(g_buf_src, path.size * sizeof(size_t)))
#define RES __CPROVER_return_value
__CPROVER_ensures(path.size == 0 ? RES.size == 0 : (RES.size >= 1 && RES.size <= path.size && RES.src[0] == 0 && PT_EQ(RES.data[0], path.data[0])))
/* in-order subsequence */
__CPROVER_ensures(g_k < RES.size ==> (RES.src[g_k] < path.size && PT_EQ(RES.data[g_k], path.data[RES.src[g_k]])))
__CPROVER_ensures(g_k + 1 < RES.size ==> RES.src[g_k] < RES.src[g_k + 1])
/* a kept vertex (other than the first) was compared with the kept vertex before it and found NOT near-equal */
__CPROVER_ensures((g_k + 1 < RES.size && RES.src[g_k + 1] == g_d) ==> (g_seen && !g_ret && g_with == RES.src[g_k]))
/* a vertex between two consecutive kept ones was compared with the kept one before it and found near-equal */
__CPROVER_ensures((g_k + 1 < RES.size && RES.src[g_k] < g_d && g_d < RES.src[g_k + 1]) ==> (g_seen && g_ret && g_with == RES.src[g_k]))
/* closed: the end does not run into the start - the latest closing test was on the final last vertex and said "not near" */
__CPROVER_ensures((is_closed_path && RES.size > 1) ==> (g_cseen && !g_cret && g_csrc == RES.src[RES.size - 1]))
/* open: nothing is removed from the end */
__CPROVER_ensures(!is_closed_path ==> !g_cseen)
__CPROVER_assigns(g_seen, g_with, g_ret, g_cseen, g_csrc, g_cret, __CPROVER_object_upto(g_buf_data, path.size * sizeof(Point64)), __CPROVER_object_upto(g_buf_src, path.size * sizeof(size_t)))
//@loop 1
__CPROVER_assigns(path_iter, last_pt, last_idx, result.size, g_seen, g_with, g_ret, __CPROVER_object_upto(result.data, path.size * sizeof(Point64)), __CPROVER_object_upto(result.src, path.size * sizeof(size_t)))
__CPROVER_loop_invariant(path_iter >= 1 && path_iter <= path.size && result.size >= 1 && result.size <= path_iter && result.cap == path.size && result.src[result.size - 1] < path_iter && last_idx == result.src[result.size - 1])
__CPROVER_loop_invariant(PT_EQ(last_pt, path.data[result.src[result.size - 1]]) && result.src[0] == 0 && PT_EQ(result.data[0], path.data[0]) && PT_EQ(first_pt, path.data[0]))
__CPROVER_loop_invariant(g_k < result.size ==> (result.src[g_k] < path_iter && PT_EQ(result.data[g_k], path.data[result.src[g_k]])))
__CPROVER_loop_invariant(g_k + 1 < result.size ==> result.src[g_k] < result.src[g_k + 1])
__CPROVER_loop_invariant((g_k + 1 < result.size && result.src[g_k + 1] == g_d) ==> (g_seen && !g_ret && g_with == result.src[g_k]))
__CPROVER_loop_invariant((g_d > result.src[result.size - 1] && g_d < path_iter) ==> (g_seen && g_ret && g_with == last_idx))
__CPROVER_loop_invariant(g_d >= path_iter ==> !g_seen)
__CPROVER_loop_invariant((g_k + 1 < result.size && result.src[g_k] < g_d && g_d < result.src[g_k + 1]) ==> (g_seen && g_ret && g_with == result.src[g_k]))
__CPROVER_decreases(path.size - path_iter)
//@loop 2
__CPROVER_assigns(result.size, g_cseen, g_csrc, g_cret)
__CPROVER_loop_invariant(result.size >= 1 && result.size <= __CPROVER_loop_entry(result.size))
__CPROVER_decreases(result.size)
//@end
void h_SNE(void) { Path64 p; double m; bool c; StripNearEqual(p, m, c); VF_CANARY(); }
//@run name=StripNearEqual entry=h_SNE enforce=StripNearEqual replace=vf_near_idx,vf_near_close loops=1 flags="--bounds-check --pointer-check --unsigned-overflow-check" timeout=600
