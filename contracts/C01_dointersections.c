//@unit C01_dointersections
//@props C01 C12
//@safetyprops C14
//@desc ClipperBase::DoIntersections: the intersect list is built for the given scanline; when it holds any node, the nodes are processed once and the list is EMPTIED afterwards (no node survives into the next scanbeam); when it holds none, nothing else happens.
#include "vf.h"
//@include engine_types.inc
int g_nbuild, g_nproc; int64_t g_build_y; bool g_build_ret;
bool BuildIntersectList(ClipperBase* self, int64_t top_y)
__CPROVER_requires(g_nbuild == 0) BOOL_RET
__CPROVER_ensures(g_nbuild == 1 && g_build_y == top_y && g_build_ret == __CPROVER_return_value && (__CPROVER_return_value == (self->intersect_nodes_.size > 0)))
__CPROVER_assigns(g_nbuild, g_build_y, g_build_ret, self->intersect_nodes_.size);
void ProcessIntersectList(ClipperBase* self)
__CPROVER_requires(g_nbuild == 1 && g_nproc == 0 && self->intersect_nodes_.size > 0)
__CPROVER_ensures(g_nproc == 1 && self->intersect_nodes_.size == __CPROVER_old(self->intersect_nodes_.size))
__CPROVER_assigns(g_nproc);
//@extract file=CPP/Clipper2Lib/src/clipper.engine.cpp func=ClipperBase::DoIntersections self=ClipperBase selfcalls=BuildIntersectList,ProcessIntersectList vec=intersect_nodes_
__CPROVER_requires(__CPROVER_is_fresh(self, sizeof(*self)) && g_nbuild == 0 && g_nproc == 0)
__CPROVER_ensures(g_nbuild == 1 && g_build_y == top_y && g_nproc == (g_build_ret ? 1 : 0) && self->intersect_nodes_.size == 0)
__CPROVER_assigns(g_nbuild, g_build_y, g_build_ret, g_nproc, self->intersect_nodes_.size)
//@end
void h_DI(void) { ClipperBase* s; int64_t y; DoIntersections(s, y); VF_CANARY(); }
//@run name=DoIntersections entry=h_DI enforce=DoIntersections replace=BuildIntersectList,ProcessIntersectList flags="--bounds-check --pointer-check" timeout=120
