//@unit C20_trimcollinear
//@props C20
//@safetyprops C10 C14
//@desc TrimCollinear(Path64), unbounded in the path length (four loop contracts, push-trace ghost G3'): the result is an in-order subsequence of the input (every element a copy of p[src], src strictly increasing), an open path keeps its first and last point, every iterator access is in range, and a vertex of the main pass is dropped only on the evidence IsCollinear(last kept vertex, it, its successor) — IsCollinear itself is an arbitrary predicate here (its exactness is unit C18).
#include "vf.h"
typedef struct { int64_t x, y; } Point64;
typedef struct { Point64* data; size_t size; size_t cap; size_t* src; } Path64;
#define PT_EQ(a,b) ((a).x == (b).x && (a).y == (b).y)
static inline bool Point64_eq(Point64 a, Point64 b) { return a.x == b.x && a.y == b.y; }
size_t g_k;       /* ghost: arbitrary output position */
/* R14: storage of the output vector, provided by the harness (is_fresh in requires) instead of allocated by reserve() */
Point64* g_buf_data; size_t* g_buf_src;
#define VF_RESERVE_B(v, n) do { (v).cap = (n); (v).size = 0; (v).data = g_buf_data; (v).src = g_buf_src; } while (0)
size_t g_d;       /* ghost: arbitrary input index (a candidate dropped vertex) */
bool g_col_seen; size_t g_col_a, g_col_c; bool g_col_ret;   /* ghost: the main-pass collinearity test whose middle vertex is g_d */
bool IsCollinear(const Point64 pt1, const Point64 sharedPt, const Point64 pt2)
__CPROVER_requires(1) BOOL_RET __CPROVER_ensures(1) __CPROVER_assigns();
/* main-pass test on input indices (a, b, c): logged when its middle vertex is the observed one */
bool vf_col(Path64 p, size_t a, size_t b, size_t c)
__CPROVER_requires(a < p.size && b < p.size && c < p.size)
BOOL_RET
__CPROVER_ensures(b == g_d ==> (g_col_seen == true && g_col_a == a && g_col_c == c && g_col_ret == __CPROVER_return_value))
__CPROVER_assigns(b == g_d: g_col_seen, g_col_a, g_col_c, g_col_ret);
//@assume A5: IsCollinear is an arbitrary (uninterpreted, not even functional) predicate in this unit.
#define LEN_OK(n) ((n) < ((size_t)1 << 30))

//@extract file=CPP/Clipper2Lib/include/clipper2/clipper.h func=TrimCollinear sig="const Path64& p" byval=p iters=p:srcIt,prevIt,stop vec=p,dst
//@presub /return Path64\(\);/return (Path64){0, 0, 0, 0};/ min=3
//@presub /Path64 dst;/Path64 dst = {0, 0, 0, 0};/
//@presub /p\[0\] == p\[1\]/Point64_eq(p[0], p[1])/
//@sub /VF_RESERVE\(dst,/VF_RESERVE_B(dst,/
//@sub /VF_PUSH\(dst, p\.data\[(\w+)\]\)/VF_PUSHI(dst, p, \1)/ min=4
//@sub /for \(; srcIt != stop; \+\+srcIt\)([^{]*)\{\s*if \(!IsCollinear\(p\.data\[prevIt\], p\.data\[srcIt\], p\.data\[srcIt \+ 1\]\)\)/for (; srcIt != stop; ++srcIt)\1{ if (!vf_col(p, prevIt, srcIt, srcIt + 1))/ min=0
//@sub /if \(!IsCollinear\(p\.data\[(\w+(?: [-+] 1)?)\], p\.data\[srcIt\], p\.data\[srcIt \+ 1\]\)\)/if (!vf_col(p, \1, srcIt, srcIt + 1))/ min=0
__CPROVER_requires(LEN_OK(p.size) && __CPROVER_is_fresh(p.data, p.size * sizeof(Point64)) && LEN_OK(g_k) && g_d < p.size && !g_col_seen)
__CPROVER_requires(__CPROVER_is_fresh(g_buf_data, p.size * sizeof(Point64)) && __CPROVER_is_fresh(g_buf_src, p.size * sizeof(size_t)))
__CPROVER_ensures(__CPROVER_return_value.size <= p.size)
/* short paths: unchanged if an open 2-point path with distinct points, else empty */
__CPROVER_ensures(p.size < 3 ==> ((is_open_path && p.size == 2 && !PT_EQ(p.data[0], p.data[1])) ? (__CPROVER_return_value.data == p.data && __CPROVER_return_value.size == 2) : __CPROVER_return_value.size == 0))
/* in-order subsequence */
__CPROVER_ensures((p.size >= 3 && g_k < __CPROVER_return_value.size) ==> (__CPROVER_return_value.src[g_k] < p.size && PT_EQ(__CPROVER_return_value.data[g_k], p.data[__CPROVER_return_value.src[g_k]])))
__CPROVER_ensures((p.size >= 3 && g_k + 1 < __CPROVER_return_value.size) ==> __CPROVER_return_value.src[g_k] < __CPROVER_return_value.src[g_k + 1])
/* open paths keep both end points */
__CPROVER_ensures((p.size >= 3 && is_open_path) ==> (__CPROVER_return_value.size >= 2 && __CPROVER_return_value.src[0] == 0 && __CPROVER_return_value.src[__CPROVER_return_value.size - 1] == p.size - 1))
/* a vertex strictly between two consecutive kept vertices was dropped on the evidence "collinear with the last kept vertex and its own successor" */
__CPROVER_ensures((p.size >= 3 && g_k + 1 < __CPROVER_return_value.size && __CPROVER_return_value.src[g_k] < g_d && g_d < __CPROVER_return_value.src[g_k + 1]) ==>
   (g_col_seen && g_col_ret && g_col_a == __CPROVER_return_value.src[g_k] && g_col_c == g_d + 1))
__CPROVER_assigns(g_col_seen, g_col_a, g_col_c, g_col_ret, __CPROVER_object_upto(g_buf_data, p.size * sizeof(Point64)), __CPROVER_object_upto(g_buf_src, p.size * sizeof(size_t)))
//@loop 1
__CPROVER_assigns(srcIt)
__CPROVER_loop_invariant(srcIt <= stop)
__CPROVER_decreases(stop - srcIt)
//@loop 2
__CPROVER_assigns(stop)
__CPROVER_loop_invariant(srcIt <= stop && stop <= len - 1)
__CPROVER_decreases(stop - srcIt)
//@loop 3
__CPROVER_assigns(srcIt, prevIt, dst.size, __CPROVER_object_upto(dst.data, p.size * sizeof(Point64)), __CPROVER_object_upto(dst.src, p.size * sizeof(size_t)), g_col_seen, g_col_a, g_col_c, g_col_ret)
__CPROVER_loop_invariant(srcIt <= stop && prevIt < srcIt && dst.size >= 1 && dst.size <= srcIt && dst.cap == len && dst.src[dst.size - 1] == prevIt)
__CPROVER_loop_invariant(dst.src[0] == __CPROVER_loop_entry(dst.src[0]) && PT_EQ(dst.data[0], p.data[dst.src[0]]))
__CPROVER_loop_invariant(g_k < dst.size ==> (dst.src[g_k] < srcIt && PT_EQ(dst.data[g_k], p.data[dst.src[g_k]])))
__CPROVER_loop_invariant(g_k + 1 < dst.size ==> (dst.src[g_k] < dst.src[g_k + 1] && dst.src[g_k + 1] <= prevIt))
/* the observed vertex: dropped in the current gap => on record with the last kept vertex; in an earlier gap => on record with that gap's left end */
#define REC(x) (g_col_seen && g_col_ret && g_col_a == (x) && g_col_c == g_d + 1)
__CPROVER_loop_invariant((g_d > prevIt && g_d < srcIt) ==> REC(prevIt))
__CPROVER_loop_invariant((g_k + 1 < dst.size && dst.src[g_k] < g_d && g_d < dst.src[g_k + 1]) ==> REC(dst.src[g_k]))
__CPROVER_decreases(stop - srcIt)
//@loop 4
__CPROVER_assigns(dst.size)
__CPROVER_loop_invariant(dst.size >= 1 && dst.size <= __CPROVER_loop_entry(dst.size))
__CPROVER_decreases(dst.size)
//@end
void h_TC(void) { Path64 p; bool o; TrimCollinear(p, o); VF_CANARY(); }
//@run name=TrimCollinear entry=h_TC enforce=TrimCollinear replace=IsCollinear,vf_col loops=1 flags="--bounds-check --pointer-check --unsigned-overflow-check" timeout=900 mem=24
