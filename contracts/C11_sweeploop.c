//@unit C11_sweeploop
//@props C11 C01 C12 C02
//@safetyprops C14
//@desc ClipperBase::ExecuteInternal, the sweep's main loop, unbounded in the number of scanlines (one loop contract; the two `while (PopHorz(e)) DoHorizontal(*e);` loops are each cut out and replaced by one stub call, R18). The clip type, fill rule and tree flag are stored and Reset() runs before anything else; ClipType::NoClip does nothing further and reports success (C11: NoClip yields empty solutions), and so does an empty scanline list; otherwise every scanbeam goes through the phases in this order and no other: local minima of the bottom scanline into the AEL -> pending horizontals -> horizontal segments converted to joins and the segment list CLEARED (only when there are any) -> bot_y_ = bottom scanline -> next scanline popped (the loop ends when there is none) -> intersections up to it -> top of scanbeam at it -> pending horizontals; each phase gets the scanline it belongs to; the loop also ends as soon as `succeeded_` is false; horizontal joins are processed once at the end iff the sweep succeeded; the result is `succeeded_`. Every iteration consumes one scanline (decreases clause).
#include "vf.h"
//@include engine_types.inc
/* ghost: phase of the current scanbeam, the scanline each phase must be given, scanlines left */
int g_phase; int64_t g_y; size_t g_left; int g_nreset, g_njoins; int64_t g_next_y; bool g_fail_allowed;
enum { PH_START = 0, PH_MINIMA, PH_HORZ1, PH_SEGS, PH_POPPED, PH_INTERSECT, PH_TOP };
void Reset(ClipperBase* self)
__CPROVER_requires(g_nreset == 0 && g_phase == -1) __CPROVER_ensures(g_nreset == 1 && self->succeeded_ == true && g_phase == -1) __CPROVER_assigns(g_nreset, self->succeeded_, self->horz_seg_list_.size);
bool PopScanline(ClipperBase* self, int64_t* y)
__CPROVER_requires(g_nreset == 1 && (g_phase == -1 || g_phase == PH_SEGS)) BOOL_RET
__CPROVER_ensures(__CPROVER_return_value == (__CPROVER_old(g_left) > 0))
__CPROVER_ensures(__CPROVER_return_value ==> (g_left == __CPROVER_old(g_left) - 1 && *y == g_y && g_phase == (__CPROVER_old(g_phase) == -1 ? PH_START : PH_POPPED)))
__CPROVER_ensures(!__CPROVER_return_value ==> (g_left == 0 && g_phase == __CPROVER_old(g_phase) && *y == __CPROVER_old(*y)))
__CPROVER_assigns(g_left, g_y, g_phase, *y);
void InsertLocalMinimaIntoAEL(ClipperBase* self, int64_t bot_y)
__CPROVER_requires(g_phase == PH_START && bot_y == g_y) __CPROVER_ensures(g_phase == PH_MINIMA) __CPROVER_ensures(BOOL_OK(self->succeeded_)) __CPROVER_assigns(g_phase, self->succeeded_, self->horz_seg_list_.size);
void vf_do_all_horz(ClipperBase* self)
__CPROVER_requires(g_phase == PH_MINIMA || g_phase == PH_TOP) __CPROVER_ensures(g_phase == (__CPROVER_old(g_phase) == PH_MINIMA ? PH_HORZ1 : PH_START)) __CPROVER_ensures(BOOL_OK(self->succeeded_)) __CPROVER_assigns(g_phase, self->succeeded_, self->horz_seg_list_.size);
void ConvertHorzSegsToJoins(ClipperBase* self)
__CPROVER_requires(g_phase == PH_HORZ1 && self->horz_seg_list_.size > 0) __CPROVER_ensures(g_phase == PH_HORZ1) __CPROVER_assigns(self->horz_seg_list_.size);
void DoIntersections(ClipperBase* self, int64_t top_y)
__CPROVER_requires(g_phase == PH_POPPED && top_y == g_y) __CPROVER_ensures(g_phase == PH_INTERSECT) __CPROVER_ensures(BOOL_OK(self->succeeded_)) __CPROVER_assigns(g_phase, self->succeeded_);
void DoTopOfScanbeam(ClipperBase* self, int64_t y)
__CPROVER_requires(g_phase == PH_INTERSECT && y == g_y) __CPROVER_ensures(g_phase == PH_TOP) __CPROVER_ensures(BOOL_OK(self->succeeded_)) __CPROVER_assigns(g_phase, self->succeeded_);
void ProcessHorzJoins(ClipperBase* self)
__CPROVER_requires(g_njoins == 0 && self->succeeded_) __CPROVER_ensures(g_njoins == 1) __CPROVER_assigns(g_njoins);
//@assume A5/R18 (C11_sweeploop): Reset, PopScanline, InsertLocalMinimaIntoAEL, DoHorizontal (through the cut), ConvertHorzSegsToJoins, DoIntersections, DoTopOfScanbeam, ProcessHorzJoins are stubs whose PRECONDITIONS are the phase order; they may clear `succeeded_` and grow the horizontal segment list arbitrarily.
//@extract file=CPP/Clipper2Lib/src/clipper.engine.cpp func=ClipperBase::ExecuteInternal self=ClipperBase selfcalls=Reset,PopScanline,InsertLocalMinimaIntoAEL,ConvertHorzSegsToJoins,DoIntersections,DoTopOfScanbeam,ProcessHorzJoins
//@presub /while \(PopHorz\(e\)\) DoHorizontal\(\*e\);/vf_do_all_horz(self);/ min=2
//@sub /PopScanline\(self, y\)/PopScanline(self, &y)/ min=2
//@sub /self->horz_seg_list_\.size\(\)/self->horz_seg_list_.size/ min=0
//@sub /self->horz_seg_list_\.clear\(\)|VF_CLEAR\(self->horz_seg_list_\)/(self->horz_seg_list_.size = 0, g_phase = PH_SEGS)/ min=0
//@sub /self->bot_y_ = y;/__CPROVER_assert(g_phase == PH_HORZ1 || g_phase == PH_SEGS, "bot_y_ is set after the horizontals of the bottom scanline"); __CPROVER_assert(self->horz_seg_list_.size == 0, "no horizontal segment survives into the scanbeam"); g_phase = PH_SEGS; self->bot_y_ = y; __CPROVER_assert(y == g_y, "bot_y_ is the bottom scanline");/
__CPROVER_requires(__CPROVER_is_fresh(self, sizeof(*self)) && g_phase == -1 && g_nreset == 0 && g_njoins == 0 && ENUM_OK(ct, ClipType_Xor) && BOOL_OK(use_polytrees))
__CPROVER_ensures(self->cliptype_ == ct && self->fillrule_ == fillrule && self->using_polytree_ == use_polytrees && g_nreset == 1)
__CPROVER_ensures(ct == ClipType_NoClip ==> (__CPROVER_return_value && g_phase == -1 && g_left == __CPROVER_old(g_left) && g_njoins == 0))
__CPROVER_ensures((ct != ClipType_NoClip && __CPROVER_old(g_left) == 0) ==> (__CPROVER_return_value && g_phase == -1 && g_njoins == 0))
__CPROVER_ensures(__CPROVER_return_value == self->succeeded_)
__CPROVER_ensures((ct != ClipType_NoClip && __CPROVER_old(g_left) > 0) ==> g_njoins == (self->succeeded_ ? 1 : 0))
/* a sweep that succeeded consumed every scanline and ended right after the bottom phases of the last one */
__CPROVER_ensures((ct != ClipType_NoClip && __CPROVER_old(g_left) > 0 && self->succeeded_) ==> (g_left == 0 && g_phase == PH_SEGS))
__CPROVER_assigns(self->cliptype_, self->fillrule_, self->using_polytree_, self->succeeded_, self->bot_y_, self->horz_seg_list_.size, g_phase, g_y, g_left, g_nreset, g_njoins)
//@loop 1
__CPROVER_assigns(y, self->succeeded_, self->bot_y_, self->horz_seg_list_.size, g_phase, g_y, g_left)
__CPROVER_loop_invariant(g_phase == PH_START && y == g_y && g_nreset == 1 && g_njoins == 0 && BOOL_OK(self->succeeded_))
__CPROVER_decreases(g_left)
//@end
void h_EI(void) { ClipperBase* s; ClipType ct; FillRule fr; bool t; ExecuteInternal(s, ct, fr, t); VF_CANARY(); }
//@run name=ExecuteInternal entry=h_EI enforce=ExecuteInternal replace=Reset,PopScanline,InsertLocalMinimaIntoAEL,vf_do_all_horz,ConvertHorzSegsToJoins,DoIntersections,DoTopOfScanbeam,ProcessHorzJoins loops=1 flags="--bounds-check --pointer-check" timeout=300
