//@unit C15_setz
//@props C15
//@safetyprops C10 C14
//@desc ClipperBase::SetZ (USINGZ build): x and y of the intersection point are never touched; without a callback nothing is written; with one, z is pre-filled from the first coincident end point in the documented priority (subject edge first) else DefaultZ, and the callback is invoked exactly once with the subject edge's end points first.
#include "vf.h"
#define USINGZ 1
//@include engine_types.inc
int g_cb_n; const Point64 *g_cb_a, *g_cb_b, *g_cb_c, *g_cb_d; int64_t g_cb_zin, g_cb_zout;
void vf_zcb(const Point64* e1bot, const Point64* e1top, const Point64* e2bot, const Point64* e2top, Point64* pt)
__CPROVER_requires(g_cb_n == 0)
__CPROVER_ensures(g_cb_n == 1 && g_cb_a == e1bot && g_cb_b == e1top && g_cb_c == e2bot && g_cb_d == e2top && g_cb_zin == __CPROVER_old(pt->z) && pt->z == g_cb_zout)
__CPROVER_assigns(g_cb_n, g_cb_a, g_cb_b, g_cb_c, g_cb_d, g_cb_zin, pt->z);
//@assume A5: the user's Z callback is a stub that may only assign pt.z (that is its documented purpose) and records its arguments.
static inline bool Point64_eq(Point64 a, Point64 b) { return a.x == b.x && a.y == b.y; }
#define PEQ(a, b) ((a).x == (b).x && (a).y == (b).y)
/* documented priority: the first edge's bot, top, then the second edge's bot, top */
#define PREFILL(ip, f, s) (PEQ(ip, (f)->bot) ? (f)->bot.z : PEQ(ip, (f)->top) ? (f)->top.z : PEQ(ip, (s)->bot) ? (s)->bot.z : PEQ(ip, (s)->top) ? (s)->top.z : self->DefaultZ)
//@extract file=CPP/Clipper2Lib/src/clipper.engine.cpp func=ClipperBase::SetZ self=ClipperBase byptr=e1,e2,ip cpp=USINGZ members=DefaultZ
//@sub /\(\*ip\) == (e[12])->(bot|top)/Point64_eq((*ip), \1->\2)/ min=8
//@sub /(?<!>)zCallback_\((e[12])->bot, (e[12])->top, (e[12])->bot, (e[12])->top, \(\*ip\)\)/vf_zcb(&\1->bot, &\2->top, &\3->bot, &\4->top, ip)/ min=2
//@sub /GetPolyType\(\(\*e1\)\)/e1->local_min->polytype/
__CPROVER_requires(__CPROVER_is_fresh(self, sizeof(*self)) && __CPROVER_is_fresh(e1, sizeof(*e1)) && __CPROVER_is_fresh(e2, sizeof(*e2)) && __CPROVER_is_fresh(ip, sizeof(*ip)))
__CPROVER_requires(__CPROVER_is_fresh(e1->local_min, sizeof(LocalMinima)) && ENUM_OK(e1->local_min->polytype, PathType_Clip) && g_cb_n == 0 && (self->zCallback_ == NULL || self->zCallback_ == vf_zcb))
__CPROVER_ensures(ip->x == __CPROVER_old(ip->x) && ip->y == __CPROVER_old(ip->y))
__CPROVER_ensures(self->zCallback_ == NULL ==> (g_cb_n == 0 && ip->z == __CPROVER_old(ip->z)))
#define SUBJ_FIRST (e1->local_min->polytype == PathType_Subject)
__CPROVER_ensures(self->zCallback_ != NULL ==> (g_cb_n == 1 && ip->z == g_cb_zout &&
   (SUBJ_FIRST ? (g_cb_a == &e1->bot && g_cb_b == &e1->top && g_cb_c == &e2->bot && g_cb_d == &e2->top && g_cb_zin == PREFILL(*ip, e1, e2))
               : (g_cb_a == &e2->bot && g_cb_b == &e2->top && g_cb_c == &e1->bot && g_cb_d == &e1->top && g_cb_zin == PREFILL(*ip, e2, e1)))))
__CPROVER_assigns(ip->z, g_cb_n, g_cb_a, g_cb_b, g_cb_c, g_cb_d, g_cb_zin)
//@end
void h_SetZ(void) { ClipperBase* s; Active *a, *b; Point64* p; SetZ(s, a, b, p); VF_CANARY(); }
//@run name=SetZ entry=h_SetZ enforce=SetZ replace=vf_zcb defs=USINGZ flags="--bounds-check --pointer-check" timeout=120
