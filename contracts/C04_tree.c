//@unit C04_tree
//@props C04
//@safetyprops C10 C14
//@desc PolyTree building blocks: ClipperBase::CheckBounds builds a closed path for the tree through exactly the calls the paths variant makes — CleanCollinear(outrec), then BuildPath64(outrec->pts, reverse_solution_, /*isOpen*/ false, ...) — so the same ring yields the same path in both variants; PolyPath::IsHole is "Level is even and non-zero"; PolyPath::Level is the parent-chain length (BOUNDED: chains of at most 5).
#include "vf.h"
//@include engine_types.inc
#ifndef BOUNDED
int g_cc_n, g_bp_n, g_gb_n; int g_seq; int g_cc_seq, g_bp_seq;
OutRec* g_cc_arg; OutPt* g_bp_op; bool g_bp_rev, g_bp_open, g_bp_ret; VF_Vec* g_bp_path; OutPt* g_pts_after_cc;
void CleanCollinear(ClipperBase* self, OutRec* outrec)
__CPROVER_requires(g_cc_n == 0)
__CPROVER_ensures(g_cc_n == 1 && g_cc_arg == outrec && g_cc_seq == __CPROVER_old(g_seq) && g_seq == __CPROVER_old(g_seq) + 1 && outrec->pts == g_pts_after_cc)
__CPROVER_assigns(g_cc_n, g_cc_arg, g_cc_seq, g_seq, outrec->pts);
bool BuildPath64(OutPt* op, bool reverse, bool isOpen, VF_Vec* path)
__CPROVER_requires(g_bp_n == 0) BOOL_RET
__CPROVER_ensures(g_bp_n == 1 && g_bp_op == op && g_bp_rev == reverse && g_bp_open == isOpen && g_bp_path == path && g_bp_seq == __CPROVER_old(g_seq) && g_seq == __CPROVER_old(g_seq) + 1 && __CPROVER_return_value == g_bp_ret)
__CPROVER_assigns(g_bp_n, g_bp_op, g_bp_rev, g_bp_open, g_bp_path, g_bp_seq, g_seq, *path);
Rect64 g_bounds;
Rect64 GetBounds(VF_Vec path)
__CPROVER_requires(g_gb_n == 0)
__CPROVER_ensures(g_gb_n == 1 && __CPROVER_return_value.left == g_bounds.left && __CPROVER_return_value.top == g_bounds.top && __CPROVER_return_value.right == g_bounds.right && __CPROVER_return_value.bottom == g_bounds.bottom)
__CPROVER_assigns(g_gb_n);
//@extract file=CPP/Clipper2Lib/include/clipper2/clipper.core.h func=IsEmpty scope=Rect as=Rect_IsEmpty self=Rect64 members=left,top,right,bottom ifndef=BOUNDED
//@end
#define REMPTY(r) (!((r).left < (r).right && (r).top < (r).bottom))
//@extract file=CPP/Clipper2Lib/src/clipper.engine.cpp func=ClipperBase::CheckBounds self=ClipperBase selfcalls=CleanCollinear ifndef=BOUNDED
//@sub /outrec->bounds\.IsEmpty\(\)/Rect_IsEmpty(&outrec->bounds)/
//@sub /BuildPath64\(([^;]*?), outrec->path\)/BuildPath64(\1, &outrec->path)/
__CPROVER_requires(__CPROVER_is_fresh(self, sizeof(*self)) && __CPROVER_is_fresh(outrec, sizeof(*outrec)) && g_cc_n == 0 && g_bp_n == 0 && g_gb_n == 0 && g_seq == 0)
__CPROVER_requires(BOOL_OK(self->reverse_solution_) && BOOL_OK(g_bp_ret))
__CPROVER_ensures(__CPROVER_old(outrec->pts) == NULL ==> (!__CPROVER_return_value && g_cc_n == 0 && g_bp_n == 0))
/* bounds already known: the path was built before, nothing is rebuilt */
__CPROVER_ensures((__CPROVER_old(outrec->pts) != NULL && !REMPTY(__CPROVER_old(outrec->bounds))) ==> (__CPROVER_return_value && g_cc_n == 0 && g_bp_n == 0))
/* otherwise: clean first, then build the closed path exactly as BuildPaths64 does */
#define BUILD (__CPROVER_old(outrec->pts) != NULL && REMPTY(__CPROVER_old(outrec->bounds)))
__CPROVER_ensures(BUILD ==> (g_cc_n == 1 && g_cc_arg == outrec && g_cc_seq == 0))
__CPROVER_ensures((BUILD && g_pts_after_cc == NULL) ==> (!__CPROVER_return_value && g_bp_n == 0))
__CPROVER_ensures((BUILD && g_pts_after_cc != NULL) ==> (g_bp_n == 1 && g_bp_seq == 1 && g_bp_op == g_pts_after_cc && g_bp_rev == self->reverse_solution_ && !g_bp_open && g_bp_path == &outrec->path &&
   __CPROVER_return_value == g_bp_ret && (g_bp_ret ==> (g_gb_n == 1 && outrec->bounds.left == g_bounds.left && outrec->bounds.right == g_bounds.right))))
__CPROVER_assigns(g_cc_n, g_cc_arg, g_cc_seq, g_bp_n, g_bp_op, g_bp_rev, g_bp_open, g_bp_path, g_bp_seq, g_seq, g_gb_n, outrec->pts, outrec->path, outrec->bounds)
//@end
void h_CB(void) { ClipperBase* s; OutRec* o; CheckBounds(s, o); VF_CANARY(); }

/* IsHole with Level under its contract (returns the ghost level) */
typedef struct PolyPathS { struct PolyPathS* parent_; } PolyPathS;
unsigned g_level;
unsigned Level(const PolyPathS* self) __CPROVER_requires(1) __CPROVER_ensures(__CPROVER_return_value == g_level) __CPROVER_assigns();
//@extract file=CPP/Clipper2Lib/include/clipper2/clipper.engine.h func=IsHole scope=PolyPath self=PolyPathS selfcalls=Level ifndef=BOUNDED
__CPROVER_requires(__CPROVER_is_fresh(self, sizeof(*self)))
__CPROVER_ensures(__CPROVER_return_value == (g_level != 0 && g_level % 2 == 0))
__CPROVER_assigns()
//@end
void h_IsHole(void) { PolyPathS* s; IsHole(s); VF_CANARY(); }
#else
typedef struct PolyPathS { struct PolyPathS* parent_; } PolyPathS;
//@extract file=CPP/Clipper2Lib/include/clipper2/clipper.engine.h func=Level scope=PolyPath self=PolyPathS ifdef=BOUNDED
//@sub /const PolyPath\* p/const PolyPathS* p/
//@end
unsigned nondet_uint(void);
void h_Level(void)
{
  PolyPathS n[6]; unsigned d = nondet_uint(); __CPROVER_assume(d <= 5);
  for (unsigned i = 0; i < 6; ++i) n[i].parent_ = (i < d) ? &n[i + 1] : NULL;   /* n[0] has exactly d ancestors */
  __CPROVER_assert(Level(&n[0]) == d, "Level == number of ancestors");
  VF_CANARY();
}
#endif
//@run name=CheckBounds entry=h_CB enforce=CheckBounds replace=CleanCollinear,BuildPath64,GetBounds flags="--bounds-check --pointer-check" timeout=120
//@run name=IsHole entry=h_IsHole enforce=IsHole replace=Level flags=SAFETY timeout=60
//@run name=Level.bounded entry=h_Level defs=BOUNDED unwind=8 flags=SAFETY timeout=120 bounded="parent chains of at most 5"
//@assume A5: CleanCollinear, BuildPath64 and GetBounds are logging stubs in the CheckBounds unit (CleanCollinear may replace outrec->pts).
