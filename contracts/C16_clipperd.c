//@unit C16_clipperd
//@props C16
//@safetyprops C14
//@desc ClipperD's scaling plumbing under call-trace contracts: the constructor range-checks the precision and sets scale_ = 2^(ilogb(10^precision)+1), invScale_ = 1/scale_; AddSubject/AddOpenSubject/AddClip scale with scale_ into the integer engine with the right path type / open flag; Execute (paths and tree) runs the integer engine and builds the result with the D builders (tree: SetScale(invScale_) before BuildTreeD).
#include "vf.h"
#include <float.h>
//@include calltrace.inc
//@include calltrace_stubs.inc
//@expect file=CPP/Clipper2Lib/include/clipper2/clipper.engine.h /double scale_ = 1\.0, invScale_ = 1\.0;/
typedef struct { long tok; int error_code_; bool succeeded_; double scale_, invScale_; } ClipperDS;
#define ASG_LOG __CPROVER_object_whole(g_cnt), __CPROVER_object_whole(g_ev), g_n
enum { FN_ILOGB = FN_ERR + 1, FN_ADDPATHS, FN_EXECINT, FN_BUILDPATHS, FN_CLEANUP, FN_TCLEAR, FN_TSETSCALE, FN_VCLEAR };
int vf_ilogb(double x)
LOG_REQ(FN_ILOGB) LOG_ENS(FN_ILOGB, __CPROVER_return_value, 0,0,0,0,0, x,0,0,0)
__CPROVER_ensures(__CPROVER_return_value > -100 && __CPROVER_return_value < 100)
__CPROVER_assigns(LOG_ASG(FN_ILOGB));
void AddPaths(ClipperDS* self, VTok paths, PathType polytype, bool is_open)
LOG_REQ(FN_ADDPATHS) LOG_ENS(FN_ADDPATHS, self->tok, paths.tok, polytype, is_open, 0,0, 0,0,0,0)
__CPROVER_assigns(LOG_ASG(FN_ADDPATHS));
bool ExecuteInternal(ClipperDS* self, ClipType ct, FillRule fr, bool use_polytrees)
BOOL_RET
LOG_REQ(FN_EXECINT) LOG_ENS(FN_EXECINT, self->tok, ct, fr, use_polytrees, __CPROVER_return_value, 0, 0,0,0,0)
__CPROVER_assigns(LOG_ASG(FN_EXECINT), self->succeeded_);
void BuildPathsD(ClipperDS* self, VTok* closed, VTok* open)
LOG_REQ(FN_BUILDPATHS) LOG_ENS(FN_BUILDPATHS, self->tok, __CPROVER_old(closed->tok), __CPROVER_old(open->tok), 0,0,0, 0,0,0,0)
__CPROVER_assigns(LOG_ASG(FN_BUILDPATHS), *closed, *open);
void BuildTreeD(ClipperDS* self, OTok* tree, VTok* open)
LOG_REQ(FN_BUILDTREE) LOG_ENS(FN_BUILDTREE, self->tok, tree->tok, __CPROVER_old(open->tok), 0,0,0, 0,0,0,0)
__CPROVER_assigns(LOG_ASG(FN_BUILDTREE), *open);
void CleanUp(ClipperDS* self)
LOG_REQ(FN_CLEANUP) LOG_ENS(FN_CLEANUP, self->tok, 0,0,0,0,0, 0,0,0,0)
__CPROVER_assigns(LOG_ASG(FN_CLEANUP));
void PolyTreeD_Clear_(OTok* t)
LOG_REQ(FN_TCLEAR) LOG_ENS(FN_TCLEAR, t->tok, 0,0,0,0,0, 0,0,0,0)
__CPROVER_assigns(LOG_ASG(FN_TCLEAR));
void PolyTreeD_SetScale(OTok* t, double v)
LOG_REQ(FN_TSETSCALE) LOG_ENS(FN_TSETSCALE, t->tok, 0,0,0,0,0, v,0,0,0)
__CPROVER_assigns(LOG_ASG(FN_TSETSCALE));
void PathsD_clear(VTok* v)
LOG_REQ(FN_VCLEAR) LOG_ENS(FN_VCLEAR, v->tok, 0,0,0,0,0, 0,0,0,0)
__CPROVER_ensures(v->tok == __CPROVER_old(v->tok))
__CPROVER_assigns(LOG_ASG(FN_VCLEAR), v->size);
#undef PolyTreeD_Clear
#define PolyTreeD_Clear PolyTreeD_Clear_

//@extract file=CPP/Clipper2Lib/include/clipper2/clipper.engine.h func=ClipperD scope=ClipperD sig="int precision" as=ClipperD_construct self=ClipperDS ctor=1
//@sub /std::numeric_limits<double>::radix/FLT_RADIX/
//@sub /ClipperBase = \(?\)?;\s*// min=0
//@pysub calltrace min=0
//@pysub floatops
__CPROVER_requires(NOCALLS && __CPROVER_is_fresh(self, sizeof(*self)))
__CPROVER_ensures(C_(FN_CHECKPREC) == 1 && I_(FN_CHECKPREC,0,0) == (long)precision && SEQ(FN_CHECKPREC,0) == 0 && self->error_code_ == I_(FN_CHECKPREC,0,2))
/* scale_ = radix ^ (ilogb(10 ^ precision') + 1) with the range-checked precision; invScale_ = 1 / scale_ */
__CPROVER_ensures(C_(FN_POW) == 2 && IS_POW10(0, I_(FN_CHECKPREC,0,1)) && C_(FN_ILOGB) == 1 && D_(FN_ILOGB,0,0) == POW_RET(0) &&
   D_(FN_POW,1,0) == 2.0 && D_(FN_POW,1,1) == (double)(I_(FN_ILOGB,0,0) + 1) && self->scale_ == POW_RET(1) &&
   C_(FN_FDIV) == 1 && IS_FDIV(0, 1.0, POW_RET(1)) && self->invScale_ == FDIV_RET(0))
__CPROVER_assigns(ASG_LOG, self->error_code_, self->scale_, self->invScale_)
//@end
void h_ctor(void) { ClipperDS* s; int p; LOG_INIT(); ClipperD_construct(s, p); VF_CANARY(); }

#define ADD_SPEC(PT, OPEN) \
  __CPROVER_ensures(C_(FN_SCALEPATHS) == 1 && D_(FN_SCALEPATHS,0,0) == self->scale_ && C_(FN_ADDPATHS) == 1 && I_(FN_ADDPATHS,0,0) == self->tok && \
     I_(FN_ADDPATHS,0,1) == TOK(FN_SCALEPATHS,0) && I_(FN_ADDPATHS,0,2) == (long)(PT) && I_(FN_ADDPATHS,0,3) == (long)(OPEN))
//@extract file=CPP/Clipper2Lib/include/clipper2/clipper.engine.h func=AddSubject scope=ClipperD self=ClipperDS byval=subjects selfcalls=AddPaths
//@pysub calltrace min=0
__CPROVER_requires(NOCALLS && __CPROVER_is_fresh(self, sizeof(*self)))
__CPROVER_ensures(I_(FN_SCALEPATHS,0,0) == subjects.tok)
ADD_SPEC(PathType_Subject, false)
__CPROVER_assigns(ASG_LOG, self->error_code_)
//@end
//@extract file=CPP/Clipper2Lib/include/clipper2/clipper.engine.h func=AddOpenSubject scope=ClipperD self=ClipperDS byval=open_subjects selfcalls=AddPaths
//@pysub calltrace min=0
__CPROVER_requires(NOCALLS && __CPROVER_is_fresh(self, sizeof(*self)))
__CPROVER_ensures(I_(FN_SCALEPATHS,0,0) == open_subjects.tok)
ADD_SPEC(PathType_Subject, true)
__CPROVER_assigns(ASG_LOG, self->error_code_)
//@end
//@extract file=CPP/Clipper2Lib/include/clipper2/clipper.engine.h func=AddClip scope=ClipperD self=ClipperDS byval=clips selfcalls=AddPaths
//@pysub calltrace min=0
__CPROVER_requires(NOCALLS && __CPROVER_is_fresh(self, sizeof(*self)))
__CPROVER_ensures(I_(FN_SCALEPATHS,0,0) == clips.tok)
ADD_SPEC(PathType_Clip, false)
__CPROVER_assigns(ASG_LOG, self->error_code_)
//@end
void h_AddSubject(void) { ClipperDS* s; PathsD p; LOG_INIT(); AddSubject(s, p); VF_CANARY(); }
void h_AddOpenSubject(void) { ClipperDS* s; PathsD p; LOG_INIT(); AddOpenSubject(s, p); VF_CANARY(); }
void h_AddClip(void) { ClipperDS* s; PathsD p; LOG_INIT(); AddClip(s, p); VF_CANARY(); }

//@extract file=CPP/Clipper2Lib/include/clipper2/clipper.engine.h func=Execute scope=ClipperD sig="PathsD& closed_paths, PathsD& open_paths" as=ExecuteD self=ClipperDS selfcalls=ExecuteInternal,BuildPathsD,CleanUp cpp=NOUSINGZ
//@pysub calltrace min=0
__CPROVER_requires(NOCALLS && __CPROVER_is_fresh(self, sizeof(*self)) && __CPROVER_is_fresh(closed_paths, sizeof(VTok)) && __CPROVER_is_fresh(open_paths, sizeof(VTok)) && closed_paths->tok == 111 && open_paths->tok == 222)
__CPROVER_ensures(C_(FN_EXECINT) == 1 && SEQ(FN_EXECINT,0) == 0 && I_(FN_EXECINT,0,1) == (long)clip_type && I_(FN_EXECINT,0,2) == (long)fill_rule && I_(FN_EXECINT,0,3) == 0)
__CPROVER_ensures(C_(FN_BUILDPATHS) == (I_(FN_EXECINT,0,4) ? 1 : 0) && (C_(FN_BUILDPATHS) == 1 ==> (I_(FN_BUILDPATHS,0,1) == 111 && I_(FN_BUILDPATHS,0,2) == 222)))
__CPROVER_ensures(C_(FN_CLEANUP) == 1 && SEQ(FN_CLEANUP,0) == g_n - 1 && __CPROVER_return_value == self->succeeded_)
__CPROVER_assigns(ASG_LOG, self->succeeded_, *closed_paths, *open_paths)
//@end
void h_ExecuteD(void) { ClipperDS* s; ClipType ct; FillRule fr; PathsD *a, *b; LOG_INIT(); ExecuteD(s, ct, fr, a, b); VF_CANARY(); }

//@extract file=CPP/Clipper2Lib/include/clipper2/clipper.engine.h func=Execute scope=ClipperD sig="PolyTreeD& polytree, PathsD& open_paths" as=ExecuteDT self=ClipperDS selfcalls=ExecuteInternal,BuildTreeD,CleanUp cpp=NOUSINGZ
//@pysub calltrace min=0
__CPROVER_requires(NOCALLS && __CPROVER_is_fresh(self, sizeof(*self)) && __CPROVER_is_fresh(polytree, sizeof(OTok)) && __CPROVER_is_fresh(open_paths, sizeof(VTok)) && polytree->tok == 333 && open_paths->tok == 222)
__CPROVER_ensures(C_(FN_EXECINT) == 1 && SEQ(FN_EXECINT,0) == 0 && I_(FN_EXECINT,0,1) == (long)clip_type && I_(FN_EXECINT,0,2) == (long)fill_rule && I_(FN_EXECINT,0,3) == 1)
/* on success: the tree is cleared, told the descaling factor, and only then built */
__CPROVER_ensures(I_(FN_EXECINT,0,4) ==> (C_(FN_TCLEAR) == 1 && I_(FN_TCLEAR,0,0) == 333 && C_(FN_TSETSCALE) == 1 && I_(FN_TSETSCALE,0,0) == 333 && D_(FN_TSETSCALE,0,0) == self->invScale_ &&
   C_(FN_VCLEAR) == 1 && I_(FN_VCLEAR,0,0) == 222 &&
   C_(FN_BUILDTREE) == 1 && I_(FN_BUILDTREE,0,1) == 333 && I_(FN_BUILDTREE,0,2) == 222 &&
   SEQ(FN_BUILDTREE,0) > SEQ(FN_TSETSCALE,0) && SEQ(FN_BUILDTREE,0) > SEQ(FN_TCLEAR,0) && SEQ(FN_BUILDTREE,0) > SEQ(FN_VCLEAR,0)))
__CPROVER_ensures(!I_(FN_EXECINT,0,4) ==> C_(FN_BUILDTREE) == 0)
__CPROVER_ensures(C_(FN_CLEANUP) == 1 && SEQ(FN_CLEANUP,0) == g_n - 1 && __CPROVER_return_value == self->succeeded_)
__CPROVER_assigns(ASG_LOG, self->succeeded_, *open_paths)
//@end
void h_ExecuteDT(void) { ClipperDS* s; ClipType ct; FillRule fr; PolyTreeD* t; PathsD* b; LOG_INIT(); ExecuteDT(s, ct, fr, t, b); VF_CANARY(); }

//@run name=ClipperD.ctor entry=h_ctor enforce=ClipperD_construct replace=CheckPrecisionRange,vf_pow,vf_ilogb,vf_fdiv flags="--bounds-check --pointer-check" timeout=120
//@run name=ClipperD.AddSubject entry=h_AddSubject enforce=AddSubject replace=ScalePaths,AddPaths flags="--bounds-check --pointer-check" timeout=120
//@run name=ClipperD.AddOpenSubject entry=h_AddOpenSubject enforce=AddOpenSubject replace=ScalePaths,AddPaths flags="--bounds-check --pointer-check" timeout=120
//@run name=ClipperD.AddClip entry=h_AddClip enforce=AddClip replace=ScalePaths,AddPaths flags="--bounds-check --pointer-check" timeout=120
//@run name=ClipperD.Execute entry=h_ExecuteD enforce=ExecuteD replace=ExecuteInternal,BuildPathsD,CleanUp flags="--bounds-check --pointer-check" timeout=120
//@run name=ClipperD.ExecuteTree entry=h_ExecuteDT enforce=ExecuteDT replace=ExecuteInternal,BuildTreeD,CleanUp,PolyTreeD_Clear_,PolyTreeD_SetScale,PathsD_clear flags="--bounds-check --pointer-check" timeout=120
