//@unit C03_predicates
//@props C03
//@safetyprops C10 C14
//@desc Structural validity predicates used when closed solution paths are built: PtsReallyClose, IsVerySmallTriangle, IsValidClosedPath against their definitions, on a well-formed OutPt ring whose size class (1, 2, 3, >=4) is chosen by the harness (the functions are loop-free and inspect at most three nodes, so the four classes are exhaustive for well-formed rings).
#include "vf.h"
//@include engine_types.inc
#define C62 (((int64_t)1 << 62) - 1)  /* differences of coordinates of magnitude 2^62 overflow; the property asserts overflow-freedom only up to 2^29 */
#define P62(p) ((p).x >= -C62 && (p).x <= C62 && (p).y >= -C62 && (p).y <= C62)
#define CLOSE(p,q) (I128((p).x) - I128((q).x) < 2 && I128((p).x) - I128((q).x) > -2 && I128((p).y) - I128((q).y) < 2 && I128((p).y) - I128((q).y) > -2)

//@extract file=CPP/Clipper2Lib/src/clipper.engine.cpp func=PtsReallyClose byval=pt1,pt2
__CPROVER_requires(DIFF_OK(pt1.x, pt2.x) && DIFF_OK(pt1.y, pt2.y))
__CPROVER_requires(pt1.x - pt2.x != INT64_MIN && pt1.y - pt2.y != INT64_MIN)
__CPROVER_ensures(__CPROVER_return_value == CLOSE(pt1, pt2))
__CPROVER_assigns()
//@end

int g_n;          /* ghost: size class of the ring op lives in: 1, 2, 3 or 4 (= four or more) */
OutPt* g_node[4]; /* ghost: the ring's nodes in next-order starting at op */
#define RING_OK (g_n >= 1 && g_n <= 4 && P62(g_node[0]->pt) && P62(g_node[1]->pt) && P62(g_node[2]->pt) && P62(g_node[3]->pt))
#define TINY3 (CLOSE(g_node[2]->pt, g_node[1]->pt) || CLOSE(g_node[0]->pt, g_node[1]->pt) || CLOSE(g_node[0]->pt, g_node[2]->pt))
//@extract file=CPP/Clipper2Lib/src/clipper.engine.cpp func=IsVerySmallTriangle byptr=op refmacro=1
__CPROVER_requires(RING_OK && op == g_node[0] && g_n >= 2)   /* never called on a single-node ring (call sites: after op->next != op, or path.size() == 3) */
/* a ring of exactly three nodes two of which are within one unit of each other on both axes */
__CPROVER_ensures(__CPROVER_return_value == (g_n == 3 && TINY3))
__CPROVER_assigns()
//@end

//@extract file=CPP/Clipper2Lib/src/clipper.engine.cpp func=IsValidClosedPath
__CPROVER_requires(RING_OK && (op == NULL || op == g_node[0]))
/* valid <=> at least three nodes and not a very small triangle */
__CPROVER_ensures(__CPROVER_return_value == (op != NULL && g_n >= 3 && !(g_n == 3 && TINY3)))
__CPROVER_assigns()
//@end

int nondet_int(void); bool nondet_bool(void);
static void build_ring(OutPt n[4])
{
  g_n = nondet_int();
  __CPROVER_assume(g_n >= 1 && g_n <= 4);
  for (int i = 0; i < 4; ++i) g_node[i] = &n[i];
  for (int i = 0; i < 4; ++i) {
    if (i < g_n) { n[i].next = &n[(i + 1) % g_n]; n[i].prev = &n[(i + g_n - 1) % g_n]; }
    else { n[i].next = n[i].prev = &n[i]; }
  }
}
void h_PRC(void) { Point64 a, b; PtsReallyClose(a, b); VF_CANARY(); }
void h_IVST(void) { OutPt n[4]; build_ring(n); IsVerySmallTriangle__p(&n[0]); VF_CANARY(); }
void h_IVCP(void) { OutPt n[4]; build_ring(n); IsValidClosedPath(nondet_bool() ? &n[0] : NULL); VF_CANARY(); }
//@run name=PtsReallyClose entry=h_PRC enforce=PtsReallyClose flags=SAFETY timeout=60
//@run name=IsVerySmallTriangle entry=h_IVST enforce=IsVerySmallTriangle__p flags=SAFETY timeout=120 unwind=6
//@run name=IsValidClosedPath entry=h_IVCP enforce=IsValidClosedPath flags=SAFETY timeout=120 unwind=6
//@assume ring shapes: the OutPt ring is well formed (next/prev mutually inverse); its size class is built by the harness (harness loops are unwound, the functions themselves are loop-free).
