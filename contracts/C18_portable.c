//@unit C18_portable
//@props C18
//@safetyprops C10
//@desc Portable (non-__int128) branch of ProductsAreEqual / CrossProductSign, selected with cpp -undef (not compiled on this platform, so no test can reach it), plus Multiply's carry chain. G2: Multiply is replaced at its call sites by the ghost contract "returns the exact 128-bit product of its operands"; Multiply itself is proved against the schoolbook sum of its four 32x32 partial products (R24: the partial products are free inputs <= (2^32-1)^2).
#include "vf.h"
typedef int64_t T;
typedef struct { int64_t x, y; } PointT;
typedef struct UInt128Struct UInt128Struct;
//@struct file=CPP/Clipper2Lib/include/clipper2/clipper.core.h name=UInt128Struct
#define U128S(s) ((U128((s).hi) << 64) | (s).lo)

//@extract file=CPP/Clipper2Lib/include/clipper2/clipper.core.h func=TriSign
__CPROVER_ensures(__CPROVER_return_value == SGN(x))
__CPROVER_assigns()
//@end

//@extract file=CPP/Clipper2Lib/include/clipper2/clipper.core.h func=operator== scope=UInt128Struct as=UInt128Struct_eq self=UInt128Struct byptr=other members=lo,hi
__CPROVER_requires(__CPROVER_is_fresh(self, sizeof(*self)) && __CPROVER_is_fresh(other, sizeof(*other)))
__CPROVER_ensures(__CPROVER_return_value == (U128S(*self) == U128S(*other)))
__CPROVER_assigns()
//@end

/* R24 ghost partial products */
uint64_t g_pp_ll, g_pp_hl, g_pp_lh, g_pp_hh;
#define PP_MAX 0xFFFFFFFE00000001ULL  /* (2^32-1)^2 */
#ifdef UNIT_MULTIPLY
//@extract file=CPP/Clipper2Lib/include/clipper2/clipper.core.h func=Multiply
//@pysub lambdas_lo_hi min=2
//@pysub hoist_partial_products min=4
//@sub /return\s*\{([^{}]*)\}\s*;/return (UInt128Struct){\1};/
__CPROVER_requires(g_pp_ll <= PP_MAX && g_pp_hl <= PP_MAX && g_pp_lh <= PP_MAX && g_pp_hh <= PP_MAX)
__CPROVER_ensures(U128S(__CPROVER_return_value) == (U128(g_pp_hh) << 64) + ((U128(g_pp_hl) + U128(g_pp_lh)) << 32) + U128(g_pp_ll))
__CPROVER_assigns()
//@end
void h_Multiply(void) { uint64_t a, b; Multiply(a, b); VF_CANARY(); }
#else
/* G2 ghost products for the call sites */
uint64_t g_a1, g_b1, g_a2, g_b2; unsigned __int128 g_p1, g_p2;
#define SAME_PAIR(x,y,u,v) (((x) == (u) && (y) == (v)) || ((x) == (v) && (y) == (u)))
UInt128Struct Multiply(uint64_t a, uint64_t b)
__CPROVER_requires(1)
__CPROVER_ensures(SAME_PAIR(a, b, g_a1, g_b1) ==> U128S(__CPROVER_return_value) == g_p1)
__CPROVER_ensures(SAME_PAIR(a, b, g_a2, g_b2) ==> U128S(__CPROVER_return_value) == g_p2)
__CPROVER_assigns()
;
#endif
//@assume A1: schoolbook identity a*b = hh*2^64 + (hl+lh)*2^32 + ll for the 32-bit halves, and sign(ab-cd) = sign-magnitude lexicographic comparison — integer identities not checked by CBMC; the 32x32->64 multiplier is not verified (R24).

#ifndef UNIT_MULTIPLY
#define MAGU(v) ((uint64_t)((v) < 0 ? -I128(v) : I128(v)))
/* axioms used about exact products: zero iff an operand is zero; functional */
#define GHOST_OK ((g_p1 == 0) == (g_a1 == 0 || g_b1 == 0) && (g_p2 == 0) == (g_a2 == 0 || g_b2 == 0) && \
                  (SAME_PAIR(g_a1, g_b1, g_a2, g_b2) ==> g_p1 == g_p2))
/* sign-magnitude comparison of a*b with c*d */
#define S_AB(a,b) (SGN(a) * SGN(b))
#define SPEC_SIGN(a,b,c,d) (S_AB(a,b) != S_AB(c,d) ? (S_AB(a,b) > S_AB(c,d) ? 1 : -1) : \
          (g_p1 == g_p2 ? 0 : (((g_p1 > g_p2) == (S_AB(a,b) > 0)) ? 1 : -1)))
#ifdef F10_TRIGGER
#define NOT_MIN(v) 1
#else
#define NOT_MIN(v) ((v) != INT64_MIN)
#endif

//@extract file=CPP/Clipper2Lib/include/clipper2/clipper.core.h func=ProductsAreEqual cpp=NOTHING must=cpp
//@sub /std::abs\(/llabs(/ min=4
//@sub /\bab == cd\b/UInt128Struct_eq(&ab, &cd)/
__CPROVER_requires(NOT_MIN(a) && NOT_MIN(b) && NOT_MIN(c) && NOT_MIN(d))
__CPROVER_requires(g_a1 == MAGU(a) && g_b1 == MAGU(b) && g_a2 == MAGU(c) && g_b2 == MAGU(d) && GHOST_OK)
__CPROVER_ensures(__CPROVER_return_value == (S_AB(a,b) == S_AB(c,d) && g_p1 == g_p2))
__CPROVER_assigns()
//@end

//@extract file=CPP/Clipper2Lib/include/clipper2/clipper.core.h func=CrossProductSign byval=pt1,pt2,pt3 cpp=NOTHING must=cpp,R4
//@sub /std::abs\(/llabs(/ min=4
#define A_ (pt2.x - pt1.x)
#define B_ (pt3.y - pt2.y)
#define C_ (pt2.y - pt1.y)
#define D_ (pt3.x - pt2.x)
__CPROVER_requires(DIFF_OK(pt2.x, pt1.x) && DIFF_OK(pt3.y, pt2.y) && DIFF_OK(pt2.y, pt1.y) && DIFF_OK(pt3.x, pt2.x))
__CPROVER_requires(NOT_MIN(A_) && NOT_MIN(B_) && NOT_MIN(C_) && NOT_MIN(D_))
__CPROVER_requires(g_a1 == MAGU(A_) && g_b1 == MAGU(B_) && g_a2 == MAGU(C_) && g_b2 == MAGU(D_) && GHOST_OK)
__CPROVER_ensures(__CPROVER_return_value == SPEC_SIGN(A_, B_, C_, D_))
__CPROVER_assigns()
//@end

void h_PAE(void) { int64_t a, b, c, d; ProductsAreEqual(a, b, c, d); VF_CANARY(); }
void h_CPS(void) { PointT p1, p2, p3; CrossProductSign(p1, p2, p3); VF_CANARY(); }
#endif
void h_eq(void) { UInt128Struct *a, *b; UInt128Struct_eq(a, b); VF_CANARY(); }

//@run name=Multiply entry=h_Multiply enforce=Multiply defs=UNIT_MULTIPLY flags=SAFETY-unsigned timeout=120
//@run name=UInt128Struct_eq entry=h_eq enforce=UInt128Struct_eq flags=SAFETY timeout=60
//@run name=ProductsAreEqual entry=h_PAE enforce=ProductsAreEqual replace=Multiply,TriSign flags=SAFETY timeout=200
//@run name=CrossProductSign entry=h_CPS enforce=CrossProductSign replace=Multiply,TriSign flags=SAFETY timeout=200

//@run name=CrossProductSign.F10 entry=h_CPS enforce=CrossProductSign replace=Multiply,TriSign flags=SAFETY defs=F10_TRIGGER timeout=200 expect=fail:llabs known=F10 props=C10
