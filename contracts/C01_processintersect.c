//@unit C01_processintersect
//@props C01 C10
//@desc ClipperBase::ProcessIntersectList with the real EdgesAdjacentInAEL and SwapPositionsInAEL - BOUNDED (AEL of N = 3 edges, 4 thorough). Given what BuildIntersectList delivers (C01_intersectlist: exactly one node, left edge first, for every pair of edges that changes order inside the scanbeam) in ANY processing order (std::sort by crossing point is a stub that permutes arbitrarily - the crossing points are floating point): the search for the next node with adjacent edges - a `while` WITHOUT an end test - never leaves the node list (C10); every node is processed exactly once; IntersectEdges is only ever called on two edges that are neighbours in the AEL at that moment, left one first, and they are swapped right afterwards; both edges get the crossing's x; at the end the AEL is ordered by x at the top of the scanbeam (a permutation of the edges with consistent links, head updated), which is the precondition of everything DoTopOfScanbeam does next.
#include "vf.h"
//@include engine_types.inc
#ifndef N
#define N 3
#endif
#define MAXNODES (N * (N - 1) / 2)
typedef struct { Point64 pt; Active* edge1; Active* edge2; } IntersectNode;
//@expect file=CPP/Clipper2Lib/include/clipper2/clipper.engine.h /struct IntersectNode \{\s*Point64 pt;\s*Active\* edge1;\s*Active\* edge2;/
Active g_e0, g_e1, g_e2, g_e3; Active* const g_p[4] = { &g_e0, &g_e1, &g_e2, &g_e3 };
static int eidx(const Active* e) { return e == &g_e0 ? 0 : (N > 1 && e == &g_e1) ? 1 : (N > 2 && e == &g_e2) ? 2 : (N > 3 && e == &g_e3) ? 3 : -1; }
IntersectNode g_nodes[MAXNODES]; size_t g_nn; int64_t g_topx[N];
int g_ncalls, g_nswaps; bool g_pending_swap; Active *g_last1, *g_last2;
static IntersectNode* vf_node(size_t i) { __CPROVER_assert(i < g_nn, "node iterator inside the node list"); return &g_nodes[i]; }
#define VF_NODE(i) vf_node(i)
#define VF_SWAP_NODES(i, j) do { IntersectNode t_ = *vf_node(i); *vf_node(i) = *vf_node(j); *vf_node(j) = t_; } while (0)
unsigned nondet_uint(void); int64_t nondet_i64(void); bool nondet_bool(void);
/* std::sort(..., IntersectListSort): an arbitrary permutation (adjacent transpositions chosen freely, two passes reach every order of <= 3 nodes; thorough: three passes for 6) */
static void vf_sort_nodes(void) { for (int pass = 0; pass < (int)MAXNODES; ++pass) for (size_t k = 0; k + 1 < MAXNODES; ++k) if (k + 1 < g_nn && nondet_bool()) { IntersectNode t_ = g_nodes[k]; g_nodes[k] = g_nodes[k + 1]; g_nodes[k + 1] = t_; } }
static void IntersectEdges__p(ClipperBase* self, Active* e1, Active* e2, Point64 pt)
{ __CPROVER_assert(e1->next_in_ael == e2 && e2->prev_in_ael == e1, "IntersectEdges only on neighbours in the AEL, left edge first"); __CPROVER_assert(!g_pending_swap, "the previous pair was swapped"); g_ncalls++; g_pending_swap = true; g_last1 = e1; g_last2 = e2; }
#define IntersectEdges(s, a, b, p) IntersectEdges__p(s, &(a), &(b), p)
static void CheckJoinLeft__p(ClipperBase* self, Active* e, Point64 pt, bool b) { __CPROVER_assert(!g_pending_swap, "joins are looked for after the swap"); }
static void CheckJoinRight__p(ClipperBase* self, Active* e, Point64 pt, bool b) { __CPROVER_assert(!g_pending_swap, "joins are looked for after the swap"); }
#define CheckJoinLeft(s, e, p, b) CheckJoinLeft__p(s, &(e), p, b)
#define CheckJoinRight(s, e, p, b) CheckJoinRight__p(s, &(e), p, b)
//@extract file=CPP/Clipper2Lib/src/clipper.engine.cpp func=EdgesAdjacentInAEL byptr=inode
//@end
//@extract file=CPP/Clipper2Lib/src/clipper.engine.cpp func=ClipperBase::SwapPositionsInAEL as=SwapPositionsInAEL__r self=ClipperBase byptr=e1,e2
//@end
static void SwapPositionsInAEL__c(ClipperBase* self, Active* e1, Active* e2) { __CPROVER_assert(g_pending_swap && e1 == g_last1 && e2 == g_last2, "exactly the pair just intersected is swapped"); g_pending_swap = false; g_nswaps++; SwapPositionsInAEL__r(self, e1, e2); }
#define SwapPositionsInAEL(s, a, b) SwapPositionsInAEL__c(s, &(a), &(b))
//@extract file=CPP/Clipper2Lib/src/clipper.engine.cpp func=ClipperBase::ProcessIntersectList self=ClipperBase selfcalls=IntersectEdges,SwapPositionsInAEL,CheckJoinLeft,CheckJoinRight
//@presub /std::sort\(intersect_nodes_\.begin\(\), intersect_nodes_\.end\(\), IntersectListSort\);/vf_sort_nodes();/
//@presub /IntersectNodeList::iterator node_iter, node_iter2;/size_t node_iter, node_iter2;/
//@presub /node_iter = intersect_nodes_\.begin\(\);/node_iter = 0;/
//@presub /node_iter != intersect_nodes_\.end\(\);/node_iter != g_nn;/
//@presub /EdgesAdjacentInAEL\(\*(node_iter2?)\)/EdgesAdjacentInAEL(VF_NODE(\1))/ min=2
//@presub /std::swap\(\*node_iter, \*node_iter2\);/VF_SWAP_NODES(node_iter, node_iter2);/
//@presub /IntersectNode& node = \*node_iter;/IntersectNode* node_p = VF_NODE(node_iter);/
//@presub /\bnode\./node_p->/ min=6
//@end
void h_PIL(void)
{
  ClipperBase cb;
  for (int i = 0; i < N; ++i) { g_p[i]->prev_in_ael = i ? g_p[i - 1] : NULL; g_p[i]->next_in_ael = (i + 1 < N) ? g_p[i + 1] : NULL; g_p[i]->curr_x = nondet_i64(); g_topx[i] = nondet_i64(); }
  cb.actives_ = &g_e0;
  /* what BuildIntersectList delivers (C01_intersectlist): one node, left edge first, for exactly the pairs that change order */
  g_nn = 0;
  for (int i = 0; i < N; ++i) for (int j = i + 1; j < N; ++j) if (g_topx[j] < g_topx[i]) { g_nodes[g_nn].edge1 = g_p[i]; g_nodes[g_nn].edge2 = g_p[j]; g_nodes[g_nn].pt.x = nondet_i64(); g_nodes[g_nn].pt.y = nondet_i64(); g_nn++; }
  size_t nn0 = g_nn; g_ncalls = 0; g_nswaps = 0; g_pending_swap = false;
  ProcessIntersectList(&cb);
  __CPROVER_assert(g_ncalls == (int)nn0 && g_nswaps == (int)nn0 && !g_pending_swap, "every node is processed exactly once: one IntersectEdges and one swap each");
  /* the AEL is now ordered by x at the top of the scanbeam */
  __CPROVER_assert(cb.actives_ != NULL && cb.actives_->prev_in_ael == NULL, "actives_ is the head");
  unsigned seen = 0, n = 0; Active* p = cb.actives_;
  for (int k = 0; k < N && p; ++k) {
    int q = eidx(p); __CPROVER_assert(q >= 0 && !(seen & (1u << q)), "every edge once"); seen |= 1u << q; ++n;
    if (p->next_in_ael) { int q2 = eidx(p->next_in_ael); __CPROVER_assert(p->next_in_ael->prev_in_ael == p, "links consistent"); __CPROVER_assert(q2 >= 0 && (g_topx[q] < g_topx[q2] || (g_topx[q] == g_topx[q2] && q < q2)), "ordered by x at the top; edges that meet there keep their order"); }
    p = p->next_in_ael;
  }
  __CPROVER_assert(n == N && p == NULL, "the AEL holds all edges and ends");
  VF_CANARY();
}
//@run name=ProcessIntersectList.ael3 entry=h_PIL defs=N=3 unwind=5 flags="--bounds-check --pointer-check" timeout=600 bounded="AEL of 3 edges, every target order and every processing order of the nodes"
//@run name=ProcessIntersectList.ael4 entry=h_PIL defs=N=4 unwind=8 flags="--bounds-check --pointer-check" solver=cadical timeout=1800 tier=thorough bounded="AEL of 4 edges, every target order and every processing order of the nodes"
//@assume A5 (C01_processintersect): std::sort with IntersectListSort is an arbitrary permutation; IntersectEdges, CheckJoinLeft, CheckJoinRight are stubs that check the state they are called in; the node list is what C01_intersectlist proves BuildIntersectList delivers.
