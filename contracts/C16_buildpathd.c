//@unit C16_buildpathd
//@props C16 C03
//@safetyprops C10 C14
//@desc BuildPathD - BOUNDED (OutPt ring of exactly N nodes, N = 2, 3, 4; start node, direction and coordinates symbolic), both build configurations: like BuildPath64 it refuses rings of fewer than three nodes (closed) and very small triangles and drops consecutive duplicates; every emitted vertex is (pt.x * inv_scale, pt.y * inv_scale) of the ring vertex it stands for - x from x, y from y, the SAME inv_scale for both and for every vertex - in ring order from the documented start in the requested direction (products are applications of one uninterpreted function); with USINGZ z is carried.
#include "vf.h"
//@include engine_types.inc
#ifndef N
#define N 4
#endif
static inline bool Point64_eq(Point64 a, Point64 b) { return a.x == b.x && a.y == b.y; }
double __CPROVER_uninterpreted_imul(int64_t, double);   /* every product here is (int64 coordinate) * (double scale) */
#define vf_fmul(a, b) __CPROVER_uninterpreted_imul((int64_t)(a), (double)(b))
typedef struct { PointD* data; size_t size; size_t cap; } OutPathD;
#ifdef USINGZ
#define VF_EMITD(p, X, Y, Z) do { __CPROVER_assert((p).size < (p).cap, "capacity"); (p).data[(p).size].x = (X); (p).data[(p).size].y = (Y); (p).data[(p).size].z = (Z); (p).size++; } while (0)
#else
#define VF_EMITD(p, X, Y) do { __CPROVER_assert((p).size < (p).cap, "capacity"); (p).data[(p).size].x = (X); (p).data[(p).size].y = (Y); (p).size++; } while (0)
#endif
//@extract file=CPP/Clipper2Lib/src/clipper.engine.cpp func=PtsReallyClose byval=pt1,pt2
//@end
//@extract file=CPP/Clipper2Lib/src/clipper.engine.cpp func=IsVerySmallTriangle byptr=op refmacro=1
//@end
//@extract file=CPP/Clipper2Lib/src/clipper.engine.cpp func=BuildPathD byptr=path cpp=USINGZ ifdef=USINGZ
//@include C16_buildpathd_subs.inc
//@end
//@extract file=CPP/Clipper2Lib/src/clipper.engine.cpp func=BuildPathD byptr=path cpp=NOTHING ifndef=USINGZ
//@include C16_buildpathd_subs.inc
//@end
unsigned nondet_uint(void); int64_t nondet_i64(void); bool nondet_bool(void); double nondet_double(void);
#define C61 ((int64_t)1 << 61)
#define SAMED(a, b) (*(const int64_t*)&(a) == *(const int64_t*)&(b))
void h_BPD(void)
{
  OutPt n[N]; PointD buf[N + 1]; OutPathD path = { buf, 0, N + 1 }; double inv = nondet_double();
  for (int i = 0; i < N; ++i) { n[i].pt.x = nondet_i64(); n[i].pt.y = nondet_i64(); __CPROVER_assume(n[i].pt.x >= -C61 && n[i].pt.x <= C61 && n[i].pt.y >= -C61 && n[i].pt.y <= C61);
#ifdef USINGZ
    n[i].pt.z = nondet_i64();
#endif
    n[i].next = &n[(i + 1) % N]; n[i].prev = &n[(i + N - 1) % N]; }
  unsigned s = nondet_uint(); __CPROVER_assume(s < N); bool reverse = nondet_bool();
  bool ok = BuildPathD(&n[s], reverse, false, &path, inv);
  if (N < 3) __CPROVER_assert(!ok, "rings of fewer than three nodes are refused");
  if (N >= 3) {
    size_t o = 0; Point64 last;
    for (int k = 0; k < N; ++k) { int idx = reverse ? (int)((s + N - k) % N) : (int)((s + 1 + k) % N);
      if (k == 0 || !Point64_eq(n[idx].pt, last)) {
        __CPROVER_assert(o < path.size, "one output vertex per distinct ring vertex");
        double ex = vf_fmul(n[idx].pt.x, inv), ey = vf_fmul(n[idx].pt.y, inv);
        __CPROVER_assert(SAMED(path.data[o].x, ex) && SAMED(path.data[o].y, ey), "output vertex = (x * inv_scale, y * inv_scale) of the ring vertex, in ring order");
#ifdef USINGZ
        __CPROVER_assert(path.data[o].z == n[idx].pt.z, "z is carried");
#endif
        last = n[idx].pt; o++; } }
    __CPROVER_assert(o == path.size, "nothing else is in the path");
  }
  VF_CANARY();
}
//@run name=BuildPathD.n2 entry=h_BPD defs=N=2 unwind=4 flags="--bounds-check --pointer-check --signed-overflow-check" solver=cadical timeout=300 bounded="ring of exactly 2 nodes"
//@run name=BuildPathD.n3 entry=h_BPD defs=N=3 unwind=5 flags="--bounds-check --pointer-check --signed-overflow-check" solver=cadical timeout=300 bounded="ring of exactly 3 nodes"
//@run name=BuildPathD.n4 tier=thorough entry=h_BPD defs=N=4 unwind=6 flags="--bounds-check --pointer-check --signed-overflow-check" solver=cadical timeout=600 bounded="ring of exactly 4 nodes"
//@run name=BuildPathD.n3.Z entry=h_BPD defs=N=3,USINGZ unwind=5 flags="--bounds-check --pointer-check --signed-overflow-check" solver=cadical timeout=300 bounded="ring of exactly 3 nodes, USINGZ"
//@assume R21b (C16_buildpathd): the descaling products are applications of one uninterpreted function (what is proved is which coordinate is multiplied by which factor, not the rounding of the product).
