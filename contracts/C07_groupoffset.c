//@unit C07_groupoffset
//@props C07 C12 C06
//@safetyprops C10 C14
//@desc ClipperOffset::DoGroupOffset, unbounded in the number of paths of the group (loop contract; callees are stubs with the index-safety preconditions their own bodies need): (C06) group_delta_ gets the sign the group's orientation requires; (C07/C12) every path is offset with the end type, join type and delta derived from the group and from that path alone — state left by an earlier path or group never reaches a later one; (C10) the helpers are only called with paths long enough for their indexing.
#include "vf.h"
//@enum file=CPP/Clipper2Lib/include/clipper2/clipper.offset.h name=JoinType
//@enum file=CPP/Clipper2Lib/include/clipper2/clipper.offset.h name=EndType
typedef struct { int64_t x, y; } Point64;
typedef struct { long tok; size_t size; } VTok;           /* a path: identity + length */
typedef VTok Path64; typedef VTok PathD; typedef VTok Rect64;
typedef struct { VTok* data; size_t size; } PathsV;        /* Paths64 read through sizes only */
typedef struct { long tok; } Paths64; typedef struct { long tok; } PolyTree64;
typedef struct { size_t size; size_t cap; } VecN;          /* member vectors: only their length matters here */
typedef void* DeltaCallback64;
typedef struct Group Group; typedef struct ClipperOffset ClipperOffset;
//@struct file=CPP/Clipper2Lib/include/clipper2/clipper.offset.h name=Group retype=paths_in:PathsV
//@struct file=CPP/Clipper2Lib/include/clipper2/clipper.offset.h name=ClipperOffset retype=norms:VecN,path_out:VecN
//@const file=CPP/Clipper2Lib/src/clipper.offset.cpp name=floating_point_tolerance,arc_const
#define PI 3.141592653589793238
#define ENUM_OK(e, max) ((unsigned)(e) <= (unsigned)(max))
#define FABS_(v) ((v) < 0 ? -(v) : (v))

/* what end type a path of the group must be offset with (from the group and this path alone) */
#define EXPECTED_ET(g, len) (((g)->end_type == EndType_Joined && (len) == 2) ? ((g)->join_type == JoinType_Round ? EndType_Round : EndType_Square) : (g)->end_type)
size_t g_emits;        /* ghost: number of paths appended to the solution */
/* ---- callee stubs (R15): index-safety preconditions taken from the callees' own bodies ---- */
int g_sin_n, g_cos_n; double g_sin_ret, g_cos_ret;   /* ghost: the arc-step trigonometry has been evaluated */
double vf_acos(double v) __CPROVER_requires(1) __CPROVER_ensures(1) __CPROVER_assigns();
double vf_sin(double v) __CPROVER_requires(g_sin_n < 1000) __CPROVER_ensures(g_sin_n == __CPROVER_old(g_sin_n) + 1 && __CPROVER_return_value == g_sin_ret) __CPROVER_assigns(g_sin_n);
double vf_cos(double v) __CPROVER_requires(g_cos_n < 1000) __CPROVER_ensures(g_cos_n == __CPROVER_old(g_cos_n) + 1 && __CPROVER_return_value == g_cos_ret) __CPROVER_assigns(g_cos_n);
double vf_ceil(double v) __CPROVER_requires(1) __CPROVER_ensures(__CPROVER_return_value >= v) __CPROVER_assigns();
Point64 vf_first_point(VTok path) __CPROVER_requires(path.size >= 1) __CPROVER_ensures(1) __CPROVER_assigns();
VTok Ellipse(Point64 c, double rx, double ry, size_t steps) __CPROVER_requires(1) __CPROVER_ensures(1) __CPROVER_assigns();
VTok vf_rect64(int64_t l, int64_t t, int64_t r, int64_t b) __CPROVER_requires(1) __CPROVER_ensures(1) __CPROVER_assigns();
VTok Rect64_AsPath(VTok* r) __CPROVER_requires(1) __CPROVER_ensures(__CPROVER_return_value.size == 4) __CPROVER_assigns();
void vf_emit(ClipperOffset* self)
__CPROVER_requires(g_emits < ((size_t)1 << 42))
__CPROVER_ensures(g_emits == __CPROVER_old(g_emits) + 1)
__CPROVER_assigns(g_emits);
/* BuildNormals: norms[i] for every i < path.size (path.size == 0: norms empty) */
void BuildNormals(ClipperOffset* self, VTok path)
__CPROVER_requires(1)
__CPROVER_ensures(self->norms.size == path.size)
__CPROVER_assigns(self->norms);
#define SAME_PATH_STATE (self->join_type_ == group->join_type && self->delta_ == g_delta0)
double g_delta0;       /* ghost: delta_ as given to Execute */
#define OffsetPolygon(s_, g_, p_) OffsetPolygon__p(s_, &(g_), p_)
void OffsetPolygon__p(ClipperOffset* self, Group* group, VTok path)
__CPROVER_requires(self->end_type_ == EndType_Polygon && EXPECTED_ET(group, path.size) == EndType_Polygon && path.size >= 1 /* k = path.size() - 1 */ && self->norms.size == path.size && SAME_PATH_STATE)
__CPROVER_ensures(g_emits == __CPROVER_old(g_emits) + 1)
__CPROVER_assigns(self->path_out, g_emits);
#define OffsetOpenJoined(s_, g_, p_) OffsetOpenJoined__p(s_, &(g_), p_)
void OffsetOpenJoined__p(ClipperOffset* self, Group* group, VTok path)
/* norms[0] and the reversed copy need a non-empty path */
__CPROVER_requires(self->end_type_ == EndType_Joined && EXPECTED_ET(group, path.size) == EndType_Joined && path.size >= 1 && self->norms.size == path.size && SAME_PATH_STATE)
__CPROVER_ensures(g_emits == __CPROVER_old(g_emits) + 2)
__CPROVER_assigns(self->path_out, self->norms, g_emits);
#define OffsetOpenPath(s_, g_, p_) OffsetOpenPath__p(s_, &(g_), p_)
void OffsetOpenPath__p(ClipperOffset* self, Group* group, VTok path)
/* path[0], path[highI], norms[highI], norms[i-1]: path.size >= 1; appends to path_out, which must start empty */
__CPROVER_requires(self->end_type_ == EXPECTED_ET(group, path.size) && self->end_type_ != EndType_Polygon && self->end_type_ != EndType_Joined)
__CPROVER_requires(path.size >= 2 /* j = highI - 1 must not wrap (contract of OffsetOpenPath, C06_offsetpoint) */ && self->norms.size == path.size && self->path_out.size == 0 && SAME_PATH_STATE)
__CPROVER_ensures(g_emits == __CPROVER_old(g_emits) + 1)
__CPROVER_assigns(self->path_out, self->norms, g_emits);
//@assume A5: callees of DoGroupOffset (BuildNormals, OffsetPolygon, OffsetOpenJoined, OffsetOpenPath, Ellipse, Rect64::AsPath, trigonometry) are stubs; their requires clauses are the obligations DoGroupOffset must meet at each call site. The delta-callback mode (deltaCallback64_ != nullptr) is not covered.

//@extract file=CPP/Clipper2Lib/src/clipper.offset.cpp func=ClipperOffset::DoGroupOffset self=ClipperOffset byptr=group iters=group.paths_in:path_in_it vec=path_out,group.paths_in members=norms,path_out,solution,solution_tree selfcalls=BuildNormals,OffsetPolygon,OffsetOpenJoined,OffsetOpenPath cpp=NOUSINGZ
//@presub /\(\*path_in_it\)\[0\]/vf_first_point(*path_in_it)/
//@presub /const Point64& pt =/const Point64 pt =/
//@presub /std::abs\(/fabs(/ min=2
//@presub /Rect64 r = Rect64\(/Rect64 r = vf_rect64(/
//@presub /r\.AsPath\(\)/Rect64_AsPath(&r)/
//@sub /\.data\[path_in_it\]\.size\(\)/.data[path_in_it].size/
//@sub /\b(acos|sin|cos|ceil)\(/vf_\1(/ min=3
//@sub /self->solution->emplace_back\(self->path_out\)/vf_emit(self)/
//@sub /(?<!>)deltaCallback64_\(([^;]*)\);/0.0;/ min=0
//@sub /VF_CLEAR\(self->path_out\)/VF_CLEAR(self->path_out)/
//@sub /self->path_out = (Ellipse|Rect64_AsPath)\(([^;]*)\);/{ VTok tmp_ = \1(\2); self->path_out.size = tmp_.size; }/ min=2
__CPROVER_requires(__CPROVER_is_fresh(self, sizeof(*self)) && __CPROVER_is_fresh(group, sizeof(*group)))
__CPROVER_requires(group->paths_in.size < ((size_t)1 << 40) && __CPROVER_is_fresh(group->paths_in.data, group->paths_in.size * sizeof(VTok)))
__CPROVER_requires(ENUM_OK(group->end_type, EndType_Round) && ENUM_OK(group->join_type, JoinType_Miter) && self->deltaCallback64_ == NULL)
__CPROVER_requires(!__CPROVER_isnand(self->delta_) && !__CPROVER_isinfd(self->delta_) && FABS_(self->delta_) >= 0.5 && self->delta_ == g_delta0)
__CPROVER_requires(!__CPROVER_isnand(self->arc_tolerance_) && g_emits == 0 && g_sin_n == 0 && g_cos_n == 0 && !__CPROVER_isnand(g_sin_ret) && !__CPROVER_isnand(g_cos_ret) && !__CPROVER_isnand(self->step_sin_) && !__CPROVER_isnand(self->step_cos_))
/* C06: sign of the group delta */
__CPROVER_ensures(group->end_type == EndType_Polygon ==>
   self->group_delta_ == (group->is_reversed ? -(group->lowest_path_idx.has ? g_delta0 : FABS_(g_delta0)) : (group->lowest_path_idx.has ? g_delta0 : FABS_(g_delta0))))
__CPROVER_ensures((group->end_type != EndType_Polygon && group->paths_in.size == 0) ==> self->group_delta_ == FABS_(g_delta0))
/* C07/C06: whenever arcs will be drawn for this group - round joins OR round ends - the arc step is set up from this group's delta before any path is offset (rotation by step_sin_/step_cos_, its sense following the sign of the group delta) */
#define ARCS (group->join_type == JoinType_Round || group->end_type == EndType_Round)
__CPROVER_ensures(ARCS ==> (g_sin_n == 1 && g_cos_n == 1 && self->step_cos_ == g_cos_ret && self->step_sin_ == (self->group_delta_ < 0.0 ? -g_sin_ret : g_sin_ret)))
/* C12/C07: nothing the next group or the next Execute depends on is left changed */
__CPROVER_ensures(self->delta_ == g_delta0)
__CPROVER_ensures(self->join_type_ == group->join_type)
__CPROVER_assigns(self->delta_, self->group_delta_, self->join_type_, self->end_type_, self->step_sin_, self->step_cos_, self->steps_per_rad_, self->path_out, self->norms, g_emits, g_sin_n, g_cos_n)
//@loop 1
__CPROVER_assigns(path_in_it, self->end_type_, self->path_out, self->norms, self->group_delta_, abs_delta, g_emits)
__CPROVER_loop_invariant(path_in_it <= group->paths_in.size)
__CPROVER_loop_invariant(self->join_type_ == group->join_type && self->delta_ == g_delta0 && self->step_sin_ == __CPROVER_loop_entry(self->step_sin_) && self->step_cos_ == __CPROVER_loop_entry(self->step_cos_))
__CPROVER_loop_invariant(g_emits <= 2 * path_in_it)
__CPROVER_loop_invariant(self->group_delta_ == __CPROVER_loop_entry(self->group_delta_))
__CPROVER_loop_invariant(self->end_type_ == group->end_type || path_in_it > 0)
__CPROVER_decreases(group->paths_in.size - path_in_it)
//@end
void h_DGO(void) { ClipperOffset* s; Group* g; DoGroupOffset(s, g); VF_CANARY(); }
//@run name=DoGroupOffset entry=h_DGO enforce=DoGroupOffset replace=vf_acos,vf_sin,vf_cos,vf_ceil,vf_first_point,Ellipse,vf_rect64,Rect64_AsPath,vf_emit,BuildNormals,OffsetPolygon__p,OffsetOpenJoined__p,OffsetOpenPath__p loops=1 flags="--bounds-check --pointer-check --unsigned-overflow-check --div-by-zero-check" timeout=300
