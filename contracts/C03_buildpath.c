//@unit C03_buildpath
//@props C03
//@safetyprops C10 C14
//@desc BuildPath64 — BOUNDED (OutPt ring of exactly N nodes per run, N = 1..6; start node, direction and all coordinates symbolic): it refuses rings of fewer than three nodes and very small triangles; otherwise the path is the ring walked from the documented start in the requested direction with consecutive duplicates collapsed, so no two consecutive output vertices are equal; and when no two adjacent ring nodes are equal (what CleanCollinear leaves) the closed path has exactly N >= 3 vertices and its last vertex differs from its first.
#include "vf.h"
//@include engine_types.inc
#ifndef N
#define N 4
#endif
static inline bool Point64_eq(Point64 a, Point64 b) { return a.x == b.x && a.y == b.y; }
typedef struct { Point64* data; size_t size; size_t cap; } OutPath;
//@extract file=CPP/Clipper2Lib/src/clipper.engine.cpp func=PtsReallyClose byval=pt1,pt2
//@end
//@extract file=CPP/Clipper2Lib/src/clipper.engine.cpp func=IsVerySmallTriangle byptr=op refmacro=1
//@end
//@extract file=CPP/Clipper2Lib/src/clipper.engine.cpp func=BuildPath64 byptr=path vec=path
//@presub /Path64& path/OutPath& path/
//@sub /op2->pt != lastPt/!Point64_eq(op2->pt, lastPt)/
//@sub /VF_CLEAR\(\(\*path\)\)/path->size = 0/ min=0
//@sub /\(\*path\)\.resize\(0\)/path->size = 0/ min=0
//@sub /\(\*path\)\.emplace_back\(lastPt\)/VF_PUSH((*path), lastPt)/ min=0
//@sub /\(\*path\)\.size\(\)/path->size/ min=0
//@end
unsigned nondet_uint(void); int64_t nondet_i64(void); bool nondet_bool(void);
#define C61 ((int64_t)1 << 61)
#define CLOSE(p,q) ((p).x - (q).x < 2 && (p).x - (q).x > -2 && (p).y - (q).y < 2 && (p).y - (q).y > -2)
void h_BP(void)
{
  OutPt n[N]; Point64 buf[N + 1]; OutPath path = { buf, 0, N + 1 };
  for (int i = 0; i < N; ++i) { n[i].pt.x = nondet_i64(); n[i].pt.y = nondet_i64(); __CPROVER_assume(n[i].pt.x >= -C61 && n[i].pt.x <= C61 && n[i].pt.y >= -C61 && n[i].pt.y <= C61);
    n[i].next = &n[(i + 1) % N]; n[i].prev = &n[(i + N - 1) % N]; }
  unsigned s = nondet_uint(); __CPROVER_assume(s < N); bool reverse = nondet_bool();
  bool ok = BuildPath64(&n[s], reverse, false, &path);
  bool tiny3 = N == 3 && (CLOSE(n[0].pt, n[1].pt) || CLOSE(n[1].pt, n[2].pt) || CLOSE(n[0].pt, n[2].pt));
  if (N < 3) __CPROVER_assert(!ok, "rings of fewer than three nodes are refused");
  if (N >= 3) {
    /* expected walk: reverse ? s, s-1, ... : s+1, s+2, ... ; consecutive duplicates collapsed */
    size_t o = 0; Point64 last; bool adj_distinct = true;
    for (int k = 0; k < N; ++k) { int idx = reverse ? (int)((s + N - k) % N) : (int)((s + 1 + k) % N);
      if (k == 0 || !Point64_eq(n[idx].pt, last)) { __CPROVER_assert(o < path.size && Point64_eq(path.data[o], n[idx].pt), "output follows the ring from the documented start in the requested direction"); last = n[idx].pt; o++; } }
    __CPROVER_assert(o == path.size, "nothing else is in the path");
    for (int k = 1; k < N + 1; ++k) if ((size_t)k < path.size) __CPROVER_assert(!Point64_eq(path.data[k], path.data[k - 1]), "no two consecutive output vertices are equal");
    for (int i = 0; i < N; ++i) if (Point64_eq(n[i].pt, n[(i + 1) % N].pt)) adj_distinct = false;
    __CPROVER_assert(ok == !(path.size == 3 && N == 3 && tiny3), "refused exactly for a very small triangle");
    if (adj_distinct) __CPROVER_assert(path.size == N && !Point64_eq(path.data[0], path.data[path.size - 1]), "with no equal adjacent nodes: N vertices, last != first");
  }
  VF_CANARY();
}
//@run name=BuildPath64.n2 entry=h_BP defs=N=2 unwind=4 flags=SAFETY timeout=300 bounded="ring of exactly 2 nodes"
//@run name=BuildPath64.n3 entry=h_BP defs=N=3 unwind=5 flags=SAFETY timeout=300 bounded="ring of exactly 3 nodes, coordinates symbolic up to 2^61"
//@run name=BuildPath64.n4 entry=h_BP defs=N=4 unwind=6 flags=SAFETY timeout=600 bounded="ring of exactly 4 nodes"
//@run name=BuildPath64.n6 entry=h_BP defs=N=6 unwind=8 flags=SAFETY timeout=900 bounded="ring of exactly 6 nodes" tier=thorough
