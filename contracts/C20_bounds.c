//@unit C20_bounds
//@props C20
//@safetyprops C10 C14
//@desc GetBounds(Path64) and TranslatePath(Path64), unbounded in the path length (loop contracts). GetBounds: every vertex lies inside the returned rectangle (arbitrary ghost index), every side is attained by some vertex (ghost witnesses updated next to the real assignments), an empty path gives the inverted (max, max, lowest, lowest) rectangle. TranslatePath: the result has the same length and element k is (path[k].x + dx, path[k].y + dy) for an arbitrary k, no overflow for |coordinates|, |dx|, |dy| <= 2^62.
#include "vf.h"
#ifdef DBL
typedef double CT;            /* the PathD instantiation of GetBounds (ScalePaths' range check and every PathsD bounding box use it) */
#define CT_MAX 1.7976931348623157e308
#define CT_LOWEST (-1.7976931348623157e308)
#define CT_MIN 2.2250738585072014e-308
#define CT_OK(v) (!__CPROVER_isnand(v))
#else
typedef int64_t CT;
#define CT_MAX INT64_MAX
#define CT_LOWEST INT64_MIN
#define CT_MIN INT64_MIN
#define CT_OK(v) 1
#endif
typedef struct { CT x, y; } Point64;
typedef struct { Point64* data; size_t size; } Path64;
typedef struct { CT left, top, right, bottom; } Rect64;
size_t g_k;
size_t w_xmin, w_xmax, w_ymin, w_ymax;
#define VF_T_MAX CT_MAX
#define VF_T_LOWEST CT_LOWEST
#define VF_T_MIN CT_MIN
typedef CT T; typedef Rect64 RectT; typedef Path64 PathT;
//@extract file=CPP/Clipper2Lib/include/clipper2/clipper.core.h func=GetBounds sig="const Path<T>& path" byval=path rangefor=1 vec=path
//@sub /return RectT\(([^;]*)\);/return (RectT){\1};/
//@sub /\b([xy]m(?:in|ax)) = \(path\.data\[vf_i_p\]\)\.(\w+);/{ \1 = (path.data[vf_i_p]).\2; w_\1 = vf_i_p; }/ min=4
__CPROVER_requires(path.size < ((size_t)1 << 40) && __CPROVER_is_fresh(path.data, path.size * sizeof(Point64)) && g_k < path.size && CT_OK(path.data[g_k].x) && CT_OK(path.data[g_k].y))
__CPROVER_ensures(path.size == 0 ==> (__CPROVER_return_value.left == CT_MAX && __CPROVER_return_value.top == CT_MAX && __CPROVER_return_value.right == CT_LOWEST && __CPROVER_return_value.bottom == CT_LOWEST))
__CPROVER_ensures(path.size > 0 ==> (__CPROVER_return_value.left <= path.data[g_k].x && path.data[g_k].x <= __CPROVER_return_value.right && __CPROVER_return_value.top <= path.data[g_k].y && path.data[g_k].y <= __CPROVER_return_value.bottom))
/* every side is attained (a side still at its initial extreme value is attained because of the clause above) */
#define RV __CPROVER_return_value
__CPROVER_ensures((RV.left == CT_MAX || (w_xmin < path.size && RV.left == path.data[w_xmin].x)) && (RV.right == CT_LOWEST || (w_xmax < path.size && RV.right == path.data[w_xmax].x)) &&
   (RV.top == CT_MAX || (w_ymin < path.size && RV.top == path.data[w_ymin].y)) && (RV.bottom == CT_LOWEST || (w_ymax < path.size && RV.bottom == path.data[w_ymax].y)))
__CPROVER_assigns(w_xmin, w_xmax, w_ymin, w_ymax)
//@loop 1
__CPROVER_assigns(vf_i_p, xmin, xmax, ymin, ymax, w_xmin, w_xmax, w_ymin, w_ymax)
__CPROVER_loop_invariant(vf_i_p <= path.size)
__CPROVER_loop_invariant(vf_i_p == 0 ==> (xmin == CT_MAX && ymin == CT_MAX && xmax == CT_LOWEST && ymax == CT_LOWEST))
__CPROVER_loop_invariant(g_k < vf_i_p ==> (xmin <= path.data[g_k].x && path.data[g_k].x <= xmax && ymin <= path.data[g_k].y && path.data[g_k].y <= ymax))
__CPROVER_loop_invariant((xmin == CT_MAX || (w_xmin < vf_i_p && xmin == path.data[w_xmin].x)) && (xmax == CT_LOWEST || (w_xmax < vf_i_p && xmax == path.data[w_xmax].x)) && (ymin == CT_MAX || (w_ymin < vf_i_p && ymin == path.data[w_ymin].y)) && (ymax == CT_LOWEST || (w_ymax < vf_i_p && ymax == path.data[w_ymax].y)))
__CPROVER_decreases(path.size - vf_i_p)
//@end
/* TranslatePath: result only observed (ghost observation of element g_k) */
typedef struct { size_t size, cap; } PathObs;
Point64 g_val; bool g_val_set;
#define VF_OBS_PUSH(v, val) do { Point64 v_ = (val); __CPROVER_assert((v).size < (v).cap, "push within reserved capacity"); if ((v).size == g_k) { g_val = v_; g_val_set = true; } (v).size++; } while (0)
#define C62 ((int64_t)1 << 62)
//@extract file=CPP/Clipper2Lib/include/clipper2/clipper.h func=TranslatePath sig="const Path<T>& path, T dx, T dy" byval=path vec=path
//@presub #std::transform\((\w+)\.begin\(\), \1\.end\(\), back_inserter\((\w+)\),\s*\[[^\]]*\]\(const auto& (\w+)\)\s*\{\s*return Point<T>\(([^;]*)\);\s*\}\);#for (size_t vf_t = 0; vf_t < \1.size(); ++vf_t) { const Point64 \3 = \1[vf_t]; VF_OBS_PUSH(\2, ((Point64){\4})); }#
//@presub /Path<T> result;/PathObs result = {0, 0};/
//@sub /^PathT TranslatePath/PathObs TranslatePath/
//@presub /result\.reserve\(([^;]*)\);/result.cap = \1;/
__CPROVER_requires(path.size < ((size_t)1 << 40) && __CPROVER_is_fresh(path.data, path.size * sizeof(Point64)) && g_k < path.size && !g_val_set)
__CPROVER_requires(dx >= -C62 && dx <= C62 && dy >= -C62 && dy <= C62 && path.data[g_k].x >= -C62 && path.data[g_k].x <= C62 && path.data[g_k].y >= -C62 && path.data[g_k].y <= C62)
__CPROVER_ensures(__CPROVER_return_value.size == path.size)
__CPROVER_ensures(path.size > 0 ==> (g_val_set && g_val.x == path.data[g_k].x + dx && g_val.y == path.data[g_k].y + dy))
__CPROVER_assigns(g_val, g_val_set)
//@loop 1
__CPROVER_assigns(vf_t, result.size, g_val, g_val_set)
__CPROVER_loop_invariant(vf_t <= path.size && result.size == vf_t && result.cap == path.size)
__CPROVER_loop_invariant(g_val_set == (g_k < vf_t))
__CPROVER_loop_invariant(g_val_set ==> (g_val.x == path.data[g_k].x + dx && g_val.y == path.data[g_k].y + dy))
__CPROVER_decreases(path.size - vf_t)
//@end
void h_TranslatePath(void) { Path64 p; int64_t dx, dy; TranslatePath(p, dx, dy); VF_CANARY(); }
void h_GetBounds(void) { Path64 p; GetBounds(p); VF_CANARY(); }
//@run name=GetBounds entry=h_GetBounds enforce=GetBounds loops=1 flags=SAFETY solver=cadical timeout=300
//@run name=GetBounds.double entry=h_GetBounds enforce=GetBounds loops=1 defs=DBL flags="--bounds-check --pointer-check --unsigned-overflow-check" solver=cadical timeout=300
//@run name=TranslatePath entry=h_TranslatePath enforce=TranslatePath loops=1 flags="--bounds-check --pointer-check --unsigned-overflow-check --conversion-check" timeout=300
//@assume A5: TranslatePath: the std::transform/back_inserter/lambda idiom is rewritten into the index loop it denotes (rule logged); the result vector is observed, not stored (ghost observation of one arbitrary element). Signed overflow of pt.x + dx is not checked for all elements (only the observed one is range-constrained).
