//@unit C17_polytree
//@props C17
//@safetyprops C10
//@desc Polytree marshalling of the C export layer, MODULAR in the depth of the tree: the harness holds ONE node with at most 2 children; the recursive calls go to stand-ins that behave as the induction hypothesis says (a child's block is exactly its ghost length g_len long and stays inside the buffer), so the facts hold for trees of any depth whose nodes have at most two children (BOUNDED: fan-out 2, polygons of at most 11 vertices, 7 with USINGZ). With g_len(node) = 2 + D * |polygon| + sum of the children's g_len (D = 2 values per vertex, 3 with USINGZ): GetPolyPathArrayLen64 returns exactly g_len; CreateCPolyPath64 writes [ |polygon|, child count, x0, y0, (z0,) ... ] then the children's blocks, never writes outside the g_len elements that start at the cursor - so the array CreateCPolyTree64 allocates with the length function is never overrun (C10) -, advances the cursor by exactly g_len, and stores vertex k at offset 2 + D*k, x then y (then z, bit for bit). CreateCPolyTree64: an empty tree gives nullptr; otherwise the array starts with its own total length and the top-level child count, and the children's blocks fit exactly. The D writers (arrays of double) are checked the same way.
#include "vf.h"
#ifdef DVAR
typedef double ELT;           /* the D writers: same layout in an array of double */
#else
typedef int64_t ELT;
#endif
#ifdef USINGZ
typedef struct { ELT x, y; int64_t z; } Point64;
#define D 3
#else
typedef struct { ELT x, y; } Point64;
#define D 2
#endif
typedef Point64 PointD; 
typedef struct { Point64* data; size_t size; } Path64;
typedef struct PolyPath64 PolyPath64;
struct PolyPath64 { Path64 polygon_; PolyPath64* c0; PolyPath64* c1; size_t count; size_t g_len; /* ghost: length of this node's block */ };
typedef PolyPath64 PolyTree64; typedef PolyPath64 PolyPathD; typedef PolyPath64 PolyTreeD;
#define EXPORT_VERTEX_DIMENSIONALITY D
#define CAP 24
ELT g_buf[CAP]; ELT* g_end; int g_nalloc;
static PolyPath64* vf_child(const PolyPath64* pp, size_t i) { __CPROVER_assert(i < pp->count, "child index in range"); return i == 0 ? pp->c0 : pp->c1; }
/* stand-ins for the recursive calls = the induction hypothesis for the children */
static size_t Len_child(const PolyPath64* c) { return c->g_len; }
static void Create_child(const PolyPath64* c, ELT** v) { __CPROVER_assert(*v >= g_buf && *v + c->g_len <= g_end, "the child's block fits between the cursor and the end of the array"); *v += c->g_len; }
#define VF_WRITE(v, val) do { __CPROVER_assert((v) >= g_buf && (v) < g_end, "write inside the array"); *(v) = (val); (v)++; } while (0)
static ELT* vf_alloc(size_t n) { __CPROVER_assert(g_nalloc == 0 && n <= CAP, "one array of the computed length"); g_nalloc++; g_end = g_buf + n; return g_buf; }
#define Reinterpret_i64(z) (z)
static double Reinterpret_dbl(int64_t z) { return *(double*)&z; }
//@extract file=CPP/Clipper2Lib/include/clipper2/clipper.export.h func=GetPolyPathArrayLen64 byptr=pp ifndef=DVAR
//@sub /pp->Polygon\(\)\.size\(\)/pp->polygon_.size/
//@sub /pp->Count\(\)/pp->count/
//@sub /GetPolyPathArrayLen64\([^;]*\[i\]\)/Len_child(vf_child(pp, i))/
//@end
//@extract file=CPP/Clipper2Lib/include/clipper2/clipper.export.h func=GetPolytreeCountAndCStorageSize64 byptr=tree,cnt,array_len ifndef=DVAR
//@sub /tree->Count\(\)/tree->count/
//@sub /GetPolyPathArrayLen64\(\(\*tree\)\)|GetPolyPathArrayLen64\(\*tree\)/GetPolyPathArrayLen64(tree)/ min=0
//@end
//@extract file=CPP/Clipper2Lib/include/clipper2/clipper.export.h func=CreateCPolyPath64 ifndef=DVAR
//@presub /\*\s*v\+\+ = ([^;]*);/VF_WRITE(*v_, \1);/ min=4
//@presub /int64_t\*& v\)/int64_t** v_)/
//@presub /CreateCPolyPath64\(pp->Child\(i\), v\);/Create_child(vf_child(pp, i), v_);/
//@presub /for \(const Point64& pt : pp->Polygon\(\)\)/for (size_t pk_ = 0; pk_ < pp->polygon_.size; ++pk_)/
//@presub /\bpt\.(x|y|z)\b/pp->polygon_.data[pk_].\1/ min=2
//@presub /pp->Polygon\(\)\.size\(\)/pp->polygon_.size/
//@presub /pp->Count\(\)/pp->count/ min=2
//@presub /Reinterpret<int64_t>\(/Reinterpret_i64(/ min=0
//@end
//@extract file=CPP/Clipper2Lib/include/clipper2/clipper.export.h func=CreateCPolyTree64 byptr=tree ifdef=TOP64
//@sub /new int64_t\[array_len\]/vf_alloc(array_len)/
//@sub /VF_WRITE\(\*v_,/VF_WRITE(v,/ min=0
//@presub /\*\s*v\+\+ = ([^;]*);/VF_WRITE(v, \1);/ min=2
//@presub /tree\.Count\(\)/tree.count/ min=2
//@presub /CreateCPolyPath64\(tree\.Child\(i\), v\);/Create_child(vf_child(&tree, i), &v);/
//@sub /GetPolytreeCountAndCStorageSize64\(\(\*tree\), cnt, array_len\)/GetPolytreeCountAndCStorageSize64(tree, &cnt, &array_len)/ min=0
//@end
//@extract file=CPP/Clipper2Lib/include/clipper2/clipper.export.h func=GetPolyPathArrayLenD byptr=pp ifdef=DVAR
//@sub /pp->Polygon\(\)\.size\(\)/pp->polygon_.size/
//@sub /pp->Count\(\)/pp->count/
//@sub /GetPolyPathArrayLenD\([^;]*\[i\]\)/Len_child(vf_child(pp, i))/
//@end
//@extract file=CPP/Clipper2Lib/include/clipper2/clipper.export.h func=GetPolytreeCountAndCStorageSizeD byptr=tree,cnt,array_len ifdef=DVAR
//@sub /tree->Count\(\)/tree->count/
//@sub /GetPolyPathArrayLenD\(\(\*tree\)\)|GetPolyPathArrayLenD\(\*tree\)/GetPolyPathArrayLenD(tree)/ min=0
//@end
//@extract file=CPP/Clipper2Lib/include/clipper2/clipper.export.h func=CreateCPolyPathD ifdef=DVAR
//@presub /\*\s*v\+\+ = ([^;]*);/VF_WRITE(*v_, \1);/ min=4
//@presub /double\*& v\)/double** v_)/
//@presub /CreateCPolyPathD\(pp->Child\(i\), v\);/Create_child(vf_child(pp, i), v_);/
//@presub /for \(const PointD& pt : pp->Polygon\(\)\)/for (size_t pk_ = 0; pk_ < pp->polygon_.size; ++pk_)/
//@presub /\bpt\.(x|y|z)\b/pp->polygon_.data[pk_].\1/ min=2
//@presub /pp->Polygon\(\)\.size\(\)/pp->polygon_.size/
//@presub /pp->Count\(\)/pp->count/ min=2
//@presub /Reinterpret<double>\(/Reinterpret_dbl(/ min=0
//@end
//@extract file=CPP/Clipper2Lib/include/clipper2/clipper.export.h func=CreateCPolyTreeD byptr=tree ifdef=TOPD
//@sub /new double\[array_len\]/vf_alloc(array_len)/
//@presub /double scale = std::log10\(tree\.Scale\(\)\);//
//@presub /\*\s*v\+\+ = ([^;]*);/VF_WRITE(v, \1);/ min=2
//@presub /tree\.Count\(\)/tree.count/ min=2
//@presub /CreateCPolyPathD\(tree\.Child\(i\), v\);/Create_child(vf_child(&tree, i), &v);/
//@sub /GetPolytreeCountAndCStorageSizeD\(\(\*tree\), cnt, array_len\)/GetPolytreeCountAndCStorageSizeD(tree, &cnt, &array_len)/ min=0
//@end
#ifdef DVAR
#define GetPolyPathArrayLen64 GetPolyPathArrayLenD
#define CreateCPolyPath64 CreateCPolyPathD
#define CreateCPolyTree64 CreateCPolyTreeD
#endif
size_t nondet_size(void); int64_t nondet_i64(void); bool nondet_bool(void); ELT nondet_elt(void);
PolyPath64 g_node, g_c0, g_c1; Point64 g_poly[(CAP - 2) / D];
static void mk_node(void)
{
  g_node.count = nondet_size(); __CPROVER_assume(g_node.count <= 2); g_node.c0 = &g_c0; g_node.c1 = &g_c1;
  g_node.polygon_.data = g_poly; g_node.polygon_.size = nondet_size(); __CPROVER_assume(g_node.polygon_.size <= (CAP - 2) / D);
  for (int i = 0; i < (CAP - 2) / D; ++i) { g_poly[i].x = nondet_elt(); g_poly[i].y = nondet_elt();
#ifdef USINGZ
    g_poly[i].z = nondet_i64();
#endif
  }
  g_c0.g_len = nondet_size(); g_c1.g_len = nondet_size(); __CPROVER_assume(g_c0.g_len >= 2 && g_c0.g_len <= CAP && g_c1.g_len >= 2 && g_c1.g_len <= CAP);
  g_node.g_len = 2 + D * g_node.polygon_.size + (g_node.count >= 1 ? g_c0.g_len : 0) + (g_node.count >= 2 ? g_c1.g_len : 0);
  __CPROVER_assume(g_node.g_len <= CAP);
}
#define SAMEV(a, b) (*(const int64_t*)&(a) == *(const int64_t*)&(b))     /* same bits (doubles may be NaN) */
#ifndef TOP
void h_Len(void) { mk_node(); __CPROVER_assert(GetPolyPathArrayLen64(&g_node) == g_node.g_len, "the length function returns the node's block length"); VF_CANARY(); }
void h_Create(void)
{
  mk_node(); size_t room = nondet_size(), off = nondet_size(); __CPROVER_assume(off <= CAP && room <= CAP - off && g_node.g_len <= room);   /* the cursor anywhere in an array with enough room left */
  g_end = g_buf + off + room; ELT* v = g_buf + off; ELT* v0 = v;
  CreateCPolyPath64(&g_node, &v);
  __CPROVER_assert(v == v0 + g_node.g_len, "the cursor advances by exactly the node's block length");
  __CPROVER_assert(v0[0] == (ELT)g_node.polygon_.size && v0[1] == (ELT)g_node.count, "header: polygon length, child count");
  size_t k = nondet_size(); if (k < g_node.polygon_.size) {
    __CPROVER_assert(SAMEV(v0[2 + D * k], g_poly[k].x) && SAMEV(v0[2 + D * k + 1], g_poly[k].y), "vertex k at offset 2 + D*k, x then y");
#ifdef USINGZ
    __CPROVER_assert(*(int64_t*)&v0[2 + D * k + 2] == g_poly[k].z, "then z, bit for bit");
#endif
  }
  VF_CANARY();
}
#else
void h_Tree(void)
{
  mk_node(); g_nalloc = 0; bool with_root_polygon = nondet_bool(); if (!with_root_polygon) __CPROVER_assume(g_node.polygon_.size == 0);
  ELT* r = CreateCPolyTree64(&g_node);
  if (g_node.count == 0) __CPROVER_assert(r == NULL && g_nalloc == 0, "an empty tree gives nullptr, nothing is allocated");
  else { __CPROVER_assert(r == g_buf && g_nalloc == 1 && g_end == g_buf + g_node.g_len, "one array of exactly the computed length");
         __CPROVER_assert(r[0] == (ELT)g_node.g_len && r[1] == (ELT)g_node.count, "header: total length, top-level count"); }
  VF_CANARY();
}
#endif
//@run name=GetPolyPathArrayLen64 entry=h_Len unwind=13 flags=SAFETY timeout=300 bounded="at most 2 children per node (depth by induction)"
//@run name=CreateCPolyPath64 entry=h_Create unwind=13 flags=SAFETY timeout=600 bounded="at most 2 children per node, polygon of at most 11 vertices (depth by induction)"
//@run name=CreateCPolyPath64.z entry=h_Create defs=USINGZ unwind=9 flags=SAFETY timeout=600 bounded="at most 2 children per node, polygon of at most 7 vertices, USINGZ layout (depth by induction)" props=C17,C15,C10
//@run name=CreateCPolyTree64 entry=h_Tree defs=TOP,TOP64 unwind=13 flags=SAFETY timeout=600 bounded="at most 2 top-level children (depth by induction)"
//@assume A5 (C17_polytree): the recursive calls are stand-ins that state the induction hypothesis for a child (its block is exactly g_len long and fits); PolyPath64 is a node with a polygon, two child slots and the ghost block length; `new int64_t[n]` is a fixed block of 24 elements with the requested length recorded, every write is checked against it.
//@run name=GetPolyPathArrayLenD entry=h_Len defs=DVAR unwind=13 flags=SAFETY timeout=300 bounded="at most 2 children per node (depth by induction)"
//@run name=CreateCPolyPathD entry=h_Create defs=DVAR unwind=13 flags=SAFETY timeout=600 bounded="at most 2 children per node, polygon of at most 11 vertices (depth by induction)"
//@run name=CreateCPolyPathD.z entry=h_Create defs=DVAR,USINGZ unwind=9 flags=SAFETY timeout=600 bounded="at most 2 children per node, polygon of at most 7 vertices, USINGZ layout (depth by induction)" props=C17,C15,C10
//@run name=CreateCPolyTreeD entry=h_Tree defs=DVAR,TOP,TOPD unwind=13 flags=SAFETY timeout=600 bounded="at most 2 top-level children (depth by induction)"
