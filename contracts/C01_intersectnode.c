//@unit C01_intersectnode
//@props C01
//@safetyprops C14
//@desc ClipperBase::AddNewIntersectNode (where the vertex of every edge crossing is decided): the point stored in the intersect node is the computed crossing when that lies inside the current scanbeam; otherwise it is either the closest point on the steeper edge, or — for two shallow edges — it is clamped into the scanbeam (y = top_y or bot_y_) with x taken on the flatter edge AT THAT SAME y, so the stored vertex lies on an input edge. GetSegmentIntersectPt, GetClosestPointOnSegment and TopX are stubs (their accuracy is floating point, not decided).
#include "vf.h"
//@include engine_types.inc
/* ghosts */
bool g_isect_ok; Point64 g_isect_ip;                 /* what GetSegmentIntersectPt reports */
int g_closest_n; const Point64* g_closest_seg1; Point64 g_closest_ret;
int g_topx_n; const Active* g_topx_e; int64_t g_topx_y, g_topx_ret;
int g_node_n; Active *g_node_e1, *g_node_e2; Point64 g_node_pt;
bool GetSegmentIntersectPt(const Point64* a, const Point64* b, const Point64* c, const Point64* d, Point64* ip)
__CPROVER_requires(1) BOOL_RET
__CPROVER_ensures(__CPROVER_return_value == g_isect_ok && (g_isect_ok ==> (ip->x == g_isect_ip.x && ip->y == g_isect_ip.y)))
__CPROVER_assigns(*ip);
Point64 GetClosestPointOnSegment(Point64 off, const Point64* seg1, const Point64* seg2)
__CPROVER_requires(g_closest_n == 0)
__CPROVER_ensures(g_closest_n == 1 && g_closest_seg1 == seg1 && __CPROVER_return_value.x == g_closest_ret.x && __CPROVER_return_value.y == g_closest_ret.y)
__CPROVER_assigns(g_closest_n, g_closest_seg1);
int64_t TopX__p(const Active* ae, int64_t currentY)
__CPROVER_requires(g_topx_n == 0)
__CPROVER_ensures(g_topx_n == 1 && g_topx_e == ae && g_topx_y == currentY && __CPROVER_return_value == g_topx_ret)
__CPROVER_assigns(g_topx_n, g_topx_e, g_topx_y);
#define TopX(e_, y_) TopX__p(&(e_), y_)
void vf_add_node(ClipperBase* self, Active* e1, Active* e2, Point64 ip)
__CPROVER_requires(g_node_n == 0)
__CPROVER_ensures(g_node_n == 1 && g_node_e1 == e1 && g_node_e2 == e2 && g_node_pt.x == ip.x && g_node_pt.y == ip.y)
__CPROVER_assigns(g_node_n, g_node_e1, g_node_e2, g_node_pt);
//@assume A5: GetSegmentIntersectPt / GetClosestPointOnSegment / TopX are stubs returning ghost values (their floating-point accuracy is not decided); intersect_nodes_.emplace_back is a logging stub.

#define FABS_(v) ((v) < 0 ? -(v) : (v))
//@extract file=CPP/Clipper2Lib/src/clipper.engine.cpp func=ClipperBase::AddNewIntersectNode self=ClipperBase byptr=e1,e2
//@presub /std::fabs\(/fabs(/ min=2
//@sub /GetSegmentIntersectPt\(e1->bot, e1->top, e2->bot, e2->top, ip\)/GetSegmentIntersectPt(&e1->bot, &e1->top, &e2->bot, &e2->top, &ip)/
//@sub /GetClosestPointOnSegment\(ip, (e[12])->bot, (e[12])->top\)/GetClosestPointOnSegment(ip, &\1->bot, &\2->top)/ min=4
//@sub /ip = Point64\(e1->curr_x, top_y\);/ip = (Point64){e1->curr_x, top_y};/
//@sub /self->intersect_nodes_\.emplace_back\(&\(\*e1\), &\(\*e2\), ip\);/vf_add_node(self, e1, e2, ip);/
__CPROVER_requires(__CPROVER_is_fresh(self, sizeof(*self)) && __CPROVER_is_fresh(e1, sizeof(*e1)) && __CPROVER_is_fresh(e2, sizeof(*e2)))
__CPROVER_requires(g_closest_n == 0 && g_topx_n == 0 && g_node_n == 0 && BOOL_OK(g_isect_ok) && top_y <= self->bot_y_ && !__CPROVER_isnand(e1->dx) && !__CPROVER_isnand(e2->dx))
__CPROVER_ensures(g_node_n == 1 && g_node_e1 == e1 && g_node_e2 == e2)
#define IP0X (g_isect_ok ? g_isect_ip.x : e1->curr_x)
#define IP0Y (g_isect_ok ? g_isect_ip.y : top_y)
#define IN_BEAM(y) ((y) <= self->bot_y_ && (y) >= top_y)
/* inside the scanbeam: the computed point (or, for parallel edges, e1's position at the top) is stored unchanged */
__CPROVER_ensures(IN_BEAM(IP0Y) ==> (g_node_pt.x == IP0X && g_node_pt.y == IP0Y && g_closest_n == 0 && g_topx_n == 0))
/* outside, at least one steep edge: the closest point on the steeper of the steep edges */
#define A1 FABS_(e1->dx)
#define A2 FABS_(e2->dx)
__CPROVER_ensures((!IN_BEAM(IP0Y) && (A1 > 100 || A2 > 100)) ==> (g_closest_n == 1 && g_topx_n == 0 && g_node_pt.x == g_closest_ret.x && g_node_pt.y == g_closest_ret.y &&
   g_closest_seg1 == ((A1 > 100 && A2 > 100) ? (A1 > A2 ? &e1->bot : &e2->bot) : (A1 > 100 ? &e1->bot : &e2->bot))))
/* outside, both shallow: clamped into the scanbeam; x is the flatter edge's x at exactly the stored y */
__CPROVER_ensures((!IN_BEAM(IP0Y) && !(A1 > 100 || A2 > 100)) ==> (g_closest_n == 0 && g_topx_n == 1 &&
   g_node_pt.y == (IP0Y < top_y ? top_y : self->bot_y_) && g_topx_y == g_node_pt.y && g_node_pt.x == g_topx_ret && g_topx_e == (A1 < A2 ? e1 : e2)))
__CPROVER_assigns(g_closest_n, g_closest_seg1, g_topx_n, g_topx_e, g_topx_y, g_node_n, g_node_e1, g_node_e2, g_node_pt)
//@end
void h_ANIN(void) { ClipperBase* s; Active *a, *b; int64_t y; AddNewIntersectNode(s, a, b, y); VF_CANARY(); }
//@run name=AddNewIntersectNode entry=h_ANIN enforce=AddNewIntersectNode replace=GetSegmentIntersectPt,GetClosestPointOnSegment,TopX__p,vf_add_node flags="--bounds-check --pointer-check" timeout=120
