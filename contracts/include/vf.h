/* Common prelude for extracted C units (not part of any proof obligation by itself). */
#ifndef VF_H
#define VF_H
#include <stdint.h>
#include <stdbool.h>
#include <stddef.h>
#include <stdlib.h>
#include <math.h>
#define VF_min(a,b) ((a) < (b) ? (a) : (b))
#define VF_max(a,b) ((a) > (b) ? (a) : (b))
#define VF_NUMLIM_MAX_T      VF_T_MAX
#define VF_NUMLIM_max_T      VF_T_MAX
#define VF_NUMLIM_lowest_T   VF_T_LOWEST
#define VF_NUMLIM_min_T      VF_T_MIN     /* numeric_limits<T>::min(): most negative integer, but the smallest POSITIVE normal double */
#define VF_NUMLIM_MAX_int64_t INT64_MAX
#define VF_NUMLIM_max_int64_t INT64_MAX
#define VF_NUMLIM_lowest_int64_t INT64_MIN
#define VF_NUMLIM_MAX_double 1.7976931348623157e308
#define VF_NUMLIM_max_double 1.7976931348623157e308
#define VF_NUMLIM_lowest_double (-1.7976931348623157e308)
#define I128(v) ((__int128)(v))
#define U128(v) ((unsigned __int128)(v))
#define __int128_t __int128
/* p - q does not overflow int64 */
#define DIFF_OK(p,q) (I128(p) - I128(q) >= INT64_MIN && I128(p) - I128(q) <= INT64_MAX)
#define SGN(v) ((v) > 0 ? 1 : ((v) < 0 ? -1 : 0))
/* R12/R14: an STL container member becomes an opaque (data,size) pair; growth is not modelled */
typedef struct { void* data; size_t size; } VF_Vec;
/* R14 output vectors: fixed-capacity arrays; capacity is what reserve() asked for, VF_PUSH beyond it is an error the
   proof must exclude (C++ would reallocate; the proved bound on pushes makes that unreachable) */
#define VF_RESERVE(v, n) do { (v).cap = (n); (v).data = malloc(((n) ? (n) : 1) * sizeof(*(v).data)); __CPROVER_assume((v).data != NULL); } while (0)
#define VF_PUSH(v, e) do { __CPROVER_assert((v).size < (v).cap, "VF_PUSH within reserved capacity"); (v).data[(v).size] = (e); (v).size++; } while (0)
#define VF_POP(v) do { __CPROVER_assert((v).size > 0, "pop_back on non-empty vector"); (v).size--; } while (0)
#define VF_CLEAR(v) do { (v).size = 0; } while (0)
/* G3': push trace — next to every stored element the index of the input element it was read from */
#define VF_RESERVE_T(v, n) do { (v).cap = (n); (v).size = 0; (v).data = malloc(((n) ? (n) : 1) * sizeof(*(v).data)); (v).src = malloc(((n) ? (n) : 1) * sizeof(size_t)); __CPROVER_assume((v).data != NULL && (v).src != NULL); } while (0)
#define VF_PUSHI(v, from, idx) do { __CPROVER_assert((v).size < (v).cap, "VF_PUSH within reserved capacity"); (v).data[(v).size] = (from).data[idx]; (v).src[(v).size] = (idx); (v).size++; } while (0)
/* G3'' ghost observation of an output vector: instead of storing the elements, record for one arbitrary, fixed
   position g_k the source index of the element pushed at g_k and at g_k+1, and of the first and the latest push.
   Sound for "for every position k" properties of vectors that are only appended to and never read back. */
#define VF_OBS_DECL size_t g_k, g_src_k, g_src_k1, g_src_first, g_src_last;
#define VF_PUSHG(v, idx) do { __CPROVER_assert((v).size < (v).cap, "VF_PUSH within reserved capacity"); \
    if ((v).size == 0) g_src_first = (idx); if ((v).size == g_k) g_src_k = (idx); if ((v).size == g_k + 1) g_src_k1 = (idx); \
    g_src_last = (idx); (v).size++; } while (0)
#define VF_RESERVE_G(v, n) do { (v).cap = (n); (v).size = 0; } while (0)
#define VF_NEW(v, n) do { (v).size = (n); (v).data = calloc(((n) ? (n) : 1), sizeof(*(v).data)); __CPROVER_assume((v).data != NULL); } while (0)
typedef struct { bool* data; size_t size; } VecBool;
typedef struct { double* data; size_t size; } VecDouble;
typedef struct { bool has; size_t val; } VF_OptSize;
#define VF_NULLOPT ((VF_OptSize){0, 0})
/* CBMC models _Bool as an 8-bit integer: a symbolic bool in fresh memory may hold 2..255; a valid C++ bool holds 0 or 1 */
#define BOOL_OK(b) (*(const unsigned char*)&(b) <= 1)
#define BOOL_RET __CPROVER_ensures(__CPROVER_return_value == 0 || __CPROVER_return_value == 1)
#define VF_CANARY() __CPROVER_assert(0, "VF_CANARY reachability")
#endif
