//@unit C18_cps_i128
//@props C18
//@safetyprops C10
//@desc TriSign, ProductsAreEqual, CrossProductSign<int64_t>, IsCollinear<int64_t> on the __int128 branch (the one compiled on this platform): result == sign / equality of the exact products of exactly the four coordinate differences the definition names. The 64x64->128 multiplication itself is an uninterpreted ghost product (G2): no installed back end decides a 128-bit multiplier equivalence (measured: >100 s on minisat/cadical/glucose), so what is proved is operand choice, casts, comparison direction and absence of overflow in the differences.
#include "vf.h"
typedef int64_t T;
#ifdef USINGZ
typedef struct { int64_t x, y, z; } PointT;
#else
typedef struct { int64_t x, y; } PointT;
#endif

/* G2 ghost products: g_p1 / g_p2 are the exact mathematical products of the operand pairs
   (g_x1,g_y1) / (g_x2,g_y2); multiplication is commutative and functional, nothing else is assumed */
int64_t g_x1, g_y1, g_x2, g_y2; __int128 g_p1, g_p2;
#define SAME_PAIR(x,y,u,v) (((x) == (u) && (y) == (v)) || ((x) == (v) && (y) == (u)))
#define GHOST_OK (SAME_PAIR(g_x1, g_y1, g_x2, g_y2) ==> g_p1 == g_p2)
__int128 vf_mul128(int64_t x, int64_t y)
__CPROVER_requires(1)
__CPROVER_ensures(SAME_PAIR(x, y, g_x1, g_y1) ==> __CPROVER_return_value == g_p1)
__CPROVER_ensures(SAME_PAIR(x, y, g_x2, g_y2) ==> __CPROVER_return_value == g_p2)
__CPROVER_assigns()
;
//@assume A2/G2: the compiler's __int128 multiplication of two sign-extended int64 values is the exact product (|a*b| <= 2^126 cannot overflow); modelled as an uninterpreted commutative function.

//@extract file=CPP/Clipper2Lib/include/clipper2/clipper.core.h func=TriSign
__CPROVER_ensures(__CPROVER_return_value == SGN(x))
__CPROVER_assigns()
//@end

//@extract file=CPP/Clipper2Lib/include/clipper2/clipper.core.h func=ProductsAreEqual cpp=__GNUC__=12,UINTPTR_MAX=18446744073709551615UL,UINT64_MAX=18446744073709551615UL must=cpp
//@pysub mul128 min=1
__CPROVER_requires(g_x1 == a && g_y1 == b && g_x2 == c && g_y2 == d && GHOST_OK)
__CPROVER_ensures(__CPROVER_return_value == (g_p1 == g_p2))
__CPROVER_assigns()
//@end

//@extract file=CPP/Clipper2Lib/include/clipper2/clipper.core.h func=CrossProductSign byval=pt1,pt2,pt3 cpp=__GNUC__=12,UINTPTR_MAX=18446744073709551615UL,UINT64_MAX=18446744073709551615UL must=cpp,R4
//@pysub mul128 min=1
__CPROVER_requires(DIFF_OK(pt2.x, pt1.x) && DIFF_OK(pt3.y, pt2.y) && DIFF_OK(pt2.y, pt1.y) && DIFF_OK(pt3.x, pt2.x))
__CPROVER_requires(g_x1 == pt2.x - pt1.x && g_y1 == pt3.y - pt2.y && g_x2 == pt2.y - pt1.y && g_y2 == pt3.x - pt2.x && GHOST_OK)
__CPROVER_ensures(__CPROVER_return_value == (g_p1 > g_p2 ? 1 : (g_p1 < g_p2 ? -1 : 0)))
__CPROVER_assigns()
//@end

//@extract file=CPP/Clipper2Lib/include/clipper2/clipper.core.h func=IsCollinear byval=pt1,sharedPt,pt2 must=R4
__CPROVER_requires(DIFF_OK(sharedPt.x, pt1.x) && DIFF_OK(pt2.y, sharedPt.y) && DIFF_OK(sharedPt.y, pt1.y) && DIFF_OK(pt2.x, sharedPt.x))
__CPROVER_requires(g_x1 == sharedPt.x - pt1.x && g_y1 == pt2.y - sharedPt.y && g_x2 == sharedPt.y - pt1.y && g_y2 == pt2.x - sharedPt.x && GHOST_OK)
__CPROVER_ensures(__CPROVER_return_value == (g_p1 == g_p2))
__CPROVER_assigns()
//@end

void h_TriSign(void) { int64_t x; TriSign(x); VF_CANARY(); }
void h_ProductsAreEqual(void) { int64_t a, b, c, d; ProductsAreEqual(a, b, c, d); VF_CANARY(); }
void h_CrossProductSign(void) { PointT p1, p2, p3; CrossProductSign(p1, p2, p3); VF_CANARY(); }
void h_IsCollinear(void) { PointT p1, p2, p3; IsCollinear(p1, p2, p3); VF_CANARY(); }

//@run name=TriSign entry=h_TriSign enforce=TriSign flags=SAFETY timeout=60
//@run name=ProductsAreEqual entry=h_ProductsAreEqual enforce=ProductsAreEqual replace=vf_mul128 flags=SAFETY timeout=120
//@run name=CrossProductSign entry=h_CrossProductSign enforce=CrossProductSign replace=vf_mul128 flags=SAFETY timeout=120
//@run name=CrossProductSign.z entry=h_CrossProductSign enforce=CrossProductSign replace=vf_mul128 flags=SAFETY defs=USINGZ timeout=120 props=C18,C15,C10
//@run name=IsCollinear entry=h_IsCollinear enforce=IsCollinear replace=vf_mul128 flags=SAFETY timeout=120
