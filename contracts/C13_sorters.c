//@unit C13_sorters
//@props C13
//@safetyprops C10 C14
//@desc LocMinSorter and IntersectListSort are pinned to their defining lexicographic keys (local minima: larger y first, then smaller x; intersections: larger y first, then smaller x) — strict weak orders that do not depend on the order in which paths were added.
#include "vf.h"
//@include engine_types.inc
typedef struct IntersectNode IntersectNode;
//@struct file=CPP/Clipper2Lib/include/clipper2/clipper.engine.h name=IntersectNode

//@extract file=CPP/Clipper2Lib/src/clipper.engine.cpp func=operator() scope=LocMinSorter as=LocMinSorter_call
//@sub /const LocalMinima_ptr\s*&\s*/const LocalMinima* / min=2
#define LMY(l) ((l)->vertex->pt.y)
#define LMX(l) ((l)->vertex->pt.x)
__CPROVER_requires(__CPROVER_is_fresh(locMin1, sizeof(*locMin1)) && __CPROVER_is_fresh(locMin2, sizeof(*locMin2)))
__CPROVER_requires(__CPROVER_is_fresh(locMin1->vertex, sizeof(Vertex)) && __CPROVER_is_fresh(locMin2->vertex, sizeof(Vertex)))
__CPROVER_ensures(__CPROVER_return_value == (LMY(locMin1) > LMY(locMin2) || (LMY(locMin1) == LMY(locMin2) && LMX(locMin1) < LMX(locMin2))))
__CPROVER_assigns()
//@end

//@extract file=CPP/Clipper2Lib/src/clipper.engine.cpp func=IntersectListSort byptr=a,b
__CPROVER_requires(__CPROVER_is_fresh(a, sizeof(*a)) && __CPROVER_is_fresh(b, sizeof(*b)))
__CPROVER_ensures(__CPROVER_return_value == (a->pt.y > b->pt.y || (a->pt.y == b->pt.y && a->pt.x < b->pt.x)))
__CPROVER_assigns()
//@end

void h_LMS(void) { LocalMinima *a, *b; LocMinSorter_call(a, b); VF_CANARY(); }
void h_ILS(void) { IntersectNode *a, *b; IntersectListSort(a, b); VF_CANARY(); }
//@run name=LocMinSorter entry=h_LMS enforce=LocMinSorter_call flags=SAFETY timeout=60
//@run name=IntersectListSort entry=h_ILS enforce=IntersectListSort flags=SAFETY timeout=60
