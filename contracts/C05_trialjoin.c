//@unit C05_trialjoin
//@props C05
//@desc ClipperBase::AddTrialHorzJoin (loop-free): a horizontal output vertex of an OPEN contour is never offered to the horizontal-join machinery (ConvertHorzSegsToJoins / ProcessHorzJoins splice and split CLOSED rings only - an open path spliced there would stop being the clipped piece of its input line), and a vertex of a closed contour is recorded exactly once, at the end of horz_seg_list_, as the segment's provisional left end. The real body behind the AddTrialHorzJoin stub of C02_dohorizontal.
#include "vf.h"
//@include engine_types.inc
OutPt* g_seg_op; size_t g_seg_at; int g_nseg;
#undef VF_PUSH
#define VF_PUSH(v, p) do { g_seg_at = (v).size; g_seg_op = (p); g_nseg++; (v).size++; } while (0)   /* emplace_back(op) = HorzSegment(op) */
//@extract file=CPP/Clipper2Lib/src/clipper.engine.cpp func=ClipperBase::AddTrialHorzJoin self=ClipperBase vec=horz_seg_list_
//@end
bool nondet_bool(void); size_t nondet_size(void);
void h_ATJ(void)
{
  ClipperBase cb; OutRec o; OutPt op; op.outrec = &o; o.is_open = nondet_bool();
  size_t n0 = nondet_size(); __CPROVER_assume(n0 < ((size_t)1 << 40)); cb.horz_seg_list_.size = n0; g_nseg = 0;
  AddTrialHorzJoin(&cb, &op);
  if (o.is_open) __CPROVER_assert(g_nseg == 0 && cb.horz_seg_list_.size == n0, "a vertex of an open contour is never a join candidate");
  else __CPROVER_assert(g_nseg == 1 && g_seg_op == &op && g_seg_at == n0 && cb.horz_seg_list_.size == n0 + 1, "a vertex of a closed contour is recorded once, at the end");
  VF_CANARY();
}
//@run name=AddTrialHorzJoin entry=h_ATJ flags="--bounds-check --pointer-check" timeout=120
