//@unit C20_rdp_eps
//@props C20
//@safetyprops C10
//@desc RamerDouglasPeucker — BOUNDED check of the epsilon clause (path length fixed per run: 5, 6, 7; the real recursive RDP body is inlined; PerpendicDistFromLineSqrd is an arbitrary non-negative table over index triples): every removed vertex is within epsilon of the line through its two surviving neighbours, the first and last vertex survive, and the result is the flagged vertices in input order.
#include "vf.h"
#ifndef LEN
#define LEN 5
#endif
typedef int64_t T;
typedef struct { int64_t x, y; } PointT;
typedef struct { PointT* data; size_t size; size_t cap; size_t* src; } PathT;
static inline bool PointT_eq(PointT a, PointT b) { return a.x == b.x && a.y == b.y; }
double g_D[LEN][LEN][LEN];
double vf_pdist(PathT path, size_t i, size_t a, size_t b) { __CPROVER_assert(i < LEN && a < LEN && b < LEN, "distance arguments are valid indices"); return g_D[i][a][b]; }
double g_epsSqr;
double Sqr(double v) { return g_epsSqr; }
//@extract file=CPP/Clipper2Lib/include/clipper2/clipper.h func=RDP vec=path,flags byval=flags
//@sub /std::vector<bool>\s+flags/VecBool flags/
//@sub /PerpendicDistFromLineSqrd\(path\.data\[(\w+)\], path\.data\[(\w+)\], path\.data\[(\w+)\]\)/vf_pdist(path, \1, \2, \3)/
//@sub /path\.data\[begin\] == path\.data\[end\]/PointT_eq(path.data[begin], path.data[end])/
//@end
VecBool g_flags_out;
//@extract file=CPP/Clipper2Lib/include/clipper2/clipper.h func=RamerDouglasPeucker sig="const Path<T>& path" vec=path,flags,result byval=path
//@sub /return PathT\(path\);/return path;/
//@sub /std::vector<bool>\s+flags\(len\);/VecBool flags; VF_NEW(flags, len);/
//@sub /PathT result;/PathT result = {0}; g_flags_out = flags;/
//@sub /VF_RESERVE\(result,/VF_RESERVE_T(result,/
//@sub /VF_PUSH\(result, path\.data\[i\]\)/VF_PUSHI(result, path, i)/
//@end
double nondet_double(void); int64_t nondet_i64(void);
void h_RDPE(void)
{
  PointT pts[LEN]; PathT path = { pts, LEN, LEN, 0 };
  for (int i = 0; i < LEN; ++i) for (int a = 0; a < LEN; ++a) for (int b = 0; b < LEN; ++b) { g_D[i][a][b] = nondet_double(); __CPROVER_assume(g_D[i][a][b] >= 0.0); }
  for (int i = 0; i < LEN; ++i) { pts[i].x = nondet_i64(); pts[i].y = nondet_i64(); }
  /* distinct end points: with equal ones RDP trims the range first (covered by the unbounded unit C20_rdp) */
  __CPROVER_assume(!PointT_eq(pts[0], pts[LEN - 1]));
  for (int i = 1; i < LEN; ++i) __CPROVER_assume(!PointT_eq(pts[i - 1], pts[i]) && !PointT_eq(pts[0], pts[i]));
  g_epsSqr = nondet_double(); __CPROVER_assume(g_epsSqr >= 0.0);
  PathT r = RamerDouglasPeucker(path, nondet_double());
  __CPROVER_assert(r.size >= 2 && r.src[0] == 0 && r.src[r.size - 1] == LEN - 1, "first and last vertex survive");
  size_t o = 0;
  for (size_t i = 0; i < LEN; ++i) if (g_flags_out.data[i]) { __CPROVER_assert(o < r.size && r.src[o] == i, "result is the flagged vertices in input order"); o++; }
  __CPROVER_assert(o == r.size, "nothing else is in the result");
  /* every removed vertex is within epsilon of the line through its surviving neighbours */
  for (size_t k = 0; k + 1 < LEN; ++k) if (k + 1 < r.size)
    for (size_t i = 0; i < LEN; ++i) if (i > r.src[k] && i < r.src[k + 1])
      __CPROVER_assert(g_D[i][r.src[k]][r.src[k + 1]] <= g_epsSqr, "removed vertex within epsilon of the line through its surviving neighbours");
  VF_CANARY();
}
//@run name=RDP.eps.len5 entry=h_RDPE defs=LEN=5 unwind=7 unwindset=RDP:4 flags="--bounds-check --pointer-check --unsigned-overflow-check" timeout=600 bounded="path length exactly 5, pairwise distinct consecutive points; distances an arbitrary table"
//@run name=RDP.eps.len6 entry=h_RDPE defs=LEN=6 unwind=8 unwindset=RDP:5 flags="--bounds-check --pointer-check --unsigned-overflow-check" mem=24 timeout=600 bounded="path length exactly 6" tier=deep
//@run name=RDP.eps.len7 entry=h_RDPE defs=LEN=7 unwind=9 unwindset=RDP:6 flags="--bounds-check --pointer-check --unsigned-overflow-check" mem=24 timeout=900 bounded="path length exactly 7" tier=deep
//@assume bounded: the epsilon clause of RDP quantifies over the nearest flagged neighbours of every removed vertex; no quantifier-free recursive contract was found, so it is checked with the length fixed per run.
