//@unit C01_poplocmin
//@props C01
//@desc ClipperBase::PopLocalMinima (loop-free; the local-minima cursor is an index into minima_list_, iterator -> index by rule R12, the list has 3 entries with arbitrary y and the cursor is anywhere in 0..3): it hands out the minimum under the cursor exactly when there is one left and it lies ON the scanline y, and then advances the cursor by ONE; otherwise it returns false and neither the cursor nor the caller's variable changes - so the `while (PopLocalMinima(y, lm))` loop of InsertLocalMinimaIntoAEL consumes each local minimum once, in list order, and never reads past the end of the list.
#include "vf.h"
//@include engine_types.inc
Vertex g_v0, g_v1, g_v2; LocalMinima g_l0, g_l1, g_l2; LocalMinima* g_tab[3] = { &g_l0, &g_l1, &g_l2 };
/* R12: dereferencing the iterator = indexing the list (unique_ptr::get() is the stored pointer); the index must be inside the list */
static LocalMinima* vf_lm_at(ClipperBase* s, size_t i) { __CPROVER_assert(i < s->minima_list_.size, "local-minima iterator dereferenced inside the list"); return ((LocalMinima**)s->minima_list_.data)[i]; }
#define VF_LM_AT(s, i) vf_lm_at(s, i)
//@extract file=CPP/Clipper2Lib/src/clipper.engine.cpp func=ClipperBase::PopLocalMinima self=ClipperBase vec=minima_list_ byptr=local_minima
//@sub /\(\*self->current_locmin_iter_\)/VF_LM_AT(self, self->current_locmin_iter_)/
//@sub /\(self->current_locmin_iter_(\+\+)?\)->get\(\)/VF_LM_AT(self, self->current_locmin_iter_\1)/
//@end
int64_t nondet_i64(void); size_t nondet_size(void);
void h_PLM(void)
{
  ClipperBase cb; LocalMinima other; LocalMinima* lm = &other;
  g_l0.vertex = &g_v0; g_l1.vertex = &g_v1; g_l2.vertex = &g_v2; g_v0.pt.y = nondet_i64(); g_v1.pt.y = nondet_i64(); g_v2.pt.y = nondet_i64();
  cb.minima_list_.data = g_tab; cb.minima_list_.size = 3;
  size_t k = nondet_size(); __CPROVER_assume(k <= 3); cb.current_locmin_iter_ = k;
  int64_t y = nondet_i64();
  bool r = PopLocalMinima(&cb, y, &lm);
  bool want = k < 3 && g_tab[k < 3 ? k : 0]->vertex->pt.y == y;
  __CPROVER_assert(r == want, "true exactly when a minimum is left and it lies on this scanline");
  if (r) __CPROVER_assert(lm == g_tab[k] && cb.current_locmin_iter_ == k + 1, "hands out the minimum under the cursor and advances by one");
  else __CPROVER_assert(lm == &other && cb.current_locmin_iter_ == k, "otherwise nothing moves");
  VF_CANARY();
}
//@run name=PopLocalMinima entry=h_PLM flags="--bounds-check --pointer-check" timeout=120
