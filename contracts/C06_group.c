//@unit C06_group
//@props C06 C07
//@safetyprops C10 C14
//@desc ClipperOffset::Group::Group and CheckReverseOrientation — the orientation plumbing of offsetting: a group is flagged reversed exactly when it is a Polygon group whose lowest path has negative area (so open-path groups are never reversed, whatever their direction), duplicates are stripped from every path with the closed-path flag of the group's end type, and the clean-up union is told "reversed" exactly when the first Polygon group is reversed (CheckReverseOrientation: BOUNDED, at most 4 groups).
#include "vf.h"
//@enum file=CPP/Clipper2Lib/include/clipper2/clipper.offset.h name=JoinType
//@enum file=CPP/Clipper2Lib/include/clipper2/clipper.offset.h name=EndType
typedef struct { long tok; size_t size; } VTok;
typedef struct { VTok* data; size_t size; } PathsV;
typedef PathsV Paths64;
typedef struct Group Group;
//@struct file=CPP/Clipper2Lib/include/clipper2/clipper.offset.h name=Group retype=paths_in:PathsV
#define ENUM_OK(e, max) ((unsigned)(e) <= (unsigned)(max))
#ifndef BOUNDED
bool g_joined;          /* ghost: the closed-path flag every StripDuplicates call must carry */
size_t g_nstrip;
VF_OptSize g_lowest; double g_area; size_t g_area_idx; int g_area_n, g_lowest_n;
void StripDuplicates__p(VTok* p, bool is_closed_path)
__CPROVER_requires((is_closed_path != 0) == (g_joined != 0) && g_nstrip < ((size_t)1 << 41))
__CPROVER_ensures(g_nstrip == __CPROVER_old(g_nstrip) + 1)
__CPROVER_assigns(g_nstrip);
#define StripDuplicates(p_, c_) StripDuplicates__p(&(p_), c_)
VF_OptSize GetLowestClosedPathIdx(PathsV paths)
__CPROVER_requires(g_lowest_n == 0)
__CPROVER_ensures(g_lowest_n == 1 && __CPROVER_return_value.has == g_lowest.has && __CPROVER_return_value.val == g_lowest.val)
__CPROVER_assigns(g_lowest_n);
/* Area of paths_in[idx] */
double vf_area_of(PathsV paths, size_t idx)
__CPROVER_requires(idx < paths.size && g_area_n == 0)
__CPROVER_ensures(g_area_n == 1 && g_area_idx == idx && __CPROVER_return_value == g_area)
__CPROVER_assigns(g_area_n, g_area_idx);
//@extract file=CPP/Clipper2Lib/src/clipper.offset.cpp func=ClipperOffset::Group::Group as=Group_construct self=Group ctor=1 byval=_paths rangefor=1 members=paths_in,join_type,end_type,lowest_path_idx,is_reversed ifndef=BOUNDED
//@sub /Area\(self->paths_in\[self->lowest_path_idx\.val\]\)/vf_area_of(self->paths_in, self->lowest_path_idx.val)/
__CPROVER_requires(__CPROVER_is_fresh(self, sizeof(*self)) && _paths.size < ((size_t)1 << 40) && __CPROVER_is_fresh(_paths.data, _paths.size * sizeof(VTok)))
__CPROVER_requires(ENUM_OK(_end_type, EndType_Round) && ENUM_OK(_join_type, JoinType_Miter) && BOOL_OK(g_lowest.has) && (g_lowest.has ==> g_lowest.val < _paths.size) && !__CPROVER_isnand(g_area))
__CPROVER_requires(g_nstrip == 0 && g_area_n == 0 && g_lowest_n == 0 && BOOL_OK(g_joined) && g_joined == (_end_type == EndType_Polygon || _end_type == EndType_Joined))
__CPROVER_ensures(self->paths_in.data == _paths.data && self->paths_in.size == _paths.size && self->join_type == _join_type && self->end_type == _end_type)
__CPROVER_ensures(g_nstrip == _paths.size)
/* only a Polygon group can be reversed, and it is iff its lowest path has negative area */
__CPROVER_ensures(_end_type == EndType_Polygon ==> (g_lowest_n == 1 && self->lowest_path_idx.has == g_lowest.has && (g_lowest.has ==> self->lowest_path_idx.val == g_lowest.val) &&
   (self->is_reversed != 0) == (g_lowest.has && g_area < 0) && (g_lowest.has ==> (g_area_n == 1 && g_area_idx == g_lowest.val))))
__CPROVER_ensures(_end_type != EndType_Polygon ==> (!self->lowest_path_idx.has && !self->is_reversed && g_area_n == 0))
__CPROVER_assigns(*self, g_nstrip, g_area_n, g_area_idx, g_lowest_n)
//@loop 1
__CPROVER_assigns(vf_i_p, g_nstrip)
__CPROVER_loop_invariant(vf_i_p <= self->paths_in.size && g_nstrip == vf_i_p)
__CPROVER_decreases(self->paths_in.size - vf_i_p)
//@end
void h_Group(void) { Group* g; PathsV p; JoinType jt; EndType et; Group_construct(g, p, jt, et); VF_CANARY(); }
#else
typedef struct { Group* data; size_t size; } GroupsV;
typedef struct { GroupsV groups_; } ClipperOffsetS;
//@extract file=CPP/Clipper2Lib/src/clipper.offset.cpp func=ClipperOffset::CheckReverseOrientation self=ClipperOffsetS rangefor=1 ifdef=BOUNDED
//@end
unsigned nondet_uint(void); bool nondet_bool(void);
void h_CRO(void)
{
  Group gs[4]; ClipperOffsetS co; co.groups_.data = gs; co.groups_.size = nondet_uint(); __CPROVER_assume(co.groups_.size <= 4);
  bool expect = false, found = false;
  for (size_t i = 0; i < 4; ++i) {
    gs[i].end_type = (EndType)nondet_uint(); __CPROVER_assume(ENUM_OK(gs[i].end_type, EndType_Round)); gs[i].is_reversed = nondet_bool();
    if (i < co.groups_.size && !found && gs[i].end_type == EndType_Polygon) { found = true; expect = gs[i].is_reversed; }
  }
  bool r = CheckReverseOrientation(&co);
  __CPROVER_assert(r == expect, "reversed orientation == is_reversed of the first Polygon group (false if there is none)");
  VF_CANARY();
}
#endif
//@run name=Group.ctor entry=h_Group enforce=Group_construct replace=StripDuplicates__p,GetLowestClosedPathIdx,vf_area_of loops=1 flags="--bounds-check --pointer-check --unsigned-overflow-check" timeout=300
//@run name=CheckReverseOrientation.bounded entry=h_CRO defs=BOUNDED unwind=6 flags=SAFETY timeout=300 bounded="at most 4 groups, all end types and flags symbolic"
//@assume A5: StripDuplicates, GetLowestClosedPathIdx and Area are stubs in the Group constructor unit.
