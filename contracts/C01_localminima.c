//@unit C01_localminima
//@props C01
//@safetyprops C10
//@desc ClipperBase::InsertLocalMinimaIntoAEL for one closed local minimum - BOUNDED harness (one local minimum at the scanline, AEL of 0..2 resident edges; real InsertLeftEdge, InsertRightEdge, SwapPositionsInAEL, SwapActives, IsHorizontal, IsHeadingRightHorz / LeftHorz, IsOpen; SetDx hands over an arbitrary slope, +/-DBL_MAX for a horizontal as GetDx is proved to do; IsValidAelOrder, the wind-count and contribution functions, AddLocalMinPoly, IntersectEdges, joins, PushHorz, InsertScanline are stubs that check the state they are called in). Exactly two bounds are created at the minimum's vertex: the descending one (wind_dx -1, towards the previous vertex) and the ascending one (+1, towards the next), each starting at the vertex (bot == curr position) with its top at the neighbouring INPUT vertex and tied to this local minimum; the bound that leaves the vertex further to the left becomes the left bound (slope comparison; a horizontal heading left is left, heading right is right); the left bound is inserted first and its winding counts are computed; the right bound takes over the same counts and is placed immediately to the right of the left bound; a contributing pair starts a new contour at the vertex (AddLocalMinPoly(left, right, vertex, new)) and the left bound is checked for a join unless horizontal; the right bound then moves right past every neighbour that IsValidAelOrder says belongs on its left, each step being an intersection AT THE VERTEX with its immediate neighbour followed by their swap; finally each bound is either queued as a horizontal or gets a scanline at its top (the right one also a join check at the vertex). Open path END POINTS (second run): exactly one bound - ascending from the path's start, descending from its end -, inserted as a left bound, counted with the open-path rule, and an open contour is started at the vertex iff it contributes.
#include "vf.h"
#include <float.h>
//@include engine_types.inc
Active g_n0, g_n1, g_r0, g_r1; int g_nnew;
static Active* vf_new_active(void) { __CPROVER_assert(g_nnew < 2, "two bounds per local minimum"); Active* a = g_nnew == 0 ? &g_n0 : &g_n1; g_nnew++; a->prev_in_ael = NULL; a->next_in_ael = NULL; a->outrec = NULL; a->join_with = JoinWith_NoJoin; a->is_left_bound = false; a->wind_cnt = 0; a->wind_cnt2 = 0; a->jump = NULL; return a; }
Vertex g_vp, g_vm, g_vn; LocalMinima g_lm; bool g_popped;
static bool PopLocalMinima__p(ClipperBase* self, int64_t y, LocalMinima** lm) { if (g_popped) return false; __CPROVER_assert(y == g_vm.pt.y, "minima of this scanline"); g_popped = true; *lm = &g_lm; return true; }
#define PopLocalMinima(s, y, lm) PopLocalMinima__p(s, y, &(lm))
double nondet_double(void); bool nondet_bool(void); unsigned nondet_uint(void); int64_t nondet_i64(void);
static void SetDx__p(Active* e) { double d = nondet_double(); __CPROVER_assume(!__CPROVER_isnand(d) && d > -DBL_MAX && d < DBL_MAX); e->dx = (e->top.y == e->bot.y) ? (e->top.x > e->bot.x ? -DBL_MAX : DBL_MAX) : d; }
#define SetDx(e) SetDx__p(&(e))
int g_seq; int g_s_insl = -1, g_s_wc = -1, g_s_insr = -1, g_s_lmp = -1, g_s_cjl = -1; Active *g_L, *g_R; bool g_contrib; int g_nie, g_npush_L, g_npush_R, g_nscan_L, g_nscan_R, g_ncjr, g_nstart; bool g_pending_swap; Active* g_ie_other;
static bool IsValidAelOrder__stub(const Active* resident, const Active* newcomer) { return nondet_bool(); }
#define IsValidAelOrder(r, n) IsValidAelOrder__stub(&(r), &(n))
//@extract file=CPP/Clipper2Lib/src/clipper.engine.cpp func=IsHorizontal sig="const Active& e" byptr=e refmacro=1
//@end
//@extract file=CPP/Clipper2Lib/src/clipper.engine.cpp func=IsHeadingRightHorz byptr=e refmacro=1
//@sub /std::numeric_limits<double>::max\(\)|\(std::numeric_limits<double>::max\)\(\)/DBL_MAX/ min=0
//@end
//@extract file=CPP/Clipper2Lib/src/clipper.engine.cpp func=IsHeadingLeftHorz byptr=e refmacro=1
//@sub /std::numeric_limits<double>::max\(\)|\(std::numeric_limits<double>::max\)\(\)/DBL_MAX/ min=0
//@end
//@extract file=CPP/Clipper2Lib/src/clipper.engine.cpp func=IsOpen sig="const Active& e" byptr=e refmacro=1
//@end
//@extract file=CPP/Clipper2Lib/src/clipper.engine.cpp func=IsJoined byptr=e refmacro=1
//@end
//@extract file=CPP/Clipper2Lib/src/clipper.engine.cpp func=SwapActives as=SwapActives__r byptr=e1,e2
//@end
#define SwapActives(a, b) SwapActives__r(&(a), &(b))
//@extract file=CPP/Clipper2Lib/src/clipper.engine.cpp func=InsertRightEdge as=InsertRightEdge__r byptr=e,e2
//@sub /&\(\*e2\)/e2/ min=0
//@sub /&\(\*e\)/e/ min=0
//@end
static void InsertRightEdge__c(Active* e, Active* e2) { __CPROVER_assert(e->is_left_bound && !e2->is_left_bound && e2->wind_cnt == e->wind_cnt && e2->wind_cnt2 == e->wind_cnt2 && g_s_wc >= 0, "the right bound takes over the left bound's winding counts before it is inserted"); g_s_insr = g_seq++; g_L = e; g_R = e2; InsertRightEdge__r(e, e2); }
#define InsertRightEdge(a, b) InsertRightEdge__c(&(a), &(b))
//@extract file=CPP/Clipper2Lib/src/clipper.engine.cpp func=ClipperBase::InsertLeftEdge as=InsertLeftEdge__r self=ClipperBase byptr=e
//@sub /&\(\*e\)/e/ min=0
//@end
static void InsertLeftEdge__c(ClipperBase* s, Active* e) { __CPROVER_assert(e->is_left_bound && g_s_insl < 0, "the left bound is inserted first, once"); g_s_insl = g_seq++; g_L = e; InsertLeftEdge__r(s, e); }
#define InsertLeftEdge(s, e) InsertLeftEdge__c(s, &(e))
//@extract file=CPP/Clipper2Lib/src/clipper.engine.cpp func=ClipperBase::SwapPositionsInAEL as=SwapPositionsInAEL__r self=ClipperBase byptr=e1,e2
//@end
static void SwapPositionsInAEL__c(ClipperBase* s, Active* a, Active* b) { __CPROVER_assert(g_pending_swap && a == g_R && b == g_ie_other, "exactly the pair just intersected is swapped"); g_pending_swap = false; SwapPositionsInAEL__r(s, a, b); }
#define SwapPositionsInAEL(s, a, b) SwapPositionsInAEL__c(s, &(a), &(b))
static void SetWindCountForClosedPathEdge__p(ClipperBase* s, Active* e) { __CPROVER_assert(e->is_left_bound && g_s_insl >= 0 && g_s_wc < 0, "winding counts of the left bound, after it is in the AEL"); g_s_wc = g_seq++; e->wind_cnt = (int)nondet_uint(); e->wind_cnt2 = (int)nondet_uint(); }
#define SetWindCountForClosedPathEdge(s, e) SetWindCountForClosedPathEdge__p(s, &(e))
#ifdef OPENMIN
static void SetWindCountForOpenPathEdge__p(ClipperBase* s, Active* e) { __CPROVER_assert(e->is_left_bound && g_s_insl >= 0 && g_s_wc < 0, "winding counts of the (only / left) bound of an open path, after it is in the AEL"); g_s_wc = g_seq++; e->wind_cnt = (int)nondet_uint(); e->wind_cnt2 = (int)nondet_uint(); }
#else
static void SetWindCountForOpenPathEdge__p(ClipperBase* s, Active* e) { __CPROVER_assert(0, "closed minimum"); }
#endif
#define SetWindCountForOpenPathEdge(s, e) SetWindCountForOpenPathEdge__p(s, &(e))
static bool IsContributingClosed__p(ClipperBase* s, const Active* e) { __CPROVER_assert(e->is_left_bound && g_s_wc >= 0, "contribution is decided on the left bound's counts"); return g_contrib; }
#define IsContributingClosed(s, e) IsContributingClosed__p(s, &(e))
#ifdef OPENMIN
static bool IsContributingOpen__p(ClipperBase* s, const Active* e) { __CPROVER_assert(e->is_left_bound && g_s_wc >= 0, "contribution is decided on the bound's counts"); return g_contrib; }
#else
static bool IsContributingOpen__p(ClipperBase* s, const Active* e) { __CPROVER_assert(0, "closed minimum"); return false; }
#endif
#define IsContributingOpen(s, e) IsContributingOpen__p(s, &(e))
static OutPt* AddLocalMinPoly__p(ClipperBase* s, Active* e1, Active* e2, Point64 pt, bool is_new) { __CPROVER_assert(g_contrib && e1 == g_L && e2 == g_R && g_s_insr >= 0 && is_new && pt.x == g_vm.pt.x && pt.y == g_vm.pt.y && e1->next_in_ael == e2, "a contributing pair starts a NEW contour at the vertex, left bound first, while the two are neighbours"); g_s_lmp = g_seq++; return NULL; }
#define AddLocalMinPoly(s, a, b, p, n) AddLocalMinPoly__p(s, &(a), &(b), p, n)
static void CheckJoinLeft__p(ClipperBase* s, Active* e, Point64 pt, bool b) { __CPROVER_assert(e == g_L && g_s_lmp >= 0 && e->top.y != e->bot.y && pt.x == g_vm.pt.x && pt.y == g_vm.pt.y, "join check of a non-horizontal contributing left bound at the vertex"); g_s_cjl = g_seq++; }
#define CheckJoinLeft(s, e, p) CheckJoinLeft__p(s, &(e), p, false)
static void CheckJoinRight__p(ClipperBase* s, Active* e, Point64 pt, bool b) { __CPROVER_assert(e == g_R && e->top.y != e->bot.y && !g_pending_swap && pt.x == g_vm.pt.x && pt.y == g_vm.pt.y, "join check of a non-horizontal right bound at the vertex, after it has moved"); g_ncjr++; }
#define CheckJoinRight(s, e, p) CheckJoinRight__p(s, &(e), p, false)
static void IntersectEdges__p(ClipperBase* s, Active* e1, Active* e2, Point64 pt) { __CPROVER_assert(e1 == g_R && e1->next_in_ael == e2 && e2 != NULL && !g_pending_swap && pt.x == g_vm.pt.x && pt.y == g_vm.pt.y, "the right bound is intersected with its immediate right neighbour at the vertex"); g_nie++; g_pending_swap = true; g_ie_other = e2; }
#define IntersectEdges(s, a, b, p) IntersectEdges__p(s, &(a), &(b), p)
static void PushHorz__p(ClipperBase* s, Active* e) { __CPROVER_assert(e->top.y == e->bot.y, "only horizontals are queued"); if (e == g_L) g_npush_L++; else if (e == g_R) g_npush_R++; else __CPROVER_assert(0, "a bound of this minimum"); }
#define PushHorz(s, e) PushHorz__p(s, &(e))
static void InsertScanline(ClipperBase* s, int64_t y) { if (g_L && y == g_L->top.y && g_L->top.y != g_L->bot.y && g_nscan_L == 0 && (g_nscan_R > 0 || !(g_R && y == g_R->top.y && g_R->top.y != g_R->bot.y))) g_nscan_L++; else if (g_R && y == g_R->top.y && g_R->top.y != g_R->bot.y && g_nscan_R == 0) g_nscan_R++; else __CPROVER_assert(0, "a scanline at the top of a non-horizontal bound, once per bound"); }
#ifdef OPENMIN
static OutPt* StartOpenPath__p(ClipperBase* s, Active* e, Point64 pt) { __CPROVER_assert(g_contrib && e->is_left_bound && g_s_wc >= 0 && pt.x == g_vm.pt.x && pt.y == g_vm.pt.y, "a contributing open end starts an open contour at the vertex"); g_nstart++; g_L = e; return NULL; }
#else
static OutPt* StartOpenPath__p(ClipperBase* s, Active* e, Point64 pt) { __CPROVER_assert(0, "closed minimum"); return NULL; }
#endif
#define StartOpenPath(s, e, p) StartOpenPath__p(s, &(e), p)
//@assume A5 (C01_localminima): see the description; the stubs' own contracts are C01_windcount, C01_contrib, C05_newpaths, C10_joins, C13_aelorder, C15_intersect, C10_topx.
//@extract file=CPP/Clipper2Lib/src/clipper.engine.cpp func=ClipperBase::InsertLocalMinimaIntoAEL self=ClipperBase selfcalls=PopLocalMinima,InsertLeftEdge,SetWindCountForOpenPathEdge,IsContributingOpen,SetWindCountForClosedPathEdge,IsContributingClosed,AddLocalMinPoly,CheckJoinLeft,IntersectEdges,SwapPositionsInAEL,PushHorz,CheckJoinRight,InsertScanline,StartOpenPath
//@sub /new Active\(\)/vf_new_active()/ min=2
//@end
void h_LM(void)
{
  ClipperBase cb; unsigned nres = nondet_uint() % 3;
  g_vp.pt.x = nondet_i64(); g_vp.pt.y = nondet_i64(); g_vm.pt.x = nondet_i64(); g_vm.pt.y = nondet_i64(); g_vn.pt.x = nondet_i64(); g_vn.pt.y = nondet_i64();
  __CPROVER_assume(g_vp.pt.y <= g_vm.pt.y && g_vn.pt.y <= g_vm.pt.y);             /* a local minimum: both neighbours are not below it (y grows downwards) */
  g_vm.prev = &g_vp; g_vm.next = &g_vn; g_vm.flags = VertexFlags_LocalMin; g_vp.flags = VertexFlags_Empty; g_vn.flags = VertexFlags_Empty;
  g_lm.vertex = &g_vm; g_lm.is_open = false; g_lm.polytype = PathType_Subject; g_popped = false; g_nnew = 0; g_seq = 0; g_contrib = nondet_bool(); g_L = NULL; g_R = NULL;
  g_r0.prev_in_ael = NULL; g_r0.next_in_ael = nres > 1 ? &g_r1 : NULL; g_r1.prev_in_ael = &g_r0; g_r1.next_in_ael = NULL; g_r0.join_with = JoinWith_NoJoin; g_r1.join_with = JoinWith_NoJoin;
  cb.actives_ = nres ? &g_r0 : NULL;
  InsertLocalMinimaIntoAEL(&cb, g_vm.pt.y);
  __CPROVER_assert(g_nnew == 2 && g_popped && g_L != NULL && g_R != NULL && g_L != g_R && (g_L == &g_n0 || g_L == &g_n1) && (g_R == &g_n0 || g_R == &g_n1), "exactly two bounds are created and inserted as left and right bound");
  Active* D = g_L->wind_dx < 0 ? g_L : g_R; Active* A = D == g_L ? g_R : g_L;
  __CPROVER_assert(D->wind_dx == -1 && A->wind_dx == 1, "one descending and one ascending bound");
  __CPROVER_assert(D->vertex_top == &g_vp && D->top.x == g_vp.pt.x && D->top.y == g_vp.pt.y && A->vertex_top == &g_vn && A->top.x == g_vn.pt.x && A->top.y == g_vn.pt.y, "tops at the neighbouring input vertices");
  __CPROVER_assert(D->bot.x == g_vm.pt.x && D->bot.y == g_vm.pt.y && A->bot.x == g_vm.pt.x && A->bot.y == g_vm.pt.y && D->local_min == &g_lm && A->local_min == &g_lm, "both start at the minimum's vertex and are tied to it");
  __CPROVER_assert(g_L->is_left_bound && !g_R->is_left_bound && g_L->dx >= g_R->dx, "the bound leaving the vertex further to the left is the left bound");
  __CPROVER_assert(g_s_insl >= 0 && g_s_wc > g_s_insl && g_s_insr > g_s_wc, "left bound inserted, counted, then the right bound placed");
  __CPROVER_assert((g_s_lmp >= 0) == g_contrib && (g_s_cjl >= 0) == (g_contrib && g_L->top.y != g_L->bot.y), "a contour is started iff the pair contributes; the left bound is checked for a join unless horizontal");
  __CPROVER_assert(!g_pending_swap && g_nie <= (int)nres, "every intersection was followed by its swap");
  bool Lh = g_L->top.y == g_L->bot.y, Rh = g_R->top.y == g_R->bot.y;
  __CPROVER_assert(g_npush_L == (Lh ? 1 : 0) && g_nscan_L == (Lh ? 0 : 1) && g_npush_R == (Rh ? 1 : 0) && g_nscan_R == (Rh ? 0 : 1) && g_ncjr == (Rh ? 0 : 1), "each bound is queued as a horizontal or gets a scanline at its top; the right one a join check");
  __CPROVER_assert(g_L->curr_x == g_vm.pt.x, "current position of the left bound is the vertex");
  /* AEL: all four (2 + residents) edges, consistent links */
  unsigned n = 0; Active* p = cb.actives_; Active* prev = NULL; bool sawL = false, sawR = false;
  for (int k = 0; k < 4 && p; ++k) { __CPROVER_assert(p->prev_in_ael == prev, "links consistent"); if (p == g_L) sawL = true; if (p == g_R) { sawR = true; __CPROVER_assert(sawL, "the right bound is to the right of the left bound"); } prev = p; p = p->next_in_ael; ++n; }
  __CPROVER_assert(p == NULL && n == 2 + nres && sawL && sawR, "the AEL holds the residents and both bounds");
  VF_CANARY();
}
#ifdef OPENMIN
/* the START or END vertex of an open path is a local minimum: only one bound exists */
void h_LMO(void)
{
  ClipperBase cb; unsigned nres = nondet_uint() % 3; bool at_start = nondet_bool();
  g_vp.pt.x = nondet_i64(); g_vp.pt.y = nondet_i64(); g_vm.pt.x = nondet_i64(); g_vm.pt.y = nondet_i64(); g_vn.pt.x = nondet_i64(); g_vn.pt.y = nondet_i64();
  __CPROVER_assume(g_vp.pt.y <= g_vm.pt.y && g_vn.pt.y <= g_vm.pt.y);
  g_vm.prev = &g_vp; g_vm.next = &g_vn; g_vm.flags = at_start ? (VertexFlags_LocalMin | VertexFlags_OpenStart) : (VertexFlags_LocalMin | VertexFlags_OpenEnd); g_vp.flags = VertexFlags_Empty; g_vn.flags = VertexFlags_Empty;
  g_lm.vertex = &g_vm; g_lm.is_open = true; g_lm.polytype = PathType_Subject; g_popped = false; g_nnew = 0; g_seq = 0; g_contrib = nondet_bool(); g_L = NULL; g_R = NULL;
  g_r0.prev_in_ael = NULL; g_r0.next_in_ael = nres > 1 ? &g_r1 : NULL; g_r1.prev_in_ael = &g_r0; g_r1.next_in_ael = NULL; g_r0.join_with = JoinWith_NoJoin; g_r1.join_with = JoinWith_NoJoin;
  cb.actives_ = nres ? &g_r0 : NULL;
  InsertLocalMinimaIntoAEL(&cb, g_vm.pt.y);
  __CPROVER_assert(g_nnew == 1 && g_popped && g_L == &g_n0 && g_R == NULL, "an open end has exactly one bound");
  __CPROVER_assert(at_start ? (g_L->wind_dx == 1 && g_L->vertex_top == &g_vn && g_L->top.x == g_vn.pt.x && g_L->top.y == g_vn.pt.y) : (g_L->wind_dx == -1 && g_L->vertex_top == &g_vp && g_L->top.x == g_vp.pt.x && g_L->top.y == g_vp.pt.y), "the path's start gives the ascending bound towards the next vertex, its end the descending one towards the previous vertex");
  __CPROVER_assert(g_L->bot.x == g_vm.pt.x && g_L->bot.y == g_vm.pt.y && g_L->curr_x == g_vm.pt.x && g_L->local_min == &g_lm && g_L->is_left_bound, "it starts at the vertex, is tied to the minimum and is inserted as a left bound");
  __CPROVER_assert(g_s_insl >= 0 && g_s_wc > g_s_insl && g_s_insr < 0 && g_s_lmp < 0 && g_nie == 0, "inserted, then counted with the open-path rule; no pair, no closed contour, no crossings");
  __CPROVER_assert(g_nstart == (g_contrib ? 1 : 0), "an open contour is started iff the bound contributes");
  bool Lh = g_L->top.y == g_L->bot.y;
  __CPROVER_assert(g_npush_L == (Lh ? 1 : 0) && g_nscan_L == (Lh ? 0 : 1) && g_npush_R == 0 && g_nscan_R == 0 && g_ncjr == 0, "queued as a horizontal or given a scanline at its top");
  unsigned n = 0; Active* p = cb.actives_; Active* prev = NULL; bool sawL = false;
  for (int k = 0; k < 3 && p; ++k) { __CPROVER_assert(p->prev_in_ael == prev, "links consistent"); if (p == g_L) sawL = true; prev = p; p = p->next_in_ael; ++n; }
  __CPROVER_assert(p == NULL && n == 1 + nres && sawL, "the AEL holds the residents and the bound");
  VF_CANARY();
}
#endif
//@run name=InsertLocalMinimaIntoAEL.openend entry=h_LMO defs=OPENMIN unwind=5 flags="--bounds-check --pointer-check" timeout=600 bounded="the start or end vertex of an open path as local minimum, AEL of 0..2 resident edges" props=C05,C01,C10
//@run name=InsertLocalMinimaIntoAEL.closed entry=h_LM unwind=5 flags="--bounds-check --pointer-check" timeout=600 bounded="one closed local minimum, AEL of 0..2 resident edges"
