//@unit C03_cleancollinear
//@props C03 C02
//@safetyprops C10 C14
//@desc ClipperBase::CleanCollinear — BOUNDED (OutPt ring of exactly N nodes, N = 4; 5 in the thorough tier; start node and PreserveCollinear symbolic). Geometry is abstracted to ARBITRARY relations over vertex identities (which triples are collinear, which pairs coincide, which triples fold back), so the result covers every coordinate assignment; DisposeOutPt, IsValidClosedPath and GetRealOutRec are the real bodies (IsVerySmallTriangle answers arbitrarily), FixSelfIntersects/DisposeOutPts are stubs. When the path survives: the ring is consistent and holds live nodes only, every vertex was either kept or disposed exactly once, at least three remain, and NO REMOVABLE VERTEX IS LEFT - no vertex equal to a neighbour, no 180-degree spike, and with PreserveCollinear off no collinear vertex (what BuildPath64's unit assumes of its input); a path that vanishes is disposed as a whole.
#include "vf.h"
//@include engine_types.inc
#ifndef N
#define N 5
#endif
/* Geometry is abstracted to arbitrary relations over vertex IDENTITIES (sound: every concrete geometry induces such relations; CleanCollinear's
   claim - no removable vertex is left - is about how the ring is scanned, not about arithmetic).  A vertex's identity is stored in pt.x. */
bool g_col[N][N][N], g_eq[N][N], g_neg[N][N][N];
#define ID(p) ((unsigned)(p).x)
static inline bool Point64_eq(Point64 a, Point64 b) { return ID(a) == ID(b) || g_eq[ID(a)][ID(b)]; }
static inline bool IsCollinear(Point64 a, Point64 b, Point64 c) { return g_col[ID(a)][ID(b)][ID(c)]; }
static inline double DotProduct(Point64 a, Point64 b, Point64 c) { return g_neg[ID(a)][ID(b)][ID(c)] ? -1.0 : 1.0; }
#define DOT(a, b, c) (g_neg[ID(a)][ID(b)][ID(c)] ? -1 : 1)
bool nondet_bool(void);
static inline bool IsVerySmallTriangle__s(const OutPt* op) { return nondet_bool(); }
#define IsVerySmallTriangle(o) IsVerySmallTriangle__s(&(o))
bool g_disposed_all; int g_ndisposed; bool g_fixed;
bool g_gone[N];  OutPt g_nodes[N];
#define VF_DELETE(op) do { for (int q_ = 0; q_ < N; ++q_) if ((op) == &g_nodes[q_]) { __CPROVER_assert(!g_gone[q_], "no double delete"); g_gone[q_] = true; } g_ndisposed++; } while (0)
void DisposeOutPts(OutRec* outrec) { g_disposed_all = true; outrec->pts = NULL; }
void FixSelfIntersects(ClipperBase* self, OutRec* outrec) { g_fixed = true; }
//@extract file=CPP/Clipper2Lib/src/clipper.engine.cpp func=GetRealOutRec
//@end
//@extract file=CPP/Clipper2Lib/src/clipper.engine.cpp func=IsValidClosedPath
//@end
//@extract file=CPP/Clipper2Lib/src/clipper.engine.cpp func=DisposeOutPt
//@sub /delete op;/VF_DELETE(op);/
//@end
//@extract file=CPP/Clipper2Lib/src/clipper.engine.cpp func=ClipperBase::CleanCollinear self=ClipperBase selfcalls=FixSelfIntersects
//@sub /op2->pt == op2->prev->pt/Point64_eq(op2->pt, op2->prev->pt)/
//@sub /op2->pt == op2->next->pt/Point64_eq(op2->pt, op2->next->pt)/
//@end
unsigned nondet_uint(void);
#define REMOVABLE(op, pres) (IsCollinear((op)->prev->pt, (op)->pt, (op)->next->pt) && (Point64_eq((op)->pt, (op)->prev->pt) || Point64_eq((op)->pt, (op)->next->pt) || !(pres) || DOT((op)->prev->pt, (op)->pt, (op)->next->pt) < 0))
void h_CC(void)
{
  ClipperBase cb; OutRec orec; cb.preserve_collinear_ = nondet_bool();
  for (int a = 0; a < N; ++a) for (int b = 0; b < N; ++b) { g_eq[a][b] = nondet_bool(); for (int c = 0; c < N; ++c) { g_col[a][b][c] = nondet_bool(); g_neg[a][b][c] = nondet_bool(); } }
  for (int i = 0; i < N; ++i) { g_nodes[i].pt.x = i; g_nodes[i].pt.y = 0;
    g_nodes[i].next = &g_nodes[(i + 1) % N]; g_nodes[i].prev = &g_nodes[(i + N - 1) % N]; g_nodes[i].outrec = &orec; g_gone[i] = false; }
  unsigned s = nondet_uint(); __CPROVER_assume(s < N);
  orec.pts = &g_nodes[s]; orec.is_open = false; orec.owner = NULL; g_disposed_all = false; g_ndisposed = 0; g_fixed = false;
  CleanCollinear(&cb, &orec);
  if (orec.pts == NULL) __CPROVER_assert(g_disposed_all, "a path that vanishes is disposed as a whole");
  else {
    __CPROVER_assert(!g_disposed_all && g_fixed, "a surviving path goes on to FixSelfIntersects");
    /* walk the surviving ring: consistent links, live nodes only, and no vertex left that the rule says must go */
    OutPt* op = orec.pts; int cnt = 0;
    for (int k = 0; k < N; ++k) {
      int idx = -1; for (int q = 0; q < N; ++q) if (op == &g_nodes[q]) idx = q;
      __CPROVER_assert(idx >= 0 && !g_gone[idx], "ring holds live nodes only");
      __CPROVER_assert(op->next->prev == op && op->prev->next == op, "ring links are consistent");
      __CPROVER_assert(!REMOVABLE(op, cb.preserve_collinear_), "no removable vertex is left: no duplicate neighbour, no 180-degree spike, and (PreserveCollinear off) no collinear vertex");
      cnt++; op = op->next; if (op == orec.pts) break;
    }
    __CPROVER_assert(op == orec.pts && cnt >= 3 && cnt + g_ndisposed == N, "the ring closes, keeps at least three vertices, and every vertex is either kept or disposed");
  }
  VF_CANARY();
}
//@run name=CleanCollinear.n4 entry=h_CC defs=N=4 unwind=12 flags="--bounds-check --pointer-check --unsigned-overflow-check" mem=16 timeout=600 bounded="OutPt ring of exactly 4 nodes; collinearity / coincidence / spike relations over the vertices arbitrary; start node and PreserveCollinear symbolic"
//@run name=CleanCollinear.n5 tier=thorough entry=h_CC defs=N=5 unwind=14 flags="--bounds-check --pointer-check --unsigned-overflow-check" mem=16 timeout=900 bounded="OutPt ring of exactly 5 nodes; collinearity / coincidence / spike relations over the vertices arbitrary; start node and PreserveCollinear symbolic"
//@assume A-geom (C03_cleancollinear): IsCollinear, point equality and the sign of DotProduct are arbitrary relations over vertex identities (an over-approximation of every geometry); IsVerySmallTriangle answers arbitrarily; FixSelfIntersects and DisposeOutPts are stubs.
