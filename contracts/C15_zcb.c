//@unit C15_zcb
//@props C15
//@safetyprops C10 C14
//@desc The Z proxies of the offsetter and of ClipperD (USINGZ). ClipperOffset::ZCB (the callback the clean-up union of an offset is given): x and y of the crossing are never touched; z is taken from an end point shared by the two crossing edges (bot1.z if it equals bot2.z or top2.z, else bot2.z if it equals top1.z, else top1.z if it equals top2.z - zero counts as "no label"), and only when no label is shared is the user's callback consulted (exactly once, with the same five arguments); without a user callback the crossing keeps its z. ClipperD::ZCB: the user's callback is called exactly once with the five points DESCALED by invScale_ (x and y through the same factor), and afterwards only z of the integer vertex is changed - to what the callback assigned.
#include "vf.h"
typedef struct { int64_t x, y, z; } Point64;
typedef struct { double x, y; int64_t z; } PointD;
double __CPROVER_uninterpreted_imul(int64_t, double);
int g_cb_n; const Point64 *g_a1, *g_a2, *g_a3, *g_a4; Point64* g_a5; int64_t g_cb_z;
void vf_user_cb64(const Point64* b1, const Point64* t1, const Point64* b2, const Point64* t2, Point64* ip)
__CPROVER_ensures(g_cb_n == __CPROVER_old(g_cb_n) + 1 && g_a1 == b1 && g_a2 == t1 && g_a3 == b2 && g_a4 == t2 && g_a5 == ip && ip->z == g_cb_z && ip->x == __CPROVER_old(ip->x) && ip->y == __CPROVER_old(ip->y))
__CPROVER_assigns(g_cb_n, g_a1, g_a2, g_a3, g_a4, g_a5, ip->z);
typedef struct { bool has_cb; } ClipperOffsetS;
//@extract file=CPP/Clipper2Lib/src/clipper.offset.cpp func=ClipperOffset::ZCB self=ClipperOffsetS byptr=bot1,top1,bot2,top2,ip cpp=USINGZ ifndef=DVAR
//@sub /self->zCallback64_\) zCallback64_\(\(\*bot1\), \(\*top1\), \(\*bot2\), \(\*top2\), \(\*ip\)\);/self->has_cb) vf_user_cb64(bot1, top1, bot2, top2, ip);/
__CPROVER_requires(__CPROVER_is_fresh(self, sizeof(*self)) && __CPROVER_is_fresh(bot1, sizeof(Point64)) && __CPROVER_is_fresh(top1, sizeof(Point64)) && __CPROVER_is_fresh(bot2, sizeof(Point64)) && __CPROVER_is_fresh(top2, sizeof(Point64)) && __CPROVER_is_fresh(ip, sizeof(Point64)) && g_cb_n == 0 && BOOL_OK(self->has_cb))
__CPROVER_ensures(ip->x == __CPROVER_old(ip->x) && ip->y == __CPROVER_old(ip->y))
#define SHARED1 (bot1->z != 0 && (bot1->z == bot2->z || bot1->z == top2->z))
#define SHARED2 (bot2->z != 0 && bot2->z == top1->z)
#define SHARED3 (top1->z != 0 && top1->z == top2->z)
__CPROVER_ensures(SHARED1 ==> (ip->z == bot1->z && g_cb_n == 0))
__CPROVER_ensures((!SHARED1 && SHARED2) ==> (ip->z == bot2->z && g_cb_n == 0))
__CPROVER_ensures((!SHARED1 && !SHARED2 && SHARED3) ==> (ip->z == top1->z && g_cb_n == 0))
__CPROVER_ensures((!SHARED1 && !SHARED2 && !SHARED3) ==> (self->has_cb ? (g_cb_n == 1 && g_a1 == bot1 && g_a2 == top1 && g_a3 == bot2 && g_a4 == top2 && g_a5 == ip && ip->z == g_cb_z) : (g_cb_n == 0 && ip->z == __CPROVER_old(ip->z))))
__CPROVER_assigns(ip->z, g_cb_n, g_a1, g_a2, g_a3, g_a4, g_a5)
//@end
/* ---------- ClipperD::ZCB ---------- */
#ifdef DVAR
typedef struct { double invScale_; } ClipperDS;
double g_sx[5], g_sy[5]; int64_t g_sz[5]; int g_cbd_n; int64_t g_cbd_z;
double __CPROVER_uninterpreted_fmul(double, double);
#define vf_fmul(a, b) __CPROVER_uninterpreted_fmul((double)(a), (double)(b))
#define VSELA(a, b, c) (a)
#define VSELB(a, b, c) (b)
#define VSELC(a, b, c) (c)
static inline PointD PD_from64(Point64 p) { PointD r; r.x = (double)p.x; r.y = (double)p.y; r.z = p.z; return r; }     /* Point<double>(const Point<int64_t>&): Init(p.x, p.y, p.z), C16_init */
//@extract file=CPP/Clipper2Lib/include/clipper2/clipper.core.h func=operator* scope=Point nth=0 as=PointD_mul self=PointD members=x,y,z ifdef=DVAR
//@pysub fmul_all
//@sub /^Point PointD_mul/PointD PointD_mul/
//@sub /PointD\* self/const PointD a/
//@sub /self->/a./ min=3
//@sub /return Point\(([^;]*)\);/{ PointD r_; r_.x = VSELA(\1); r_.y = VSELB(\1); r_.z = VSELC(\1); return r_; }/
//@end
void vf_user_cbD(PointD* e1b, PointD* e1t, PointD* e2b, PointD* e2t, PointD* tmp)
__CPROVER_ensures(g_cbd_n == __CPROVER_old(g_cbd_n) + 1 && tmp->z == g_cbd_z)
__CPROVER_ensures(g_sx[0] == e1b->x && g_sy[0] == e1b->y && g_sz[0] == e1b->z && g_sx[1] == e1t->x && g_sy[1] == e1t->y && g_sx[2] == e2b->x && g_sy[2] == e2b->y && g_sx[3] == e2t->x && g_sy[3] == e2t->y && g_sx[4] == __CPROVER_old(tmp->x) && g_sy[4] == __CPROVER_old(tmp->y))
__CPROVER_assigns(g_cbd_n, g_sx, g_sy, g_sz, tmp->z);
//@extract file=CPP/Clipper2Lib/include/clipper2/clipper.engine.h func=ZCB scope=ClipperD self=ClipperDS byptr=e1bot,e1top,e2bot,e2top,pt cpp=USINGZ ifdef=DVAR
//@sub /PointD\(\(\*(\w+)\)\) \* self->invScale_/PointD_mul(PD_from64((*\1)), self->invScale_)/ min=5
//@sub /(?:self->)?zCallbackD_\(e1b,\s*e1t, e2b, e2t, tmp\);/vf_user_cbD(&e1b, &e1t, &e2b, &e2t, &tmp);/
__CPROVER_requires(__CPROVER_is_fresh(self, sizeof(*self)) && __CPROVER_is_fresh(e1bot, sizeof(Point64)) && __CPROVER_is_fresh(e1top, sizeof(Point64)) && __CPROVER_is_fresh(e2bot, sizeof(Point64)) && __CPROVER_is_fresh(e2top, sizeof(Point64)) && __CPROVER_is_fresh(pt, sizeof(Point64)) && g_cbd_n == 0)
__CPROVER_requires(!__CPROVER_isnand(self->invScale_) && self->invScale_ > 0.0 && self->invScale_ <= 1.0)
#define DS(v) vf_fmul((double)(v), self->invScale_)
__CPROVER_ensures(pt->x == __CPROVER_old(pt->x) && pt->y == __CPROVER_old(pt->y) && pt->z == g_cbd_z && g_cbd_n == 1)
__CPROVER_ensures(g_sx[0] == DS(e1bot->x) && g_sy[0] == DS(e1bot->y) && g_sx[1] == DS(e1top->x) && g_sy[1] == DS(e1top->y) && g_sx[2] == DS(e2bot->x) && g_sy[2] == DS(e2bot->y) && g_sx[3] == DS(e2top->x) && g_sy[3] == DS(e2top->y) && g_sx[4] == DS(pt->x) && g_sy[4] == DS(pt->y))
__CPROVER_assigns(pt->z, g_cbd_n, g_sx, g_sy, g_sz)
//@end
void h_ZCBD(void) { ClipperDS* s; Point64 *a, *b, *c, *d, *e; ZCB(s, a, b, c, d, e); VF_CANARY(); }
#endif
#ifndef DVAR
void h_ZCB(void) { ClipperOffsetS* s; Point64 *a, *b, *c, *d, *e; ZCB(s, a, b, c, d, e); VF_CANARY(); }
#endif
//@run name=ClipperOffset.ZCB entry=h_ZCB enforce=ZCB replace=vf_user_cb64 flags=SAFETY timeout=120
//@run name=ClipperD.ZCB entry=h_ZCBD enforce=ZCB replace=vf_user_cbD defs=DVAR flags="--bounds-check --pointer-check" solver=cadical timeout=300
//@assume A5 (C15_zcb): the user callbacks are recording stubs; ClipperD::ZCB: Point<double>(const Point<int64_t>&) is modelled as the plain cast (C16_init proves Init for that instantiation), Point::operator* is the real body; the descaling products are applications of one uninterpreted function.
