//@unit C11_errors
//@props C11
//@safetyprops C10 C14
//@desc Error reporting kernels: CheckPrecisionRange in both exception configurations (DoError is a stub: with exceptions it does not return; without it returns and the error code carries the report), and the zero-scale guard of ScalePath.
#include "vf.h"
//@const file=CPP/Clipper2Lib/include/clipper2/clipper.core.h name=precision_error_i,scale_error_i,non_pair_error_i,undefined_error_i,range_error_i,CLIPPER2_MAX_DEC_PRECISION

/* DoError stub: logs the code of the (single) report */
int g_err_n, g_err_code;
void DoError(int error_code)
__CPROVER_requires(1)
#ifdef EXC
__CPROVER_ensures(0)   /* throws: does not return */
#else
__CPROVER_ensures(g_err_n == __CPROVER_old(g_err_n) + 1 && g_err_code == error_code)
#endif
__CPROVER_assigns(g_err_n, g_err_code)
;
//@assume A5: DoError(code) throws Clipper2Exception in exception builds (modelled: does not return) and returns without effect otherwise (modelled: logs the code).

#define IN_RANGE(p) ((p) >= -8 && (p) <= 8)
//@extract file=CPP/Clipper2Lib/include/clipper2/clipper.core.h func=CheckPrecisionRange sig="int& error_code" byptr=precision,error_code must=R5 ifndef=UNIT_SCALEPATHS
__CPROVER_requires(__CPROVER_is_fresh(precision, sizeof(int)) && __CPROVER_is_fresh(error_code, sizeof(int)) && g_err_n == 0)
/* in range: nothing changes, nothing reported */
__CPROVER_ensures(IN_RANGE(__CPROVER_old(*precision)) ==> (*precision == __CPROVER_old(*precision) && *error_code == __CPROVER_old(*error_code) && g_err_n == 0))
#ifdef EXC
/* returns normally only if the precision was in range */
__CPROVER_ensures(IN_RANGE(__CPROVER_old(*precision)))
#else
/* out of range: reported (bit + DoError(precision_error_i)) and clamped */
__CPROVER_ensures(!IN_RANGE(__CPROVER_old(*precision)) ==> ((*error_code & 1) != 0 && (*error_code | 1) == (__CPROVER_old(*error_code) | 1) &&
      g_err_n == 1 && g_err_code == 1 && *precision == (__CPROVER_old(*precision) > 0 ? 8 : -8)))
#endif
__CPROVER_assigns(*precision, *error_code, g_err_n, g_err_code)
//@end

#ifndef UNIT_SCALEPATHS
void h_CPR(void) { int *p, *e; CheckPrecisionRange(p, e); VF_CANARY(); }
#endif
//@run name=CheckPrecisionRange.noexc entry=h_CPR enforce=CheckPrecisionRange replace=DoError flags=SAFETY timeout=60
//@run name=CheckPrecisionRange.exc entry=h_CPR enforce=CheckPrecisionRange replace=DoError defs=EXC flags=SAFETY timeout=60

/* ---- ScalePaths<int64_t, double>: range check ---- */
#ifdef UNIT_SCALEPATHS
#undef IN_RANGE
//@include calltrace.inc
//@include calltrace_stubs.inc
//@const file=CPP/Clipper2Lib/include/clipper2/clipper.core.h name=MAX_COORD,MIN_COORD,max_coord,min_coord
typedef struct { double left, top, right, bottom; } RectDV;
RectDV g_r;   /* ghost: the bounds GetBounds reports */
RectDV GetBounds(VTok paths)
__CPROVER_requires(1)
__CPROVER_ensures(__CPROVER_return_value.left == g_r.left && __CPROVER_return_value.top == g_r.top && __CPROVER_return_value.right == g_r.right && __CPROVER_return_value.bottom == g_r.bottom)
__CPROVER_assigns();
bool g_scaled_each;
VTok vf_scale_each(VTok paths, double sx, double sy, int* error_code)
__CPROVER_requires(1) __CPROVER_ensures(g_scaled_each == true && __CPROVER_return_value.tok == 4242) __CPROVER_assigns(g_scaled_each, *error_code);
#define ASG_LOG __CPROVER_object_whole(g_cnt), __CPROVER_object_whole(g_ev), g_n
#define HASMUL(a, b) ((IS_FMUL(0, a, b)) || (IS_FMUL(1, a, b)) || (IS_FMUL(2, a, b)) || (IS_FMUL(3, a, b)))
#define MULRET(a, b) (IS_FMUL(0, a, b) ? FMUL_RET(0) : IS_FMUL(1, a, b) ? FMUL_RET(1) : IS_FMUL(2, a, b) ? FMUL_RET(2) : FMUL_RET(3))
//@extract file=CPP/Clipper2Lib/include/clipper2/clipper.core.h func=ScalePaths sig="double scale_x, double scale_y" byval=paths byptr=error_code ifdef=UNIT_SCALEPATHS as=ScalePaths_impl
//@presub /if constexpr \(std::is_integral_v<T1>\)/if (1)/
//@presub /RectD r = GetBounds<double, T2>\(paths\);/RectDV r = GetBounds(paths);/
//@presub /result\.reserve\(paths\.size\(\)\);\s*std::transform\(paths\.begin\(\), paths\.end\(\), back_inserter\(result\),\s*\[=, &error_code\]\(const auto& path\)\s*\{ return ScalePath<T1, T2>\(path, scale_x, scale_y, error_code\); \}\);/result = vf_scale_each(paths, scale_x, scale_y, &error_code);/
//@presub /Paths<T1> result;/VTok result = {0, 0};/
//@presub /Paths<T1> ScalePaths_impl\(const Paths<T2>\s*& paths/VTok ScalePaths_impl(const VTok& paths/
//@pysub floatops
__CPROVER_requires(NOCALLS && __CPROVER_is_fresh(error_code, sizeof(int)) && g_err_n == 0 && !g_scaled_each)
__CPROVER_requires(g_r.left <= g_r.right && g_r.top <= g_r.bottom && !__CPROVER_isnand(scale_x) && !__CPROVER_isnand(scale_y))
/* each bound is compared after multiplication by the scale of its own axis */
__CPROVER_ensures(C_(FN_FMUL) >= 1 && C_(FN_FMUL) <= 4)
#define OUT_OF_RANGE ( (HASMUL(g_r.left, scale_x) && MULRET(g_r.left, scale_x) < min_coord) || (HASMUL(g_r.right, scale_x) && MULRET(g_r.right, scale_x) > max_coord) || \
                       (HASMUL(g_r.top, scale_y) && MULRET(g_r.top, scale_y) < min_coord) || (HASMUL(g_r.bottom, scale_y) && MULRET(g_r.bottom, scale_y) > max_coord) )
/* out of range: reported (bit, DoError(range_error_i)) and the result is empty; nothing is scaled */
__CPROVER_ensures(OUT_OF_RANGE ==> ((*error_code & 64) != 0 && g_err_n == 1 && g_err_code == 64 && __CPROVER_return_value.tok == 0 && __CPROVER_return_value.size == 0 && !g_scaled_each))
/* in range: all four products were formed and checked, every path is scaled */
__CPROVER_ensures(!OUT_OF_RANGE ==> (C_(FN_FMUL) == 4 && HASMUL(g_r.left, scale_x) && HASMUL(g_r.right, scale_x) && HASMUL(g_r.top, scale_y) && HASMUL(g_r.bottom, scale_y) &&
   g_scaled_each && g_err_n == 0 && __CPROVER_return_value.tok == 4242))
__CPROVER_assigns(ASG_LOG, *error_code, g_err_n, g_err_code, g_scaled_each)
//@end
void h_SP(void) { VTok p; double sx, sy; int* e; LOG_INIT(); ScalePaths_impl(p, sx, sy, e); VF_CANARY(); }
#endif
//@run name=ScalePaths.rangecheck entry=h_SP enforce=ScalePaths_impl replace=DoError,GetBounds,vf_scale_each,vf_fmul defs=UNIT_SCALEPATHS flags="--bounds-check --pointer-check" timeout=120
//@assume R18: in ScalePaths the per-path std::transform(..., ScalePath) is cut out and replaced by one stub call; GetBounds<double> is a stub returning ghost bounds; the four bound*scale products are logged, not evaluated (R21).
