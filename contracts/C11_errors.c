//@unit C11_errors
//@props C11
//@safetyprops C10 C14
//@desc Error reporting kernels: CheckPrecisionRange in both exception configurations (DoError is a stub: with exceptions it does not return; without it returns and the error code carries the report), and the zero-scale guard of ScalePath.
#include "vf.h"
//@const file=CPP/Clipper2Lib/include/clipper2/clipper.core.h name=precision_error_i,scale_error_i,non_pair_error_i,undefined_error_i,range_error_i,CLIPPER2_MAX_DEC_PRECISION

/* DoError stub: logs the code of the (single) report */
int g_err_n, g_err_code;
void DoError(int error_code)
__CPROVER_requires(1)
#ifdef EXC
__CPROVER_ensures(0)   /* throws: does not return */
#else
__CPROVER_ensures(g_err_n == __CPROVER_old(g_err_n) + 1 && g_err_code == error_code)
#endif
__CPROVER_assigns(g_err_n, g_err_code)
;
//@assume A5: DoError(code) throws Clipper2Exception in exception builds (modelled: does not return) and returns without effect otherwise (modelled: logs the code).

#define IN_RANGE(p) ((p) >= -8 && (p) <= 8)
//@extract file=CPP/Clipper2Lib/include/clipper2/clipper.core.h func=CheckPrecisionRange sig="int& error_code" byptr=precision,error_code must=R5
__CPROVER_requires(__CPROVER_is_fresh(precision, sizeof(int)) && __CPROVER_is_fresh(error_code, sizeof(int)) && g_err_n == 0)
/* in range: nothing changes, nothing reported */
__CPROVER_ensures(IN_RANGE(__CPROVER_old(*precision)) ==> (*precision == __CPROVER_old(*precision) && *error_code == __CPROVER_old(*error_code) && g_err_n == 0))
#ifdef EXC
/* returns normally only if the precision was in range */
__CPROVER_ensures(IN_RANGE(__CPROVER_old(*precision)))
#else
/* out of range: reported (bit + DoError(precision_error_i)) and clamped */
__CPROVER_ensures(!IN_RANGE(__CPROVER_old(*precision)) ==> ((*error_code & 1) != 0 && (*error_code | 1) == (__CPROVER_old(*error_code) | 1) &&
      g_err_n == 1 && g_err_code == 1 && *precision == (__CPROVER_old(*precision) > 0 ? 8 : -8)))
#endif
__CPROVER_assigns(*precision, *error_code, g_err_n, g_err_code)
//@end

void h_CPR(void) { int *p, *e; CheckPrecisionRange(p, e); VF_CANARY(); }
//@run name=CheckPrecisionRange.noexc entry=h_CPR enforce=CheckPrecisionRange replace=DoError flags=SAFETY timeout=60
//@run name=CheckPrecisionRange.exc entry=h_CPR enforce=CheckPrecisionRange replace=DoError defs=EXC flags=SAFETY timeout=60
