//@unit C16_scalerect
//@props C16
//@safetyprops C10 C14
//@desc ScaleRect<int64_t, double> (how RectClip / RectClipLines on RectD turn the rectangle into integers): each side is the side of the same name times the scale, ROUNDED to a nearest integer (|r - v| <= 0.5 for the product v; how ties go is not part of the property) - not truncated -, left from left, top from top, right from right, bottom from bottom; no conversion overflow for |side * scale| <= 2^62. The product itself is an arbitrary double handed over by a stub (its rounding error is not decided); the `if constexpr` on type traits is resolved for this instantiation by three macros (logged rewrite, as in C16_init).
#include "vf.h"
typedef struct { double left, top, right, bottom; } RectD;
typedef struct { int64_t left, top, right, bottom; } Rect64;
typedef RectD RectT2; typedef Rect64 RectT1; typedef int64_t T1; typedef double T2;
#define VF_T_INTEGRAL 1
#define VF_T2_ROUNDABLE 1
#define VF_T2_INTEGRAL 0
double g_p[4]; int g_np; double g_pa[4], g_pb[4];
double vf_fmul(double a, double b)
__CPROVER_requires(g_np < 4)
__CPROVER_ensures(g_np == __CPROVER_old(g_np) + 1 && __CPROVER_return_value == g_p[__CPROVER_old(g_np)] && g_pa[__CPROVER_old(g_np)] == a && g_pb[__CPROVER_old(g_np)] == b)
__CPROVER_ensures((__CPROVER_old(g_np) == 0 || (g_pa[0] == __CPROVER_old(g_pa[0]) && g_pb[0] == __CPROVER_old(g_pb[0]))) && (__CPROVER_old(g_np) == 1 || (g_pa[1] == __CPROVER_old(g_pa[1]) && g_pb[1] == __CPROVER_old(g_pb[1]))) && (__CPROVER_old(g_np) == 2 || (g_pa[2] == __CPROVER_old(g_pa[2]) && g_pb[2] == __CPROVER_old(g_pb[2]))) && (__CPROVER_old(g_np) == 3 || (g_pa[3] == __CPROVER_old(g_pa[3]) && g_pb[3] == __CPROVER_old(g_pb[3]))))
__CPROVER_assigns(g_np, g_pa, g_pb);
#define ROUND_OK(r, v) ((double)(r) - (v) <= 0.5 && (double)(r) - (v) >= -0.5)
#define V62(v) ((v) >= -0x1p62 && (v) <= 0x1p62)
//@extract file=CPP/Clipper2Lib/include/clipper2/clipper.core.h func=ScaleRect byval=rect
//@presub /if constexpr \(std::is_integral_v<T1> &&\s*is_round_invocable<T2>::value && !std::is_integral_v<T2>\)/if (VF_T_INTEGRAL && VF_T2_ROUNDABLE && !VF_T2_INTEGRAL)/ min=0
//@presub /Rect<T1>/RectT1/ min=2
//@presub /Rect<T2>/RectT2/
//@pysub fmul_all
__CPROVER_requires(g_np == 0 && V62(g_p[0]) && V62(g_p[1]) && V62(g_p[2]) && V62(g_p[3]) && !__CPROVER_isnand(scale) && !__CPROVER_isnand(rect.left) && !__CPROVER_isnand(rect.top) && !__CPROVER_isnand(rect.right) && !__CPROVER_isnand(rect.bottom))
/* four products: each side with the scale, in the order left, top, right, bottom */
__CPROVER_ensures(g_np == 4 && g_pa[0] == rect.left && g_pa[1] == rect.top && g_pa[2] == rect.right && g_pa[3] == rect.bottom && g_pb[0] == scale && g_pb[1] == scale && g_pb[2] == scale && g_pb[3] == scale)
/* each result side is its own product rounded to nearest */
__CPROVER_ensures(ROUND_OK(__CPROVER_return_value.left, g_p[0]) && ROUND_OK(__CPROVER_return_value.top, g_p[1]) && ROUND_OK(__CPROVER_return_value.right, g_p[2]) && ROUND_OK(__CPROVER_return_value.bottom, g_p[3]))
__CPROVER_assigns(g_np, g_pa, g_pb)
//@end
void h_SR(void) { RectD r; double s; ScaleRect(r, s); VF_CANARY(); }
//@run name=ScaleRect.i64.from.double entry=h_SR enforce=ScaleRect replace=vf_fmul flags=SAFETY solver=cadical timeout=300
//@assume R21 (C16_scalerect): the four side*scale products are values handed over by a recording stub (operands recorded); round() is CBMC's library model.
