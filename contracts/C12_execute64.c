//@unit C12_execute64
//@props C12 C11
//@safetyprops C14
//@desc Clipper64's public entry points under call-trace contracts. AddSubject / AddOpenSubject / AddClip hand the paths to the engine with the right path type and open flag (Subject/closed, Subject/open, Clip/closed). Execute (paths): both solution vectors are emptied FIRST (nothing of an earlier result survives, whatever the outcome), the sweep runs once with the given clip type and fill rule and `use_polytrees = false`, the paths are built only if the sweep reports success, CleanUp runs LAST on every path (so the object is ready for the next Execute), and the return value is `succeeded_`. Execute (tree): the sweep runs once with `use_polytrees = true`; on success the open solution and the tree are cleared before the tree is built; CleanUp last; returns `succeeded_`. The one- and three-argument overloads forward to these with a dummy open solution.
#include "vf.h"
//@include calltrace.inc
//@include calltrace_stubs.inc
typedef struct { long tok; int error_code_; bool succeeded_; } Clipper64S;
#define ASG_LOG __CPROVER_object_whole(g_cnt), __CPROVER_object_whole(g_ev), g_n
enum { FN_ADDPATHS = FN_ERR + 1, FN_EXECINT, FN_BUILDPATHS, FN_CLEANUP, FN_TCLEAR, FN_VCLEAR };
void AddPaths(Clipper64S* self, VTok paths, PathType polytype, bool is_open)
LOG_REQ(FN_ADDPATHS) LOG_ENS(FN_ADDPATHS, self->tok, paths.tok, polytype, is_open, 0,0, 0,0,0,0)
__CPROVER_assigns(LOG_ASG(FN_ADDPATHS));
bool ExecuteInternal(Clipper64S* self, ClipType ct, FillRule fr, bool use_polytrees)
BOOL_RET
LOG_REQ(FN_EXECINT) LOG_ENS(FN_EXECINT, self->tok, ct, fr, use_polytrees, __CPROVER_return_value, 0, 0,0,0,0)
__CPROVER_assigns(LOG_ASG(FN_EXECINT), self->succeeded_);
void BuildPaths64(Clipper64S* self, VTok* closed, VTok* open)
LOG_REQ(FN_BUILDPATHS) LOG_ENS(FN_BUILDPATHS, self->tok, __CPROVER_old(closed->tok), __CPROVER_old(open->tok), 0,0,0, 0,0,0,0)
__CPROVER_assigns(LOG_ASG(FN_BUILDPATHS), *closed, *open);
void BuildTree64(Clipper64S* self, OTok* tree, VTok* open)
LOG_REQ(FN_BUILDTREE) LOG_ENS(FN_BUILDTREE, self->tok, tree->tok, __CPROVER_old(open->tok), 0,0,0, 0,0,0,0)
__CPROVER_assigns(LOG_ASG(FN_BUILDTREE), *open);
void CleanUp(Clipper64S* self)
LOG_REQ(FN_CLEANUP) LOG_ENS(FN_CLEANUP, self->tok, 0,0,0,0,0, 0,0,0,0)
__CPROVER_assigns(LOG_ASG(FN_CLEANUP));
void PolyTree64_Clear_(OTok* t)
LOG_REQ(FN_TCLEAR) LOG_ENS(FN_TCLEAR, t->tok, 0,0,0,0,0, 0,0,0,0)
__CPROVER_assigns(LOG_ASG(FN_TCLEAR));
void Paths64_clear(VTok* v)
LOG_REQ(FN_VCLEAR) LOG_ENS(FN_VCLEAR, v->tok, 0,0,0,0,0, 0,0,0,0)
__CPROVER_ensures(v->tok == __CPROVER_old(v->tok) && v->size == 0)
__CPROVER_assigns(LOG_ASG(FN_VCLEAR), v->size);
#undef PolyTree64_Clear
#define PolyTree64_Clear PolyTree64_Clear_

#define ADD_SPEC(P, PT, OPEN) \
  __CPROVER_ensures(C_(FN_ADDPATHS) == 1 && g_n == 1 && I_(FN_ADDPATHS,0,0) == self->tok && I_(FN_ADDPATHS,0,1) == (P).tok && I_(FN_ADDPATHS,0,2) == (long)(PT) && I_(FN_ADDPATHS,0,3) == (long)(OPEN))
//@extract file=CPP/Clipper2Lib/include/clipper2/clipper.engine.h func=AddSubject scope=Clipper64 self=Clipper64S byval=subjects selfcalls=AddPaths
//@pysub calltrace min=0
__CPROVER_requires(NOCALLS && __CPROVER_is_fresh(self, sizeof(*self)))
ADD_SPEC(subjects, PathType_Subject, false)
__CPROVER_assigns(ASG_LOG)
//@end
//@extract file=CPP/Clipper2Lib/include/clipper2/clipper.engine.h func=AddOpenSubject scope=Clipper64 self=Clipper64S byval=open_subjects selfcalls=AddPaths
//@pysub calltrace min=0
__CPROVER_requires(NOCALLS && __CPROVER_is_fresh(self, sizeof(*self)))
ADD_SPEC(open_subjects, PathType_Subject, true)
__CPROVER_assigns(ASG_LOG)
//@end
//@extract file=CPP/Clipper2Lib/include/clipper2/clipper.engine.h func=AddClip scope=Clipper64 self=Clipper64S byval=clips selfcalls=AddPaths
//@pysub calltrace min=0
__CPROVER_requires(NOCALLS && __CPROVER_is_fresh(self, sizeof(*self)))
ADD_SPEC(clips, PathType_Clip, false)
__CPROVER_assigns(ASG_LOG)
//@end
void h_AddSubject(void) { Clipper64S* s; Paths64 p; LOG_INIT(); AddSubject(s, p); VF_CANARY(); }
void h_AddOpenSubject(void) { Clipper64S* s; Paths64 p; LOG_INIT(); AddOpenSubject(s, p); VF_CANARY(); }
void h_AddClip(void) { Clipper64S* s; Paths64 p; LOG_INIT(); AddClip(s, p); VF_CANARY(); }

//@extract file=CPP/Clipper2Lib/include/clipper2/clipper.engine.h func=Execute scope=Clipper64 sig="Paths64& closed_paths, Paths64& open_paths" as=Execute64 self=Clipper64S selfcalls=ExecuteInternal,BuildPaths64,CleanUp cpp=NOUSINGZ
//@pysub calltrace min=0
__CPROVER_requires(NOCALLS && __CPROVER_is_fresh(self, sizeof(*self)) && __CPROVER_is_fresh(closed_paths, sizeof(VTok)) && __CPROVER_is_fresh(open_paths, sizeof(VTok)) && closed_paths->tok == 111 && open_paths->tok == 222)
/* both solutions are emptied before anything else happens */
__CPROVER_ensures(C_(FN_VCLEAR) == 2 && SEQ(FN_VCLEAR,0) < SEQ(FN_EXECINT,0) && SEQ(FN_VCLEAR,1) < SEQ(FN_EXECINT,0) && I_(FN_VCLEAR,0,0) + I_(FN_VCLEAR,1,0) == 333 && I_(FN_VCLEAR,0,0) != I_(FN_VCLEAR,1,0))
__CPROVER_ensures(C_(FN_EXECINT) == 1 && I_(FN_EXECINT,0,0) == self->tok && I_(FN_EXECINT,0,1) == (long)clip_type && I_(FN_EXECINT,0,2) == (long)fill_rule && I_(FN_EXECINT,0,3) == 0)
__CPROVER_ensures(C_(FN_BUILDPATHS) == (I_(FN_EXECINT,0,4) ? 1 : 0) && (C_(FN_BUILDPATHS) == 1 ==> (I_(FN_BUILDPATHS,0,1) == 111 && I_(FN_BUILDPATHS,0,2) == 222 && SEQ(FN_BUILDPATHS,0) > SEQ(FN_EXECINT,0))))
__CPROVER_ensures(!I_(FN_EXECINT,0,4) ==> (closed_paths->size == 0 && open_paths->size == 0))
__CPROVER_ensures(C_(FN_CLEANUP) == 1 && SEQ(FN_CLEANUP,0) == g_n - 1 && __CPROVER_return_value == self->succeeded_)
__CPROVER_assigns(ASG_LOG, self->succeeded_, *closed_paths, *open_paths)
//@end
void h_Execute64(void) { Clipper64S* s; ClipType ct; FillRule fr; Paths64 *a, *b; LOG_INIT(); Execute64(s, ct, fr, a, b); VF_CANARY(); }

//@extract file=CPP/Clipper2Lib/include/clipper2/clipper.engine.h func=Execute scope=Clipper64 sig="PolyTree64& polytree, Paths64& open_paths" as=Execute64T self=Clipper64S selfcalls=ExecuteInternal,BuildTree64,CleanUp cpp=NOUSINGZ
//@pysub calltrace min=0
__CPROVER_requires(NOCALLS && __CPROVER_is_fresh(self, sizeof(*self)) && __CPROVER_is_fresh(polytree, sizeof(OTok)) && __CPROVER_is_fresh(open_paths, sizeof(VTok)) && polytree->tok == 333 && open_paths->tok == 222)
__CPROVER_ensures(C_(FN_EXECINT) == 1 && SEQ(FN_EXECINT,0) == 0 && I_(FN_EXECINT,0,0) == self->tok && I_(FN_EXECINT,0,1) == (long)clip_type && I_(FN_EXECINT,0,2) == (long)fill_rule && I_(FN_EXECINT,0,3) == 1)
/* on success: open solution and tree are cleared, and only then the tree is built */
__CPROVER_ensures(I_(FN_EXECINT,0,4) ==> (C_(FN_TCLEAR) == 1 && I_(FN_TCLEAR,0,0) == 333 && C_(FN_VCLEAR) == 1 && I_(FN_VCLEAR,0,0) == 222 &&
   C_(FN_BUILDTREE) == 1 && I_(FN_BUILDTREE,0,1) == 333 && I_(FN_BUILDTREE,0,2) == 222 && SEQ(FN_BUILDTREE,0) > SEQ(FN_TCLEAR,0) && SEQ(FN_BUILDTREE,0) > SEQ(FN_VCLEAR,0)))
__CPROVER_ensures(!I_(FN_EXECINT,0,4) ==> C_(FN_BUILDTREE) == 0)
__CPROVER_ensures(C_(FN_CLEANUP) == 1 && SEQ(FN_CLEANUP,0) == g_n - 1 && __CPROVER_return_value == self->succeeded_)
__CPROVER_assigns(ASG_LOG, self->succeeded_, *open_paths)
//@end
void h_Execute64T(void) { Clipper64S* s; ClipType ct; FillRule fr; PolyTree64* t; Paths64* b; LOG_INIT(); Execute64T(s, ct, fr, t, b); VF_CANARY(); }

//@run name=Clipper64.AddSubject entry=h_AddSubject enforce=AddSubject replace=AddPaths flags="--bounds-check --pointer-check" timeout=120
//@run name=Clipper64.AddOpenSubject entry=h_AddOpenSubject enforce=AddOpenSubject replace=AddPaths flags="--bounds-check --pointer-check" timeout=120 props=C05,C12,C14
//@run name=Clipper64.AddClip entry=h_AddClip enforce=AddClip replace=AddPaths flags="--bounds-check --pointer-check" timeout=120
//@run name=Clipper64.Execute entry=h_Execute64 enforce=Execute64 replace=ExecuteInternal,BuildPaths64,CleanUp,Paths64_clear flags="--bounds-check --pointer-check" timeout=120
//@run name=Clipper64.ExecuteTree entry=h_Execute64T enforce=Execute64T replace=ExecuteInternal,BuildTree64,CleanUp,PolyTree64_Clear_,Paths64_clear flags="--bounds-check --pointer-check" timeout=120
