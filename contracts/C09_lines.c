//@unit C09_lines
//@props C09 C08
//@safetyprops C10 C14
//@desc The polyline side of rectangle clipping. GetNextLocation (shared with RectClip64; five loop contracts, unbounded path length): i only moves forward, every skipped vertex lies in the closed half-plane of the side the walk was on (or inside/on the rectangle when it was Inside, and then exactly those vertices are added, in order), the vertex it stops at has left that side and loc names a side containing it. RectClipLines64::ExecuteInternal (call-trace contract, three loop contracts, callees as stubs): empty rectangle or fewer than 2 points touch nothing, otherwise the previous polyline's scratch state is dropped, the walk over the segments always starts at segment 1 (path[0] -> path[1]) whatever the look-ahead over boundary vertices found, and it is skipped only when every vertex lies on the boundary (then all are added). RectClipLines64::GetPath (BOUNDED rings of 1, 2, 4 nodes): a ring of n >= 2 points yields the n vertices in ring order starting after the last added point (a two-point piece is a valid result), otherwise the empty path.
#include "vf.h"
//@include rect_types.inc
typedef struct OutPt2 OutPt2;
struct OutPt2 { Point64 pt; size_t owner_idx; OutPt2* next; OutPt2* prev; };
typedef struct { RectT rect_; size_t n_add; size_t last_add_idx; } RectClipS;
size_t g_k;      /* ghost: an arbitrary index */
size_t g_cur_i;  /* index of the vertex being added (set next to the real Add call) */
void vf_Add(RectClipS* self, Point64 pt)
__CPROVER_requires(self->n_add < ((size_t)1 << 41))
__CPROVER_ensures(self->n_add == __CPROVER_old(self->n_add) + 1 && self->last_add_idx == g_cur_i)
__CPROVER_assigns(self->n_add, self->last_add_idx);
#define SIDE_L(self, p) ((p).x <= self->rect_.left)
#define SIDE_R(self, p) ((p).x >= self->rect_.right)
#define SIDE_T(self, p) ((p).y <= self->rect_.top)
#define SIDE_B(self, p) ((p).y >= self->rect_.bottom)
#define SAME_SIDE(self, l, p) ((l) == Location_Left ? SIDE_L(self, p) : (l) == Location_Right ? SIDE_R(self, p) : (l) == Location_Top ? SIDE_T(self, p) : (l) == Location_Bottom ? SIDE_B(self, p) : \
   ((p).x >= self->rect_.left && (p).x <= self->rect_.right && (p).y >= self->rect_.top && (p).y <= self->rect_.bottom))
//@extract file=CPP/Clipper2Lib/src/clipper.rectclip.cpp func=RectClip64::GetNextLocation self=RectClipS byval=path byptr=loc,i vec=path ifdef=GNL
//@sub /Add\(path\.data\[\(\*i\)\]\);/{ g_cur_i = (*i); vf_Add(self, path.data[(*i)]); }/
__CPROVER_requires(__CPROVER_is_fresh(self, sizeof(*self)) && __CPROVER_is_fresh(loc, sizeof(*loc)) && __CPROVER_is_fresh(i, sizeof(*i)) && path.size < ((size_t)1 << 40) && __CPROVER_is_fresh(path.data, path.size * sizeof(Point64)))
__CPROVER_requires(highI < path.size && *i <= highI + 1 && ENUM_OK(*loc, Location_Inside) && self->n_add == 0 && self->rect_.left <= self->rect_.right && self->rect_.top <= self->rect_.bottom)
/* i only moves forward and stops at highI + 1 at the latest */
__CPROVER_ensures(*i >= __CPROVER_old(*i) && *i <= highI + 1)
/* every vertex that was skipped lies on the side (closed half-plane) the walk was on - or inside/on the rectangle when it was Inside */
__CPROVER_ensures((g_k >= __CPROVER_old(*i) && g_k < *i) ==> SAME_SIDE(self, __CPROVER_old(*loc), path.data[g_k]))
/* the vertex it stops at has left that side, and loc is a side whose closed half-plane (Inside: the closed rectangle complement test of the code) contains it */
__CPROVER_ensures(*i <= highI ==> !SAME_SIDE(self, __CPROVER_old(*loc), path.data[*i]))
__CPROVER_ensures(*i <= highI ==> (*loc != __CPROVER_old(*loc) && (*loc == Location_Inside || SAME_SIDE(self, *loc, path.data[*i]))))
__CPROVER_ensures(*i > highI ==> *loc == __CPROVER_old(*loc))
/* Inside: exactly the skipped vertices were added, in order */
__CPROVER_ensures(__CPROVER_old(*loc) == Location_Inside ==> (I128(self->n_add) + I128(__CPROVER_old(*i)) == I128(*i) && (self->n_add > 0 ==> I128(self->last_add_idx) + 1 == I128(*i))))
__CPROVER_ensures(__CPROVER_old(*loc) != Location_Inside ==> self->n_add == 0)
__CPROVER_assigns(*loc, *i, self->n_add, self->last_add_idx, g_cur_i)
//@loop 1
__CPROVER_assigns(*i)
__CPROVER_loop_invariant(*i >= __CPROVER_loop_entry(*i) && *i <= highI + 1 && ((g_k >= __CPROVER_loop_entry(*i) && g_k < *i) ==> SIDE_L(self, path.data[g_k])))
__CPROVER_decreases(highI + 1 - *i)
//@loop 2
__CPROVER_assigns(*i)
__CPROVER_loop_invariant(*i >= __CPROVER_loop_entry(*i) && *i <= highI + 1 && ((g_k >= __CPROVER_loop_entry(*i) && g_k < *i) ==> SIDE_T(self, path.data[g_k])))
__CPROVER_decreases(highI + 1 - *i)
//@loop 3
__CPROVER_assigns(*i)
__CPROVER_loop_invariant(*i >= __CPROVER_loop_entry(*i) && *i <= highI + 1 && ((g_k >= __CPROVER_loop_entry(*i) && g_k < *i) ==> SIDE_R(self, path.data[g_k])))
__CPROVER_decreases(highI + 1 - *i)
//@loop 4
__CPROVER_assigns(*i)
__CPROVER_loop_invariant(*i >= __CPROVER_loop_entry(*i) && *i <= highI + 1 && ((g_k >= __CPROVER_loop_entry(*i) && g_k < *i) ==> SIDE_B(self, path.data[g_k])))
__CPROVER_decreases(highI + 1 - *i)
//@loop 5
__CPROVER_assigns(*i, *loc, self->n_add, self->last_add_idx, g_cur_i)
__CPROVER_loop_invariant(*i >= __CPROVER_loop_entry(*i) && *i <= highI + 1 && ((g_k >= __CPROVER_loop_entry(*i) && g_k < *i) ==> SAME_SIDE(self, Location_Inside, path.data[g_k])))
__CPROVER_loop_invariant(I128(self->n_add) + I128(__CPROVER_loop_entry(*i)) == I128(*i) && (self->n_add > 0 ==> I128(self->last_add_idx) + 1 == I128(*i)) && *loc == Location_Inside)
__CPROVER_decreases(highI + 1 - *i)
//@end

/* ---------- RectClipLines64::GetPath, BOUNDED ring ---------- */
#ifdef RING
typedef struct { Point64* data; size_t size; size_t cap; } OutPath;
Point64 g_buf[RING + 1];
#define Path64 OutPath
//@extract file=CPP/Clipper2Lib/src/clipper.rectclip.cpp func=RectClipLines64::GetPath self=RectClipS byptr=op ifdef=RING
//@sub /(?<![*\w])op->/(*op)->/ min=2
//@sub /Path64 result;/OutPath result = { g_buf, 0, RING + 1 };/
//@sub /result\.emplace_back\(([^;]*)\);/VF_PUSH(result, \1);/ min=2
//@end
#undef Path64
unsigned nondet_uint(void); int64_t nondet_i64(void); bool nondet_bool(void);
void h_GetPath(void)
{
  OutPt2 n[RING]; RectClipS self;
  for (int i = 0; i < RING; ++i) { n[i].pt.x = nondet_i64(); n[i].pt.y = nondet_i64(); n[i].next = &n[(i + 1) % RING]; n[i].prev = &n[(i + RING - 1) % RING]; }
  unsigned s = nondet_uint(); __CPROVER_assume(s < RING); OutPt2* op = nondet_bool() ? &n[s] : NULL; OutPt2* op0 = op;
  OutPath r = GetPath(&self, &op);
  if (op0 == NULL || RING == 1) __CPROVER_assert(r.size == 0, "no ring or a single point: empty path");
  else {
    __CPROVER_assert(r.size == RING, "a ring of n >= 2 points gives n vertices (a two-point piece is a valid polyline)");
    for (int k = 0; k < RING; ++k) __CPROVER_assert(r.data[k].x == n[(s + 1 + k) % RING].pt.x && r.data[k].y == n[(s + 1 + k) % RING].pt.y, "vertices in ring order starting after the last added point");
  }
  VF_CANARY();
}
#endif

/* ---------- RectClipLines64::ExecuteInternal: call-trace contract ---------- */
#ifdef EXEC
typedef struct { RectT rect_; int results_cleared, container_reset, startlocs_cleared; size_t n_add; } LinesS;
size_t g_gnl_n, g_first_i; size_t g_geti_n;
bool vf_GetLocation(RectT rec, Point64 pt, Location* loc)
BOOL_RET __CPROVER_ensures(ENUM_OK(*loc, Location_Inside)) __CPROVER_assigns(*loc);
void vf_GNL(LinesS* self, Path64 path, Location* loc, size_t* i, size_t highI)
__CPROVER_requires(*i >= 1 && *i <= highI && highI < path.size)
__CPROVER_ensures(*i >= __CPROVER_old(*i) && *i <= highI + 1 && ENUM_OK(*loc, Location_Inside))
__CPROVER_ensures(g_gnl_n > 0 && g_first_i == (__CPROVER_old(g_gnl_n) == 0 ? __CPROVER_old(*i) : __CPROVER_old(g_first_i)))
__CPROVER_assigns(*loc, *i, g_gnl_n, g_first_i, self->n_add);
bool vf_GetIntersection(Point64 p, Point64 p2, Location* loc, Point64* ip)
BOOL_RET __CPROVER_ensures(ENUM_OK(*loc, Location_Inside)) __CPROVER_assigns(*loc, *ip);
void vf_AddL(LinesS* self, Point64 pt, bool start_new)
__CPROVER_ensures(I128(self->n_add) == I128(__CPROVER_old(self->n_add)) + 1)
__CPROVER_assigns(self->n_add);
#define VSEL2(a, b, N, ...) N
#define ADD1(pt) vf_AddL(self, pt, false)
#define ADD2(pt, sn) vf_AddL(self, pt, sn)
#define Add(...) VSEL2(__VA_ARGS__, ADD2, ADD1)(__VA_ARGS__)
static inline bool RectEmpty(const RectT* r) { return r->left >= r->right || r->top >= r->bottom; }
//@expect file=CPP/Clipper2Lib/include/clipper2/clipper.core.h /bool IsEmpty\(\) const \{ return bottom <= top \|\| right <= left; \};/
//@extract file=CPP/Clipper2Lib/src/clipper.rectclip.cpp func=RectClipLines64::ExecuteInternal self=LinesS byval=path vec=path rangefor=1 ifdef=EXEC
//@sub /self->rect_\.IsEmpty\(\)/RectEmpty(&self->rect_)/
//@sub /self->results_\.clear\(\);/self->results_cleared = 1;/
//@sub /self->op_container_ = [^;]*;/self->container_reset = 1;/
//@sub /self->start_locs_\.clear\(\);/self->startlocs_cleared = 1;/
//@sub /\bGetLocation\(self->rect_, ([^,]*), (\w+)\)/vf_GetLocation(self->rect_, \1, &\2)/ min=2
//@sub /GetNextLocation\(path, loc, i, highI\)/vf_GNL(self, path, &loc, &i, highI)/
//@sub /GetIntersection\(self->rect_as_path_,\s*([^;]*?), crossing_loc, (\w+)\)/vf_GetIntersection(\1, &crossing_loc, &\2)/ min=2
__CPROVER_requires(__CPROVER_is_fresh(self, sizeof(*self)) && path.size < ((size_t)1 << 40) && __CPROVER_is_fresh(path.data, path.size * sizeof(Point64)))
__CPROVER_requires(self->n_add == 0 && g_gnl_n == 0 && self->results_cleared == 0 && self->container_reset == 0 && self->startlocs_cleared == 0)
/* nothing to do: nothing is touched */
__CPROVER_ensures((RectEmpty(&self->rect_) || path.size < 2) ==> (self->n_add == 0 && g_gnl_n == 0))
/* otherwise the scratch state of the previous polyline is dropped first */
__CPROVER_ensures(!(RectEmpty(&self->rect_) || path.size < 2) ==> (self->results_cleared == 1 && self->container_reset == 1 && self->startlocs_cleared == 1))
/* the walk over the segments starts at segment 1 (path[0] -> path[1]), whatever the look-ahead over boundary vertices found */
__CPROVER_ensures(g_gnl_n > 0 ==> g_first_i == 1)
/* no walk at all only if every vertex lies on the rectangle boundary: then all of them are added */
__CPROVER_ensures((!(RectEmpty(&self->rect_) || path.size < 2) && g_gnl_n == 0) ==> self->n_add >= path.size)
__CPROVER_assigns(self->results_cleared, self->container_reset, self->startlocs_cleared, self->n_add, g_gnl_n, g_first_i)
//@loop 1
__CPROVER_assigns(i, prev)
__CPROVER_loop_invariant(i >= 1 && i <= highI + 1)
__CPROVER_decreases(highI + 1 - i)
//@loop 2
__CPROVER_assigns(vf_i_pt, self->n_add)
__CPROVER_loop_invariant(vf_i_pt <= path.size && self->n_add == vf_i_pt)
__CPROVER_decreases(path.size - vf_i_pt)
//@loop 3
__CPROVER_assigns(i, prev, loc, crossing_loc, self->n_add, g_gnl_n, g_first_i)
__CPROVER_loop_invariant(i >= 1 && i <= highI + 1 && (g_gnl_n > 0 ==> g_first_i == 1) && (g_gnl_n == 0 ==> i == 1))
//@end
void h_Exec(void) { LinesS* s; Path64 p; ExecuteInternal(s, p); VF_CANARY(); }
#endif
#ifdef GNL
void h_GNL(void) { RectClipS* s; Path64 p; Location* l; size_t* i; size_t h; GetNextLocation(s, p, l, i, h); VF_CANARY(); }
#endif
//@run name=GetNextLocation entry=h_GNL enforce=GetNextLocation replace=vf_Add loops=1 defs=GNL flags=SAFETY timeout=300
//@run name=GetPath.ring1 entry=h_GetPath defs=RING=1 unwind=3 flags=SAFETY timeout=120 bounded="OutPt2 ring of exactly 1 node"
//@run name=GetPath.ring2 entry=h_GetPath defs=RING=2 unwind=4 flags=SAFETY timeout=120 bounded="OutPt2 ring of exactly 2 nodes"
//@run name=GetPath.ring4 entry=h_GetPath defs=RING=4 unwind=6 flags=SAFETY timeout=120 bounded="OutPt2 ring of exactly 4 nodes"
//@run name=Lines.ExecuteInternal entry=h_Exec enforce=ExecuteInternal replace=vf_GetLocation,vf_GNL,vf_GetIntersection,vf_AddL loops=1 defs=EXEC flags="--bounds-check --pointer-check" timeout=300
//@assume A5 (C09_lines): in the ExecuteInternal unit GetLocation, GetNextLocation, GetIntersection and Add are logging stubs (GetNextLocation: i only moves forward); termination of the main loop is not proved there (it follows from GetNextLocation's own contract, proved in the same unit: each call advances i or changes loc).
