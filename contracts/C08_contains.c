//@unit C08_contains
//@props C08
//@safetyprops C10 C14
//@desc Path1ContainsPath2 of the rectangle clipper (used to decide whether a path that never crosses the rectangle encloses it), unbounded in the length of path2 (loop contract; PointInPolygon is a stub whose verdicts are tallied in ghost state): every vertex of path2 votes (outside +1, inside -1, on the boundary abstains), the walk stops early only once the margin exceeds one, and the answer is "contained" exactly when the final tally is not positive; the vertices are consulted in order, each at most once.
#include "vf.h"
//@include rect_types.inc
//@enum file=CPP/Clipper2Lib/include/clipper2/clipper.core.h name=PointInPolygonResult
int g_tally; size_t g_votes;
PointInPolygonResult vf_pip(Point64 pt, Path64 poly)
__CPROVER_requires(g_votes < ((size_t)1 << 41) && g_tally > -1000 && g_tally < 1000)
__CPROVER_ensures(ENUM_OK(__CPROVER_return_value, PointInPolygonResult_IsOutside) && g_votes == __CPROVER_old(g_votes) + 1)
__CPROVER_ensures(g_tally == __CPROVER_old(g_tally) + (__CPROVER_return_value == PointInPolygonResult_IsOutside ? 1 : __CPROVER_return_value == PointInPolygonResult_IsInside ? -1 : 0))
__CPROVER_assigns(g_tally, g_votes);
//@extract file=CPP/Clipper2Lib/src/clipper.rectclip.cpp func=Path1ContainsPath2 byval=path1,path2 rangefor=1 vec=path2
//@sub /\bPointInPolygon\(/vf_pip(/
//@sub /std::abs\(/abs(/ min=0
__CPROVER_requires(path2.size < ((size_t)1 << 40) && __CPROVER_is_fresh(path2.data, path2.size * sizeof(Point64)) && g_tally == 0 && g_votes == 0)
__CPROVER_ensures(__CPROVER_return_value == (g_tally <= 0))
__CPROVER_ensures(g_votes <= path2.size && (g_votes < path2.size ==> (g_tally > 1 || g_tally < -1)) && g_tally >= -2 && g_tally <= 2)
__CPROVER_assigns(g_tally, g_votes)
//@loop 1
__CPROVER_assigns(vf_i_pt, io_count, g_tally, g_votes)
__CPROVER_loop_invariant(vf_i_pt <= path2.size && g_votes == vf_i_pt && io_count == g_tally && io_count >= -1 && io_count <= 1)
__CPROVER_decreases(path2.size - vf_i_pt)
//@end
void h_P1C2(void) { Path64 a, b; Path1ContainsPath2(a, b); VF_CANARY(); }
//@run name=Path1ContainsPath2 entry=h_P1C2 enforce=Path1ContainsPath2 replace=vf_pip loops=1 flags=SAFETY solver=cadical timeout=300
//@assume A5 (C08_contains): PointInPolygon is a stub (C18_pip) whose verdicts are tallied.
