//@unit C01_advance
//@props C01
//@safetyprops C10 C14
//@desc ClipperBase::UpdateEdgeIntoAEL - how an edge moves on to its next segment at a vertex (loop-free; NextVertex, IsHorizontal, IsJoined, IsOpen are the real bodies; SetDx, Split, TrimHorz, InsertScanline, CheckJoinLeft/Right are logging stubs): the new bottom is the old top, the new top is the NEXT vertex in the edge's winding direction (wind_dx > 0: ->next, else ->prev), curr_x restarts at the new bottom, the slope is recomputed AFTER both end points are in place; a joined edge is split at the new bottom first; a horizontal segment schedules nothing (closed paths: TrimHorz with preserve_collinear_), every other segment gets a scanline AT ITS TOP (so the sweep stops at every vertex) and is checked for joins on both sides at its bottom.
#include "vf.h"
//@include engine_types.inc
unsigned nondet_uint(void); bool nondet_bool(void); int64_t nondet_i64(void);
int g_setdx_n, g_split_n, g_trim_n, g_scan_n, g_cjl_n, g_cjr_n; Point64 g_setdx_bot, g_setdx_top, g_split_pt, g_cjl_pt, g_cjr_pt; int64_t g_scan_y; bool g_trim_pc, g_cjr_flag;
static void SetDx__p(Active* e) { g_setdx_n++; g_setdx_bot = e->bot; g_setdx_top = e->top; }
#define SetDx(e) SetDx__p(&(e))
static void Split__p(ClipperBase* s, Active* e, Point64 pt) { g_split_n++; g_split_pt = pt; e->join_with = JoinWith_NoJoin; }
#define Split(s, e, p) Split__p(s, &(e), p)
static void TrimHorz__p(Active* e, bool pc) { g_trim_n++; g_trim_pc = pc; }
#define TrimHorz(e, pc) TrimHorz__p(&(e), pc)
static void InsertScanline(ClipperBase* s, int64_t y) { g_scan_n++; g_scan_y = y; }
static void CheckJoinLeft__p(ClipperBase* s, Active* e, Point64 pt) { g_cjl_n++; g_cjl_pt = pt; }
#define CheckJoinLeft(s, e, p) CheckJoinLeft__p(s, &(e), p)
static void CheckJoinRight__p(ClipperBase* s, Active* e, Point64 pt, bool f) { g_cjr_n++; g_cjr_pt = pt; g_cjr_flag = f; }
#define CheckJoinRight(s, e, p, f) CheckJoinRight__p(s, &(e), p, f)
//@extract file=CPP/Clipper2Lib/src/clipper.engine.cpp func=NextVertex byptr=e refmacro=1
//@end
//@extract file=CPP/Clipper2Lib/src/clipper.engine.cpp func=IsHorizontal sig="const Active& e" byptr=e refmacro=1
//@end
//@extract file=CPP/Clipper2Lib/src/clipper.engine.cpp func=IsJoined byptr=e refmacro=1
//@end
//@extract file=CPP/Clipper2Lib/src/clipper.engine.cpp func=IsOpen sig="const Active& e" byptr=e refmacro=1
//@end
//@extract file=CPP/Clipper2Lib/src/clipper.engine.cpp func=ClipperBase::UpdateEdgeIntoAEL self=ClipperBase selfcalls=Split,InsertScanline,CheckJoinLeft,CheckJoinRight
//@end
static inline bool Point64_eq(Point64 a, Point64 b) { return a.x == b.x && a.y == b.y; }
void h_Update(void)
{
  ClipperBase cb; Active e; Vertex v[3]; LocalMinima lm;
  for (int i = 0; i < 3; ++i) { v[i].pt.x = nondet_i64(); v[i].pt.y = nondet_i64(); v[i].next = &v[(i + 1) % 3]; v[i].prev = &v[(i + 2) % 3]; }
  e.vertex_top = &v[1]; e.top = v[1].pt; e.bot.x = nondet_i64(); e.bot.y = nondet_i64(); e.wind_dx = nondet_bool() ? 1 : -1; e.local_min = &lm; lm.is_open = nondet_bool();
  e.join_with = (JoinWith)(nondet_uint() % 3); cb.preserve_collinear_ = nondet_bool();
  bool was_joined = e.join_with != JoinWith_NoJoin; Point64 old_top = e.top;
  g_setdx_n = g_split_n = g_trim_n = g_scan_n = g_cjl_n = g_cjr_n = 0;
  UpdateEdgeIntoAEL(&cb, &e);
  Vertex* want = e.wind_dx > 0 ? &v[2] : &v[0];
  __CPROVER_assert(Point64_eq(e.bot, old_top) && e.vertex_top == want && Point64_eq(e.top, want->pt) && e.curr_x == old_top.x, "new bottom = old top; new top = next vertex in the winding direction; curr_x restarts at the bottom");
  __CPROVER_assert(g_setdx_n == 1 && Point64_eq(g_setdx_bot, e.bot) && Point64_eq(g_setdx_top, e.top), "the slope is recomputed once, after both end points are in place");
  __CPROVER_assert(g_split_n == (was_joined ? 1 : 0) && (was_joined ==> Point64_eq(g_split_pt, e.bot)), "a joined edge is split at the new bottom");
  bool horz = e.top.y == e.bot.y;
  if (horz) __CPROVER_assert(g_scan_n == 0 && g_cjl_n == 0 && g_cjr_n == 0 && g_trim_n == (lm.is_open ? 0 : 1) && (!lm.is_open ==> g_trim_pc == cb.preserve_collinear_), "horizontal: no scanline, no join checks; closed paths are trimmed with preserve_collinear_");
  else __CPROVER_assert(g_scan_n == 1 && g_scan_y == e.top.y && g_trim_n == 0 && g_cjl_n == 1 && g_cjr_n == 1 && Point64_eq(g_cjl_pt, e.bot) && Point64_eq(g_cjr_pt, e.bot), "otherwise: a scanline at the segment's top, join checks on both sides at its bottom");
  VF_CANARY();
}
//@run name=UpdateEdgeIntoAEL entry=h_Update unwind=5 flags="--bounds-check --pointer-check" solver=cadical timeout=120
//@assume A5 (C01_advance): SetDx, Split, TrimHorz, InsertScanline, CheckJoinLeft, CheckJoinRight are logging stubs in the UpdateEdgeIntoAEL harness.
