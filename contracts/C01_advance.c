//@unit C01_advance
//@props C01
//@safetyprops C10 C14
//@desc ClipperBase::UpdateEdgeIntoAEL - how an edge moves on to its next segment at a vertex (loop-free; NextVertex, IsHorizontal, IsJoined, IsOpen are the real bodies; SetDx, Split, TrimHorz, InsertScanline, CheckJoinLeft/Right are logging stubs): the new bottom is the old top, the new top is the NEXT vertex in the edge's winding direction (wind_dx > 0: ->next, else ->prev), curr_x restarts at the new bottom, the slope is recomputed AFTER both end points are in place; a joined edge is split at the new bottom first; a horizontal segment schedules nothing (closed paths: TrimHorz with preserve_collinear_), every other segment gets a scanline AT ITS TOP (so the sweep stops at every vertex) and is checked for joins on both sides at its bottom. DoTopOfScanbeam - BOUNDED (AEL of 0..2 edges, 3 in the thorough tier; DoMaxima, AddOutPt, UpdateEdgeIntoAEL, TopX are stubs, IsMaxima / IsHotEdge / PushHorz real): every edge is handled exactly once - one that continues through the scanline gets curr_x = TopX(e, y); one that ends there gets curr_x = its top x and then either DoMaxima (local maximum) or, after adding its top vertex to its contour if it is hot, moves on to its next segment; exactly the edges whose new segment is horizontal are stacked for later, and the stack starts empty.
#include "vf.h"
//@include engine_types.inc
unsigned nondet_uint(void); bool nondet_bool(void); int64_t nondet_i64(void);
#ifndef TOPSB
int g_setdx_n, g_split_n, g_trim_n, g_scan_n, g_cjl_n, g_cjr_n; Point64 g_setdx_bot, g_setdx_top, g_split_pt, g_cjl_pt, g_cjr_pt; int64_t g_scan_y; bool g_trim_pc, g_cjr_flag;
static void SetDx__p(Active* e) { g_setdx_n++; g_setdx_bot = e->bot; g_setdx_top = e->top; }
#define SetDx(e) SetDx__p(&(e))
static void Split__p(ClipperBase* s, Active* e, Point64 pt) { g_split_n++; g_split_pt = pt; e->join_with = JoinWith_NoJoin; }
#define Split(s, e, p) Split__p(s, &(e), p)
static void TrimHorz__p(Active* e, bool pc) { g_trim_n++; g_trim_pc = pc; }
#define TrimHorz(e, pc) TrimHorz__p(&(e), pc)
static void InsertScanline(ClipperBase* s, int64_t y) { g_scan_n++; g_scan_y = y; }
static void CheckJoinLeft__p(ClipperBase* s, Active* e, Point64 pt) { g_cjl_n++; g_cjl_pt = pt; }
#define CheckJoinLeft(s, e, p) CheckJoinLeft__p(s, &(e), p)
static void CheckJoinRight__p(ClipperBase* s, Active* e, Point64 pt, bool f) { g_cjr_n++; g_cjr_pt = pt; g_cjr_flag = f; }
#define CheckJoinRight(s, e, p, f) CheckJoinRight__p(s, &(e), p, f)
//@extract file=CPP/Clipper2Lib/src/clipper.engine.cpp func=NextVertex byptr=e refmacro=1 ifndef=TOPSB
//@end
//@extract file=CPP/Clipper2Lib/src/clipper.engine.cpp func=IsHorizontal sig="const Active& e" byptr=e refmacro=1 ifndef=TOPSB
//@end
//@extract file=CPP/Clipper2Lib/src/clipper.engine.cpp func=IsJoined byptr=e refmacro=1 ifndef=TOPSB
//@end
//@extract file=CPP/Clipper2Lib/src/clipper.engine.cpp func=IsOpen sig="const Active& e" byptr=e refmacro=1 ifndef=TOPSB
//@end
//@extract file=CPP/Clipper2Lib/src/clipper.engine.cpp func=ClipperBase::UpdateEdgeIntoAEL self=ClipperBase selfcalls=Split,InsertScanline,CheckJoinLeft,CheckJoinRight ifndef=TOPSB
//@end
static inline bool Point64_eq(Point64 a, Point64 b) { return a.x == b.x && a.y == b.y; }
void h_Update(void)
{
  ClipperBase cb; Active e; Vertex v[3]; LocalMinima lm;
  for (int i = 0; i < 3; ++i) { v[i].pt.x = nondet_i64(); v[i].pt.y = nondet_i64(); v[i].next = &v[(i + 1) % 3]; v[i].prev = &v[(i + 2) % 3]; }
  e.vertex_top = &v[1]; e.top = v[1].pt; e.bot.x = nondet_i64(); e.bot.y = nondet_i64(); e.wind_dx = nondet_bool() ? 1 : -1; e.local_min = &lm; lm.is_open = nondet_bool();
  e.join_with = (JoinWith)(nondet_uint() % 3); cb.preserve_collinear_ = nondet_bool();
  bool was_joined = e.join_with != JoinWith_NoJoin; Point64 old_top = e.top;
  g_setdx_n = g_split_n = g_trim_n = g_scan_n = g_cjl_n = g_cjr_n = 0;
  UpdateEdgeIntoAEL(&cb, &e);
  Vertex* want = e.wind_dx > 0 ? &v[2] : &v[0];
  __CPROVER_assert(Point64_eq(e.bot, old_top) && e.vertex_top == want && Point64_eq(e.top, want->pt) && e.curr_x == old_top.x, "new bottom = old top; new top = next vertex in the winding direction; curr_x restarts at the bottom");
  __CPROVER_assert(g_setdx_n == 1 && Point64_eq(g_setdx_bot, e.bot) && Point64_eq(g_setdx_top, e.top), "the slope is recomputed once, after both end points are in place");
  __CPROVER_assert(g_split_n == (was_joined ? 1 : 0) && (was_joined ==> Point64_eq(g_split_pt, e.bot)), "a joined edge is split at the new bottom");
  bool horz = e.top.y == e.bot.y;
  if (horz) __CPROVER_assert(g_scan_n == 0 && g_cjl_n == 0 && g_cjr_n == 0 && g_trim_n == (lm.is_open ? 0 : 1) && (!lm.is_open ==> g_trim_pc == cb.preserve_collinear_), "horizontal: no scanline, no join checks; closed paths are trimmed with preserve_collinear_");
  else __CPROVER_assert(g_scan_n == 1 && g_scan_y == e.top.y && g_trim_n == 0 && g_cjl_n == 1 && g_cjr_n == 1 && Point64_eq(g_cjl_pt, e.bot) && Point64_eq(g_cjr_pt, e.bot), "otherwise: a scanline at the segment's top, join checks on both sides at its bottom");
  VF_CANARY();
}
#endif
/* ================= DoTopOfScanbeam ================= */
#ifdef TOPSB
#ifndef NE
#define NE 2
#endif
Active g_e[3]; Vertex g_vt[3]; int g_max_n[3], g_add_n[3], g_upd_n[3], g_topx_n[3]; int g_seq; int g_add_seq[3], g_upd_seq[3]; Point64 g_add_pt[3]; int64_t g_topx_ret[3]; int64_t g_topx_y[3]; bool g_becomes_horz[3];
static int eidx(const Active* e) { for (int i = 0; i < 3; ++i) if (e == &g_e[i]) return i; return -1; }
static Active* DoMaxima__p(ClipperBase* s, Active* e) { int k = eidx(e); g_max_n[k]++; return e->next_in_ael; }
#define DoMaxima(s, e) DoMaxima__p(s, &(e))
static OutPt* AddOutPt__p(ClipperBase* s, const Active* e, Point64 pt) { int k = eidx(e); g_add_n[k]++; g_add_seq[k] = g_seq++; g_add_pt[k] = pt; return NULL; }
#define AddOutPt(s, e, p) AddOutPt__p(s, &(e), p)
static void UpdateEdgeIntoAEL(ClipperBase* s, Active* e) { int k = eidx(e); g_upd_n[k]++; g_upd_seq[k] = g_seq++; if (g_becomes_horz[k]) { e->bot = e->top; e->top.x = e->top.x + 1; } else { e->bot = e->top; e->top.y = e->top.y - 1; } }
static int64_t TopX__p(const Active* e, int64_t y) { int k = eidx(e); g_topx_n[k]++; g_topx_y[k] = y; return g_topx_ret[k]; }
#define TopX(e, y) TopX__p(&(e), y)
//@extract file=CPP/Clipper2Lib/src/clipper.engine.cpp func=IsMaxima sig="const Vertex& v" as=IsMaximaV byptr=v ifdef=TOPSB
//@end
//@extract file=CPP/Clipper2Lib/src/clipper.engine.cpp func=IsMaxima sig="const Active& e" byptr=e refmacro=1 ifdef=TOPSB
//@sub /IsMaxima\(\*e->vertex_top\)/IsMaximaV(e->vertex_top)/
//@end
//@extract file=CPP/Clipper2Lib/src/clipper.engine.cpp func=IsHotEdge byptr=e refmacro=1 ifdef=TOPSB
//@end
//@extract file=CPP/Clipper2Lib/src/clipper.engine.cpp func=IsHorizontal sig="const Active& e" byptr=e refmacro=1 ifdef=TOPSB
//@end
//@extract file=CPP/Clipper2Lib/src/clipper.engine.cpp func=ClipperBase::PushHorz self=ClipperBase byptr=e ifdef=TOPSB
//@sub /&\(\*e\)/e/ min=0
//@end
#define PushHorz_CALL 1
//@extract file=CPP/Clipper2Lib/src/clipper.engine.cpp func=ClipperBase::DoTopOfScanbeam self=ClipperBase selfcalls=DoMaxima,AddOutPt,UpdateEdgeIntoAEL ifdef=TOPSB
//@sub /PushHorz\(\*e\)/PushHorz(self, e)/
//@end
void h_Top(void)
{
  ClipperBase cb; OutRec orec; unsigned n = nondet_uint(); __CPROVER_assume(n <= NE); int64_t y = nondet_i64(); __CPROVER_assume(y > -((int64_t)1 << 61) && y < ((int64_t)1 << 61));
  bool attop[3], ismax[3], hot[3]; Point64 top0[3];
  for (unsigned i = 0; i < 3; ++i) {
    g_e[i].prev_in_ael = (i > 0 && i < n) ? &g_e[i - 1] : NULL; g_e[i].next_in_ael = (i + 1 < n) ? &g_e[i + 1] : NULL; g_e[i].next_in_sel = NULL;
    g_e[i].top.x = nondet_i64(); __CPROVER_assume(g_e[i].top.x > -((int64_t)1 << 61) && g_e[i].top.x < ((int64_t)1 << 61)); attop[i] = nondet_bool(); g_e[i].top.y = attop[i] ? y : y - 5; g_e[i].bot.x = nondet_i64(); g_e[i].bot.y = y + 7; g_e[i].curr_x = nondet_i64();
    g_e[i].vertex_top = &g_vt[i]; ismax[i] = nondet_bool(); g_vt[i].flags = ismax[i] ? VertexFlags_LocalMax : VertexFlags_Empty; hot[i] = nondet_bool(); g_e[i].outrec = hot[i] ? &orec : NULL;
    g_max_n[i] = g_add_n[i] = g_upd_n[i] = g_topx_n[i] = 0; g_topx_ret[i] = nondet_i64(); g_becomes_horz[i] = nondet_bool(); top0[i] = g_e[i].top;
  }
  cb.actives_ = n ? &g_e[0] : NULL; cb.sel_ = &g_e[0]; g_seq = 0;
  DoTopOfScanbeam(&cb, y);
  int nhorz = 0;
  for (unsigned i = 0; i < 3; ++i) if (i < n) {
    if (!attop[i]) __CPROVER_assert(g_topx_n[i] == 1 && g_topx_y[i] == y && g_e[i].curr_x == g_topx_ret[i] && g_max_n[i] == 0 && g_add_n[i] == 0 && g_upd_n[i] == 0, "an edge that continues through the scanline gets curr_x = TopX(e, y) and nothing else");
    else if (ismax[i]) __CPROVER_assert(g_max_n[i] == 1 && g_add_n[i] == 0 && g_upd_n[i] == 0 && g_topx_n[i] == 0 && g_e[i].curr_x == top0[i].x, "an edge ending at a local maximum: curr_x = its top x, then DoMaxima once");
    else {
      __CPROVER_assert(g_upd_n[i] == 1 && g_max_n[i] == 0 && g_topx_n[i] == 0, "an edge ending at an intermediate vertex moves on to its next segment once");
      __CPROVER_assert(g_add_n[i] == (hot[i] ? 1 : 0) && (hot[i] ==> (g_add_seq[i] < g_upd_seq[i] && g_add_pt[i].x == top0[i].x && g_add_pt[i].y == top0[i].y)), "a hot edge first adds its top vertex to its contour");
      if (g_becomes_horz[i]) nhorz++;
    }
  }
  /* horizontals are stacked for later: the stack holds exactly the edges whose new segment is horizontal */
  int cnt = 0; Active* h = cb.sel_; for (int k = 0; k < 4; ++k) { if (!h) break; int hi = eidx(h); __CPROVER_assert(hi >= 0 && (unsigned)hi < n && attop[hi] && !ismax[hi] && g_becomes_horz[hi], "only edges that became horizontal are stacked"); cnt++; h = h->next_in_sel; }
  __CPROVER_assert(h == NULL && cnt == nhorz, "every edge that became horizontal is stacked exactly once (the stack starts empty)");
  VF_CANARY();
}
#endif
//@run name=UpdateEdgeIntoAEL entry=h_Update unwind=5 flags="--bounds-check --pointer-check" solver=cadical timeout=120
//@assume A5 (C01_advance): SetDx, Split, TrimHorz, InsertScanline, CheckJoinLeft, CheckJoinRight are logging stubs in the UpdateEdgeIntoAEL harness.
//@run name=DoTopOfScanbeam.ael2 entry=h_Top defs=TOPSB,NE=2 unwind=6 flags="--bounds-check --pointer-check --signed-overflow-check" solver=cadical timeout=600 bounded="active edge list of 0..2 edges (DoMaxima returns the next edge; it does not unlink in this harness)"
//@run name=DoTopOfScanbeam.ael3 tier=thorough entry=h_Top defs=TOPSB,NE=3 unwind=6 flags="--bounds-check --pointer-check --signed-overflow-check" solver=cadical timeout=900 bounded="active edge list of 0..3 edges"
