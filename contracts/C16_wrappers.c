//@unit C16_wrappers
//@props C16 C11
//@safetyprops C14
//@desc The PathsD overloads of clipper.h under call-trace contracts (G5): precision is range-checked before any use and an error yields an empty result; paths, rectangle, delta and arc tolerance are multiplied by 10^precision (ClipperD gets the precision itself); the integer operation receives exactly the scaled operands and the result is descaled with 1/scale.
#include "vf.h"
//@include calltrace.inc
//@include calltrace_stubs.inc
#define H CPP/Clipper2Lib/include/clipper2/clipper.h
#define ASG_LOG __CPROVER_object_whole(g_cnt), __CPROVER_object_whole(g_ev), g_n
#define EMPTYV(v) ((v).tok == 0 && (v).size == 0)
#define PREC_FIRST (C_(FN_CHECKPREC) == 1 && I_(FN_CHECKPREC,0,0) == (long)precision && SEQ(FN_CHECKPREC,0) == 0)
#define PREC_ERR (I_(FN_CHECKPREC,0,2) != 0)
#define PREC_NEW I_(FN_CHECKPREC,0,1)
#define SCALE POW_RET(0)
#define HAS_FMUL(a, b, r) ((C_(FN_FMUL) > 0 && IS_FMUL(0, a, b) && FMUL_RET(0) == (r)) || (C_(FN_FMUL) > 1 && IS_FMUL(1, a, b) && FMUL_RET(1) == (r)) || \
                           (C_(FN_FMUL) > 2 && IS_FMUL(2, a, b) && FMUL_RET(2) == (r)))

//@extract file=CPP/Clipper2Lib/include/clipper2/clipper.h func=BooleanOp sig="const PathsD& subjects, const PathsD& clips, int precision" as=BooleanOp_D byval=subjects,clips
//@pysub calltrace
//@sub /ClipperD_Execute\(/Clipper_Execute1(/
__CPROVER_requires(NOCALLS)
__CPROVER_ensures(PREC_FIRST)
__CPROVER_ensures(PREC_ERR ==> (EMPTYV(__CPROVER_return_value) && g_n == 1))
__CPROVER_ensures(!PREC_ERR ==> (C_(FN_CDCTOR) == 1 && I_(FN_CDCTOR,0,0) == PREC_NEW &&
   C_(FN_ADDSUBJ) == 1 && I_(FN_ADDSUBJ,0,0) == TOK(FN_CDCTOR,0) && I_(FN_ADDSUBJ,0,1) == subjects.tok &&
   C_(FN_ADDCLIP) == 1 && I_(FN_ADDCLIP,0,0) == TOK(FN_CDCTOR,0) && I_(FN_ADDCLIP,0,1) == clips.tok && C_(FN_ADDOPEN) == 0 &&
   C_(FN_EXEC) == 1 && I_(FN_EXEC,0,0) == TOK(FN_CDCTOR,0) && I_(FN_EXEC,0,1) == (long)cliptype && I_(FN_EXEC,0,2) == (long)fillrule &&
   SEQ(FN_EXEC,0) > SEQ(FN_ADDSUBJ,0) && SEQ(FN_EXEC,0) > SEQ(FN_ADDCLIP,0) && __CPROVER_return_value.tok == TOK(FN_EXEC,0)))
__CPROVER_assigns(ASG_LOG)
//@end
void h_BooleanOp_D(void) { ClipType ct; FillRule fr; PathsD a, b; int prec; LOG_INIT(); BooleanOp_D(ct, fr, a, b, prec); VF_CANARY(); }

//@extract file=CPP/Clipper2Lib/include/clipper2/clipper.h func=BooleanOp sig="PolyTreeD& polytree, int precision" as=BooleanOp_DT byval=subjects,clips
//@pysub calltrace
//@sub /ClipperD_Execute\(/Clipper_ExecuteTree1(/
__CPROVER_requires(NOCALLS && __CPROVER_is_fresh(polytree, sizeof(*polytree)))
__CPROVER_ensures(C_(FN_SETSCALE) == 1 && I_(FN_SETSCALE,0,0) == polytree->tok && SEQ(FN_SETSCALE,0) == 0)
__CPROVER_ensures(C_(FN_CHECKPREC) == 1 && I_(FN_CHECKPREC,0,0) == (long)precision && SEQ(FN_CHECKPREC,0) == 1)
__CPROVER_ensures(PREC_ERR ==> (g_n == 2))
__CPROVER_ensures(!PREC_ERR ==> (C_(FN_CDCTOR) == 1 && I_(FN_CDCTOR,0,0) == PREC_NEW &&
   C_(FN_ADDSUBJ) == 1 && I_(FN_ADDSUBJ,0,0) == TOK(FN_CDCTOR,0) && I_(FN_ADDSUBJ,0,1) == subjects.tok &&
   C_(FN_ADDCLIP) == 1 && I_(FN_ADDCLIP,0,0) == TOK(FN_CDCTOR,0) && I_(FN_ADDCLIP,0,1) == clips.tok && C_(FN_ADDOPEN) == 0 &&
   C_(FN_EXECTREE) == 1 && I_(FN_EXECTREE,0,0) == TOK(FN_CDCTOR,0) && I_(FN_EXECTREE,0,1) == (long)cliptype && I_(FN_EXECTREE,0,2) == (long)fillrule &&
   I_(FN_EXECTREE,0,4) == polytree->tok && SEQ(FN_EXECTREE,0) > SEQ(FN_ADDSUBJ,0) && SEQ(FN_EXECTREE,0) > SEQ(FN_ADDCLIP,0)))
__CPROVER_assigns(ASG_LOG)
//@end
void h_BooleanOp_DT(void) { ClipType ct; FillRule fr; PathsD a, b; PolyTreeD* t; int prec; LOG_INIT(); BooleanOp_DT(ct, fr, a, b, t, prec); VF_CANARY(); }

//@extract file=CPP/Clipper2Lib/include/clipper2/clipper.h func=Union sig="const PathsD& subjects, FillRule fillrule, int precision" as=Union_D byval=subjects
//@pysub calltrace
//@sub /ClipperD_Execute\(/Clipper_Execute1(/
__CPROVER_requires(NOCALLS)
__CPROVER_ensures(PREC_FIRST)
__CPROVER_ensures(PREC_ERR ==> (EMPTYV(__CPROVER_return_value) && g_n == 1))
__CPROVER_ensures(!PREC_ERR ==> (C_(FN_CDCTOR) == 1 && I_(FN_CDCTOR,0,0) == PREC_NEW &&
   C_(FN_ADDSUBJ) == 1 && I_(FN_ADDSUBJ,0,0) == TOK(FN_CDCTOR,0) && I_(FN_ADDSUBJ,0,1) == subjects.tok && C_(FN_ADDCLIP) == 0 && C_(FN_ADDOPEN) == 0 &&
   C_(FN_EXEC) == 1 && I_(FN_EXEC,0,0) == TOK(FN_CDCTOR,0) && I_(FN_EXEC,0,1) == (long)ClipType_Union && I_(FN_EXEC,0,2) == (long)fillrule &&
   SEQ(FN_EXEC,0) > SEQ(FN_ADDSUBJ,0) && __CPROVER_return_value.tok == TOK(FN_EXEC,0)))
__CPROVER_assigns(ASG_LOG)
//@end
void h_Union_D(void) { FillRule fr; PathsD a; int prec; LOG_INIT(); Union_D(a, fr, prec); VF_CANARY(); }

/* ---- InflatePaths -------------------------------------------------------------------------------------------- */
//@extract file=CPP/Clipper2Lib/include/clipper2/clipper.h func=InflatePaths sig="const Paths64& paths" as=InflatePaths_64 byval=paths
//@pysub calltrace
//@pysub floatops min=0
__CPROVER_requires(NOCALLS && !__CPROVER_isnand(delta) && !__CPROVER_isnand(miter_limit) && !__CPROVER_isnand(arc_tolerance))
/* C06: delta == 0 returns the input unchanged */
__CPROVER_ensures(delta == 0.0 ==> (__CPROVER_return_value.tok == paths.tok && __CPROVER_return_value.size == paths.size && NOCALLS))
__CPROVER_ensures(delta != 0.0 ==> (C_(FN_COCTOR) == 1 && D_(FN_COCTOR,0,0) == miter_limit && D_(FN_COCTOR,0,1) == arc_tolerance && I_(FN_COCTOR,0,0) == 0 && I_(FN_COCTOR,0,1) == 0 &&
   C_(FN_COADDPATHS) == 1 && I_(FN_COADDPATHS,0,0) == TOK(FN_COCTOR,0) && I_(FN_COADDPATHS,0,1) == paths.tok && I_(FN_COADDPATHS,0,2) == (long)jt && I_(FN_COADDPATHS,0,3) == (long)et &&
   C_(FN_COEXEC) == 1 && I_(FN_COEXEC,0,0) == TOK(FN_COCTOR,0) && D_(FN_COEXEC,0,0) == delta && SEQ(FN_COEXEC,0) > SEQ(FN_COADDPATHS,0) &&
   __CPROVER_return_value.tok == TOK(FN_COEXEC,0)))
__CPROVER_assigns(ASG_LOG)
//@end
void h_InflatePaths_64(void) { Paths64 p; double d, ml, at; JoinType jt; EndType et; LOG_INIT(); InflatePaths_64(p, d, jt, et, ml, at); VF_CANARY(); }

//@extract file=CPP/Clipper2Lib/include/clipper2/clipper.h func=InflatePaths sig="const PathsD& paths" as=InflatePaths_D byval=paths
//@pysub calltrace
//@pysub floatops
__CPROVER_requires(NOCALLS && !__CPROVER_isnand(delta) && !__CPROVER_isnand(miter_limit) && !__CPROVER_isnand(arc_tolerance))
__CPROVER_ensures(PREC_FIRST)
__CPROVER_ensures(delta == 0.0 ==> (__CPROVER_return_value.tok == paths.tok && __CPROVER_return_value.size == paths.size && g_n == 1))
__CPROVER_ensures((delta != 0.0 && PREC_ERR) ==> (EMPTYV(__CPROVER_return_value) && g_n == 1))
#define GO (delta != 0.0 && !PREC_ERR)
/* scale = 10^precision (the range-checked precision); paths, delta and arc tolerance are scaled alike */
__CPROVER_ensures(GO ==> (C_(FN_POW) == 1 && IS_POW10(0, PREC_NEW) &&
   C_(FN_COCTOR) == 1 && D_(FN_COCTOR,0,0) == miter_limit && HAS_FMUL(arc_tolerance, SCALE, D_(FN_COCTOR,0,1)) && I_(FN_COCTOR,0,0) == 0 && I_(FN_COCTOR,0,1) == 0 &&
   C_(FN_SCALEPATHS) >= 1 && I_(FN_SCALEPATHS,0,0) == paths.tok && D_(FN_SCALEPATHS,0,0) == SCALE &&
   C_(FN_COADDPATHS) == 1 && I_(FN_COADDPATHS,0,0) == TOK(FN_COCTOR,0) && I_(FN_COADDPATHS,0,1) == TOK(FN_SCALEPATHS,0) && I_(FN_COADDPATHS,0,2) == (long)jt && I_(FN_COADDPATHS,0,3) == (long)et))
/* a scaling error (coordinates out of range) yields an empty result and nothing is offset */
__CPROVER_ensures((GO && I_(FN_SCALEPATHS,0,1) != 0) ==> (EMPTYV(__CPROVER_return_value) && C_(FN_COEXEC) == 0))
__CPROVER_ensures((GO && I_(FN_SCALEPATHS,0,1) == 0) ==> (C_(FN_COEXEC) == 1 && I_(FN_COEXEC,0,0) == TOK(FN_COCTOR,0) && HAS_FMUL(delta, SCALE, D_(FN_COEXEC,0,0)) &&
   C_(FN_SCALEPATHS) == 2 && I_(FN_SCALEPATHS,1,0) == TOK(FN_COEXEC,0) && C_(FN_FDIV) == 1 && IS_FDIV(0, 1.0, SCALE) && D_(FN_SCALEPATHS,1,0) == FDIV_RET(0) &&
   __CPROVER_return_value.tok == TOK(FN_SCALEPATHS,1)))
__CPROVER_assigns(ASG_LOG)
//@end
void h_InflatePaths_D(void) { PathsD p; double d, ml, at; JoinType jt; EndType et; int prec; LOG_INIT(); InflatePaths_D(p, d, jt, et, ml, prec, at); VF_CANARY(); }

/* ---- RectClip / RectClipLines --------------------------------------------------------------------------------- */
#define RC_D_SPEC(CTOR, EXEC, INPUT) \
  __CPROVER_ensures(C_(FN_RECTEMPTY) == 1 && I_(FN_RECTEMPTY,0,0) == rect.tok && SEQ(FN_RECTEMPTY,0) == 0) \
  __CPROVER_ensures((I_(FN_RECTEMPTY,0,1) || INPUT.size == 0) ==> (EMPTYV(__CPROVER_return_value) && g_n == 1)) \
  __CPROVER_ensures(!(I_(FN_RECTEMPTY,0,1) || INPUT.size == 0) ==> (C_(FN_CHECKPREC) == 1 && I_(FN_CHECKPREC,0,0) == (long)precision && SEQ(FN_CHECKPREC,0) == 1)) \
  __CPROVER_ensures((!(I_(FN_RECTEMPTY,0,1) || INPUT.size == 0) && PREC_ERR) ==> (EMPTYV(__CPROVER_return_value) && g_n == 2)) \
  __CPROVER_ensures((!(I_(FN_RECTEMPTY,0,1) || INPUT.size == 0) && !PREC_ERR) ==> (C_(FN_POW) == 1 && IS_POW10(0, PREC_NEW) && \
     C_(FN_SCALERECT) == 1 && I_(FN_SCALERECT,0,0) == rect.tok && D_(FN_SCALERECT,0,0) == SCALE && C_(CTOR) == 1 && I_(CTOR,0,0) == TOK(FN_SCALERECT,0) && \
     C_(FN_SCALEPATHS) >= 1 && I_(FN_SCALEPATHS,0,0) == INPUT.tok && D_(FN_SCALEPATHS,0,0) == SCALE)) \
  __CPROVER_ensures((!(I_(FN_RECTEMPTY,0,1) || INPUT.size == 0) && !PREC_ERR && I_(FN_SCALEPATHS,0,1) != 0) ==> (EMPTYV(__CPROVER_return_value) && C_(EXEC) == 0)) \
  __CPROVER_ensures((!(I_(FN_RECTEMPTY,0,1) || INPUT.size == 0) && !PREC_ERR && I_(FN_SCALEPATHS,0,1) == 0) ==> (C_(EXEC) == 1 && I_(EXEC,0,0) == TOK(CTOR,0) && I_(EXEC,0,1) == TOK(FN_SCALEPATHS,0) && \
     C_(FN_SCALEPATHS) == 2 && I_(FN_SCALEPATHS,1,0) == TOK(EXEC,0) && C_(FN_FDIV) == 1 && IS_FDIV(0, 1.0, SCALE) && D_(FN_SCALEPATHS,1,0) == FDIV_RET(0) && \
     __CPROVER_return_value.tok == TOK(FN_SCALEPATHS,1)))
//@extract file=CPP/Clipper2Lib/include/clipper2/clipper.h func=RectClip sig="const RectD& rect, const PathsD& paths" as=RectClip_D byval=rect,paths
//@pysub calltrace
//@pysub floatops
__CPROVER_requires(NOCALLS)
RC_D_SPEC(FN_RCCTOR, FN_RCEXEC, paths)
__CPROVER_assigns(ASG_LOG)
//@end
void h_RectClip_D(void) { RectD r; PathsD p; int prec; LOG_INIT(); RectClip_D(r, p, prec); VF_CANARY(); }
//@extract file=CPP/Clipper2Lib/include/clipper2/clipper.h func=RectClipLines sig="const RectD& rect, const PathsD& lines" as=RectClipLines_D byval=rect,lines
//@pysub calltrace
//@pysub floatops
__CPROVER_requires(NOCALLS)
RC_D_SPEC(FN_RCLCTOR, FN_RCLEXEC, lines)
__CPROVER_assigns(ASG_LOG)
//@end
void h_RectClipLines_D(void) { RectD r; PathsD p; int prec; LOG_INIT(); RectClipLines_D(r, p, prec); VF_CANARY(); }

/* ---- TrimCollinear(PathD) -------------------------------------------------------------------------------------- */
VTok TrimCollinear(VTok p, bool is_open_path)
LOG_REQ(FN_TRIM) LOG_ENS(FN_TRIM, p.tok, is_open_path, 0,0,0,0, 0,0,0,0)
__CPROVER_ensures(__CPROVER_return_value.tok == TOK(FN_TRIM, OC_(FN_TRIM)))
__CPROVER_assigns(LOG_ASG(FN_TRIM));
//@extract file=CPP/Clipper2Lib/include/clipper2/clipper.h func=TrimCollinear sig="const PathD& path, int precision" as=TrimCollinear_D byval=path
//@pysub calltrace
//@pysub floatops
__CPROVER_requires(NOCALLS)
__CPROVER_ensures(PREC_FIRST)
__CPROVER_ensures(PREC_ERR ==> (EMPTYV(__CPROVER_return_value) && g_n == 1))
__CPROVER_ensures(!PREC_ERR ==> (C_(FN_POW) == 1 && IS_POW10(0, PREC_NEW) && C_(FN_SCALEPATH) >= 1 && I_(FN_SCALEPATH,0,0) == path.tok && D_(FN_SCALEPATH,0,0) == SCALE))
__CPROVER_ensures((!PREC_ERR && I_(FN_SCALEPATH,0,1) != 0) ==> (EMPTYV(__CPROVER_return_value) && C_(FN_TRIM) == 0))
__CPROVER_ensures((!PREC_ERR && I_(FN_SCALEPATH,0,1) == 0) ==> (C_(FN_TRIM) == 1 && I_(FN_TRIM,0,0) == TOK(FN_SCALEPATH,0) && I_(FN_TRIM,0,1) == (long)is_open_path &&
   C_(FN_SCALEPATH) == 2 && I_(FN_SCALEPATH,1,0) == TOK(FN_TRIM,0) && C_(FN_FDIV) == 1 && IS_FDIV(0, 1.0, SCALE) && D_(FN_SCALEPATH,1,0) == FDIV_RET(0) &&
   __CPROVER_return_value.tok == TOK(FN_SCALEPATH,1)))
#ifdef REQ_RANGECHECK
/* C11: coordinates that leave the integer range after scaling must be reported — only ScalePaths range-checks, ScalePath does not */
__CPROVER_ensures(!PREC_ERR ==> C_(FN_SCALEPATHS) >= 1)
#endif
__CPROVER_assigns(ASG_LOG)
//@end
void h_TrimCollinear_D(void) { PathD p; int prec; bool o; LOG_INIT(); TrimCollinear_D(p, prec, o); VF_CANARY(); }

//@run name=BooleanOp.PathsD entry=h_BooleanOp_D enforce=BooleanOp_D replace=CheckPrecisionRange,ClipperD_ctor2,Clipper_AddSubject,Clipper_AddClip,Clipper_Execute1 flags="--bounds-check --pointer-check" timeout=120
//@run name=BooleanOp.PolyTreeD entry=h_BooleanOp_DT enforce=BooleanOp_DT replace=CheckPrecisionRange,ClipperD_ctor2,Clipper_AddSubject,Clipper_AddClip,Clipper_ExecuteTree1,PolyTree_Clear flags="--bounds-check --pointer-check" timeout=120
//@run name=Union.PathsD entry=h_Union_D enforce=Union_D replace=CheckPrecisionRange,ClipperD_ctor2,Clipper_AddSubject,Clipper_Execute1 flags="--bounds-check --pointer-check" timeout=120
//@run name=InflatePaths.Paths64 entry=h_InflatePaths_64 enforce=InflatePaths_64 replace=ClipperOffset_ctor5,ClipperOffset_AddPaths,ClipperOffset_Execute flags="--bounds-check --pointer-check" timeout=120 props=C06,C14
//@run name=InflatePaths.PathsD entry=h_InflatePaths_D enforce=InflatePaths_D replace=CheckPrecisionRange,ScalePaths,ClipperOffset_ctor5,ClipperOffset_AddPaths,ClipperOffset_Execute,vf_pow,vf_fmul,vf_fdiv flags="--bounds-check --pointer-check" timeout=120 props=C16,C11,C06,C14
//@run name=RectClip.PathsD entry=h_RectClip_D enforce=RectClip_D replace=CheckPrecisionRange,ScalePaths,ScaleRect,Rect_IsEmpty,RectClip64_ctor,RectClip64_Execute,vf_pow,vf_fdiv flags="--bounds-check --pointer-check" timeout=120
//@run name=RectClipLines.PathsD entry=h_RectClipLines_D enforce=RectClipLines_D replace=CheckPrecisionRange,ScalePaths,ScaleRect,Rect_IsEmpty,RectClipLines64_ctor,RectClipLines64_Execute,vf_pow,vf_fdiv flags="--bounds-check --pointer-check" timeout=120
//@run name=TrimCollinear.PathD entry=h_TrimCollinear_D enforce=TrimCollinear_D replace=CheckPrecisionRange,ScalePath,TrimCollinear,vf_pow,vf_fdiv flags="--bounds-check --pointer-check" timeout=120
//@run name=TrimCollinear.PathD.F7 entry=h_TrimCollinear_D enforce=TrimCollinear_D replace=CheckPrecisionRange,ScalePath,ScalePaths,TrimCollinear,vf_pow,vf_fdiv defs=REQ_RANGECHECK flags="--bounds-check --pointer-check" timeout=120 expect=fail:postcondition\.6 known=F7 props=C11
