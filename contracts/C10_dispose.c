//@unit C10_dispose
//@props C10
//@safetyprops C14
//@desc What the destructors and CleanUp release (C10: no leak, no double free, no use after free) - BOUNDED harnesses over concrete lists of symbolic shape. DisposeOutPts (ring of 1..4 vertices): every vertex of the ring is deleted exactly once, nothing else is, no vertex is read after it was deleted, and the OutRec gives the ring up (`pts == nullptr`). DisposeAllOutRecs (2 OutRecs, each with a ring of 1..2 vertices or none, each with or without a split list): every ring vertex, every split list and every OutRec is deleted exactly once and the list is emptied. DisposeVerticesAndLocalMinima and ReuseableDataContainer64::Clear (0..3 vertex arrays): every array released once with delete[], both lists emptied. DeleteEdges (AEL of 0..3 edges): every edge is deleted exactly once, the head is null afterwards, no edge is read after its deletion. new/delete are pools with double-delete and use-after-delete detection.
#include "vf.h"
//@include engine_types.inc
#ifndef R
#define R 4
#endif
OutPt g_ring[2 * R]; bool g_del[2 * R]; int g_ndel_other;
/* every dereference of an OutPt in the extracted code goes through a deleted-check on the ring vertices */
#define VF_DELETE_OP(op) do { bool hit_ = false; for (int q_ = 0; q_ < 2 * R; ++q_) if ((op) == &g_ring[q_]) { __CPROVER_assert(!g_del[q_], "no double delete of a vertex"); g_del[q_] = true; hit_ = true; } if (!hit_) g_ndel_other++; } while (0)
static OutPt* vf_live(OutPt* op) { for (int q_ = 0; q_ < 2 * R; ++q_) if (op == &g_ring[q_]) __CPROVER_assert(!g_del[q_], "no vertex is used after it was deleted"); return op; }
//@extract file=CPP/Clipper2Lib/src/clipper.engine.cpp func=DisposeOutPts
//@sub /delete (\w+);/VF_DELETE_OP(\1);/
//@sub /(\w+)->next\b(?! =)/vf_live(\1)->next/ min=0
//@sub /(\w+)->prev->next = NULL;/vf_live(vf_live(\1)->prev)->next = NULL;/ min=0
//@end
OutRec g_or[2]; bool g_ordel[2]; OutRecList g_sl[2]; bool g_sldel[2]; int g_bad;
#define VF_DELETE_OR(o) do { bool hit_ = false; for (int q_ = 0; q_ < 2; ++q_) if ((o) == &g_or[q_]) { __CPROVER_assert(!g_ordel[q_], "no double delete of an OutRec"); g_ordel[q_] = true; hit_ = true; \
    /* ~OutRec(): if (splits) delete splits; */ if (g_or[q_].splits) { for (int s_ = 0; s_ < 2; ++s_) if (g_or[q_].splits == &g_sl[s_]) { __CPROVER_assert(!g_sldel[s_], "no double delete of a split list"); g_sldel[s_] = true; } } } if (!hit_) g_bad++; } while (0)
//@expect file=CPP/Clipper2Lib/include/clipper2/clipper.engine.h /~OutRec\(\) \{\s*if \(splits\) delete splits;/
typedef struct { OutRecList outrec_list_; } ClipperS;
//@extract file=CPP/Clipper2Lib/src/clipper.engine.cpp func=ClipperBase::DisposeAllOutRecs self=ClipperS rangefor=1 vec=outrec_list_ ifdef=ALL
//@sub /delete outrec;/VF_DELETE_OR(outrec);/
//@sub /self->outrec_list_\.resize\(0\)/self->outrec_list_.size = 0/ min=0
//@sub /self->outrec_list_\.data\[vf_i_outrec\]/((OutRec**)self->outrec_list_.data)[vf_i_outrec]/ min=0
//@end
Active g_act[3]; bool g_adel[3];
#define VF_DELETE_E(pe) do { bool hit_ = false; for (int q_ = 0; q_ < 3; ++q_) if ((pe) == &g_act[q_]) { __CPROVER_assert(!g_adel[q_], "no double delete of an edge"); g_adel[q_] = true; hit_ = true; } if (!hit_) g_bad++; } while (0)
static Active* vf_alive(Active* e) { for (int q_ = 0; q_ < 3; ++q_) if (e == &g_act[q_]) __CPROVER_assert(!g_adel[q_], "no edge is used after it was deleted"); return e; }
/* `e = e->next_in_ael;` on the reference parameter, with the use-after-delete check on the edge that is read */
#define VF_ADV(pe) (*(pe) = vf_alive(*(pe))->next_in_ael)
//@extract file=CPP/Clipper2Lib/src/clipper.engine.cpp func=ClipperBase::DeleteEdges self=ClipperS byptr=e ifdef=EDGES
//@sub /delete e2;/VF_DELETE_E(e2);/
//@sub /\(\*e\) = e->next_in_ael;/VF_ADV(e);/
//@end
/* vertex arrays (one `new Vertex[n]` per AddPaths call): each released once with delete[], both lists emptied */
typedef struct { VF_Vec minima_list_; VF_Vec vertex_lists_; } VOwnerS;
Vertex g_va0[1], g_va1[1], g_va2[1]; bool g_vadel[3]; int g_vabad;
#define VF_DELETE_ARR(v) do { int k_ = (v) == g_va0 ? 0 : (v) == g_va1 ? 1 : (v) == g_va2 ? 2 : -1; if (k_ >= 0) { __CPROVER_assert(!g_vadel[k_], "no double delete[] of a vertex array"); g_vadel[k_] = true; } else g_vabad++; } while (0)
//@extract file=CPP/Clipper2Lib/src/clipper.engine.cpp func=ClipperBase::DisposeVerticesAndLocalMinima self=VOwnerS rangefor=1 vec=vertex_lists_,minima_list_ ifdef=VERTS
//@sub /delete\s*\[\]\s*v;/VF_DELETE_ARR(v);/ min=0
//@sub /self->vertex_lists_\.data\[vf_i_v\]/((Vertex**)self->vertex_lists_.data)[vf_i_v]/ min=0
//@end
//@extract file=CPP/Clipper2Lib/src/clipper.engine.cpp func=ReuseableDataContainer64::Clear as=RDC_Clear self=VOwnerS rangefor=1 vec=vertex_lists_,minima_list_ ifdef=VERTS
//@sub /delete\s*\[\]\s*v;/VF_DELETE_ARR(v);/ min=0
//@sub /self->vertex_lists_\.data\[vf_i_v\]/((Vertex**)self->vertex_lists_.data)[vf_i_v]/ min=0
//@end
unsigned nondet_uint(void); bool nondet_bool(void);
static void mk_ring(unsigned lo, unsigned n, OutRec* o) { for (unsigned i = 0; i < n; ++i) { g_ring[lo + i].next = &g_ring[lo + (i + 1) % n]; g_ring[lo + i].prev = &g_ring[lo + (i + n - 1) % n]; g_ring[lo + i].outrec = o; } }
#ifdef PTS
void h_DOP(void)
{
  unsigned n = 1 + nondet_uint() % R, s = nondet_uint(); __CPROVER_assume(s < n);
  for (int i = 0; i < 2 * R; ++i) g_del[i] = false; g_ndel_other = 0;
  mk_ring(0, n, &g_or[0]); g_or[0].pts = &g_ring[s];
  DisposeOutPts(&g_or[0]);
  for (unsigned i = 0; i < 2 * R; ++i) __CPROVER_assert(g_del[i] == (i < n), "exactly the vertices of the ring are deleted");
  __CPROVER_assert(g_ndel_other == 0 && g_or[0].pts == NULL, "nothing else is deleted; the OutRec gives the ring up");
  VF_CANARY();
}
#endif
#ifdef ALL
void h_ALL(void)
{
  ClipperS cb; OutRec* ents[2] = { &g_or[0], &g_or[1] }; cb.outrec_list_.data = ents; cb.outrec_list_.size = nondet_uint() % 3;
  for (int i = 0; i < 2 * R; ++i) g_del[i] = false; g_ndel_other = 0; g_bad = 0;
  unsigned n[2];
  for (int k = 0; k < 2; ++k) { n[k] = nondet_uint() % 3; g_ordel[k] = false; g_sldel[k] = false; g_or[k].splits = nondet_bool() ? &g_sl[k] : NULL;
    if (n[k]) { mk_ring(k * R, n[k], &g_or[k]); g_or[k].pts = &g_ring[k * R + nondet_uint() % n[k]]; } else g_or[k].pts = NULL; }
  bool had_splits[2] = { g_or[0].splits != NULL, g_or[1].splits != NULL };
  size_t cnt = cb.outrec_list_.size;
  DisposeAllOutRecs(&cb);
  for (unsigned k = 0; k < 2; ++k) {
    __CPROVER_assert(g_ordel[k] == (k < cnt), "every OutRec of the list is deleted exactly once");
    __CPROVER_assert(g_sldel[k] == (k < cnt && had_splits[k]), "and its split list with it");
    for (unsigned i = 0; i < R; ++i) __CPROVER_assert(g_del[k * R + i] == (k < cnt && i < n[k]), "and every vertex of its ring");
  }
  __CPROVER_assert(g_bad == 0 && g_ndel_other == 0 && cb.outrec_list_.size == 0, "nothing else is deleted; the list is emptied");
  VF_CANARY();
}
#endif
#ifdef VERTS
void h_DV(void)
{
  VOwnerS s; Vertex* lists[3] = { g_va0, g_va1, g_va2 }; unsigned n = nondet_uint() % 4; bool container = nondet_bool();
  s.vertex_lists_.data = lists; s.vertex_lists_.size = n; s.minima_list_.size = nondet_uint(); g_vabad = 0;
  for (int i = 0; i < 3; ++i) g_vadel[i] = false;
  if (container) RDC_Clear(&s); else DisposeVerticesAndLocalMinima(&s);
  for (unsigned i = 0; i < 3; ++i) __CPROVER_assert(g_vadel[i] == (i < n), "every vertex array is released exactly once");
  __CPROVER_assert(g_vabad == 0 && s.vertex_lists_.size == 0 && s.minima_list_.size == 0, "nothing else is released; both lists are emptied");
  VF_CANARY();
}
#endif
#ifdef EDGES
void h_DE(void)
{
  ClipperS cb; unsigned n = nondet_uint() % 4; g_bad = 0;
  for (unsigned i = 0; i < 3; ++i) { g_adel[i] = false; g_act[i].next_in_ael = (i + 1 < n) ? &g_act[i + 1] : NULL; g_act[i].prev_in_ael = i ? &g_act[i - 1] : NULL; }
  Active* head = n ? &g_act[0] : NULL;
  DeleteEdges(&cb, &head);
  for (unsigned i = 0; i < 3; ++i) __CPROVER_assert(g_adel[i] == (i < n), "exactly the edges of the list are deleted, once each");
  __CPROVER_assert(head == NULL && g_bad == 0, "the head is null afterwards; nothing else is deleted");
  VF_CANARY();
}
#endif
//@run name=DisposeOutPts entry=h_DOP defs=PTS,R=4 unwind=10 flags="--bounds-check --pointer-check" timeout=300 bounded="ring of 1..4 vertices, any entry vertex"
//@run name=DisposeAllOutRecs entry=h_ALL defs=ALL,R=2 unwind=6 flags="--bounds-check --pointer-check" timeout=300 bounded="list of 0..2 OutRecs, each with a ring of 0..2 vertices and with or without a split list"
//@run name=DeleteEdges entry=h_DE defs=EDGES unwind=6 flags="--bounds-check --pointer-check" timeout=300 bounded="AEL of 0..3 edges"
//@assume A5 (C10_dispose): `delete` is a marking of pool objects with double-delete detection, and every `->next` read of an OutPt (and the `next_in_ael` read of an edge) in the extracted bodies goes through a use-after-delete check (logged rewrites); ~OutRec() is modelled from its source text (`if (splits) delete splits;`, checked by an //@expect fact).
//@run name=DisposeVertices entry=h_DV defs=VERTS unwind=6 flags="--bounds-check --pointer-check" timeout=300 bounded="0..3 vertex arrays; ClipperBase::DisposeVerticesAndLocalMinima and ReuseableDataContainer64::Clear"
