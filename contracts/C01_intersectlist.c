//@unit C01_intersectlist
//@props C01
//@safetyprops C10
//@desc ClipperBase::BuildIntersectList with the real AdjustCurrXAndCopyToSEL, ExtractFromSEL and Insert1Before2InSEL - BOUNDED (AEL of N = 2, 3 or 4 edges, 5 in the thorough tier; the x of every edge at the top of the scanbeam is an arbitrary value handed over by the TopX stub, no joined edges). Every crossing inside a scanbeam is found exactly once and nothing else is: for every pair of edges (i left of j in the AEL at the bottom) one intersect node is recorded - with the left edge first - exactly when j is strictly left of i at the top (curr_x[j] < curr_x[i]; edges that only meet at the top are not swapped: the merge is stable), and never otherwise; the result says whether any node exists; afterwards the sorted edge list (SEL) is a permutation of the AEL, ordered by x at the top, with consistent links in both directions and `sel_` at its head; the AEL links themselves are not touched.
#include "vf.h"
//@include engine_types.inc
#ifndef N
#define N 3
#endif
/* the edges are separate objects (not an array): field-sensitive encoding of the list surgery */
Active g_e0, g_e1, g_e2, g_e3, g_e4; Active* const g_p[5] = { &g_e0, &g_e1, &g_e2, &g_e3, &g_e4 };
int64_t g_topx[N]; int g_cnt[N][N]; int g_topx_n[N];
static int eidx(const Active* e) { return e == &g_e0 ? 0 : (N > 1 && e == &g_e1) ? 1 : (N > 2 && e == &g_e2) ? 2 : (N > 3 && e == &g_e3) ? 3 : (N > 4 && e == &g_e4) ? 4 : -1; }
static int64_t TopX__p(const Active* e, int64_t y) { int k = eidx(e); __CPROVER_assert(k >= 0, "TopX on an edge of the AEL"); g_topx_n[k]++; return g_topx[k]; }
#define TopX(e, y) TopX__p(&(e), y)
static void AddNewIntersectNode__p(ClipperBase* self, Active* e1, Active* e2, int64_t top_y) { int a = eidx(e1), b = eidx(e2); __CPROVER_assert(a >= 0 && b >= 0 && a != b, "nodes pair two different edges of the AEL"); g_cnt[a][b]++; self->intersect_nodes_.size++; }
#define AddNewIntersectNode(s, a, b, y) AddNewIntersectNode__p(s, &(a), &(b), y)
//@assume A5 (C01_intersectlist): TopX hands over an arbitrary x per edge (its value is C10_topx's subject); AddNewIntersectNode is a counting stub (its own contract: C01_intersectnode).
//@extract file=CPP/Clipper2Lib/src/clipper.engine.cpp func=ExtractFromSEL
//@end
//@extract file=CPP/Clipper2Lib/src/clipper.engine.cpp func=Insert1Before2InSEL
//@end
//@extract file=CPP/Clipper2Lib/src/clipper.engine.cpp func=ClipperBase::AdjustCurrXAndCopyToSEL self=ClipperBase
//@end
//@extract file=CPP/Clipper2Lib/src/clipper.engine.cpp func=ClipperBase::BuildIntersectList self=ClipperBase selfcalls=AdjustCurrXAndCopyToSEL,AddNewIntersectNode
//@sub /self->intersect_nodes_\.size\(\)/self->intersect_nodes_.size/ min=0
//@end
unsigned nondet_uint(void); int64_t nondet_i64(void);
void h_BIL(void)
{
  ClipperBase cb; int64_t y = nondet_i64();
  for (int i = 0; i < N; ++i) {
    g_p[i]->prev_in_ael = i ? g_p[i - 1] : NULL; g_p[i]->next_in_ael = (i + 1 < N) ? g_p[i + 1] : NULL;
    g_p[i]->prev_in_sel = NULL; g_p[i]->next_in_sel = NULL; g_p[i]->jump = NULL; g_p[i]->join_with = JoinWith_NoJoin;
    g_p[i]->curr_x = nondet_i64(); g_topx[i] = nondet_i64(); g_topx_n[i] = 0;
    for (int j = 0; j < N; ++j) g_cnt[i][j] = 0;
  }
  cb.actives_ = &g_e0; cb.sel_ = NULL; cb.intersect_nodes_.size = 0;
  bool r = BuildIntersectList(&cb, y);
  unsigned inversions = 0;
  for (int i = 0; i < N; ++i) for (int j = i + 1; j < N; ++j) {
    bool inv = g_topx[j] < g_topx[i];
    if (inv) inversions++;
    __CPROVER_assert(g_cnt[i][j] == (inv ? 1 : 0), "one node (left edge first) exactly when the pair changes order inside the scanbeam");
    __CPROVER_assert(g_cnt[j][i] == 0, "never with the right edge first");
  }
  __CPROVER_assert(r == (inversions > 0) && cb.intersect_nodes_.size == inversions, "the result says whether there is any crossing");
  /* the SEL: a permutation of the AEL sorted by x at the top, consistent links */
  __CPROVER_assert(cb.sel_ != NULL && cb.sel_->prev_in_sel == NULL, "sel_ is the head");
  unsigned seen = 0, n = 0; Active* p = cb.sel_;
  for (int k = 0; k < N && p; ++k) {
    int q = eidx(p); __CPROVER_assert(q >= 0 && !(seen & (1u << q)), "every edge once"); seen |= 1u << q; ++n;
    __CPROVER_assert(p->curr_x == g_topx[q] && g_topx_n[q] == 1, "x at the top of the scanbeam, computed once");
    if (p->next_in_sel) { __CPROVER_assert(p->next_in_sel->prev_in_sel == p, "links consistent"); __CPROVER_assert(p->curr_x <= p->next_in_sel->curr_x, "sorted by x at the top"); }
    p = p->next_in_sel;
  }
  __CPROVER_assert(n == N && p == NULL, "the SEL holds all edges and ends");
  for (int i = 0; i < N; ++i) __CPROVER_assert(g_p[i]->prev_in_ael == (i ? g_p[i - 1] : NULL) && g_p[i]->next_in_ael == ((i + 1 < N) ? g_p[i + 1] : NULL), "the AEL itself is untouched");
  VF_CANARY();
}
//@run name=BuildIntersectList.ael2 entry=h_BIL defs=N=2 unwind=4 unwindset=BuildIntersectList.0:2,BuildIntersectList.1:3,BuildIntersectList.2:2,BuildIntersectList.3:2 flags="--bounds-check --pointer-check" timeout=300 bounded="AEL of 2 edges, arbitrary x at the top"
//@run name=BuildIntersectList.ael3 entry=h_BIL defs=N=3 unwind=5 unwindset=BuildIntersectList.0:3,BuildIntersectList.1:4,BuildIntersectList.2:3,BuildIntersectList.3:3 flags="--bounds-check --pointer-check" timeout=600 bounded="AEL of 3 edges, arbitrary x at the top"
//@run name=BuildIntersectList.ael4 entry=h_BIL defs=N=4 unwind=6 unwindset=BuildIntersectList.0:4,BuildIntersectList.1:5,BuildIntersectList.2:3,BuildIntersectList.3:4 flags="--bounds-check --pointer-check" timeout=600 bounded="AEL of 4 edges, arbitrary x at the top"
//@run name=BuildIntersectList.ael5 entry=h_BIL defs=N=5 unwind=7 unwindset=BuildIntersectList.0:5,BuildIntersectList.1:6,BuildIntersectList.2:4,BuildIntersectList.3:4 flags="--bounds-check --pointer-check" timeout=1800 tier=thorough bounded="AEL of 5 edges, arbitrary x at the top"
