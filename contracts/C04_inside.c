//@unit C04_inside
//@props C04
//@safetyprops C10 C14
//@desc Path1InsidePath2, the containment vote behind every owner decision (RecursiveCheckOwners, CheckSplitOwner, ProcessHorzJoins, DoSplitOp) — BOUNDED (path1 ring of 1..4 nodes; PointInOpPolygon's verdict per vertex arbitrary): the vertices of path1 vote (outside +1, inside -1, on the boundary abstains), a margin of two decides immediately; otherwise, after every vertex has voted exactly once, the midpoint of path1's bounds is tested against path2 and path1 counts as inside unless that midpoint is strictly outside - a midpoint ON the boundary is inside (touching holes).
#include "vf.h"
//@include engine_types.inc
//@enum file=CPP/Clipper2Lib/include/clipper2/clipper.core.h name=PointInPolygonResult
#define NMAX 4
unsigned nondet_uint(void);
int g_tally; int g_votes; PointInPolygonResult g_pip; int g_pip_calls; OutPt* g_pip_path_arg; OutPt* g_mid_arg;
/* one vote per vertex of path1: outside +1, inside -1, on the boundary abstains */
static PointInPolygonResult PointInOpPolygon(Point64 pt, OutPt* op)
{ PointInPolygonResult r = (PointInPolygonResult)(nondet_uint() % 3); if (r == PointInPolygonResult_IsOutside) g_tally++; else if (r == PointInPolygonResult_IsInside) g_tally--; g_votes++; return r; }
typedef struct { OutPt* from; } CleanPath; typedef struct { OutPt* of; } BoundsTok;
static CleanPath GetCleanPath(OutPt* op) { CleanPath c = { op }; return c; }
static BoundsTok GetBounds(CleanPath p) { BoundsTok b = { p.from }; return b; }
static Point64 vf_MidPoint(BoundsTok b) { g_mid_arg = b.of; Point64 p = { 0, 0 }; return p; }
static PointInPolygonResult PointInPolygon(Point64 pt, CleanPath path) { g_pip_calls++; g_pip_path_arg = path.from; return g_pip; }
#define Path64 CleanPath
//@extract file=CPP/Clipper2Lib/src/clipper.engine.cpp func=Path1InsidePath2
//@sub /GetBounds\(GetCleanPath\(op1\)\)\.MidPoint\(\)/vf_MidPoint(GetBounds(GetCleanPath(op1)))/
//@sub /std::abs\(/abs(/ min=0
//@end
#undef Path64
void h_P1P2(void)
{
  OutPt a[NMAX], b; unsigned n = nondet_uint(); __CPROVER_assume(n >= 1 && n <= NMAX);
  for (unsigned i = 0; i < NMAX; ++i) { a[i].next = &a[(i + 1) % n]; a[i].prev = &a[(i + n - 1) % n]; }
  g_tally = 0; g_votes = 0; g_pip_calls = 0; g_pip = (PointInPolygonResult)(nondet_uint() % 3);
  bool r = Path1InsidePath2(&a[0], &b);
  /* vertices vote; a margin of two decides at once */
  if (g_tally <= -2) __CPROVER_assert(r == true && g_pip_calls == 0, "two more vertices inside than outside: inside");
  else if (g_tally >= 2) __CPROVER_assert(r == false && g_pip_calls == 0, "two more vertices outside than inside: not inside");
  else {
    /* equivocal (every vertex has voted): the midpoint of path1's bounds decides, and a midpoint ON path2's boundary counts as inside (touching holes) */
    __CPROVER_assert(g_votes == (int)n, "equivocal only after every vertex of path1 has voted");
    __CPROVER_assert(g_pip_calls == 1 && g_mid_arg == &a[0] && g_pip_path_arg == &b, "midpoint of path1's bounds tested against path2");
    __CPROVER_assert(r == (g_pip != PointInPolygonResult_IsOutside), "inside unless the midpoint is strictly outside");
  }
  __CPROVER_assert(g_votes <= (int)n, "no vertex votes twice");
  VF_CANARY();
}
//@run name=Path1InsidePath2.bounded entry=h_P1P2 unwind=7 flags=SAFETY timeout=300 bounded="path1 ring of 1..4 nodes (votes of PointInOpPolygon arbitrary)"
//@assume A5 (C04_inside): PointInOpPolygon, GetCleanPath, GetBounds/MidPoint and PointInPolygon are stubs (PointInPolygon itself: C18_pip).
