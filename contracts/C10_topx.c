//@unit C10_topx
//@props C10 C13 C01 C02
//@safetyprops C14
//@desc GetDx and TopX (slope and x-at-scanline of an edge), both build configurations of nothing: integer arithmetic only. GetDx: no signed overflow for |coordinates| < 2^62, horizontal edges give -/+DBL_MAX by direction, never NaN. TopX: returns the END POINT exactly at currentY == top.y and currentY == bot.y (what C02/C18 use: scanline crossings at vertices are exact) and top.x for vertical edges; between the end points the integer subtraction cannot overflow; the double->int64 conversion and the final addition are safe GIVEN the assumed bound on the rounded product (A-float).
#include "vf.h"
//@include engine_types.inc
#define C62 ((int64_t)1 << 62)
#ifdef WIDE
#define IN62(v) ((v) >= -C62 && (v) <= C62)
#else
#define IN62(v) ((v) > -C62 && (v) < C62)
#endif
/* x range for TopX: |x| <= 2^61, so that top.x - bot.x (+ 2^12) converts back to int64_t; nearer to 2^62 the rounded product can reach 2^63 (not decided here) */
#define IN61(v) ((v) >= -(C62 / 2) && (v) <= C62 / 2)
/* A-float: r = nearbyint(dx * (currentY - bot.y)) with dx = (top.x - bot.x) / (top.y - bot.y) and currentY between the end points has the sign of
   top.x - bot.x (or is 0) and |r| <= |top.x - bot.x| + 2^12 (two roundings of relative size 2^-53 on magnitudes < 2^63) */
int64_t g_ri;
double vf_fmul_d(double a, double b)
__CPROVER_ensures(1)
__CPROVER_assigns();
double vf_fdiv_d(double a, double b)
__CPROVER_ensures(1)
__CPROVER_assigns();
/* only floating-point products/quotients are abstracted; integer ones stay the machine operation (overflow-checked) */
#define vf_fmul(a, b) _Generic((a) * (b), double: vf_fmul_d((double)(a), (double)(b)), default: (a) * (b))
#define vf_fdiv(a, b) _Generic((a) / (b), double: vf_fdiv_d((double)(a), (double)(b)), default: (a) / (b))
double vf_nearbyint(double v)
__CPROVER_ensures(__CPROVER_return_value == (double)g_ri)
__CPROVER_assigns();
//@extract file=CPP/Clipper2Lib/src/clipper.engine.cpp func=GetDx byval=pt1,pt2
__CPROVER_requires(IN62(pt1.x) && IN62(pt1.y) && IN62(pt2.x) && IN62(pt2.y))
__CPROVER_ensures(!__CPROVER_isnand(__CPROVER_return_value))
__CPROVER_ensures(pt1.y == pt2.y ==> __CPROVER_return_value == (pt2.x > pt1.x ? -1.7976931348623157e308 : 1.7976931348623157e308))
__CPROVER_ensures(pt1.y != pt2.y ==> (__CPROVER_return_value > -0x1p64 && __CPROVER_return_value < 0x1p64))
__CPROVER_ensures((pt1.y != pt2.y && pt1.x == pt2.x) ==> __CPROVER_return_value == 0.0)
__CPROVER_assigns()
//@end
//@extract file=CPP/Clipper2Lib/src/clipper.engine.cpp func=TopX byptr=ae
//@pysub fmul_all
//@sub /\bnearbyint\(/vf_nearbyint(/
__CPROVER_requires(__CPROVER_is_fresh(ae, sizeof(*ae)) && IN61(ae->bot.x) && IN62(ae->bot.y) && IN61(ae->top.x) && IN62(ae->top.y) && ae->top.y <= ae->bot.y)
__CPROVER_requires(ae->top.y <= currentY && currentY <= ae->bot.y)
__CPROVER_requires(ae->top.x >= ae->bot.x ? (g_ri >= 0 && g_ri <= ae->top.x - ae->bot.x + 4096) : (g_ri <= 0 && g_ri >= ae->top.x - ae->bot.x - 4096))
__CPROVER_ensures(currentY == ae->top.y ==> __CPROVER_return_value == ae->top.x)
__CPROVER_ensures((currentY == ae->bot.y && currentY != ae->top.y) ==> __CPROVER_return_value == ae->bot.x)
__CPROVER_ensures(ae->top.x == ae->bot.x ==> __CPROVER_return_value == ae->top.x)
__CPROVER_ensures(__CPROVER_return_value >= VF_min(ae->bot.x, ae->top.x) - 8192 && __CPROVER_return_value <= VF_max(ae->bot.x, ae->top.x) + 8192)
__CPROVER_assigns()
//@end
void h_GetDx(void) { Point64 a, b; GetDx(a, b); VF_CANARY(); }
void h_TopX(void) { Active* e; int64_t y; TopX(e, y); VF_CANARY(); }
//@run name=GetDx entry=h_GetDx enforce=GetDx flags=SAFETY timeout=300
//@run name=TopX entry=h_TopX enforce=TopX replace=vf_fmul_d,vf_fdiv_d,vf_nearbyint flags=SAFETY solver=cadical timeout=300
//@assume A-float (TopX): the rounded product dx * (currentY - bot.y) is an assumed value with the sign of top.x - bot.x and magnitude at most |top.x - bot.x| + 2^12 (floating-point multiplication/division is beyond the installed back ends); everything else in TopX and GetDx is proved.
