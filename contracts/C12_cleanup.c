//@unit C12_cleanup
//@props C12
//@safetyprops C14
//@desc ClipperBase::CleanUp / Clear / Reset / AddPaths: what each resets and — through the assigns clause, which CBMC checks on every write — that they touch nothing else. CleanUp (run at the end of every Execute) empties exactly the per-execution scratch state and leaves added paths and their bookkeeping alone; Clear additionally drops the paths and resets the sorted/open flags; Reset re-arms the sweep; AddPaths invalidates the sort flag, so paths added after an Execute are seen by the next one.
#include "vf.h"
//@include engine_types.inc
#define EMPTY(v) ((v).size == 0)
void DeleteEdges(ClipperBase* self, Active** e)
__CPROVER_requires(1) __CPROVER_ensures(*e == NULL) __CPROVER_assigns(*e);
void DisposeAllOutRecs(ClipperBase* self)
__CPROVER_requires(1) __CPROVER_ensures(EMPTY(self->outrec_list_)) __CPROVER_assigns(self->outrec_list_);
void DisposeVerticesAndLocalMinima(ClipperBase* self)
__CPROVER_requires(1) __CPROVER_ensures(EMPTY(self->minima_list_) && EMPTY(self->vertex_lists_)) __CPROVER_assigns(self->minima_list_, self->vertex_lists_);
#define SCRATCH_CLEAN(s) ((s)->actives_ == NULL && EMPTY((s)->scanline_list_) && EMPTY((s)->intersect_nodes_) && EMPTY((s)->outrec_list_) && EMPTY((s)->horz_seg_list_) && EMPTY((s)->horz_join_list_))
//@assume A5: DeleteEdges, DisposeAllOutRecs, DisposeVerticesAndLocalMinima, AddPaths_, stable_sort and the scanline insertion loop of Reset are stubs (their effect on the containers they own is assumed: "empties it").

#ifndef UNIT_CLEAR
//@extract file=CPP/Clipper2Lib/src/clipper.engine.cpp func=ClipperBase::CleanUp self=ClipperBase vec=intersect_nodes_,horz_seg_list_,horz_join_list_ selfcalls=DeleteEdges,DisposeAllOutRecs
//@sub /self->scanline_list_ = std::priority_queue<int64_t>\(\);/VF_CLEAR(self->scanline_list_);/
//@sub /DeleteEdges\(self, self->actives_\)/DeleteEdges(self, &self->actives_)/
__CPROVER_requires(__CPROVER_is_fresh(self, sizeof(*self)))
__CPROVER_ensures(SCRATCH_CLEAN(self))
/* frame: exactly the per-execution scratch members (added paths, flags and options are not touched) */
__CPROVER_assigns(self->actives_, self->scanline_list_, self->intersect_nodes_, self->outrec_list_, self->horz_seg_list_, self->horz_join_list_)
//@end
void h_CleanUp(void) { ClipperBase* s; CleanUp(s); VF_CANARY(); }
#else
/* CleanUp's contract as proved above */
void CleanUp(ClipperBase* self)
__CPROVER_requires(1)
__CPROVER_ensures(SCRATCH_CLEAN(self))
__CPROVER_assigns(self->actives_, self->scanline_list_, self->intersect_nodes_, self->outrec_list_, self->horz_seg_list_, self->horz_join_list_);
//@extract file=CPP/Clipper2Lib/src/clipper.engine.cpp func=ClipperBase::Clear self=ClipperBase selfcalls=CleanUp,DisposeVerticesAndLocalMinima
//@sub /self->minima_list_\.begin\(\)/((size_t)0)/
__CPROVER_requires(__CPROVER_is_fresh(self, sizeof(*self)))
__CPROVER_ensures(SCRATCH_CLEAN(self) && EMPTY(self->minima_list_) && EMPTY(self->vertex_lists_) && self->current_locmin_iter_ == 0 && !self->minima_list_sorted_ && !self->has_open_paths_)
__CPROVER_assigns(self->actives_, self->scanline_list_, self->intersect_nodes_, self->outrec_list_, self->horz_seg_list_, self->horz_join_list_,
   self->minima_list_, self->vertex_lists_, self->current_locmin_iter_, self->minima_list_sorted_, self->has_open_paths_)
//@end
void h_Clear(void) { ClipperBase* s; Clear(s); VF_CANARY(); }
#endif

bool g_sorted_called, g_scanlines_called;
void vf_stable_sort_minima(ClipperBase* self) __CPROVER_requires(1) __CPROVER_ensures(g_sorted_called == true) __CPROVER_assigns(g_sorted_called);
void vf_insert_all_scanlines(ClipperBase* self) __CPROVER_requires(1) __CPROVER_ensures(g_scanlines_called) __CPROVER_assigns(g_scanlines_called, self->scanline_list_);
//@extract file=CPP/Clipper2Lib/src/clipper.engine.cpp func=ClipperBase::Reset self=ClipperBase
//@presub /std::stable_sort\(minima_list_\.begin\(\), minima_list_\.end\(\), LocMinSorter\(\)\);[^\n]*/vf_stable_sort_minima(self);/
//@presub /LocalMinimaList::const_reverse_iterator i;\s*for \(i = minima_list_\.rbegin\(\); i != minima_list_\.rend\(\); \+\+i\)\s*InsertScanline\(\(\*i\)->vertex->pt\.y\);/vf_insert_all_scanlines(self);/
//@sub /self->minima_list_\.begin\(\)/((size_t)0)/
__CPROVER_requires(__CPROVER_is_fresh(self, sizeof(*self)) && !g_sorted_called && !g_scanlines_called && BOOL_OK(self->minima_list_sorted_))
__CPROVER_ensures(self->minima_list_sorted_ && g_sorted_called == !__CPROVER_old(self->minima_list_sorted_) && g_scanlines_called)
__CPROVER_ensures(self->current_locmin_iter_ == 0 && self->actives_ == NULL && self->sel_ == NULL && self->succeeded_)
__CPROVER_assigns(self->minima_list_sorted_, self->current_locmin_iter_, self->actives_, self->sel_, self->succeeded_, self->scanline_list_, g_sorted_called, g_scanlines_called)
//@end
void h_Reset(void) { ClipperBase* s; Reset(s); VF_CANARY(); }

int g_addpaths_polytype; bool g_addpaths_open, g_addpaths_called; long g_addpaths_tok;
typedef struct { long tok; size_t size; } PathsTok;
void AddPaths_(PathsTok paths, PathType polytype, bool is_open, VF_Vec* vertexLists, VF_Vec* locMinList)
__CPROVER_requires(1)
__CPROVER_ensures(g_addpaths_called && g_addpaths_polytype == (int)polytype && g_addpaths_open == is_open && g_addpaths_tok == paths.tok)
__CPROVER_assigns(g_addpaths_called, g_addpaths_polytype, g_addpaths_open, g_addpaths_tok, *vertexLists, *locMinList);
//@extract file=CPP/Clipper2Lib/src/clipper.engine.cpp func=ClipperBase::AddPaths self=ClipperBase byval=paths
//@sub /const Paths64 paths/const PathsTok paths/
//@sub /AddPaths_\(paths, polytype, is_open, self->vertex_lists_, self->minima_list_\)/AddPaths_(paths, polytype, is_open, &self->vertex_lists_, &self->minima_list_)/
__CPROVER_requires(__CPROVER_is_fresh(self, sizeof(*self)) && !g_addpaths_called && BOOL_OK(self->has_open_paths_))
/* the minima must be re-sorted before the next Execute; open paths are remembered; nothing else changes */
__CPROVER_ensures(!self->minima_list_sorted_ && self->has_open_paths_ == (__CPROVER_old(self->has_open_paths_) || is_open))
__CPROVER_ensures(g_addpaths_called && g_addpaths_polytype == (int)polytype && g_addpaths_open == is_open && g_addpaths_tok == paths.tok)
__CPROVER_assigns(self->minima_list_sorted_, self->has_open_paths_, self->vertex_lists_, self->minima_list_, g_addpaths_called, g_addpaths_polytype, g_addpaths_open, g_addpaths_tok)
//@end
void h_AddPaths(void) { ClipperBase* s; PathsTok p; PathType t; bool o; AddPaths(s, p, t, o); VF_CANARY(); }

//@run name=CleanUp entry=h_CleanUp enforce=CleanUp replace=DeleteEdges,DisposeAllOutRecs flags="--bounds-check --pointer-check" timeout=120
//@run name=Clear entry=h_Clear enforce=Clear replace=CleanUp,DisposeVerticesAndLocalMinima defs=UNIT_CLEAR flags="--bounds-check --pointer-check" timeout=120
//@run name=Reset entry=h_Reset enforce=Reset replace=vf_stable_sort_minima,vf_insert_all_scanlines flags="--bounds-check --pointer-check" timeout=120 props=C12,C11,C14
//@run name=AddPaths entry=h_AddPaths enforce=AddPaths replace=AddPaths_ flags="--bounds-check --pointer-check" timeout=120 props=C12,C01,C14
