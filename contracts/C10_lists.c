//@unit C10_lists
//@props C10 C04
//@safetyprops C14
//@desc List and graph maintenance the sweep's termination and memory safety rest on. SetOwner - BOUNDED (any acyclic owner graph over 4 OutRecs, any pair outrec/new_owner, points present or not): afterwards outrec's owner is new_owner, only those two are re-linked, and the owner graph is still ACYCLIC (every `while (x->owner)` walk - GetRealOutRec, RecursiveCheckOwners, IsValidOwner - ends). DeleteFromAEL - list of 1..3 edges: an edge that is in the list is unlinked (both directions, head updated) and freed exactly once; an edge that is not (already deleted) is left alone. SwapPositionsInAEL - list of 2..4 edges, any adjacent pair: exactly those two change places, every link stays consistent in both directions, the head is updated. InsertLeftEdge - list of 0..4 edges, IsValidAelOrder a stub answering per resident: the new edge is linked in right after the longest run of residents (from the head) that must stay on its left, never between the two edges of a joined pair, head updated, links consistent. InsertRightEdge - list of 1..4 edges: the new edge sits immediately to the right of e, all links consistent.
#include "vf.h"
//@include engine_types.inc
unsigned nondet_uint(void); bool nondet_bool(void);
#define NO 4
OutRec g_or[NO]; OutPt g_somepts;
/* ---------- SetOwner: the owner graph stays acyclic (the while (outrec->owner) walks of RecursiveCheckOwners / GetRealOutRec terminate) ---------- */
//@extract file=CPP/Clipper2Lib/src/clipper.engine.cpp func=SetOwner ifdef=OWNER
//@end
#ifdef OWNER
static int chain_len(OutRec* o) { int n = 0; for (int k = 0; k <= NO; ++k) { if (!o) return n; o = o->owner; n++; } return -1; /* longer than NO: a cycle */ }
void h_SetOwner(void)
{
  /* arbitrary ACYCLIC owner graph over NO OutRecs: owner index is larger than own index (or null) */
  for (unsigned i = 0; i < NO; ++i) { unsigned ow = nondet_uint(); g_or[i].owner = (ow > i && ow < NO) ? &g_or[ow] : NULL; g_or[i].pts = nondet_bool() ? &g_somepts : NULL; }
  /* ... seen through an arbitrary renaming (the function does not know the order) */
  unsigned a = nondet_uint(), b = nondet_uint(); __CPROVER_assume(a < NO && b < NO && a != b);
  OutRec* owner_before[NO]; for (int i = 0; i < NO; ++i) owner_before[i] = g_or[i].owner;
  SetOwner(&g_or[a], &g_or[b]);
  __CPROVER_assert(g_or[a].owner == &g_or[b], "outrec's owner is the new owner");
  for (int i = 0; i < NO; ++i) __CPROVER_assert(chain_len(&g_or[i]) >= 0, "no owner cycle: every owner chain ends");
  for (int i = 0; i < NO; ++i) if (i != (int)a && i != (int)b) __CPROVER_assert(g_or[i].owner == owner_before[i], "only outrec and new_owner are re-linked");
  VF_CANARY();
}
#endif
/* ---------- DeleteFromAEL: unlink one edge from the active edge list ---------- */
#ifdef AEL
Active g_act[3]; bool g_freed[3]; int g_nfree;
#define VF_DELETE_E(pe) do { for (int q_ = 0; q_ < 3; ++q_) if ((pe) == &g_act[q_]) { __CPROVER_assert(!g_freed[q_], "no double delete"); g_freed[q_] = true; } g_nfree++; } while (0)
//@extract file=CPP/Clipper2Lib/src/clipper.engine.cpp func=ClipperBase::DeleteFromAEL self=ClipperBase byptr=e ifdef=AEL
//@sub /delete\s*&\s*\(\*e\);/VF_DELETE_E(e);/
//@sub /&\(\*e\)/e/ min=0
//@end
void h_Del(void)
{
  ClipperBase cb; unsigned n = nondet_uint(); __CPROVER_assume(n >= 1 && n <= 3);
  for (unsigned i = 0; i < 3; ++i) { g_act[i].prev_in_ael = (i > 0 && i < n) ? &g_act[i - 1] : NULL; g_act[i].next_in_ael = (i + 1 < n) ? &g_act[i + 1] : NULL; g_freed[i] = false; }
  cb.actives_ = &g_act[0]; g_nfree = 0;
  unsigned d = nondet_uint(); __CPROVER_assume(d < 3);
  bool in_list = d < n;
  DeleteFromAEL(&cb, &g_act[d]);
  if (!in_list) __CPROVER_assert(g_nfree == 0 && cb.actives_ == &g_act[0], "an edge that is not in the list (already deleted) is left alone");
  else {
    __CPROVER_assert(g_nfree == 1 && g_freed[d], "the edge is freed exactly once");
    /* the list is the old list without d, links consistent in both directions */
    Active* p = cb.actives_; Active* prev = NULL; unsigned cnt = 0;
    for (unsigned i = 0; i < 3; ++i) if (i < n && i != d) {
      __CPROVER_assert(p == &g_act[i] && p->prev_in_ael == prev, "remaining edges keep their order and are linked both ways");
      prev = p; p = p->next_in_ael; cnt++;
    }
    __CPROVER_assert(p == NULL && cnt == n - 1, "and the list ends after them");
  }
  VF_CANARY();
}
#endif
/* ---------- SwapPositionsInAEL: two adjacent edges change places ---------- */
#ifdef SWAP
Active g_a4[4];
//@extract file=CPP/Clipper2Lib/src/clipper.engine.cpp func=ClipperBase::SwapPositionsInAEL self=ClipperBase byptr=e1,e2 ifdef=SWAP
//@sub /&\(\*e1\)/e1/ min=0
//@sub /&\(\*e2\)/e2/ min=0
//@end
void h_Swap(void)
{
  ClipperBase cb; unsigned n = nondet_uint(); __CPROVER_assume(n >= 2 && n <= 4);
  for (unsigned i = 0; i < 4; ++i) { g_a4[i].prev_in_ael = (i > 0 && i < n) ? &g_a4[i - 1] : NULL; g_a4[i].next_in_ael = (i + 1 < n) ? &g_a4[i + 1] : NULL; }
  cb.actives_ = &g_a4[0];
  unsigned k = nondet_uint(); __CPROVER_assume(k < n - 1);       /* precondition: e1 is immediately to the left of e2 */
  SwapPositionsInAEL(&cb, &g_a4[k], &g_a4[k + 1]);
  /* the list is the old list with positions k and k+1 exchanged, linked both ways, head updated */
  Active* p = cb.actives_; Active* prev = NULL;
  for (unsigned i = 0; i < 4; ++i) if (i < n) {
    unsigned want = (i == k) ? k + 1 : (i == k + 1) ? k : i;
    __CPROVER_assert(p == &g_a4[want] && p->prev_in_ael == prev, "edges k and k+1 have changed places, everything else keeps its place, links consistent both ways");
    prev = p; p = p->next_in_ael;
  }
  __CPROVER_assert(p == NULL, "and the list ends there");
  VF_CANARY();
}
#endif
/* ---------- InsertRightEdge: the right bound of a local minimum goes immediately right of the left bound ---------- */
#ifdef INSR
Active g_a4[4]; Active g_new;
//@extract file=CPP/Clipper2Lib/src/clipper.engine.cpp func=InsertRightEdge byptr=e,e2 ifdef=INSR
//@sub /&\(\*e2\)/e2/ min=0
//@sub /&\(\*e\)/e/ min=0
//@end
void h_InsR(void)
{
  unsigned n = nondet_uint(); __CPROVER_assume(n >= 1 && n <= 4);
  for (unsigned i = 0; i < 4; ++i) { g_a4[i].prev_in_ael = (i > 0 && i < n) ? &g_a4[i - 1] : NULL; g_a4[i].next_in_ael = (i + 1 < n) ? &g_a4[i + 1] : NULL; }
  unsigned k = nondet_uint(); __CPROVER_assume(k < n);
  InsertRightEdge(&g_a4[k], &g_new);
  Active* p = &g_a4[0]; Active* prev = NULL;
  for (unsigned i = 0; i < 4; ++i) if (i < n) {
    __CPROVER_assert(p == &g_a4[i] && p->prev_in_ael == prev, "old edges keep their order, links consistent both ways");
    prev = p; p = p->next_in_ael;
    if (i == k) { __CPROVER_assert(p == &g_new && p->prev_in_ael == prev, "the new edge sits immediately to the right of e"); prev = p; p = p->next_in_ael; }
  }
  __CPROVER_assert(p == NULL, "and the list ends there");
  VF_CANARY();
}
#endif
/* ---------- InsertLeftEdge: where a new edge goes in the active edge list ---------- */
#ifdef INSL
Active g_a4[4]; Active g_new; bool g_valid[4];
static bool IsValidAelOrder__p(const Active* resident, const Active* newcomer) { for (int i = 0; i < 4; ++i) if (resident == &g_a4[i]) return g_valid[i]; return nondet_bool(); }
#define IsValidAelOrder(r, n) IsValidAelOrder__p(&(r), &(n))
//@extract file=CPP/Clipper2Lib/src/clipper.engine.cpp func=ClipperBase::InsertLeftEdge self=ClipperBase byptr=e ifdef=INSL
//@sub /&\(\*e\)/e/ min=0
//@end
void h_InsL(void)
{
  ClipperBase cb; unsigned n = nondet_uint(); __CPROVER_assume(n <= 4);
  for (unsigned i = 0; i < 4; ++i) { g_a4[i].prev_in_ael = (i > 0 && i < n) ? &g_a4[i - 1] : NULL; g_a4[i].next_in_ael = (i + 1 < n) ? &g_a4[i + 1] : NULL; g_valid[i] = nondet_bool(); g_a4[i].join_with = JoinWith_NoJoin; }
  /* optionally one joined pair (k, k+1): pairing invariant of C10_joins */
  unsigned jk = nondet_uint(); if (jk < 3 && jk + 1 < n) { g_a4[jk].join_with = JoinWith_Right; g_a4[jk + 1].join_with = JoinWith_Left; }
  cb.actives_ = n ? &g_a4[0] : NULL;
  InsertLeftEdge(&cb, &g_new);
  /* expected position: after the longest run of residents, from the head, that must stay left of the newcomer; never between the two edges of a joined pair */
  unsigned p = 0; for (unsigned i = 0; i < 4; ++i) if (i < n && p == i && g_valid[i]) p = i + 1;
  if (p > 0 && g_a4[p - 1].join_with == JoinWith_Right) p = p + 1;
  Active* q = cb.actives_; Active* prev = NULL; unsigned seen = 0;
  for (unsigned i = 0; i <= 4; ++i) if (i <= n) {
    if (i == p) { __CPROVER_assert(q == &g_new && q->prev_in_ael == prev, "the new edge sits right after the residents that must stay on its left (and not inside a joined pair)"); prev = q; q = q->next_in_ael; }
    if (i < n) { __CPROVER_assert(q == &g_a4[i] && q->prev_in_ael == prev, "residents keep their order, links consistent both ways"); prev = q; q = q->next_in_ael; }
  }
  __CPROVER_assert(q == NULL, "and the list ends there");
  VF_CANARY();
}
#endif
//@run name=SetOwner.bounded entry=h_SetOwner defs=OWNER unwind=7 flags=SAFETY solver=cadical timeout=300 bounded="owner graph over 4 OutRecs (any acyclic graph, any pair outrec/new_owner)"
//@run name=DeleteFromAEL entry=h_Del defs=AEL unwind=5 flags=SAFETY solver=cadical timeout=120 bounded="active edge list of 1..3 edges (the function is loop-free; the bound is on the list the harness builds)"
//@run name=SwapPositionsInAEL entry=h_Swap defs=SWAP unwind=6 flags=SAFETY solver=cadical timeout=120 bounded="active edge list of 2..4 edges, any adjacent pair (the function is loop-free)"
//@run name=InsertRightEdge entry=h_InsR defs=INSR unwind=6 flags=SAFETY solver=cadical timeout=120 bounded="active edge list of 1..4 edges, any position (the function is loop-free)"
//@run name=InsertLeftEdge entry=h_InsL defs=INSL unwind=7 flags=SAFETY solver=cadical timeout=300 bounded="active edge list of 0..4 edges, IsValidAelOrder answering arbitrarily per resident, at most one joined pair" props=C10,C01,C13
