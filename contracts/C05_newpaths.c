//@unit C05_newpaths
//@props C05 C01
//@safetyprops C10 C14
//@desc How a new output contour is started (loop-free; IsOpen is the real body; NewOutRec, GetPrevHotEdge, SetOwner, OutrecIsAscending are stubs). StartOpenPath (C05): a fresh OutRec marked OPEN, the edge is its front edge when it runs in the path's direction (wind_dx > 0) and its back edge otherwise - the other side stays empty -, the edge becomes hot, and the OutRec holds exactly one vertex, the given point. AddLocalMinPoly: both edges become hot on one fresh OutRec holding exactly one vertex at pt; an open edge pair makes an OPEN OutRec without owner whose front edge is the one running in the path's direction; a closed pair gets the two edges as its two sides (one front, one back - which is which decides the orientation and is the code's choice), and with a polytree and a hot edge to the left the tentative owner is that edge's OutRec, otherwise none.
#include "vf.h"
//@include engine_types.inc
unsigned nondet_uint(void); bool nondet_bool(void); int64_t nondet_i64(void);
OutRec g_neworec; int g_nnewor; OutPt g_newop; int g_nnewop; Active* g_prevhot; int g_setowner_n; OutRec* g_so_a; OutRec* g_so_b; bool g_asc;
static OutRec* NewOutRec(ClipperBase* s) { g_nnewor++; g_neworec.pts = NULL; g_neworec.is_open = false; g_neworec.owner = NULL; g_neworec.front_edge = NULL; g_neworec.back_edge = NULL; return &g_neworec; }
static OutPt* vf_new_outpt(Point64 pt, OutRec* o) { g_nnewop++; g_newop.pt = pt; g_newop.outrec = o; g_newop.next = &g_newop; g_newop.prev = &g_newop; return &g_newop; }
static Active* GetPrevHotEdge__p(const Active* e) { return g_prevhot; }
#define GetPrevHotEdge(e) GetPrevHotEdge__p(&(e))
static void SetOwner(OutRec* a, OutRec* b) { g_setowner_n++; g_so_a = a; g_so_b = b; a->owner = b; }
static bool OutrecIsAscending(const Active* e) { return g_asc; }
static void SetSides__p(OutRec* o, Active* s, Active* e) { o->front_edge = s; o->back_edge = e; }
#define SetSides(o, a, b) SetSides__p(&(o), &(a), &(b))
static inline bool Point64_eq(Point64 a, Point64 b) { return a.x == b.x && a.y == b.y; }
//@extract file=CPP/Clipper2Lib/src/clipper.engine.cpp func=IsOpen sig="const Active& e" byptr=e refmacro=1
//@end
//@extract file=CPP/Clipper2Lib/src/clipper.engine.cpp func=ClipperBase::StartOpenPath self=ClipperBase byptr=e byval=pt selfcalls=NewOutRec
//@sub /new OutPt\(/vf_new_outpt(/
//@sub /&\(\*e\)/e/ min=0
//@end
//@extract file=CPP/Clipper2Lib/src/clipper.engine.cpp func=ClipperBase::AddLocalMinPoly self=ClipperBase byptr=e1,e2 byval=pt selfcalls=NewOutRec
//@sub /new OutPt\(/vf_new_outpt(/
//@end
void h_Start(void)
{
  ClipperBase cb; Active e; LocalMinima lm; e.local_min = &lm; lm.is_open = true; e.wind_dx = nondet_bool() ? 1 : -1; e.outrec = NULL;
  Point64 pt; pt.x = nondet_i64(); pt.y = nondet_i64(); g_nnewor = g_nnewop = 0;
  OutPt* r = StartOpenPath(&cb, &e, pt);
  __CPROVER_assert(g_nnewor == 1 && e.outrec == &g_neworec && g_neworec.is_open, "a fresh OutRec marked open; the edge is hot on it");
  __CPROVER_assert(e.wind_dx > 0 ? (g_neworec.front_edge == &e && g_neworec.back_edge == NULL) : (g_neworec.back_edge == &e && g_neworec.front_edge == NULL), "front edge when the edge runs in the path's direction, back edge otherwise; the other side is empty");
  __CPROVER_assert(r == &g_newop && g_nnewop == 1 && g_neworec.pts == r && Point64_eq(r->pt, pt) && r->outrec == &g_neworec && r->next == r && r->prev == r, "exactly one vertex: the given point");
  VF_CANARY();
}
void h_LocMin(void)
{
  ClipperBase cb; Active e1, e2, ph; LocalMinima lm1; OutRec oph; e1.local_min = &lm1; lm1.is_open = nondet_bool(); e1.wind_dx = nondet_bool() ? 1 : -1; e1.outrec = NULL; e2.outrec = NULL;
  g_prevhot = nondet_bool() ? &ph : NULL; ph.outrec = &oph; g_asc = nondet_bool(); cb.using_polytree_ = nondet_bool(); bool is_new = nondet_bool();
  Point64 pt; pt.x = nondet_i64(); pt.y = nondet_i64(); g_nnewor = g_nnewop = g_setowner_n = 0;
  OutPt* r = AddLocalMinPoly(&cb, &e1, &e2, pt, is_new);
  __CPROVER_assert(g_nnewor == 1 && e1.outrec == &g_neworec && e2.outrec == &g_neworec, "both edges become hot on one fresh OutRec");
  __CPROVER_assert(r == &g_newop && g_nnewop == 1 && g_neworec.pts == r && Point64_eq(r->pt, pt) && r->outrec == &g_neworec, "holding exactly one vertex at pt");
  __CPROVER_assert((g_neworec.front_edge == &e1 && g_neworec.back_edge == &e2) || (g_neworec.front_edge == &e2 && g_neworec.back_edge == &e1), "the two edges are its two sides, one front, one back");
  if (lm1.is_open) __CPROVER_assert(g_neworec.is_open && g_neworec.owner == NULL && g_neworec.front_edge == (e1.wind_dx > 0 ? &e1 : &e2) && g_setowner_n == 0, "open pair: an open OutRec without owner, front edge = the edge running in the path's direction");
  else {
    __CPROVER_assert(!g_neworec.is_open, "closed pair: a closed OutRec");
    if (g_prevhot && cb.using_polytree_) __CPROVER_assert(g_setowner_n == 1 && g_so_a == &g_neworec && g_so_b == &oph, "polytree: tentative owner = OutRec of the hot edge to the left");
    else __CPROVER_assert(g_setowner_n == 0 && (g_prevhot != NULL || g_neworec.owner == NULL), "otherwise no owner is set");
  }
  VF_CANARY();
}
//@run name=StartOpenPath entry=h_Start unwind=3 flags="--bounds-check --pointer-check" solver=cadical timeout=120
//@run name=AddLocalMinPoly entry=h_LocMin unwind=3 flags="--bounds-check --pointer-check" solver=cadical timeout=120
//@assume A5 (C05_newpaths): NewOutRec and new OutPt are one-element pools; GetPrevHotEdge, OutrecIsAscending answer arbitrarily; SetOwner is a recording stub.
