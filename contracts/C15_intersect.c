//@unit C15_intersect
//@props C15
//@desc ClipperBase::IntersectEdges (loop-free, so the harness covers every path for all edge states): the body compiled with USINGZ and the body compiled without it are extracted from the same source lines and run from the same symbolic state (two crossing edges with arbitrary winding counts, hot/cold, open/closed, joined, front/back sides, all clip types and fill rules) with the same answers from the building calls (Split, SetSides, AddOutPt, StartOpenPath, AddLocalMaxPoly, AddLocalMinPoly, SwapOutrecs, FindEdgeWithMatchingLocMin are logging stubs; the edge predicates IsOpen/IsHotEdge/IsFront/IsJoined/GetPolyType/IsSamePolyType/IsOpenEnd are the real bodies). (1) Geometry: the USINGZ build makes exactly the same building calls with the same arguments in the same order and leaves the same winding counts, outrec links and sides. (2) Z accounting: with a callback installed every vertex created at the crossing is passed to SetZ exactly once together with the two crossing edges; without a callback SetZ is never called.
#include "vf.h"
#define USINGZ 1
//@include engine_types.inc
/* ---------- event log of the geometry-building calls and of SetZ ---------- */
enum { EV_SPLIT = 1, EV_SETSIDES, EV_ADDOUTPT, EV_STARTOPEN, EV_LOCMAX, EV_LOCMIN, EV_SWAP, EV_FINDLM, EV_SETZ };
typedef struct { int fn; const void* a; const void* b; const void* c; int64_t x, y; int flag; } Ev;
#define MAXEV 10
Ev g_log[MAXEV]; int g_nlog;
OutPt g_ops[4]; int g_nops;              /* OutPts created by this call (pool) */
bool g_choice[8]; int g_nchoice;         /* pre-drawn answers of the stubs that have a choice (AddLocalMaxPoly may return null, FindEdge... may find nothing) */
Active g_e3;                             /* the edge FindEdgeWithMatchingLocMin may return */
VF_ZCallback64 g_zcb;
static void vf_log(int fn, const void* a, const void* b, const void* c, int64_t x, int64_t y, int flag)
{ __CPROVER_assert(g_nlog < MAXEV, "event log capacity"); g_log[g_nlog].fn = fn; g_log[g_nlog].a = a; g_log[g_nlog].b = b; g_log[g_nlog].c = c; g_log[g_nlog].x = x; g_log[g_nlog].y = y; g_log[g_nlog].flag = flag; g_nlog++; }
static bool vf_choose(void) { __CPROVER_assert(g_nchoice < 8, "choice capacity"); return g_choice[g_nchoice++]; }
static OutPt* vf_newop(Point64 pt) { __CPROVER_assert(g_nops < 4, "op pool"); OutPt* r = &g_ops[g_nops++]; r->pt = pt; return r; }
void Split__p(ClipperBase* self, Active* e, Point64 pt) { vf_log(EV_SPLIT, e, 0, 0, pt.x, pt.y, 0); e->join_with = JoinWith_NoJoin; }
void SetSides__p(OutRec* outrec, Active* s, Active* e) { vf_log(EV_SETSIDES, outrec, s, e, 0, 0, 0); outrec->front_edge = s; outrec->back_edge = e; }
OutPt* AddOutPt__p(ClipperBase* self, const Active* e, Point64 pt) { vf_log(EV_ADDOUTPT, e, 0, 0, pt.x, pt.y, 0); return vf_newop(pt); }
OutPt* StartOpenPath__p(ClipperBase* self, Active* e, Point64 pt) { vf_log(EV_STARTOPEN, e, 0, 0, pt.x, pt.y, 0); return vf_newop(pt); }
OutPt* AddLocalMaxPoly__p(ClipperBase* self, Active* e1, Active* e2, Point64 pt) { vf_log(EV_LOCMAX, e1, e2, 0, pt.x, pt.y, 0); return vf_choose() ? vf_newop(pt) : NULL; }
OutPt* AddLocalMinPoly4(ClipperBase* self, Active* e1, Active* e2, Point64 pt, bool is_new) { vf_log(EV_LOCMIN, e1, e2, 0, pt.x, pt.y, is_new); return vf_newop(pt); }
void SwapOutrecs__p(Active* e1, Active* e2) { vf_log(EV_SWAP, e1, e2, 0, 0, 0, 0); OutRec* t = e1->outrec; e1->outrec = e2->outrec; e2->outrec = t; }
Active* FindEdgeWithMatchingLocMin(Active* e) { vf_log(EV_FINDLM, e, 0, 0, 0, 0, 0); return vf_choose() ? &g_e3 : NULL; }
void SetZ__p(ClipperBase* self, const Active* e1, const Active* e2, Point64* pt) { vf_log(EV_SETZ, e1, e2, pt, 0, 0, 0); }
//@expect file=CPP/Clipper2Lib/include/clipper2/clipper.engine.h /OutPt\* AddLocalMinPoly\(Active &e1, Active &e2,\s*const Point64& pt, bool is_new = false\);/
#define VSEL5(a, b, c, d, e, N, ...) N
#define AddLocalMinPoly(...) VSEL5(__VA_ARGS__, AddLocalMinPoly4m, AddLocalMinPoly3)(__VA_ARGS__)
#define AddLocalMinPoly3(s, a, b, p) AddLocalMinPoly4(s, &(a), &(b), p, false /* default argument, see //@expect */)
#define AddLocalMinPoly4m(s, a, b, p, n) AddLocalMinPoly4(s, &(a), &(b), p, n)
#define Split(s, e, p) Split__p(s, &(e), p)
#define AddOutPt(s, e, p) AddOutPt__p(s, &(e), p)
#define StartOpenPath(s, e, p) StartOpenPath__p(s, &(e), p)
#define AddLocalMaxPoly(s, a, b, p) AddLocalMaxPoly__p(s, &(a), &(b), p)
#define SetZ(s, a, b, p) SetZ__p(s, &(a), &(b), &(p))
static inline bool Point64_eq(Point64 a, Point64 b) { return a.x == b.x && a.y == b.y; }
//@extract file=CPP/Clipper2Lib/src/clipper.engine.cpp func=IsHotEdge byptr=e refmacro=1
//@end
//@extract file=CPP/Clipper2Lib/src/clipper.engine.cpp func=IsOpen sig="const Active& e" byptr=e refmacro=1
//@end
//@extract file=CPP/Clipper2Lib/src/clipper.engine.cpp func=IsOpenEnd sig="const Vertex& v" byptr=v refmacro=1
//@end
//@extract file=CPP/Clipper2Lib/src/clipper.engine.cpp func=IsFront byptr=e refmacro=1
//@end
//@extract file=CPP/Clipper2Lib/src/clipper.engine.cpp func=IsJoined byptr=e refmacro=1
//@end
//@extract file=CPP/Clipper2Lib/src/clipper.engine.cpp func=GetPolyType byptr=e refmacro=1
//@end
//@extract file=CPP/Clipper2Lib/src/clipper.engine.cpp func=IsSamePolyType byptr=e1,e2 refmacro=1
//@end
#define SetSides(o, a, b) SetSides__p(&(o), &(a), &(b))
#define SwapOutrecs(a, b) SwapOutrecs__p(&(a), &(b))
//@extract file=CPP/Clipper2Lib/src/clipper.engine.cpp func=ClipperBase::IntersectEdges as=IE_z self=ClipperBase byptr=e1,e2 byval=pt cpp=USINGZ selfcalls=Split,AddOutPt,StartOpenPath,AddLocalMaxPoly,AddLocalMinPoly,SetZ
//@sub /\bpt == edge_o->local_min->vertex->pt/Point64_eq(pt, edge_o->local_min->vertex->pt)/
//@sub /std::abs\(/abs(/ min=0
//@sub /(?<![>\w])fillpos\b/self->fillpos/ min=0
//@sub /self->zCallback_/g_zcb/ min=0
//@end
//@extract file=CPP/Clipper2Lib/src/clipper.engine.cpp func=ClipperBase::IntersectEdges as=IE_n self=ClipperBase byptr=e1,e2 byval=pt cpp=NOTHING selfcalls=Split,AddOutPt,StartOpenPath,AddLocalMaxPoly,AddLocalMinPoly,SetZ
//@sub /\bpt == edge_o->local_min->vertex->pt/Point64_eq(pt, edge_o->local_min->vertex->pt)/
//@sub /std::abs\(/abs(/ min=0
//@sub /(?<![>\w])fillpos\b/self->fillpos/ min=0
//@sub /self->zCallback_/g_zcb/ min=0
//@end
/* ---------- product harness: both variants from the same state ---------- */
typedef struct { ClipperBase cb; Active e1, e2, e3; OutRec o1, o2; LocalMinima lm1, lm2; Vertex v1, v2; } World;
World W;
unsigned nondet_uint(void); bool nondet_bool(void); int nondet_int(void); int64_t nondet_i64(void);
static OutRec* pick_or(unsigned c) { return c == 0 ? NULL : c == 1 ? &W.o1 : &W.o2; }
static Active* pick_e(unsigned c) { return c == 0 ? NULL : c == 1 ? &W.e1 : c == 2 ? &W.e2 : &g_e3; }
static void init_edge(Active* e)
{
  e->outrec = pick_or(nondet_uint() % 3); e->local_min = nondet_bool() ? &W.lm1 : &W.lm2; e->wind_cnt = nondet_int(); e->wind_cnt2 = nondet_int();
  __CPROVER_assume(e->wind_cnt > -1000000 && e->wind_cnt < 1000000 && e->wind_cnt2 > -1000000 && e->wind_cnt2 < 1000000);
  e->wind_dx = nondet_bool() ? 1 : -1; e->join_with = (JoinWith)(nondet_uint() % 3);
}
void h_IE(void)
{
  /* symbolic state */
  W.cb.cliptype_ = (ClipType)(nondet_uint() % 5); __CPROVER_assume(W.cb.cliptype_ != ClipType_NoClip);
  W.cb.fillrule_ = (FillRule)(nondet_uint() % 4); W.cb.fillpos = nondet_bool() ? FillRule_Positive : FillRule_Negative; W.cb.has_open_paths_ = nondet_bool();
  g_zcb = nondet_bool() ? (VF_ZCallback64)1 : (VF_ZCallback64)0;
  W.lm1.polytype = (PathType)(nondet_uint() % 2); W.lm2.polytype = (PathType)(nondet_uint() % 2); W.lm1.is_open = nondet_bool(); W.lm2.is_open = nondet_bool();
  W.lm1.vertex = &W.v1; W.lm2.vertex = &W.v2; W.v1.pt.x = nondet_i64(); W.v1.pt.y = nondet_i64(); W.v2.pt.x = nondet_i64(); W.v2.pt.y = nondet_i64();
  W.v1.flags = (VertexFlags)(nondet_uint() % 16); W.v2.flags = (VertexFlags)(nondet_uint() % 16);
  init_edge(&W.e1); init_edge(&W.e2); init_edge(&g_e3);
  W.o1.front_edge = pick_e(nondet_uint() % 4); W.o1.back_edge = pick_e(nondet_uint() % 4); W.o2.front_edge = pick_e(nondet_uint() % 4); W.o2.back_edge = pick_e(nondet_uint() % 4);
  Point64 pt; pt.x = nondet_i64(); pt.y = nondet_i64(); pt.z = nondet_i64();
  for (int i = 0; i < 8; ++i) g_choice[i] = nondet_bool();
  World W0 = W; Active e3_0 = g_e3;
  /* run 1: the body compiled without USINGZ */
  g_nlog = 0; g_nops = 0; g_nchoice = 0;
  IE_n(&W.cb, &W.e1, &W.e2, pt);
  Ev logN[MAXEV]; int nN = g_nlog; for (int i = 0; i < MAXEV; ++i) logN[i] = g_log[i];
  World WN = W; Active e3_N = g_e3;
  /* run 2: the body compiled with USINGZ, from the same state with the same stub answers */
  W = W0; g_e3 = e3_0; g_nlog = 0; g_nops = 0; g_nchoice = 0;
  IE_z(&W.cb, &W.e1, &W.e2, pt);
  /* (1) same geometry: the same building calls with the same arguments in the same order (SetZ calls aside), the same final edge and outrec state */
  int k = 0, nsetz = 0;
  for (int i = 0; i < MAXEV; ++i) if (i < g_nlog) {
    if (g_log[i].fn == EV_SETZ) { nsetz++; continue; }
    __CPROVER_assert(k < nN && logN[k].fn == g_log[i].fn && logN[k].a == g_log[i].a && logN[k].b == g_log[i].b && logN[k].c == g_log[i].c && logN[k].x == g_log[i].x && logN[k].y == g_log[i].y && logN[k].flag == g_log[i].flag,
                     "USINGZ build makes the same geometry-building call as the plain build");
    k++;
  }
  __CPROVER_assert(k == nN, "and no fewer");
#define SAME_EDGE(f) (W.f.wind_cnt == WN.f.wind_cnt && W.f.wind_cnt2 == WN.f.wind_cnt2 && W.f.outrec == WN.f.outrec && W.f.join_with == WN.f.join_with)
  __CPROVER_assert(SAME_EDGE(e1) && SAME_EDGE(e2) && g_e3.outrec == e3_N.outrec, "same winding counts and outrec links in both builds");
  __CPROVER_assert(W.o1.front_edge == WN.o1.front_edge && W.o1.back_edge == WN.o1.back_edge && W.o2.front_edge == WN.o2.front_edge && W.o2.back_edge == WN.o2.back_edge, "same outrec sides in both builds");
  /* (2) Z accounting: with a callback every vertex created at this crossing is handed to SetZ exactly once, with the two crossing edges; without one SetZ is not called */
  if (!g_zcb) __CPROVER_assert(nsetz == 0, "no callback: SetZ not called");
  else {
    __CPROVER_assert(nsetz == g_nops, "one SetZ per created vertex");
    for (int o = 0; o < 4; ++o) if (o < g_nops) {
      int hits = 0;
      for (int i = 0; i < MAXEV; ++i) if (i < g_nlog && g_log[i].fn == EV_SETZ && g_log[i].c == (const void*)&g_ops[o].pt) {
        hits++;
        __CPROVER_assert((g_log[i].a == &W.e1 && g_log[i].b == &W.e2) || (g_log[i].a == &W.e2 && g_log[i].b == &W.e1), "SetZ gets the two crossing edges");
      }
      __CPROVER_assert(hits == 1, "every vertex created at the crossing is passed to SetZ exactly once");
    }
  }
  VF_CANARY();
}
//@run name=IntersectEdges.z-vs-plain entry=h_IE unwind=12 flags="--bounds-check --pointer-check" timeout=900
//@assume A5 (C15_intersect): the vertex-building callees of IntersectEdges are logging stubs whose answers (AddLocalMaxPoly returning null or not, FindEdgeWithMatchingLocMin finding an edge or not) are drawn once and replayed for both variants; SetZ itself is proved in C15_setz.
