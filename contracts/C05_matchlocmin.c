//@unit C05_matchlocmin
//@props C05
//@desc FindEdgeWithMatchingLocMin (how an open path passing under a horizontal at its local minimum finds its other arm) - BOUNDED (AEL of 4 edges, e anywhere): the result is null or ANOTHER edge of the same local minimum; every edge between e and the result is a horizontal or starts at the same bottom point as e (the search never jumps over an unrelated edge); the right side is searched before the left; an immediate neighbour of the same local minimum is always found.
#include "vf.h"
//@include engine_types.inc
Active g_e0, g_e1, g_e2, g_e3; Active* const g_p[4] = { &g_e0, &g_e1, &g_e2, &g_e3 };
LocalMinima g_l0, g_l1; 
static inline bool Point64_ne(Point64 a, Point64 b) { return a.x != b.x || a.y != b.y; }
//@extract file=CPP/Clipper2Lib/src/clipper.engine.cpp func=IsHorizontal sig="const Active& e" byptr=e refmacro=1
//@end
//@extract file=CPP/Clipper2Lib/src/clipper.engine.cpp func=FindEdgeWithMatchingLocMin
//@sub /e->bot != result->bot/Point64_ne(e->bot, result->bot)/ min=2
//@end
unsigned nondet_uint(void); bool nondet_bool(void); int64_t nondet_i64(void);
#define SKIPPABLE(ed, ee) ((ed)->top.y == (ed)->bot.y || ((ed)->bot.x == (ee)->bot.x && (ed)->bot.y == (ee)->bot.y))
void h_FM(void)
{
  for (int i = 0; i < 4; ++i) { g_p[i]->prev_in_ael = i ? g_p[i - 1] : NULL; g_p[i]->next_in_ael = i + 1 < 4 ? g_p[i + 1] : NULL; g_p[i]->local_min = nondet_bool() ? &g_l0 : &g_l1;
    g_p[i]->bot.x = nondet_i64(); g_p[i]->bot.y = nondet_i64(); g_p[i]->top.x = nondet_i64(); g_p[i]->top.y = nondet_i64(); }
  unsigned k = nondet_uint() % 4; Active* e = g_p[k];
  Active* r = FindEdgeWithMatchingLocMin(e);
  int ri = r == &g_e0 ? 0 : r == &g_e1 ? 1 : r == &g_e2 ? 2 : r == &g_e3 ? 3 : -1;
  __CPROVER_assert(r == NULL ? ri == -1 : (ri >= 0 && r != e && r->local_min == e->local_min), "null or another edge of the same local minimum");
  if (r) for (int i = 0; i < 4; ++i) if ((i > (int)k && i < ri) || (i < (int)k && i > ri)) __CPROVER_assert(g_p[i]->local_min != e->local_min && SKIPPABLE(g_p[i], e), "every edge passed over is a horizontal or starts at e's bottom point, and is not itself a match");
  if (k + 1 < 4 && g_p[k + 1]->local_min == e->local_min) __CPROVER_assert(r == g_p[k + 1], "a matching right neighbour is found");
  if (r && ri < (int)k) { bool right_blocked = false, right_has = false; for (int i = (int)k + 1; i < 4; ++i) { if (!right_blocked && g_p[i]->local_min == e->local_min) right_has = true; if (g_p[i]->local_min != e->local_min && !SKIPPABLE(g_p[i], e)) right_blocked = true; } __CPROVER_assert(!right_has, "the left side is used only when the right side has no reachable match"); }
  VF_CANARY();
}
//@run name=FindEdgeWithMatchingLocMin entry=h_FM unwind=6 flags="--bounds-check --pointer-check" timeout=120 bounded="AEL of 4 edges"
