//@unit C05_newoutrec
//@props C05
//@desc ClipperBase::NewOutRec (loop-free, the real body behind the NewOutRec stubs of C05_newpaths, C03_splitop and C10_horzjoins): the OutRec returned is the freshly allocated one, it is appended to outrec_list_ exactly once and at the end (so the list only grows and every earlier entry stays where it was), its idx is its position in that list, and it starts EMPTY and CLOSED: no points, no owner, no polypath, no splits, is_open == false (`new OutRec()` value-initialises: zero, then the default member initialisers extracted from clipper.engine.h; the body's own assignments come on top). StartOpenPath / AddLocalMinPoly are the only places that then mark it open (C05_newpaths).
#include "vf.h"
//@include engine_types.inc
OutRec g_fresh; int g_nalloc; size_t g_push_at; OutRec* g_pushed; int g_npush;
//@structinit file=CPP/Clipper2Lib/include/clipper2/clipper.engine.h name=OutRec
static OutRec* vf_new_outrec(void) { g_nalloc++; vf_init_OutRec(&g_fresh); return &g_fresh; }   /* `new OutRec()`: value-initialisation */
#undef VF_PUSH
#define VF_PUSH(v, p) do { g_push_at = (v).size; g_pushed = (p); g_npush++; (v).size++; } while (0)
//@extract file=CPP/Clipper2Lib/src/clipper.engine.cpp func=ClipperBase::NewOutRec self=ClipperBase vec=outrec_list_
//@sub /new OutRec\(\)/vf_new_outrec()/
//@end
bool nondet_bool(void); size_t nondet_size(void); void* nondet_ptr(void);
void h_NOR(void)
{
  ClipperBase cb; size_t n0 = nondet_size(); __CPROVER_assume(n0 < ((size_t)1 << 40)); cb.outrec_list_.size = n0;
  /* whatever was in that memory before */
  g_fresh.pts = nondet_ptr(); g_fresh.owner = nondet_ptr(); g_fresh.polypath = nondet_ptr(); g_fresh.splits = nondet_ptr(); g_fresh.is_open = nondet_bool(); g_fresh.idx = nondet_size();
  g_nalloc = 0; g_npush = 0;
  OutRec* r = NewOutRec(&cb);
  __CPROVER_assert(r == &g_fresh && g_nalloc == 1, "the new OutRec is the one allocated, and only one is allocated");
  __CPROVER_assert(g_npush == 1 && g_pushed == r && g_push_at == n0 && cb.outrec_list_.size == n0 + 1, "appended once, at the end of outrec_list_");
  __CPROVER_assert(r->idx == n0, "idx is its position in outrec_list_");
  __CPROVER_assert(r->pts == NULL && r->owner == NULL && r->polypath == NULL && r->splits == NULL, "starts without points, owner, polypath or splits");
  __CPROVER_assert(r->is_open == false, "starts as a closed contour: only StartOpenPath / AddLocalMinPoly mark it open");
  VF_CANARY();
}
//@run name=NewOutRec entry=h_NOR flags="--bounds-check --pointer-check" timeout=120
