//@unit C18_area
//@props C18
//@desc Area(Path64) — BOUNDED check of "Area equals the exact shoelace area to double rounding" where the exact value is itself a double: polygons of N vertices (3, 4; 5 thorough) placed ANYWHERE within |coordinates| <= 2^40 but of small extent (all vertices within E units of a symbolic base point), so every trapezoid term (y1 + y2)(x1 - x2) and every partial sum is an integer below 2^53 — the result must then be EXACTLY half the integer shoelace sum (computed by the harness in 64-bit integers without a multiplier: shift-and-add over the bits of the small factor). Floating point is abstracted completely (the IEEE circuits did not finish in 1200 s): every double is the image of an integer under an uninterpreted conversion, and products and sums are stubs stating the IEEE exactness fact for integer-valued operands whose exact result is below 2^53; the product of an int64 sum and an int64 difference (`static_cast<double>(S) * (D)`, recognised in the source text) is a stub with the IEEE guarantee it needs: when the exact product is below 2^53 the result is that integer exactly (here: one factor at most 7 in magnitude, the other below 2^45); a factor of exactly 0.5 halves exactly; any other product is an arbitrary double (over-approximation: the real multiplier did not finish in 1200 s). A formula whose individual products are of the order |coordinate|^2 (x1*y2 - x2*y1) rounds them above 2^53 and fails this.
#include "vf.h"
#ifndef N
#define N 3
#endif
#ifndef E
#define E 4
#endif
typedef int64_t T;
typedef struct { int64_t x, y; } PointT;
typedef struct { PointT* data; size_t size; } PathT;
int64_t nondet_i64(void);
/* s * d for |d| <= 7 without a multiplier */
static int64_t smul(int64_t s, int64_t d) { int64_t m = d < 0 ? -d : d; int64_t r = ((m & 1) ? s : 0) + ((m & 2) ? 2 * s : 0) + ((m & 4) ? 4 * s : 0); return d < 0 ? -r : r; }
/* No floating-point circuit is evaluated. Every double in play is the image i2d(k) of an integer k below 2^53 (uninterpreted int64->double
   conversion with its inverse d2i); the stubs state the IEEE facts used: a product / sum of integer-valued doubles whose exact result is below
   2^53 is that integer exactly. Any other product or sum is an arbitrary double. */
double __CPROVER_uninterpreted_i2d(int64_t); int64_t __CPROVER_uninterpreted_d2i(double); double __CPROVER_uninterpreted_halfint(int64_t);   /* k -> (double)k * 0.5 */
#define I2D(k) __CPROVER_uninterpreted_i2d(k)
#define D2I(v) __CPROVER_uninterpreted_d2i(v)
#define INTVAL(v) (I2D(D2I(v)) == (v) && D2I(v) > -(1LL << 52) && D2I(v) < (1LL << 52))
/* static_cast<double>(S) * (D): product of an int64 sum and an int64 difference, as the source writes it */
double vf_imul_d(int64_t s, int64_t d)
__CPROVER_ensures((s > -(1LL << 45) && s < (1LL << 45) && d >= -7 && d <= 7) ==> (__CPROVER_return_value == I2D(smul(s, d)) && D2I(__CPROVER_return_value) == smul(s, d)))
__CPROVER_assigns();
double vf_fadd_stub(double a, double b)
__CPROVER_ensures((INTVAL(a) && INTVAL(b)) ==> (__CPROVER_return_value == I2D(D2I(a) + D2I(b)) && D2I(__CPROVER_return_value) == D2I(a) + D2I(b)))
__CPROVER_assigns();
/* any other product: half of an integer-valued double is a function of the integer (all comparisons are IEEE ==, so the sign of a zero does not matter), everything else is an arbitrary double */
double vf_fmul_stub(double a, double b)
__CPROVER_ensures((b == 0.5 && INTVAL(a)) ==> __CPROVER_return_value == __CPROVER_uninterpreted_halfint(D2I(a)))
__CPROVER_assigns();
double vf_fsub_stub(double a, double b) __CPROVER_requires(1) __CPROVER_ensures(1) __CPROVER_assigns();
#define vf_add(a, b) _Generic((a) + (b), double: vf_fadd_stub((double)(a), (double)(b)), default: (a) + (b))
#define vf_sub(a, b) _Generic((a) - (b), double: vf_fsub_stub((double)(a), (double)(b)), default: (a) - (b))
#define vf_fmul(a, b) vf_fmul_stub((double)(a), (double)(b))
//@assume A-mul (C18_area): IEEE multiplication and addition of integer-valued doubles whose exact result is below 2^53 in magnitude return that integer exactly; int64->double is injective below 2^53; half of an integer-valued double is a function of that integer (never NaN); the accumulator's initial 0.0 is written I2D(0) (logged rewrite); any other product, sum or difference is left arbitrary.
//@extract file=CPP/Clipper2Lib/include/clipper2/clipper.core.h func=Area sig=Path<T>& byval=path iters=path:it1,it2,stop vec=path
//@sub /\(double\)\(([^()]*)\) \* \((?!double\))([^()]*)\)(?!\()/vf_imul_d(\1, \2)/ min=0
//@sub /\ba \+= ([^;]*);/a = vf_fadd_stub(a, \1);/ min=1
//@sub /double a = 0\.0;/double a = I2D(0);/
//@pysub fops_all
//@end
void h_Area(void)
{
  PointT v[N]; PathT p = { v, N }; int64_t bx = nondet_i64(), by = nondet_i64();
  __CPROVER_assume(bx >= -(1LL << 40) && bx <= (1LL << 40) - E && by >= -(1LL << 40) && by <= (1LL << 40) - E);
  for (int i = 0; i < N; ++i) { int64_t dx = nondet_i64(), dy = nondet_i64(); __CPROVER_assume(dx >= 0 && dx <= E && dy >= 0 && dy <= E); v[i].x = bx + dx; v[i].y = by + dy; }
  int64_t twice = 0;
  for (int i = 0; i < N; ++i) { PointT a = v[(i + N - 1) % N], b = v[i]; twice += smul(a.y + b.y, a.x - b.x); }
  __CPROVER_assume(D2I(I2D(0)) == 0 && !__CPROVER_isnand(I2D(0)));      /* facts about the conversion at 0 */
  double got = Area(p);
  __CPROVER_assume(!__CPROVER_isnand(__CPROVER_uninterpreted_halfint(twice)));
  __CPROVER_assert(got == __CPROVER_uninterpreted_halfint(twice), "Area is exactly half the integer shoelace sum when every term and partial sum is exactly representable");
  VF_CANARY();
}
//@run name=Area.n3 entry=h_Area replace=vf_fmul_stub,vf_imul_d,vf_fadd_stub,vf_fsub_stub defs=N=3,E=4 unwind=5 flags="--bounds-check --pointer-check --signed-overflow-check" solver=cadical timeout=600 bounded="3 vertices within 4 units of a base point anywhere in |coordinates| <= 2^40"
//@run name=Area.n4 entry=h_Area replace=vf_fmul_stub,vf_imul_d,vf_fadd_stub,vf_fsub_stub defs=N=4,E=4 unwind=6 flags="--bounds-check --pointer-check --signed-overflow-check" solver=cadical timeout=600 bounded="4 vertices within 4 units of a base point anywhere in |coordinates| <= 2^40"
