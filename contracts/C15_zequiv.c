//@unit C15_zequiv
//@props C15
//@desc The offsetting helpers that have an `#ifdef USINGZ` twin (GetPerpendic, GetPerpendicD, TranslatePoint, ReflectPoint, DoBevel, DoMiter, DoRound): the body compiled with USINGZ and the body compiled without it are extracted side by side from the same source lines and run on the SAME symbolic state (product program under one contract); the contract says they emit the same number of vertices with bit-identical x and y (and, USINGZ side, the z of the source vertex path[j]). Floating point is CBMC's IEEE model; both sides read the same objects, so identical expressions are shared and only a real difference between the twins (e.g. norms[k] for norms[j] in one of them) survives. DoRound: arc steps bounded (BOUNDED run).
#include "vf.h"
typedef struct { int64_t x, y, z; } Point64;
typedef struct { double x, y; int64_t z; } PointD;
typedef struct { Point64* data; size_t size; } Path64;
typedef struct { PointD* data; size_t size; } PathD;
typedef PointD PointT;
typedef struct { double group_delta_, step_sin_, step_cos_, steps_per_rad_, arc_tolerance_; void* deltaCallback64_; PathD norms; Point64 out[8]; size_t nout; } ClipperOffset;
#define VSEL3(a, b, c, N, ...) N
int64_t __CPROVER_uninterpreted_round_i64(double);   /* rounding is C16_init's subject; here only "same argument, same result" matters */
#define vf_r(v) __CPROVER_uninterpreted_round_i64(v)
#define TO_I64(v) _Generic((v), double: vf_r(v), default: (int64_t)(v))
/* Point constructors (R18): 1 argument = converting copy, 2 = (x, y), 3 = (x, y, z) */
#define PD1(p) ((PointD){(double)(p).x, (double)(p).y, (p).z})
#define PD2(a, b) ((PointD){(double)(a), (double)(b), 0})
#define PD3(a, b, c) ((PointD){(double)(a), (double)(b), (c)})
#define PointD(...) VSEL3(__VA_ARGS__, PD3, PD2, PD1)(__VA_ARGS__)
#define P64_1(p) ((Point64){TO_I64((p).x), TO_I64((p).y), (p).z})
#define P64_2(a, b) ((Point64){TO_I64(a), TO_I64(b), 0})
#define P64_3(a, b, c) ((Point64){TO_I64(a), TO_I64(b), (c)})
#define Point64(...) VSEL3(__VA_ARGS__, P64_3, P64_2, P64_1)(__VA_ARGS__)
/* path_out.emplace_back(...) */
void emit_p64(ClipperOffset* s, Point64 p) { __CPROVER_assert(s->nout < 8, "observation buffer"); s->out[s->nout++] = p; }
void emit_pd(ClipperOffset* s, PointD p) { emit_p64(s, P64_1(p)); }
void emit_p64z(ClipperOffset* s, Point64 p, int64_t z) { p.z = z; emit_p64(s, p); }
void emit_xy(ClipperOffset* s, double x, double y) { emit_p64(s, P64_2(x, y)); }
void emit_xyz(ClipperOffset* s, double x, double y, int64_t z) { emit_p64(s, P64_3(x, y, z)); }
#define EMIT1(s, p) _Generic((p), Point64: emit_p64, PointD: emit_pd)(s, p)
#define EMIT2(s, a, b) _Generic((a), Point64: emit_p64z, default: emit_xy)(s, a, b)
#define EMIT3(s, a, b, c) emit_xyz(s, a, b, c)
#define VF_EMIT(s, ...) VSEL3(__VA_ARGS__, EMIT3, EMIT2, EMIT1)(s, __VA_ARGS__)
/* R21b: products and quotients are applications of one uninterpreted function each (sound for proving the twins equal) */
double __CPROVER_uninterpreted_fmul(double, double); double __CPROVER_uninterpreted_fdiv(double, double);
#define vf_fmul(a, b) __CPROVER_uninterpreted_fmul((double)(a), (double)(b))
#define vf_fdiv(a, b) __CPROVER_uninterpreted_fdiv((double)(a), (double)(b))
double __CPROVER_uninterpreted_fadd(double, double); double __CPROVER_uninterpreted_fsub(double, double);
/* sums: uninterpreted when the result type is double, the plain operator on integers */
#define vf_add(a, b) _Generic((a) + (b), double: __CPROVER_uninterpreted_fadd((double)(a), (double)(b)), default: (a) + (b))
#define vf_sub(a, b) _Generic((a) - (b), double: __CPROVER_uninterpreted_fsub((double)(a), (double)(b)), default: (a) - (b))
#define PI 3.141592653589793238
#define floating_point_tolerance 1e-12
#define arc_const 0.002

//@extract file=CPP/Clipper2Lib/src/clipper.offset.cpp func=GetPerpendic as=GetPerpendic_z cpp=USINGZ byval=pt,norm
//@pysub fops_all
//@end
//@extract file=CPP/Clipper2Lib/src/clipper.offset.cpp func=GetPerpendic as=GetPerpendic_n cpp=NOTHING byval=pt,norm
//@pysub fops_all
//@end
//@extract file=CPP/Clipper2Lib/src/clipper.offset.cpp func=GetPerpendicD as=GetPerpendicD_z cpp=USINGZ byval=pt,norm
//@pysub fops_all
//@end
//@extract file=CPP/Clipper2Lib/src/clipper.offset.cpp func=GetPerpendicD as=GetPerpendicD_n cpp=NOTHING byval=pt,norm
//@pysub fops_all
//@end
#ifdef SIDE_Z
#define GetPerpendic GetPerpendic_z
#else
#define GetPerpendic GetPerpendic_n
#endif

//@extract file=CPP/Clipper2Lib/src/clipper.offset.cpp func=ClipperOffset::DoBevel as=DoBevel_z self=ClipperOffset cpp=USINGZ byval=path vec=path,norms members=norms,path_out
//@pysub fops_all
//@sub /std::abs\(/fabs(/
//@sub /self->path_out\.emplace_back\(/VF_EMIT(self, / min=2
//@end
//@extract file=CPP/Clipper2Lib/src/clipper.offset.cpp func=ClipperOffset::DoBevel as=DoBevel_n self=ClipperOffset cpp=NOTHING byval=path vec=path,norms members=norms,path_out
//@pysub fops_all
//@sub /std::abs\(/fabs(/
//@sub /self->path_out\.emplace_back\(/VF_EMIT(self, / min=2
//@end
//@extract file=CPP/Clipper2Lib/src/clipper.offset.cpp func=ClipperOffset::DoMiter as=DoMiter_z self=ClipperOffset cpp=USINGZ byval=path vec=path,norms members=norms,path_out
//@pysub fops_all
//@sub /self->path_out\.emplace_back\(/VF_EMIT(self, /
//@end
//@extract file=CPP/Clipper2Lib/src/clipper.offset.cpp func=ClipperOffset::DoMiter as=DoMiter_n self=ClipperOffset cpp=NOTHING byval=path vec=path,norms members=norms,path_out
//@pysub fops_all
//@sub /self->path_out\.emplace_back\(/VF_EMIT(self, /
//@end

//@extract file=CPP/Clipper2Lib/include/clipper2/clipper.core.h func=TranslatePoint as=TranslatePoint_z cpp=USINGZ byval=pt
//@pysub fops_all
//@sub /^PointT TranslatePoint_z/PointD TranslatePoint_z/
//@sub /return PointT\(/return PointD(/
//@end
//@extract file=CPP/Clipper2Lib/include/clipper2/clipper.core.h func=TranslatePoint as=TranslatePoint_n cpp=NOTHING byval=pt
//@pysub fops_all
//@sub /^PointT TranslatePoint_n/PointD TranslatePoint_n/
//@sub /return PointT\(/return PointD(/
//@end
//@extract file=CPP/Clipper2Lib/include/clipper2/clipper.core.h func=ReflectPoint as=ReflectPoint_z cpp=USINGZ byval=pt,pivot
//@pysub fops_all
//@sub /^PointT ReflectPoint_z/PointD ReflectPoint_z/
//@sub /return PointT\(/return PointD(/
//@end
//@extract file=CPP/Clipper2Lib/include/clipper2/clipper.core.h func=ReflectPoint as=ReflectPoint_n cpp=NOTHING byval=pt,pivot
//@pysub fops_all
//@sub /^PointT ReflectPoint_n/PointD ReflectPoint_n/
//@sub /return PointT\(/return PointD(/
//@end
//@extract file=CPP/Clipper2Lib/include/clipper2/clipper.core.h func=Negate scope=Point as=PointD_Negate self=PointD members=x,y
//@end
//@extract file=CPP/Clipper2Lib/src/clipper.offset.cpp func=ClipperOffset::DoRound as=DoRound_z self=ClipperOffset cpp=USINGZ byval=path vec=path,norms members=norms,path_out ifdef=ROUND
//@pysub fops_all
//@sub /std::abs\(/fabs(/ min=0
//@sub /offsetVec\.Negate\(\);/PointD_Negate(&offsetVec);/
//@sub /self->path_out\.emplace_back\(/VF_EMIT(self, / min=3
//@sub /\bGetPerpendic\(/GetPerpendic_z(/
//@end
//@extract file=CPP/Clipper2Lib/src/clipper.offset.cpp func=ClipperOffset::DoRound as=DoRound_n self=ClipperOffset cpp=NOTHING byval=path vec=path,norms members=norms,path_out ifdef=ROUND
//@pysub fops_all
//@sub /std::abs\(/fabs(/ min=0
//@sub /offsetVec\.Negate\(\);/PointD_Negate(&offsetVec);/
//@sub /self->path_out\.emplace_back\(/VF_EMIT(self, / min=3
//@sub /\bGetPerpendic\(/GetPerpendic_n(/
//@end
/* observation of one side */
typedef struct { Point64 p[8]; size_t n; } Obs;
#define TAKE(o, s) do { (o).n = (s)->nout; for (int i_ = 0; i_ < 8; ++i_) (o).p[i_] = (s)->out[i_]; (s)->nout = 0; } while (0)
Obs g_n, g_z;
#define SAME_XY(i) (g_n.p[i].x == g_z.p[i].x && g_n.p[i].y == g_z.p[i].y)
#define STATE_OK(self, path, j, k) (__CPROVER_is_fresh(self, sizeof(*self)) && path.size >= 1 && path.size <= 4 && __CPROVER_is_fresh(path.data, path.size * sizeof(Point64)) && \
    self->norms.size == path.size && __CPROVER_is_fresh(self->norms.data, path.size * sizeof(PointD)) && j < path.size && k < path.size && self->nout == 0)

void DoBevel_pair(ClipperOffset* self, const Path64 path, size_t j, size_t k)
__CPROVER_requires(STATE_OK(self, path, j, k))
__CPROVER_ensures(g_n.n == 2 && g_z.n == 2 && SAME_XY(0) && SAME_XY(1))
__CPROVER_ensures(g_z.p[0].z == path.data[j].z && g_z.p[1].z == path.data[j].z)
__CPROVER_assigns(g_n, g_z, self->out, self->nout)
{ DoBevel_n(self, path, j, k); TAKE(g_n, self); DoBevel_z(self, path, j, k); TAKE(g_z, self); }

void DoMiter_pair(ClipperOffset* self, const Path64 path, size_t j, size_t k, double cos_a)
__CPROVER_requires(STATE_OK(self, path, j, k))
__CPROVER_ensures(g_n.n == 1 && g_z.n == 1 && SAME_XY(0) && g_z.p[0].z == path.data[j].z)
__CPROVER_assigns(g_n, g_z, self->out, self->nout)
{ DoMiter_n(self, path, j, k, cos_a); TAKE(g_n, self); DoMiter_z(self, path, j, k, cos_a); TAKE(g_z, self); }

#define SAMED(a, b) (*(const int64_t*)&(a) == *(const int64_t*)&(b))
Point64 g_pn, g_pz; PointD g_dn, g_dz;
void GetPerpendic_pair(const Point64 pt, const PointD norm, double delta)
__CPROVER_ensures(g_pn.x == g_pz.x && g_pn.y == g_pz.y && g_pz.z == pt.z)
__CPROVER_assigns(g_pn, g_pz)
{ g_pn = GetPerpendic_n(pt, norm, delta); g_pz = GetPerpendic_z(pt, norm, delta); }
void GetPerpendicD_pair(const Point64 pt, const PointD norm, double delta)
__CPROVER_ensures(SAMED(g_dn.x, g_dz.x) && SAMED(g_dn.y, g_dz.y) && g_dz.z == pt.z)
__CPROVER_assigns(g_dn, g_dz)
{ g_dn = GetPerpendicD_n(pt, norm, delta); g_dz = GetPerpendicD_z(pt, norm, delta); }
void TranslatePoint_pair(const PointD pt, double dx, double dy)
__CPROVER_ensures(SAMED(g_dn.x, g_dz.x) && SAMED(g_dn.y, g_dz.y) && g_dz.z == pt.z)
__CPROVER_assigns(g_dn, g_dz)
{ g_dn = TranslatePoint_n(pt, dx, dy); g_dz = TranslatePoint_z(pt, dx, dy); }
void ReflectPoint_pair(const PointD pt, const PointD pivot)
__CPROVER_ensures(SAMED(g_dn.x, g_dz.x) && SAMED(g_dn.y, g_dz.y) && g_dz.z == pt.z)
__CPROVER_assigns(g_dn, g_dz)
{ g_dn = ReflectPoint_n(pt, pivot); g_dz = ReflectPoint_z(pt, pivot); }
void h_GetPerpendic(void) { Point64 p; PointD n; double d; GetPerpendic_pair(p, n, d); VF_CANARY(); }
void h_GetPerpendicD(void) { Point64 p; PointD n; double d; GetPerpendicD_pair(p, n, d); VF_CANARY(); }
void h_TranslatePoint(void) { PointD p; double a, b; TranslatePoint_pair(p, a, b); VF_CANARY(); }
void h_ReflectPoint(void) { PointD p, q; ReflectPoint_pair(p, q); VF_CANARY(); }
#ifdef ROUND
void DoRound_pair(ClipperOffset* self, const Path64 path, size_t j, size_t k, double angle)
__CPROVER_requires(STATE_OK(self, path, j, k) && self->deltaCallback64_ == NULL)
__CPROVER_ensures(g_n.n == g_z.n && g_n.n >= 2 && g_n.n <= 4 && SAME_XY(0) && SAME_XY(1) && (g_n.n > 2 ==> SAME_XY(2)) && (g_n.n > 3 ==> SAME_XY(3)))
__CPROVER_ensures(g_z.p[0].z == path.data[j].z && g_z.p[1].z == path.data[j].z && (g_n.n > 2 ==> g_z.p[2].z == path.data[j].z) && (g_n.n > 3 ==> g_z.p[3].z == path.data[j].z))
__CPROVER_assigns(g_n, g_z, self->out, self->nout)
{ /* BOUND: at most 3 arc steps (the same uninterpreted term the function computes) */
  { double st_ = ceil(vf_fmul(self->steps_per_rad_, fabs(angle))); __CPROVER_assume(st_ >= -3.0 && st_ <= 3.0); }
  DoRound_n(self, path, j, k, angle); TAKE(g_n, self); DoRound_z(self, path, j, k, angle); TAKE(g_z, self); }
void h_DoRound(void) { ClipperOffset* s; Path64 p; size_t j, k; double a; DoRound_pair(s, p, j, k, a); VF_CANARY(); }
#endif
void h_DoBevel(void) { ClipperOffset* s; Path64 p; size_t j, k; DoBevel_pair(s, p, j, k); VF_CANARY(); }
void h_DoMiter(void) { ClipperOffset* s; Path64 p; size_t j, k; double c; DoMiter_pair(s, p, j, k, c); VF_CANARY(); }
//@run name=DoBevel entry=h_DoBevel enforce=DoBevel_pair flags="--bounds-check --pointer-check" unwind=9 timeout=300
//@run name=DoMiter entry=h_DoMiter enforce=DoMiter_pair flags="--bounds-check --pointer-check" unwind=9 timeout=300
//@run name=GetPerpendic entry=h_GetPerpendic enforce=GetPerpendic_pair flags="--bounds-check --pointer-check" timeout=120
//@run name=GetPerpendicD entry=h_GetPerpendicD enforce=GetPerpendicD_pair flags="--bounds-check --pointer-check" timeout=120
//@run name=TranslatePoint entry=h_TranslatePoint enforce=TranslatePoint_pair flags="--bounds-check --pointer-check" timeout=120
//@run name=ReflectPoint entry=h_ReflectPoint enforce=ReflectPoint_pair flags="--bounds-check --pointer-check" timeout=120
//@run name=DoRound.bounded entry=h_DoRound enforce=DoRound_pair defs=ROUND flags="--bounds-check --pointer-check" unwind=9 timeout=300 bounded="at most 3 arc steps per round join (deltaCallback64_ unset)"
//@assume R21b/c: in this unit every floating-point product, quotient, sum and difference and the double->int64 rounding are applications of uninterpreted functions (sound for proving two variants of the same code equal; a reported difference is a difference of the operand terms).
