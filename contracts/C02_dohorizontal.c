//@unit C02_dohorizontal
//@props C02 C01
//@safetyprops C10
//@desc ClipperBase::DoHorizontal for one closed-path horizontal edge that is followed by a non-horizontal one - BOUNDED harness (AEL of the horizontal plus 3 resident edges in any position, x positions symbolic and ordered, no joined edges; real GetCurrYMaximaVertex, ResetHorzDirection, NextVertex, SwapPositionsInAEL, DeleteFromAEL and the edge predicates; AddOutPt, IntersectEdges, AddLocalMaxPoly, UpdateEdgeIntoAEL, the join checks and TopX are stubs that check the state they are called in). The horizontal sweeps from its current x towards its top x: every crossing is made with the IMMEDIATE neighbour in that direction, at the point (x of the crossed edge, y of the horizontal) - both coordinates are existing coordinates, which is what axis-parallel exactness needs -, the horizontal first when heading right and second when heading left, followed at once by the swap of exactly that pair, a join check on the crossed edge at the same point and the horizontal's current x moving there. An intermediate horizontal crosses exactly the edges strictly inside its span and none beyond it (edges exactly at its end may go either way: that depends on slopes), then adds its top vertex if hot and moves on to its next segment (UpdateEdgeIntoAEL, once); a hot one starts by adding the vertex at its current position. A horizontal that ends in a local maximum crosses everything up to its partner, closes the maximum with the partner in left-right order at its top if hot, and both are unlinked and freed once. Second run (C05): the final horizontal segment of an OPEN path stops at the path's end point - it crosses every edge strictly inside its span and nothing beyond -, adds the end point if hot, the open contour forgets that side, and the edge alone is unlinked and freed.
#include "vf.h"
#include <float.h>
//@include engine_types.inc
#define Point64(a, b) ((Point64){(a), (b)})
Active g_h, g_r0, g_r1, g_r2; Active* const g_res[3] = { &g_r0, &g_r1, &g_r2 };
static int ridx(const Active* e) { return e == &g_r0 ? 0 : e == &g_r1 ? 1 : e == &g_r2 ? 2 : -1; }
Vertex g_vt, g_vnx, g_vpv, g_vo0, g_vo1, g_vo2; LocalMinima g_lm; OutRec g_or; OutPt g_op;
bool g_freed_h, g_freed[3]; int g_nfree_other; int g_seq; int g_crossed[3]; int g_cross_seq[3]; bool g_ltr; int64_t g_y0; bool g_pending; Active* g_last;
int g_naop; Point64 g_aop_first, g_aop_last; int g_nupd, g_nlmp; Active *g_lmp1, *g_lmp2; Point64 g_lmp_pt; int g_ntrial;
#define VF_DELETE_E(pe) do { if ((pe) == &g_h) { __CPROVER_assert(!g_freed_h, "no double delete"); g_freed_h = true; } else if (ridx(pe) >= 0) { __CPROVER_assert(!g_freed[ridx(pe)], "no double delete"); g_freed[ridx(pe)] = true; } else g_nfree_other++; } while (0)
bool nondet_bool(void); unsigned nondet_uint(void); int64_t nondet_i64(void);
static OutPt* AddOutPt__p(ClipperBase* s, const Active* e, Point64 pt) { __CPROVER_assert(e == &g_h && e->outrec != NULL, "vertices are added to the hot horizontal's own contour"); if (g_naop == 0) g_aop_first = pt; g_aop_last = pt; g_naop++; return &g_op; }
#define AddOutPt(s, e, p) AddOutPt__p(s, &(e), p)
static void AddTrialHorzJoin(ClipperBase* s, OutPt* op) { __CPROVER_assert(op == &g_op, "a vertex of the horizontal's contour"); g_ntrial++; }
static OutPt* GetLastOp__p(const Active* e) { __CPROVER_assert(e == &g_h && e->outrec != NULL, "last vertex of the hot horizontal"); return &g_op; }
#define GetLastOp(e) GetLastOp__p(&(e))
static void Split__p(ClipperBase* s, Active* e, Point64 pt) { __CPROVER_assert(0, "no joined edges in this harness"); }
#define Split(s, e, p) Split__p(s, &(e), p)
static void UpdateEdgeIntoAEL(ClipperBase* s, Active* e) { __CPROVER_assert(e == &g_h && !g_pending, "the horizontal moves on to its next segment"); g_nupd++; }
static OutPt* AddLocalMaxPoly__p(ClipperBase* s, Active* e1, Active* e2, Point64 pt) { g_nlmp++; g_lmp1 = e1; g_lmp2 = e2; g_lmp_pt = pt; return NULL; }
#define AddLocalMaxPoly(s, a, b, p) AddLocalMaxPoly__p(s, &(a), &(b), p)
static int64_t TopX__p(const Active* e, int64_t y) { return nondet_i64(); }
#define TopX(e, y) TopX__p(&(e), y)
static void IntersectEdges__p(ClipperBase* s, Active* e1, Active* e2, Point64 pt)
{ Active* o = g_ltr ? e2 : e1; int k = ridx(o);
  __CPROVER_assert((g_ltr ? e1 : e2) == &g_h && k >= 0, "a crossing pairs the horizontal with a resident edge, in left-right order");
  __CPROVER_assert(g_ltr ? (g_h.next_in_ael == o) : (g_h.prev_in_ael == o), "the crossed edge is the horizontal's immediate neighbour in sweep direction");
  __CPROVER_assert(pt.x == o->curr_x && pt.y == g_y0, "the crossing is at (x of the crossed edge, y of the horizontal)");
  __CPROVER_assert(!g_pending, "the previous pair was swapped");
  g_crossed[k]++; g_cross_seq[k] = g_seq++; g_pending = true; g_last = o; }
#define IntersectEdges(s, a, b, p) IntersectEdges__p(s, &(a), &(b), p)
static void CheckJoinLeft__p(ClipperBase* s, Active* e, Point64 pt) { __CPROVER_assert(g_ltr && e == g_last && !g_pending && pt.x == e->curr_x && pt.y == g_y0, "join check on the edge just crossed, at the crossing, after the swap"); }
#define CheckJoinLeft(s, e, p) CheckJoinLeft__p(s, &(e), p)
static void CheckJoinRight__p(ClipperBase* s, Active* e, Point64 pt) { __CPROVER_assert(!g_ltr && e == g_last && !g_pending && pt.x == e->curr_x && pt.y == g_y0, "join check on the edge just crossed, at the crossing, after the swap"); }
#define CheckJoinRight(s, e, p) CheckJoinRight__p(s, &(e), p)
//@assume A5 (C02_dohorizontal): see the description; closed paths, no joined edges, the horizontal is the last one of its bound at this scanline.
//@extract file=CPP/Clipper2Lib/src/clipper.engine.cpp func=IsHotEdge byptr=e refmacro=1
//@end
//@extract file=CPP/Clipper2Lib/src/clipper.engine.cpp func=IsHorizontal sig="const Active& e" byptr=e refmacro=1
//@end
//@extract file=CPP/Clipper2Lib/src/clipper.engine.cpp func=IsJoined byptr=e refmacro=1
//@end
//@extract file=CPP/Clipper2Lib/src/clipper.engine.cpp func=IsOpen sig="const Active& e" byptr=e refmacro=1
//@end
//@extract file=CPP/Clipper2Lib/src/clipper.engine.cpp func=IsOpenEnd sig="const Vertex& v" as=IsOpenEndV byptr=v
//@end
//@extract file=CPP/Clipper2Lib/src/clipper.engine.cpp func=IsOpenEnd sig="const Active& ae" byptr=ae refmacro=1
//@sub /IsOpenEnd\(\*ae->vertex_top\)/IsOpenEndV(ae->vertex_top)/
//@end
//@extract file=CPP/Clipper2Lib/src/clipper.engine.cpp func=IsFront byptr=e refmacro=1
//@end
//@extract file=CPP/Clipper2Lib/src/clipper.engine.cpp func=IsSamePolyType byptr=e1,e2 refmacro=1
//@end
//@extract file=CPP/Clipper2Lib/src/clipper.engine.cpp func=NextVertex byptr=e refmacro=1
//@end
//@extract file=CPP/Clipper2Lib/src/clipper.engine.cpp func=IsMaxima sig="const Vertex& v" as=IsMaximaV byptr=v
//@end
//@extract file=CPP/Clipper2Lib/src/clipper.engine.cpp func=GetCurrYMaximaVertex sig="const Active& e" byptr=e refmacro=1
//@sub /IsMaxima\(\*result\)/IsMaximaV(result)/
//@end
//@extract file=CPP/Clipper2Lib/src/clipper.engine.cpp func=GetCurrYMaximaVertex_Open byptr=e refmacro=1
//@sub /IsMaxima\(\*result\)/IsMaximaV(result)/
//@end
//@extract file=CPP/Clipper2Lib/src/clipper.engine.cpp func=ClipperBase::ResetHorzDirection as=ResetHorzDirection__r self=ClipperBase byptr=horz,horz_left,horz_right
//@end
#define ResetHorzDirection(s, h, mv, l, r) ResetHorzDirection__r(s, &(h), mv, &(l), &(r))
//@extract file=CPP/Clipper2Lib/src/clipper.engine.cpp func=ClipperBase::DeleteFromAEL as=DeleteFromAEL__r self=ClipperBase byptr=e
//@sub /delete\s*&\s*\(\*e\);/VF_DELETE_E(e);/
//@end
#define DeleteFromAEL(s, e) DeleteFromAEL__r(s, &(e))
//@extract file=CPP/Clipper2Lib/src/clipper.engine.cpp func=ClipperBase::SwapPositionsInAEL as=SwapPositionsInAEL__r self=ClipperBase byptr=e1,e2
//@end
static void SwapPositionsInAEL__c(ClipperBase* s, Active* a, Active* b) { __CPROVER_assert(g_pending && (g_ltr ? (a == &g_h && b == g_last) : (a == g_last && b == &g_h)), "exactly the pair just crossed is swapped"); g_pending = false; SwapPositionsInAEL__r(s, a, b); }
#define SwapPositionsInAEL(s, a, b) SwapPositionsInAEL__c(s, &(a), &(b))
//@extract file=CPP/Clipper2Lib/src/clipper.engine.cpp func=ClipperBase::DoHorizontal as=DoHorizontal__r self=ClipperBase byptr=horz cpp=NOUSINGZ selfcalls=ResetHorzDirection,AddOutPt,AddTrialHorzJoin,Split,UpdateEdgeIntoAEL,AddLocalMaxPoly,DeleteFromAEL,IntersectEdges,SwapPositionsInAEL,CheckJoinLeft,CheckJoinRight
//@sub /UpdateEdgeIntoAEL\(self, &\(\*horz\)\)/UpdateEdgeIntoAEL(self, horz)/ min=0
//@end
void h_DH(void)
{
  ClipperBase cb; unsigned k = nondet_uint() % 4;                 /* position of the horizontal among the residents */
  Active* ord[4]; for (unsigned i = 0; i < 4; ++i) ord[i] = i < k ? g_res[i] : (i == k ? &g_h : g_res[i - 1]);
  for (unsigned i = 0; i < 4; ++i) { ord[i]->prev_in_ael = i ? ord[i - 1] : NULL; ord[i]->next_in_ael = i + 1 < 4 ? ord[i + 1] : NULL; }
  cb.actives_ = ord[0];
  g_lm.is_open = false; g_lm.polytype = PathType_Subject; g_or.is_open = false; g_op.outrec = &g_or;
  Vertex* const vo[3] = { &g_vo0, &g_vo1, &g_vo2 };
  int64_t y0 = nondet_i64(); g_y0 = y0;
  for (int i = 0; i < 3; ++i) { g_res[i]->curr_x = nondet_i64(); g_res[i]->join_with = JoinWith_NoJoin; g_res[i]->local_min = &g_lm; g_res[i]->outrec = NULL; g_res[i]->vertex_top = nondet_bool() ? vo[i] : &g_vt; vo[i]->flags = VertexFlags_Empty;
    g_res[i]->top.x = nondet_i64(); g_res[i]->top.y = nondet_i64(); g_res[i]->bot.x = nondet_i64(); g_res[i]->bot.y = nondet_i64(); g_freed[i] = false; g_crossed[i] = 0; g_cross_seq[i] = -1; }
  /* the horizontal: from its current x (its bottom) to its top vertex g_vt; the next vertex of its path leaves the line */
  bool fwd = nondet_bool(); g_h.wind_dx = fwd ? 1 : -1; g_h.vertex_top = &g_vt; g_vt.next = fwd ? &g_vnx : &g_vpv; g_vt.prev = fwd ? &g_vpv : &g_vnx;
  g_vt.pt.x = nondet_i64(); g_vt.pt.y = y0; g_vnx.pt.x = nondet_i64(); g_vnx.pt.y = nondet_i64(); __CPROVER_assume(g_vnx.pt.y != y0); g_vpv.pt = g_vnx.pt;
  bool is_max = nondet_bool(); g_vt.flags = is_max ? VertexFlags_LocalMax : VertexFlags_Empty;
  g_h.top = g_vt.pt; g_h.bot.y = y0; g_h.bot.x = nondet_i64(); g_h.curr_x = g_h.bot.x; __CPROVER_assume(g_h.bot.x != g_h.top.x);
  g_h.local_min = &g_lm; g_h.join_with = JoinWith_NoJoin; bool hot = nondet_bool(); g_h.outrec = hot ? &g_or : NULL; g_or.front_edge = &g_h; g_or.back_edge = NULL;
  /* the AEL is ordered by current x */
  for (unsigned i = 0; i + 1 < 4; ++i) __CPROVER_assume(ord[i]->curr_x <= ord[i + 1]->curr_x);
  /* only a maximum's partner shares the horizontal's top vertex */
  if (!is_max) for (int i = 0; i < 3; ++i) __CPROVER_assume(g_res[i]->vertex_top != &g_vt);
  int64_t x0 = g_h.curr_x, xt = g_h.top.x; g_ltr = x0 < xt;
  g_freed_h = false; g_nfree_other = 0; g_seq = 0; g_pending = false; g_naop = 0; g_nupd = 0; g_nlmp = 0; g_ntrial = 0;
  DoHorizontal__r(&cb, &g_h);
  __CPROVER_assert(!g_pending && g_nfree_other == 0, "every crossing was followed by its swap; nothing foreign is freed");
  /* which residents lie in sweep direction, in sweep order */
  int partner = -1; unsigned nside = 0; int side[3];
  for (unsigned d = 1; d < 4; ++d) { int pos = g_ltr ? (int)k + (int)d : (int)k - (int)d; if (pos >= 0 && pos < 4) { int r = ridx(ord[pos]); side[nside++] = r; } }
  for (unsigned j = 0; j < 3; ++j) if (j < nside && partner < 0 && g_res[side[j]]->vertex_top == &g_vt) partner = (int)j;
  for (int r = 0; r < 3; ++r) { bool onside = false; for (unsigned j = 0; j < 3; ++j) if (j < nside && side[j] == r) onside = true; if (!onside) __CPROVER_assert(g_crossed[r] == 0 && !g_freed[r], "edges behind the horizontal are left alone"); }
  for (unsigned j = 0; j < 3; ++j) if (j < nside) { int r = side[j]; int64_t x = g_res[r]->curr_x;
    __CPROVER_assert(g_crossed[r] <= 1, "an edge is crossed at most once");
    if (g_crossed[r]) __CPROVER_assert(g_cross_seq[r] == (int)j, "crossings happen in AEL order, nothing is skipped");
    if (!is_max) {
      if (g_ltr ? x < xt : x > xt) __CPROVER_assert(g_crossed[r] == 1, "an intermediate horizontal crosses every edge strictly inside its span");
      if (g_ltr ? x > xt : x < xt) __CPROVER_assert(g_crossed[r] == 0, "and none beyond its end");
    } else if (partner >= 0) __CPROVER_assert(g_crossed[r] == ((int)j < partner ? 1 : 0), "a maximum crosses everything up to its partner, and nothing from there on"); }
  if (!is_max) {
    __CPROVER_assert(g_nupd == 1 && g_nlmp == 0 && !g_freed_h && !g_freed[0] && !g_freed[1] && !g_freed[2], "an intermediate horizontal moves on to its next segment; nothing is removed");
    __CPROVER_assert(g_naop == (hot ? 2 : 0) && (!hot || (g_aop_first.x == x0 && g_aop_first.y == y0 && g_aop_last.x == xt && g_aop_last.y == y0)), "a hot horizontal adds its current position first and its top vertex last, and nothing in between");
  } else if (partner >= 0) {
    Active* pe = g_res[side[partner]];
    __CPROVER_assert(g_freed_h && g_freed[side[partner]] && g_nupd == 0, "the maximum's two edges are unlinked and freed, once each");
    __CPROVER_assert(g_nlmp == (hot ? 1 : 0) && (!hot || (g_lmp_pt.x == xt && g_lmp_pt.y == y0 && (g_ltr ? (g_lmp1 == &g_h && g_lmp2 == pe) : (g_lmp1 == pe && g_lmp2 == &g_h)))), "a hot maximum is closed once, at the horizontal's top, with its partner in left-right order");
    for (int r = 0; r < 3; ++r) if (r != side[partner]) __CPROVER_assert(!g_freed[r], "no other edge is removed");
  }
  VF_CANARY();
}
/* the last segment of an OPEN path is horizontal and ends at the path's end point */
LocalMinima g_lmo;
void h_DHO(void)
{
  ClipperBase cb; unsigned k = nondet_uint() % 4;
  Active* ord[4]; for (unsigned i = 0; i < 4; ++i) ord[i] = i < k ? g_res[i] : (i == k ? &g_h : g_res[i - 1]);
  for (unsigned i = 0; i < 4; ++i) { ord[i]->prev_in_ael = i ? ord[i - 1] : NULL; ord[i]->next_in_ael = i + 1 < 4 ? ord[i + 1] : NULL; }
  cb.actives_ = ord[0];
  g_lm.is_open = false; g_lm.polytype = PathType_Clip; g_lmo.is_open = true; g_lmo.polytype = PathType_Subject; g_or.is_open = true; g_op.outrec = &g_or;
  Vertex* const vo[3] = { &g_vo0, &g_vo1, &g_vo2 };
  int64_t y0 = nondet_i64(); g_y0 = y0;
  for (int i = 0; i < 3; ++i) { g_res[i]->curr_x = nondet_i64(); g_res[i]->join_with = JoinWith_NoJoin; g_res[i]->local_min = &g_lm; g_res[i]->outrec = NULL; g_res[i]->vertex_top = vo[i]; vo[i]->flags = VertexFlags_Empty;
    g_res[i]->top.x = nondet_i64(); g_res[i]->top.y = nondet_i64(); g_res[i]->bot.x = nondet_i64(); g_res[i]->bot.y = nondet_i64(); g_freed[i] = false; g_crossed[i] = 0; g_cross_seq[i] = -1; }
  bool fwd = nondet_bool(); g_h.wind_dx = fwd ? 1 : -1; g_h.vertex_top = &g_vt; g_vt.next = fwd ? &g_vnx : &g_vpv; g_vt.prev = fwd ? &g_vpv : &g_vnx;
  g_vt.pt.x = nondet_i64(); g_vt.pt.y = y0; g_vnx.pt.x = nondet_i64(); g_vnx.pt.y = nondet_i64(); g_vpv.pt = g_vnx.pt;
  g_vt.flags = (nondet_bool() ? VertexFlags_OpenEnd : VertexFlags_OpenStart) | VertexFlags_LocalMax;       /* the path ends here */
  g_h.top = g_vt.pt; g_h.bot.y = y0; g_h.bot.x = nondet_i64(); g_h.curr_x = g_h.bot.x; __CPROVER_assume(g_h.bot.x != g_h.top.x);
  g_h.local_min = &g_lmo; g_h.join_with = JoinWith_NoJoin; bool hot = nondet_bool(), front = nondet_bool(); Active other; g_h.outrec = hot ? &g_or : NULL; g_or.front_edge = front ? &g_h : &other; g_or.back_edge = front ? &other : &g_h;
  for (unsigned i = 0; i + 1 < 4; ++i) __CPROVER_assume(ord[i]->curr_x <= ord[i + 1]->curr_x);
  int64_t x0 = g_h.curr_x, xt = g_h.top.x; g_ltr = x0 < xt;
  g_freed_h = false; g_nfree_other = 0; g_seq = 0; g_pending = false; g_naop = 0; g_nupd = 0; g_nlmp = 0; g_ntrial = 0;
  DoHorizontal__r(&cb, &g_h);
  __CPROVER_assert(!g_pending && g_nfree_other == 0, "every crossing was followed by its swap; nothing foreign is freed");
  for (unsigned d = 1; d < 4; ++d) { int pos = g_ltr ? (int)k + (int)d : (int)k - (int)d; if (pos >= 0 && pos < 4) { int r = ridx(ord[pos]); int64_t x = g_res[r]->curr_x;
    __CPROVER_assert(g_crossed[r] <= 1, "an edge is crossed at most once");
    if (g_ltr ? x < xt : x > xt) __CPROVER_assert(g_crossed[r] == 1, "the open horizontal crosses every edge strictly inside its span");
    if (g_ltr ? x > xt : x < xt) __CPROVER_assert(g_crossed[r] == 0, "and NOTHING beyond its end point"); } }
  for (unsigned d = 1; d < 4; ++d) { int pos = g_ltr ? (int)k - (int)d : (int)k + (int)d; if (pos >= 0 && pos < 4) __CPROVER_assert(g_crossed[ridx(ord[pos])] == 0, "edges behind it are left alone"); }
  __CPROVER_assert(g_freed_h && !g_freed[0] && !g_freed[1] && !g_freed[2] && g_nupd == 0 && g_nlmp == 0, "the path ends: the horizontal alone is unlinked and freed; no next segment, no closed maximum");
  __CPROVER_assert(g_naop == (hot ? 2 : 0) && (!hot || (g_aop_first.x == x0 && g_aop_first.y == y0 && g_aop_last.x == xt && g_aop_last.y == y0)), "a hot one adds its current position first and the path's end point last");
  if (hot) __CPROVER_assert((front ? g_or.front_edge : g_or.back_edge) == NULL && (front ? g_or.back_edge : g_or.front_edge) == &other, "the open contour forgets the edge that ended, and only that side");
  VF_CANARY();
}
//@run name=DoHorizontal.openend entry=h_DHO unwind=6 flags="--bounds-check --pointer-check" timeout=600 bounded="an open path's final horizontal plus 3 closed resident edges, every position, both directions, hot or not" props=C05,C02,C10
//@run name=DoHorizontal.single entry=h_DH unwind=6 flags="--bounds-check --pointer-check" timeout=600 bounded="the horizontal plus 3 resident edges, every position, both directions, intermediate or local maximum, hot or not"
