//@unit C10_joins
//@props C10 C01 C02
//@safetyprops C14
//@desc The edge-join bookkeeping of the sweep (loop-free; IsHotEdge, IsHorizontal, IsOpen are the real bodies; PerpendicDistFromLineSqrd, IsCollinear, AddLocalMaxPoly, AddLocalMinPoly, JoinOutrecPaths are stubs). Pairing invariant: an edge marked JoinWith::Right has a right neighbour marked JoinWith::Left and vice versa. CheckJoinLeft / CheckJoinRight: only two hot, non-horizontal, closed neighbours that are collinear through pt are ever joined; a join calls exactly one of AddLocalMaxPoly (same OutRec) / JoinOutrecPaths (different OutRecs) and ESTABLISHES the pairing (left edge Right, right edge Left); otherwise nothing changes; no null neighbour or null OutRec is dereferenced. Split: given the pairing invariant, the pair is dissolved on BOTH edges and AddLocalMinPoly(left edge, right edge, pt, is_new = true) is called once; the neighbour it needs exists.
#include "vf.h"
//@include engine_types.inc
unsigned nondet_uint(void); bool nondet_bool(void); int64_t nondet_i64(void); double nondet_double(void);
int g_max_n, g_min_n, g_join_n; Active* g_a; Active* g_b; bool g_min_new; double g_dist; bool g_col;
static double PerpendicDistFromLineSqrd(Point64 pt, Point64 a, Point64 b) { return g_dist; }
static bool IsCollinear(Point64 a, Point64 b, Point64 c) { return g_col; }
static OutPt* AddLocalMaxPoly__p(ClipperBase* s, Active* a, Active* b, Point64 pt) { g_max_n++; g_a = a; g_b = b; return NULL; }
#define AddLocalMaxPoly(s, a, b, p) AddLocalMaxPoly__p(s, &(a), &(b), p)
static OutPt* AddLocalMinPoly__p(ClipperBase* s, Active* a, Active* b, Point64 pt, bool is_new) { g_min_n++; g_a = a; g_b = b; g_min_new = is_new; return NULL; }
#define AddLocalMinPoly(s, a, b, p, n) AddLocalMinPoly__p(s, &(a), &(b), p, n)
static void JoinOutrecPaths__p(ClipperBase* s, Active* a, Active* b) { g_join_n++; g_a = a; g_b = b; }
#define JoinOutrecPaths(s, a, b) JoinOutrecPaths__p(s, &(a), &(b))
//@extract file=CPP/Clipper2Lib/src/clipper.engine.cpp func=IsHotEdge byptr=e refmacro=1
//@end
//@extract file=CPP/Clipper2Lib/src/clipper.engine.cpp func=IsHorizontal sig="const Active& e" byptr=e refmacro=1
//@end
//@extract file=CPP/Clipper2Lib/src/clipper.engine.cpp func=IsOpen sig="const Active& e" byptr=e refmacro=1
//@end
//@extract file=CPP/Clipper2Lib/src/clipper.engine.cpp func=ClipperBase::Split self=ClipperBase byptr=e byval=pt selfcalls=AddLocalMinPoly
//@end
//@extract file=CPP/Clipper2Lib/src/clipper.engine.cpp func=ClipperBase::CheckJoinLeft self=ClipperBase byptr=e byval=pt selfcalls=AddLocalMaxPoly,JoinOutrecPaths
//@end
//@extract file=CPP/Clipper2Lib/src/clipper.engine.cpp func=ClipperBase::CheckJoinRight self=ClipperBase byptr=e byval=pt selfcalls=AddLocalMaxPoly,JoinOutrecPaths
//@end
Active g_e[3]; OutRec g_o[2]; LocalMinima g_lm[3];
static void world(void)
{
  for (int i = 0; i < 3; ++i) {
    g_e[i].prev_in_ael = i > 0 ? &g_e[i - 1] : NULL; g_e[i].next_in_ael = i < 2 ? &g_e[i + 1] : NULL;
    g_e[i].outrec = (nondet_uint() % 3) == 0 ? NULL : (nondet_bool() ? &g_o[0] : &g_o[1]); g_e[i].local_min = &g_lm[i]; g_lm[i].is_open = nondet_bool();
    g_e[i].top.x = nondet_i64(); g_e[i].top.y = nondet_i64(); g_e[i].bot.x = nondet_i64(); g_e[i].bot.y = nondet_i64(); g_e[i].curr_x = nondet_i64(); g_e[i].join_with = JoinWith_NoJoin;
    __CPROVER_assume(g_e[i].top.y > -((int64_t)1 << 62) && g_e[i].top.y < ((int64_t)1 << 62));
  }
  g_o[0].idx = nondet_uint() % 4; g_o[1].idx = nondet_uint() % 4; __CPROVER_assume(g_o[0].idx != g_o[1].idx);
  g_max_n = g_min_n = g_join_n = 0; g_dist = nondet_double(); g_col = nondet_bool(); __CPROVER_assume(!__CPROVER_isnand(g_dist));
}
#define HOT(e) ((e)->outrec != NULL)
#define HORZ(e) ((e)->top.y == (e)->bot.y)
void h_Join(bool left)
{
  ClipperBase cb; world(); Point64 pt; pt.x = nondet_i64(); pt.y = nondet_i64(); __CPROVER_assume(pt.y > -((int64_t)1 << 62) && pt.y < ((int64_t)1 << 62)); bool chk = nondet_bool();
  unsigned k = nondet_uint() % 3; Active* e = &g_e[k]; Active* nb = left ? e->prev_in_ael : e->next_in_ael;
  if (left) CheckJoinLeft(&cb, e, pt, chk); else CheckJoinRight(&cb, e, pt, chk);
  bool joined = g_max_n + g_join_n > 0;
  __CPROVER_assert(g_max_n + g_join_n <= 1 && g_min_n == 0, "at most one joining call");
  if (joined) {
    __CPROVER_assert(nb != NULL && HOT(e) && HOT(nb) && !HORZ(e) && !HORZ(nb) && !g_lm[k].is_open && !nb->local_min->is_open && g_col, "only hot, non-horizontal, closed, collinear neighbours are joined");
    __CPROVER_assert((g_max_n == 1) == (e->outrec == nb->outrec), "same OutRec: closed with AddLocalMaxPoly; different OutRecs: paths joined");
    Active* l = left ? nb : e; Active* r = left ? e : nb;
    __CPROVER_assert(l->join_with == JoinWith_Right && r->join_with == JoinWith_Left, "the pairing is established: left edge Right, right edge Left");
    __CPROVER_assert((g_a == l && g_b == r) || (g_join_n == 1 && g_a == r && g_b == l), "the call gets exactly these two edges");
  } else for (int i = 0; i < 3; ++i) __CPROVER_assert(g_e[i].join_with == JoinWith_NoJoin, "no join: no marks");
  VF_CANARY();
}
void h_JoinL(void) { h_Join(true); }
void h_JoinR(void) { h_Join(false); }
void h_Split(void)
{
  ClipperBase cb; world(); Point64 pt; pt.x = nondet_i64(); pt.y = nondet_i64();
  /* pairing invariant: edges k and k+1 are joined */
  unsigned k = nondet_uint() % 2; g_e[k].join_with = JoinWith_Right; g_e[k + 1].join_with = JoinWith_Left;
  Active* e = nondet_bool() ? &g_e[k] : &g_e[k + 1];
  Split(&cb, e, pt);
  __CPROVER_assert(g_e[k].join_with == JoinWith_NoJoin && g_e[k + 1].join_with == JoinWith_NoJoin, "the pair is dissolved on both edges");
  __CPROVER_assert(g_min_n == 1 && g_a == &g_e[k] && g_b == &g_e[k + 1] && g_min_new && g_max_n == 0 && g_join_n == 0, "one new local-minimum polygon from (left edge, right edge), is_new = true");
  VF_CANARY();
}
//@run name=CheckJoinLeft entry=h_JoinL unwind=5 flags=SAFETY-conversion-float solver=cadical timeout=300
//@run name=CheckJoinRight entry=h_JoinR unwind=5 flags=SAFETY-conversion-float solver=cadical timeout=300
//@run name=Split entry=h_Split unwind=5 flags=SAFETY solver=cadical timeout=120
//@assume A5 (C10_joins): PerpendicDistFromLineSqrd and IsCollinear answer arbitrarily; AddLocalMaxPoly, AddLocalMinPoly, JoinOutrecPaths are counting stubs; the AEL is three edges (the functions are loop-free and look one neighbour away).
