//@unit C08_startlocs
//@props C08
//@safetyprops C10 C14
//@desc StartLocsAreClockwise (decides the orientation of the rectangle returned for a polygon that encloses it): the result is "the net number of clockwise quarter turns between consecutive start locations is positive", with clockwise = Left->Top->Right->Bottom->Left. Index safety is proved for every length (loop contract); the value against the turn-counting oracle is a BOUNDED check (up to 6 start locations).
#include "vf.h"
//@enum file=CPP/Clipper2Lib/include/clipper2/clipper.rectclip.h name=Location
typedef struct { Location* data; size_t size; } VecLoc;
#define CW_NEXT(l) ((l) == Location_Left ? Location_Top : (l) == Location_Top ? Location_Right : (l) == Location_Right ? Location_Bottom : Location_Left)

//@extract file=CPP/Clipper2Lib/src/clipper.rectclip.cpp func=StartLocsAreClockwise vec=startlocs byval=startlocs ifndef=BOUNDED
//@sub /const std::vector<Location>\s+startlocs/const VecLoc startlocs/
__CPROVER_requires(startlocs.size < ((size_t)1 << 30) && __CPROVER_is_fresh(startlocs.data, startlocs.size * sizeof(Location)))
__CPROVER_ensures(1)
__CPROVER_assigns()
//@loop 1
__CPROVER_assigns(i, result)
__CPROVER_loop_invariant(i >= 1 && (i <= startlocs.size || startlocs.size == 0) && result > -(int)i - 1 && result < (int)i + 1)
__CPROVER_decreases(startlocs.size + 1 - i)
//@end
//@extract file=CPP/Clipper2Lib/src/clipper.rectclip.cpp func=StartLocsAreClockwise vec=startlocs byval=startlocs ifdef=BOUNDED
//@sub /const std::vector<Location>\s+startlocs/const VecLoc startlocs/
//@end
#ifndef BOUNDED
void h_SL(void) { VecLoc v; StartLocsAreClockwise(v); VF_CANARY(); }
#else
int nondet_int(void); unsigned nondet_uint(void);
void h_SLB(void)
{
  Location a[6]; size_t n = nondet_uint(); __CPROVER_assume(n <= 6);
  int net = 0;
  for (size_t k = 0; k < 6; ++k) { a[k] = (Location)nondet_uint(); __CPROVER_assume((unsigned)a[k] <= (unsigned)Location_Bottom); }
  /* oracle: +1 for a clockwise quarter turn, -1 for a counter-clockwise one, 0 for none or a half turn */
  for (size_t k = 1; k < 6; ++k) if (k < n) { if (a[k] == CW_NEXT(a[k - 1])) net += 1; else if (a[k - 1] == CW_NEXT(a[k])) net -= 1; }
  VecLoc v = { a, n };
  bool r = StartLocsAreClockwise(v);
  __CPROVER_assert(r == (net > 0), "StartLocsAreClockwise == (net clockwise quarter turns > 0)");
  VF_CANARY();
}
#endif
//@run name=StartLocsAreClockwise.safety entry=h_SL enforce=StartLocsAreClockwise loops=1 flags=SAFETY-signed timeout=120
//@run name=StartLocsAreClockwise.value entry=h_SLB defs=BOUNDED unwind=8 flags=SAFETY timeout=300 bounded="at most 6 start locations (all 4^6 sequences, symbolic)"
