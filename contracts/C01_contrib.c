//@unit C01_contrib
//@props C01
//@safetyprops C10 C14
//@desc K1: ClipperBase::IsContributingClosed == "the edge lies on the boundary of the region OP(cliptype, FILLED(fillrule, w_subject), FILLED(fillrule, w_clip))" for all 5 clip types x 4 fill rules and all winding numbers, the spec written from the property statement. K2: the winding-count update block of IntersectEdges maps the face-winding representation (G4) for "e1 left of e2" to the one for "e2 left of e1". Also IsContributingOpen (C05).
#include "vf.h"
//@include engine_types.inc

/* ---- specification vocabulary, from the property statement ---- */
#define FILLED(fr, w) ((fr) == FillRule_EvenOdd ? (((w) & 1) != 0) : (fr) == FillRule_NonZero ? ((w) != 0) : \
                       (fr) == FillRule_Positive ? ((w) > 0) : ((w) < 0))
#define OP(ct, s, c) ((ct) == ClipType_Intersection ? ((s) && (c)) : (ct) == ClipType_Union ? ((s) || (c)) : \
                      (ct) == ClipType_Difference ? ((s) && !(c)) : (ct) == ClipType_Xor ? ((s) != (c)) : 0)
/* region membership of a face with own-type winding w, other-type winding w2, for an edge of path type t */
#define INRES(ct, fr, t, w, w2) ((t) == PathType_Subject ? OP(ct, FILLED(fr, w), FILLED(fr, w2)) : OP(ct, FILLED(fr, w2), FILLED(fr, w)))
/* G4 representation: the edge stores the own-type winding of the adjacent face farther from zero */
#define NEARER0(w) ((w) > 0 ? (w) - 1 : (w) + 1)
#define ABS_(v) ((v) < 0 ? -(v) : (v))
#define MAXABS(a,b) (ABS_(a) > ABS_(b) ? (a) : (b))
#define REP(left, dx) MAXABS((left), (left) + (dx))
#define WBOUND 1000000
#define W_OK(w) ((w) > -WBOUND && (w) < WBOUND)

//@extract file=CPP/Clipper2Lib/src/clipper.engine.cpp func=GetPolyType byptr=e refmacro=1
__CPROVER_requires(__CPROVER_is_fresh(e, sizeof(*e)) && __CPROVER_is_fresh(e->local_min, sizeof(*e->local_min)))
__CPROVER_ensures(__CPROVER_return_value == e->local_min->polytype)
__CPROVER_assigns()
//@end

//@extract file=CPP/Clipper2Lib/src/clipper.engine.cpp func=ClipperBase::IsContributingClosed self=ClipperBase byptr=e must=R5,R6,R7
__CPROVER_requires(__CPROVER_is_fresh(self, sizeof(*self)) && __CPROVER_is_fresh(e, sizeof(*e)) && __CPROVER_is_fresh(e->local_min, sizeof(*e->local_min)))
__CPROVER_requires(ENUM_OK(self->cliptype_, ClipType_Xor) && ENUM_OK(self->fillrule_, FillRule_Negative) && ENUM_OK(e->local_min->polytype, PathType_Clip))
__CPROVER_requires(e->wind_cnt != 0 && W_OK(e->wind_cnt) && W_OK(e->wind_cnt2))
__CPROVER_requires(self->fillrule_ == FillRule_EvenOdd ==> ((e->wind_cnt == 1 || e->wind_cnt == -1) && (e->wind_cnt2 == 0 || e->wind_cnt2 == 1)))
__CPROVER_ensures(__CPROVER_return_value ==
   (INRES(self->cliptype_, self->fillrule_, e->local_min->polytype, e->wind_cnt, e->wind_cnt2) !=
    INRES(self->cliptype_, self->fillrule_, e->local_min->polytype, NEARER0(e->wind_cnt), e->wind_cnt2)))
__CPROVER_assigns()
//@end

//@extract file=CPP/Clipper2Lib/src/clipper.engine.cpp func=ClipperBase::IsContributingOpen self=ClipperBase byptr=e must=R5,R6,R7
__CPROVER_requires(__CPROVER_is_fresh(self, sizeof(*self)) && __CPROVER_is_fresh(e, sizeof(*e)))
__CPROVER_requires(ENUM_OK(self->cliptype_, ClipType_Xor) && self->cliptype_ != ClipType_NoClip && ENUM_OK(self->fillrule_, FillRule_Negative))
__CPROVER_requires(W_OK(e->wind_cnt) && W_OK(e->wind_cnt2))
/* C05: an open edge contributes iff it is inside the clip region (Intersection), outside it (Difference, Xor),
   outside both closed-subject and clip regions (Union); wind_cnt/wind_cnt2 = closed-subject / clip winding (parity for EvenOdd) */
__CPROVER_requires(self->fillrule_ == FillRule_EvenOdd ==> ((e->wind_cnt == 0 || e->wind_cnt == 1) && (e->wind_cnt2 == 0 || e->wind_cnt2 == 1)))
__CPROVER_ensures(__CPROVER_return_value ==
   (self->cliptype_ == ClipType_Intersection ? FILLED(self->fillrule_, e->wind_cnt2) :
    self->cliptype_ == ClipType_Union ? (!FILLED(self->fillrule_, e->wind_cnt) && !FILLED(self->fillrule_, e->wind_cnt2)) :
    !FILLED(self->fillrule_, e->wind_cnt2)))
__CPROVER_assigns()
//@end

/* ghost: windings of the face left of e1 before the crossing: own type of e1, other type */
int g_WL_own1, g_WL_oth1;
//@extract file=CPP/Clipper2Lib/src/clipper.engine.cpp as=winding_update block="//UPDATE WINDING COUNTS\.\.\.@@\n\s*switch \(fillrule_\)" proto="void winding_update(ClipperBase* self, Active& e1, Active& e2)" byptr=e1,e2 self=ClipperBase must=R5,R6,R7
__CPROVER_requires(__CPROVER_is_fresh(self, sizeof(*self)) && __CPROVER_is_fresh(e1, sizeof(*e1)) && __CPROVER_is_fresh(e2, sizeof(*e2)))
__CPROVER_requires(__CPROVER_is_fresh(e1->local_min, sizeof(*e1->local_min)) && __CPROVER_is_fresh(e2->local_min, sizeof(*e2->local_min)))
__CPROVER_requires(ENUM_OK(self->fillrule_, FillRule_Negative) && ENUM_OK(e1->local_min->polytype, PathType_Clip) && ENUM_OK(e2->local_min->polytype, PathType_Clip))
__CPROVER_requires((e1->wind_dx == 1 || e1->wind_dx == -1) && (e2->wind_dx == 1 || e2->wind_dx == -1))
__CPROVER_requires(W_OK(g_WL_own1) && W_OK(g_WL_oth1))
#define SAMETYPE (e1->local_min->polytype == e2->local_min->polytype)
#define EO (self->fillrule_ == FillRule_EvenOdd)
#define PAR(v) ((v) & 1)
/* before: e1 immediately left of e2, both consistent with the face windings (parities under EvenOdd) */
__CPROVER_requires(!EO ==> (e1->wind_cnt == REP(g_WL_own1, e1->wind_dx) && e1->wind_cnt2 == g_WL_oth1))
__CPROVER_requires(!EO ==> (SAMETYPE
     ? (e2->wind_cnt == REP(g_WL_own1 + e1->wind_dx, e2->wind_dx) && e2->wind_cnt2 == g_WL_oth1)
     : (e2->wind_cnt == REP(g_WL_oth1, e2->wind_dx) && e2->wind_cnt2 == g_WL_own1 + e1->wind_dx)))
__CPROVER_requires(EO ==> (e1->wind_cnt == e1->wind_dx && e2->wind_cnt == e2->wind_dx && e1->wind_cnt2 == PAR(g_WL_oth1) &&
     e2->wind_cnt2 == (SAMETYPE ? PAR(g_WL_oth1) : PAR(g_WL_own1 + 1))))
/* after: e2 immediately left of e1, consistent again */
__CPROVER_ensures(!EO ==> (SAMETYPE
     ? (e2->wind_cnt == REP(g_WL_own1, e2->wind_dx) && e2->wind_cnt2 == g_WL_oth1 &&
        e1->wind_cnt == REP(g_WL_own1 + e2->wind_dx, e1->wind_dx) && e1->wind_cnt2 == g_WL_oth1)
     : (e2->wind_cnt == REP(g_WL_oth1, e2->wind_dx) && e2->wind_cnt2 == g_WL_own1 &&
        e1->wind_cnt == REP(g_WL_own1, e1->wind_dx) && e1->wind_cnt2 == g_WL_oth1 + e2->wind_dx)))
__CPROVER_ensures(EO ==> (SAMETYPE
     ? (e2->wind_cnt == __CPROVER_old(e1->wind_cnt) && e1->wind_cnt == __CPROVER_old(e2->wind_cnt) && e1->wind_cnt2 == PAR(g_WL_oth1) && e2->wind_cnt2 == PAR(g_WL_oth1))
     : (e1->wind_cnt == e1->wind_dx && e2->wind_cnt == e2->wind_dx && e2->wind_cnt2 == PAR(g_WL_own1) && e1->wind_cnt2 == PAR(g_WL_oth1 + 1))))
__CPROVER_assigns(e1->wind_cnt, e1->wind_cnt2, e2->wind_cnt, e2->wind_cnt2)
//@end

void h_GetPolyType(void) { Active* e; GetPolyType__p(e); VF_CANARY(); }
void h_ICC(void) { ClipperBase* s; Active* e; IsContributingClosed(s, e); VF_CANARY(); }
void h_ICO(void) { ClipperBase* s; Active* e; IsContributingOpen(s, e); VF_CANARY(); }
void h_WU(void) { ClipperBase* s; Active *a, *b; winding_update(s, a, b); VF_CANARY(); }

/* C13 symmetries of the contribution test (product harnesses over the real function): (a) reversing every path negates every winding number: EvenOdd and NonZero answers are unchanged, Positive and Negative exchange; (b) exchanging the roles of subject and clip leaves Intersection, Union and Xor unchanged */
int nondet_int(void); unsigned nondet_uint(void); bool nondet_bool(void);
void h_ICC_sym(void)
{
  ClipperBase s1, s2; Active e1, e2; LocalMinima l1, l2;
  ClipType ct = (ClipType)(1 + nondet_uint() % 4); FillRule fr = (FillRule)(nondet_uint() % 4); PathType pt = nondet_bool() ? PathType_Subject : PathType_Clip;
  __CPROVER_assume(ct >= ClipType_Intersection && ct <= ClipType_Xor && fr >= FillRule_EvenOdd && fr <= FillRule_Negative);
  int w = nondet_int(), w2 = nondet_int(); __CPROVER_assume(w != 0 && W_OK(w) && W_OK(w2));
  if (fr == FillRule_EvenOdd) __CPROVER_assume((w == 1 || w == -1) && (w2 == 0 || w2 == 1));
  s1.cliptype_ = ct; s1.fillrule_ = fr; e1.local_min = &l1; l1.polytype = pt; e1.wind_cnt = w; e1.wind_cnt2 = w2;
  bool base = IsContributingClosed(&s1, &e1);
  bool reversed = nondet_bool();
  if (reversed) {   /* (a) all paths reversed */
    s2.cliptype_ = ct; s2.fillrule_ = fr == FillRule_Positive ? FillRule_Negative : fr == FillRule_Negative ? FillRule_Positive : fr;
    e2.local_min = &l2; l2.polytype = pt; e2.wind_cnt = -w; e2.wind_cnt2 = fr == FillRule_EvenOdd ? w2 : -w2;
    __CPROVER_assert(IsContributingClosed(&s2, &e2) == base, "reversing all paths: same answer under EvenOdd / NonZero, Positive and Negative exchanged");
  } else if (ct != ClipType_Difference) {   /* (b) subject and clip exchanged */
    s2.cliptype_ = ct; s2.fillrule_ = fr; e2.local_min = &l2; l2.polytype = pt == PathType_Subject ? PathType_Clip : PathType_Subject; e2.wind_cnt = w; e2.wind_cnt2 = w2;
    __CPROVER_assert(IsContributingClosed(&s2, &e2) == base, "exchanging subject and clip does not change Intersection, Union, Xor");
  }
  VF_CANARY();
}
//@run name=IsContributingClosed.symmetries entry=h_ICC_sym flags=SAFETY timeout=120 props=C13,C01
//@run name=GetPolyType entry=h_GetPolyType enforce=GetPolyType__p flags=SAFETY timeout=60
//@run name=IsContributingClosed entry=h_ICC enforce=IsContributingClosed flags=SAFETY timeout=120
//@run name=IsContributingClosed.z entry=h_ICC enforce=IsContributingClosed flags=SAFETY defs=USINGZ timeout=120 props=C01,C15
//@run name=IsContributingOpen entry=h_ICO enforce=IsContributingOpen flags=SAFETY timeout=120 props=C05,C10,C14
//@run name=winding_update entry=h_WU enforce=winding_update flags=SAFETY timeout=120
//@assume R19: only the "UPDATE WINDING COUNTS" block of IntersectEdges is under contract (block extraction between its source comment and the following switch); the rest of IntersectEdges is not verified.
//@assume G4: K1/K2 are specified against the face-winding representation the three functions share today (wind_cnt = own-type winding of the adjacent face farther from zero; wind_cnt2 = other-type winding; parities / +-1 under EvenOdd).
