//@unit C01_wrappers
//@props C01 C13
//@safetyprops C14
//@desc The Paths64 convenience wrappers of clipper.h under call-trace contracts (G5): BooleanOp(cliptype, fillrule, subjects, clips) - which Intersect, Union, Difference and Xor forward to - ALWAYS runs the real operation: one fresh Clipper64, AddSubject(subjects), AddClip(clips) (each exactly once, whatever the sizes - an empty clip set is no shortcut: the fill rule still has to be applied to the subjects), then Execute with the given clip type and fill rule, whose solution is what is returned; Union(subjects, fillrule) does the same without clips.
#include "vf.h"
//@include calltrace.inc
//@include calltrace_stubs.inc
#define ASG_LOG __CPROVER_object_whole(g_cnt), __CPROVER_object_whole(g_ev), g_n
//@extract file=CPP/Clipper2Lib/include/clipper2/clipper.h func=BooleanOp sig="const Paths64. clips$" as=BooleanOp_64 byval=subjects,clips
//@pysub calltrace
//@sub /Clipper64_Execute\(/Clipper_Execute1(/ min=0
__CPROVER_requires(NOCALLS)
__CPROVER_ensures(C_(FN_C64CTOR) == 1 &&
   C_(FN_ADDSUBJ) == 1 && I_(FN_ADDSUBJ,0,0) == TOK(FN_C64CTOR,0) && I_(FN_ADDSUBJ,0,1) == subjects.tok &&
   C_(FN_ADDCLIP) == 1 && I_(FN_ADDCLIP,0,0) == TOK(FN_C64CTOR,0) && I_(FN_ADDCLIP,0,1) == clips.tok && C_(FN_ADDOPEN) == 0 &&
   C_(FN_EXEC) == 1 && I_(FN_EXEC,0,0) == TOK(FN_C64CTOR,0) && I_(FN_EXEC,0,1) == (long)cliptype && I_(FN_EXEC,0,2) == (long)fillrule &&
   SEQ(FN_EXEC,0) > SEQ(FN_ADDSUBJ,0) && SEQ(FN_EXEC,0) > SEQ(FN_ADDCLIP,0) && __CPROVER_return_value.tok == TOK(FN_EXEC,0))
__CPROVER_assigns(ASG_LOG)
//@end
void h_BooleanOp_64(void) { ClipType ct; FillRule fr; Paths64 a, b; LOG_INIT(); BooleanOp_64(ct, fr, a, b); VF_CANARY(); }
//@extract file=CPP/Clipper2Lib/include/clipper2/clipper.h func=Union sig="const Paths64& subjects, FillRule fillrule" as=Union_64 byval=subjects
//@pysub calltrace
//@sub /Clipper64_Execute\(/Clipper_Execute1(/ min=0
__CPROVER_requires(NOCALLS)
__CPROVER_ensures(C_(FN_C64CTOR) == 1 && C_(FN_ADDSUBJ) == 1 && I_(FN_ADDSUBJ,0,0) == TOK(FN_C64CTOR,0) && I_(FN_ADDSUBJ,0,1) == subjects.tok && C_(FN_ADDCLIP) == 0 && C_(FN_ADDOPEN) == 0 &&
   C_(FN_EXEC) == 1 && I_(FN_EXEC,0,0) == TOK(FN_C64CTOR,0) && I_(FN_EXEC,0,1) == (long)ClipType_Union && I_(FN_EXEC,0,2) == (long)fillrule && SEQ(FN_EXEC,0) > SEQ(FN_ADDSUBJ,0) && __CPROVER_return_value.tok == TOK(FN_EXEC,0))
__CPROVER_assigns(ASG_LOG)
//@end
void h_Union_64(void) { FillRule fr; Paths64 a; LOG_INIT(); Union_64(a, fr); VF_CANARY(); }
//@run name=BooleanOp.Paths64 entry=h_BooleanOp_64 enforce=BooleanOp_64 replace=Clipper64_ctor,Clipper_AddSubject,Clipper_AddClip,Clipper_Execute1 flags="--bounds-check --pointer-check" timeout=120
//@run name=Union.Paths64 entry=h_Union_64 enforce=Union_64 replace=Clipper64_ctor,Clipper_AddSubject,Clipper_Execute1 flags="--bounds-check --pointer-check" timeout=120
//@assume A5 (C01_wrappers): Clipper64's constructor, AddSubject, AddClip and Execute are logging stubs (the operation itself is C01's not-decided part).
