#!/bin/bash
# usage: seed_verify.sh <src seed dir> <id>   e.g. seed_verify.sh /tmp/wt/C17/seed/3 C17-3
# Confirms in a scratch worktree of /repo HEAD: demo passes on the unchanged tree, fails with the patch,
# the test suite still passes with the patch.  Then copies it to /verif/seeded/<id>/ with meta.json.
set -u
SRC=$1; ID=$2
W=/tmp/seedverify.$ID
rm -rf $W; git -C /repo worktree add -q --detach $W HEAD || exit 9
trap 'git -C /repo worktree remove --force $W >/dev/null 2>&1' EXIT
INC=$W/CPP/Clipper2Lib/include; S=$W/CPP/Clipper2Lib/src
DEF=""; grep -q "USINGZ" $SRC/notes.md 2>/dev/null && grep -qi "DUSINGZ" $SRC/notes.md && DEF="-DUSINGZ"
build() { g++ -std=c++17 -O1 -w $DEF -I$INC $SRC/demo.cpp $S/clipper.engine.cpp $S/clipper.offset.cpp $S/clipper.rectclip.cpp -o $W/demo_$1 2>$W/build_$1.log; }
build orig || { echo "$ID: demo does not build on original"; tail -5 $W/build_orig.log; exit 2; }
timeout 300 $W/demo_orig >$W/out_orig.txt 2>&1; RC0=$?
git -C $W apply $SRC/patch.diff 2>$W/apply.log || { echo "$ID: patch does not apply to HEAD: $(head -2 $W/apply.log)"; exit 3; }
build mut || { echo "$ID: demo does not build with patch"; exit 2; }
timeout 300 $W/demo_mut >$W/out_mut.txt 2>&1; RC1=$?
cmake -G Ninja -S $W/CPP -B $W/_b -DCMAKE_BUILD_TYPE=RelWithDebInfo -DUSE_EXTERNAL_GTEST=ON -DCLIPPER2_TESTS=ON -DCLIPPER2_EXAMPLES=OFF -DCLIPPER2_UTILS=ON -DCLIPPER2_USINGZ=ON -DGTest_DIR=/root/miniconda/lib/cmake/GTest -DCMAKE_POLICY_VERSION_MINIMUM=3.5 -DFETCHCONTENT_FULLY_DISCONNECTED=ON >$W/cfg.log 2>&1 && cmake --build $W/_b -j8 >$W/bld.log 2>&1
BRC=$?
TESTS="build-failed"
if [ $BRC -eq 0 ]; then ctest --test-dir $W/_b -j8 --timeout 600 >$W/ctest.log 2>&1; TESTS=$(grep -E "tests passed|tests failed" $W/ctest.log | head -1); fi
echo "$ID: demo orig rc=$RC0, mutated rc=$RC1, suite: $TESTS"
if [ $RC0 -eq 0 ] && [ $RC1 -ne 0 ] && echo "$TESTS" | grep -q "100% tests passed"; then
  D=/verif/seeded/$ID; mkdir -p $D; cp $SRC/patch.diff $SRC/demo.cpp $D/; cp $SRC/notes.md $D/notes.md 2>/dev/null
  python3 - "$ID" "$D" "$RC0" "$RC1" "$TESTS" "$DEF" <<'PY'
import json,sys,re
ID,D,rc0,rc1,tests,DEF=sys.argv[1:7]
notes=open(D+'/notes.md').read() if True else ''
json.dump(dict(id=ID, property=ID.split('-')[0], source='independent sub-agent given only the property text and a scratch worktree',
  needs_to_manifest=notes[:1500], confirmed=dict(demo_on_unchanged_tree_rc=int(rc0), demo_with_patch_rc=int(rc1), test_suite_with_patch=tests,
  how='tools/seed_verify.sh in a scratch worktree of /repo HEAD: g++ -std=c++17 -O1 %s demo.cpp + the three library .cpp; cmake/ninja + ctest -j8' % DEF),
  detected_by=None), open(D+'/meta.json','w'), indent=1)
PY
  echo "$ID: KEPT"
else
  echo "$ID: REJECTED"
fi
