#!/bin/bash
# Runs the repository's own test suite from /repo's working tree with no verification define
# (this framework adds no hooks to /repo; the reserved guard CLIPPER2_VERIF is never defined).
# Builds in a scratch directory outside /repo and /verif and removes it afterwards.
set -e
B=$(mktemp -d "${TMPDIR:-/tmp}/clipper2_baseline.XXXXXX")
trap 'rm -rf "$B"' EXIT
cmake -G Ninja -S /repo/CPP -B "$B" -DCMAKE_BUILD_TYPE=RelWithDebInfo -DUSE_EXTERNAL_GTEST=ON \
  -DCLIPPER2_TESTS=ON -DCLIPPER2_EXAMPLES=OFF -DCLIPPER2_UTILS=ON -DCLIPPER2_USINGZ=ON \
  -DGTest_DIR=/root/miniconda/lib/cmake/GTest -DCMAKE_POLICY_VERSION_MINIMUM=3.5 \
  -DFETCHCONTENT_FULLY_DISCONNECTED=ON > "$B/configure.log" 2>&1 || { cat "$B/configure.log"; exit 3; }
cmake --build "$B" -j16 > "$B/build.log" 2>&1 || { tail -50 "$B/build.log"; exit 3; }
OUT="${1:-/verif/evidence/baseline_off.junit.xml}"
ctest --test-dir "$B" -j8 --timeout 900 --output-junit "$OUT" | tail -5
echo "junit: $OUT"
