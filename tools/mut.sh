#!/bin/bash
# usage: mut.sh <file-rel> <line> <sed s-expr> <unit> [run]   -- apply a one-line mutation to a SCRATCH WORKTREE of /repo's HEAD
# (the checks are pointed at it with VERIF_REPO; /repo itself is never touched), run the unit, drop the worktree
W=/tmp/mutwt.$$
git -C /repo worktree add -q --detach $W HEAD || exit 9
trap 'git -C /repo worktree remove --force $W >/dev/null 2>&1' EXIT
f=$W/$1; ln=$2; ex=$3; unit=$4; run=$5
cp "$f" /tmp/mut.bak.$$
sed -i "${ln}${ex}" "$f"
if cmp -s "$f" /tmp/mut.bak.$$; then echo "MUTATION DID NOT APPLY"; rm -f /tmp/mut.bak.$$; exit 3; fi
diff /tmp/mut.bak.$$ "$f" | head -6; rm -f /tmp/mut.bak.$$
cd /verif && VERIF_REPO=$W python3 -m vf.dev $unit $run 2>&1 | grep -E "^==|FAILED" | head -12
