#!/bin/bash
# usage: mut.sh <file-rel> <line> <sed s-expr> <unit> [run]   -- apply a one-line mutation to /repo, run the unit, undo
f=/repo/$1; ln=$2; ex=$3; unit=$4; run=$5
cp "$f" /tmp/mut.bak
sed -i "${ln}${ex}" "$f"
if cmp -s "$f" /tmp/mut.bak; then echo "MUTATION DID NOT APPLY"; exit 3; fi
diff /tmp/mut.bak "$f" | head -6
cd /verif && python3 -m vf.dev $unit $run 2>&1 | grep -E "^==|FAILED" | head -12
cp /tmp/mut.bak "$f"
git -C /repo status --short | grep -v _build
