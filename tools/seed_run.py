#!/usr/bin/env python3
"""Runs the checks against every seeded change: apply patch to /repo, run ./check for the property the seed targets
(and any extra properties given), restore /repo.  Records the outcome in seeded/<id>/meta.json (detected_by).
With --wt the patch is applied in a scratch worktree of /repo's HEAD (VERIF_REPO points the checks at it) so that /repo
itself stays untouched while other work is going on; the evidence files are restored afterwards in both modes (evidence
is committed only from runs on the unchanged tree)."""
import os, sys, json, subprocess, glob, shutil
V = '/verif'
args = sys.argv[1:]
WT = None
if '--wt' in args:
    args.remove('--wt')
    WT = '/tmp/seedrun_wt.%d' % os.getpid()
    subprocess.run(['git', '-C', '/repo', 'worktree', 'add', '-q', '--detach', WT, 'HEAD'], check=True)
    os.environ['VERIF_REPO'] = WT
RP = WT or '/repo'
only = args
rows = []
for d in sorted(glob.glob(V + '/seeded/*/')):
    sid = os.path.basename(d.rstrip('/'))
    if only and sid not in only and sid.split('-')[0] not in only:
        continue
    meta = json.load(open(d + 'meta.json'))
    prop = meta['property']
    assert subprocess.run(['git', '-C', RP, 'status', '--porcelain', '--untracked-files=no'], capture_output=True, text=True).stdout.strip() == '', '/repo dirty'
    ap = subprocess.run(['git', '-C', RP, 'apply', d + 'patch.diff'], capture_output=True, text=True)
    if ap.returncode != 0:
        rows.append((sid, 'patch does not apply', '')); continue
    try:
        props = [prop] + meta.get('also_check', [])
        saved = {p: (open(V + '/evidence/%s.json' % p).read() if os.path.exists(V + '/evidence/%s.json' % p) else None) for p in props}
        hits, outs = [], {}
        for p in props:
            r = subprocess.run([V + '/check', p], capture_output=True, text=True, cwd=V)
            v = [l for l in r.stdout.split('\n') if l.startswith('VIOLATION') or l.startswith('  failed obligation')]
            outs[p] = dict(rc=r.returncode, lines=v[:6], undecided=[l for l in r.stdout.split('\n') if l.startswith('UNDECIDED')][:4])
            if r.returncode == 1 and not v:
                outs[p]['stderr'] = r.stderr[-600:]
                print('!! check %s exited 1 without a VIOLATION line: %s' % (p, r.stderr[-600:]))
            elif r.returncode == 1:
                hits.append(p)
    finally:
        subprocess.run(['git', '-C', RP, 'checkout', '--', '.'])
        for p, b in saved.items():
            if b is not None:
                open(V + '/evidence/%s.json' % p, 'w').write(b)
    meta['detected_by'] = dict(checks=hits, detail=outs)
    json.dump(meta, open(d + 'meta.json', 'w'), indent=1)
    rows.append((sid, 'DETECTED by ' + ','.join(hits) if hits else 'missed', '; '.join(x for p in outs for x in outs[p]['lines'][1:2])))
if WT:
    subprocess.run(['git', '-C', '/repo', 'worktree', 'remove', '--force', WT])
for r in rows:
    print('%-7s %-22s %s' % r)
