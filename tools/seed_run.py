#!/usr/bin/env python3
"""Runs the checks against every seeded change: apply patch to /repo, run ./check for the property the seed targets
(and any extra properties given), restore /repo.  Records the outcome in seeded/<id>/meta.json (detected_by)."""
import os, sys, json, subprocess, glob
V = '/verif'
only = sys.argv[1:] 
rows = []
for d in sorted(glob.glob(V + '/seeded/*/')):
    sid = os.path.basename(d.rstrip('/'))
    if only and sid not in only and sid.split('-')[0] not in only:
        continue
    meta = json.load(open(d + 'meta.json'))
    prop = meta['property']
    assert subprocess.run(['git', '-C', '/repo', 'status', '--porcelain', '--untracked-files=no'], capture_output=True, text=True).stdout.strip() == '', '/repo dirty'
    ap = subprocess.run(['git', '-C', '/repo', 'apply', d + 'patch.diff'], capture_output=True, text=True)
    if ap.returncode != 0:
        rows.append((sid, 'patch does not apply', '')); continue
    try:
        props = [prop] + meta.get('also_check', [])
        hits, outs = [], {}
        for p in props:
            r = subprocess.run([V + '/check', p], capture_output=True, text=True, cwd=V)
            v = [l for l in r.stdout.split('\n') if l.startswith('VIOLATION') or l.startswith('  failed obligation')]
            outs[p] = dict(rc=r.returncode, lines=v[:6], undecided=[l for l in r.stdout.split('\n') if l.startswith('UNDECIDED')][:4])
            if r.returncode == 1:
                hits.append(p)
    finally:
        subprocess.run(['git', '-C', '/repo', 'checkout', '--', '.'])
    meta['detected_by'] = dict(checks=hits, detail=outs)
    json.dump(meta, open(d + 'meta.json', 'w'), indent=1)
    rows.append((sid, 'DETECTED by ' + ','.join(hits) if hits else 'missed', '; '.join(x for p in outs for x in outs[p]['lines'][1:2])))
for r in rows:
    print('%-7s %-22s %s' % r)
