#!/usr/bin/env python3
"""Regenerates the seeded-changes table of DESIGN.md (between the markers <!-- seeds:begin --> and <!-- seeds:end -->)
from seeded/<id>/meta.json (detected_by, written by tools/seed_run.py) and seeded/descriptions.json (one line per change)."""
import json, glob, os, re
V = '/verif'
d = json.load(open(V + '/seeded/descriptions.json'))
rows, caught = [], 0
for p in sorted(glob.glob(V + '/seeded/*/meta.json')):
    m = json.load(open(p)); sid = m['id']; db = m.get('detected_by') or {}
    if db.get('checks'):
        caught += 1
        c = db['checks'][0]; ln = (db['detail'][c]['lines'] + ['', ''])[1].strip()
        mm = re.match(r'failed obligation (\S+) \[(\S+)\] (.*)', ln)
        if mm:
            how = '%s — %s `%s`' % (c, mm.group(1), mm.group(2))
            if 'assertion' in mm.group(2):
                how += ' ("%s")' % mm.group(3)[:70]
        else:
            how = c + ' — ' + (ln or 'static scan: writable symbol / function-local static')
    else:
        und = [u for c in db.get('detail', {}).values() for u in c.get('undecided', [])]
        how = '**missed**: ' + d['missed_because'].get(sid, ('undecided (exit 2): ' + und[0]) if und else 'no obligation under contract covers it')
    rows.append('| %s | %s | %s |' % (sid, d['change'].get(sid, '?'), how))
tbl = '| seed | change | caught by (first failing obligation) |\n|---|---|---|\n' + '\n'.join(rows) + '\n\n%d of %d caught.' % (caught, len(rows))
t = open(V + '/DESIGN.md').read()
a, b = t.index('<!-- seeds:begin -->'), t.index('<!-- seeds:end -->')
open(V + '/DESIGN.md', 'w').write(t[:a] + '<!-- seeds:begin -->\n' + tbl + '\n' + t[b:])
print('%d of %d caught' % (caught, len(rows)))
