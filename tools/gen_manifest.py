#!/usr/bin/env python3
"""Regenerates /verif/MANIFEST.json and /verif/not_decided.json from the table below and the
units present under /verif/contracts (a property is claimed iff at least one unit serves it)."""
import json, os, sys
VERIF = os.path.dirname(os.path.dirname(os.path.abspath(__file__)))
sys.path.insert(0, VERIF)
from vf import engine as E

TECH = 'CBMC 6.11 code contracts (goto-instrument --dfcc) on functions extracted mechanically from /repo each run'

# id -> (decided text, not-decided list, design ref)
P = {
 'C01': ('Proof (contracts, all inputs) of the per-edge kernels the region semantics rests on: IsContributingClosed == boundary test of OP(cliptype, FILLED(fillrule, w_subj), FILLED(fillrule, w_clip)) for all 5x4 combinations and all winding numbers; the winding-count update of IntersectEdges preserves the face-winding representation; AddNewIntersectNode keeps the vertex in the scanbeam and on an edge; SetWindCountForClosedPathEdge (bounded AEL) establishes the representation; ring surgery (AddOutPt, JoinOutrecPaths, AddLocalMaxPoly, SwapOutrecs, DuplicateOp) keeps the OutPt rings consistent; UpdateEdgeIntoAEL advances an edge to the next vertex in its winding direction and schedules a scanline at its top; the join pairing is maintained by Split/CheckJoinLeft/CheckJoinRight; IsValidAelOrder orders edges that are apart by x alone; bounded DoTopOfScanbeam and InsertLeftEdge; the Paths64 wrappers BooleanOp/Union always run the operation (no shortcut on empty clips); bounded BuildIntersectList (one node for exactly the pairs that change order in a scanbeam), ProcessIntersectList (only AEL neighbours are intersected, AEL ordered afterwards, node search stays in bounds), DoMaxima, InsertLocalMinimaIntoAEL (one closed minimum) and DoHorizontal (single horizontal); ClipperBase::ExecuteInternal phase order per scanbeam (loop contract) and DoIntersections; IntersectEdges preserves "hot iff the result region differs on the two sides" for every clip type, fill rule and winding number.',
         ['AEL ordering, intersection ordering, horizontals, ring assembly, intersection-point accuracy (both precision builds): invariants over unbounded linked structures / floating point'], '5 C01'),
 'C02': ('Proof / bounded proof of necessary conditions on the functions the rectilinear mechanism consists of: TopX returns the edge\'s own x for a vertical edge at every y and the end points exactly (so scanline crossings of axis-parallel input are input coordinates); TrimHorz keeps a horizontal edge\'s top on an input vertex of its own line and never passes a maximum, ResetHorzDirection spans the sweep interval by curr_x and top.x, UpdateHorzSegment builds maximal runs on one line with a single claim per left end (bounded); DoHorizontal crosses only immediate neighbours at (x of the crossed edge, y of the horizontal), exactly the edges inside its span (bounded); CheckJoinLeft/CheckJoinRight/Split keep the join pairing; ProcessHorzJoins splices / splits rings without losing or duplicating a vertex (bounded); IsValidAelOrder orders edges that are apart by x alone; CleanCollinear leaves no removable vertex (bounded, abstract geometry); GetLastOp is the vertex the edge last added; the horizontal segment list is cleared per scanbeam.',
         ['exactness of the solution as a whole (per-cell coverage, exact area, coordinates taken from input coordinates): consecutive horizontals / open paths in DoHorizontal, ConvertHorzSegsToJoins and the sweep invariants over the unbounded AEL and OutPt rings are not under contract'], '5 C02'),
 'C03': ('Proof of the structural predicates (PtsReallyClose, IsVerySmallTriangle, IsValidClosedPath) and of DoSplitOp (the splice creates no equal neighbours; loop-free, rings of 4/5/6); bounded checks of BuildPath64 (>=3 vertices, no equal neighbours incl. last/first) and CleanCollinear (no removable vertex left, over abstract geometry).',
         ['FixSelfIntersects loop, bounding-box clause, all geometric clauses (spikes beyond CleanCollinear, crossings, orientation vs nesting, Union idempotence)'], '5 C03'),
 'C04': ('Proof (loop contracts) that BuildPaths64/BuildTree64/BuildPathsD/BuildTreeD visit every OutRec of the final list exactly once and build every path through the same callee with the same arguments in the paths and tree variants; CheckBounds call trace; IsHole <=> even non-zero Level; bounded Path1InsidePath2 vote (boundary midpoint counts as inside), bounded PointInOpPolygon vs the exact even-odd oracle, RecursiveCheckOwners (first qualifying tentative owner, child of its node or of the root), SetOwner acyclicity and CheckSplitOwner progress.',
         ['nesting correctness of the owner search as a whole (see finding F14 in DESIGN.md), area equality'], '5 C04'),
 'C05': ("Proof of IsContributingOpen == the statement's inside/outside rule per clip type and fill rule; the builders hand open OutRecs to the open solution with isOpen=true in both variants; bounded SetWindCountForOpenPathEdge and AddPaths_ open end flags; IntersectEdges keeps an open edge hot exactly while the face it runs through makes it contribute (all clip types, fill rules, winding numbers); bounded InsertLocalMinimaIntoAEL / DoMaxima at open ends.",
         ['where pieces are cut, lengths, tolerance; closed result unchanged by open subjects'], '5 C05'),
 'C06': ('Proof of the sign/orientation plumbing of polygon offsetting (Group reversal flag, group_delta_ sign, |delta|<0.5 and delta==0 shortcuts, clean-up union fill rule / ReverseSolution) and of the join selection of OffsetPoint the vertex traversal of OffsetPolygon (call-trace contracts) and BuildNormals (one normal per vertex, cyclic successor); DoBevel/DoMiter/DoRound/DoSquare place their vertices along the adjacent edge normals / the bisector by the signed (resp. absolute) group delta (floating-point operations uninterpreted); arc step set up per group before round joins or round ends are drawn.',
         ['the offset region itself (trigonometry, floating point), DoSquare/DoMiter/DoRound geometry'], '5 C06'),
 'C07': ('Proof that per-path state of DoGroupOffset (end type, delta) is re-derived from the group for every path, and of OffsetOpenPath (caps by end type at both ends, forward pass, normal reversal, backward pass); arc step set up for round ends.',
         ['stroke geometry, +-delta symmetry, OffsetOpenJoined'], '5 C07'),
 'C08': ('Proof of GetLocation (exact side / inside classification), Rect64 predicates, location arithmetic, the Execute shortcuts (inside paths returned unchanged, outside paths dropped), and RectClip64::ExecuteInternal: corner insertion indexes only sides, corner loops terminate, indices in range; RectClip64::Add ring building; Path1ContainsPath2 vote; start state of the location machine; bounded CheckEdges registration (a vertex is registered on a side exactly when its arriving segment runs along it).',
         ['what the location state machine outputs beyond safety, TidyEdges, intersection points, winding equality'], '5 C08'),
 'C09': ('Proof of the shared rectangle kernel incl. GetNextLocation (loop contracts), RectClipLines64::Execute shortcuts and per-polyline scratch reset, ExecuteInternal call trace (walk starts at segment 1); bounded GetPath (ring order, two-point pieces kept).',
         ['piece positions and lengths (intersection points)'], '5 C09'),
 'C10': ('Proof of index/iterator safety and UB-freedom (bounds, pointers, signed overflow, conversions, division by zero, float overflow/NaN where stated) of every function under contract, with the coordinate ranges of the property as preconditions; call-site preconditions of the offsetting helpers; GetDx/TopX integer arithmetic; CheckSplitOwner progress contract (termination); MoveSplits keeps every split list owned (no leak); bounded PointInPolygon on polygons lying in the query line; bounded ProcessHorzJoins (rings stay consistent and singly owned; the absorbed OutRec drops its ring before an allocation can fail). bounded DisposeOutPts/DisposeAllOutRecs/DeleteEdges free everything exactly once.',
         ['termination and memory safety of whole operations; leaks; the allocation-failure clause (no exceptions in the verified C dialect)'], '5 C10'),
 'C11': ('Proof of CheckPrecisionRange (both exception configurations), ScalePath/ScalePaths error reporting, PathsD entry points check precision first and return empty on error (call-trace), export-layer argument validation; AddLocalMaxPoly clears succeeded_ only on a front/back mismatch without an open end.',
         ['"Execute returns true for every input" (needs a global sweep invariant)'], '5 C11'),
 'C12': ('Proof that CleanUp/Clear reset every scratch member, that RectClip64::Execute starts every path with empty scratch state, the DoGroupOffset per-path invariant, and AddReuseableData (copies every local minimum, container untouched); Clipper64::Execute empties the solutions first and cleans up last; ClipperOffset::Execute overloads start from fresh targets and release the temporary solution exactly once.',
         ['bit-identical reruns, arbitrary call sequences, reusable-container sharing'], '5 C12'),
 'C13': ('Proof that LocMinSorter is the strict weak order (y desc, x asc) and IntersectListSort its counterpart; IsValidAelOrder orders two edges that are apart at the scanline by x alone; TopX/GetDx free of integer overflow; GetSegmentIntersectPt invariant under translation (determinant and parameter from differences only); IsContributingClosed symmetric under path reversal (Positive<->Negative) and subject/clip exchange (Intersection, Union, Xor); bounded check that AddPaths_ flags exactly the cyclic local extrema independent of start vertex, duplicates and closing vertex.',
         ['order-independence of the sweep, all algebraic identities and transformations'], '5 C13'),
 'C14': ("Every assigns clause of every function under contract names only parameters and object members (CBMC checks every write against it, so a static scratch variable fails an assigns obligation); supporting static scan (nm on the freshly built objects plus a translation unit instantiating the header-only API and the C export layer, with and without USINGZ): every symbol in a writable section is std::__ioinit, declared const in the sources, or a string-literal pointer that is never written (known finding F12: the USINGZ export layer's callback globals).",
         ['interleavings (CBMC has no threads); nothing here explores schedules'], '5 C14'),
 'C15': ('Proof of SetZ; USINGZ and plain IntersectEdges make the same building calls and every vertex created at a crossing reaches SetZ exactly once iff a callback is installed; the USINGZ/plain twins of the offsetting helpers emit bit-identical x,y; Point::Init copies z; ClipperOffset::ZCB / ClipperD::ZCB / the DoSplitOp callback never touch x,y and account for z; every x/y contract re-proved with -DUSINGZ.',
         ['equality of whole solutions across builds; ClipperD::CheckCallback (std::bind)'], '5 C15'),
 'C16': ('Proof (call-trace contracts) that every PathsD overload forwards to the integer operation with the documented scale on paths, delta and arc tolerance and descales the result; Point<int64_t>::Init(double) rounds to a nearest integer; BuildPathsD/BuildTreeD pass invScale_; ScalePath scales x by scale_x and y by scale_y; bounded BuildPathD descaling; ScaleRect<int64,double> rounds each side; PolyPath Clear frame.',
         ['rounding of x*scale itself (floating-point product), precision loss on descale, equality of complete results'], '5 C16'),
 'C17': ('Proof (call-trace contracts) that every exported function forwards every parameter to the slot of the same meaning; argument validation; marshaling length arithmetic and in-bounds access; CRectToRect / ConvertCPathToPathT; bounded ConvertCPathsDToPaths64 order and rounding; polytree writers by induction on depth (block length, layout, no overrun of the allocated array).',
         ['equality of complete results with the C++ call beyond forwarding and marshaling'], '5 C17'),
 'C18': ('Proof for all 64-bit inputs whose differences do not overflow: TriSign, ProductsAreEqual, CrossProductSign, IsCollinear on both the __int128 and the portable branch (products as exact ghost products), Multiply carry chain; bounded PointInPolygon vs exact even-odd oracle; GetSegmentIntersectPt: parallel reported, result on the first segment (t clamped), no integer overflow, determinant and parameter invariant under translation; bounded Area exactness for small polygons anywhere in range.',
         ['accuracy of GetSegmentIntersectPt, GetClosestPointOnSegment, Area (floating-point multiply/divide is beyond every installed back end); the 64x64 multiplier itself (assumption A1/A2)'], '5 C18'),
 'C19': ('Minkowski quad construction (indices, closing edge iff closed, count) and forwarding to Union(NonZero); empty input => empty result.',
         ['that the union of the quads is right (= C01)'], '5 C19'),
 'C20': ('Proof (loop contracts, unbounded length) for GetNext/GetPrior, RDP/RamerDouglasPeucker, TrimCollinear (in-order subsequence, open end points kept, index safety), GetBounds (int64 and double), TranslatePath, StripNearEqual and Length (defining equations, distances as stubs); bounded SimplifyPath and RDP epsilon clause.',
         ['Length, Ellipse, area preservation, StripNearEqual/StripDuplicates (floating point / std::unique)'], '5 C20'),
}
NA = {
}


def main():
    units = E.load_units()
    served = set()
    for u in units:
        served.update(u.props)
        served.update(u.safetyprops)
        for r in u.runs:
            if r.get('props'):
                served.update(r['props'].split(','))
    checks, na, nd = [], [], {}
    for pid in sorted(P):
        dec, notdec, ref = P[pid]
        nd[pid] = notdec
        if pid not in served:
            na.append(dict(property_id=pid, reason='not built yet in this round (planned: DESIGN.md section ' + ref + ')'))
            continue
        checks.append(dict(
            property_id=pid,
            quick_cmd='./check %s --tier quick' % pid,
            thorough_cmd='./check %s --tier thorough' % pid,
            evidence_file='evidence/%s.json' % pid,
            replay_cmd_template='./check %s --replay {path}' % pid,
            engine='vf',
            level_claimed=dict(category='other' if pid == 'C14' else 'proof', text=dec, design_ref='DESIGN.md section ' + ref),
            level_note='Partial: decides only the per-function necessary conditions listed; NOT decided: ' + '; '.join(notdec) +
                       '. Trusted: cbmc 6.11 + SAT solver, the extractor\'s rewrite rules (logged per run), stub contracts and ghost abstractions listed in the evidence file under assumptions.',
            technique=TECH))
    for pid, why in NA.items():
        na.append(dict(property_id=pid, reason=why))
    m = dict(version=1,
             setup_cmd='python3 -m compileall -q vf && test -x ./check',
             hooks=dict(guard='CLIPPER2_VERIF', enable='none: contracts are sidecar files under /verif/contracts spliced into text extracted from /repo on every run; the guard name is reserved and unused',
                        baseline_off_cmd='/verif/tools/baseline_off.sh', source_commits=[], add_only=True),
             engines=[dict(name='vf', path='vf/', serves_properties=sorted(served),
                           kind_free_text='extractor (C++ function text -> C) + contract splicer + goto-instrument --dfcc/cbmc driver + triage/replay/evidence')],
             checks=checks, not_applicable=na,
             notes='See DESIGN.md. Exit 2 from a check means undecided (extraction miss, solver timeout), never a violation.')
    json.dump(m, open(os.path.join(VERIF, 'MANIFEST.json'), 'w'), indent=1)
    json.dump(nd, open(os.path.join(VERIF, 'not_decided.json'), 'w'), indent=1)
    print('claimed:', [c['property_id'] for c in checks])
    print('not applicable:', [n['property_id'] for n in na])


main()
