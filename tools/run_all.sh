#!/bin/bash
# Runs every claimed check (quick tier) on /repo as it is, 3 at a time, and validates manifest + evidence.
cd /verif
ids=$(python3 -c "import json;print(' '.join(c['property_id'] for c in json.load(open('MANIFEST.json'))['checks']))")
rc=0
printf '%s\n' $ids | xargs -P 3 -I{} sh -c './check {} --tier '"${1:-quick}"' > /tmp/runall.{}.log 2>&1; echo "{} exit=$?"'
for i in $ids; do tail -1 /tmp/runall.$i.log; grep -E "^(VIOLATION|UNDECIDED|KNOWN)" /tmp/runall.$i.log | cut -c1-220; done
tools/validate.py | tail -1
