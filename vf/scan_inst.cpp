// C14 static scan: instantiates the header-only part of the library (templates and inline functions are emitted
// only in translation units that use them) so that function-local statics and namespace-scope objects defined in
// the headers show up in this object's symbol table.  Never run, only compiled and inspected with nm.
#include "clipper2/clipper.h"
#include "clipper2/clipper.export.h"
using namespace Clipper2Lib;

double vf_scan_sink;
template <typename T> static void use(const T& v) { vf_scan_sink += static_cast<double>(sizeof(v)); }

void vf_scan_instantiate()
{
  Paths64 p64; PathsD pd; Path64 a64; PathD ad; PolyTree64 t64; PolyTreeD td; Rect64 r64(0, 0, 1, 1); RectD rd(0, 0, 1, 1);
  Point64 q64(0, 0); PointD qd(0, 0);
  use(BooleanOp(ClipType::Union, FillRule::NonZero, p64, p64));
  BooleanOp(ClipType::Union, FillRule::NonZero, p64, p64, t64);
  use(BooleanOp(ClipType::Union, FillRule::NonZero, pd, pd, 2));
  BooleanOp(ClipType::Union, FillRule::NonZero, pd, pd, td, 2);
  use(Intersect(p64, p64, FillRule::EvenOdd)); use(Intersect(pd, pd, FillRule::EvenOdd));
  use(Union(p64, p64, FillRule::EvenOdd)); use(Union(pd, pd, FillRule::EvenOdd));
  use(Union(p64, FillRule::EvenOdd)); use(Union(pd, FillRule::EvenOdd));
  use(Difference(p64, p64, FillRule::EvenOdd)); use(Difference(pd, pd, FillRule::EvenOdd));
  use(Xor(p64, p64, FillRule::EvenOdd)); use(Xor(pd, pd, FillRule::EvenOdd));
  use(InflatePaths(p64, 1.0, JoinType::Round, EndType::Polygon)); use(InflatePaths(pd, 1.0, JoinType::Round, EndType::Polygon));
  use(TranslatePath(a64, 1, 1)); use(TranslatePath(ad, 1.0, 1.0)); use(TranslatePaths(p64, 1, 1)); use(TranslatePaths(pd, 1.0, 1.0));
  use(RectClip(r64, p64)); use(RectClip(r64, a64)); use(RectClip(rd, pd)); use(RectClip(rd, ad));
  use(RectClipLines(r64, p64)); use(RectClipLines(r64, a64)); use(RectClipLines(rd, pd)); use(RectClipLines(rd, ad));
  use(PolyTreeToPaths64(t64)); use(PolyTreeToPathsD(td)); use(CheckPolytreeFullyContainsChildren(t64));
  use(MakePath({ 1, 2, 3, 4 })); use(MakePathD({ 1.0, 2.0, 3.0, 4.0 }));
  use(TrimCollinear(a64)); use(TrimCollinear(ad, 2));
  use(Distance(q64, q64)); use(Length(a64)); use(Length(ad)); use(NearCollinear(q64, q64, q64, 0.1));
  use(SimplifyPath(a64, 1.0)); use(SimplifyPath(ad, 1.0)); use(SimplifyPaths(p64, 1.0)); use(SimplifyPaths(pd, 1.0));
  use(RamerDouglasPeucker(a64, 1.0)); use(RamerDouglasPeucker(ad, 1.0)); use(RamerDouglasPeucker(p64, 1.0)); use(RamerDouglasPeucker(pd, 1.0));
  use(Ellipse(r64)); use(Ellipse(rd)); use(Ellipse(q64, 1.0, 1.0)); use(Ellipse(qd, 1.0, 1.0));
  use(StripNearEqual(a64, 1.0, true)); use(StripNearEqual(p64, 1.0, true)); StripDuplicates(a64, true); StripDuplicates(p64, true);
  use(GetBounds(a64)); use(GetBounds(p64)); use(GetBounds(ad)); use(GetBounds(pd));
  int ec = 0; use(ScalePaths<int64_t, double>(pd, 2.0, ec)); use(ScalePaths<double, int64_t>(p64, 0.5, ec)); use(ScalePath<int64_t, double>(ad, 2.0, ec));
  use(Area(a64)); use(Area(p64)); use(Area(ad)); use(Area(pd)); use(IsPositive(a64)); use(IsPositive(ad));
  use(PointInPolygon(q64, a64)); use(PointInPolygon(qd, ad));
  use(MinkowskiSum(a64, a64, true)); use(MinkowskiDiff(a64, a64, true)); use(MinkowskiSum(ad, ad, true, 2)); use(MinkowskiDiff(ad, ad, true, 2));
  use(GetClosestPointOnSegment(q64, q64, q64)); use(PerpendicDistFromLineSqrd(q64, q64, q64)); use(CrossProduct(q64, q64, q64)); use(DotProduct(q64, q64, q64));
  use(IsCollinear(q64, q64, q64)); use(GetSegmentIntersectPt(q64, q64, q64, q64, q64)); use(SegmentsIntersect(q64, q64, q64, q64));
  Clipper64 c64; ClipperD cd(2); ClipperOffset co; ReuseableDataContainer64 rdc;
  rdc.AddPaths(p64, PathType::Subject, false); c64.AddReuseableData(rdc);
  c64.AddSubject(p64); c64.AddOpenSubject(p64); c64.AddClip(p64); c64.Execute(ClipType::Union, FillRule::NonZero, p64); c64.Execute(ClipType::Union, FillRule::NonZero, t64, p64);
  cd.AddSubject(pd); cd.AddOpenSubject(pd); cd.AddClip(pd); cd.Execute(ClipType::Union, FillRule::NonZero, pd); cd.Execute(ClipType::Union, FillRule::NonZero, td, pd);
  co.AddPaths(p64, JoinType::Round, EndType::Polygon); co.Execute(1.0, p64); co.Execute(1.0, t64);
  // C export layer
  CPaths64 c1 = nullptr, c2 = nullptr; use(BooleanOp64(0, 0, nullptr, nullptr, nullptr, c1, c2));
  CPolyTree64 ct = nullptr; use(BooleanOp_PolyTree64(0, 0, nullptr, nullptr, nullptr, ct, c1));
  CPathsD d1 = nullptr, d2 = nullptr; use(BooleanOpD(0, 0, nullptr, nullptr, nullptr, d1, d2)); CPolyTreeD dt = nullptr; use(BooleanOp_PolyTreeD(0, 0, nullptr, nullptr, nullptr, dt, d1));
  use(InflatePaths64(nullptr, 1, 0, 0)); use(InflatePathsD(nullptr, 1, 0, 0)); use(InflatePath64(nullptr, 1, 0, 0)); use(InflatePathD(nullptr, 1, 0, 0));
  CRect64 cr{ 0, 0, 1, 1 }; CRectD crd{ 0, 0, 1, 1 };
  use(RectClip64(cr, nullptr)); use(RectClipD(crd, nullptr)); use(RectClipLines64(cr, nullptr)); use(RectClipLinesD(crd, nullptr));
  use(MinkowskiSum64(nullptr, nullptr, true)); use(MinkowskiDiff64(nullptr, nullptr, true));
  use(Version());
}
