"""Unit templates -> C translation units -> goto-cc / goto-instrument --dfcc / cbmc.

A unit is a C template under /verif/contracts/.  Plain lines are copied.  Directives:

  //@unit <name>                       unit name
  //@props C18 C10                     properties the unit serves
  //@desc  free text
  //@extract file=<rel> func=<name> [sig=<re>] [nth=k] [scope=Class] [as=<cname>]
  //         [byval=a,b] [byptr=c,d] [self=Type] [selfcalls=f,g] [cpp=D1,D2]
  //         [block=<begin re>@@<end re> proto="void f(...)"]  (R19)
  //  //@sub /regex/repl/ [min=N]      unit-specific rewrite, must fire >= N (default 1)
  //  __CPROVER_requires(...) ...      contract text spliced between declarator and body
  //  //@loop N                        following lines: loop contract of the N-th loop
  //@end
  //@run name=<n> entry=<harness> [enforce=f] [rec=1] [replace=g,h] [loops=1] [defs=A,B]
  //       [flags="--bounds-check ..."] [timeout=s] [unwind=N] [bounded="text"] [tier=quick|thorough]
  //       [expect=fail:<regex>]  (canary / known finding runs)
"""
import os, re, shlex, subprocess, time, json, hashlib, tempfile, shutil
from . import extract as X

VERIF = os.path.dirname(os.path.dirname(os.path.abspath(__file__)))
CONTRACTS = os.path.join(VERIF, 'contracts')


class Unit:
    def __init__(self, path):
        self.path = path
        self.name = os.path.basename(path)[:-2]
        self.props = []
        self.safetyprops = []
        self.desc = ''
        self.runs = []
        self.lines = self._load(path)
        for ln in self.lines:
            if ln.startswith('//@props'):
                self.props = ln.split()[1:]
            elif ln.startswith('//@safetyprops'):
                self.safetyprops = ln.split()[1:]
            elif ln.startswith('//@unit'):
                self.name = ln.split()[1]
            elif ln.startswith('//@desc'):
                self.desc += ln[7:].strip() + ' '
            elif ln.startswith('//@run'):
                self.runs.append(parse_kv(ln[6:]))

    def _load(self, path):
        out = []
        for ln in open(path).read().split('\n'):
            if ln.startswith('//@include'):
                out.extend(self._load(os.path.join(CONTRACTS, 'include', ln.split()[1])))
            else:
                out.append(ln)
        return out

    def instantiate(self, defs):
        """Produce C text for a set of preprocessor defines.  Returns (text, info)."""
        out = []
        info = dict(functions=[], rewrite_log={}, assumptions=[], loops=0, loop_contracts=0)
        i = 0
        L = self.lines
        while i < len(L):
            ln = L[i]
            if ln.startswith('//@extract'):
                opts = parse_kv(ln[10:])
                j = i + 1
                spec = []
                while not L[j].startswith('//@end'):
                    spec.append(L[j])
                    j += 1
                dn = [d.split('=')[0] for d in defs]
                if (opts.get('ifdef') and opts['ifdef'] not in dn) or (opts.get('ifndef') and opts['ifndef'] in dn):
                    i = j + 1
                    continue
                out.append(self._extract(opts, spec, defs, info))
                i = j + 1
                continue
            if ln.startswith('//@enum'):
                o = parse_kv(ln[7:])
                text, n, line = X.extract_enum(X.read_repo(o['file']), o['name'])
                info['functions'].append(dict(name='enum ' + o['name'], file=o['file'], line=line,
                                              sha=hashlib.sha1(text.encode()).hexdigest()[:12], rules={'R7.enumdef': n}))
                out.append(text)
                i += 1
                continue
            if ln.startswith('//@expect'):
                # //@expect file=<rel> /regex/  — a fact about the source the hand-written part relies on
                o = parse_kv(ln[9:].split(' /', 1)[0])
                pat = ln[9:].split(' /', 1)[1].rstrip()
                pat = pat[:-1] if pat.endswith('/') else pat
                if not re.search(pat, X.read_repo(o['file'])):
                    raise X.ExtractError('%s: expected source fact /%s/ not found in %s' % (self.name, pat, o['file']))
                info['functions'].append(dict(name='expect /' + pat + '/', file=o['file'], line=0, sha='-', rules={'Rx.expect': 1}))
                i += 1
                continue
            if ln.startswith('//@const'):
                o = parse_kv(ln[8:])
                for nm in o['name'].split(','):
                    text, line = X.extract_const(X.read_repo(o['file']), nm, list(defs))
                    info['functions'].append(dict(name='const ' + nm, file=o['file'], line=line,
                                                  sha=hashlib.sha1(text.encode()).hexdigest()[:12], rules={'Rc.const': 1}))
                    out.append(text)
                i += 1
                continue
            if ln.startswith('//@structinit'):
                # `new T()` / `T()` of a class without user-provided constructor: zero-initialisation, then the default
                # member initialisers AS WRITTEN in the header (extracted on every run)
                o = parse_kv(ln[13:])
                src = X.read_repo(o['file'])
                cppdefs = [d for d in o.get('cpp', '').split(',') if d] + list(defs)
                inits = []
                _, names, line = X.extract_struct(src, o['name'], cppdefs, inits)
                if re.search(r'\b' + re.escape(o['name']) + r'\s*\(', X.strip_comments_keep_layout(src).split('struct ' + o['name'])[1].split('\n\t};')[0].replace('~' + o['name'], '')):
                    raise X.ExtractError('%s: struct %s has a user-provided constructor' % (self.name, o['name']))
                body = ''.join('  o->%s = %s;\n' % (f, v) for f, v in inits if v is not None and v != 'VF_EMPTY_INIT')
                text = 'static void vf_init_%s(struct %s* o)\n{\n  __CPROVER_array_set((char*)o, 0);\n%s}' % (o['name'], o['name'], body)
                info['functions'].append(dict(name='init ' + o['name'], file=o['file'], line=line,
                                              sha=hashlib.sha1(text.encode()).hexdigest()[:12], rules={'R6.inits': len([1 for _, v in inits if v is not None])}))
                out.append(text)
                i += 1
                continue
            if ln.startswith('//@struct'):
                o = parse_kv(ln[9:])
                src = X.read_repo(o['file'])
                cppdefs = [d for d in o.get('cpp', '').split(',') if d] + list(defs)
                text, names, line = X.extract_struct(src, o['name'], cppdefs)
                for rt in [r for r in o.get('retype', '').split(',') if r]:
                    fld, ty = rt.split(':')
                    text, k = re.subn(r'^(\s*)[\w:<>\s*]+?\b' + fld + r';', r'\1' + ty + ' ' + fld + ';', text, flags=re.M)
                    if k != 1:
                        raise X.ExtractError('%s: retype of field %s.%s failed' % (self.name, o['name'], fld))
                if o.get('as'):
                    text = text.replace('struct ' + o['name'] + ' {', 'struct ' + o['as'] + ' {', 1)
                info['functions'].append(dict(name='struct ' + o['name'], file=o['file'], line=line,
                                              sha=hashlib.sha1(text.encode()).hexdigest()[:12], rules={'R6.fields': len(names)}))
                info.setdefault('fields', {})[o['name']] = names
                out.append(text)
                i += 1
                continue
            if ln.startswith('//@assume'):
                info['assumptions'].append(ln[9:].strip())
            if ln.startswith('//@') and not ln.startswith('//@@'):
                i += 1
                continue
            out.append(ln)
            i += 1
        return '\n'.join(out) + '\n', info

    def _extract(self, o, spec, defs, info):
        src = X.read_repo(o['file'])
        subs, contract, loops, cur = [], [], {}, None
        pre_subs = []
        for s in spec:
            st = s.strip()
            if st.startswith('//@sub') or st.startswith('//@presub'):
                pre = st.startswith('//@presub')
                body = st[9:].strip() if pre else st[6:].strip()
                delim = body[0]
                parts = body[1:].split(delim)
                pat, repl = parts[0], parts[1]
                rest = parse_kv(delim.join(parts[2:]))
                (pre_subs if pre else subs).append((pat, repl, int(rest.get('min', 1)), rest.get('ifdef')))
            elif st.startswith('//@prepysub'):
                kv = parse_kv(st[11:])
                nm = [k for k in kv if k not in ('min', 'ifdef')][0]
                pre_subs.append(('py:' + nm, None, int(kv.get('min', 1)), kv.get('ifdef')))
            elif st.startswith('//@pysub'):
                kv = parse_kv(st[8:])
                nm = [k for k in kv if k not in ('min', 'ifdef')][0]
                subs.append(('py:' + nm, None, int(kv.get('min', 1)), kv.get('ifdef')))
            elif st.startswith('//@loop'):
                cur = int(st.split()[1])
                loops[cur] = ''
            elif st.startswith('//@contract'):
                cur = None
            elif cur is None:
                contract.append(s)
            else:
                loops[cur] += s + '\n'
        if 'block' in o:
            b, e = o['block'].split('@@')
            blk = X.find_block(src, b, e)
            text = o['proto'] + '\n@@CONTRACT@@\n{\n' + blk['text'] + '\n}\n'
            head, name, params, trailer, body = '', o.get('as', 'block'), '', '', ''
            line = blk['line']
            raw = blk['text']
            fn = None
        else:
            fn = X.find_function(src, o['func'], sig=o.get('sig'),
                                 nth=int(o['nth']) if 'nth' in o else None, scope=o.get('scope'))
            raw = src[fn['start']:fn['end']]
            line = fn['line']
        cppdefs = [d for d in o.get('cpp', '').split(',') if d] + list(defs)
        rw = X.Rewriter()
        if fn is not None:
            head, params, trailer, body = fn['head'], fn['params'], fn['trailer'], fn['body']
            # resolve #if inside each part (body mostly)
            body, used = X.run_cpp(body, cppdefs)
            if used:
                rw.log['cpp'] = 1
            params, _ = X.run_cpp(params, cppdefs)
            head = re.sub(r'^[ \t]*#.*$', '', head, flags=re.M)
            cname = o.get('as', o['func'].split('::')[-1])
            trailer_c = ''
            if ':' in trailer and o.get('ctor'):
                # member-init list -> assignments at top of body (R16)
                inits = trailer.split(':', 1)[1]
                assigns = []
                for mm in re.finditer(r'(\w+)\s*\(([^()]*(?:\([^()]*\)[^()]*)*)\)', inits):
                    assigns.append('%s = %s;' % (mm.group(1), mm.group(2)))
                body = '{\n' + '\n'.join(assigns) + '\n' + body[1:]
                rw.log['R16.ctorinit'] = len(assigns)
            selfp = ''
            if 'self' in o:
                selfp = o['self'] + '* self'
                if params.strip():
                    selfp += ', '
            # default arguments dropped
            params = rw.sub('R1.defarg', r'\s*=\s*[^,()]+(?=,|$)', '', params)
            if o.get('ctor'):
                head = 'void '
            text = head + cname + '(' + selfp + params + ')\n@@CONTRACT@@\n' + body
        else:
            text, used = X.run_cpp(text, cppdefs)
        for pat, repl, mn, ifd in pre_subs:
            if ifd and ifd not in defs:
                continue
            if pat.startswith('py:'):
                from . import rules
                text, n = rules.RULES[pat[3:]](text)
            else:
                text, n = re.subn(pat, repl, text)
            rw.log['presub:' + pat] = n
            if n < mn:
                raise X.ExtractError('%s: presub /%s/ fired %d < %d' % (self.name, pat, n, mn))
        text = rw.generic(text, o)
        text = rw.tmpl_types(text, o)
        if o.get('rangefor'):
            text = rw.rangefor(text)
        if o.get('iters'):
            text = rw.iterators(text, o['iters'])
        if o.get('vec'):
            text = rw.vectors(text, o['vec'].split(','))
        if o.get('byval'):
            text = rw.byval(text, o['byval'].split(','))
        if o.get('byptr'):
            text = rw.byptr(text, o['byptr'].split(','))
        if 'self' in o:
            text = rw.members(text, 'self', [m for m in o.get('members', '').split(',') if m])
        if o.get('selfcalls'):
            text = rw.selfcalls(text, o['selfcalls'].split(','))
        for pat, repl, mn, ifd in subs:
            if ifd and ifd not in defs:
                continue
            if pat.startswith('py:'):
                from . import rules
                text, n = rules.RULES[pat[3:]](text)
            else:
                text, n = re.subn(pat, repl, text)
            rw.log['sub:' + pat] = n
            if n < mn:
                raise X.ExtractError('%s: sub /%s/ fired %d < %d' % (self.name, pat, n, mn))
        nl = 0
        macro = ''
        if fn is not None and o.get('refmacro', '0') != '0':
            # callers written for reference parameters pass lvalues: F(x) -> F__p(&(x))
            sig_part = text.split('@@CONTRACT@@', 1)[0]
            plist = sig_part[sig_part.index('(') + 1: sig_part.rindex(')')]
            pnames = [re.search(r'(\w+)\s*$', q.strip()).group(1) for q in plist.split(',') if q.strip()]
            ptrs = set(o.get('byptr', '').split(','))
            text = re.sub(r'\b' + cname + r'\s*\(', cname + '__p(', text, count=1)
            margs = ', '.join('a%d' % k for k in range(len(pnames)))
            mcall = ', '.join(('&(a%d)' % k) if pn in ptrs else ('a%d' % k) for k, pn in enumerate(pnames))
            macro = '#define %s(%s) %s__p(%s)\n' % (cname, margs, cname, mcall)
            rw.log['R5.refmacro'] = 1
        if True:
            sig_part, body_part = text.split('@@CONTRACT@@', 1)
            body_part, nl = X.insert_loop_contracts(body_part, loops)
            text = sig_part + '\n'.join(contract) + body_part
        for must in [m for m in o.get('must', '').split(',') if m]:
            if not any(k.startswith(must) for k in rw.log):
                raise X.ExtractError('%s: must-fire rule %s did not fire on %s' % (self.name, must, o.get('func', 'block')))
        info['functions'].append(dict(name=o.get('func', o.get('as')), file=o['file'], line=line,
                                      sha=hashlib.sha1(raw.encode()).hexdigest()[:12], rules=dict(rw.log)))
        info['loops'] += nl
        info['loop_contracts'] += len(loops)
        return '/* ---- extracted from %s:%d (%s) ---- */\n%s\n%s/* ---- end extracted ---- */' % (
            o['file'], line, o.get('func', 'block'), text, macro)


def parse_kv(s):
    d = {}
    for tok in shlex.split(s):
        if '=' in tok:
            k, v = tok.split('=', 1)
            d[k] = v
        else:
            d[tok] = '1'
    return d


RESULT_RE = re.compile(r'^\[(?P<id>[^\]]+)\] (?:line (?P<line>\d+) )?(?P<desc>.*): (?P<res>SUCCESS|FAILURE|UNKNOWN|ERROR)$')

SAFETY_FLAGS = ('--bounds-check --pointer-check --pointer-overflow-check --signed-overflow-check '
                '--unsigned-overflow-check --conversion-check --div-by-zero-check --undefined-shift-check '
                '--float-overflow-check --nan-check --pointer-primitive-check')


def sh(cmd, timeout, mem_gb=8, cwd=None):
    pre = 'ulimit -v %d; ' % (mem_gb * 1024 * 1024)
    t0 = time.time()
    try:
        p = subprocess.run(['bash', '-c', pre + cmd], capture_output=True, text=True, timeout=timeout, cwd=cwd)
        return p.returncode, p.stdout + p.stderr, time.time() - t0
    except subprocess.TimeoutExpired as e:
        out = (e.stdout or b'')
        if isinstance(out, bytes):
            out = out.decode(errors='replace')
        return 124, out + '\nTIMEOUT', time.time() - t0


def run_one(unit, run, workdir, tier='quick', keep=False, extra_flags='', trace_failed=True):
    """Execute one //@run of a unit.  Returns result dict."""
    res = dict(unit=unit.name, run=run.get('name', 'run'), status='error', props=[], failed=[],
               wall=0.0, solver_s=0.0, cmd='', info={}, bounded=run.get('bounded'), out='')
    t0 = time.time()
    defs = [d for d in run.get('defs', '').split(',') if d]
    try:
        text, info = unit.instantiate(defs)
    except X.ExtractError as e:
        res['status'] = 'extract-error'
        res['out'] = str(e)
        return res
    res['info'] = info
    tag = '%s.%s' % (unit.name, res['run'])
    cfile = os.path.join(workdir, tag + '.c')
    open(cfile, 'w').write(text)
    a, b = os.path.join(workdir, tag + '.a.gb'), os.path.join(workdir, tag + '.b.gb')
    for f in (a, b):
        if os.path.exists(f):
            os.remove(f)
    entry = run['entry']
    dflags = ' '.join('-D' + d for d in defs)
    cmd1 = 'goto-cc --function %s %s -DVF_CBMC -I%s/include %s -o %s' % (entry, dflags, CONTRACTS, cfile, a)
    rc, out, _ = sh(cmd1, 120)
    if rc != 0 or not os.path.exists(a):
        res['status'] = 'compile-error'
        res['out'] = out[-3000:]
        return res
    if re.search(r'warning: (implicit|.*undeclared)', out):
        res['warn'] = out[-1000:]
    gi = ''
    use_dfcc = run.get('enforce') or run.get('replace') or run.get('loops')
    if use_dfcc:
        repl = [g for g in run.get('replace', '').split(',') if g]
        for _try in range(len(repl) + 1):
            gi = 'goto-instrument --dfcc %s' % entry
            if run.get('enforce'):
                gi += ' --enforce-contract%s %s' % ('-rec' if run.get('rec') else '', run['enforce'])
            for g in repl:
                gi += ' --replace-call-with-contract %s' % g
            if run.get('loops'):
                gi += ' --apply-loop-contracts'
            gi += ' %s %s' % (a, b)
            rc, out2, _ = sh(gi, 300)
            mm = re.search(r"Function to replace '(\w+)' not found", out2)
            if mm and mm.group(1) in repl:
                # the callee is no longer called by the extracted code: nothing to replace
                repl.remove(mm.group(1))
                res.setdefault('notes', []).append('stub %s is not called' % mm.group(1))
                continue
            break
        if rc != 0 or not os.path.exists(b):
            res['status'] = 'instrument-error'
            res['out'] = out2[-4000:]
            res['cmd'] = cmd1 + ' && ' + gi
            return res
    else:
        b = a
    flags = run.get('flags', '')
    if flags == 'SAFETY':
        flags = SAFETY_FLAGS
    elif flags.startswith('SAFETY'):
        # SAFETY-foo-bar removes checks
        drop = flags.split('-')[1:]
        flags = ' '.join(f for f in SAFETY_FLAGS.split() if not any(d in f for d in drop))
    if run.get('unwind'):
        flags += ' --unwind %s --unwinding-assertions' % run['unwind']
    if run.get('unwindset'):
        flags += ' --unwindset %s' % run['unwindset']
    # declared timeouts are sized for an idle machine; a pass costs nothing extra, so leave head-room for a loaded one
    timeout = max(int(run.get('timeout', 300)), 240) * 2
    if tier == 'thorough':
        timeout *= 4
    solver = extra_flags
    if run.get('solver') and '--sat-solver' not in solver:
        solver = (solver + ' --sat-solver ' + run['solver']).strip()
    ob = ('--object-bits %s ' % run['objbits']) if run.get('objbits') else ''
    cb = 'cbmc %s--no-malloc-may-fail --no-standard-checks %s %s %s' % (ob, flags, solver, b)
    res['cmd'] = ' && '.join(x for x in (cmd1, gi, cb) if x)
    rc, out3, secs = sh(cb, timeout, mem_gb=int(run.get('mem', 8)))
    for bits in (10, 12, 14):
        if 'too many addressed objects' not in out3:
            break
        cb = 'cbmc --object-bits %d --no-malloc-may-fail --no-standard-checks %s %s %s' % (bits, flags, solver, b)
        rc, out3, secs = sh(cb, timeout, mem_gb=int(run.get('mem', 8)))
    res['cmd'] = ' && '.join(x for x in (cmd1, gi, cb) if x)
    res['solver_s'] = round(secs, 2)
    res['out'] = out3[-6000:]
    if rc == 124 or 'TIMEOUT' in out3[-20:]:
        res['status'] = 'timeout'
        return res
    if 'ignoring forall' in out3 or 'ignoring exists' in out3:
        res['status'] = 'quantifier-ignored'
        return res
    props = []
    for ln in out3.split('\n'):
        m = RESULT_RE.match(ln.strip())
        if m:
            props.append(m.groupdict())
    res['props'] = props
    if not props or ('VERIFICATION SUCCESSFUL' not in out3 and 'VERIFICATION FAILED' not in out3):
        res['status'] = 'no-result'
        res['out'] = out3[-3000:]
        return res
    failed = [p for p in props if p['res'] in ('FAILURE', 'ERROR')]
    unknown = [p for p in props if p['res'] == 'UNKNOWN']
    res['unknown'] = len(unknown)
    if unknown and not failed:
        res['status'] = 'unknown-properties'
        return res
    canary = [p for p in failed if 'VF_CANARY' in p['desc']]
    failed = [p for p in failed if 'VF_CANARY' not in p['desc']]
    res['canary'] = 'reachable' if canary else ('absent' if not any('VF_CANARY' in p['desc'] for p in props) else 'UNREACHABLE')
    res['failed'] = failed
    # loop contracts silently dropped?
    n_step = len([p for p in props if 'invariant after step' in p['desc'] or 'loop_invariant_step' in p['id']])
    res['loop_steps'] = n_step
    if run.get('loops') and info['loop_contracts'] and n_step < info['loop_contracts']:
        res['status'] = 'loop-contract-dropped'
        return res
    if res['canary'] == 'UNREACHABLE':
        # the end of the harness is cut off (typically a loop that no longer terminates within the bound).  Obligations
        # that FAILED other than unwinding assertions were still violated on a feasible, in-bound path: report those.
        real = [p for p in failed if '.unwind.' not in p['id'] and 'unwinding assertion' not in p['desc']]
        if not real:
            res['status'] = 'vacuous'
            return res
        failed = res['failed'] = real
    res['status'] = 'failed' if failed else 'ok'
    if failed and trace_failed:
        # get a trace for the first failed obligation
        pid = failed[0]['id']
        rc, out4, _ = sh(cb + ' --trace --property %s' % shlex.quote(pid), timeout, mem_gb=int(run.get('mem', 8)))
        res['trace'] = out4[-20000:]
    res['wall'] = round(time.time() - t0, 2)
    if not keep:
        for f in (a, os.path.join(workdir, tag + '.b.gb')):
            if os.path.exists(f):
                os.remove(f)
    return res


def load_units():
    us = []
    for f in sorted(os.listdir(CONTRACTS)):
        if f.endswith('.c'):
            us.append(Unit(os.path.join(CONTRACTS, f)))
    return us
