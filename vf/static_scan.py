"""C14 supporting static fact: the compiled library keeps no writable object of static storage.
Builds the three translation units from /repo's working tree plus vf/scan_inst.cpp (a translation unit that only
instantiates the header-only API: templates, inline functions and the C export layer) at -O0, with and without USINGZ, and
lists every symbol in a writable section (.data/.bss: nm types d D b B).  A symbol is accepted only
if it is the C++ runtime's std::__ioinit, a guard variable of an accepted symbol, or declared
`const` at namespace scope in the sources (a const object with a dynamic initialiser is written once
before main)."""
import os, re, subprocess, tempfile, shutil

REPO = os.environ.get('VERIF_REPO', '/repo')
SRCS = ['clipper.engine.cpp', 'clipper.offset.cpp', 'clipper.rectclip.cpp', 'scan_inst.cpp']
HERE = os.path.dirname(os.path.abspath(__file__))


def scan():
    wd = tempfile.mkdtemp(prefix='vfscan.')
    inc = os.path.join(REPO, 'CPP/Clipper2Lib/include')
    srcdir = os.path.join(REPO, 'CPP/Clipper2Lib/src')
    text = ''
    for root in (inc + '/clipper2', srcdir):
        for f in sorted(os.listdir(root)):
            if f.endswith(('.h', '.cpp')):
                text += open(os.path.join(root, f)).read()
    found, bad, cmds, accepted_ptrs = [], [], [], []
    try:
        for defs in ([], ['-DUSINGZ']):
            for s in SRCS:
                o = os.path.join(wd, s + ('.z' if defs else '') + '.o')
                src = os.path.join(HERE, s) if s == 'scan_inst.cpp' else os.path.join(srcdir, s)
                cmd = ['g++', '-std=c++17', '-O0', '-w', '-c', '-I', inc] + defs + [src, '-o', o]
                p = subprocess.run(cmd, capture_output=True, text=True)
                if p.returncode != 0:
                    return dict(status='build-error', log=p.stderr[-1500:])
                out = subprocess.run(['nm', '-C', o], capture_output=True, text=True).stdout
                for ln in out.split('\n'):
                    m = re.match(r'^[0-9a-f]*\s+([bBdDu])\s+(.*)$', ln)
                    if not m:
                        continue
                    sym = m.group(2)
                    found.append((s + (' (USINGZ)' if defs else ''), m.group(1), sym))
        for unit, ty, sym in found:
            base = sym.replace('guard variable for ', '')
            name = base.split('::')[-1]
            if base in ('std::__ioinit', 'vf_scan_sink'):
                continue
            if '(' in base:
                bad.append('%s: %s %s (function-local static)' % (unit, ty, sym))
                continue
            if re.search(r'\b(?:static\s+)?const(?:expr)?\s+[\w:<>]+\s+' + re.escape(name) + r'\b', text):
                continue
            # `static const char* name = "literal";` — a non-const pointer to a string literal: accepted only if the
            # sources never assign it again, never take its address and never bind it to a non-const reference
            decl = re.findall(r'\bstatic\s+const\s+char\s*\*\s*' + re.escape(name) + r'\s*=', text)
            writes = re.findall(r'(?<![\w.>])' + re.escape(name) + r'\s*(?:=(?!=)|\+=|-=|\+\+|--)', text)
            addr = re.findall(r'&\s*' + re.escape(name) + r'\b', text)
            if decl and len(writes) == len(decl) and not addr:
                accepted_ptrs.append(base)
                continue
            bad.append('%s: %s %s' % (unit, ty, sym))
    finally:
        shutil.rmtree(wd, ignore_errors=True)
    return dict(status='ok', symbols=sorted(set('%s %s' % (t, s) for _, t, s in found)), writable_non_const=sorted(set(bad)),
                never_written_literal_pointers=sorted(set(accepted_ptrs)))
