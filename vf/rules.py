"""Named custom rewrite rules (//@pysub <name> [min=N]).  Each takes the text after the
generic rules and returns (new_text, number_of_applications)."""
import re


def mul128(t):
    """R24-i128: a product in which at least one operand is cast to __int128 becomes a call
    to the uninterpreted exact product vf_mul128(x, y) (operands are int64 identifiers).
    Accepts (T)(a)*(T)(b), (T)(a)*b, a*(T)(b)."""
    n = 0
    cast = r'\(__int128_t\)\((\w+)\)'
    for pat in (cast + r'\s*\*\s*' + cast,
                cast + r'\s*\*\s*(\w+)\b(?!\s*[\(\[.])',
                r'(?<![\w.)])(\w+)\s*\*\s*' + cast):
        t, k = re.subn(pat, r'vf_mul128(\1, \2)', t)
        n += k
    return t, n


def lambdas_lo_hi(t):
    """R9: `const auto lo = [](uint64_t x) { return EXPR; };` -> #define lo(x) (EXPR)"""
    n = 0
    def repl(m):
        nonlocal n
        n += 1
        return '#define %s(%s) (%s)\n' % (m.group(1), m.group(2), m.group(3).strip())
    t = re.sub(r'const\s+__auto_type\s+(\w+)\s*=\s*\[\]\s*\(\s*\w+\s+(\w+)\s*\)\s*\{\s*return\s+([^;]+);\s*\}\s*;', repl, t)
    return t, n


RULES = dict(mul128=mul128, lambdas_lo_hi=lambdas_lo_hi)
