"""Named custom rewrite rules (//@pysub <name> [min=N]).  Each takes the text after the
generic rules and returns (new_text, number_of_applications)."""
import re


def mul128(t):
    """R24-i128: a product in which at least one operand is cast to __int128 becomes a call
    to the uninterpreted exact product vf_mul128(x, y) (operands are int64 identifiers).
    Accepts (T)(a)*(T)(b), (T)(a)*b, a*(T)(b)."""
    n = 0
    cast = r'\(__int128_t\)\((\w+)\)'
    for pat in (cast + r'\s*\*\s*' + cast,
                cast + r'\s*\*\s*(\w+)\b(?!\s*[\(\[.])',
                r'(?<![\w.)])(\w+)\s*\*\s*' + cast):
        t, k = re.subn(pat, r'vf_mul128(\1, \2)', t)
        n += k
    return t, n


def lambdas_lo_hi(t):
    """R9: `const auto lo = [](uint64_t x) { return EXPR; };` -> #define lo(x) (EXPR)"""
    n = 0
    def repl(m):
        nonlocal n
        n += 1
        return '#define %s(%s) (%s)\n' % (m.group(1), m.group(2), m.group(3).strip())
    t = re.sub(r'const\s+__auto_type\s+(\w+)\s*=\s*\[\]\s*\(\s*\w+\s+(\w+)\s*\)\s*\{\s*return\s+([^;]+);\s*\}\s*;', repl, t)
    return t, n


RULES = dict(mul128=mul128, lambdas_lo_hi=lambdas_lo_hi)


def hoist_partial_products(t):
    """R24: each `lo|hi(a) * lo|hi(b)` partial product of Multiply becomes a free ghost input
    named by its operand shape (first letter = half of a, second = half of b); commutative."""
    n = 0
    def repl(m):
        nonlocal n
        h1, v1, h2, v2 = m.group(1), m.group(2), m.group(3), m.group(4)
        if v1 == v2:
            return m.group(0)
        if (v1, v2) == ('b', 'a'):
            h1, h2 = h2, h1
        elif (v1, v2) != ('a', 'b'):
            return m.group(0)
        n += 1
        return 'g_pp_%s%s' % (h1[0], h2[0])
    t = re.sub(r'\b(lo|hi)\((\w+)\)\s*\*\s*(lo|hi)\((\w+)\)', repl, t)
    return t, n


RULES['hoist_partial_products'] = hoist_partial_products


# ---------------------------------------------------------------------------------------
# G5 call-trace translation of thin wrapper functions (R15 stubs, R21 logged float ops)
OBJ_TYPES = ['Clipper64', 'ClipperD', 'ClipperOffset', 'RectClip64', 'RectClipLines64', 'PolyTree64', 'PolyTreeD',
             'PolyPath64', 'PolyPathD']
VAL_TYPES = ['Paths64', 'PathsD', 'Path64', 'PathD', 'Rect64', 'RectD', 'PathsT', 'PathT']
ENUM_CASTS = ['ClipType', 'FillRule', 'JoinType', 'EndType', 'PathType']


REF_ARGS = {'Clipper64_Execute': [3, 4], 'ClipperD_Execute': [3, 4], 'ClipperOffset_Execute': [2],
            'CreateCPolyTree64': [0], 'CreateCPolyTreeD': [0], 'CheckPrecisionRange': [0, 1], 'ScalePaths': [2], 'ScalePath': [2],
            'BuildPaths64': [1, 2], 'BuildPathsD': [1, 2], 'BuildTree64': [1, 2], 'BuildTreeD': [1, 2]}


def split_args(s):
    parts, depth, cur = [], 0, ''
    for ch in s:
        if ch in '([{':
            depth += 1
        elif ch in ')]}':
            depth -= 1
        if ch == ',' and depth == 0:
            parts.append(cur)
            cur = ''
        else:
            cur += ch
    parts.append(cur)
    return parts


def calltrace(t):
    """Objects of library classes become tokens; constructors, methods and free functions
    become calls to logging stubs: `T x(a,b);` -> `T x; T_ctor(&x, a, b);`, `x.M(a)` -> `T_M(&x, a)`.
    Container values stay values (struct tokens).  `v.size()` -> `v.size`."""
    n = 0
    types = {}
    body_start = t.index('{')
    head, body = t[:body_start], t[body_start:]
    # parameters of object/value type (by reference or value) -> record type
    ptr_params = set()
    for ty in OBJ_TYPES + VAL_TYPES:
        for m in re.finditer(r'\b(?:const\s+)?' + ty + r'\s*[&*]?\s*(\w+)\s*(?=[,)])', head):
            types[m.group(1)] = ty
    for ty in OBJ_TYPES + VAL_TYPES:
        # object / container passed by non-const reference -> pointer parameter
        def pp(m):
            ptr_params.add(m.group(2))
            return m.group(1) + ty + '* ' + m.group(2)
        head = re.sub(r'((?:^|[,(])\s*)' + ty + r'\s*&\s*(\w+)\b(?=\s*[,)])', pp, head)
    # declarations
    def decl(m):
        nonlocal n
        ty, rest = m.group(2), m.group(3)
        out = []
        # split declarators at top-level commas
        parts, depth, cur = [], 0, ''
        for ch in rest:
            if ch in '([{':
                depth += 1
            elif ch in ')]}':
                depth -= 1
            if ch == ',' and depth == 0:
                parts.append(cur)
                cur = ''
            else:
                cur += ch
        parts.append(cur)
        for p in parts:
            p = p.strip()
            mm = re.match(r'^(\w+)\s*(?:\((.*)\)|=\s*(.*))?$', p, re.S)
            if not mm:
                return m.group(0)
            name, cargs, init = mm.group(1), mm.group(2), mm.group(3)
            types[name] = ty
            n += 1
            if ty in OBJ_TYPES:
                out.append('%s %s; %s_ctor(&%s%s);' % (ty, name, ty, name, (', ' + cargs) if cargs and cargs.strip() else ''))
            elif init is not None:
                out.append('%s %s = %s;' % (ty, name, init))
            elif cargs is not None and cargs.strip():
                out.append('%s %s = %s_make(%s);' % (ty, name, ty, cargs))
            else:
                out.append('%s %s = {0};' % (ty, name))
        return m.group(1) + ' '.join(out)
    alltypes = '|'.join(OBJ_TYPES + VAL_TYPES)
    body = re.sub(r'(?:(?<=[;{}/])|^)(\s*)(?:class\s+)?\b(' + alltypes + r')\s+((?:\w+\s*(?:\([^;]*?\)|=[^;]*?)?\s*,\s*)*\w+\s*(?:\([^;]*?\)|=[^;]*?)?)\s*;',
                  decl, body, flags=re.S)
    # method calls
    for name, ty in sorted(types.items(), key=lambda kv: -len(kv[0])):
        V = r'(?<![\w.>&])' + name
        body, k = re.subn(V + r'\s*\.\s*size\s*\(\s*\)', name + '.size', body)
        n += k
        body, k = re.subn(V + r'\s*\.\s*empty\s*\(\s*\)', '(' + name + '.size == 0)', body)
        n += k
        if name in ptr_params:
            body, k = re.subn(r'&\s*' + name + r'\b', name, body)
            n += k
            body, k = re.subn(V + r'\s*\.\s*(\w+)\s*\(\s*\)', ty + r'_\1(' + name + ')', body)
            n += k
            body, k = re.subn(V + r'\s*\.\s*(\w+)\s*\(', ty + r'_\1(' + name + ', ', body)
            n += k
            continue
        if ty in OBJ_TYPES or ty in VAL_TYPES:
            body, k = re.subn(V + r'\s*\.\s*(\w+)\s*\(\s*\)', ty + r'_\1(&' + name + ')', body)
            n += k
            body, k = re.subn(V + r'\s*\.\s*(\w+)\s*\(', ty + r'_\1(&' + name + ', ', body)
            n += k
    # explicit template arguments on calls
    body, k = re.subn(r'\b(\w+)\s*<\s*[\w:]+(?:\s*,\s*[\w:]+)*\s*>\s*\(', r'\1(', body)
    n += k
    # by-reference output arguments of the callees (from their C++ declarations)
    for fn, poss in REF_ARGS.items():
        out, pos = '', 0
        for m in re.finditer(r'\b' + fn + r'\s*\(', body):
            a0 = m.end()
            depth, i = 1, a0
            while depth:
                if body[i] == '(':
                    depth += 1
                elif body[i] == ')':
                    depth -= 1
                i += 1
            args = split_args(body[a0:i - 1])
            for k in poss:
                if k < len(args) and not args[k].strip().startswith('&') and args[k].strip() not in ptr_params:
                    args[k] = ' &(' + args[k].strip() + ')'
                    n += 1
            out += body[pos:a0] + ','.join(args) + ')'
            pos = i
        body = out + body[pos:]
    # default-constructed container temporaries
    body, k = re.subn(r'\b(?:' + '|'.join(VAL_TYPES) + r')\s*\(\s*\)', '((VTok){0, 0})', body)
    n += k
    for e in ENUM_CASTS:
        body, k = re.subn(r'(?<![\w(])' + e + r'\s*\(', '(' + e + ')(', body)
        n += k
    return head + body, n


def floatops(t):
    """R21: the floating-point products/quotients of wrappers become logging stubs."""
    n = 0
    body_start = t.index('{')
    head, body = t[:body_start], t[body_start:]
    body, k = re.subn(r'\b1(?:\.0)?\s*/\s*((?:\w+->)?\w+)\b', r'vf_fdiv(1.0, \1)', body)
    n += k
    body, k = re.subn(r'(?<![\w.)\]>])((?:\w+(?:->|\.))*\w+)\s*\*\s*((?:\w+(?:->|\.))*\w+)\b(?!\s*[(\[.]|->)', r'vf_fmul(\1, \2)', body)
    n += k
    body, k = re.subn(r'\bpow\s*\(', 'vf_pow(', body)
    n += k
    body, k = re.subn(r'\bilogb\s*\(', 'vf_ilogb(', body)
    n += k
    body, k = re.subn(r'\blog10\s*\(', 'vf_log10(', body)
    n += k
    return head + body, n


RULES['calltrace'] = calltrace
RULES['floatops'] = floatops


def point_lambda(t):
    """R17/R11: body of the transform lambda `VFL<<expr>>`: the lambda parameter pt2 is the pattern element,
    Point + Point / Point - Point become calls to the extracted operator bodies."""
    n = 0
    def repl(m):
        nonlocal n
        e = m.group(1).strip()
        e = re.sub(r'\bpt2\b', 'pattern.data[vf_t]', e)
        mm = re.match(r'^(\(?[\w.\[\]]+\)?)\s*([+-])\s*(\(?[\w.\[\]]+\)?)$', e)
        if not mm:
            return m.group(0)
        n += 1
        return 'Point64_%s(%s, %s)' % ('add' if mm.group(2) == '+' else 'sub', mm.group(1), mm.group(3))
    t = re.sub(r'VFL<<(.*?)>>', repl, t)
    return t, n


RULES['point_lambda'] = point_lambda


def accumulate_sizes(t):
    """R17: `std::accumulate(c.begin(), c.end(), size_t(0), [](const auto& a, const P& path) {return EXPR; })`
    -> GNU statement expression with an index loop evaluating EXPR (a = running value, path = element)."""
    n = 0
    def repl(m):
        nonlocal n
        cont, init, acc, var, expr = m.group(1), m.group(2), m.group(3), m.group(4), m.group(5).strip()
        expr = re.sub(r'\b' + var + r'\b', '(%s.data[vf_acc_i])' % cont, expr)
        expr = re.sub(r'\b' + acc + r'\b', 'vf_acc', expr)
        expr = re.sub(r'\.size\(\)', '.size', expr)
        n += 1
        return '({ size_t vf_acc = %s; for (size_t vf_acc_i = 0; vf_acc_i < %s.size; ++vf_acc_i) vf_acc = %s; vf_acc; })' % (init, cont, expr)
    t = re.sub(r'std::accumulate\((\w+)\.begin\(\), \1\.end\(\), (?:size_t|\(size_t\))\((\w+)\),\s*\[\]\(const auto& (\w+), const \w+& (\w+)\)\s*\{\s*return ([^;]+);\s*\}\)', repl, t)
    return t, n


RULES['accumulate_sizes'] = accumulate_sizes
