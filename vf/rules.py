"""Named custom rewrite rules (//@pysub <name> [min=N]).  Each takes the text after the
generic rules and returns (new_text, number_of_applications)."""
import re


def mul128(t):
    """R24-i128: a product in which at least one operand is cast to __int128 becomes a call
    to the uninterpreted exact product vf_mul128(x, y) (operands are int64 identifiers).
    Accepts (T)(a)*(T)(b), (T)(a)*b, a*(T)(b)."""
    n = 0
    cast = r'\(__int128_t\)\((\w+)\)'
    for pat in (cast + r'\s*\*\s*' + cast,
                cast + r'\s*\*\s*(\w+)\b(?!\s*[\(\[.])',
                r'(?<![\w.)])(\w+)\s*\*\s*' + cast):
        t, k = re.subn(pat, r'vf_mul128(\1, \2)', t)
        n += k
    return t, n


def lambdas_lo_hi(t):
    """R9: `const auto lo = [](uint64_t x) { return EXPR; };` -> #define lo(x) (EXPR)"""
    n = 0
    def repl(m):
        nonlocal n
        n += 1
        return '#define %s(%s) (%s)\n' % (m.group(1), m.group(2), m.group(3).strip())
    t = re.sub(r'const\s+__auto_type\s+(\w+)\s*=\s*\[\]\s*\(\s*\w+\s+(\w+)\s*\)\s*\{\s*return\s+([^;]+);\s*\}\s*;', repl, t)
    return t, n


RULES = dict(mul128=mul128, lambdas_lo_hi=lambdas_lo_hi)


def hoist_partial_products(t):
    """R24: each `lo|hi(a) * lo|hi(b)` partial product of Multiply becomes a free ghost input
    named by its operand shape (first letter = half of a, second = half of b); commutative."""
    n = 0
    def repl(m):
        nonlocal n
        h1, v1, h2, v2 = m.group(1), m.group(2), m.group(3), m.group(4)
        if v1 == v2:
            return m.group(0)
        if (v1, v2) == ('b', 'a'):
            h1, h2 = h2, h1
        elif (v1, v2) != ('a', 'b'):
            return m.group(0)
        n += 1
        return 'g_pp_%s%s' % (h1[0], h2[0])
    t = re.sub(r'\b(lo|hi)\((\w+)\)\s*\*\s*(lo|hi)\((\w+)\)', repl, t)
    return t, n


RULES['hoist_partial_products'] = hoist_partial_products
