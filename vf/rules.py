"""Named custom rewrite rules (//@pysub <name> [min=N]).  Each takes the text after the
generic rules and returns (new_text, number_of_applications)."""
import re


def mul128(t):
    """R24-i128: a product in which at least one operand is cast to __int128 becomes a call
    to the uninterpreted exact product vf_mul128(x, y) (operands are int64 identifiers).
    Accepts (T)(a)*(T)(b), (T)(a)*b, a*(T)(b)."""
    n = 0
    cast = r'\(__int128_t\)\((\w+)\)'
    for pat in (cast + r'\s*\*\s*' + cast,
                cast + r'\s*\*\s*(\w+)\b(?!\s*[\(\[.])',
                r'(?<![\w.)])(\w+)\s*\*\s*' + cast):
        t, k = re.subn(pat, r'vf_mul128(\1, \2)', t)
        n += k
    return t, n


def lambdas_lo_hi(t):
    """R9: `const auto lo = [](uint64_t x) { return EXPR; };` -> #define lo(x) (EXPR)"""
    n = 0
    def repl(m):
        nonlocal n
        n += 1
        return '#define %s(%s) (%s)\n' % (m.group(1), m.group(2), m.group(3).strip())
    t = re.sub(r'const\s+__auto_type\s+(\w+)\s*=\s*\[\]\s*\(\s*\w+\s+(\w+)\s*\)\s*\{\s*return\s+([^;]+);\s*\}\s*;', repl, t)
    return t, n


RULES = dict(mul128=mul128, lambdas_lo_hi=lambdas_lo_hi)


def hoist_partial_products(t):
    """R24: each `lo|hi(a) * lo|hi(b)` partial product of Multiply becomes a free ghost input
    named by its operand shape (first letter = half of a, second = half of b); commutative."""
    n = 0
    def repl(m):
        nonlocal n
        h1, v1, h2, v2 = m.group(1), m.group(2), m.group(3), m.group(4)
        if v1 == v2:
            return m.group(0)
        if (v1, v2) == ('b', 'a'):
            h1, h2 = h2, h1
        elif (v1, v2) != ('a', 'b'):
            return m.group(0)
        n += 1
        return 'g_pp_%s%s' % (h1[0], h2[0])
    t = re.sub(r'\b(lo|hi)\((\w+)\)\s*\*\s*(lo|hi)\((\w+)\)', repl, t)
    return t, n


RULES['hoist_partial_products'] = hoist_partial_products


# ---------------------------------------------------------------------------------------
# G5 call-trace translation of thin wrapper functions (R15 stubs, R21 logged float ops)
OBJ_TYPES = ['Clipper64', 'ClipperD', 'ClipperOffset', 'RectClip64', 'RectClipLines64', 'PolyTree64', 'PolyTreeD',
             'PolyPath64', 'PolyPathD']
VAL_TYPES = ['Paths64', 'PathsD', 'Path64', 'PathD', 'Rect64', 'RectD', 'PathsT', 'PathT']
ENUM_CASTS = ['ClipType', 'FillRule', 'JoinType', 'EndType', 'PathType']


REF_ARGS = {'Clipper64_Execute': [3, 4], 'ClipperD_Execute': [3, 4], 'ClipperOffset_Execute': [2],
            'CreateCPolyTree64': [0], 'CreateCPolyTreeD': [0], 'CheckPrecisionRange': [0, 1], 'ScalePaths': [2], 'ScalePath': [2],
            'BuildPaths64': [1, 2], 'BuildPathsD': [1, 2], 'BuildTree64': [1, 2], 'BuildTreeD': [1, 2]}


def split_args(s):
    parts, depth, cur = [], 0, ''
    for ch in s:
        if ch in '([{':
            depth += 1
        elif ch in ')]}':
            depth -= 1
        if ch == ',' and depth == 0:
            parts.append(cur)
            cur = ''
        else:
            cur += ch
    parts.append(cur)
    return parts


def calltrace(t):
    """Objects of library classes become tokens; constructors, methods and free functions
    become calls to logging stubs: `T x(a,b);` -> `T x; T_ctor(&x, a, b);`, `x.M(a)` -> `T_M(&x, a)`.
    Container values stay values (struct tokens).  `v.size()` -> `v.size`."""
    n = 0
    types = {}
    body_start = t.index('{')
    head, body = t[:body_start], t[body_start:]
    # parameters of object/value type (by reference or value) -> record type
    ptr_params = set()
    for ty in OBJ_TYPES + VAL_TYPES:
        for m in re.finditer(r'\b(?:const\s+)?' + ty + r'\s*[&*]?\s*(\w+)\s*(?=[,)])', head):
            types[m.group(1)] = ty
    for ty in OBJ_TYPES + VAL_TYPES:
        # object / container passed by non-const reference -> pointer parameter
        def pp(m):
            ptr_params.add(m.group(2))
            return m.group(1) + ty + '* ' + m.group(2)
        head = re.sub(r'((?:^|[,(])\s*)' + ty + r'\s*&\s*(\w+)\b(?=\s*[,)])', pp, head)
    # declarations
    def decl(m):
        nonlocal n
        ty, rest = m.group(2), m.group(3)
        out = []
        # split declarators at top-level commas
        parts, depth, cur = [], 0, ''
        for ch in rest:
            if ch in '([{':
                depth += 1
            elif ch in ')]}':
                depth -= 1
            if ch == ',' and depth == 0:
                parts.append(cur)
                cur = ''
            else:
                cur += ch
        parts.append(cur)
        for p in parts:
            p = p.strip()
            mm = re.match(r'^(\w+)\s*(?:\((.*)\)|=\s*(.*))?$', p, re.S)
            if not mm:
                return m.group(0)
            name, cargs, init = mm.group(1), mm.group(2), mm.group(3)
            types[name] = ty
            n += 1
            if ty in OBJ_TYPES:
                out.append('%s %s; %s_ctor(&%s%s);' % (ty, name, ty, name, (', ' + cargs) if cargs and cargs.strip() else ''))
            elif init is not None:
                out.append('%s %s = %s;' % (ty, name, init))
            elif cargs is not None and cargs.strip():
                out.append('%s %s = %s_make(%s);' % (ty, name, ty, cargs))
            else:
                out.append('%s %s = {0};' % (ty, name))
        return m.group(1) + ' '.join(out)
    alltypes = '|'.join(OBJ_TYPES + VAL_TYPES)
    body = re.sub(r'(?:(?<=[;{}/])|^)(\s*)(?:class\s+)?\b(' + alltypes + r')\s+((?:\w+\s*(?:\([^;]*?\)|=[^;]*?)?\s*,\s*)*\w+\s*(?:\([^;]*?\)|=[^;]*?)?)\s*;',
                  decl, body, flags=re.S)
    # method calls
    for name, ty in sorted(types.items(), key=lambda kv: -len(kv[0])):
        V = r'(?<![\w.>&])' + name
        body, k = re.subn(V + r'\s*\.\s*size\s*\(\s*\)', name + '.size', body)
        n += k
        body, k = re.subn(V + r'\s*\.\s*empty\s*\(\s*\)', '(' + name + '.size == 0)', body)
        n += k
        if name in ptr_params:
            body, k = re.subn(r'&\s*' + name + r'\b', name, body)
            n += k
            body, k = re.subn(V + r'\s*\.\s*(\w+)\s*\(\s*\)', ty + r'_\1(' + name + ')', body)
            n += k
            body, k = re.subn(V + r'\s*\.\s*(\w+)\s*\(', ty + r'_\1(' + name + ', ', body)
            n += k
            continue
        if ty in OBJ_TYPES or ty in VAL_TYPES:
            body, k = re.subn(V + r'\s*\.\s*(\w+)\s*\(\s*\)', ty + r'_\1(&' + name + ')', body)
            n += k
            body, k = re.subn(V + r'\s*\.\s*(\w+)\s*\(', ty + r'_\1(&' + name + ', ', body)
            n += k
    # explicit template arguments on calls
    body, k = re.subn(r'\b(\w+)\s*<\s*[\w:]+(?:\s*,\s*[\w:]+)*\s*>\s*\(', r'\1(', body)
    n += k
    # by-reference output arguments of the callees (from their C++ declarations)
    for fn, poss in REF_ARGS.items():
        out, pos = '', 0
        for m in re.finditer(r'\b' + fn + r'\s*\(', body):
            a0 = m.end()
            depth, i = 1, a0
            while depth:
                if body[i] == '(':
                    depth += 1
                elif body[i] == ')':
                    depth -= 1
                i += 1
            args = split_args(body[a0:i - 1])
            for k in poss:
                if k < len(args) and not args[k].strip().startswith('&') and args[k].strip() not in ptr_params:
                    args[k] = ' &(' + args[k].strip() + ')'
                    n += 1
            out += body[pos:a0] + ','.join(args) + ')'
            pos = i
        body = out + body[pos:]
    # default-constructed container temporaries
    body, k = re.subn(r'\b(?:' + '|'.join(VAL_TYPES) + r')\s*\(\s*\)', '((VTok){0, 0})', body)
    n += k
    for e in ENUM_CASTS:
        body, k = re.subn(r'(?<![\w(])' + e + r'\s*\(', '(' + e + ')(', body)
        n += k
    return head + body, n


def floatops(t):
    """R21: the floating-point products/quotients of wrappers become logging stubs."""
    n = 0
    body_start = t.index('{')
    head, body = t[:body_start], t[body_start:]
    body, k = re.subn(r'\b1(?:\.0)?\s*/\s*((?:\w+->)?\w+)\b', r'vf_fdiv(1.0, \1)', body)
    n += k
    body, k = re.subn(r'(?<![\w.)\]>])((?:\w+(?:->|\.))*\w+)\s*\*\s*((?:\w+(?:->|\.))*\w+)\b(?!\s*[(\[.]|->)', r'vf_fmul(\1, \2)', body)
    n += k
    body, k = re.subn(r'\bpow\s*\(', 'vf_pow(', body)
    n += k
    body, k = re.subn(r'\bilogb\s*\(', 'vf_ilogb(', body)
    n += k
    body, k = re.subn(r'\blog10\s*\(', 'vf_log10(', body)
    n += k
    return head + body, n


RULES['calltrace'] = calltrace
RULES['floatops'] = floatops


def point_lambda(t):
    """R17/R11: body of the transform lambda `VFL<<expr>>`: the lambda parameter pt2 is the pattern element,
    Point + Point / Point - Point become calls to the extracted operator bodies."""
    n = 0
    def repl(m):
        nonlocal n
        e = m.group(1).strip()
        e = re.sub(r'\bpt2\b', 'pattern.data[vf_t]', e)
        mm = re.match(r'^(\(?[\w.\[\]]+\)?)\s*([+-])\s*(\(?[\w.\[\]]+\)?)$', e)
        if not mm:
            return m.group(0)
        n += 1
        return 'Point64_%s(%s, %s)' % ('add' if mm.group(2) == '+' else 'sub', mm.group(1), mm.group(3))
    t = re.sub(r'VFL<<(.*?)>>', repl, t)
    return t, n


RULES['point_lambda'] = point_lambda


def accumulate_sizes(t):
    """R17: `std::accumulate(c.begin(), c.end(), size_t(0), [](const auto& a, const P& path) {return EXPR; })`
    -> GNU statement expression with an index loop evaluating EXPR (a = running value, path = element)."""
    n = 0
    def repl(m):
        nonlocal n
        cont, init, acc, var, expr = m.group(1), m.group(2), m.group(3), m.group(4), m.group(5).strip()
        expr = re.sub(r'\b' + var + r'\b', '(%s.data[vf_acc_i])' % cont, expr)
        expr = re.sub(r'\b' + acc + r'\b', 'vf_acc', expr)
        expr = re.sub(r'\.size\(\)', '.size', expr)
        n += 1
        return '({ size_t vf_acc = %s; for (size_t vf_acc_i = 0; vf_acc_i < %s.size; ++vf_acc_i) vf_acc = %s; vf_acc; })' % (init, cont, expr)
    t = re.sub(r'std::accumulate\((\w+)\.begin\(\), \1\.end\(\), (?:size_t|\(size_t\))\((\w+)\),\s*\[\]\(const auto& (\w+), const \w+& (\w+)\)\s*\{\s*return ([^;]+);\s*\}\)', repl, t)
    return t, n


RULES['accumulate_sizes'] = accumulate_sizes


def _scan_left(t, i):
    """start index of the postfix/unary operand ending just before position i (exclusive), skipping spaces"""
    j = i
    while j > 0 and t[j - 1] in ' \t\n':
        j -= 1
    end = j
    while j > 0:
        c = t[j - 1]
        if c == ')' or c == ']':
            op = '(' if c == ')' else '['
            depth, k = 0, j - 1
            while k >= 0:
                if t[k] == c:
                    depth += 1
                elif t[k] == op:
                    depth -= 1
                    if depth == 0:
                        break
                k -= 1
            if k < 0:
                return None
            j = k
            continue
        if c.isalnum() or c == '_':
            while j > 0 and (t[j - 1].isalnum() or t[j - 1] == '_' or (t[j - 1] == ':' and (t[j - 2] == ':' or t[j] == ':'))):
                j -= 1
            if t[j].isdigit() and j >= 3 and t[j - 1] in '+-' and t[j - 2] in 'eE' and (t[j - 3].isdigit() or t[j - 3] == '.'):
                j -= 2      # exponent of a floating literal: keep scanning its mantissa
                while j > 0 and (t[j - 1].isalnum() or t[j - 1] == '.'):
                    j -= 1
                break
            # member access chain continues to the left?
            if j >= 1 and t[j - 1] == '.':
                j -= 1
                continue
            if j >= 2 and t[j - 2:j] == '->':
                j -= 2
                continue
            break
        break
    return j if j < end else None


def _scan_right(t, i):
    """end index (exclusive) of the unary/postfix operand starting at or after position i, skipping spaces"""
    j, n = i, len(t)
    while j < n and t[j] in ' \t\n':
        j += 1
    start = j
    if j < n and t[j] in '-+':
        j += 1
        while j < n and t[j] in ' \t\n':
            j += 1
    if j < n and t[j] == '(':
        k = X_match(t, j)
        if k is None:
            return None
        j = k + 1
    elif j < n and (t[j].isalnum() or t[j] == '_' or t[j] == '.'):
        j0 = j
        while j < n and (t[j].isalnum() or t[j] in '_.' or t[j:j + 2] == '::' or (t[j] == ':' and t[j - 1] == ':')):
            j += 1
        if (t[j0].isdigit() or t[j0] == '.') and t[j - 1] in 'eE' and j + 1 < n and t[j] in '+-' and t[j + 1].isdigit():
            j += 1      # exponent sign of a floating literal
            while j < n and t[j].isalnum():
                j += 1
    else:
        return None
    while j < n:
        if t[j] == '(' or t[j] == '[':
            k = X_match(t, j)
            if k is None:
                return None
            j = k + 1
        elif t[j] == '.' and j + 1 < n and (t[j + 1].isalpha() or t[j + 1] == '_'):
            j += 1
            while j < n and (t[j].isalnum() or t[j] == '_'):
                j += 1
        elif t[j:j + 2] == '->':
            j += 2
            while j < n and (t[j].isalnum() or t[j] == '_'):
                j += 1
        else:
            break
    return j if j > start else None


def X_match(t, i):
    op = t[i]
    cl = ')' if op == '(' else ']'
    depth = 0
    for k in range(i, len(t)):
        if t[k] == op:
            depth += 1
        elif t[k] == cl:
            depth -= 1
            if depth == 0:
                return k
    return None


TYPE_WORDS = {'double', 'int', 'char', 'void', 'size_t', 'int64_t', 'uint64_t', 'bool', 'Active', 'OutPt', 'OutRec', 'Vertex',
              'LocalMinima', 'PointD', 'Point64', 'Path64', 'PathD', 'ClipperOffset', 'Group', 'const', 'HorzSegment', 'PolyPath'}


def fmul_all(t):
    """R21b: every binary `A * B` and `A / B` of the function body becomes vf_fmul(A, B) / vf_fdiv(A, B) (operands = the
    adjacent unary/postfix expressions; left-associative chains are folded left to right).  Used where two variants of the
    same floating-point code are compared: the products become applications of one uninterpreted function."""
    n = 0
    body_start = t.index('{')
    head, body = t[:body_start], t[body_start:]
    pos = 0
    while True:
        m = re.compile(r'(?<![*/=<>!&|+\-])([*/])(?![*/=])').search(body, pos)
        if not m:
            break
        i = m.start(1)
        l = _scan_left(body, i)
        r = _scan_right(body, i + 1)
        if l is None or r is None:
            pos = i + 1
            continue
        left = body[l:i].strip()
        if left in TYPE_WORDS or re.match(r'^(?:const\s+)?\w+\s*$', left) and re.match(r'\s*\w+\s*[;,=)]', body[i + 1:]) and left[:1].isupper():
            pos = i + 1       # pointer declarator
            continue
        right = body[i + 1:r].strip()
        fn = 'vf_fmul' if m.group(1) == '*' else 'vf_fdiv'
        rep = '%s(%s, %s)' % (fn, left, right)
        body = body[:l] + rep + body[r:]
        n += 1
        pos = l          # rescan: the call may be the left operand of the next operator
        # skip past the function name so that the same operator is not matched again (it is gone), continue after '('
    return head + body, n


RULES['fmul_all'] = fmul_all


def fops_all(t):
    """R21c: fmul_all, then every binary `A + B` / `A - B` becomes vf_add(A, B) / vf_sub(A, B) (type-generic macros: an
    uninterpreted function when the result type is double, the plain operator otherwise)."""
    t, n = fmul_all(t)
    body_start = t.index('{')
    head, body = t[:body_start], t[body_start:]
    pos = 0
    rx = re.compile(r'(?<![+\-=<>!&|*/(,\[{?:;])\s*([+\-])(?![+\-=>])')
    while True:
        m = rx.search(body, pos)
        if not m:
            break
        i = m.start(1)
        # binary only if the previous non-space character ends an operand
        j = i
        while j > 0 and body[j - 1] in ' \t\n':
            j -= 1
        prev = body[j - 1] if j > 0 else ''
        if not (prev.isalnum() or prev in '_)]') or re.search(r'\d[eE]$', body[max(0, j - 3):j]) or re.search(r'\breturn$|\bcase$', body[max(0, j - 6):j]):
            pos = i + 1
            continue
        l = _scan_left(body, i)
        # the left operand of + and - may be preceded by a unary sign belonging to it
        r = i + 1
        # right operand: a multiplicative-level expression = unary/postfix expression (products are calls already)
        r = _scan_right(body, i + 1)
        if l is None or r is None:
            pos = i + 1
            continue
        k = l
        while k > 0 and body[k - 1] in ' \t\n':
            k -= 1
        if k > 0 and body[k - 1] in '+-':
            k2 = k - 1
            while k2 > 0 and body[k2 - 1] in ' \t\n':
                k2 -= 1
            p2 = body[k2 - 1] if k2 > 0 else ''
            if not (p2.isalnum() or p2 in '_)]'):
                l = k - 1          # unary sign is part of the left operand
        left, right = body[l:i].strip(), body[i + 1:r].strip()
        fn = 'vf_add' if m.group(1) == '+' else 'vf_sub'
        body = body[:l] + '%s(%s, %s)' % (fn, left, right) + body[r:]
        n += 1
        pos = l
    return head + body, n


RULES['fops_all'] = fops_all
