"""Developer helper: python3 -m vf.dev <unit> [run-name-substr] [--show] [--keep] [--flags "..."]"""
import sys, os, tempfile, concurrent.futures as cf
from . import engine as E


def main():
    args = [a for a in sys.argv[1:] if not a.startswith('--')]
    show = '--show' in sys.argv
    uname = args[0]
    sel = args[1] if len(args) > 1 else ''
    extra = ''
    if '--flags' in sys.argv:
        extra = sys.argv[sys.argv.index('--flags') + 1]
        args = [a for a in args if a != extra]
        sel = args[1] if len(args) > 1 else ''
    units = [u for u in E.load_units() if u.name == uname or os.path.basename(u.path) == uname]
    if not units:
        units = [u for u in E.load_units() if uname in u.name]
    wd = os.environ.get('VF_WD') or tempfile.mkdtemp(prefix='vfdev.')
    os.makedirs(wd, exist_ok=True)
    jobs = []
    for u in units:
        if show:
            import re
            defs = [d for d in sel.split(',') if d]
            text, info = u.instantiate(defs)
            print(text)
            print(info, file=sys.stderr)
            return
        for r in u.runs:
            if sel in r.get('name', ''):
                jobs.append((u, r))
    with cf.ThreadPoolExecutor(16) as ex:
        futs = {ex.submit(E.run_one, u, r, wd, 'quick', True, extra): (u, r) for u, r in jobs}
        for f in cf.as_completed(futs):
            res = f.result()
            print('== %s.%s: %s  (%d props, %d failed, canary=%s, %.1fs)' % (
                res['unit'], res['run'], res['status'], len(res['props']), len(res['failed']),
                res.get('canary'), res['solver_s']))
            if res['status'] != 'ok':
                for p in res['failed'][:(400 if '--all' in sys.argv else 12)]:
                    print('   FAILED', p['id'], p['line'], p['desc'])
                if res['status'] not in ('failed',):
                    print(res['out'][-2500:])
                if '--trace' in sys.argv and res.get('trace'):
                    print(res['trace'][-6000:])
    print('workdir', wd)


main()
