"""Replay files and native confirmation.

A replay file names the failed obligation(s), carries the verifier's output and trace, and —
when /verif/replay/<unit>.cpp exists — the result of running that native program (the real
C++ function from /repo's working tree against an independent oracle, seeded search over
boundary and random inputs, plus any inputs read from the trace)."""
import os, json, subprocess, re, time, tempfile, shutil

VERIF = os.path.dirname(os.path.dirname(os.path.abspath(__file__)))
REPO = os.environ.get('VERIF_REPO', '/repo')


def native_search(unit, seed, run=None, timeout=120):
    src = os.path.join(VERIF, 'replay', unit + '.cpp')
    if not os.path.exists(src):
        return None
    wd = tempfile.mkdtemp(prefix='vfreplay.')
    try:
        exe = os.path.join(wd, 'r')
        inc = os.path.join(REPO, 'CPP/Clipper2Lib/include')
        srcdir = os.path.join(REPO, 'CPP/Clipper2Lib/src')
        link = []
        mm = re.search(r'^// LINK:(.*)$', open(src).read(), flags=re.M)
        if mm:
            link = [os.path.join(srcdir, 'clipper.%s.cpp' % x) for x in mm.group(1).split()]
        defs = []
        mm = re.search(r'^// DEFS:(.*)$', open(src).read(), flags=re.M)
        if mm:
            defs = mm.group(1).split()
        cmd = ['g++', '-std=c++17', '-O1', '-fno-access-control', '-w', '-pthread'] + defs + ['-I', inc, '-I', srcdir,
               '-I', os.path.join(VERIF, 'replay'), src] + link + ['-o', exe]
        p = subprocess.run(cmd, capture_output=True, text=True, timeout=300)
        if p.returncode != 0:
            return dict(built=False, log=p.stderr[-2000:])
        try:
            q = subprocess.run([exe, str(seed), run or ''], capture_output=True, text=True, timeout=timeout)
            out, rc = q.stdout + q.stderr, q.returncode
        except subprocess.TimeoutExpired:
            out, rc = 'native search timeout', 0
        return dict(built=True, found=(rc not in (0, 2) and rc > 0), rc=rc, log=out[-4000:])
    finally:
        shutil.rmtree(wd, ignore_errors=True)


def make_replay(pid, res, failed, seed):
    d = os.path.join(VERIF, 'replays', pid)
    os.makedirs(d, exist_ok=True)
    name = '%s.%s.json' % (res['unit'], res['run'])
    path = os.path.join(d, name)
    nat = native_search(res['unit'], seed, res['run'])
    doc = dict(property=pid, unit=res['unit'], run=res['run'],
               failed_obligations=[dict(id=p['id'], line=p.get('line'), desc=p['desc'], result=p['res']) for p in failed],
               functions=res.get('info', {}).get('functions', []),
               verifier_cmd=res.get('cmd'), verifier_output_tail=res.get('out', '')[-5000:],
               verifier_trace=res.get('trace', '')[-15000:],
               native=nat,
               confirmed=bool(nat and nat.get('found')),
               note=('native replay found a failing input against the real function' if nat and nat.get('found') else
                     'no-failing-input-found: the obligation named above passed on the unchanged tree and fails on '
                     'this one; the verifier trace is a counter-model of the contract, not replayed natively'))
    json.dump(doc, open(path, 'w'), indent=1)
    return dict(path=path, confirmed=doc['confirmed'])


def replay_file(path):
    doc = json.load(open(path))
    print('replay of %s.%s for %s' % (doc['unit'], doc['run'], doc['property']))
    for o in doc['failed_obligations']:
        print('  obligation [%s] %s' % (o['id'], o['desc']))
    nat = native_search(doc['unit'], 0, doc['run'])
    if nat is None:
        print('no native replay program for this unit; verifier trace follows')
        print(doc.get('verifier_trace', '')[-3000:])
        return 0
    print(nat.get('log', ''))
    return 1 if nat.get('found') else 0
