"""Mechanical extraction of C++ function text from /repo and its translation to C.

Nothing here knows any function body: it locates the definition by name (brace
matching on the current working tree), resolves preprocessor branches with
`cpp -undef`, and applies local syntactic rewrite rules.  Every rule application
is counted; rules declared must-fire that do not fire raise ExtractError (the
check then exits 2 = undecided, never a violation).
"""
import re, subprocess, os

REPO = os.environ.get('VERIF_REPO', '/repo')


class ExtractError(Exception):
    pass


def strip_comments_keep_layout(src):
    """Replace comments and string/char literals by spaces (same length) so that
    brace matching is not confused.  Returns masked text of identical length."""
    out = list(src)
    i, n = 0, len(src)
    while i < n:
        c = src[i]
        if c == '/' and i + 1 < n and src[i + 1] == '/':
            j = src.find('\n', i)
            if j < 0:
                j = n
            for k in range(i, j):
                out[k] = ' '
            i = j
        elif c == '/' and i + 1 < n and src[i + 1] == '*':
            j = src.find('*/', i + 2)
            j = n if j < 0 else j + 2
            for k in range(i, j):
                if out[k] != '\n':
                    out[k] = ' '
            i = j
        elif c == '"':
            j = i + 1
            while j < n and src[j] != '"':
                if src[j] == '\\':
                    j += 1
                j += 1
            for k in range(i + 1, min(j, n)):
                out[k] = ' '
            i = j + 1
        elif c == "'":
            # char literal (not digit separator: preceded by alnum means separator)
            if i > 0 and (src[i - 1].isalnum()):
                i += 1
                continue
            j = i + 1
            while j < n and src[j] != "'":
                if src[j] == '\\':
                    j += 1
                j += 1
            for k in range(i + 1, min(j, n)):
                out[k] = ' '
            i = j + 1
        else:
            i += 1
    return ''.join(out)


def match_close(masked, i, open_c, close_c):
    """masked[i] == open_c; return index of matching close."""
    depth = 0
    n = len(masked)
    while i < n:
        c = masked[i]
        if c == open_c:
            depth += 1
        elif c == close_c:
            depth -= 1
            if depth == 0:
                return i
        i += 1
    raise ExtractError('unbalanced %s' % open_c)


_DECL_OK = re.compile(r'^[\w\s:<>,*&~\[\]=.]*$')


def find_function(src, name, sig=None, nth=None, scope=None):
    """Locate the definition of `name` in src.  `name` may be qualified
    (Class::method).  `sig` is a regex that must match the parameter list text;
    `nth` picks among remaining candidates (0-based).  `scope` restricts the
    search to the body of `struct|class <scope>`.  Returns dict with start, end
    (of whole definition incl. template prefix), head (text before the parameter
    list), params, trailer (between ')' and '{'), body (incl. braces)."""
    masked = strip_comments_keep_layout(src)
    lo, hi = 0, len(src)
    if scope:
        m = re.search(r'\b(?:struct|class)\s+' + re.escape(scope) + r'\b[^;{]*\{', masked)
        if not m:
            raise ExtractError('scope %s not found' % scope)
        lo = m.end() - 1
        hi = match_close(masked, lo, '{', '}')
    cands = []
    pat = re.compile(r'(?<![\w:.>])' + re.escape(name) + r'\s*\(')
    if name.startswith('operator'):
        pat = re.compile(r'operator\s*' + re.escape(name[len('operator'):].strip()) + r'\s*\(')
    for m in pat.finditer(masked, lo, hi):
        po = m.end() - 1
        try:
            pc = match_close(masked, po, '(', ')')
        except ExtractError:
            continue
        # operator() has a second parenthesis group holding the parameters
        if name.endswith('operator()') or name == 'operator()':
            k = pc + 1
            while k < hi and masked[k].isspace():
                k += 1
            if k < hi and masked[k] == '(':
                po = k
                pc = match_close(masked, po, '(', ')')
        # after the parameter list: optional const/noexcept/override/-> type/ctor init, then '{'
        k = pc + 1
        while k < hi and masked[k] not in '{;':
            k += 1
        if k >= hi or masked[k] != '{':
            continue
        trailer = src[pc + 1:k]
        if '=' in re.sub(r'\([^()]*\)', '', trailer) and ':' not in trailer:
            continue
        # ctor initialiser lists may contain braces: find the real body brace:
        # body brace is the first '{' at paren depth 0 that is preceded by ')' or
        # identifier char/space (not part of `member{...}`): keep it simple —
        # accept first '{'.
        bo = k
        bc = match_close(masked, bo, '{', '}')
        # declaration start: scan back to previous ';', '}', '{' or preprocessor line end
        s = m.start()
        j = s - 1
        while j >= lo and masked[j] not in ';{}':
            j -= 1
        head_start = j + 1
        head = src[head_start:m.start()]
        mhead = masked[head_start:m.start()]
        # drop preprocessor lines and access specifiers from the head
        mhead_clean = re.sub(r'^[ \t]*#.*$', '', mhead, flags=re.M)
        mhead_clean = re.sub(r'\b(public|private|protected)\s*:', '', mhead_clean)
        if not _DECL_OK.match(mhead_clean):
            continue
        if re.search(r'\b(return|else|new|delete|throw|case)\b', mhead_clean):
            continue
        # '=' is only allowed inside template<...> defaults
        no_tmpl = re.sub(r'template\s*<[^{};]*?>\s*(?=\S)', '', mhead_clean, flags=re.S)
        if '=' in no_tmpl or '.' in no_tmpl:
            continue
        if not no_tmpl.strip() and '::' not in name and not scope:
            # `Foo(x) {`  with nothing before: a call statement followed by a block? skip
            continue
        params = src[po + 1:pc]
        if sig is not None and not re.search(sig, ' '.join(params.split())):
            continue
        # real start: skip leading whitespace/preprocessor lines/access specifiers
        lead = re.match(r'(?:\s|#.*\n|\b(?:public|private|protected)\s*:)*', mhead)
        st = head_start + (lead.end() if lead else 0)
        cands.append(dict(start=st, end=bc + 1, head=src[st:m.start()],
                          name=name, params=params, trailer=trailer,
                          body=src[bo:bc + 1], line=src.count('\n', 0, m.start()) + 1))
    if not cands:
        raise ExtractError('function %s%s not found' % (name, ' sig=' + sig if sig else ''))
    if nth is not None:
        if nth >= len(cands):
            raise ExtractError('function %s: nth=%d of %d' % (name, nth, len(cands)))
        return cands[nth]
    if len(cands) > 1:
        raise ExtractError('function %s ambiguous (%d candidates at lines %s); add sig= or nth='
                           % (name, len(cands), [c['line'] for c in cands]))
    return cands[0]


def find_block(src, begin_marker, end_marker):
    """Text between two marker regexes (R19 block extraction)."""
    m1 = re.search(begin_marker, src)
    if not m1:
        raise ExtractError('block begin marker %r not found' % begin_marker)
    m2 = re.compile(end_marker).search(src, m1.end())
    if not m2:
        raise ExtractError('block end marker %r not found' % end_marker)
    return dict(start=m1.end(), end=m2.start(), text=src[m1.end():m2.start()],
                line=src.count('\n', 0, m1.end()) + 1)


def run_cpp(text, defines):
    """Resolve #if branches of a fragment.  -undef: no predefined macros;
    only the ones listed select the branch."""
    if not re.search(r'^[ \t]*#\s*(if|ifdef|ifndef)', text, flags=re.M):
        return text, False
    cmd = ['cpp', '-undef', '-P', '-nostdinc', '-x', 'c', '-w'] + ['-D' + d for d in defines] + ['-']
    p = subprocess.run(cmd, input=text, capture_output=True, text=True)
    if p.returncode != 0:
        raise ExtractError('cpp failed: ' + p.stderr[:400])
    return p.stdout, True


ENUMS = ['FillRule', 'ClipType', 'PathType', 'JoinType', 'EndType', 'Location', 'VertexFlags',
         'PointInPolygonResult', 'JoinWith', 'HorzPosition']


class Rewriter:
    """Ordered list of (rule id, regex, replacement).  Counts applications."""

    def __init__(self):
        self.log = {}

    def sub(self, rid, pat, repl, text, flags=0):
        new, n = re.subn(pat, repl, text, flags=flags)
        if n:
            self.log[rid] = self.log.get(rid, 0) + n
        return new

    def generic(self, t, opts):
        s = self.sub
        # R1 template prefix, specifiers
        t = s('R1.template', r'template\s*<[^{};()]*?>\s*(?=[\w\[])', '', t, re.S)
        t = s('R1.spec', r'\b(inline|constexpr|explicit|typename|static|virtual|friend)\b\s*', '', t)
        t = s('R1.attr', r'\[\[\w+\]\]\s*', '', t)
        t = s('R1.noexcept', r'\bnoexcept\b', '', t)
        # R2 casts
        t = s('R2.static_cast', r'\b(?:static_cast|reinterpret_cast|const_cast)\s*<\s*([^<>]*?(?:<[^<>]*>)?[^<>]*?)\s*>\s*\(', r'(\1)(', t)
        t = s('R2.funcast', r'(?<![\w.>:])(double|float|int64_t|uint64_t|size_t|int)\s*\((?!\s*\))', r'(\1)(', t)
        # R7 enums
        for e in ENUMS:
            t = s('R7.enum', r'\b' + e + r'::(\w+)', e + r'_\1', t)
        t = s('R7.enumclass', r'\benum\s+class\b', 'enum', t)
        # R3 auto
        t = s('R3.auto', r'\bconst\s+auto\s*&\s*', 'const __auto_type ', t)
        t = s('R3.auto', r'\bauto\s*&\s*', '__auto_type ', t) if opts.get('autoref_val') else t
        t = s('R3.auto', r'\bauto\b', '__auto_type', t)
        t = s('Rn.nullptr', r'\bnullptr\b', 'NULL', t)
        t = s('Rn.std', r'\(std::(min|max)\)\s*\(', r'VF_\1(', t)
        t = s('Rn.std', r'\bstd::(min|max)\s*\(', r'VF_\1(', t)
        t = s('Rn.numlim', r'\(std::numeric_limits<\s*(\w+)\s*>::max\)\s*\(\)', r'VF_NUMLIM_MAX_\1', t)
        t = s('Rn.numlim', r'\(std::numeric_limits<\s*(\w+)\s*>::(min|lowest)\)\s*\(\)', r'VF_NUMLIM_\2_\1', t)
        t = s('Rn.numlim', r'\bstd::numeric_limits<\s*(\w+)\s*>::(max|lowest|min)\s*\(\)', r'VF_NUMLIM_\2_\1', t)
        t = s('Rn.isintegral', r'\bif\s+__auto_type\b', 'if', t)
        t = s('Rn.cmath', r'\bstd::(llabs|round|sqrt|fabs|ceil|floor|nearbyint|pow|log10|log2|exp2|log|exp|trunc|lround|ilogb|sin|cos|acos|atan2|isnan|move|swap)\b', r'\1', t)
        t = s('Rn.sizet', r'\bstd::size_t\b', 'size_t', t)
        t = s('Rn.optional', r'\.\s*has_value\s*\(\s*\)', '.has', t)
        t = s('Rn.optional', r'\.\s*value\s*\(\s*\)', '.val', t)
        t = s('Rn.optional', r'\bstd::nullopt\b', 'VF_NULLOPT', t)
        t = s('Rn.optional', r'\bstd::optional<\s*size_t\s*>', 'VF_OptSize', t)
        return t

    def tmpl_types(self, t, opts):
        s = self.sub
        t = s('R1.PointT', r'\bPoint\s*<\s*T\s*>', 'PointT', t)
        t = s('R1.PointT', r'\bPoint\s*<\s*int64_t\s*>', 'Point64', t)
        t = s('R1.PointT', r'\bPoint\s*<\s*double\s*>', 'PointD', t)
        t = s('R1.RectT', r'\bRect\s*<\s*T\s*>', 'RectT', t)
        t = s('R1.PathT', r'\bPath\s*<\s*T\s*>', 'PathT', t)
        t = s('R1.PathT', r'\bPaths\s*<\s*T\s*>', 'PathsT', t)
        t = s('R12.itertype', r'\b(?:typename\s+)?(?:Path64|PathD|PathT|Path\s*<\s*\w+\s*>|Paths64|PathsD|PathsT)\s*::\s*(?:const_)?iterator\b', 'size_t', t)
        t = s('R12.itertype', r'\b(?:typename\s+)?(?:Paths?64|Paths?D|Paths?T|Paths?\s*<\s*\w+\s*>)\s*::\s*size_type\b', 'size_t', t)
        return t

    def vectors(self, t, names):
        """R12/R14: std::vector API on the named variables -> (data,size) struct operations."""
        s = self.sub
        for v in names:
            V = r'(?<![\w.>])' + v
            t = s('R12.size', V + r'\s*\.\s*size\s*\(\s*\)', v + '.size', t)
            t = s('R12.empty', V + r'\s*\.\s*empty\s*\(\s*\)', '(' + v + '.size == 0)', t)
            t = s('R12.begin', V + r'\s*\.\s*c?begin\s*\(\s*\)', '((size_t)0)', t)
            t = s('R12.end', V + r'\s*\.\s*c?end\s*\(\s*\)', v + '.size', t)
            t = s('R12.front', V + r'\s*\.\s*front\s*\(\s*\)', v + '.data[0]', t)
            t = s('R12.back', V + r'\s*\.\s*back\s*\(\s*\)', v + '.data[' + v + '.size - 1]', t)
            t = s('R12.index', V + r'\s*\[', v + '.data[', t)
            t = s('R14.reserve', V + r'\s*\.\s*reserve\s*\(', 'VF_RESERVE(' + v + ', ', t)
            t = s('R14.pop', V + r'\s*\.\s*pop_back\s*\(\s*\)', 'VF_POP(' + v + ')', t)
            t = s('R14.clear', V + r'\s*\.\s*clear\s*\(\s*\)', 'VF_CLEAR(' + v + ')', t)
            t = s('R14.clear', V + r'\s*\.\s*resize\s*\(\s*0\s*\)', 'VF_CLEAR(' + v + ')', t)
            t = s('R14.push', V + r'\s*\.\s*(?:emplace_back|push_back)\s*\(', 'VF_PUSH(' + v + ', ', t)
        return t

    def iterators(self, t, spec):
        """R12: iterators lowered to indices.  spec = 'cont:it1,it2;cont2:it3'."""
        s = self.sub
        for grp in spec.split(';'):
            cont, its = grp.split(':')
            for it in its.split(','):
                I = r'(?<![\w.>])' + it + r'\b'
                t = s('R12.iter', r'\*\s*\(\s*' + it + r'\s*([+-])\s*(\w+)\s*\)', cont + '.data[' + it + r' \1 \2]', t)
                t = s('R12.iter', r'\*\s*' + I, cont + '.data[' + it + ']', t)
                t = s('R12.iter', I + r'\s*->', cont + '.data[' + it + '].', t)
        return t

    def rangefor(self, t):
        """R13: `for ([const] T[&] x : cont) body` -> index loop; uses of x in the body -> cont.data[vf_i_x]."""
        pat = re.compile(r'\bfor\s*\(\s*(const\s+)?[\w:<>]+\s*([&*]*)\s*(\w+)\s*:\s*([\w.>\-*()\[\]]+?)\s*\)(?=\s*[^\s.\[)])')
        while True:
            m = pat.search(t)
            if not m:
                break
            byref, var, cont = ('&' in m.group(2)) or bool(m.group(1)), m.group(3), m.group(4)
            if cont.startswith('*'):
                cont = '(' + cont + ')'
            idx = 'vf_i_' + var
            # body extent
            k = m.end()
            while t[k].isspace():
                k += 1
            e = stmt_end(strip_comments_keep_layout(t), k)
            hdr = 'for (size_t %s = 0; %s < %s.size; ++%s)' % (idx, idx, cont, idx)
            if byref:
                # reference (or const) loop variable: an alias of the element
                body = re.sub(r'(?<![\w.>])' + var + r'\b', '(' + cont + '.data[' + idx + '])', t[m.end():e])
            else:
                # by-value loop variable: a copy of the element — writes do not reach the container
                body = ' { __auto_type %s = %s.data[%s]; %s }' % (var, cont, idx, t[m.end():e])
                self.log['R13.rangefor.copy'] = self.log.get('R13.rangefor.copy', 0) + 1
            t = t[:m.start()] + hdr + body + t[e:]
            self.log['R13.rangefor'] = self.log.get('R13.rangefor', 0) + 1
        return t

    def byval(self, t, names):
        """R4: `const X& n` parameter -> `const X n` (by value)."""
        for nme in names:
            t2 = self.sub('R4.byval', r'&\s*' + nme + r'\b(?=\s*[,)])', ' ' + nme, t, 0)
            if t2 == t:
                raise ExtractError('R4: reference parameter %s not found' % nme)
            t = t2
        return t

    def byptr(self, t, names):
        """R5: `X& n` parameter -> `X* n`; uses n.f -> n->f ; bare n -> (*n)."""
        for nme in names:
            t2, k = re.subn(r'&\s*' + nme + r'\b(?=\s*[,)=])', '* ' + nme + '__P', t, count=1)
            if not k:
                raise ExtractError('R5: reference parameter %s not found' % nme)
            self.log['R5.byptr'] = self.log.get('R5.byptr', 0) + 1
            t = t2
            t = self.sub('R5.arrow', r'(?<![\w.>])' + nme + r'\s*\.(?=\s*\w)', nme + '->', t)
            t = self.sub('R5.deref', r'(?<![\w.>])' + nme + r'\b(?!\s*->|__P)', '(*' + nme + ')', t)
            t = t.replace(nme + '__P', nme)
        return t

    def members(self, t, selfname='self', extra=()):
        """R6: identifiers ending in '_' (Clipper2's member naming convention) that
        are not already qualified -> self->id_."""
        t = self.sub('R6.this', r'(?<![\w.>:])([A-Za-z]\w*_)\b(?!\s*\()', selfname + r'->\1', t)
        for nme in extra:
            t = self.sub('R6.this', r'(?<![\w.>:])' + nme + r'\b', selfname + '->' + nme, t)
        return t

    def selfcalls(self, t, names, selfname='self'):
        for nme in names:
            t = self.sub('R6.selfcall', r'(?<![\w.>:])' + nme + r'\s*\(\s*\)', nme + '(' + selfname + ')', t)
            t = self.sub('R6.selfcall', r'(?<![\w.>:])' + nme + r'\s*\((?!' + selfname + r'\s*[,)])', nme + '(' + selfname + ', ', t)
        return t


def stmt_end(m, k):
    """Index just past the C statement starting at m[k] (m: comment-masked text)."""
    n = len(m)
    while k < n and m[k].isspace():
        k += 1
    if m[k] == '{':
        return match_close(m, k, '{', '}') + 1
    mm = re.match(r'(if|for|while|switch)\b\s*\(', m[k:])
    if mm:
        po = k + mm.end() - 1
        pc = match_close(m, po, '(', ')')
        e = stmt_end(m, pc + 1)
        if mm.group(1) == 'if':
            j = e
            while j < n and m[j].isspace():
                j += 1
            if m[j:j + 4] == 'else' and not (m[j + 4].isalnum() or m[j + 4] == '_'):
                e = stmt_end(m, j + 4)
        return e
    if m[k:k + 2] == 'do' and not (m[k + 2].isalnum() or m[k + 2] == '_'):
        e = stmt_end(m, k + 2)
        j = m.index(';', e)
        return j + 1
    depth, e = 0, k
    while not (m[e] == ';' and depth == 0):
        if m[e] in '([{':
            depth += 1
        elif m[e] in ')]}':
            depth -= 1
        e += 1
    return e + 1


def insert_loop_contracts(body, loops, masked=None):
    """Insert loop contract text after the n-th loop header (1-based, textual
    order) — for `for(...)`/`while(...)` before the loop body; for do-while
    between `do` and the body (cbmc 6.11 syntax: do contract {..} while(c);)"""
    m = strip_comments_keep_layout(body)
    heads = []
    for mm in re.finditer(r'\b(for|while|do)\b', m):
        kw = mm.group(1)
        if kw == 'do':
            heads.append(('do', mm.start(), None))
            continue
        k = mm.end()
        while k < len(m) and m[k].isspace():
            k += 1
        if k >= len(m) or m[k] != '(':
            continue
        pc = match_close(m, k, '(', ')')
        heads.append((kw, mm.start(), pc + 1))
    # pair do-while: a `while(...)` immediately followed by ';' closing a do
    loops_pos = []
    do_stack = []
    for kw, st, endp in heads:
        if kw == 'do':
            do_stack.append(st)
            loops_pos.append(['do', st, None])
        elif kw == 'while':
            k = endp
            while k < len(m) and m[k].isspace():
                k += 1
            if k < len(m) and m[k] == ';' and do_stack:
                # could be `while(c);` empty-body loop or do-while tail; check that a do is open
                # whose block closes right before this while
                j = st - 1
                while j >= 0 and m[j].isspace():
                    j -= 1
                if j >= 0 and m[j] == '}':
                    ds = do_stack.pop()
                    for lp in loops_pos:
                        if lp[0] == 'do' and lp[1] == ds:
                            lp[2] = endp
                    continue
            loops_pos.append(['while', st, endp])
        else:
            loops_pos.append(['for', st, endp])
    loops_pos.sort(key=lambda x: x[1])
    inserts = []
    for n, text in loops.items():
        if n < 1 or n > len(loops_pos):
            raise ExtractError('loop %d not found (function has %d loops)' % (n, len(loops_pos)))
        pos = loops_pos[n - 1][2]
        if pos is None:
            raise ExtractError('loop %d: do-while tail not found' % n)
        if loops_pos[n - 1][0] == 'do':
            pos = loops_pos[n - 1][1] + 2      # cbmc 6.11: the contract of a do-while goes between `do` and the body
        inserts.append((pos, '\n' + text.rstrip() + '\n'))
    for pos, text in sorted(inserts, reverse=True):
        body = body[:pos] + text + body[pos:]
    return body, len(loops_pos)


def read_repo(rel):
    p = os.path.join(REPO, rel)
    with open(p) as f:
        return f.read()


def extract_enum(src, name):
    """enum class Name [: base] { A, B = 2 }  ->  typedef enum { Name_A, Name_B = 2 } Name;"""
    masked = strip_comments_keep_layout(src)
    m = re.search(r'\benum\s+(?:class\s+)?' + re.escape(name) + r'\b\s*(?::\s*\w+\s*)?\{', masked)
    if not m:
        raise ExtractError('enum %s not found' % name)
    bo = m.end() - 1
    bc = match_close(masked, bo, '{', '}')
    items = [x.strip() for x in masked[bo + 1:bc].split(',') if x.strip()]
    out = []
    for it in items:
        if '=' in it:
            k, v = it.split('=', 1)
            out.append('%s_%s = %s' % (name, k.strip(), v.strip()))
        else:
            out.append('%s_%s' % (name, it))
    return 'typedef enum { %s } %s;' % (', '.join(out), name), len(out), src.count('\n', 0, m.start()) + 1


CONTAINER_FIELD = re.compile(r'^(?:std::(?:vector|priority_queue|deque|unique_ptr)\s*<.*>|\w*List|Path64|PathD|Paths64|PathsD)(?:::\w+)?\s+(\w+)$')


def extract_struct(src, name, cppdefs=(), inits=None):
    """`inits` (a list) receives (field, initialiser-or-None) for every single-declarator field: the default
    member initialisers as written (`= {}` recorded as '{}'), for the value-initialisation function of //@structinit.
    Field list of struct/class `name`: member functions, constructors, destructors,
    access specifiers and default member initialisers are dropped; field declarations are
    carried verbatim.  Returns (C text, field names, line)."""
    masked = strip_comments_keep_layout(src)
    m = None
    for mm in re.finditer(r'\b(?:struct|class)\s+' + re.escape(name) + r'\b([^;{]*)\{', masked):
        m = mm
        break
    if not m:
        raise ExtractError('struct %s not found' % name)
    bo = m.end() - 1
    bc = match_close(masked, bo, '{', '}')
    body = masked[bo + 1:bc]
    body, _ = run_cpp(body, list(cppdefs))
    body = re.sub(r'^[ \t]*#.*$', '', body, flags=re.M)
    # remove nested brace blocks together with their heads (methods); `= {}` initialisers first
    body = re.sub(r'=\s*\{\s*\}', '= VF_EMPTY_INIT', body) if inits is not None else re.sub(r'=\s*\{\s*\}', '', body)
    body = re.sub(r'\{\s*\}', ' ', body)
    while True:
        k = body.find('{')
        if k < 0:
            break
        e = match_close(body, k, '{', '}')
        # head start: previous ';' or '}' or start
        j = k - 1
        while j >= 0 and body[j] not in ';}':
            j -= 1
        tail = e + 1
        # swallow a trailing ';' after the block
        t2 = tail
        while t2 < len(body) and body[t2].isspace():
            t2 += 1
        if t2 < len(body) and body[t2] == ';':
            tail = t2 + 1
        body = body[:j + 1] + ' ' + body[tail:]
    fields, names = [], []
    for st in body.split(';'):
        st = ' '.join(st.split())
        st = re.sub(r'\b(public|private|protected)\s*:', '', st).strip()
        if not st or '(' in st or st.startswith('friend') or st.startswith('using') or st.startswith('typedef'):
            continue
        if inits is not None:
            mi = re.match(r'^[^=,]*?(\w+)\s*(?:=\s*([^,]+))?$', st)
            if not mi:
                raise ExtractError('struct %s: cannot read the initialiser of `%s`' % (name, st))
            inits.append((mi.group(1), mi.group(2).strip().replace('nullptr', 'NULL') if mi.group(2) else None))
        st = re.sub(r'\s*=\s*[^,]+', '', st)          # default member initialisers
        st = re.sub(r'\b(const|mutable|static|inline)\b\s*', '', st) if st.startswith('const uint64_t') else st
        st = st.replace('nullptr', 'NULL')
        mc = CONTAINER_FIELD.match(st)
        if mc:
            if '::iterator' in st or '::const_iterator' in st:
                st = 'size_t ' + mc.group(1)          # R12: iterator -> index
            else:
                st = 'VF_Vec ' + mc.group(1)          # R12/R14: container -> (data,size) pair
        st = re.sub(r'^ZCallback(64|D)\b', r'VF_ZCallback\1', st)
        st = re.sub(r'^std::optional<\s*size_t\s*>\s+(\w+)\s*(?:\{\s*\})?$', r'VF_OptSize \1', st)
        st = re.sub(r'^std::vector<\s*Group\s*>\s+(\w+)$', r'VF_Vec \1', st)
        # field names: identifiers before , or end, after stripping pointer stars
        for piece in st.split(','):
            mm = re.search(r'(\w+)\s*(?:\[[^\]]*\])?\s*$', piece.strip())
            if mm:
                names.append(mm.group(1))
        fields.append(st + ';')
    text = 'struct %s {\n  %s\n};' % (name, '\n  '.join(fields))
    return text, names, src.count('\n', 0, m.start()) + 1


def extract_const(src, name, cppdefs=()):
    """`[static] const T NAME = VALUE;` at namespace scope -> (#define NAME (VALUE), line)."""
    pat = re.compile(r'(?:static\s+)?const(?:expr)?\s+([\w:]+)\s+' + re.escape(name) + r'\s*=\s*([^;]+);')
    ms = list(pat.finditer(src))
    if not ms:
        raise ExtractError('const %s not found' % name)
    if len(ms) > 1:
        lo = src.rfind('\n#if', 0, ms[0].start())
        hi = src.find('#endif', ms[-1].end())
        seg, _ = run_cpp(src[lo + 1:hi + 6], list(cppdefs))
        ms2 = list(pat.finditer(seg))
        if len(ms2) != 1:
            raise ExtractError('const %s ambiguous' % name)
        val = ms2[0].group(2)
    else:
        val = ms[0].group(2)
    val = re.sub(r'static_cast<\s*(\w+)\s*>\s*\(', r'(\1)(', val)
    val = re.sub(r'\(std::numeric_limits<\s*(\w+)\s*>::max\)\s*\(\)', r'VF_NUMLIM_MAX_\1', val)
    val = re.sub(r'\bstd::numeric_limits<\s*(\w+)\s*>::(max|lowest|min)\s*\(\)', r'VF_NUMLIM_\2_\1', val)
    return '#define %s (%s)' % (name, val.strip()), src.count('\n', 0, ms[0].start()) + 1
