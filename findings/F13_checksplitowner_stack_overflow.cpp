// Reproducer (UNPATCHED library): unbounded recursion in ClipperBase::CheckSplitOwner
// when a union of four axis-parallel rectangles is executed into a PolyTree64.
//
// The library call is made in a forked child; the parent reports how the child ended.
//   exit 1 + "stack overflow in CheckSplitOwner reproduced"  : child died with SIGSEGV/SIGBUS
//   exit 0                                                   : the call completed
// Optional argument "paths": execute into Paths64 instead of a PolyTree64 (does not crash).
// Optional argument "direct": make the PolyTree call in this process (for gdb).
#include "clipper2/clipper.h"
#include <cstdio>
#include <cstring>
#include <sys/types.h>
#include <sys/wait.h>
#include <sys/resource.h>
#include <unistd.h>

using namespace Clipper2Lib;

static Paths64 input()
{
  // all coordinates even: every pair of distinct features is >= 2 units apart
  Paths64 s;
  s.push_back(MakePath({ 2,8, 12,8, 12,2, 2,2 }));
  s.push_back(MakePath({ 4,8, 10,8, 10,0, 4,0 }));
  s.push_back(MakePath({ 4,8, 8,8, 8,4, 4,4 }));
  s.push_back(MakePath({ 0,8, 6,8, 6,6, 0,6 }));
  return s;
}

static int run_tree()
{
  Clipper64 c;
  c.AddSubject(input());
  PolyTree64 tree;
  bool ok = c.Execute(ClipType::Union, FillRule::EvenOdd, tree);
  Paths64 p = PolyTreeToPaths64(tree);
  printf("PolyTree64 execution completed: ok=%d, %zu top-level polygon(s), %zu contour(s)\n", (int)ok, tree.Count(), p.size());
  return 0;
}

static int run_paths()
{
  Clipper64 c;
  c.AddSubject(input());
  Paths64 sol;
  bool ok = c.Execute(ClipType::Union, FillRule::EvenOdd, sol);
  printf("Paths64 execution completed: ok=%d, %zu contour(s), area=%g\n", (int)ok, sol.size(), Area(sol));
  for (auto& p : sol) { printf("  "); for (auto& v : p) printf("%lld,%lld ", (long long)v.x, (long long)v.y); printf("\n"); }
  return 0;
}

int main(int argc, char** argv)
{
  if (argc > 1 && !strcmp(argv[1], "direct")) return run_tree();
  bool paths = argc > 1 && !strcmp(argv[1], "paths");
  fflush(stdout);
  pid_t pid = fork();
  if (pid < 0) { perror("fork"); return 2; }
  if (pid == 0) {
    // keep the overflow quick and core-free
    struct rlimit rl; rl.rlim_cur = rl.rlim_max = 0; setrlimit(RLIMIT_CORE, &rl);
    int r = paths ? run_paths() : run_tree();
    fflush(stdout);
    _exit(r);
  }
  int st = 0;
  waitpid(pid, &st, 0);
  if (WIFSIGNALED(st) && (WTERMSIG(st) == SIGSEGV || WTERMSIG(st) == SIGBUS)) {
    printf("child terminated by signal %d\nstack overflow in CheckSplitOwner reproduced\n", WTERMSIG(st));
    return 1;
  }
  if (WIFEXITED(st) && WEXITSTATUS(st) == 0) { printf("call completed normally\n"); return 0; }
  printf("child ended unexpectedly (status 0x%x)\n", st);
  return 2;
}
