// F8: exported Inflate* pass reverse_solution into ClipperOffset's preserve_collinear slot
#include "clipper2/clipper.h"
#include "clipper2/clipper.export.h"
#include <cstdio>
using namespace Clipper2Lib;
int main() {
  Paths64 in = { { {0,0},{50,0},{100,0},{100,100},{0,100} } };   // square + one collinear point
  CPaths64 cin = CreateCPathsFromPathsT(in);
  CPaths64 cout_ = InflatePaths64(cin, 10, (uint8_t)JoinType::Miter, (uint8_t)EndType::Polygon, 2.0, 0.0, /*reverse_solution*/ true);
  Paths64 got = ConvertCPathsToPathsT(cout_);
  ClipperOffset co(2.0, 0.0, false, true);
  co.AddPaths(in, JoinType::Miter, EndType::Polygon);
  Paths64 want; co.Execute(10, want);
  double ag = Area(got), aw = Area(want);
  printf("export: area %.0f, %zu pts; C++ ClipperOffset(2,0,false,true): area %.0f, %zu pts\n", ag, got[0].size(), aw, want[0].size());
  return (ag == aw && got[0].size() == want[0].size()) ? 0 : 1;
}
