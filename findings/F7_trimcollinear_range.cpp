// F7: TrimCollinear(PathD) silently accepts coordinates that leave the integer range after scaling
#include "clipper2/clipper.h"
#include <cstdio>
using namespace Clipper2Lib;
int main() {
  PathD p = {{1e30,0.0},{1e30,1.0},{0.0,1.0}};
  bool reported = false;
  try { PathD r = TrimCollinear(p, 2); printf("returned %zu points, first (%g, %g), no error\n", r.size(), r.empty() ? 0 : r[0].x, r.empty() ? 0 : r[0].y); }
  catch (const Clipper2Exception& e) { reported = true; printf("reported: %s\n", e.what()); }
  bool ref = false;
  try { PathsD r = Union(PathsD{p}, FillRule::NonZero, 2); } catch (const Clipper2Exception&) { ref = true; }
  printf("Union(PathsD) with the same coordinates reports: %d\n", ref);
  return reported ? 0 : 1;
}
