// F5: SimplifyPath drops the end point of an open path when epsilon^2 >= DBL_MAX
#include "clipper2/clipper.h"
#include <cstdio>
using namespace Clipper2Lib;
int main() {
  Path64 p = {{0,0},{10,50},{20,10},{30,1},{40,0}};
  Path64 r = SimplifyPath(p, 1e200, false);
  printf("result:"); for (auto& q : r) printf(" (%lld,%lld)", (long long)q.x, (long long)q.y); printf("\n");
  return (r.size() >= 2 && r.front() == p.front() && r.back() == p.back()) ? 0 : 1;
}
