// F11: exported Inflate*D do not scale arc_tolerance (InflatePaths(PathsD) does)
#include "clipper2/clipper.h"
#include "clipper2/clipper.export.h"
#include <cstdio>
using namespace Clipper2Lib;
int main() {
  PathsD in = { { {0,0},{100,0},{100,100},{0,100} } };
  CPathsD cin = CreateCPathsDFromPathsD(in);
  CPathsD cout_ = InflatePathsD(cin, 10, (uint8_t)JoinType::Round, (uint8_t)EndType::Polygon, 2, 2.0, 0.5, false);
  PathsD got = ConvertCPathsToPathsT(cout_);
  PathsD want = InflatePaths(in, 10, JoinType::Round, EndType::Polygon, 2.0, 2, 0.5);
  printf("export: %zu vertices area %.1f; C++: %zu vertices area %.1f\n", got[0].size(), Area(got), want[0].size(), Area(want));
  return (got[0].size() == want[0].size()) ? 0 : 1;
}
