// UNPATCHED library: a hole that lies strictly inside an outer polygon is returned as a
// top-level (depth 1) child of the PolyTree root.
//
// Input: four axis-parallel rectangles, all coordinates even (features >= 2 units apart),
// ClipType::Union (also Difference / Xor with an empty clip), EvenOdd or NonZero.
// Oracle (independent of the library's ownership code): the solution is also computed into
// Paths64; for every contour the expected parent is the smallest-area contour that contains
// it (exact integer point-in-polygon votes over its vertices), the expected depth is the
// number of containing contours + 1, depth-1/3/.. contours must be positive, depth-2/4/..
// negative.  Also checks path-set and area equality between tree and paths.
// exit 0: property holds on everything tried; exit 1: violation found.
#include "clipper2/clipper.h"
#include <cstdio>
#include <cstdint>
#include <cmath>
#include <vector>
#include <algorithm>
#include <string>

using namespace Clipper2Lib;
typedef std::pair<int64_t, int64_t> IPt;
typedef std::vector<IPt> IPoly;
struct Flat { IPoly poly; int depth; int parent; };

static __int128 cross(const IPt& a, const IPt& b, const IPt& c)
{
  return (__int128)(b.first - a.first) * (c.second - a.second) - (__int128)(b.second - a.second) * (c.first - a.first);
}
static __int128 area2(const IPoly& p)
{
  __int128 s = 0;
  for (size_t i = 0, n = p.size(); i < n; ++i) { const IPt& a = p[i]; const IPt& b = p[(i + 1) % n]; s += (__int128)a.first * b.second - (__int128)b.first * a.second; }
  return s;
}
static int pip(const IPt& q, const IPoly& p) // -1 outside, 0 on, 1 inside
{
  bool in = false;
  for (size_t i = 0, n = p.size(); i < n; ++i) {
    IPt a = p[i], b = p[(i + 1) % n];
    if (cross(a, b, q) == 0 && std::min(a.first, b.first) <= q.first && q.first <= std::max(a.first, b.first) &&
        std::min(a.second, b.second) <= q.second && q.second <= std::max(a.second, b.second)) return 0;
    if ((a.second > q.second) != (b.second > q.second)) { if (a.second > b.second) std::swap(a, b); if (cross(a, b, q) > 0) in = !in; }
  }
  return in ? 1 : -1;
}
static int contains(const IPoly& q, const IPoly& p) // 1 yes, -1 no, 0 cannot tell
{
  int in = 0, out = 0;
  for (const IPt& v : p) { int r = pip(v, q); if (r > 0) ++in; else if (r < 0) ++out; }
  if (in == 0 && out == 0) {
    IPoly q2; for (auto v : q) q2.push_back(IPt(v.first * 2, v.second * 2));
    for (size_t i = 0, n = p.size(); i < n; ++i) { IPt m(p[i].first + p[(i + 1) % n].first, p[i].second + p[(i + 1) % n].second); int r = pip(m, q2); if (r > 0) ++in; else if (r < 0) ++out; }
  }
  return in > out ? 1 : out > in ? -1 : 0;
}
static IPoly canon(const IPoly& p)
{
  if (p.empty()) return p;
  IPt mn = *std::min_element(p.begin(), p.end()); IPoly best;
  for (size_t s = 0; s < p.size(); ++s) { if (p[s] != mn) continue; IPoly r(p.begin() + s, p.end()); r.insert(r.end(), p.begin(), p.begin() + s); if (best.empty() || r < best) best = r; }
  return best;
}
static IPoly conv(const Path64& p) { IPoly r; for (auto& v : p) r.push_back(IPt(v.x, v.y)); return r; }
static void flatten(const PolyPath64& pp, int depth, int parent, std::vector<Flat>& out)
{
  for (auto& c : pp) { out.push_back(Flat{ conv(c->Polygon()), depth + 1, parent }); flatten(*c, depth + 1, (int)out.size() - 1, out); }
}
static std::string pstr(const IPoly& p) { std::string s; for (auto& v : p) s += std::to_string(v.first) + "," + std::to_string(v.second) + " "; return s; }
static void show(const PolyPath64& pp, int d)
{
  for (auto& c : pp) { printf("    %*s%s area=%g : %s\n", d * 2, "", c->IsHole() ? "hole " : "outer", Area(c->Polygon()), pstr(conv(c->Polygon())).c_str()); show(*c, d + 1); }
}

static int g_viol = 0, g_runs = 0;
static const char* ctn[] = { "NoClip","Intersection","Union","Difference","Xor" };
static const char* frn[] = { "EvenOdd","NonZero","Positive","Negative" };

static void run(const Paths64& subj, ClipType ct, FillRule fr, int64_t scale)
{
  Paths64 s = subj; for (auto& p : s) for (auto& v : p) { v.x *= scale; v.y *= scale; }
  Paths64 sol; PolyTree64 tree;
  { Clipper64 c; c.AddSubject(s); c.Execute(ct, fr, sol); }
  { Clipper64 c; c.AddSubject(s); c.Execute(ct, fr, tree); }
  std::vector<Flat> fl; flatten(tree, 0, -1, fl);
  std::string why;
  {
    std::vector<IPoly> a, b; __int128 sa = 0, sb = 0;
    for (auto& p : sol) { a.push_back(canon(conv(p))); sa += area2(conv(p)); }
    for (auto& f : fl) { b.push_back(canon(f.poly)); sb += area2(f.poly); }
    std::sort(a.begin(), a.end()); std::sort(b.begin(), b.end());
    if (a != b) why += "  closed paths of tree and of Paths differ\n";
    if (sa != sb || (__int128)std::llround(tree.Area() * 2) != sa) why += "  areas differ\n";
  }
  size_t n = fl.size();
  std::vector<__int128> aa(n);
  for (size_t i = 0; i < n; ++i) { aa[i] = area2(fl[i].poly); if (aa[i] < 0) aa[i] = -aa[i]; }
  for (size_t i = 0; i < n; ++i) {
    __int128 a = area2(fl[i].poly);
    if (a != 0 && (a > 0) != (fl[i].depth % 2 == 1))
      why += "  contour at depth " + std::to_string(fl[i].depth) + " has " + (a > 0 ? "positive" : "negative") + " orientation: [" + pstr(fl[i].poly) + "]\n";
    int best = -1, cnt = 0; bool equivocal = false;
    for (size_t j = 0; j < n; ++j) {
      if (j == i || aa[j] <= aa[i]) continue;
      int c = contains(fl[j].poly, fl[i].poly);
      if (c == 0) { equivocal = true; continue; }
      if (c > 0) { ++cnt; if (best < 0 || aa[j] < aa[best]) best = (int)j; }
    }
    if (equivocal) continue;
    if (best != fl[i].parent)
      why += "  wrong parent for [" + pstr(fl[i].poly) + "]\n    parent in tree:     [" + (fl[i].parent < 0 ? std::string("root") : pstr(fl[fl[i].parent].poly)) +
             "]\n    smallest container: [" + (best < 0 ? std::string("root") : pstr(fl[best].poly)) + "]\n";
    else if (cnt + 1 != fl[i].depth) why += "  depth != containers + 1\n";
  }
  // the library's own checker, for reference
  bool lib_ok = CheckPolytreeFullyContainsChildren(tree);
  ++g_runs;
  if (!why.empty()) {
    ++g_viol;
    printf("VIOLATION: %s %s, coordinates x%lld (CheckPolytreeFullyContainsChildren says %s)\n%s  tree returned by the library:\n",
      ctn[(int)ct], frn[(int)fr], (long long)scale, lib_ok ? "true" : "false", why.c_str());
    show(tree, 0);
  }
}

int main()
{
  Paths64 subj;
  subj.push_back(MakePath({ 8,12, 12,12, 12,2, 8,2 }));   // A  [8,12]x[2,12]
  subj.push_back(MakePath({ 4,12, 8,12, 8,8, 4,8 }));     // B  [4,8]x[8,12]
  subj.push_back(MakePath({ 2,8, 8,8, 8,0, 2,0 }));       // C  [2,8]x[0,8]
  subj.push_back(MakePath({ 6,8, 8,8, 8,10, 6,10 }));     // D  [6,8]x[8,10], inside B, opposite orientation
  const ClipType cts[] = { ClipType::Union, ClipType::Difference, ClipType::Xor, ClipType::Intersection };
  const FillRule frs[] = { FillRule::EvenOdd, FillRule::NonZero, FillRule::Positive, FillRule::Negative };
  for (int64_t scale : { (int64_t)1, (int64_t)10, (int64_t)1000 })
    for (ClipType ct : cts) for (FillRule fr : frs) run(subj, ct, fr, scale);
  printf("%d executions checked, %d violation(s)\n", g_runs, g_viol);
  return g_viol ? 1 : 0;
}
