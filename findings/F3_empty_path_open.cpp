// F3: an empty path in a non-Polygon offset group is indexed (norms[0] / path[0]) -> crash
#include "clipper2/clipper.h"
#include <cstdio>
using namespace Clipper2Lib;
int main() {
  EndType ets[] = {EndType::Joined, EndType::Butt, EndType::Square, EndType::Round};
  for (EndType et : ets) {
    Paths64 r = InflatePaths(Paths64{ Path64{} }, 10, JoinType::Round, et);
    Paths64 r2 = InflatePaths(Paths64{ Path64{}, Path64{{0,0},{100,0}} }, 10, JoinType::Round, et);
    printf("end type %d: %zu / %zu paths\n", (int)et, r.size(), r2.size());
  }
  return 0;
}
