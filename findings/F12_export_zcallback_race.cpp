// F12 (C14): the USINGZ C export layer keeps the Z callback in a global (dllCallback64).
// Two threads, each with its own data and its own callback, interleaved A:set, B:set, A:clip, B:clip
// (handshakes make the schedule deterministic): A's result carries B's z labels, whereas running A then B
// one after the other gives A its own labels.  Build: g++ -std=c++17 -O1 -DUSINGZ -pthread -I<include> F12.cpp <3 library .cpp>
#include "clipper2/clipper.h"
#include "clipper2/clipper.export.h"
#include <thread>
#include <atomic>
#include <cstdio>
using namespace Clipper2Lib;
static void cbA(const Point64&, const Point64&, const Point64&, const Point64&, Point64& pt) { pt.z = 111; }
static void cbB(const Point64&, const Point64&, const Point64&, const Point64&, Point64& pt) { pt.z = 222; }
static std::atomic<int> step{0};
static void wait_for(int s) { while (step.load() < s) std::this_thread::yield(); }

static int run(DLLZCallback64 cb, int64_t off, int my_set_step, int my_run_step, bool interleave, int64_t& zseen)
{
  Paths64 subj(1), clip(1);
  for (int k = 0; k < 4; ++k) {
    int64_t x = (k == 1 || k == 2) ? 100 : 0, y = (k >= 2) ? 100 : 0;
    subj[0].push_back(Point64(off + x, y, (int64_t)1)); clip[0].push_back(Point64(off + x + 50, y + 50, (int64_t)1));
  }
  CPaths64 cs = CreateCPathsFromPathsT(subj), cc = CreateCPathsFromPathsT(clip), sol = nullptr, solo = nullptr;
  if (interleave) wait_for(my_set_step);
  SetZCallback64(cb);
  if (interleave) { step++; wait_for(my_run_step); }
  int rc = BooleanOp64((uint8_t)ClipType::Intersection, (uint8_t)FillRule::NonZero, cs, nullptr, cc, sol, solo);
  if (interleave) step++;
  zseen = 0;
  if (rc == 0 && sol) {
    Paths64 r = ConvertCPathsToPathsT<int64_t>(sol);
    for (auto& p : r) for (auto& pt : p) if (pt.z > 100) zseen = pt.z;   // a z assigned by a callback
  }
  delete[] cs; delete[] cc; delete[] sol; delete[] solo;
  return rc;
}

int main()
{
  int64_t zA_seq, zB_seq, zA_par, zB_par;
  run(cbA, 0, 0, 0, false, zA_seq); run(cbB, 100000, 0, 0, false, zB_seq);
  // schedule: A sets (step 0->1), B sets (1->2), A clips (2->3), B clips (3->4)
  std::thread ta([&] { run(cbA, 0, 0, 2, true, zA_par); });
  std::thread tb([&] { run(cbB, 100000, 1, 3, true, zB_par); });
  ta.join(); tb.join();
  printf("sequential: A sees z=%lld, B sees z=%lld; interleaved: A sees z=%lld, B sees z=%lld\n", (long long)zA_seq, (long long)zB_seq, (long long)zA_par, (long long)zB_par);
  if (zA_par != zA_seq || zB_par != zB_seq) { printf("F12: result of a thread depends on another thread's SetZCallback64 (global dllCallback64)\n"); return 1; }
  return 0;
}
