// F15 (observation, C10/C12): the same ReuseableDataContainer64 attached twice to one Clipper64, then Execute: the sweep pairs edges by Vertex pointer identity
// (GetMaximaPair: e2->vertex_top == e.vertex_top), four edges now share each vertex, memory grows until std::bad_alloc (run under ulimit -v). Exit 1 = reproduced.
#include "clipper2/clipper.h"
#include <cstdio>
#include <new>
using namespace Clipper2Lib;
int main() {
  Paths64 subj{ MakePath({0,0, 100,0, 100,100, 0,100}) }, clip{ MakePath({50,50, 150,50, 150,150, 50,150}) };
  ReuseableDataContainer64 rd; rd.AddPaths(subj, PathType::Subject, false); rd.AddPaths(clip, PathType::Clip, false);
  Clipper64 c; c.AddReuseableData(rd); c.AddReuseableData(rd);
  Paths64 sol;
  try { bool ok = c.Execute(ClipType::Intersection, FillRule::NonZero, sol); printf("ok=%d paths=%zu\n", ok, sol.size()); }
  catch (const std::bad_alloc&) { printf("bad_alloc\n"); return 1; }
  return 0;
}
