// F2: delta_ = abs(delta_) for a Polygon group without a lowest path persists into later groups
#include "clipper2/clipper.h"
#include <cstdio>
using namespace Clipper2Lib;
int main() {
  Path64 sq = {{0,0},{100,0},{100,100},{0,100}};
  ClipperOffset co; co.AddPath(Path64{}, JoinType::Miter, EndType::Polygon); co.AddPath(sq, JoinType::Miter, EndType::Polygon);
  Paths64 out; co.Execute(-10, out);
  ClipperOffset co2; co2.AddPath(sq, JoinType::Miter, EndType::Polygon);
  Paths64 out2; co2.Execute(-10, out2);
  printf("with an empty group first: area %.0f; alone: area %.0f\n", Area(out), Area(out2));
  return Area(out) == Area(out2) ? 0 : 1;
}
