// F6: MinkowskiSum(PathD...) accepts an out-of-range precision silently
#include "clipper2/clipper.h"
#include <cstdio>
using namespace Clipper2Lib;
int main() {
  PathD pat = {{0,0},{1,0},{1,1}}, path = {{0,0},{10,0},{10,10}};
  bool reported = false;
  try { PathsD r = MinkowskiSum(pat, path, true, 12); printf("precision 12: %zu paths returned, no error\n", r.size()); }
  catch (const Clipper2Exception& e) { reported = true; printf("reported: %s\n", e.what()); }
  bool ref = false;
  try { PathsD r = Union(PathsD{path}, FillRule::NonZero, 12); } catch (const Clipper2Exception&) { ref = true; }
  printf("Union(PathsD, precision 12) reports: %d\n", ref);
  return reported ? 0 : 1;
}
