// F1: end_type_ chosen for a 2-point path of a Joined group leaks to the following paths of the group
#include "clipper2/clipper.h"
#include <cstdio>
#include <cmath>
using namespace Clipper2Lib;
int main() {
  Path64 a = {{0,0},{100,0}}, b = {{100000,0},{100100,0},{100100,100}};
  double together = Area(InflatePaths(Paths64{a, b}, 10, JoinType::Miter, EndType::Joined));
  double alone = Area(InflatePaths(Paths64{a}, 10, JoinType::Miter, EndType::Joined)) + Area(InflatePaths(Paths64{b}, 10, JoinType::Miter, EndType::Joined));
  double swapped = Area(InflatePaths(Paths64{b, a}, 10, JoinType::Miter, EndType::Joined));
  printf("together %.0f, each alone %.0f, other order %.0f\n", together, alone, swapped);
  return (together == alone && swapped == alone) ? 0 : 1;
}
