// F4: RamerDouglasPeucker drops a far vertex and the end point when path.front()==path.back()
#include "clipper2/clipper.h"
#include <cstdio>
using namespace Clipper2Lib;
int main() {
  Path64 p = {{0,0},{100,0},{100,100},{0,100},{0,0}};
  Path64 r = RamerDouglasPeucker(p, 1.0);
  bool has = false; for (auto& q : r) if (q == Point64(0,100)) has = true;
  printf("result size %zu, contains (0,100): %d, last==input last: %d\n", r.size(), has, r.back() == p.back() && r.size() >= 2);
  return (has && r.back() == p.back()) ? 0 : 1;
}
