// Native replay for unit C08_kernel: the real (file-static) rectangle-kernel functions against their definitions,
// exhaustively on a small grid.
#include "clipper.rectclip.cpp"
#include "vf_replay.h"
using namespace Clipper2Lib;
int main(int, char**) {
  const int G = 3;
  for (int l = -G; l <= G; ++l) for (int t = -G; t <= G; ++t) for (int r = l + 1; r <= G; ++r) for (int b = t + 1; b <= G; ++b) {
    Rect64 rec(l, t, r, b);
    for (int x = -G - 1; x <= G + 1; ++x) for (int y = -G - 1; y <= G + 1; ++y) {
      Point64 pt(x, y); Location loc = Location::Inside;
      bool ret = GetLocation(rec, pt, loc);
      bool onL = x == l && y >= t && y <= b, onR = x == r && y >= t && y <= b, onT = y == t && x >= l && x <= r, onB = y == b && x >= l && x <= r;
      bool on = onL || onR || onT || onB, inside = x > l && x < r && y > t && y < b;
      bool ok = ret == !on;
      if (!ret) ok = ok && ((loc == Location::Left && onL) || (loc == Location::Right && onR) || (loc == Location::Top && onT) || (loc == Location::Bottom && onB));
      else ok = ok && ((loc == Location::Inside) == inside) && (loc == Location::Inside || (loc == Location::Left && x < l) || (loc == Location::Right && x > r) || (loc == Location::Top && y < t) || (loc == Location::Bottom && y > b));
      if (!ok) VF_FAIL("GetLocation(rect(%d,%d,%d,%d), (%d,%d)) = %d, loc %d", l, t, r, b, x, y, (int)ret, (int)loc);
      uint32_t e = GetEdgesForPt(pt, rec), we = (x == l ? 1u : 0) | (y == t ? 2u : 0) | (x == r ? 4u : 0) | (y == b ? 8u : 0);
      if (e != we) VF_FAIL("GetEdgesForPt((%d,%d), rect(%d,%d,%d,%d)) = %u, expected %u", x, y, l, t, r, b, e, we);
      if (rec.Contains(pt) != inside) VF_FAIL("Rect64::Contains(point)");
    }
  }
  const Location cw[4] = { Location::Top, Location::Right, Location::Bottom, Location::Left };
  for (int a = 0; a < 4; ++a) {
    if (GetAdjacentLocation((Location)a, true) != cw[a]) VF_FAIL("GetAdjacentLocation(%d, clockwise)", a);
    if (cw[(int)GetAdjacentLocation((Location)a, false)] != (Location)a) VF_FAIL("GetAdjacentLocation(%d, counter-clockwise)", a);
    for (int c = 0; c < 4; ++c) {
      if (HeadingClockwise((Location)a, (Location)c) != ((Location)c == cw[a])) VF_FAIL("HeadingClockwise(%d,%d)", a, c);
      if (AreOpposites((Location)a, (Location)c) != ((Location)c == cw[(int)cw[a]])) VF_FAIL("AreOpposites(%d,%d)", a, c);
    }
  }
  // StartLocsAreClockwise against the quarter-turn count, all sequences up to length 6
  for (int n = 0; n <= 6; ++n) { int total = 1; for (int i = 0; i < n; ++i) total *= 4;
    for (int code = 0; code < total; ++code) { std::vector<Location> v; int c = code; for (int i = 0; i < n; ++i) { v.push_back((Location)(c % 4)); c /= 4; }
      int net = 0; for (int i = 1; i < n; ++i) { if (v[i] == cw[(int)v[i - 1]]) ++net; else if (v[i - 1] == cw[(int)v[i]]) --net; }
      if (StartLocsAreClockwise(v) != (net > 0)) { VF_FAIL("StartLocsAreClockwise(sequence code %d of length %d) != %d", code, n, (int)(net > 0)); } } }
  printf("C08_kernel replay: %d failing inputs\n", vf_fails);
  return vf_fails ? 1 : 0;
}
