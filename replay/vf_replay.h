// Shared helpers for native replay programs: seeded boundary + random inputs.
#pragma once
#include <cstdint>
#include <cstdio>
#include <cstdlib>
#include <vector>
#include <string>
struct VfRng { uint64_t s; explicit VfRng(uint64_t seed) : s(seed * 6364136223846793005ULL + 1442695040888963407ULL) {}
  uint64_t next() { s ^= s << 13; s ^= s >> 7; s ^= s << 17; return s; } };
static const int64_t VF_BOUNDARY[] = { 0, 1, -1, 2, -2, 3, (int64_t)1 << 31, -((int64_t)1 << 31), ((int64_t)1 << 32) - 1, ((int64_t)1 << 32), ((int64_t)1 << 32) + 1,
  (int64_t)1 << 40, -((int64_t)1 << 40), (int64_t)1 << 61, -((int64_t)1 << 61), ((int64_t)1 << 62) - 1, -(((int64_t)1 << 62) - 1), INT64_MAX, INT64_MIN + 1, INT64_MIN };
static const int VF_NB = sizeof(VF_BOUNDARY) / sizeof(VF_BOUNDARY[0]);
static inline int64_t vf_pick(VfRng& r, int64_t lim) {   // boundary value or random, |v| <= lim
  uint64_t k = r.next();
  int64_t v = (k & 3) ? (int64_t)(r.next()) >> (r.next() % 63) : VF_BOUNDARY[(k >> 2) % VF_NB];
  if (v > lim) v = lim; if (v < -lim) v = -lim; return v; }
static int vf_fails = 0;
#define VF_FAIL(...) do { if (vf_fails < 5) { printf("FAIL "); printf(__VA_ARGS__); printf("\n"); } vf_fails++; } while (0)
