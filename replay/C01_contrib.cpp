// Native replay for unit C01_contrib: the real ClipperBase::IsContributingClosed / IsContributingOpen (private members
// reached with -fno-access-control, the engine included as a source file) against the region-boundary definition,
// exhaustively for all clip types x fill rules x path types and winding numbers in [-4, 4].
#include "clipper.engine.cpp"
#include "vf_replay.h"
using namespace Clipper2Lib;
static bool filled(FillRule fr, int w) { switch (fr) { case FillRule::EvenOdd: return w & 1; case FillRule::NonZero: return w != 0; case FillRule::Positive: return w > 0; default: return w < 0; } }
static bool op(ClipType ct, bool s, bool c) { switch (ct) { case ClipType::Intersection: return s && c; case ClipType::Union: return s || c; case ClipType::Difference: return s && !c; case ClipType::Xor: return s != c; default: return false; } }
static bool inres(ClipType ct, FillRule fr, PathType t, int w, int w2) { return t == PathType::Subject ? op(ct, filled(fr, w), filled(fr, w2)) : op(ct, filled(fr, w2), filled(fr, w)); }
int main(int, char**) {
  Clipper64 c;
  for (int ct = 0; ct <= 4; ++ct) for (int fr = 0; fr <= 3; ++fr) for (int t = 0; t <= 1; ++t)
    for (int w = -4; w <= 4; ++w) for (int w2 = -4; w2 <= 4; ++w2) {
      bool eo = fr == 0;
      c.cliptype_ = (ClipType)ct; c.fillrule_ = (FillRule)fr;
      LocalMinima lm(nullptr, (PathType)t, false); Active e; e.local_min = &lm; e.wind_cnt = w; e.wind_cnt2 = w2;
      if (w != 0 && (!eo || ((w == 1 || w == -1) && (w2 == 0 || w2 == 1)))) {
        int lo = w > 0 ? w - 1 : w + 1;
        bool want = inres((ClipType)ct, (FillRule)fr, (PathType)t, w, w2) != inres((ClipType)ct, (FillRule)fr, (PathType)t, lo, w2);
        if (c.IsContributingClosed(e) != want) VF_FAIL("IsContributingClosed cliptype=%d fillrule=%d pathtype=%d wind_cnt=%d wind_cnt2=%d: expected %d", ct, fr, t, w, w2, (int)want);
      }
      if (ct != 0 && (!eo || ((w == 0 || w == 1) && (w2 == 0 || w2 == 1)))) {
        bool inc = filled((FillRule)fr, w2), ins = filled((FillRule)fr, w);
        bool want = ct == 1 ? inc : ct == 2 ? (!ins && !inc) : !inc;
        if (c.IsContributingOpen(e) != want) VF_FAIL("IsContributingOpen cliptype=%d fillrule=%d wind_cnt=%d wind_cnt2=%d: expected %d", ct, fr, w, w2, (int)want);
      }
    }
  printf("C01_contrib replay: %d failing inputs\n", vf_fails);
  return vf_fails ? 1 : 0;
}
