// LINK: engine
// native replay for C10_movesplits: the seed-independent leak oracle from an earlier confirmed demonstration (counts live heap blocks around polytree clipping of inputs that reach MoveSplits)
// Seed C10 / 1 -- demo
//
// Property clause: "Every public operation (boolean clipping into paths or a
// polytree ...) returns ... without ... leaks ...".
//
// Oracle (independent of any stored library output):
//   * global operator new/delete are replaced; every live heap block is counted.
//     A boolean operation is run to completion inside a scope, every object that
//     took part in it (Clipper64, PolyTree64, input and output paths) is
//     destroyed, and the number of live blocks must be back where it started;
//   * in addition every block ENDS on a page boundary followed by a guard page
//     and freed blocks become inaccessible for good, so a heap overrun or a use
//     after free raises SIGSEGV deterministically;
//   * every case runs in a forked child with an alarm() watchdog (hang check).
//
// Exit status: 0 = property held on everything tried, 1 = violation found.

#include <sys/mman.h>
#include <sys/wait.h>
#include <unistd.h>
#include <signal.h>
#include <atomic>
#include <cstdio>
#include <cstdlib>
#include <cstring>
#include <new>
#include <vector>
#include <string>

// ---------------------------------------------------------------------------
// guard-page allocator
// ---------------------------------------------------------------------------
namespace fence {
  static const size_t PG = 4096;
  static std::atomic<long> live{0};
  struct Hdr { size_t map_len; size_t user_len; unsigned long magic; };
  static const unsigned long MAGIC = 0xC10C10C10C10C10Ful;

  static void* alloc(size_t n, size_t align)
  {
    if (align < 16) align = 16;
    size_t n16 = (n + align - 1) / align * align;
    if (n16 == 0) n16 = align;
    size_t data_pages = (n16 + PG - 1) / PG;
    size_t map_len = (1 + data_pages + 1) * PG;
    char* base = (char*)mmap(nullptr, map_len, PROT_READ | PROT_WRITE,
      MAP_PRIVATE | MAP_ANONYMOUS, -1, 0);
    if (base == (char*)MAP_FAILED) return nullptr;
    char* data_end = base + (1 + data_pages) * PG;
    mprotect(data_end, PG, PROT_NONE);              // trailing guard page
    Hdr* h = (Hdr*)base;
    h->map_len = map_len; h->user_len = n; h->magic = MAGIC;
    ++live;
    return data_end - n16;
  }

  static void release(void* p)
  {
    if (!p) return;
    char* first_data_page = (char*)((unsigned long)p / PG * PG);
    Hdr* h = (Hdr*)(first_data_page - PG);
    if (h->magic != MAGIC) { fprintf(stderr, "fence: bad free\n"); abort(); }
    size_t len = h->map_len;
    --live;
    // replace the block by a fresh inaccessible mapping: the pages are given
    // back, the address range stays reserved and is never reused => UAF faults
    mmap((void*)h, len, PROT_NONE,
      MAP_FIXED | MAP_PRIVATE | MAP_ANONYMOUS | MAP_NORESERVE, -1, 0);
  }
}

void* operator new(size_t n) { void* p = fence::alloc(n, 16); if (!p) throw std::bad_alloc(); return p; }
void* operator new[](size_t n) { void* p = fence::alloc(n, 16); if (!p) throw std::bad_alloc(); return p; }
void* operator new(size_t n, const std::nothrow_t&) noexcept { return fence::alloc(n, 16); }
void* operator new[](size_t n, const std::nothrow_t&) noexcept { return fence::alloc(n, 16); }
void* operator new(size_t n, std::align_val_t a) { void* p = fence::alloc(n, (size_t)a); if (!p) throw std::bad_alloc(); return p; }
void* operator new[](size_t n, std::align_val_t a) { void* p = fence::alloc(n, (size_t)a); if (!p) throw std::bad_alloc(); return p; }
void operator delete(void* p) noexcept { fence::release(p); }
void operator delete[](void* p) noexcept { fence::release(p); }
void operator delete(void* p, size_t) noexcept { fence::release(p); }
void operator delete[](void* p, size_t) noexcept { fence::release(p); }
void operator delete(void* p, std::align_val_t) noexcept { fence::release(p); }
void operator delete[](void* p, std::align_val_t) noexcept { fence::release(p); }
void operator delete(void* p, size_t, std::align_val_t) noexcept { fence::release(p); }
void operator delete[](void* p, size_t, std::align_val_t) noexcept { fence::release(p); }
void operator delete(void* p, const std::nothrow_t&) noexcept { fence::release(p); }
void operator delete[](void* p, const std::nothrow_t&) noexcept { fence::release(p); }

#include <random>
#include "clipper2/clipper.h"

using namespace Clipper2Lib;

typedef std::vector<std::vector<int64_t>> RawPaths; // each inner = x0,y0,x1,y1,...

static Paths64 ToPaths(const RawPaths& raw)
{
  Paths64 res;
  res.reserve(raw.size());
  for (const auto& v : raw)
  {
    Path64 p;
    p.reserve(v.size() / 2);
    for (size_t i = 0; i + 1 < v.size(); i += 2) p.emplace_back(v[i], v[i + 1]);
    res.emplace_back(std::move(p));
  }
  return res;
}

struct Job {
  RawPaths subj, clip;
  int ct, fr;          // ClipType 1..4, FillRule 0..3
  bool preserve_collinear, use_tree;
};

// runs one boolean operation and destroys everything it touched
static void RunJob(const Job& j)
{
  Paths64 s = ToPaths(j.subj), c = ToPaths(j.clip);
  Clipper64 clipper;
  clipper.PreserveCollinear(j.preserve_collinear);
  clipper.AddSubject(s);
  clipper.AddClip(c);
  if (j.use_tree)
  {
    PolyTree64 tree;
    clipper.Execute((ClipType)j.ct, (FillRule)j.fr, tree);
  }
  else
  {
    Paths64 sol;
    clipper.Execute((ClipType)j.ct, (FillRule)j.fr, sol);
  }
}

// returns 0 ok, 1 leak, 2 crash, 3 hang
static int Check(const Job& j, long& leaked, int& sig)
{
  fflush(stdout);
  pid_t pid = fork();
  if (pid == 0)
  {
    alarm(20);
    long before = fence::live.load();
    RunJob(j);
    long diff = fence::live.load() - before;
    if (diff > 250) diff = 250;
    _exit(diff == 0 ? 0 : (int)diff);   // exit status carries the number of leaked blocks
  }
  int st = 0;
  waitpid(pid, &st, 0);
  leaked = 0; sig = 0;
  if (WIFSIGNALED(st)) { sig = WTERMSIG(st); return sig == SIGALRM ? 3 : 2; }
  if (WEXITSTATUS(st)) { leaked = WEXITSTATUS(st); return 1; }
  return 0;
}

static void PrintJob(const Job& j)
{
  static const char* cts[] = { "NoClip", "Intersection", "Union", "Difference", "Xor" };
  static const char* frs[] = { "EvenOdd", "NonZero", "Positive", "Negative" };
  printf("      %s / %s / preserve_collinear=%d / %s\n", cts[j.ct], frs[j.fr],
    (int)j.preserve_collinear, j.use_tree ? "PolyTree64 result" : "Paths64 result");
  for (auto& p : j.subj) { printf("      subject:"); for (size_t i = 0; i + 1 < p.size(); i += 2) printf(" %ld,%ld", (long)p[i], (long)p[i + 1]); printf("\n"); }
  for (auto& p : j.clip) { printf("      clip:   "); for (size_t i = 0; i + 1 < p.size(); i += 2) printf(" %ld,%ld", (long)p[i], (long)p[i + 1]); printf("\n"); }
}

int main()
{
  setvbuf(stdout, nullptr, _IOLBF, 0);
  std::vector<Job> jobs;

  // a few hand-written jobs: overlapping polygons that share horizontal edges
  jobs.push_back({ { { 0,0, 10,0, 10,10, 0,10 } }, { { 5,5, 15,5, 15,15, 5,15 } }, 2, 1, false, true });
  jobs.push_back({ { { 0,0, 10,0, 10,10, 0,10 }, { 10,0, 20,0, 20,10, 10,10 } }, {}, 2, 1, false, true });
  jobs.push_back({ { { 0,0, 30,0, 30,30, 0,30 }, { 10,10, 20,10, 20,20, 10,20 } }, { { 5,10, 25,10, 25,12, 5,12 } }, 4, 0, true, true });
  jobs.push_back({ { { 9,3, 2,7, 10,7, 1,8, 8,4, 0,10, 5,8, 2,5, 7,2, 0,5, 4,9 } },
                   { { 3,0, 4,9, 0,7, 7,3, 10,6 } }, 2, 0, false, true });
  jobs.push_back({ { { 4,4, 10,7, 1,8, 6,1, 1,5, 9,1, 4,10, 3,10, 1,6, 9,6, 4,3 },
                     { 8,5, 10,10, 1,7, 7,5, 8,8, 10,6, 8,10, 7,2, 5,2, 6,2, 1,5 } },
                   { { 2,1, 2,8, 6,0, 0,0, 4,3, 0,8, 0,0, 10,5, 8,6 } }, 2, 0, false, true });
  jobs.push_back({ { { 6,8, 5,5, 1,5, 5,4, 2,2, 2,9, 1,2, 9,8, 6,0 },
                     { 9,5, 0,9, 2,8, 9,7, 10,9, 6,10, 0,5, 8,5, 3,4, 5,7, 6,2, 9,6 } },
                   { { 1,9, 0,10, 3,8, 9,5, 8,2, 3,5, 1,5, 7,1, 1,6, 8,0, 7,1, 2,0 } }, 4, 0, true, true });
  const size_t hand_written = jobs.size();

  // deterministic pseudo-random sweep: small self-intersecting polygons on a
  // coarse grid (many horizontal and coincident edges), every clip type, into
  // a polytree and into plain paths.  Jobs are generated one at a time.
  const size_t generated = 6000;
  std::mt19937 rng(20260927);
  int bad = 0, shown = 0;
  for (size_t i = 0; i < hand_written + generated; ++i)
  {
    Job j;
    if (i < hand_written) j = jobs[i];
    else
    {
      int ns = 1 + rng() % 2, nc = rng() % 2;
      for (int k = 0; k < ns + nc; ++k)
      {
        int n = 4 + rng() % 9;
        std::vector<int64_t> c;
        for (int m = 0; m < 2 * n; ++m) c.push_back((int64_t)(rng() % 11));
        (k < ns ? j.subj : j.clip).push_back(c);
      }
      j.fr = rng() % 2;
      j.preserve_collinear = rng() % 2;
      j.ct = 1 + rng() % 4;
      j.use_tree = (i % 4) != 3;
    }

    long leaked; int sig;
    int r = Check(j, leaked, sig);
    if (r == 0) continue;
    ++bad;
    if (shown++ < 8)
    {
      if (r == 1) printf("VIOLATION  job %zu: %ld heap block(s) still allocated after every object was destroyed (leak)\n", i, leaked);
      else if (r == 2) printf("VIOLATION  job %zu: killed by signal %d (invalid memory access)\n", i, sig);
      else printf("VIOLATION  job %zu: did not return within 20s\n", i);
      PrintJob(j);
    }
  }
  printf("%zu jobs (%zu hand-written, %zu generated): %d violated the property\n",
    hand_written + generated, hand_written, generated, bad);
  return bad ? 1 : 0;
}
