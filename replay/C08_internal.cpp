// LINK: engine rectclip
// native replay for C08_internal: winding-number oracle over RectClip results with vertices on the rectangle's sides (an earlier confirmed demonstration written from the property text alone)
// Seed C08 / 2 demo: RectClip must equal "intersection with the rectangle", path by path.
// Independent oracle: winding numbers of input and output are evaluated at sample points
// (cell mid-points of the arrangement of all vertex coordinates) that are farther than
// 2 units from the input path. Inside the rectangle they must agree (parity only for
// self-intersecting inputs); outside the rectangle the output must cover nothing.
// Also: output vertices lie in the rectangle (+-1), new vertices lie on its boundary (+-1),
// polygons wholly inside are returned unchanged.
// This demo concentrates on polygons whose vertices lie ON the rectangle sides / whose
// edges run along them ("also when they touch or run along the rectangle's sides").
// Exit code 0 = property held on everything tried, 1 = violation found.
#include "clipper2/clipper.h"
#include <cstdio>
#include <cmath>
#include <random>
#include <set>
#include <algorithm>
using namespace Clipper2Lib;

static int Wind(const Path64& p, double x, double y)
{
  int w = 0; size_t n = p.size();
  for (size_t i = 0; i < n; ++i)
  {
    double x1 = (double)p[i].x, y1 = (double)p[i].y;
    double x2 = (double)p[(i + 1) % n].x, y2 = (double)p[(i + 1) % n].y;
    if (y1 <= y) { if (y2 > y && (x2 - x1) * (y - y1) - (x - x1) * (y2 - y1) > 0) ++w; }
    else { if (y2 <= y && (x2 - x1) * (y - y1) - (x - x1) * (y2 - y1) < 0) --w; }
  }
  return w;
}
static double DistSeg(double px, double py, const Point64& a, const Point64& b)
{
  double ax = (double)a.x, ay = (double)a.y, bx = (double)b.x, by = (double)b.y;
  double dx = bx - ax, dy = by - ay, l2 = dx * dx + dy * dy;
  double t = l2 > 0 ? ((px - ax) * dx + (py - ay) * dy) / l2 : 0;
  t = std::max(0.0, std::min(1.0, t));
  double qx = ax + t * dx - px, qy = ay + t * dy - py;
  return std::sqrt(qx * qx + qy * qy);
}
static double DistPath(double px, double py, const Path64& p)
{
  double d = 1e300; size_t n = p.size();
  for (size_t i = 0; i < n; ++i) d = std::min(d, DistSeg(px, py, p[i], p[(i + 1) % n]));
  return d;
}

static const double kPi = 3.14159265358979323846;
static bool verbose = true;
// returns number of violations
static int Check(const Rect64& r, const Path64& in, bool simple, const char* tag)
{
  Paths64 out = RectClip(r, Paths64{ in });
  int bad = 0;
  auto fail = [&](const char* what, double x, double y, int a, int b) {
    ++bad;
    if (verbose && bad == 1)
    {
      printf("VIOLATION [%s] %s at (%.1f,%.1f) expected %d got %d\n rect L%lld T%lld R%lld B%lld\n in:", tag, what, x, y, a, b,
        (long long)r.left, (long long)r.top, (long long)r.right, (long long)r.bottom);
      for (auto& p : in) printf(" %lld,%lld", (long long)p.x, (long long)p.y);
      printf("\n out:");
      for (auto& q : out) { printf(" ["); for (auto& p : q) printf(" %lld,%lld", (long long)p.x, (long long)p.y); printf(" ]"); }
      printf("\n");
    }
  };
  Rect64 b = GetBounds(in);
  bool allInside = b.left >= r.left && b.right <= r.right && b.top >= r.top && b.bottom <= r.bottom;
  if (allInside)
  {
    if (out.size() != 1 || out[0] != in) fail("inside-unchanged", 0, 0, 1, (int)out.size());
    return bad;
  }
  for (auto& q : out) for (auto& p : q)
  {
    if (p.x < r.left - 1 || p.x > r.right + 1 || p.y < r.top - 1 || p.y > r.bottom + 1)
      fail("vertex outside rect", (double)p.x, (double)p.y, 0, 0);
    bool isInput = std::find(in.begin(), in.end(), p) != in.end();
    if (!isInput)
    {
      bool onB = (std::llabs(p.x - r.left) <= 1 || std::llabs(p.x - r.right) <= 1 ||
        std::llabs(p.y - r.top) <= 1 || std::llabs(p.y - r.bottom) <= 1);
      if (!onB) fail("new vertex not on boundary", (double)p.x, (double)p.y, 0, 0);
    }
  }
  std::set<int64_t> xs, ys;
  auto addp = [&](const Point64& p) { xs.insert(p.x); ys.insert(p.y); };
  for (auto& p : in) addp(p);
  for (auto& q : out) for (auto& p : q) addp(p);
  xs.insert(r.left); xs.insert(r.right); ys.insert(r.top); ys.insert(r.bottom);
  xs.insert(r.left - 8); xs.insert(r.right + 8); ys.insert(r.top - 8); ys.insert(r.bottom + 8);
  std::vector<double> sx, sy;
  auto mids = [](const std::set<int64_t>& s, std::vector<double>& v) {
    int64_t prev = 0; bool first = true;
    for (int64_t a : s) {
      if (!first) {
        if (a - prev >= 2) { v.push_back((double)prev + (double)(a - prev) / 2 + ((a - prev) % 2 ? 0.0 : 0.5)); }
        if (a - prev >= 8) { v.push_back((double)prev + 2.5); v.push_back((double)a - 2.5); }
      }
      prev = a; first = false;
    }
  };
  mids(xs, sx); mids(ys, sy);
  for (double x : sx) for (double y : sy)
  {
    if (DistPath(x, y, in) <= 2.0) continue;
    int wo = 0; for (auto& q : out) wo += Wind(q, x, y);
    bool inside = x > r.left && x < r.right && y > r.top && y < r.bottom;
    if (inside)
    {
      int wi = Wind(in, x, y);
      if (simple) { if (wi != wo) fail("winding", x, y, wi, wo); }
      else if (((wi - wo) & 1) != 0) fail("parity", x, y, wi, wo);
    }
    else
    {
      // outside: covers nothing (allow 1 unit slack)
      bool farOut = x < r.left - 1 || x > r.right + 1 || y < r.top - 1 || y > r.bottom + 1;
      if (farOut)
      {
        bool cov = false; for (auto& q : out) if (Wind(q, x, y) != 0) cov = true;
        if (cov) fail("covers outside", x, y, 0, wo);
      }
    }
  }
  return bad;
}

static std::mt19937_64 rng(12345);
static int64_t R(int64_t lo, int64_t hi) { return lo + (int64_t)(rng() % (uint64_t)(hi - lo + 1)); }

// star-shaped simple polygon about centre c, vertices snapped to grid g
static Path64 Star(Point64 c, int n, int64_t rad, int64_t g)
{
  struct V { double ang; Point64 p; };
  std::vector<V> v;
  for (int i = 0; i < n * 3 && (int)v.size() < n; ++i)
  {
    Point64 p(c.x + R(-rad, rad) / g * g, c.y + R(-rad, rad) / g * g);
    if (p == c) continue;
    double a = std::atan2((double)(p.y - c.y), (double)(p.x - c.x));
    bool dup = false;
    for (auto& q : v)
      if ((q.p.x - c.x) * (p.y - c.y) == (q.p.y - c.y) * (p.x - c.x) &&
        ((q.p.x - c.x) * (p.x - c.x) + (q.p.y - c.y) * (p.y - c.y)) > 0) dup = true;
    if (!dup) v.push_back({ a, p });
  }
  std::sort(v.begin(), v.end(), [](const V& a, const V& b) { return a.ang < b.ang; });
  Path64 res; for (auto& q : v) res.push_back(q.p);
  // star-shaped only if consecutive angular gaps < pi
  for (size_t i = 0; i < v.size(); ++i)
  {
    double d = v[(i + 1) % v.size()].ang - v[i].ang; if (d < 0) d += 2 * kPi;
    if (d >= kPi - 1e-9) return Path64();
  }
  return res;
}

int main()
{
  int total = 0, badcases = 0;
  {
    struct F { Rect64 r; Path64 p; bool simple; } fixed[] = {
      // box sharing part of the rect's left side, sticking out below
      { Rect64(10,-50,50,30), MakePath({ 10,50, 20,50, 20,-30, 10,-30 }), true },
      // same box, other rotations of the vertex list / other orientation
      { Rect64(10,-50,50,30), MakePath({ 20,50, 20,-30, 10,-30, 10,50 }), true },
      { Rect64(10,-50,50,30), MakePath({ 10,-30, 20,-30, 20,50, 10,50 }), true },
      // triangle with one vertex on the top side, apex inside
      { Rect64(0,0,100,100), MakePath({ 50,0, 80,50, 150,-50 }), true },
      { Rect64(0,0,100,100), MakePath({ 150,-50, 50,50, 30,0 }), true },
      // from the library's own tests
      { Rect64(100,100,700,500), MakePath({ 110,110, 700,100, 700,500, 100,500 }), true },
      { Rect64(100,100,700,500), MakePath({ 90,90, 700,100, 700,500, 100,500 }), true },
    };
    int k = 0;
    for (auto& f : fixed)
    {
      char tag[32]; snprintf(tag, sizeof tag, "fixed%d", k++);
      verbose = badcases < 5;
      int b = Check(f.r, f.p, f.simple, tag);
      ++total; if (b) ++badcases;
    }
  }
  for (int it = 0; it < 40000; ++it)
  {
    int64_t g = (it % 2 == 0) ? 10 : 5;
    int64_t w = R(2, 8) * 10, h = R(2, 8) * 10;
    int64_t l = R(-5, 5) * 10, t = R(-5, 5) * 10;
    Rect64 r(l, t, l + w, t + h);
    int gen = it % 3;
    Path64 p;
    if (gen == 0)
    {
      // star-shaped polygon on a coarse grid: many vertices fall on the rect's sides
      Point64 c(l + R(-4, (w / 10) + 4) * 10, t + R(-4, (h / 10) + 4) * 10);
      p = Star(c, (int)R(3, 10), R(3, 14) * 10, g);
    }
    else if (gen == 1)
    {
      // axis-aligned box on the same grid as the rect: sides run along rect sides
      int64_t x1 = l + R(-3, w / 10 + 3) * 10, x2 = l + R(-3, w / 10 + 3) * 10;
      int64_t y1 = t + R(-3, h / 10 + 3) * 10, y2 = t + R(-3, h / 10 + 3) * 10;
      if (x1 == x2 || y1 == y2) continue;
      if (x1 > x2) std::swap(x1, x2); if (y1 > y2) std::swap(y1, y2);
      p = Path64{ {x1,y1},{x2,y1},{x2,y2},{x1,y2} };
    }
    else
    {
      // triangle / quad with at least one vertex placed exactly on a rect side
      int n = (int)R(3, 4);
      Point64 c(l + w / 2 + R(-6, 6) * 10, t + h / 2 + R(-6, 6) * 10);
      p = Star(c, n, R(3, 10) * 10, 10);
    }
    if (p.size() < 3) continue;
    if (R(0, 1)) std::reverse(p.begin(), p.end());
    if (R(0, 1)) std::rotate(p.begin(), p.begin() + R(0, (int64_t)p.size() - 1), p.end());
    if (std::fabs(Area(p)) < 1) continue;
    char tag[32]; snprintf(tag, sizeof tag, "gen%d it%d", gen, it);
    verbose = badcases < 5;
    int b = Check(r, p, true, tag);
    ++total; if (b) ++badcases;
  }
  printf("cases %d, violating %d\n", total, badcases);
  printf(badcases ? "PROPERTY VIOLATED\n" : "property holds on all cases tried\n");
  return badcases ? 1 : 0;
}
