// LINK: engine offset rectclip
// Native replay for the C19 units: MinkowskiSum/Diff against the union of the parallelograms built directly from the
// property statement (exact point-in-quad tests on sample points away from quad edges; even-odd on the result).
#include "clipper2/clipper.h"
#include "vf_replay.h"
using namespace Clipper2Lib;
typedef __int128 i128;
static i128 cross(const Point64& a, const Point64& b, const Point64& c) { return (i128)(b.x - a.x) * (c.y - a.y) - (i128)(b.y - a.y) * (c.x - a.x); }
static int wind_quad(const Point64 q[4], const Point64& p, bool& near) {   // winding number of quad around p; near = p on an edge line segment neighbourhood
  int w = 0; for (int i = 0; i < 4; ++i) { const Point64 &a = q[i], &b = q[(i + 1) % 4]; i128 c = cross(a, b, p);
    if (c == 0 && std::min(a.x, b.x) <= p.x && p.x <= std::max(a.x, b.x) && std::min(a.y, b.y) <= p.y && p.y <= std::max(a.y, b.y)) near = true;
    if (a.y <= p.y) { if (b.y > p.y && c > 0) ++w; } else { if (b.y <= p.y && c < 0) --w; } } return w; }
int main(int argc, char** argv) {
  VfRng r(argc > 1 ? strtoull(argv[1], 0, 10) : 0);
  for (int it = 0; it < 300; ++it) {
    Path64 pat, path; size_t np = 2 + r.next() % 3, nq = 2 + r.next() % 4;
    for (size_t i = 0; i < np; ++i) pat.emplace_back((int64_t)(r.next() % 41) - 20, (int64_t)(r.next() % 41) - 20);
    for (size_t i = 0; i < nq; ++i) path.emplace_back((int64_t)(r.next() % 201) - 100, (int64_t)(r.next() % 201) - 100);
    for (int closed = 0; closed <= 1; ++closed) for (int sum = 0; sum <= 1; ++sum) {
      Paths64 res = sum ? MinkowskiSum(pat, path, closed) : MinkowskiDiff(pat, path, closed);
      std::vector<std::array<Point64, 4>> quads;
      for (size_t i = closed ? 0 : 1; i < nq; ++i) { size_t g = i == 0 ? nq - 1 : i - 1;
        for (size_t j = 0; j < np; ++j) { size_t h = j == 0 ? np - 1 : j - 1; auto f = [&](size_t a, size_t b) { return sum ? Point64(path[a].x + pat[b].x, path[a].y + pat[b].y) : Point64(path[a].x - pat[b].x, path[a].y - pat[b].y); };
          quads.push_back({ f(g, h), f(i, h), f(i, j), f(g, j) }); } }
      for (int s = 0; s < 60; ++s) { Point64 p((int64_t)(r.next() % 281) - 140, (int64_t)(r.next() % 281) - 140); bool near = false, in = false;
        for (auto& q : quads) { for (int e = 0; e < 4 && !near; ++e) { const Point64 &a = q[e], &b = q[(e + 1) % 4]; double vx = (double)(b.x - a.x), vy = (double)(b.y - a.y), wx = (double)(p.x - a.x), wy = (double)(p.y - a.y);
            double L = vx * vx + vy * vy, t = L > 0 ? (wx * vx + wy * vy) / L : 0; if (t < 0) t = 0; if (t > 1) t = 1; double ex = wx - t * vx, ey = wy - t * vy; if (ex * ex + ey * ey <= 9.0) near = true; }
          bool n2 = false; if (wind_quad(q.data(), p, n2) != 0) in = true; }
        if (near) continue;
        int cnt = 0; for (auto& rp : res) if (PointInPolygon(p, rp) == PointInPolygonResult::IsInside) ++cnt;
        if ((cnt & 1) != (in ? 1 : 0)) { VF_FAIL("Minkowski%s(closed=%d): point (%lld,%lld) inside parallelogram union = %d, inside result = %d (pattern %zu pts, path %zu pts, iteration %d)", sum ? "Sum" : "Diff", closed, (long long)p.x, (long long)p.y, (int)in, cnt & 1, np, nq, it); break; } }
      if ((pat.empty() || path.empty()) && !res.empty()) VF_FAIL("empty operand gives a non-empty result");
    }
  }
  if (!MinkowskiSum(Path64{}, Path64{ {0,0},{1,1} }, true).empty() || !MinkowskiSum(Path64{ {0,0},{1,1} }, Path64{}, true).empty()) VF_FAIL("empty pattern or path must give an empty result");
  printf("C19 replay: %d failing inputs\n", vf_fails);
  return vf_fails ? 1 : 0;
}
