// LINK: engine offset rectclip
// Native replay for unit C11_errors: precision / range / zero-scale errors are reported (exception build).
#include "clipper2/clipper.h"
#include "vf_replay.h"
using namespace Clipper2Lib;
template <typename F> static bool throws(F f) { try { f(); } catch (const Clipper2Exception&) { return true; } return false; }
int main(int, char**) {
  for (int p = -12; p <= 12; ++p) { int q = p, e = 0; bool t = throws([&] { CheckPrecisionRange(q, e); }); bool bad = p < -8 || p > 8;
    if (t != bad) VF_FAIL("CheckPrecisionRange(%d): exception %d", p, (int)t);
    if (!bad && (q != p || e != 0)) VF_FAIL("CheckPrecisionRange(%d) changed its arguments", p); }
  const double big[] = { 1e17, 3e16, 2.4e18 };
  for (double v : big) for (int axis = 0; axis < 4; ++axis) for (double scale : { 100.0, 128.0 }) {
    PathD q = MakePathD({0.0,0.0, 10.0,0.0, 10.0,10.0}); q[1].x = axis == 0 ? v : axis == 1 ? -v : q[1].x; q[1].y = axis == 2 ? v : axis == 3 ? -v : q[1].y;
    int e = 0; bool t = throws([&] { ScalePaths<int64_t, double>(PathsD{ q }, scale, e); });
    bool out = v * scale > (double)(INT64_MAX >> 2);
    if (t != out) VF_FAIL("ScalePaths(coordinate %g on axis %d, scale %g): reported %d, expected %d", v, axis, scale, (int)t, (int)out);
  }
  { int e = 0; if (!throws([&] { ScalePath<int64_t, double>(MakePathD({0.0,0.0, 1.0,1.0}), 0.0, 1.0, e); })) VF_FAIL("ScalePath with zero scale not reported"); }
  printf("C11_errors replay: %d failing inputs\n", vf_fails);
  return vf_fails ? 1 : 0;
}
