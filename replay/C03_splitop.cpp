// Native replay for unit C03_splitop: the independent oracle program written for seed C03-1 by a sub-agent that saw only the property text
// (exit 0: property held on everything tried; non-zero: a failing input is printed).  Runs the public API of the library built from /repo's working tree.
// LINK: engine offset rectclip
// DEFS: -DUSINGZ
// C03 seed 1 demo: structural well-formedness of closed solution paths.
//
// Clause checked (holds for ALL inputs, degenerate or not):
//   every closed solution path has >= 3 vertices, no two consecutive vertices
//   are equal (the last/first pair included), and every vertex lies inside the
//   bounding box of the inputs.
//
// The oracle is independent of the library: it only looks at the returned
// Paths64 and at the input coordinates.
#include "clipper2/clipper.h"
#include <cstdio>
#include <cstdint>

using namespace Clipper2Lib;

static uint64_t rng_state = 88172645463325252ULL;
static uint64_t rnd()
{
  rng_state ^= rng_state << 13; rng_state ^= rng_state >> 7; rng_state ^= rng_state << 17;
  return rng_state;
}

static const char* ct_name[] = { "NoClip", "Intersection", "Union", "Difference", "Xor" };
static const char* fr_name[] = { "EvenOdd", "NonZero", "Positive", "Negative" };

static void print_paths(const char* label, const Paths64& pp)
{
  printf("  %s:", label);
  for (const Path64& p : pp)
  {
    printf(" [");
    for (const Point64& q : p) printf(" %lld,%lld", (long long)q.x, (long long)q.y);
    printf(" ]");
  }
  printf("\n");
}

static long violations = 0, cases_run = 0, paths_seen = 0;

// returns number of violations found in this case
static int check_case(const Paths64& subj, const Paths64& clip,
  ClipType ct, FillRule fr, bool preserve, bool reverse, const char* origin)
{
  Clipper64 c;
  c.PreserveCollinear(preserve);
  c.ReverseSolution(reverse);
  c.AddSubject(subj);
  c.AddClip(clip);
  Paths64 sol;
  c.Execute(ct, fr, sol);
  ++cases_run;

  // bounding box of all inputs
  bool any = false;
  int64_t minx = 0, maxx = 0, miny = 0, maxy = 0;
  for (const Paths64* pp : { &subj, &clip })
    for (const Path64& p : *pp)
      for (const Point64& q : p)
      {
        if (!any) { minx = maxx = q.x; miny = maxy = q.y; any = true; }
        if (q.x < minx) minx = q.x; if (q.x > maxx) maxx = q.x;
        if (q.y < miny) miny = q.y; if (q.y > maxy) maxy = q.y;
      }

  int bad = 0;
  for (size_t k = 0; k < sol.size(); ++k)
  {
    const Path64& p = sol[k];
    const size_t n = p.size();
    ++paths_seen;
    const char* what = nullptr;
    size_t at = 0;
    if (n < 3) what = "fewer than three vertices";
    for (size_t i = 0; i < n && !what; ++i)
    {
      const Point64& a = p[i];
      const Point64& b = p[(i + 1) % n];
      if (a.x == b.x && a.y == b.y)
      {
        what = (i + 1 == n) ? "last vertex equals first vertex" : "two consecutive vertices are equal";
        at = i;
      }
      else if (a.x < minx || a.x > maxx || a.y < miny || a.y > maxy)
      {
        what = "vertex outside the bounding box of the inputs";
        at = i;
      }
    }
    if (what)
    {
      ++bad;
      if (violations + bad <= 5)
      {
        printf("VIOLATION (%s): %s (path %zu, vertex %zu)\n", origin, what, k, at);
        printf("  %s, %s, PreserveCollinear=%d, ReverseSolution=%d\n",
          ct_name[(int)ct], fr_name[(int)fr], (int)preserve, (int)reverse);
        print_paths("subject", subj);
        print_paths("clip", clip);
        print_paths("solution", sol);
      }
    }
  }
  violations += bad;
  return bad;
}

int main()
{
  // 1. one fixed input (tiny lattice, so that rounded intersection points
  //    often land on existing vertices)
  {
    Paths64 subj = { MakePath({ 2,2, 5,0, 4,1, 3,0 }), MakePath({ 5,3, 5,2, 4,0 }) };
    Paths64 clip = { MakePath({ 3,0, 0,5, 1,2, 2,1 }) };
    for (int ct = 1; ct <= 4; ++ct)
      for (int fr = 0; fr < 4; ++fr)
        for (int pr = 0; pr < 4; ++pr)
          check_case(subj, clip, (ClipType)ct, (FillRule)fr, pr & 1, pr & 2, "fixed");
  }

  // 2. deterministic pseudo-random sweep: arbitrary (self-intersecting,
  //    degenerate) polygons on small lattices, every clip type / fill rule /
  //    PreserveCollinear / ReverseSolution combination.
  const int lattice[] = { 6, 10, 16, 30, 100 };
  for (int R : lattice)
  {
    for (int it = 0; it < 60000; ++it)
    {
      Paths64 subj, clip;
      int ns = 1 + (int)(rnd() % 2), nc = 1 + (int)(rnd() % 2);
      for (int side = 0; side < 2; ++side)
      {
        Paths64& dst = side ? clip : subj;
        int cnt = side ? nc : ns;
        for (int i = 0; i < cnt; ++i)
        {
          Path64 p;
          int k = 3 + (int)(rnd() % 4);
          for (int j = 0; j < k; ++j)
          {
            int64_t x = (int64_t)(rnd() % R), y = (int64_t)(rnd() % R);
            p.push_back(Point64(x, y));
          }
          dst.push_back(p);
        }
      }
      ClipType ct = (ClipType)(1 + rnd() % 4);
      FillRule fr = (FillRule)(rnd() % 4);
      bool preserve = rnd() & 1, reverse = rnd() & 1;
      char origin[64];
      snprintf(origin, sizeof origin, "random lattice=%d iteration=%d", R, it);
      check_case(subj, clip, ct, fr, preserve, reverse, origin);
    }
  }

  printf("%ld cases, %ld closed solution paths inspected, %ld structural violations\n",
    cases_run, paths_seen, violations);
  if (violations)
  {
    printf("FAIL: closed solution paths are not well formed\n");
    return 1;
  }
  printf("OK: every closed solution path is well formed\n");
  return 0;
}
