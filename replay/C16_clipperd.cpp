// LINK: engine offset rectclip
// Native replay for units C16_wrappers / C16_clipperd: every PathsD operation against the integer operation on
// round(input * scale) / scale (scale = 10^precision; ClipperD: smallest power of two above 10^precision).
#include "clipper2/clipper.h"
#include "vf_replay.h"
#include <cmath>
using namespace Clipper2Lib;
static Paths64 up(const PathsD& p, double s) { Paths64 r; for (auto& q : p) { Path64 t; for (auto& v : q) t.emplace_back((int64_t)std::round(v.x * s), (int64_t)std::round(v.y * s)); r.push_back(t); } return r; }
static PathsD down(const Paths64& p, double s) { PathsD r; for (auto& q : p) { PathD t; for (auto& v : q) t.emplace_back(v.x * s, v.y * s); r.push_back(t); } return r; }
static bool same(const PathsD& a, const PathsD& b) { if (a.size() != b.size()) return false; for (size_t i = 0; i < a.size(); ++i) { if (a[i].size() != b[i].size()) return false; for (size_t k = 0; k < a[i].size(); ++k) if (a[i][k].x != b[i][k].x || a[i][k].y != b[i][k].y) return false; } return true; }
int main(int, char**) {
  PathsD subj = { MakePathD({0.0,0.0, 50.25,0.0, 100.5,0.0, 100.5,100.0, 0.0,100.0}) }, clip = { MakePathD({50.125,50.0, 150.0,50.5, 150.0,150.0, 50.0,150.0}) };
  PathsD lines = { MakePathD({-20.5,30.0, 200.0,70.25}) };
  for (int prec = -2; prec <= 8; ++prec) {
    double s10 = std::pow(10, prec), s2 = std::pow(2.0, std::ilogb(s10) + 1);
    for (int ct = 1; ct <= 4; ++ct) for (int fr = 0; fr <= 3; ++fr) {
      Clipper64 c; c.AddSubject(up(subj, s2)); c.AddClip(up(clip, s2)); Paths64 w; c.Execute((ClipType)ct, (FillRule)fr, w);
      if (!same(BooleanOp((ClipType)ct, (FillRule)fr, subj, clip, prec), down(w, 1 / s2))) VF_FAIL("BooleanOp(PathsD, ct %d, fr %d, precision %d) != integer op on scaled input", ct, fr, prec);
    }
    for (int jt = 0; jt <= 3; ++jt) for (int et : { 0, 1, 4 }) for (double at : { 0.0, 0.25 }) for (double delta : { 4.0, -3.0 }) {
      PathsD got = InflatePaths(subj, delta, (JoinType)jt, (EndType)et, 2.0, prec, at);
      ClipperOffset off(2.0, at * s10); off.AddPaths(up(subj, s10), (JoinType)jt, (EndType)et); Paths64 w; off.Execute(delta * s10, w);
      if (!same(got, down(w, 1 / s10))) VF_FAIL("InflatePaths(PathsD, delta %g, jt %d, et %d, precision %d, arc_tolerance %g) != integer offset on scaled input", delta, jt, et, prec, at);
    }
    RectD rd(10.5, 10.0, 90.0, 60.25); Rect64 r64 = ScaleRect<int64_t, double>(rd, s10);
    if (!same(RectClip(rd, subj, prec), down(RectClip(r64, up(subj, s10)), 1 / s10))) VF_FAIL("RectClip(RectD, precision %d) != integer RectClip on scaled input", prec);
    if (!same(RectClipLines(rd, lines, prec), down(RectClipLines(r64, up(lines, s10)), 1 / s10))) VF_FAIL("RectClipLines(RectD, precision %d) != integer op on scaled input", prec);
  }
  printf("C16 replay: %d failing inputs\n", vf_fails);
  return vf_fails ? 1 : 0;
}
