// Native replay for unit C15_intersect: the independent oracle program written for seed C15-1 by a sub-agent that saw only the property text
// (exit 0: property held on everything tried; non-zero: a failing input is printed).  Runs the public API of the library built from /repo's working tree.
// LINK: engine offset rectclip
// DEFS: -DUSINGZ
// C15 demo 1: Z accounting in boolean clipping (needs -DUSINGZ).
//
// Every vertex of a boolean solution must either
//   (a) have been handed to the user's Z callback (and still carry the value
//       that the callback wrote for a point at that x,y), or
//   (b) coincide with an input vertex and carry one of the Z labels that were
//       supplied at that location.
// Without a callback, every vertex that is not an input vertex must carry the
// default Z (0).
//
// The oracle is independent of the library: it only uses the input paths, the
// log written by the callback, and the returned solution.

#include "clipper2/clipper.h"
#include <cstdio>
#include <cstdint>
#include <map>
#include <set>
#include <utility>
#include <vector>

#ifndef USINGZ
#error "this demo must be built with -DUSINGZ"
#endif

using namespace Clipper2Lib;

typedef std::pair<int64_t, int64_t> XY;

static uint64_t rng_state = 0x9E3779B97F4A7C15ull;
static uint32_t rnd()
{
  rng_state = rng_state * 6364136223846793005ull + 1442695040888963407ull;
  return (uint32_t)(rng_state >> 33);
}
static int64_t coord_range = 1000000;
static int64_t rnd_coord() { return (int64_t)(rnd() % (2 * coord_range + 1)) - coord_range; }

static int64_t next_label = 1000;

// random polygon in general position (huge coordinate range, so coincident
// vertices, horizontals and collinear triples are practically impossible)
static Path64 RandomPoly(int n)
{
  Path64 p;
  for (int i = 0; i < n; ++i)
    p.push_back(Point64(rnd_coord(), rnd_coord(), next_label++));
  return p;
}

struct Logger
{
  int64_t counter = 5000000;
  std::map<XY, std::set<int64_t>> assigned;
  void operator()(const Point64&, const Point64&, const Point64&, const Point64&, Point64& ip)
  {
    ip.z = ++counter;
    assigned[XY(ip.x, ip.y)].insert(ip.z);
  }
};

static const char* ct_name[] = { "NoClip", "Intersection", "Union", "Difference", "Xor" };
static const char* fr_name[] = { "EvenOdd", "NonZero", "Positive", "Negative" };

static long violations = 0, checked = 0;

static const Paths64* cur_subj = nullptr;
static const Paths64* cur_clip = nullptr;

static void PrintPaths(const char* name, const Paths64& pp)
{
  for (const Path64& p : pp)
  {
    std::printf("    %s:", name);
    for (const Point64& v : p)
      std::printf(" (%lld,%lld,z=%lld)", (long long)v.x, (long long)v.y, (long long)v.z);
    std::printf("\n");
  }
}

static void Report(const char* what, int trial, ClipType ct, FillRule fr, const Point64& v)
{
  ++violations;
  if (violations == 1)
  {
    std::printf("first failing input (trial %d):\n", trial);
    PrintPaths("subject", *cur_subj);
    PrintPaths("clip", *cur_clip);
  }
  if (violations <= 10)
    std::printf("VIOLATION (%s) trial %d %s/%s: solution vertex (%lld,%lld) z=%lld\n",
      what, trial, ct_name[(int)ct], fr_name[(int)fr],
      (long long)v.x, (long long)v.y, (long long)v.z);
}

static void RunOne(int trial, const Paths64& subj, const Paths64& clip, ClipType ct, FillRule fr)
{
  cur_subj = &subj; cur_clip = &clip;
  std::map<XY, std::set<int64_t>> input_z;
  for (const Path64& p : subj) for (const Point64& v : p) input_z[XY(v.x, v.y)].insert(v.z);
  for (const Path64& p : clip) for (const Point64& v : p) input_z[XY(v.x, v.y)].insert(v.z);

  // --- with a callback -----------------------------------------------------
  {
    Logger log;
    Clipper64 c;
    c.SetZCallback([&log](const Point64& a, const Point64& b, const Point64& c2,
      const Point64& d, Point64& ip) { log(a, b, c2, d, ip); });
    c.AddSubject(subj);
    c.AddClip(clip);
    Paths64 sol;
    c.Execute(ct, fr, sol);
    for (const Path64& p : sol)
      for (const Point64& v : p)
      {
        ++checked;
        XY key(v.x, v.y);
        auto a = log.assigned.find(key);
        if (a != log.assigned.end() && a->second.count(v.z)) continue; // (a)
        auto i = input_z.find(key);
        if (i != input_z.end() && i->second.count(v.z)) continue;      // (b)
        Report("callback installed", trial, ct, fr, v);
      }
  }
  // --- without a callback --------------------------------------------------
  {
    Clipper64 c;
    c.AddSubject(subj);
    c.AddClip(clip);
    Paths64 sol;
    c.Execute(ct, fr, sol);
    for (const Path64& p : sol)
      for (const Point64& v : p)
      {
        ++checked;
        auto i = input_z.find(XY(v.x, v.y));
        if (i != input_z.end()) { if (i->second.count(v.z)) continue; }
        else if (v.z == 0) continue;
        Report("no callback", trial, ct, fr, v);
      }
  }
}

int main()
{
  const ClipType cts[] = { ClipType::Intersection, ClipType::Union, ClipType::Difference, ClipType::Xor };
  const FillRule frs[] = { FillRule::EvenOdd, FillRule::NonZero };

  // a hand-made case first: two overlapping quadrilaterals, no horizontals
  {
    Paths64 subj, clip;
    subj.push_back(MakePathZ({ 0,0,11,  100,7,12,  93,110,13,  -6,95,14 }));
    clip.push_back(MakePathZ({ 50,53,21,  150,61,22,  141,160,23,  44,149,24 }));
    for (ClipType ct : cts) for (FillRule fr : frs) RunOne(0, subj, clip, ct, fr);
    // the same two quadrilaterals, both as subjects (trial -1)
    subj.push_back(clip[0]);
    clip.clear();
    for (ClipType ct : cts) for (FillRule fr : frs) RunOne(-1, subj, clip, ct, fr);
  }

  for (int trial = 1; trial <= 300; ++trial)
  {
    Paths64 subj, clip;
    if (trial <= 100)
    {
      // small cases: one or two subject triangles and a clip triangle
      coord_range = 1000;
      subj.push_back(RandomPoly(3));
      if (trial % 2) subj.push_back(RandomPoly(3));
      clip.push_back(RandomPoly(3));
    }
    else
    {
      coord_range = 1000000;
      int ns = 1 + rnd() % 2, nc = 1 + rnd() % 2;
      for (int i = 0; i < ns; ++i) subj.push_back(RandomPoly(3 + rnd() % 4));
      for (int i = 0; i < nc; ++i) clip.push_back(RandomPoly(3 + rnd() % 4));
    }
    for (ClipType ct : cts) for (FillRule fr : frs) RunOne(trial, subj, clip, ct, fr);
  }

  std::printf("checked %ld solution vertices, %ld violations\n", checked, violations);
  if (violations) { std::printf("FAIL: Z accounting property violated\n"); return 1; }
  std::printf("OK: every solution vertex is accounted for\n");
  return 0;
}
