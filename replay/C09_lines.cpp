// Native replay for unit C09_lines: the independent oracle program written for seed C09-1 by a sub-agent that saw only the property text
// (exit 0: property held on everything tried; non-zero: a failing input is printed).  Runs the public API of the library built from /repo's working tree.
// LINK: engine offset rectclip
// DEFS: -DUSINGZ
// Independent oracle for the RectClipLines property (shared text, pasted into each demo).
#include "clipper2/clipper.h"
#include <cstdio>
#include <cmath>
#include <vector>
#include <string>
#include <algorithm>
#include <cstdint>
#include <initializer_list>

using namespace Clipper2Lib;
typedef long double LD;

struct P { LD x, y; };
static inline P toP(const Point64& p) { return P{ (LD)p.x, (LD)p.y }; }
static inline LD dist(P a, P b) { return std::sqrt((a.x-b.x)*(a.x-b.x) + (a.y-b.y)*(a.y-b.y)); }

// closest parameter (clamped to [tmin,1]) of q on segment a->b, and the distance there
static LD segDist(P a, P b, P q, LD tmin, LD& tOut)
{
  LD dx = b.x - a.x, dy = b.y - a.y;
  LD l2 = dx*dx + dy*dy;
  LD t = (l2 == 0) ? 0 : ((q.x-a.x)*dx + (q.y-a.y)*dy) / l2;
  if (t < tmin) t = tmin;
  if (t > 1) t = 1;
  tOut = t;
  P c{ a.x + t*dx, a.y + t*dy };
  return dist(c, q);
}

static LD distToPolyline(const Path64& line, P q)
{
  LD best = 1e300L, t;
  if (line.size() == 1) return dist(toP(line[0]), q);
  for (size_t i = 0; i + 1 < line.size(); ++i)
    best = std::min(best, segDist(toP(line[i]), toP(line[i+1]), q, 0, t));
  return best;
}

// Liang-Barsky: length of the part of a->b inside the closed rectangle, and the number
// of places where the segment is cut by the boundary
static LD insideLen(const Rect64& r, Point64 a64, Point64 b64, int& cuts, bool& alongEdge)
{
  P a = toP(a64), b = toP(b64);
  alongEdge = false; cuts = 0;
  LD t0 = 0, t1 = 1;
  LD dx = b.x - a.x, dy = b.y - a.y;
  LD p[4] = { -dx, dx, -dy, dy };
  LD q[4] = { a.x - (LD)r.left, (LD)r.right - a.x, a.y - (LD)r.top, (LD)r.bottom - a.y };
  for (int k = 0; k < 4; ++k)
  {
    if (p[k] == 0) { if (q[k] < 0) return 0; }
    else
    {
      LD t = q[k] / p[k];
      if (p[k] < 0) { if (t > t0) t0 = t; }
      else          { if (t < t1) t1 = t; }
    }
  }
  if (t1 <= t0) return 0;
  if (t0 > 0) ++cuts;
  if (t1 < 1) ++cuts;
  if ((a64.x == b64.x && (a64.x == r.left || a64.x == r.right)) ||
      (a64.y == b64.y && (a64.y == r.top || a64.y == r.bottom))) alongEdge = true;
  return (t1 - t0) * dist(a, b);
}

struct Verdict { bool ok; std::string why; };

// checks every clause of the property for ONE input polyline
static Verdict CheckOne(const Rect64& rect, const Path64& line)
{
  char buf[512];
  Paths64 out = RectClipLines(rect, line);

  // expected inside length (segments lying exactly along an edge are optional)
  LD lo = 0, hi = 0; int crossings = 0;
  for (size_t i = 0; i + 1 < line.size(); ++i)
  {
    int cuts; bool along;
    LD l = insideLen(rect, line[i], line[i+1], cuts, along);
    hi += l; if (!along) lo += l;
    crossings += cuts;
  }

  LD total = 0;
  size_t segIdx = 0; LD segT = 0;            // monotone cursor along the input polyline
  for (size_t k = 0; k < out.size(); ++k)
  {
    const Path64& piece = out[k];
    if (piece.empty()) continue;
    for (size_t j = 0; j < piece.size(); ++j)
    {
      // clause: inside the rectangle within one unit
      const Point64& v = piece[j];
      if (v.x < rect.left - 1 || v.x > rect.right + 1 || v.y < rect.top - 1 || v.y > rect.bottom + 1)
      {
        snprintf(buf, sizeof buf, "piece %zu vertex %zu (%lld,%lld) is outside the rectangle",
          k, j, (long long)v.x, (long long)v.y);
        return { false, buf };
      }
      // clause: in input order and direction (greedy monotone matching along the input)
      bool matched = false;
      for (size_t s = segIdx; s + 1 < line.size(); ++s)
      {
        LD t, d = segDist(toP(line[s]), toP(line[s+1]), toP(v), (s == segIdx) ? segT : 0, t);
        if (d <= 1.5L) { segIdx = s; segT = t; matched = true; break; }
      }
      if (!matched)
      {
        snprintf(buf, sizeof buf, "piece %zu vertex %zu (%lld,%lld) is not on the input at or after the previous output vertex (order/direction)",
          k, j, (long long)v.x, (long long)v.y);
        return { false, buf };
      }
      if (j == 0) continue;
      // clause: pieces lie on the input polyline within 1.5 units
      P a = toP(piece[j-1]), b = toP(v);
      total += dist(a, b);
      const int N = 32;
      for (int n = 0; n <= N; ++n)
      {
        P m{ a.x + (b.x - a.x) * n / N, a.y + (b.y - a.y) * n / N };
        LD d = distToPolyline(line, m);
        if (d > 1.5L)
        {
          snprintf(buf, sizeof buf, "piece %zu segment %zu: point (%.1Lf,%.1Lf) is %.2Lf units away from the input polyline",
            k, j - 1, m.x, m.y, d);
          return { false, buf };
        }
      }
    }
  }
  // clause: total length equals exact inside length within 2 units per crossing
  LD tol = 2.0L * crossings + 1e-15L * (hi + 1) + 0.001L;
  if (total < lo - tol || total > hi + tol)
  {
    snprintf(buf, sizeof buf, "total output length %.3Lf but exact inside length is in [%.3Lf, %.3Lf] (%d crossings, tolerance %.3Lf); %zu pieces returned",
      total, lo, hi, crossings, tol, out.size());
    return { false, buf };
  }
  return { true, "" };
}

static void PrintCase(const Rect64& r, const Path64& line)
{
  printf("  rect (%lld,%lld)-(%lld,%lld)  line:", (long long)r.left, (long long)r.top, (long long)r.right, (long long)r.bottom);
  for (auto& p : line) printf(" (%lld,%lld)", (long long)p.x, (long long)p.y);
  printf("\n");
}

static int failures = 0, tried = 0;
static void Try(const Rect64& r, const Path64& line, const char* label)
{
  ++tried;
  Verdict v = CheckOne(r, line);
  if (!v.ok)
  {
    if (failures < 10)
    {
      printf("VIOLATION [%s]: %s\n", label, v.why.c_str());
      PrintCase(r, line);
    }
    ++failures;
  }
}

// tiny deterministic generator
static uint64_t rng_state = 0x9E3779B97F4A7C15ULL;
static uint32_t Rnd(uint32_t n)
{
  rng_state = rng_state * 6364136223846793005ULL + 1442695040888963407ULL;
  return (uint32_t)((rng_state >> 33) % n);
}

static Point64 PT(int64_t x, int64_t y) { return Point64(x, y); }
// polyline from a flat list x0,y0,x1,y1,...
static Path64 L(std::initializer_list<int64_t> xy)
{
  Path64 p;
  for (auto it = xy.begin(); it != xy.end(); it += 2) p.push_back(PT(*it, *(it + 1)));
  return p;
}

// ---------------------------------------------------------------------------
// demo 1: polylines whose first vertices lie ON the rectangle boundary
// ---------------------------------------------------------------------------
int main()
{
  const Rect64 r(0, 0, 1000, 1000);

  // hand written: start on an edge, touch another edge, then go inside / outside
  Try(r, L({ 0,500,  500,0,  500,500 }), "edge,edge,inside");
  Try(r, L({ 0,500,  500,0,  1000,400,  600,600,  1500,600 }), "edge,edge,edge,inside,outside");
  Try(r, L({ 0,500,  500,0,  500,-500 }), "edge,edge,outside");
  Try(r, L({ 1000,1000,  0,0,  300,700,  300,2000 }), "corner,corner,inside,outside");
  Try(r, L({ 500,1000,  1000,500,  500,0,  0,500,  500,500 }), "diamond on the 4 edges, then centre");
  Try(r, L({ 0,500,  500,500,  1500,500 }), "edge,inside,outside");
  Try(r, L({ 0,500,  -500,500,  500,200 }), "edge,outside,inside");

  // same shapes at 2^40 scale
  {
    const int64_t M = (int64_t)1 << 40, H = M / 2;
    const Rect64 big(-M, -M, M, M);
    Try(big, L({ -M,0,  0,-M,  H,H }), "2^40: edge,edge,inside");
    Try(big, L({ -M,0,  0,-M,  M,H,  0,0 }), "2^40: edge,edge,edge,inside");
  }

  // systematic: every polyline of 3..5 vertices on a coarse lattice that starts on the boundary
  const int64_t g[5] = { -400, 0, 500, 1000, 1400 };
  for (int n = 3; n <= 5; ++n)
    for (int it = 0; it < 20000; ++it)
    {
      Path64 line;
      // first vertex on the boundary
      switch (Rnd(4))
      {
      case 0: line.push_back(PT(0, g[1 + Rnd(3)])); break;
      case 1: line.push_back(PT(1000, g[1 + Rnd(3)])); break;
      case 2: line.push_back(PT(g[1 + Rnd(3)], 0)); break;
      default: line.push_back(PT(g[1 + Rnd(3)], 1000)); break;
      }
      for (int k = 1; k < n; ++k)
      {
        Point64 p = PT(g[Rnd(5)], g[Rnd(5)]);
        if (p == line.back()) p.x += 100;
        line.push_back(p);
      }
      Try(r, line, "lattice, start on boundary");
    }

  printf("%d polylines tried, %d violate the property\n", tried, failures);
  return failures ? 1 : 0;
}
