// LINK: engine offset rectclip
// Native replay for units C12_cleanup / C08_execute / C07_groupoffset / C06_*: a reused object against a fresh one.
#include "clipper2/clipper.h"
#include "vf_replay.h"
using namespace Clipper2Lib;
int main(int, char**) {
  Paths64 A = { { {0,0},{100,0},{100,100},{0,100} } }, B = { { {50,150},{150,150},{150,50},{50,50} } }, L = { { {-20,30},{200,70} }, { {50,-20},{60,220} } };
  for (int ct = 1; ct <= 4; ++ct) for (int fr = 0; fr <= 3; ++fr) {
    Clipper64 fresh; fresh.AddSubject(A); fresh.AddOpenSubject(L); fresh.AddClip(B); Paths64 w, wo; fresh.Execute((ClipType)ct, (FillRule)fr, w, wo);
    Clipper64 used; used.AddSubject(A); used.AddOpenSubject(L); Paths64 t1, t2; used.Execute(ClipType::Union, FillRule::NonZero, t1, t2); used.AddClip(B);
    Paths64 g, go; used.Execute((ClipType)ct, (FillRule)fr, g, go); if (g != w || go != wo) VF_FAIL("Clipper64 reused (Execute, then AddClip, then Execute ct %d fr %d) differs from a fresh object", ct, fr);
    Paths64 g2, go2; used.Execute((ClipType)ct, (FillRule)fr, g2, go2); if (g2 != w || go2 != wo) VF_FAIL("second Execute(ct %d, fr %d) on the same object differs", ct, fr);
    used.Clear(); used.AddSubject(A); used.AddOpenSubject(L); used.AddClip(B); Paths64 g3, go3; used.Execute((ClipType)ct, (FillRule)fr, g3, go3); if (g3 != w || go3 != wo) VF_FAIL("Clear + re-add + Execute(ct %d, fr %d) differs", ct, fr);
  }
  // rectangle clipping: several paths in one call / reused object vs one path per fresh object
  Rect64 rect(0, 0, 1000, 800);
  Paths64 ps = { { {-100,-100},{300,-100},{300,-50},{-50,-50},{-50,300},{-100,300} }, { {414,900},{500,500},{585,900} }, { {900,100},{1100,100},{1100,300},{900,300},{900,250},{1050,250},{1050,150},{900,150} }, { {900,500},{1100,500},{1100,700},{900,700},{900,650},{1050,650},{1050,550},{900,550} } };
  Paths64 want; for (auto& p : ps) { RectClip64 rc(rect); Paths64 r = rc.Execute(Paths64{ p }); want.insert(want.end(), r.begin(), r.end()); }
  { RectClip64 rc(rect); if (rc.Execute(ps) != want) VF_FAIL("RectClip64::Execute of several paths differs from one fresh object per path"); if (rc.Execute(ps) != want) VF_FAIL("RectClip64 reused differs"); }
  // offsetting: groups/paths together vs separately
  Path64 a = { {0,0},{100,0} }, b = { {100000,0},{100100,0},{100100,100} }, sq = { {200000,0},{200100,0},{200100,100},{200000,100} };
  for (int jt = 0; jt <= 3; ++jt) for (int et = 1; et <= 4; ++et) for (double d : { 10.0, -10.0 }) {
    double sep = Area(InflatePaths(Paths64{ a }, d, (JoinType)jt, (EndType)et)) + Area(InflatePaths(Paths64{ b }, d, (JoinType)jt, (EndType)et));
    double tog = Area(InflatePaths(Paths64{ a, b }, d, (JoinType)jt, (EndType)et)), tog2 = Area(InflatePaths(Paths64{ b, a }, d, (JoinType)jt, (EndType)et));
    if (tog != sep || tog2 != sep) VF_FAIL("InflatePaths of two distant paths (jt %d, et %d, delta %g): together %g / %g, separately %g", jt, et, d, tog, tog2, sep);
  }
  for (double d : { 10.0, -10.0 }) { ClipperOffset co; co.AddPath(Path64{}, JoinType::Miter, EndType::Polygon); co.AddPath(sq, JoinType::Miter, EndType::Polygon); Paths64 o; co.Execute(d, o);
    ClipperOffset c2; c2.AddPath(sq, JoinType::Miter, EndType::Polygon); Paths64 o2; c2.Execute(d, o2); if (Area(o) != Area(o2)) VF_FAIL("offset after an empty group (delta %g): area %g vs %g alone", d, Area(o), Area(o2)); }
  for (int et = 0; et <= 4; ++et) { Paths64 in = { { {0,0},{100,0},{100,100},{0,100} } }; Paths64 o = InflatePaths(in, 0.25, JoinType::Round, (EndType)et); if (et == 0 && Area(o) != Area(in)) VF_FAIL("|delta| < 0.5 changed the region"); }
  { ClipperOffset co; co.AddPath(sq, JoinType::Miter, EndType::Polygon); PolyTree64 t; co.Execute(0.25, t); if (t.Count() != 1) VF_FAIL("|delta| < 0.5 into a PolyTree64: %zu polygons instead of 1", t.Count());
    ClipperOffset c2; c2.ReverseSolution(true); c2.AddPath(sq, JoinType::Miter, EndType::Polygon); Paths64 o; c2.Execute(0.25, o); if (o.empty() || Area(o) >= 0) VF_FAIL("|delta| < 0.5 with ReverseSolution: orientation not reversed"); }
  printf("C12 replay: %d failing inputs\n", vf_fails);
  return vf_fails ? 1 : 0;
}
