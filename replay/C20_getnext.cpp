// Native replay for the C20 units: the real path utilities against their contracts on random small paths
// (coordinates in a small range so that squared distances are exact in double).
#include "clipper2/clipper.h"
#include "vf_replay.h"
#include <cmath>
using namespace Clipper2Lib;
static bool subseq(const Path64& r, const Path64& p, std::vector<size_t>& idx) { size_t j = 0; idx.clear(); for (auto& q : r) { while (j < p.size() && !(p[j] == q)) ++j; if (j == p.size()) return false; idx.push_back(j++); } return true; }
static double d2(const Point64& pt, const Point64& a, const Point64& b) { return PerpendicDistFromLineSqrd(pt, a, b); }
int main(int argc, char** argv) {
  VfRng r(argc > 1 ? strtoull(argv[1], 0, 10) : 0);
  for (int it = 0; it < 60000; ++it) {
    size_t n = 1 + r.next() % 9; int range = (it & 1) ? 4 : 40; Path64 p;
    for (size_t i = 0; i < n; ++i) p.emplace_back((int64_t)(r.next() % (2 * range + 1)) - range, (int64_t)(r.next() % (2 * range + 1)) - range);
    if ((r.next() & 7) == 0 && n > 1) p.back() = p.front();
    if ((r.next() & 3) == 0 && n > 2) p[n / 2] = p[n / 2 - 1];           // repeated point
    double eps = (double)(r.next() % 12); std::vector<size_t> idx;
    // RamerDouglasPeucker
    { Path64 q = RamerDouglasPeucker(p, eps);
      if (!subseq(q, p, idx)) VF_FAIL("RamerDouglasPeucker: result is not an in-order subsequence (n=%zu, eps=%g)", n, eps);
      else if (n >= 2 && (q.empty() || !(q.front() == p.front()) || !(q.back() == p.back()))) VF_FAIL("RamerDouglasPeucker: end points not kept (n=%zu, eps=%g)", n, eps);
      else if (n >= 5) { bool distinct = true; for (size_t i = 1; i < n; ++i) if (p[i] == p[i - 1] || p[i] == p[0]) distinct = false;
        if (distinct) for (size_t k = 0; k + 1 < idx.size(); ++k) for (size_t i = idx[k] + 1; i < idx[k + 1]; ++i)
          if (d2(p[i], p[idx[k]], p[idx[k + 1]]) > eps * eps) { VF_FAIL("RamerDouglasPeucker(n=%zu, eps=%g): removed vertex %zu is %g^2 from the line through its surviving neighbours", n, eps, i, std::sqrt(d2(p[i], p[idx[k]], p[idx[k + 1]]))); goto done_rdp; } }
      done_rdp:; }
    // SimplifyPath (open and closed)
    for (int closed = 0; closed <= 1; ++closed) { Path64 q = SimplifyPath(p, eps, closed);
      if (!subseq(q, p, idx)) VF_FAIL("SimplifyPath: result is not an in-order subsequence");
      else if (!closed && n >= 2 && (q.size() < 2 || idx.front() != 0 || idx.back() != n - 1) ) { if (!(q.front() == p.front() && q.back() == p.back())) VF_FAIL("SimplifyPath(open, n=%zu, eps=%g): end points not kept", n, eps); }
      else if (n >= 4 && q.size() > 2) { bool distinct = true; for (size_t i = 1; i < n; ++i) for (size_t j = 0; j < i; ++j) if (p[i] == p[j]) distinct = false;
        if (distinct) for (size_t k = 0; k < q.size(); ++k) { if (!closed && (k == 0 || k + 1 == q.size())) continue; const Point64& a = q[k == 0 ? q.size() - 1 : k - 1], &b = q[k + 1 == q.size() ? 0 : k + 1];
          if (!(d2(q[k], a, b) > eps * eps)) { VF_FAIL("SimplifyPath(n=%zu, eps=%g, closed=%d): surviving vertex %zu is within epsilon of the line through its neighbours", n, eps, closed, k); break; } } } }
    // TrimCollinear
    for (int open = 0; open <= 1; ++open) { Path64 q = TrimCollinear(p, open);
      if (!subseq(q, p, idx)) VF_FAIL("TrimCollinear: result is not an in-order subsequence");
      else if (open && n >= 3 && (q.size() < 2 || !(q.front() == p.front()) || !(q.back() == p.back()))) VF_FAIL("TrimCollinear(open, n=%zu): end points not kept", n);
      else if (!open && n >= 3 && Area(q) != Area(p)) VF_FAIL("TrimCollinear(closed, n=%zu): signed area %g became %g", n, Area(p), Area(q)); }
  }
  printf("C20 replay: %d failing inputs\n", vf_fails);
  return vf_fails ? 1 : 0;
}
