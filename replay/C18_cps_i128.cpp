// Native replay for unit C18_cps_i128: the real CrossProductSign / IsCollinear / ProductsAreEqual / TriSign
// (as compiled on this platform) against exact __int128 arithmetic, on boundary and random inputs.
#include "clipper2/clipper.core.h"
#include "vf_replay.h"
using namespace Clipper2Lib;
typedef __int128 i128;
static bool diff_ok(int64_t p, int64_t q) { i128 d = (i128)p - (i128)q; return d >= INT64_MIN && d <= INT64_MAX; }
int main(int argc, char** argv) {
  VfRng r(argc > 1 ? strtoull(argv[1], 0, 10) : 0);
  const int64_t LIM = INT64_MAX;
  for (int it = 0; it < 400000; ++it) {
    int64_t a = vf_pick(r, LIM), b = vf_pick(r, LIM), c = vf_pick(r, LIM), d = vf_pick(r, LIM);
    bool want = (i128)a * b == (i128)c * d;
    if (ProductsAreEqual(a, b, c, d) != want) VF_FAIL("ProductsAreEqual(%lld,%lld,%lld,%lld) != %d", (long long)a, (long long)b, (long long)c, (long long)d, (int)want);
    if (TriSign(a) != (a > 0) - (a < 0)) VF_FAIL("TriSign(%lld)", (long long)a);
    Point64 p1(vf_pick(r, LIM), vf_pick(r, LIM)), p2(vf_pick(r, LIM), vf_pick(r, LIM)), p3(vf_pick(r, LIM), vf_pick(r, LIM));
    if (it & 1) { p2 = Point64(p1.x + (a % 1000), p1.y + (b % 1000)); p3 = Point64(p2.x + (a % 1000) * (c % 7), p2.y + (b % 1000) * (c % 7)); }  // near-collinear
    if (!diff_ok(p2.x, p1.x) || !diff_ok(p3.y, p2.y) || !diff_ok(p2.y, p1.y) || !diff_ok(p3.x, p2.x)) continue;
    i128 ab = (i128)(p2.x - p1.x) * (p3.y - p2.y), cd = (i128)(p2.y - p1.y) * (p3.x - p2.x);
    int ws = ab > cd ? 1 : ab < cd ? -1 : 0;
    if (CrossProductSign(p1, p2, p3) != ws) VF_FAIL("CrossProductSign((%lld,%lld),(%lld,%lld),(%lld,%lld)) != %d", (long long)p1.x, (long long)p1.y, (long long)p2.x, (long long)p2.y, (long long)p3.x, (long long)p3.y, ws);
    if (IsCollinear(p1, p2, p3) != (ab == cd)) VF_FAIL("IsCollinear((%lld,%lld),(%lld,%lld),(%lld,%lld)) != %d", (long long)p1.x, (long long)p1.y, (long long)p2.x, (long long)p2.y, (long long)p3.x, (long long)p3.y, (int)(ab == cd));
  }
  printf("C18_cps_i128 replay: %d failing inputs\n", vf_fails);
  return vf_fails ? 1 : 0;
}
