// Native replay for unit C15_zequiv: the independent oracle program written for seed C15-2 by a sub-agent that saw only the property text
// (exit 0: property held on everything tried; non-zero: a failing input is printed).  Runs the public API of the library built from /repo's working tree.
// LINK: engine offset rectclip
// DEFS: -DUSINGZ
// C15 demo 2: the USINGZ build must compute the same x,y geometry as the plain
// build when offsetting (build with -DUSINGZ; it also builds and passes without).
//
// A convex polygon (in either orientation) inflated by d has a solution that
// can be written down directly, so the oracle below does not need a second
// build of the library:
//   * JoinType::Bevel : every input vertex P with adjacent edge normals n0,n1
//                       yields exactly the two vertices P+d*n0 and P+d*n1
//   * JoinType::Miter : every input vertex yields P + d*(n0+n1)/(1+n0.n1)
// (n0,n1 = outward unit normals; all joins are well inside the miter limit and
// well away from the "almost straight" shortcut.)
// Each solution vertex must lie within 1 unit (integer rounding) of an expected
// vertex, each expected vertex must be hit, and the counts must agree.
// The Z labels on the input and the Z callback are arbitrary: the x,y result
// may not depend on them.

#include "clipper2/clipper.h"
#include <cmath>
#include <cstdio>
#include <cstdint>
#include <vector>

using namespace Clipper2Lib;

static uint64_t rng_state = 0x1234567887654321ull;
static uint32_t rnd()
{
  rng_state = rng_state * 6364136223846793005ull + 1442695040888963407ull;
  return (uint32_t)(rng_state >> 33);
}
static double urnd() { return (rnd() % 1000001) / 1000000.0; }

static const double kPi = 3.14159265358979323846;

struct V2 { double x, y; };

// convex polygon: points on a circle in angular order (counter-clockwise)
static Path64 ConvexPoly(int n, double cx, double cy, double radius)
{
  Path64 p;
  for (int i = 0; i < n; ++i)
  {
    double a = 2 * kPi * (i + 0.4 * urnd()) / n;
    p.push_back(Point64(cx + radius * std::cos(a), cy + radius * std::sin(a)));
  }
  return p;
}

// independent computation of the expected offset vertices
static std::vector<V2> Expected(Path64 poly, double d, JoinType jt)
{
  // work on a counter-clockwise copy so that (dy,-dx) is the outward normal
  double a2 = 0;
  size_t n = poly.size();
  for (size_t i = 0; i < n; ++i)
  {
    const Point64& p = poly[i]; const Point64& q = poly[(i + 1) % n];
    a2 += (double)p.x * (double)q.y - (double)q.x * (double)p.y;
  }
  if (a2 < 0) { Path64 r(poly.rbegin(), poly.rend()); poly = r; }

  std::vector<V2> nrm(n); // nrm[i] = outward unit normal of edge i -> i+1
  for (size_t i = 0; i < n; ++i)
  {
    double dx = (double)(poly[(i + 1) % n].x - poly[i].x);
    double dy = (double)(poly[(i + 1) % n].y - poly[i].y);
    double len = std::sqrt(dx * dx + dy * dy);
    nrm[i].x = dy / len; nrm[i].y = -dx / len;
  }
  std::vector<V2> res;
  for (size_t j = 0; j < n; ++j)
  {
    size_t k = (j + n - 1) % n;
    double px = (double)poly[j].x, py = (double)poly[j].y;
    if (jt == JoinType::Bevel)
    {
      res.push_back(V2{ px + d * nrm[k].x, py + d * nrm[k].y });
      res.push_back(V2{ px + d * nrm[j].x, py + d * nrm[j].y });
    }
    else
    {
      double c = nrm[k].x * nrm[j].x + nrm[k].y * nrm[j].y;
      double q = d / (1 + c);
      res.push_back(V2{ px + (nrm[k].x + nrm[j].x) * q, py + (nrm[k].y + nrm[j].y) * q });
    }
  }
  return res;
}

static long failures = 0, cases = 0;

static void Check(int trial, const Path64& poly, double d, JoinType jt)
{
  ++cases;
  ClipperOffset co;
#ifdef USINGZ
  int64_t counter = 777000;
  co.SetZCallback([&counter](const Point64&, const Point64&, const Point64&,
    const Point64&, Point64& ip) { ip.z = ++counter; });
#endif
  co.AddPath(poly, jt, EndType::Polygon);
  Paths64 sol;
  co.Execute(d, sol);

  std::vector<V2> exp = Expected(poly, d, jt);
  const char* jn = (jt == JoinType::Bevel) ? "Bevel" : "Miter";
  bool ok = (sol.size() == 1) && (sol[0].size() == exp.size());
  double worst = 0;
  if (sol.size() == 1)
  {
    std::vector<bool> hit(exp.size(), false);
    for (const Point64& v : sol[0])
    {
      double best = 1e300; size_t bi = 0;
      for (size_t i = 0; i < exp.size(); ++i)
      {
        double e = std::max(std::fabs(v.x - exp[i].x), std::fabs(v.y - exp[i].y));
        if (e < best) { best = e; bi = i; }
      }
      if (best > worst) worst = best;
      if (best <= 1.0) hit[bi] = true; else ok = false;
    }
    for (bool h : hit) if (!h) ok = false;
  }
  if (ok) return;

  ++failures;
  if (failures > 3) return;
  std::printf("VIOLATION trial %d: %s join, delta %.1f, %d paths, worst vertex deviation %.1f units\n",
    trial, jn, d, (int)sol.size(), worst);
  std::printf("  input   :");
  for (const Point64& v : poly) std::printf(" (%lld,%lld)", (long long)v.x, (long long)v.y);
  std::printf("\n  expected:");
  for (const V2& v : exp) std::printf(" (%.1f,%.1f)", v.x, v.y);
  std::printf("\n  solution:");
  for (const Path64& p : sol) { for (const Point64& v : p) std::printf(" (%lld,%lld)", (long long)v.x, (long long)v.y); std::printf(" |"); }
  std::printf("\n");
}

int main()
{
  for (int trial = 1; trial <= 400; ++trial)
  {
    int n = 5 + rnd() % 5;
    double radius = 20000 + 80000 * urnd();
    Path64 poly = ConvexPoly(n, 1000000 * (urnd() - 0.5), 1000000 * (urnd() - 0.5), radius);
    if (rnd() & 1) { Path64 r(poly.rbegin(), poly.rend()); poly = r; }
#ifdef USINGZ
    for (Point64& v : poly) v.z = (int64_t)(rnd() % 100000) + 1; // arbitrary labels
#endif
    double d = 100 + 4900 * urnd();
    Check(trial, poly, d, JoinType::Bevel);
    Check(trial, poly, d, JoinType::Miter);
  }
  std::printf("%ld offset cases checked, %ld differ from the expected geometry\n", cases, failures);
  if (failures) { std::printf("FAIL: offset geometry is wrong in this build\n"); return 1; }
  std::printf("OK: offset geometry as expected\n");
  return 0;
}
