// Native replay for unit C18_pip: the real PointInPolygon against the exact even-odd / on-boundary definition,
// exhaustively for triangles and quadrilaterals on a small grid (every start vertex and orientation included).
#include "clipper2/clipper.core.h"
#include "vf_replay.h"
using namespace Clipper2Lib;
static long long cr(const Point64& a, const Point64& b, const Point64& c) { return (b.x - a.x) * (c.y - b.y) - (b.y - a.y) * (c.x - b.x); }
static PointInPolygonResult oracle(const Point64& pt, const Path64& v) { size_t n = v.size(); bool on = false; int x = 0;
  for (size_t i = 0; i < n; ++i) { const Point64 &a = v[i], &b = v[(i + 1) % n];
    if (cr(a, b, pt) == 0 && std::min(a.x, b.x) <= pt.x && pt.x <= std::max(a.x, b.x) && std::min(a.y, b.y) <= pt.y && pt.y <= std::max(a.y, b.y)) on = true;
    if ((a.y > pt.y) != (b.y > pt.y)) { long long lhs = (pt.x - a.x) * (b.y - a.y), rhs = (pt.y - a.y) * (b.x - a.x); if ((b.y > a.y) ? (rhs < lhs) : (rhs > lhs)) ++x; } }
  return on ? PointInPolygonResult::IsOn : (x & 1) ? PointInPolygonResult::IsInside : PointInPolygonResult::IsOutside; }
int main(int, char**) {
  const int G = 3; Point64 pt(0, 0); long long cases = 0;
  for (int n = 3; n <= 4; ++n) { int vals = 2 * G + 1; long long total = 1; for (int i = 0; i < 2 * n; ++i) total *= vals;
    for (long long code = 0; code < total; code += (n == 4 ? 7 : 1)) { long long c = code; Path64 v; for (int i = 0; i < n; ++i) { int x = (int)(c % vals) - G; c /= vals; int y = (int)(c % vals) - G; c /= vals; v.emplace_back(x, y); }
      bool flat = true; for (int i = 1; i < n; ++i) if (v[i].y != v[0].y) flat = false; if (flat) continue; ++cases;
      PointInPolygonResult w = oracle(pt, v), g = PointInPolygon(pt, v);
      if (g != w) VF_FAIL("PointInPolygon((0,0), %d-gon code %lld) = %d, exact answer %d", n, code, (int)g, (int)w); } }
  printf("C18_pip replay: %lld polygons, %d failing inputs\n", cases, vf_fails);
  return vf_fails ? 1 : 0;
}
