// Native replay for unit C03_cleancollinear: the independent oracle program written for seed C03-2 by a sub-agent that saw only the property text
// (exit 0: property held on everything tried; non-zero: a failing input is printed).  Runs the public API of the library built from /repo's working tree.
// LINK: engine offset rectclip
// DEFS: -DUSINGZ
// C03 seed 2 demo: geometric well-formedness of closed solution paths for
// axis-parallel (rectilinear) inputs on an integer lattice.
//
// Clauses checked (all exact on rectilinear input - no rounding is involved):
//   * no path has a 180-degree spike (a vertex whose two neighbours lie on the
//     same side of it on one line), whatever the PreserveCollinear setting;
//   * with PreserveCollinear off, no three consecutive vertices (cyclically)
//     are collinear;
//   * no path has zero area, has fewer than 3 vertices or repeats a vertex
//     consecutively.
//
// The oracle is independent of the library: exact integer cross / dot products
// on the returned Paths64.
#include "clipper2/clipper.h"
#include <cstdio>
#include <cstdint>

using namespace Clipper2Lib;

static uint64_t rng_state = 0x9E3779B97F4A7C15ULL;
static uint64_t rnd()
{
  rng_state ^= rng_state << 13; rng_state ^= rng_state >> 7; rng_state ^= rng_state << 17;
  return rng_state;
}

static const char* ct_name[] = { "NoClip", "Intersection", "Union", "Difference", "Xor" };
static const char* fr_name[] = { "EvenOdd", "NonZero", "Positive", "Negative" };

typedef __int128 wide;
static wide cross(const Point64& a, const Point64& b, const Point64& c)
{
  return (wide)(b.x - a.x) * (c.y - b.y) - (wide)(b.y - a.y) * (c.x - b.x);
}
static wide dot(const Point64& a, const Point64& b, const Point64& c)
{
  return (wide)(b.x - a.x) * (c.x - b.x) + (wide)(b.y - a.y) * (c.y - b.y);
}
static wide twice_area(const Path64& p)
{
  wide a = 0;
  for (size_t i = 0, n = p.size(); i < n; ++i)
  {
    const Point64& u = p[i]; const Point64& v = p[(i + 1) % n];
    a += (wide)u.x * v.y - (wide)v.x * u.y;
  }
  return a;
}

static void print_paths(const char* label, const Paths64& pp)
{
  printf("  %s:", label);
  for (const Path64& p : pp)
  {
    printf(" [");
    for (const Point64& q : p) printf(" %lld,%lld", (long long)q.x, (long long)q.y);
    printf(" ]");
  }
  printf("\n");
}

static long violations = 0, cases_run = 0, paths_seen = 0;

static Path64 Box(int64_t l, int64_t b, int64_t r, int64_t t, bool cw = false)
{
  Path64 p = { Point64(l, b), Point64(r, b), Point64(r, t), Point64(l, t) };
  if (cw) { Path64 q(p.rbegin(), p.rend()); return q; }
  return p;
}

static void check_case(const Paths64& subj, const Paths64& clip,
  ClipType ct, FillRule fr, bool preserve, bool reverse, const char* origin)
{
  Clipper64 c;
  c.PreserveCollinear(preserve);
  c.ReverseSolution(reverse);
  c.AddSubject(subj);
  c.AddClip(clip);
  Paths64 sol;
  c.Execute(ct, fr, sol);
  ++cases_run;

  int bad = 0;
  for (size_t k = 0; k < sol.size(); ++k)
  {
    const Path64& p = sol[k];
    const size_t n = p.size();
    ++paths_seen;
    const char* what = nullptr;
    size_t at = 0;
    if (n < 3) what = "fewer than three vertices";
    else if (twice_area(p) == 0) what = "zero area";
    for (size_t i = 0; i < n && !what; ++i)
    {
      const Point64& a = p[i];
      const Point64& b = p[(i + 1) % n];
      const Point64& d = p[(i + 2) % n];
      at = (i + 1) % n;
      if (a == b) what = "two consecutive vertices are equal";
      else if (cross(a, b, d) == 0)
      {
        if (dot(a, b, d) < 0) what = "180-degree spike";
        else if (!preserve) what = "three consecutive collinear vertices although PreserveCollinear is off";
      }
    }
    if (what)
    {
      ++bad;
      if (violations + bad <= 5)
      {
        printf("VIOLATION (%s): %s (path %zu, at vertex %zu = %lld,%lld)\n", origin, what, k, at,
          (long long)p[at].x, (long long)p[at].y);
        printf("  %s, %s, PreserveCollinear=%d, ReverseSolution=%d\n",
          ct_name[(int)ct], fr_name[(int)fr], (int)preserve, (int)reverse);
        print_paths("subject", subj);
        print_paths("clip", clip);
        print_paths("solution", sol);
      }
    }
  }
  violations += bad;
}

static void all_settings(const Paths64& subj, const Paths64& clip, const char* origin)
{
  for (int ct = 1; ct <= 4; ++ct)
    for (int fr = 0; fr < 4; ++fr)
      for (int pr = 0; pr < 4; ++pr)
        check_case(subj, clip, (ClipType)ct, (FillRule)fr, pr & 1, pr & 2, origin);
}

int main()
{
  // 1. hand-written rectilinear cases: rectangles that share (parts of) edges,
  //    so the raw sweep output contains collinear runs and spikes that the
  //    final clean-up pass has to remove.
  {
    // two stacked rectangles plus one inside the upper one
    Paths64 subj = { MakePath({ 5,6, 2,6, 2,5, 5,5 }), MakePath({ 6,6, 1,6, 1,4, 6,4 }) };
    Paths64 clip = { MakePath({ 6,0, 0,0, 0,4, 6,4 }) };
    all_settings(subj, clip, "fixed A");
  }
  {
    Paths64 subj = { MakePath({ 7,0, 2,0, 2,3, 7,3 }), MakePath({ 6,6, 2,6, 2,3, 6,3 }) };
    Paths64 clip = { MakePath({ 3,1, 6,1, 6,5, 3,5 }) };
    all_settings(subj, clip, "fixed B");
  }
  {
    // a 3 x 3 checker-board of unit squares split between subject and clip
    Paths64 subj, clip;
    for (int x = 0; x < 3; ++x)
      for (int y = 0; y < 3; ++y)
        (((x + y) & 1) ? clip : subj).push_back(Box(10 * x, 10 * y, 10 * x + 10, 10 * y + 10));
    all_settings(subj, clip, "fixed C");
  }

  // 2. deterministic pseudo-random sweep over rectangles on small lattices
  const int lattice[] = { 6, 8, 12, 20 };
  for (int R : lattice)
  {
    for (int it = 0; it < 60000; ++it)
    {
      Paths64 subj, clip;
      int ns = 1 + (int)(rnd() % 3), nc = 1 + (int)(rnd() % 3);
      for (int side = 0; side < 2; ++side)
      {
        Paths64& dst = side ? clip : subj;
        int cnt = side ? nc : ns;
        for (int i = 0; i < cnt; ++i)
        {
          int64_t x0 = (int64_t)(rnd() % R), y0 = (int64_t)(rnd() % R);
          int64_t x1 = (int64_t)(rnd() % R), y1 = (int64_t)(rnd() % R);
          if (x0 == x1 || y0 == y1) continue;
          // either orientation, arbitrary start corner
          Path64 p = { Point64(x0, y0), Point64(x1, y0), Point64(x1, y1), Point64(x0, y1) };
          dst.push_back(p);
        }
      }
      ClipType ct = (ClipType)(1 + rnd() % 4);
      FillRule fr = (FillRule)(rnd() % 4);
      bool preserve = rnd() & 1, reverse = rnd() & 1;
      char origin[64];
      snprintf(origin, sizeof origin, "random lattice=%d iteration=%d", R, it);
      check_case(subj, clip, ct, fr, preserve, reverse, origin);
    }
  }

  printf("%ld cases, %ld closed solution paths inspected, %ld violations\n",
    cases_run, paths_seen, violations);
  if (violations)
  {
    printf("FAIL: solution paths of rectilinear input contain spikes / collinear runs\n");
    return 1;
  }
  printf("OK: no spikes, no collinear triples (PreserveCollinear off), no degenerate paths\n");
  return 0;
}
