// LINK: engine
// native replay for C02_dohorizontal: open-path oracle (pieces inside/outside the clip region, lengths) from an earlier confirmed demonstration written from the property text alone
// C05 demo: open subject paths are cut exactly at the clip region boundary.
//
// Independent oracle: every open subject segment is split at its crossings
// with all closed edges (computed here in floating point), each piece is
// classified by the winding numbers (computed here) of its mid point with
// respect to the clip paths and the closed subject paths, and the kept pieces
// are compared with the open solution returned by Clipper64::Execute
//   (1) every solution vertex / segment lies within 1.5 of an open subject segment,
//   (2) every kept piece is covered by the solution, every dropped piece is not,
//   (3) total length agrees within 3 units per cut,
//   (4) the closed solution does not change when the open subjects are added,
// for Paths64 and for PolyTree64 execution, all clip types and fill rules.
//
// Inputs that are not in general position are skipped (see general_position()
// and Expect::too_close): open vertices within 2.5 of a closed edge and vice
// versa, crossings shallower than about 23 degrees, open paths passing within
// 2.5 of a crossing of two closed edges or cutting a sliver less than 3 units
// wide, and open paths that fold back onto themselves (180 degree spikes).
// The unchanged library is known to misbehave on some of those (see notes.md).
//
// exit 0: property held on everything tried; exit 1: violation (input printed).
// Optional argument "random": skip the fixed cases and run only the sweep.

#include <cstdio>
#include <cstdlib>
#include <cmath>
#include <cstdint>
#include <vector>
#include <string>
#include <algorithm>
#include "clipper2/clipper.h"

using namespace Clipper2Lib;

// ---------------------------------------------------------------- rng
static uint64_t rng_state = 0x9E3779B97F4A7C15ULL;
static uint32_t rnd()
{
  rng_state ^= rng_state << 13; rng_state ^= rng_state >> 7; rng_state ^= rng_state << 17;
  return (uint32_t)(rng_state >> 32);
}
static int rnd_int(int lo, int hi) { return lo + (int)(rnd() % (uint32_t)(hi - lo + 1)); }

// ---------------------------------------------------------------- geometry (oracle side)
struct P { double x, y; };
struct S { P a, b; };

static double dist_pt_seg(const P& p, const S& s)
{
  double dx = s.b.x - s.a.x, dy = s.b.y - s.a.y;
  double l2 = dx * dx + dy * dy;
  double t = 0;
  if (l2 > 0) t = ((p.x - s.a.x) * dx + (p.y - s.a.y) * dy) / l2;
  if (t < 0) t = 0; else if (t > 1) t = 1;
  double qx = s.a.x + t * dx - p.x, qy = s.a.y + t * dy - p.y;
  return std::sqrt(qx * qx + qy * qy);
}

static double dist_pt_segs(const P& p, const std::vector<S>& v)
{
  double d = 1e300;
  for (const S& s : v) d = std::min(d, dist_pt_seg(p, s));
  return d;
}

static std::vector<S> closed_edges(const Paths64& pp)
{
  std::vector<S> r;
  for (const Path64& p : pp)
  {
    size_t n = p.size();
    if (n < 3) continue;
    for (size_t i = 0; i < n; ++i)
    {
      const Point64& a = p[i], & b = p[(i + 1) % n];
      if (a == b) continue;
      r.push_back(S{ P{(double)a.x,(double)a.y}, P{(double)b.x,(double)b.y} });
    }
  }
  return r;
}

static std::vector<S> open_edges(const Paths64& pp)
{
  std::vector<S> r;
  for (const Path64& p : pp)
    for (size_t i = 0; i + 1 < p.size(); ++i)
    {
      if (p[i] == p[i + 1]) continue;
      r.push_back(S{ P{(double)p[i].x,(double)p[i].y}, P{(double)p[i + 1].x,(double)p[i + 1].y} });
    }
  return r;
}

// winding number of point p with respect to a set of closed edges
// (+1 for a counter-clockwise loop in a y-up frame == positive shoelace area)
static int winding(const std::vector<S>& edges, const P& p)
{
  int wn = 0;
  for (const S& e : edges)
  {
    double isleft = (e.b.x - e.a.x) * (p.y - e.a.y) - (p.x - e.a.x) * (e.b.y - e.a.y);
    if (e.a.y <= p.y) { if (e.b.y > p.y && isleft > 0) ++wn; }
    else { if (e.b.y <= p.y && isleft < 0) --wn; }
  }
  return wn;
}

static bool filled(FillRule fr, int wn)
{
  switch (fr)
  {
  case FillRule::EvenOdd: return (wn & 1) != 0;
  case FillRule::NonZero: return wn != 0;
  case FillRule::Positive: return wn > 0;
  default: return wn < 0;
  }
}

static bool keep_rule(ClipType ct, bool in_subj, bool in_clip)
{
  switch (ct)
  {
  case ClipType::Intersection: return in_clip;
  case ClipType::Union: return !in_subj && !in_clip;
  default: return !in_clip; // Difference, Xor
  }
}

struct Piece { S s; bool keep; };

struct Expect
{
  std::vector<Piece> pieces;
  std::vector<S> kept;
  double length = 0;
  int cuts = 0;
  bool too_close = false;
};

static Expect oracle(const Paths64& subj, const Paths64& open, const Paths64& clip,
  ClipType ct, FillRule fr)
{
  Expect ex;
  std::vector<S> ce = closed_edges(clip), se = closed_edges(subj);
  std::vector<S> all = ce; all.insert(all.end(), se.begin(), se.end());
  for (const Path64& path : open)
  {
    int prev_keep = -1;
    for (size_t i = 0; i + 1 < path.size(); ++i)
    {
      if (path[i] == path[i + 1]) continue;
      P a{ (double)path[i].x,(double)path[i].y }, b{ (double)path[i + 1].x,(double)path[i + 1].y };
      double dx = b.x - a.x, dy = b.y - a.y;
      std::vector<double> ts; ts.push_back(0); ts.push_back(1);
      for (const S& e : all)
      {
        double ex_ = e.b.x - e.a.x, ey_ = e.b.y - e.a.y;
        double d = dx * ey_ - dy * ex_;
        if (d == 0) continue;
        double t = ((e.a.x - a.x) * ey_ - (e.a.y - a.y) * ex_) / d;
        double u = ((e.a.x - a.x) * dy - (e.a.y - a.y) * dx) / d;
        if (u < 0 || u > 1 || t <= 0 || t >= 1) continue;
        ts.push_back(t);
      }
      std::sort(ts.begin(), ts.end());
      double len = std::sqrt(dx * dx + dy * dy);
      for (size_t k = 0; k + 1 < ts.size(); ++k)
      {
        double t0 = ts[k], t1 = ts[k + 1];
        if ((t1 - t0) * len < 1e-9) continue;
        // two crossings (or a crossing and a vertex) closer than 3 units: the open path
        // cuts through a sliver or passes a crossing of closed edges - not general position
        if ((t1 - t0) * len < 3.0 && ts.size() > 2) ex.too_close = true;
        double tm = 0.5 * (t0 + t1);
        P m{ a.x + tm * dx, a.y + tm * dy };
        bool in_clip = filled(fr, winding(ce, m));
        bool in_subj = filled(fr, winding(se, m));
        bool kp = keep_rule(ct, in_subj, in_clip);
        Piece pc; pc.s = S{ P{a.x + t0 * dx, a.y + t0 * dy}, P{a.x + t1 * dx, a.y + t1 * dy} }; pc.keep = kp;
        ex.pieces.push_back(pc);
        if (kp) { ex.kept.push_back(pc.s); ex.length += (t1 - t0) * len; }
        if (prev_keep >= 0 && prev_keep != (int)kp) ex.cuts++;
        prev_keep = kp;
      }
    }
  }
  return ex;
}

// ---------------------------------------------------------------- general position filter
static bool general_position(const Paths64& subj, const Paths64& open, const Paths64& clip)
{
  std::vector<S> cl = closed_edges(clip), se = closed_edges(subj);
  cl.insert(cl.end(), se.begin(), se.end());
  std::vector<S> op = open_edges(open);
  const double MARGIN = 2.5;
  // open vertices away from closed edges, closed vertices away from open edges
  for (const S& o : op)
    for (const S& c : cl)
    {
      if (dist_pt_seg(o.a, c) < MARGIN || dist_pt_seg(o.b, c) < MARGIN) return false;
      if (dist_pt_seg(c.a, o) < MARGIN || dist_pt_seg(c.b, o) < MARGIN) return false;
      // crossing angle not too shallow: the engine snaps a crossing to the
      // scanline grid, so a cut can slide about 1/sin(angle) along the line
      double ox = o.b.x - o.a.x, oy = o.b.y - o.a.y, cx = c.b.x - c.a.x, cy = c.b.y - c.a.y;
      double cr = std::fabs(ox * cy - oy * cx);
      double nn = std::sqrt((ox * ox + oy * oy) * (cx * cx + cy * cy));
      if (cr < 0.4 * nn)
      {
        // shallow: only acceptable when the two segments stay well apart
        if (dist_pt_seg(o.a, c) < 6 || dist_pt_seg(o.b, c) < 6 ||
          dist_pt_seg(c.a, o) < 6 || dist_pt_seg(c.b, o) < 6) return false;
        double d = ox * cy - oy * cx;
        if (d != 0)
        {
          double t = ((c.a.x - o.a.x) * cy - (c.a.y - o.a.y) * cx) / d;
          double u = ((c.a.x - o.a.x) * oy - (c.a.y - o.a.y) * ox) / d;
          if (t >= 0 && t <= 1 && u >= 0 && u <= 1) return false;
        }
      }
    }
  // open paths stay away from the points where two closed edges cross
  for (size_t i = 0; i < cl.size(); ++i)
    for (size_t j = i + 1; j < cl.size(); ++j)
    {
      const S& a = cl[i]; const S& b = cl[j];
      double ax = a.b.x - a.a.x, ay = a.b.y - a.a.y, bx = b.b.x - b.a.x, by = b.b.y - b.a.y;
      double d = ax * by - ay * bx;
      if (d == 0) continue;
      double t = ((b.a.x - a.a.x) * by - (b.a.y - a.a.y) * bx) / d;
      double u = ((b.a.x - a.a.x) * ay - (b.a.y - a.a.y) * ax) / d;
      if (t < 0 || t > 1 || u < 0 || u > 1) continue;
      P x{ a.a.x + t * ax, a.a.y + t * ay };
      for (const S& o : op) if (dist_pt_seg(x, o) < MARGIN) return false;
    }
  // closed vertices away from other closed edges (other than the incident ones)
  for (size_t i = 0; i < cl.size(); ++i)
    for (size_t j = 0; j < cl.size(); ++j)
    {
      if (i == j) continue;
      const S& a = cl[i]; const S& b = cl[j];
      bool share_a = (a.a.x == b.a.x && a.a.y == b.a.y) || (a.a.x == b.b.x && a.a.y == b.b.y);
      if (!share_a && dist_pt_seg(a.a, b) < 1.5) return false;
    }
  // open paths: consecutive vertices distinct, no zero-length
  for (const Path64& p : open)
  {
    if (p.size() < 2) return false;
    for (size_t i = 0; i + 1 < p.size(); ++i) if (p[i] == p[i + 1]) return false;
    // no 180 degree spikes (an open path folding back onto itself): see notes.md
    for (size_t i = 0; i + 2 < p.size(); ++i)
    {
      double ux = (double)(p[i + 1].x - p[i].x), uy = (double)(p[i + 1].y - p[i].y);
      double vx = (double)(p[i + 2].x - p[i + 1].x), vy = (double)(p[i + 2].y - p[i + 1].y);
      if (ux * vy - uy * vx == 0 && ux * vx + uy * vy < 0) return false;
    }
  }
  return true;
}

// ---------------------------------------------------------------- reporting
static const char* ct_name(ClipType ct)
{
  switch (ct) {
  case ClipType::Intersection: return "Intersection"; case ClipType::Union: return "Union";
  case ClipType::Difference: return "Difference"; case ClipType::Xor: return "Xor"; default: return "NoClip";
  }
}
static const char* fr_name(FillRule fr)
{
  switch (fr) {
  case FillRule::EvenOdd: return "EvenOdd"; case FillRule::NonZero: return "NonZero";
  case FillRule::Positive: return "Positive"; default: return "Negative";
  }
}
static void print_paths(const char* name, const Paths64& pp)
{
  printf("  %s = {", name);
  for (size_t i = 0; i < pp.size(); ++i)
  {
    printf("%s{", i ? ", " : "");
    for (size_t j = 0; j < pp[i].size(); ++j)
      printf("%s(%lld,%lld)", j ? "," : "", (long long)pp[i][j].x, (long long)pp[i][j].y);
    printf("}");
  }
  printf("}\n");
}

static double paths_length(const Paths64& pp)
{
  double l = 0;
  for (const Path64& p : pp)
    for (size_t i = 0; i + 1 < p.size(); ++i)
      l += std::sqrt((double)(p[i + 1].x - p[i].x) * (double)(p[i + 1].x - p[i].x) +
        (double)(p[i + 1].y - p[i].y) * (double)(p[i + 1].y - p[i].y));
  return l;
}

// checks the open solution against the oracle; returns empty string when fine
static std::string check_open(const Expect& ex, const Paths64& open_subj, const Paths64& sol)
{
  char buf[512];
  std::vector<S> subj_segs = open_edges(open_subj);
  std::vector<S> sol_segs = open_edges(sol);
  // (1) solution consists of pieces of the open subjects
  for (const Path64& p : sol)
  {
    if (p.size() < 2) return "open solution path with fewer than 2 vertices";
    for (size_t i = 0; i < p.size(); ++i)
    {
      P v{ (double)p[i].x,(double)p[i].y };
      double d = dist_pt_segs(v, subj_segs);
      if (d > 1.5)
      {
        snprintf(buf, sizeof buf, "solution vertex (%lld,%lld) is %.2f away from every open subject segment",
          (long long)p[i].x, (long long)p[i].y, d);
        return buf;
      }
      if (i + 1 < p.size())
      {
        P w{ (double)p[i + 1].x,(double)p[i + 1].y };
        // the whole segment must hug a single subject segment
        bool ok = false;
        for (const S& s : subj_segs)
        {
          P m{ 0.5 * (v.x + w.x), 0.5 * (v.y + w.y) };
          if (dist_pt_seg(v, s) <= 1.5 && dist_pt_seg(w, s) <= 1.5 && dist_pt_seg(m, s) <= 1.5) { ok = true; break; }
        }
        if (!ok)
        {
          snprintf(buf, sizeof buf, "solution segment (%lld,%lld)-(%lld,%lld) does not lie along an open subject segment",
            (long long)p[i].x, (long long)p[i].y, (long long)p[i + 1].x, (long long)p[i + 1].y);
          return buf;
        }
      }
    }
  }
  // (2) coverage of kept pieces / absence of dropped pieces
  for (const Piece& pc : ex.pieces)
  {
    double dx = pc.s.b.x - pc.s.a.x, dy = pc.s.b.y - pc.s.a.y;
    double len = std::sqrt(dx * dx + dy * dy);
    if (len < 8) continue;
    const double fr[3] = { 0.5, 3.5 / len, 1 - 3.5 / len };
    for (double f : fr)
    {
      P m{ pc.s.a.x + f * dx, pc.s.a.y + f * dy };
      double d = dist_pt_segs(m, sol_segs);
      if (pc.keep)
      {
        if (d > 1.5)
        {
          snprintf(buf, sizeof buf, "point (%.2f,%.2f) of the open subject should be in the open solution but the nearest solution segment is %.2f away",
            m.x, m.y, d > 1e200 ? -1.0 : d);
          return buf;
        }
      }
      else
      {
        if (d <= 1.5 && dist_pt_segs(m, ex.kept) > 4.0)
        {
          snprintf(buf, sizeof buf, "point (%.2f,%.2f) of the open subject should NOT be in the open solution but a solution segment passes %.2f from it",
            m.x, m.y, d);
          return buf;
        }
      }
    }
  }
  // (3) total length
  double got = paths_length(sol);
  double tol = 3.0 * ex.cuts + 1e-6;
  if (std::fabs(got - ex.length) > tol)
  {
    snprintf(buf, sizeof buf, "total open length %.3f, exact %.3f, %d cuts (tolerance %.1f)", got, ex.length, ex.cuts, tol);
    return buf;
  }
  return "";
}

static long n_cases = 0, n_skipped = 0;

// returns true when the property held
static bool run_case(const Paths64& subj, const Paths64& open, const Paths64& clip,
  ClipType ct, FillRule fr, const char* tag)
{
  if (!general_position(subj, open, clip)) { ++n_skipped; return true; }
  Expect ex = oracle(subj, open, clip, ct, fr);
  if (ex.too_close) { ++n_skipped; return true; }
  ++n_cases;
  std::string why;

  // Paths64 execution
  Paths64 sol_c, sol_o, ref_c, ref_o;
  {
    Clipper64 c; c.AddSubject(subj); c.AddOpenSubject(open); c.AddClip(clip);
    if (!c.Execute(ct, fr, sol_c, sol_o)) why = "Execute (paths) returned false";
  }
  if (why.empty()) why = check_open(ex, open, sol_o);
  if (why.empty())
  {
    Clipper64 c; c.AddSubject(subj); c.AddClip(clip);
    c.Execute(ct, fr, ref_c, ref_o);
    double a1 = Area(sol_c), a0 = Area(ref_c);
    // (slivers of self-intersecting closed input can round differently when the
    // open paths add scanlines, hence a small allowance)
    if (std::fabs(a1 - a0) > 100 + 0.01 * std::fabs(a0))
    {
      char buf[256];
      snprintf(buf, sizeof buf, "closed solution changed by adding open subjects: area %.1f (%zu paths) vs %.1f (%zu paths)",
        a1, sol_c.size(), a0, ref_c.size());
      why = buf;
    }
  }
  // PolyTree64 execution
  Paths64 tsol_o;
  bool tree_run = false;
  if (why.empty())
  {
    tree_run = true;
    PolyTree64 tree;
    Clipper64 c; c.AddSubject(subj); c.AddOpenSubject(open); c.AddClip(clip);
    if (!c.Execute(ct, fr, tree, tsol_o)) why = "Execute (polytree) returned false";
    if (why.empty())
    {
      why = check_open(ex, open, tsol_o);
      if (!why.empty()) why = "[polytree] " + why;
    }
    if (why.empty())
    {
      double a1 = Area(PolyTreeToPaths64(tree)), a0 = Area(ref_c);
      if (std::fabs(a1 - a0) > 100 + 0.01 * std::fabs(a0))
      {
        char buf[256];
        snprintf(buf, sizeof buf, "[polytree] closed solution changed by adding open subjects: area %.1f vs %.1f", a1, a0);
        why = buf;
      }
    }
  }
  if (why.empty()) return true;

  printf("VIOLATION (%s): %s\n", tag, why.c_str());
  printf("  cliptype = %s, fillrule = %s\n", ct_name(ct), fr_name(fr));
  print_paths("closed subject", subj);
  print_paths("open subject", open);
  print_paths("clip", clip);
  print_paths("open solution (paths)", sol_o);
  if (tree_run) print_paths("open solution (polytree)", tsol_o);
  printf("  expected kept pieces (oracle):");
  for (const S& s : ex.kept) printf(" (%.2f,%.2f)-(%.2f,%.2f)", s.a.x, s.a.y, s.b.x, s.b.y);
  printf("\n  exact kept length %.3f, cuts %d\n", ex.length, ex.cuts);
  return false;
}

static const ClipType CTS[4] = { ClipType::Intersection, ClipType::Union, ClipType::Difference, ClipType::Xor };
static const FillRule FRS[4] = { FillRule::EvenOdd, FillRule::NonZero, FillRule::Positive, FillRule::Negative };

static bool run_all_modes(const Paths64& subj, const Paths64& open, const Paths64& clip, const char* tag)
{
  for (ClipType ct : CTS)
    for (FillRule fr : FRS)
      if (!run_case(subj, open, clip, ct, fr, tag)) return false;
  return true;
}

static Path64 reversed(Path64 p) { std::reverse(p.begin(), p.end()); return p; }

// ---------------------------------------------------------------- random generators
static Path64 random_polygon(int lo, int hi, int nmin, int nmax)
{
  int n = rnd_int(nmin, nmax);
  Path64 p;
  if (rnd() % 3 == 0)
  {
    // star-shaped simple polygon around a centre
    int cx = rnd_int(lo + 40, hi - 40), cy = rnd_int(lo + 40, hi - 40);
    double ph = (rnd() % 1000) * 0.00628;
    for (int i = 0; i < n; ++i)
    {
      double ang = ph + 6.283185307 * i / n;
      double r = rnd_int(25, 140);
      p.push_back(Point64((int64_t)std::llround(cx + r * std::cos(ang)), (int64_t)std::llround(cy + r * std::sin(ang))));
    }
  }
  else
    for (int i = 0; i < n; ++i) p.push_back(Point64(rnd_int(lo, hi), rnd_int(lo, hi)));
  if (rnd() & 1) std::reverse(p.begin(), p.end());
  return p;
}

static Path64 random_polyline(int lo, int hi, int nmin, int nmax, int style, bool ring = false)
{
  int n = rnd_int(nmin, nmax);
  Path64 p;
  p.push_back(Point64(rnd_int(lo, hi), rnd_int(lo, hi)));
  for (int i = 1; i < n; ++i)
  {
    Point64 q(rnd_int(lo, hi), rnd_int(lo, hi));
    if (style == 1)
    {
      // orthogonal / partly horizontal polylines
      int k = rnd() % 3;
      if (k == 0) q.y = p.back().y; else if (k == 1) q.x = p.back().x;
    }
    else if (style == 2)
    {
      // short steps
      q.x = p.back().x + rnd_int(-60, 60); q.y = p.back().y + rnd_int(-60, 60);
    }
    if (q == p.back()) { --i; continue; }
    p.push_back(q);
  }
  // some polylines return to their first point (a ring given as an open path)
  if (ring && p.size() >= 3) p.push_back(p.front());
  return p;
}

int main(int argc, char** argv)
{
  bool ok = true;
  // optional argument "random": skip the fixed cases (used to check that the sweep alone finds a violation)
  bool skip_fixed = (argc > 1 && std::string(argv[1]) == "random");

  // ------------------------------------------------------------ fixed cases
  if (!skip_fixed)
  {
    Path64 sq = MakePath({ 100,100, 300,100, 300,300, 100,300 });       // positive area
    Path64 inner = MakePath({ 150,150, 250,150, 250,250, 150,250 });
    Path64 tri = MakePath({ 40,260, 360,290, 210,20 });
    Paths64 lines;
    lines.push_back(MakePath({ 50,173, 351,207 }));                      // crosses the square
    lines.push_back(MakePath({ 20,30, 181,222, 390,121 }));              // ends outside, vertex inside
    lines.push_back(MakePath({ 203,133, 207,271 }));                     // completely inside
    lines.push_back(MakePath({ 120,40, 221,60, 340,47 }));               // completely outside
    lines.push_back(MakePath({ 130,221, 60,221, 60,330, 222,330, 222,181 })); // orthogonal, horizontal first/last-but-one
    lines.push_back(MakePath({ 60,127, 213,127 }));                      // single horizontal ending inside
    lines.push_back(MakePath({ 350,143, 187,143 }));                     // single horizontal, right to left, ending inside
    lines.push_back(MakePath({ 215,263, 215,190, 50,190 }));             // ends with a horizontal that leaves
    lines.push_back(MakePath({ 30,350, 111,231, 133,371, 171,211, 233,381, 271,241, 380,330 })); // zig-zag
    lines.push_back(MakePath({ 60,60, 340,85, 355,340, 45,322, 60,60 }));  // ring drawn as an open polyline, around the square
    lines.push_back(MakePath({ 211,51, 353,231, 187,351, 43,209, 211,51 })); // ring crossing the square
    lines.push_back(MakePath({ 171,131, 231,141, 201,251, 171,131 }));      // ring inside the square

    const Paths64 clips[] = {
      Paths64{ sq }, Paths64{ reversed(sq) },
      Paths64{ sq, inner }, Paths64{ sq, reversed(inner) }, Paths64{ reversed(sq), reversed(inner) },
      Paths64{ tri }, Paths64{ sq, tri }, Paths64{ sq, reversed(tri) }
    };
    const Paths64 subjs[] = {
      Paths64{}, Paths64{ MakePath({ 170,60, 330,170, 190,345 }) },
      Paths64{ reversed(MakePath({ 170,60, 330,170, 190,345 })) }
    };
    for (const Paths64& cl : clips)
      for (const Paths64& sj : subjs)
      {
        // each line on its own, then all together
        for (const Path64& ln : lines)
        {
          if (ok) ok = run_all_modes(sj, Paths64{ ln }, cl, "fixed");
          if (ok) ok = run_all_modes(sj, Paths64{ reversed(ln) }, cl, "fixed-reversed");
        }
        if (ok) ok = run_all_modes(sj, lines, cl, "fixed-all");
      }
  }
  if (!ok) { printf("FAILED (fixed cases); %ld cases checked\n", n_cases); return 1; }

  // ------------------------------------------------------------ deterministic pseudo-random sweep
  for (int iter = 0; iter < 100000 && ok; ++iter)
  {
    Paths64 subj, open, clip;
    int nclip = rnd_int(1, 3), nsubj = rnd_int(0, 2), nopen = rnd_int(1, 4);
    int small = (iter % 4 == 0);                     // a quarter of the cases are tiny (single line, single polygon)
    if (small) { nclip = 1; nsubj = rnd_int(0, 1); nopen = 1; }
    for (int i = 0; i < nclip; ++i) clip.push_back(random_polygon(0, 400, 3, small ? 4 : 7));
    for (int i = 0; i < nsubj; ++i) subj.push_back(random_polygon(0, 400, 3, 6));
    int style = iter % 3;
    for (int i = 0; i < nopen; ++i) open.push_back(random_polyline(0, 400, 2, small ? 3 : 6, style, (iter % 5 == 0) && (rnd() & 1)));
    ClipType ct = CTS[rnd() % 4];
    FillRule fr = FRS[rnd() % 4];
    ok = run_case(subj, open, clip, ct, fr, "random");
    if (ok && (iter % 8 == 0)) ok = run_all_modes(subj, open, clip, "random-all-modes");
  }

  printf("%s; %ld cases checked, %ld skipped (not in general position)\n", ok ? "OK" : "FAILED", n_cases, n_skipped);
  return ok ? 0 : 1;
}
