// Native replay for unit C04_inside: the independent oracle program written for seed C04-1 by a sub-agent that saw only the property text
// (exit 0: property held on everything tried; non-zero: a failing input is printed).  Runs the public API of the library built from /repo's working tree.
// LINK: engine offset rectclip
// Property C04, clause "every polygon in the tree lies inside its parent and outside its
// siblings, depth alternates between outer polygons (positive orientation) and holes
// (negative orientation)" (plus the path-set / area clauses, checked on the way).
//
// Independent oracle: the solution is also computed into plain Paths; the expected parent
// of every contour is the smallest-area contour that contains it (exact integer
// point-in-polygon votes over the vertices, boundary points ignored), the expected depth is
// 1 + number of containing contours, and the expected orientation follows from the depth.
// The tree returned by the library must agree with that.
//
// Inputs: two fixed rectilinear inputs (rectangular frames on a pitch-4 grid, i.e. all
// features >= 4 units apart, producing touching holes and horizontal joins), run through
// Clipper64 and ClipperD, with and without ReverseSolution, all clip types x fill rules;
// plus a deterministic sweep of general-position polygons.
// exit status 0: no violation, 1: violation(s) found.
#include "clipper2/clipper.h"
#include <cstdio>
#include <cstdint>
#include <cmath>
#include <vector>
#include <algorithm>
#include <random>
#include <string>

using namespace Clipper2Lib;

typedef std::pair<int64_t, int64_t> IPt;
typedef std::vector<IPt> IPoly;
struct Node { IPoly poly; std::vector<Node> kids; };
struct Flat { IPoly poly; int depth; int parent; };

static int g_viol = 0;
static long g_runs = 0;

// ---------- independent exact geometry ----------
static __int128 cross(const IPt& a, const IPt& b, const IPt& c)
{
  return (__int128)(b.first - a.first) * (c.second - a.second) -
         (__int128)(b.second - a.second) * (c.first - a.first);
}
static __int128 area2(const IPoly& p)
{
  __int128 s = 0;
  for (size_t i = 0, n = p.size(); i < n; ++i) {
    const IPt& a = p[i]; const IPt& b = p[(i + 1) % n];
    s += (__int128)a.first * b.second - (__int128)b.first * a.second;
  }
  return s;
}
// -1 outside, 0 on the boundary, 1 inside
static int pip(const IPt& q, const IPoly& p)
{
  bool in = false;
  for (size_t i = 0, n = p.size(); i < n; ++i) {
    IPt a = p[i], b = p[(i + 1) % n];
    if (cross(a, b, q) == 0 &&
        std::min(a.first, b.first) <= q.first && q.first <= std::max(a.first, b.first) &&
        std::min(a.second, b.second) <= q.second && q.second <= std::max(a.second, b.second))
      return 0;
    if ((a.second > q.second) != (b.second > q.second)) {
      if (a.second > b.second) std::swap(a, b);
      if (cross(a, b, q) > 0) in = !in;
    }
  }
  return in ? 1 : -1;
}
// does q contain p?  1 yes, -1 no, 0 cannot tell
static int contains(const IPoly& q, const IPoly& p)
{
  int in = 0, out = 0;
  for (const IPt& v : p) { int r = pip(v, q); if (r > 0) ++in; else if (r < 0) ++out; }
  if (in == 0 && out == 0) {
    // every vertex of p is on q's boundary: vote with the (doubled) edge midpoints
    IPoly q2; for (auto v : q) q2.push_back(IPt(v.first * 2, v.second * 2));
    for (size_t i = 0, n = p.size(); i < n; ++i) {
      IPt m(p[i].first + p[(i + 1) % n].first, p[i].second + p[(i + 1) % n].second);
      int r = pip(m, q2); if (r > 0) ++in; else if (r < 0) ++out;
    }
  }
  if (in > out) return 1;
  if (out > in) return -1;
  return 0;
}
static IPoly canon(const IPoly& p)
{
  if (p.empty()) return p;
  IPt mn = *std::min_element(p.begin(), p.end());
  IPoly best;
  for (size_t s = 0; s < p.size(); ++s) {
    if (p[s] != mn) continue;
    IPoly r(p.begin() + s, p.end()); r.insert(r.end(), p.begin(), p.begin() + s);
    if (best.empty() || r < best) best = r;
  }
  return best;
}
static IPoly canon_open(IPoly p) { if (p.size() && p.back() < p.front()) std::reverse(p.begin(), p.end()); return p; }

static IPoly conv(const Path64& p) { IPoly r; for (auto& v : p) r.push_back(IPt(v.x, v.y)); return r; }
static IPoly conv(const PathD& p, double sc) { IPoly r; for (auto& v : p) r.push_back(IPt((int64_t)std::llround(v.x * sc), (int64_t)std::llround(v.y * sc))); return r; }
static void conv(const PolyPath64& pp, Node& n) { n.poly = conv(pp.Polygon()); for (auto& c : pp) { n.kids.emplace_back(); conv(*c, n.kids.back()); } }
static void conv(const PolyPathD& pp, Node& n, double sc) { n.poly = conv(pp.Polygon(), sc); for (auto& c : pp) { n.kids.emplace_back(); conv(*c, n.kids.back(), sc); } }
static void flatten(const Node& n, int depth, int parent, std::vector<Flat>& out)
{
  for (const Node& k : n.kids) {
    out.push_back(Flat{ k.poly, depth + 1, parent });
    flatten(k, depth + 1, (int)out.size() - 1, out);
  }
}
static std::string pstr(const IPoly& p)
{
  std::string s; for (auto& v : p) s += std::to_string(v.first) + "," + std::to_string(v.second) + " "; return s;
}

static std::string check(std::vector<IPoly> closed, std::vector<IPoly> open_p, const Node& root,
  std::vector<IPoly> open_t, bool reversed, __int128 lib_tree_area2)
{
  std::string why;
  std::vector<Flat> fl; flatten(root, 0, -1, fl);
  // same closed paths, same open paths, same area
  {
    __int128 sa = 0, sb = 0;
    for (auto& p : closed) sa += area2(p);
    for (auto& f : fl) sb += area2(f.poly);
    if (sa != sb) why += "  total area of tree differs from total area of paths\n";
    if (lib_tree_area2 != sa) why += "  PolyTree.Area() differs from total area of paths\n";
    std::vector<IPoly> a, b;
    for (auto& p : closed) a.push_back(canon(p));
    for (auto& f : fl) b.push_back(canon(f.poly));
    std::sort(a.begin(), a.end()); std::sort(b.begin(), b.end());
    if (a != b) why += "  closed paths differ: Paths has " + std::to_string(a.size()) + ", tree has " + std::to_string(b.size()) + "\n";
    for (auto& p : open_p) p = canon_open(p);
    for (auto& p : open_t) p = canon_open(p);
    std::sort(open_p.begin(), open_p.end()); std::sort(open_t.begin(), open_t.end());
    if (open_p != open_t) why += "  open paths differ\n";
  }
  // orientation alternates with depth
  for (size_t i = 0; i < fl.size(); ++i) {
    __int128 a = area2(fl[i].poly);
    bool want_pos = (fl[i].depth % 2 == 1);
    if (reversed) want_pos = !want_pos;
    if (a != 0 && (a > 0) != want_pos)
      why += "  contour at depth " + std::to_string(fl[i].depth) + " has the wrong orientation: " + pstr(fl[i].poly) + "\n";
  }
  // parent == smallest container, depth == number of containers + 1
  {
    size_t n = fl.size();
    std::vector<__int128> aa(n);
    for (size_t i = 0; i < n; ++i) { aa[i] = area2(fl[i].poly); if (aa[i] < 0) aa[i] = -aa[i]; }
    for (size_t i = 0; i < n; ++i) {
      int best = -1, cnt = 0; bool equivocal = false;
      for (size_t j = 0; j < n; ++j) {
        if (j == i || aa[j] <= aa[i]) continue;
        int c = contains(fl[j].poly, fl[i].poly);
        if (c == 0) { equivocal = true; continue; }
        if (c > 0) { ++cnt; if (best < 0 || aa[j] < aa[best]) best = (int)j; }
      }
      if (equivocal) continue;
      if (best != fl[i].parent)
        why += "  wrong parent for [" + pstr(fl[i].poly) + "]\n    parent in tree: [" +
          (fl[i].parent < 0 ? std::string("root") : pstr(fl[fl[i].parent].poly)) + "]\n    smallest container: [" +
          (best < 0 ? std::string("root") : pstr(fl[best].poly)) + "]\n";
      else if (cnt + 1 != fl[i].depth) why += "  depth differs from number of containers + 1\n";
    }
  }
  return why;
}

static const char* ctn[] = { "NoClip","Intersection","Union","Difference","Xor" };
static const char* frn[] = { "EvenOdd","NonZero","Positive","Negative" };
static std::string dump(const Paths64& ps)
{
  std::string s;
  for (auto& p : ps) { s += "    {"; for (auto& v : p) s += std::to_string(v.x) + "," + std::to_string(v.y) + ", "; s += "}\n"; }
  return s;
}
static void report(const std::string& why, const char* variant, const char* tag, ClipType ct, FillRule fr, bool rev,
  const Paths64& subj, const Paths64& clip)
{
  ++g_runs;
  if (why.empty()) return;
  ++g_viol;
  if (g_viol <= 6) {
    printf("VIOLATION [%s, %s] %s %s ReverseSolution=%d\n%s", variant, tag, ctn[(int)ct], frn[(int)fr], (int)rev, why.c_str());
    printf("  subject (integer data):\n%s  clip:\n%s", dump(subj).c_str(), dump(clip).c_str());
    fflush(stdout);
  }
}

static void run64(const Paths64& subj, const Paths64& open, const Paths64& clip, ClipType ct, FillRule fr, bool rev, const char* tag)
{
  Paths64 sol, sol_open, t_open; PolyTree64 tree;
  { Clipper64 c; c.ReverseSolution(rev); c.AddSubject(subj); c.AddOpenSubject(open); c.AddClip(clip); c.Execute(ct, fr, sol, sol_open); }
  { Clipper64 c; c.ReverseSolution(rev); c.AddSubject(subj); c.AddOpenSubject(open); c.AddClip(clip); c.Execute(ct, fr, tree, t_open); }
  std::vector<IPoly> closed, op, ot; Node root;
  for (auto& p : sol) closed.push_back(conv(p));
  for (auto& p : sol_open) op.push_back(conv(p));
  for (auto& p : t_open) ot.push_back(conv(p));
  conv(tree, root);
  report(check(closed, op, root, ot, rev, (__int128)std::llround(tree.Area() * 2)), "Clipper64/PolyTree64", tag, ct, fr, rev, subj, clip);
}
// integer data divided by 'div' (power of two => exact) and given to ClipperD(precision 2)
static void runD(const Paths64& subj, const Paths64& open, const Paths64& clip, ClipType ct, FillRule fr, bool rev, const char* tag, double div)
{
  auto toD = [&](const Paths64& ps) { PathsD r; for (auto& p : ps) { PathD q; for (auto& v : p) q.push_back(PointD(v.x / div, v.y / div)); r.push_back(q); } return r; };
  PathsD s = toD(subj), so = toD(open), cl = toD(clip);
  PathsD sol, sol_open, t_open; PolyTreeD tree;
  { ClipperD c(2); c.ReverseSolution(rev); c.AddSubject(s); c.AddOpenSubject(so); c.AddClip(cl); c.Execute(ct, fr, sol, sol_open); }
  { ClipperD c(2); c.ReverseSolution(rev); c.AddSubject(s); c.AddOpenSubject(so); c.AddClip(cl); c.Execute(ct, fr, tree, t_open); }
  const double sc = 128.0;
  std::vector<IPoly> closed, op, ot; Node root;
  for (auto& p : sol) closed.push_back(conv(p, sc));
  for (auto& p : sol_open) op.push_back(conv(p, sc));
  for (auto& p : t_open) ot.push_back(conv(p, sc));
  conv(tree, root, sc);
  report(check(closed, op, root, ot, rev, (__int128)std::llround(tree.Area() * sc * sc * 2)), "ClipperD/PolyTreeD", tag, ct, fr, rev, subj, clip);
}
static void all_ops(const Paths64& subj, const Paths64& open, const Paths64& clip, const char* tag, double div, int revs)
{
  for (int rev = 0; rev < revs; ++rev)
    for (int ct = 1; ct <= 4; ++ct)
      for (int fr = 0; fr <= 3; ++fr) {
        run64(subj, open, clip, (ClipType)ct, (FillRule)fr, rev != 0, tag);
        runD(subj, open, clip, (ClipType)ct, (FillRule)fr, rev != 0, tag, div);
      }
}

typedef std::mt19937_64 Rng;
static int64_t ri(Rng& r, int64_t lo, int64_t hi) { return lo + (int64_t)(r() % (uint64_t)(hi - lo + 1)); }
static Paths64 gen(Rng& r, int npoly, int maxv, int64_t range)
{
  Paths64 ps;
  for (int i = 0; i < npoly; ++i) {
    int n = (int)ri(r, 3, maxv);
    Path64 p; for (int k = 0; k < n; ++k) p.push_back(Point64(ri(r, 0, range), ri(r, 0, range)));
    ps.push_back(p);
  }
  return ps;
}

int main()
{
  // ---- fixed rectilinear inputs: rectangular frames (outer + reversed inner ring), pitch 4 ----
  {
    Paths64 s = {
      MakePath({ 16,24, 16,36, 28,36, 28,24 }),
      MakePath({ 12,24, 28,24, 28,44, 12,44 }), MakePath({ 16,28, 16,40, 24,40, 24,28 }),
      MakePath({ 0,24, 40,24, 40,44, 0,44 }),   MakePath({ 4,28, 4,40, 36,40, 36,28 }),
      MakePath({ 8,0, 36,0, 36,32, 8,32 }),
      MakePath({ 12,8, 40,8, 40,48, 12,48 }),   MakePath({ 16,12, 16,44, 36,44, 36,12 }) };
    Paths64 c = {
      MakePath({ 0,4, 40,4, 40,44, 0,44 }),     MakePath({ 4,8, 4,40, 36,40, 36,8 }) };
    all_ops(s, Paths64(), c, "fixed-1", 4.0, 2);
  }
  {
    Paths64 s = {
      MakePath({ 4,28, 56,28, 56,52, 4,52 }),   MakePath({ 8,32, 8,48, 52,48, 52,32 }),
      MakePath({ 28,36, 40,36, 40,52, 28,52 }), MakePath({ 32,40, 32,48, 36,48, 36,40 }),
      MakePath({ 28,12, 44,12, 44,48, 28,48 }), MakePath({ 32,16, 32,44, 40,44, 40,16 }),
      MakePath({ 24,12, 48,12, 48,48, 24,48 }), MakePath({ 28,16, 28,44, 44,44, 44,16 }),
      MakePath({ 40,12, 40,40, 44,40, 44,12 }),
      MakePath({ 4,4, 44,4, 44,48, 4,48 }),     MakePath({ 8,8, 8,44, 40,44, 40,8 }) };
    Paths64 c = {
      MakePath({ 20,16, 52,16, 52,48, 20,48 }), MakePath({ 24,20, 24,44, 48,44, 48,20 }) };
    all_ops(s, Paths64(), c, "fixed-2", 4.0, 2);
  }
  printf("fixed inputs: %ld executions checked, %d violation(s)\n", g_runs, g_viol);
  fflush(stdout);

  // ---- deterministic sweep, general position ----
  Rng rng(4);
  for (int it = 0; it < 1200; ++it) {
    Paths64 subj = gen(rng, (int)ri(rng, 1, 3), 3 + it % 12, 100000);
    Paths64 clip = gen(rng, (int)ri(rng, 1, 2), 3 + it % 9, 100000);
    Paths64 open; if (it % 3 == 0) open = gen(rng, 1, 4, 100000);
    bool rev = (it % 4 == 3);
    for (int ct = 1; ct <= 4; ++ct)
      for (int fr = 0; fr <= 3; ++fr) {
        run64(subj, open, clip, (ClipType)ct, (FillRule)fr, rev, "sweep");
        runD(subj, open, clip, (ClipType)ct, (FillRule)fr, rev, "sweep", 64.0);
      }
  }
  printf("total: %ld executions checked, %d violation(s)\n", g_runs, g_viol);
  return g_viol ? 1 : 0;
}
