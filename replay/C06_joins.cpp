// LINK: engine offset
// native replay for C06_joins: signed-distance oracle over offset results for every join type and delta sign (an earlier confirmed demonstration)
// C06 demo: polygon offsetting moves the boundary by delta.
//
// Independent oracle: the signed distance of a sample point to the *input*
// region (brute force: even-odd crossing number + minimum distance to every
// input edge).  For every configuration (model polygon with holes, orientation
// convention, ReverseSolution, delta of either sign, join type, miter limit,
// arc tolerance) the offset result is probed at many sample points and every
// point outside the tolerance band must be inside / outside the result as the
// property dictates:
//   round : result == { sd <= delta }
//   miter : between round(|delta|) and round(|delta| * miter_limit)
//   square: between round(|delta|) and round(|delta| * sqrt(2))
//   bevel : between "polygon moved only along its edge normals" and round(|delta|)
//   |delta| < 0.5 : region unchanged
//   orientation of the input (xor ReverseSolution) is preserved
// returns 0 when everything holds, 1 otherwise.

#include "clipper2/clipper.h"
#include <cstdio>
#include <cmath>
#include <vector>
#include <string>
#include <algorithm>

using namespace Clipper2Lib;

struct P { double x, y; };

static double Shoelace(const Path64& p)
{
  double a = 0;
  for (size_t i = 0, n = p.size(); i < n; ++i)
  {
    const Point64& u = p[i]; const Point64& v = p[(i + 1) % n];
    a += (double)u.x * (double)v.y - (double)v.x * (double)u.y;
  }
  return a * 0.5;
}

static double TotalArea(const Paths64& pp)
{
  double a = 0; for (const auto& p : pp) a += Shoelace(p); return a;
}

// even-odd membership over a set of closed paths
static bool InsideEO(const Paths64& pp, const P& q)
{
  bool in = false;
  for (const auto& p : pp)
    for (size_t i = 0, n = p.size(); i < n; ++i)
    {
      double ax = (double)p[i].x, ay = (double)p[i].y;
      double bx = (double)p[(i + 1) % n].x, by = (double)p[(i + 1) % n].y;
      if ((ay > q.y) != (by > q.y))
      {
        double xi = ax + (q.y - ay) * (bx - ax) / (by - ay);
        if (q.x < xi) in = !in;
      }
    }
  return in;
}

static double DistSeg(const P& q, double ax, double ay, double bx, double by)
{
  double dx = bx - ax, dy = by - ay;
  double l2 = dx * dx + dy * dy;
  double t = l2 > 0 ? ((q.x - ax) * dx + (q.y - ay) * dy) / l2 : 0;
  t = std::max(0.0, std::min(1.0, t));
  double px = ax + t * dx - q.x, py = ay + t * dy - q.y;
  return std::sqrt(px * px + py * py);
}

static double DistBoundary(const Paths64& pp, const P& q)
{
  double d = 1e300;
  for (const auto& p : pp)
    for (size_t i = 0, n = p.size(); i < n; ++i)
      d = std::min(d, DistSeg(q, (double)p[i].x, (double)p[i].y,
        (double)p[(i + 1) % n].x, (double)p[(i + 1) % n].y));
  return d;
}

// signed distance to the region described by canonical paths
static double SignedDist(const Paths64& canon, const P& q)
{
  double d = DistBoundary(canon, q);
  return InsideEO(canon, q) ? -d : d;
}

// canonical paths: region on the left of every directed edge, so the outward
// normal is (dy,-dx).  True when q lies in the rectangle swept by moving some
// edge by 0..h along its outward (side=+1) or inward (side=-1) normal.
static bool InEdgeSweep(const Paths64& canon, const P& q, double h, int side)
{
  if (h < 0) return false;
  for (const auto& p : canon)
    for (size_t i = 0, n = p.size(); i < n; ++i)
    {
      double ax = (double)p[i].x, ay = (double)p[i].y;
      double bx = (double)p[(i + 1) % n].x, by = (double)p[(i + 1) % n].y;
      double dx = bx - ax, dy = by - ay, len = std::sqrt(dx * dx + dy * dy);
      if (len == 0) continue;
      double ux = dx / len, uy = dy / len;
      double nx = uy * side, ny = -ux * side;
      double t = (q.x - ax) * ux + (q.y - ay) * uy;
      double d = (q.x - ax) * nx + (q.y - ay) * ny;
      if (t >= 0 && t <= len && d >= 0 && d <= h) return true;
    }
  return false;
}

static Paths64 Canonical(Paths64 pp) // pp[0] outer, others holes
{
  for (size_t i = 0; i < pp.size(); ++i)
  {
    bool pos = Shoelace(pp[i]) > 0;
    if ((i == 0) != pos) std::reverse(pp[i].begin(), pp[i].end());
  }
  return pp;
}

static std::vector<Paths64> Models()
{
  std::vector<Paths64> m;
  // 1: square with a square hole
  m.push_back(Canonical({
    { {0,0}, {4000,0}, {4000,4000}, {0,4000} },
    { {1500,1500}, {2500,1500}, {2500,2500}, {1500,2500} } }));
  // 2: L-like shape (one reflex vertex) with a triangular hole
  m.push_back(Canonical({
    { {0,0}, {5000,0}, {5000,2000}, {2500,2200}, {2300,5000}, {0,5000} },
    { {800,800}, {800,1700}, {1800,900} } }));
  // 3: irregular octagon with a four pointed star hole
  {
    Path64 star;
    for (int i = 0; i < 8; ++i)
    {
      double r = (i % 2 == 0) ? 900.0 : 400.0, a = i * 3.14159265358979323846 / 4 + 0.2;
      star.push_back(Point64((int64_t)std::llround(3000 + r * std::cos(a)),
        (int64_t)std::llround(3000 + r * std::sin(a))));
    }
    m.push_back(Canonical({
      { {0,500}, {2500,0}, {5500,300}, {6500,2800}, {6000,5800}, {3200,6500}, {600,5600}, {-300,3000} },
      star }));
  }
  // 4: triangle with a 30 degree tip and a slim triangular hole (20 degree tip)
  m.push_back(Canonical({
    { {0,0}, {6000,1608}, {0,3215} },
    { {800,1200}, {800,2000}, {3000,1600} } }));
  return m;
}

static const char* JtName(JoinType jt)
{
  switch (jt) {
  case JoinType::Round: return "Round";
  case JoinType::Miter: return "Miter";
  case JoinType::Square: return "Square";
  default: return "Bevel";
  }
}

static std::vector<P> Samples(const Paths64& canon, double absd, double reach)
{
  std::vector<P> s;
  double minx = 1e300, miny = 1e300, maxx = -1e300, maxy = -1e300;
  for (const auto& p : canon) for (const auto& pt : p)
  {
    minx = std::min(minx, (double)pt.x); maxx = std::max(maxx, (double)pt.x);
    miny = std::min(miny, (double)pt.y); maxy = std::max(maxy, (double)pt.y);
  }
  minx -= reach; miny -= reach; maxx += reach; maxy += reach;
  const int G = 90;
  for (int i = 0; i <= G; ++i)
    for (int j = 0; j <= G; ++j)
      s.push_back({ minx + (maxx - minx) * (i + 0.37) / (G + 1), miny + (maxy - miny) * (j + 0.61) / (G + 1) });
  static const double radii[] = { 0.25, 0.5, 0.8, 0.93, 1.08, 1.3, 1.6, 2.2, 3.2 };
  for (const auto& p : canon)
    for (size_t i = 0, n = p.size(); i < n; ++i)
    {
      double ax = (double)p[i].x, ay = (double)p[i].y;
      double bx = (double)p[(i + 1) % n].x, by = (double)p[(i + 1) % n].y;
      for (double r : radii)
      {
        for (int k = 0; k < 24; ++k) // around the vertex
        {
          double a = (k + 0.5) * 2 * 3.14159265358979323846 / 24;
          s.push_back({ ax + r * absd * std::cos(a), ay + r * absd * std::sin(a) });
        }
        double dx = bx - ax, dy = by - ay, len = std::sqrt(dx * dx + dy * dy);
        double nx = dy / len, ny = -dx / len;
        {
          // along the bisector at the vertex, both ways (where joins stick out furthest)
          double cx = (double)p[(i + n - 1) % n].x, cy = (double)p[(i + n - 1) % n].y;
          double ex = ax - cx, ey = ay - cy, el = std::sqrt(ex * ex + ey * ey);
          double mx = nx + ey / el, my = ny - ex / el, ml = std::sqrt(mx * mx + my * my);
          if (ml > 1e-6)
            for (int sd = -1; sd <= 1; sd += 2)
            {
              s.push_back({ ax + sd * r * absd * mx / ml, ay + sd * r * absd * my / ml });
              s.push_back({ ax + sd * (r + 0.15) * absd * mx / ml, ay + sd * (r + 0.15) * absd * my / ml });
            }
        }
        for (int k = 1; k <= 5; ++k) // beside the edge, both sides
          for (int sd = -1; sd <= 1; sd += 2)
            s.push_back({ ax + dx * k / 6.0 + sd * r * absd * nx, ay + dy * k / 6.0 + sd * r * absd * ny });
      }
    }
  return s;
}

static long g_checked = 0;

// returns number of violations found for this configuration
static int CheckConfig(int model_no, const Paths64& canon, bool flip, bool rev_sol,
  double delta, JoinType jt, double ml, double arc_tol, bool use_inflate)
{
  Paths64 input = canon;
  if (flip) for (auto& p : input) std::reverse(p.begin(), p.end());

  Paths64 sol;
  if (use_inflate)
    sol = InflatePaths(input, delta, jt, EndType::Polygon, ml, arc_tol);
  else
  {
    ClipperOffset co(ml, arc_tol, false, rev_sol);
    co.AddPaths(input, jt, EndType::Polygon);
    co.Execute(delta, sol);
  }

  const double absd = std::fabs(delta);
  const bool tiny = absd < 0.5;
  double k = 1.0;
  if (jt == JoinType::Miter) k = std::max(ml, std::sqrt(2.0)); // falls back to squaring beyond the limit
  else if (jt == JoinType::Square) k = std::sqrt(2.0);
  double arc_eff = arc_tol > 0 ? std::min(absd, arc_tol) : absd / 500;
  double tol = tiny ? 1.0 : arc_eff + 2 + 0.001 * absd;

  char cfg[256];
  snprintf(cfg, sizeof cfg, "model %d %s-orientation%s delta=%g %s ml=%g arc_tol=%g%s",
    model_no, flip ? "negative" : "positive", rev_sol ? " ReverseSolution" : "",
    delta, JtName(jt), ml, arc_tol, use_inflate ? " (InflatePaths)" : "");

  int bad = 0;

  // orientation clause
  if (!sol.empty())
  {
    double a_in = TotalArea(input), a_out = TotalArea(sol);
    bool same = (a_in > 0) == (a_out > 0);
    if (same == rev_sol)
    {
      printf("VIOLATION [%s]: input area sign %+.0f, solution area sign %+.0f\n", cfg, a_in, a_out);
      ++bad;
    }
  }

  std::vector<P> samples = Samples(canon, std::max(absd, 4.0), k * absd + tol + 40);
  for (const P& q : samples)
  {
    double sd = SignedDist(canon, q);
    bool must_in = false, must_out = false;
    if (tiny) { must_in = sd <= -tol; must_out = sd >= tol; }
    else if (jt == JoinType::Round) { must_in = sd <= delta - tol; must_out = sd >= delta + tol; }
    else if (jt == JoinType::Bevel)
    {
      if (delta > 0)
      {
        must_in = sd <= -tol || InEdgeSweep(canon, q, absd - tol, +1);
        must_out = sd >= delta + tol;
      }
      else
      {
        must_in = sd <= delta - tol;
        must_out = sd >= tol || InEdgeSweep(canon, q, absd - tol, -1);
      }
    }
    else if (delta > 0) { must_in = sd <= delta - tol; must_out = sd >= k * delta + tol; }
    else { must_in = sd <= k * delta - tol; must_out = sd >= delta + tol; }
    if (!must_in && !must_out) continue;
    if (!sol.empty() && DistBoundary(sol, q) < 0.75) continue; // on the result's boundary
    ++g_checked;
    bool in_res = InsideEO(sol, q);
    if ((must_in && !in_res) || (must_out && in_res))
    {
      if (bad < 3)
        printf("VIOLATION [%s]: point (%.1f,%.1f) signed distance to input %.2f must be %s the result but is %s (tol %.2f)\n",
          cfg, q.x, q.y, sd, must_in ? "inside" : "outside", in_res ? "inside" : "outside", tol);
      ++bad;
    }
  }
  return bad;
}

int main()
{
  std::vector<Paths64> models = Models();
  const double deltas[] = { 30, -30, 120, -120, 333, -260, 600, -1300, 0.3, -0.4 };
  struct JC { JoinType jt; double ml; double arc; };
  const JC jcs[] = {
    { JoinType::Round, 2, 0 }, { JoinType::Round, 2, 5 },
    { JoinType::Miter, 2, 0 }, { JoinType::Miter, 3, 0 },
    { JoinType::Square, 2, 0 }, { JoinType::Bevel, 2, 0 } };

  int bad_cfgs = 0, cfgs = 0; long bad_pts = 0;
  for (size_t m = 0; m < models.size(); ++m)
    for (int flip = 0; flip < 2; ++flip)
      for (double d : deltas)
        for (const JC& jc : jcs)
          for (int mode = 0; mode < 3; ++mode) // 0: Execute, 1: Execute+ReverseSolution, 2: InflatePaths
          {
            if (mode == 1 && !(d == 120 || d == -120)) continue;
            if (mode == 2 && !(d == 30 || d == -30)) continue;
            int b = CheckConfig((int)m + 1, models[m], flip != 0, mode == 1, d, jc.jt, jc.ml, jc.arc, mode == 2);
            ++cfgs;
            if (b) { ++bad_cfgs; bad_pts += b; }
          }

  printf("%d configurations, %ld point checks, %d configurations with violations (%ld violations)\n",
    cfgs, g_checked, bad_cfgs, bad_pts);
  if (bad_cfgs) { printf("RESULT: property C06 VIOLATED\n"); return 1; }
  printf("RESULT: property C06 holds on everything tried\n");
  return 0;
}
