// native replay for C18_area: exact-shoelace oracle (128-bit integers) over polygons far from the origin (an earlier confirmed demonstration written from the property text alone)
// Checks Area(Path64), Area(Paths64), Area(PathD), Area(PathsD) against an
// exact integer (128-bit) / long-double shoelace oracle.
#include "clipper2/clipper.h"
#include <cstdint>
#include <cstdio>
#include <cmath>
#include <vector>

using namespace Clipper2Lib;

static uint64_t rng_state = 0x2545F4914F6CDD1DULL;
static uint64_t Rnd()
{
  rng_state ^= rng_state << 13; rng_state ^= rng_state >> 7; rng_state ^= rng_state << 17;
  return rng_state;
}
static int64_t RndRange(int64_t lo, int64_t hi) // inclusive
{
  return lo + (int64_t)(Rnd() % (uint64_t)(hi - lo + 1));
}

// exact doubled signed area, sum of (x_i*y_{i+1} - x_{i+1}*y_i), sign convention
// matched to the library (positive = counter-clockwise in Cartesian coords)
static __int128 Twice(const Path64& p, long double* abs_terms = nullptr)
{
  __int128 s = 0; long double at = 0;
  size_t n = p.size();
  if (n < 3) return 0;
  for (size_t i = 0; i < n; ++i)
  {
    const Point64& a = p[i]; const Point64& b = p[(i + 1) % n];
    __int128 t = (__int128)a.x * b.y - (__int128)b.x * a.y;
    s += t;
    at += fabsl((long double)a.x * b.y) + fabsl((long double)b.x * a.y);
  }
  if (abs_terms) *abs_terms = at;
  return s;
}

static long double TwiceD(const PathD& p, long double* abs_terms)
{
  long double s = 0, at = 0; size_t n = p.size();
  if (n < 3) { *abs_terms = 0; return 0; }
  // translate to first vertex to keep the oracle well conditioned
  long double ox = p[0].x, oy = p[0].y;
  for (size_t i = 0; i < n; ++i)
  {
    long double ax = p[i].x - ox, ay = p[i].y - oy;
    long double bx = p[(i + 1) % n].x - ox, by = p[(i + 1) % n].y - oy;
    s += ax * by - bx * ay;
    at += fabsl((long double)p[i].x * p[(i + 1) % n].y) + fabsl((long double)p[(i + 1) % n].x * p[i].y);
  }
  *abs_terms = at;
  return s;
}

static long bad = 0, checked = 0;
static void Report(const char* what, double got, long double want, long double tol)
{
  ++checked;
  if (fabsl((long double)got - want) <= tol) return;
  if (bad < 10)
    printf("VIOLATION %s: library=%.17g exact=%.17Lg (tolerance %.3Lg)\n", what, got, want, tol);
  ++bad;
}

int main()
{
  const long double EPS = 2.220446049250313e-16L;

  // --- fixed small cases -------------------------------------------------
  {
    Path64 tri1 = { {0,0}, {1,0}, {0,1} };          // area 0.5
    Path64 tri2 = { {10,10}, {11,10}, {10,11} };    // area 0.5
    Path64 sq = { {0,0}, {0,3}, {3,3}, {3,0} };     // area -9 (clockwise)
    Report("Area(Path64 tri)", Area(tri1), 0.5L, 0);
    Report("Area(Path64 sq)", Area(sq), -9.0L, 0);
    Paths64 two = { tri1, tri2 };
    Report("Area(Paths64 {tri,tri})", Area(two), 1.0L, 0);
    Paths64 three = { tri1, sq, tri2 };
    Report("Area(Paths64 {tri,sq,tri})", Area(three), -8.0L, 0);
    PathD d1, d2;
    d1.push_back(PointD(0.0, 0.0)); d1.push_back(PointD(0.5, 0.0)); d1.push_back(PointD(0.0, 0.5));
    d2.push_back(PointD(2.0, 2.0)); d2.push_back(PointD(2.5, 2.0)); d2.push_back(PointD(2.0, 2.5));
    PathsD pd; pd.push_back(d1); pd.push_back(d2);
    Report("Area(PathsD two small triangles)", Area(pd), 0.25L, 1e-15L);
  }

  // --- random Path64 / Paths64, small coordinates: everything is exactly
  //     representable, so demand exact equality ----------------------------
  for (int iter = 0; iter < 20000; ++iter)
  {
    Paths64 pp; __int128 tot = 0;
    int np = (int)RndRange(1, 5);
    for (int k = 0; k < np; ++k)
    {
      Path64 p; int n = (int)RndRange(0, 9);
      for (int i = 0; i < n; ++i) p.push_back(Point64(RndRange(-1000, 1000), RndRange(-1000, 1000)));
      __int128 t = Twice(p);
      Report("Area(Path64) small", Area(p), (long double)t / 2, 0);
      tot += t; pp.push_back(p);
    }
    Report("Area(Paths64) small", Area(pp), (long double)tot / 2, 0);
  }

  // --- random Path64 / Paths64 with coordinates up to 2^40 (error bounded by
  //     double rounding of the individual terms) ---------------------------
  for (int bits = 20; bits <= 40; bits += 5)
    for (int iter = 0; iter < 4000; ++iter)
    {
      const int64_t R = (int64_t)1 << bits;
      Paths64 pp; long double tot = 0, tottol = 0;
      int np = (int)RndRange(1, 4);
      for (int k = 0; k < np; ++k)
      {
        Path64 p; int n = (int)RndRange(3, 12);
        for (int i = 0; i < n; ++i) p.push_back(Point64(RndRange(-R, R), RndRange(-R, R)));
        long double at; __int128 t = Twice(p, &at);
        long double tol = 8 * (n + 2) * EPS * at + 1e-9L;
        Report("Area(Path64) large", Area(p), (long double)t / 2, tol);
        tot += (long double)t / 2; tottol += tol; pp.push_back(p);
      }
      Report("Area(Paths64) large", Area(pp), tot, tottol * 2 + 1e-9L);
    }

  // --- small polygons far away from the origin (coordinates up to 2^40,
  //     extent up to 2^9): the shoelace sum sum((y_i+y_j)*(x_i-x_j)) has only
  //     terms and partial sums below 2^53 here, so a double evaluation loses
  //     nothing; allow a few ulps of the largest such term anyway -----------
  for (int bits = 24; bits <= 40; bits += 4)
    for (int iter = 0; iter < 4000; ++iter)
    {
      const int64_t R = (int64_t)1 << bits;
      int64_t ox = RndRange(-R, R), oy = RndRange(-R, R);
      if (iter % 3 == 1) oy = RndRange(-1000, 1000); // far in x only
      if (iter % 3 == 2) ox = RndRange(-1000, 1000); // far in y only
      Path64 p; int n = (int)RndRange(3, 12);
      for (int i = 0; i < n; ++i)
        p.push_back(Point64(ox + RndRange(-256, 256), oy + RndRange(-256, 256)));
      __int128 t = Twice(p);
      long double trap = 0;
      for (int i = 0; i < n; ++i)
      {
        const Point64& a = p[i]; const Point64& b = p[(i + 1) % n];
        trap += fabsl((long double)(a.y + b.y) * (long double)(a.x - b.x));
      }
      long double tol = 4 * (n + 2) * EPS * trap / 2;
      Report("Area(Path64) small polygon far from origin", Area(p), (long double)t / 2, tol);
    }
  {
    const int64_t X = (int64_t)1 << 40;
    Path64 sq = { Point64(X, X), Point64(X + 10, X), Point64(X + 10, X + 10), Point64(X, X + 10) };
    Report("Area(Path64) 10x10 square at (2^40,2^40)", Area(sq), 100.0L, 0);
    const int64_t Z = 0, T10 = 10;
    Path64 sq2 = { Point64(X, Z), Point64(X + 10, Z), Point64(X + 10, T10), Point64(X, T10) };
    Report("Area(Path64) 10x10 square at (2^40,0)", Area(sq2), 100.0L, 0);
  }

  // --- PathD / PathsD ------------------------------------------------------
  for (int iter = 0; iter < 20000; ++iter)
  {
    PathsD pp; long double tot = 0, tottol = 0;
    int np = (int)RndRange(1, 4);
    for (int k = 0; k < np; ++k)
    {
      PathD p; int n = (int)RndRange(3, 10);
      for (int i = 0; i < n; ++i)
        p.push_back(PointD(RndRange(-100000, 100000) / 1024.0, RndRange(-100000, 100000) / 1024.0));
      long double at; long double t = TwiceD(p, &at);
      long double tol = 8 * (n + 2) * EPS * at + 1e-12L;
      Report("Area(PathD)", Area(p), t / 2, tol);
      tot += t / 2; tottol += tol; pp.push_back(p);
    }
    Report("Area(PathsD)", Area(pp), tot, tottol * 2 + 1e-12L);
  }

  printf("checked %ld areas, %ld violations\n", checked, bad);
  return bad ? 1 : 0;
}
