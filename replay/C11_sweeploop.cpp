// LINK: engine
// native replay for C11_sweeploop: exact per-cell oracle over rectilinear inputs (an earlier confirmed demonstration written from the property text alone)
// C02 demo: axis-parallel inputs are clipped exactly, whatever their degeneracy.
// Independent oracle: brute-force winding number of every lattice cell centre
// w.r.t. the INPUT paths -> fill rule -> set operation -> expected cell set.
// Checked against the solution: (1) every solution vertex has x from an input
// x and y from an input y, (2) solution covers exactly the expected cells
// (winding of the solution at each cell centre, non-zero == even-odd ==
// expected), (3) signed area of the solution == exact area of expected cells.
// Exit 0 = property held everywhere, exit 1 = violation (input printed).
#include <cstdio>
#include <cstdint>
#include <cstdlib>
#include <vector>
#include <set>
#include <string>
#include "clipper2/clipper.h"

using namespace Clipper2Lib;

static const char* CT_NAME[] = { "NoClip", "Intersection", "Union", "Difference", "Xor" };
static const char* FR_NAME[] = { "EvenOdd", "NonZero", "Positive", "Negative" };

// winding number of point (px,py) given in DOUBLED coordinates (always odd, so
// never on a lattice line) w.r.t. closed paths given in normal coordinates
static int Winding(const Paths64& paths, int64_t px, int64_t py)
{
  int w = 0;
  for (const Path64& p : paths)
  {
    size_t n = p.size();
    if (n < 2) continue;
    for (size_t i = 0; i < n; ++i)
    {
      int64_t ax = 2 * p[i].x, ay = 2 * p[i].y;
      int64_t bx = 2 * p[(i + 1) % n].x, by = 2 * p[(i + 1) % n].y;
      if (ay <= py && by > py)
      {
        __int128 c = (__int128)(bx - ax) * (py - ay) - (__int128)(px - ax) * (by - ay);
        if (c > 0) ++w;
      }
      else if (by <= py && ay > py)
      {
        __int128 c = (__int128)(bx - ax) * (py - ay) - (__int128)(px - ax) * (by - ay);
        if (c < 0) --w;
      }
    }
  }
  return w;
}

static bool Filled(int w, FillRule fr)
{
  switch (fr)
  {
  case FillRule::EvenOdd: return (w & 1) != 0;
  case FillRule::NonZero: return w != 0;
  case FillRule::Positive: return w > 0;
  default: return w < 0;
  }
}

static bool Selected(bool s, bool c, ClipType ct)
{
  switch (ct)
  {
  case ClipType::Intersection: return s && c;
  case ClipType::Union: return s || c;
  case ClipType::Difference: return s && !c;
  default: return s != c;
  }
}

static void PrintPaths(const char* name, const Paths64& pp)
{
  printf("  %s = {", name);
  for (const Path64& p : pp)
  {
    printf(" {");
    for (const Point64& pt : p) printf(" (%lld,%lld)", (long long)pt.x, (long long)pt.y);
    printf(" }");
  }
  printf(" }\n");
}

static long g_checks = 0;

// returns true when the property holds for this configuration
static bool CheckOne(const Paths64& subj, const Paths64& clip, int64_t step,
  ClipType ct, FillRule fr, bool pc, std::string& why)
{
  ++g_checks;
  std::set<int64_t> xs, ys;
  for (const Paths64* pp : { &subj, &clip })
    for (const Path64& p : *pp)
      for (const Point64& pt : p) { xs.insert(pt.x); ys.insert(pt.y); }
  if (xs.empty()) return true;

  Clipper64 c;
  c.PreserveCollinear(pc);
  c.AddSubject(subj);
  c.AddClip(clip);
  Paths64 sol;
  if (!c.Execute(ct, fr, sol)) { why = "Execute returned false"; return false; }

  // clause: every solution coordinate is an input coordinate
  for (const Path64& p : sol)
    for (const Point64& pt : p)
      if (!xs.count(pt.x) || !ys.count(pt.y))
      {
        why = "solution vertex (" + std::to_string(pt.x) + "," + std::to_string(pt.y) +
          ") has a coordinate that no input vertex has";
        return false;
      }

  // clause: exact cell coverage (cells of the lattice of spacing 'step')
  int64_t x0 = *xs.begin(), x1 = *xs.rbegin(), y0 = *ys.begin(), y1 = *ys.rbegin();
  __int128 expArea2 = 0; // twice the exact area
  for (int64_t y = y0 - step; y <= y1; y += step)
    for (int64_t x = x0 - step; x <= x1; x += step)
    {
      int64_t px = 2 * x + step, py = 2 * y + step; // doubled centre
      bool s = Filled(Winding(subj, px, py), fr);
      bool k = Filled(Winding(clip, px, py), fr);
      bool e = Selected(s, k, ct);
      if (e) expArea2 += (__int128)2 * step * step;
      int w = Winding(sol, px, py);
      bool gotNZ = (w != 0), gotEO = (w & 1) != 0;
      if (gotNZ != e || gotEO != e)
      {
        why = "cell [" + std::to_string(x) + "," + std::to_string(x + step) + "]x[" +
          std::to_string(y) + "," + std::to_string(y + step) + "]: expected " +
          (e ? "covered" : "empty") + ", solution winding there = " + std::to_string(w);
        return false;
      }
    }

  // clause: exact area
  __int128 a2 = 0; // twice the signed area, exact shoelace
  for (const Path64& p : sol)
    for (size_t i = 0, n = p.size(); i < n; ++i)
    {
      const Point64& u = p[i], & v = p[(i + 1) % n];
      a2 += (__int128)u.x * v.y - (__int128)v.x * u.y;
    }
  if (a2 < 0) a2 = -a2;
  if (a2 != expArea2)
  {
    why = "area " + std::to_string((double)a2 / 2) + " != exact area " + std::to_string((double)expArea2 / 2);
    return false;
  }
  return true;
}

static bool CheckAll(const Paths64& subj, const Paths64& clip, int64_t step, const char* tag)
{
  static const ClipType cts[] = { ClipType::Intersection, ClipType::Union, ClipType::Difference, ClipType::Xor };
  static const FillRule frs[] = { FillRule::EvenOdd, FillRule::NonZero, FillRule::Positive, FillRule::Negative };
  for (ClipType ct : cts)
    for (FillRule fr : frs)
      for (int pc = 0; pc < 2; ++pc)
      {
        std::string why;
        if (!CheckOne(subj, clip, step, ct, fr, pc != 0, why))
        {
          printf("VIOLATION (%s): %s / %s / PreserveCollinear=%d (lattice step %lld)\n", tag,
            CT_NAME[(int)ct], FR_NAME[(int)fr], pc, (long long)step);
          PrintPaths("subject", subj);
          PrintPaths("clip", clip);
          printf("  %s\n", why.c_str());
          Clipper64 c; c.PreserveCollinear(pc != 0); c.AddSubject(subj); c.AddClip(clip);
          Paths64 sol; c.Execute(ct, fr, sol);
          PrintPaths("solution", sol);
          return false;
        }
      }
  return true;
}


// deterministic PRNG
static uint64_t g_state = 0x9E3779B97F4A7C15ull;
static uint32_t Rnd(uint32_t n)
{
  g_state ^= g_state << 13; g_state ^= g_state >> 7; g_state ^= g_state << 17;
  return (uint32_t)((g_state >> 20) % n);
}

static Path64 MkRect(int64_t l, int64_t t, int64_t r, int64_t b, bool rev)
{
  Path64 p = { Point64(l, t), Point64(r, t), Point64(r, b), Point64(l, b) };
  if (rev) { Path64 q(p.rbegin(), p.rend()); return q; }
  return p;
}

// random closed rectilinear walk on the lattice {0..n}^2 (unscaled)
static Path64 RandWalk(int n, int steps)
{
  Path64 p;
  int64_t x = Rnd(n + 1), y = Rnd(n + 1);
  p.push_back(Point64(x, y));
  bool horz = Rnd(2) != 0;
  for (int i = 0; i < steps; ++i)
  {
    if (horz) x = Rnd(n + 1); else y = Rnd(n + 1);
    p.push_back(Point64(x, y));        // may repeat a point or continue collinearly
    if (Rnd(8) != 0) horz = !horz;     // mostly alternate, sometimes not
  }
  // close with axis-parallel edges
  if (x != p[0].x && y != p[0].y) p.push_back(Point64(p[0].x, y));
  return p;
}

static Paths64 Transform(const Paths64& pp, int64_t step, int64_t ox, int64_t oy)
{
  Paths64 r;
  for (const Path64& p : pp)
  {
    Path64 q;
    for (const Point64& pt : p) q.push_back(Point64(pt.x * step + ox, pt.y * step + oy));
    r.push_back(q);
  }
  return r;
}

int main(int argc, char** argv)
{
  int iterations = (argc > 1) ? atoi(argv[1]) : 14000;
  // ---- fixed cases -------------------------------------------------------
  {
    struct Fixed { Paths64 s, c; };
    std::vector<Fixed> fx;
    // two squares sharing an edge
    fx.push_back({ { MkRect(0,0,2,2,false) }, { MkRect(2,0,4,2,false) } });
    // identical squares, opposite orientation
    fx.push_back({ { MkRect(0,0,3,3,false) }, { MkRect(0,0,3,3,true) } });
    // touching corners
    fx.push_back({ { MkRect(0,0,2,2,false), MkRect(2,2,4,4,false) }, { MkRect(2,0,4,2,true) } });
    // overlapping with coincident top and bottom edges
    fx.push_back({ { MkRect(0,0,3,2,false) }, { MkRect(1,0,4,2,false) } });
    // nested with a shared side
    fx.push_back({ { MkRect(0,0,4,4,false) }, { MkRect(0,1,2,3,false) } });
    // zero-width section (spike) and repeated points
    fx.push_back({ { { Point64(0,0), Point64(4,0), Point64(4,2), Point64(6,2), Point64(4,2), Point64(4,4), Point64(0,4), Point64(0,4) } },
                   { MkRect(2,1,5,3,false) } });
    // self-overlapping walk (goes twice round)
    fx.push_back({ { { Point64(0,0), Point64(3,0), Point64(3,3), Point64(0,3), Point64(0,0), Point64(2,0), Point64(2,2), Point64(0,2) } },
                   { MkRect(1,1,4,4,false) } });
    // figure of eight
    fx.push_back({ { { Point64(0,0), Point64(2,0), Point64(2,4), Point64(4,4), Point64(4,2), Point64(0,2) } },
                   { MkRect(1,1,3,3,true) } });
    // stack of three with shared horizontals
    fx.push_back({ { MkRect(0,0,3,1,false), MkRect(1,1,4,2,false), MkRect(0,2,3,3,false) }, { MkRect(2,0,5,3,false) } });
    // a rectangle walked one and a half times against two clip rectangles that
    // share its horizontals (stale/isolated horizontal segments on two scanlines)
    fx.push_back({ { { Point64(1,0), Point64(1,2), Point64(2,2), Point64(2,0), Point64(1,0), Point64(1,2) } },
                   { MkRect(0,1,2,3,false), MkRect(1,1,2,2,false) } });
    // self-touching subject walk + rectangle, L-shaped clip; horizontals on several scanlines
    fx.push_back({ { { Point64(3,0), Point64(1,0), Point64(1,1), Point64(2,1), Point64(2,-2), Point64(1,-2), Point64(1,1), Point64(3,1) },
                     { Point64(1,1), Point64(1,0), Point64(3,0), Point64(3,1) } },
                   { { Point64(1,-1), Point64(3,-1), Point64(3,0), Point64(2,0), Point64(2,2), Point64(1,2) } } });
    for (size_t i = 0; i < fx.size(); ++i)
      for (int64_t step : { (int64_t)1, (int64_t)10, (int64_t)1000003 })
      {
        Paths64 s = Transform(fx[i].s, step, -3 * step, 7 * step);
        Paths64 c = Transform(fx[i].c, step, -3 * step, 7 * step);
        if (!CheckAll(s, c, step, "fixed")) return 1;
        if (!CheckAll(c, s, step, "fixed-swapped")) return 1;
      }
  }

  // ---- exhaustive: all rectangle pairs on a 4x4 grid --------------------
  {
    std::vector<Path64> rects;
    for (int l = 0; l < 4; ++l) for (int r = l + 1; r <= 4; ++r)
      for (int t = 0; t < 4; ++t) for (int b = t + 1; b <= 4; ++b)
        rects.push_back(MkRect(l, t, r, b, false));
    for (size_t i = 0; i < rects.size(); ++i)
      for (size_t j = 0; j < rects.size(); ++j)
      {
        Paths64 s = { rects[i] }, c = { rects[j] };
        if ((i + j) & 1) { Path64 q(c[0].rbegin(), c[0].rend()); c[0] = q; }
        if (!CheckAll(s, c, 1, "rect-pair")) return 1;
      }
  }

  // ---- deterministic pseudo-random sweep ---------------------------------
  for (int iter = 0; iter < iterations; ++iter)
  {
    int n = 3 + Rnd(4);                    // lattice {0..n}
    int ns = 1 + Rnd(3), nc = Rnd(3);
    Paths64 s, c;
    for (int i = 0; i < ns; ++i)
    {
      if (Rnd(3) == 0)
      {
        int l = Rnd(n), r = l + 1 + Rnd(n - l), t = Rnd(n), b = t + 1 + Rnd(n - t);
        s.push_back(MkRect(l, t, r, b, Rnd(2) != 0));
      }
      else s.push_back(RandWalk(n, 2 + Rnd(7)));
    }
    for (int i = 0; i < nc; ++i)
    {
      if (Rnd(3) == 0)
      {
        int l = Rnd(n), r = l + 1 + Rnd(n - l), t = Rnd(n), b = t + 1 + Rnd(n - t);
        c.push_back(MkRect(l, t, r, b, Rnd(2) != 0));
      }
      else c.push_back(RandWalk(n, 2 + Rnd(7)));
    }
    int64_t step = 1;
    switch (Rnd(4)) { case 1: step = 7; break; case 2: step = 1000; break; case 3: step = 100000007; break; default: break; }
    int64_t ox = ((int64_t)Rnd(7) - 3) * step, oy = ((int64_t)Rnd(7) - 3) * step;
    s = Transform(s, step, ox, oy);
    c = Transform(c, step, ox, oy);
    if (!CheckAll(s, c, step, "random")) { printf("  (random iteration %d)\n", iter); return 1; }
  }

  printf("C02 held on all %ld configurations tried\n", g_checks);
  return 0;
}
